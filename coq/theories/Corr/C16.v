(** Correspondence cases for C16: the model on binary64 against the implementation's outcome. *)
From Coq Require Import List Floats ZArith.
From Compute Require Export Base.Ops Base.ListMat Model.Interp.
Import ListNotations.

Inductive case :=
| CInterp (checked : bool) (x y tgt : list float) (m : mode float) (e : outcome (list float)).

Definition check (c : case) : bool :=
  match c with
  | CInterp ck x y tgt m e =>
      fout_eqb (opt_out (if ck then interp_checked FO0 x y tgt m else interp_unchecked FO0 x y tgt m)) e
  end.
