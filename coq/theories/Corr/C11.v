(** Correspondence cases for C11: the factorisation models on binary64 against the implementation's
    recorded outcome (bitwise).  Pivot vectors cross the boundary as [list nat] (inputs) and as floats
    appended to the data (outputs); a [Matrix] is [nr :: nc :: data]; a [bool] is [1.0] / [0.0]. *)
From Coq Require Import List Floats ZArith.
From Compute Require Export Base.Ops Base.ListMat Model.Reduce Model.MatMul Model.Subst Model.Cholesky Model.LU.
Import ListNotations.

Inductive case :=
(* slice forms *)
| CChol (a : list float) (e : outcome (list float))
| CTryChol (a : list float) (e : outcome (list float))
| CCholSolve (l b : list float) (e : outcome (list float))
| CLu (a : list float) (e : outcome (list float))
| CLuSolve (lu : list float) (piv : list nat) (b : list float) (e : outcome (list float))
| CFwd (l b : list float) (e : outcome (list float))
| CBwd (u b : list float) (e : outcome (list float))
| CIsSym (a : list float) (e : outcome (list float))
| CIsPD (a : list float) (e : outcome (list float))
| CParity (piv : list nat) (e : outcome (list float))
(* Matrix methods *)
| CCholM (r c : nat) (a : list float) (e : outcome (list float))
| CCholSolveM (r c : nat) (l b : list float) (e : outcome (list float))
| CCholSolveMM (r c : nat) (l : list float) (sr sc : nat) (s : list float) (e : outcome (list float))
| CLuM (r c : nat) (a : list float) (e : outcome (list float))
| CLuSolveM (r c : nat) (lu : list float) (piv : list nat) (b : list float) (e : outcome (list float))
| CLuSolveMM (r c : nat) (lu : list float) (piv : list nat) (sr sc : nat) (s : list float) (e : outcome (list float))
| CSolveM (r c : nat) (a b : list float) (e : outcome (list float))
| CSolveMM (r c : nat) (a : list float) (sr sc : nat) (s : list float) (e : outcome (list float))
| CFwdM (r c : nat) (l b : list float) (e : outcome (list float))
| CBwdM (r c : nat) (u b : list float) (e : outcome (list float))
| CDet (r c : nat) (a : list float) (e : outcome (list float))
| CLuDet (r c : nat) (a : list float) (piv : list nat) (e : outcome (list float))
| CIsSymM (r c : nat) (a : list float) (e : outcome (list float))
| CIsPDM (r c : nat) (a : list float) (e : outcome (list float)).

Definition mat_out (m : matrix (T:=float)) : list float :=
  float_ofZ (Z.of_nat (nr m)) :: float_ofZ (Z.of_nat (nc m)) :: dat m.
Definition mk (r c : nat) (d : list float) : matrix := {| nr := r; nc := c; dat := d |}.
Definition piv_out (p : list nat) : list float := map (fun k => float_ofZ (Z.of_nat k)) p.
Definition bool_out (b : bool) : list float := [if b then 1%float else 0%float].
Definition one_out (x : float) : list float := [x].

(** [try_cholesky]: [Some l] is sent as [1 :: l], [None] as [[0]] *)
Definition tc_out (r : option (list float)) : list float :=
  match r with Some l => 1%float :: l | None => [0%float] end.

Definition check (c : case) : bool :=
  match c with
  | CChol a e => fout_eqb (opt_out (cholesky FO0 a)) e
  | CTryChol a e => fout_eqb (opt_out (option_map tc_out (try_cholesky FO0 a))) e
  | CCholSolve l b e => fout_eqb (opt_out (cholesky_solve FO0 l b)) e
  | CLu a e => fout_eqb (opt_out (option_map (fun r => fst r ++ piv_out (snd r)) (lu FO0 a))) e
  | CLuSolve l p b e => fout_eqb (opt_out (lu_solve FO0 l p b)) e
  | CFwd l b e => fout_eqb (opt_out (forward_substitution FO0 l b)) e
  | CBwd u b e => fout_eqb (opt_out (backward_substitution FO0 u b)) e
  | CIsSym a e => fout_eqb (opt_out (option_map bool_out (is_symmetric FO0 a))) e
  | CIsPD a e => fout_eqb (opt_out (option_map bool_out (is_positive_definite FO0 a))) e
  | CParity p e => fout_eqb (opt_out (option_map (fun s => [float_ofZ s]) (ipiv_parity p))) e
  | CCholM r c a e => fout_eqb (opt_out (option_map mat_out (matrix_cholesky FO0 (mk r c a)))) e
  | CCholSolveM r c l b e => fout_eqb (opt_out (matrix_cholesky_solve FO0 (mk r c l) b)) e
  | CCholSolveMM r c l sr sc s e =>
      fout_eqb (opt_out (option_map mat_out (matrix_cholesky_solve_mat FO0 (mk r c l) (mk sr sc s)))) e
  | CLuM r c a e =>
      fout_eqb (opt_out (option_map (fun x => mat_out (fst x) ++ piv_out (snd x)) (matrix_lu FO0 (mk r c a)))) e
  | CLuSolveM r c l p b e => fout_eqb (opt_out (matrix_lu_solve FO0 (mk r c l) p b)) e
  | CLuSolveMM r c l p sr sc s e =>
      fout_eqb (opt_out (option_map mat_out (matrix_lu_solve_mat FO0 (mk r c l) p (mk sr sc s)))) e
  | CSolveM r c a b e => fout_eqb (opt_out (matrix_solve FO0 (mk r c a) b)) e
  | CSolveMM r c a sr sc s e =>
      fout_eqb (opt_out (option_map mat_out (matrix_solve_mat FO0 (mk r c a) (mk sr sc s)))) e
  | CFwdM r c l b e => fout_eqb (opt_out (matrix_forward_substitution FO0 (mk r c l) b)) e
  | CBwdM r c u b e => fout_eqb (opt_out (matrix_backward_substitution FO0 (mk r c u) b)) e
  | CDet r c a e => fout_eqb (opt_out (option_map one_out (matrix_det FO0 (mk r c a)))) e
  | CLuDet r c a p e => fout_eqb (opt_out (option_map one_out (matrix_lu_det FO0 (mk r c a) p))) e
  | CIsSymM r c a e => fout_eqb (Val (bool_out (matrix_is_symmetric FO0 (mk r c a)))) e
  | CIsPDM r c a e => fout_eqb (Val (bool_out (matrix_is_positive_definite FO0 (mk r c a)))) e
  end.
