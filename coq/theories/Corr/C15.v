(** Correspondence cases for C15: the model on binary64 against the implementation, bit for bit.
    Programs are compared in lock-step: the trace holds the whole state after every step. *)
From Coq Require Import List Floats ZArith Bool.
From Compute Require Export Base.Ops Base.ListMat Model.Shape Spec.Shape.
Import ListNotations.

(** encoded operations (closures are one of three fixed functions) *)
Inductive cop :=
| KT | KTMut | KReshape (r c : Z) | KReshapeMut (r c : Z)
| KHcat (od : list float) (r c : Z) | KVcat (od : list float) (r c : Z)
| KHrepeat (n : nat) | KVrepeat (n : nat) | KGetRow (i : nat) | KGetCol (j : nat)
| KApplyRow (i k : nat) | KApplyCol (j k : nat)
| KFlatIdx (k : nat) | KFlatSet (k : nat) (v : float) | KIdx (i j : nat) | KIdxSet (i j : nat) (v : float)
| KRowSlice (i : nat) | KDiag | KToVecReshape (r c : Z) | KToVecToMatrix | KRowToCol | KColToRow.

Inductive case :=
| CProg (a : list float) (r c : Z) (ops : list cop) (trace : list float) (panicked : bool)
(* a program that starts from, or passes through, a matrix WITHOUT elements (the empty 0 x 0 matrix, or the degenerate
   0 x c / r x 0 shapes an inferred dimension produces on empty data): the model alone is compared -- the rows-of-rows
   reference is about positive shapes (a list of rows cannot carry the column count of a matrix without rows) *)
| CProgE (a : list float) (r c : Z) (ops : list cop) (trace : list float) (panicked : bool)
| CNew (a : list float) (r c : Z) (e : outcome (list float))
| CEye (n : nat) (e : outcome (list float))
| CZeros (r c : nat) (e : outcome (list float))
| COnes (r c : nat) (e : outcome (list float))
| CDiagMatrix (a : list float) (e : outcome (list float))
| CToeplitz (a : list float) (e : outcome (list float))
| CVandermonde (a : list float) (n : nat) (e : outcome (list float))
| CDesign (x : list float) (rows : nat) (e : outcome (list float))
| CLinspace (a b : float) (n : nat) (e : outcome (list float))
| CArange (t : libm_table) (start stop step : float) (e : outcome (list float))
| CRot (t : libm_table) (cw : bool) (axis : nat) (angle : float) (e : outcome (list float))
| CTranspose (a : list float) (nr : nat) (e : outcome (list float))
| CRowToCol (a : list float) (nr : nat) (e : outcome (list float))
| CColToRow (a : list float) (nr : nat) (e : outcome (list float))
| CIsDesign (a : list float) (nr : nat) (e : outcome (list float))
| CIsSquareU (len : nat) (e : outcome (list float))
| CIsSymU (a : list float) (e : outcome (list float))
| CDiagU (a : list float) (e : outcome (list float))
| CPred (r c : nat) (a : list float) (e : outcome (list float))
| CCmpV (x y : list float) (tol : float) (e : outcome (list float))
| CCmpM (r1 r2 : nat) (x y : list float) (tol : float) (e : outcome (list float)).

Definition fn_of (k : nat) : float -> float :=
  match k with
  | 0 => neg FO0
  | 1 => fun x => add FO0 x (one FO0)
  | _ => fun x => mul FO0 x (two FO0)
  end.

Definition decode (k : cop) : op (T:=float) :=
  match k with
  | KT => OT | KTMut => OTMut | KReshape r c => OReshape r c | KReshapeMut r c => OReshapeMut r c
  | KHcat od r c => OHcat od r c | KVcat od r c => OVcat od r c
  | KHrepeat n => OHrepeat n | KVrepeat n => OVrepeat n | KGetRow i => OGetRow i | KGetCol j => OGetCol j
  | KApplyRow i k => OApplyRow i (fn_of k) | KApplyCol j k => OApplyCol j (fn_of k)
  | KFlatIdx k => OFlatIdx k | KFlatSet k v => OFlatSet k v | KIdx i j => OIdx i j | KIdxSet i j v => OIdxSet i j v
  | KRowSlice i => ORowSlice i | KDiag => ODiag | KToVecReshape r c => OToVecReshape r c
  | KToVecToMatrix => OToVecToMatrix | KRowToCol => ORowToCol | KColToRow => OColToRow
  end.

Definition fnat (n : nat) : float := float_ofZ (Z.of_nat n).
Definition mat_out (m : mat float) : list float := fnat (nrows m) :: fnat (ncols m) :: data m.
Definition fbool (b : bool) : float := if b then 1%float else 0%float.

(** the model's trace: after every completed step the state and the step's output; [true] when a step panics *)
Fixpoint trace (m : mat float) (ops : list cop) : list float * bool :=
  match ops with
  | [] => ([], false)
  | k :: ops' =>
      match step FO0 m (decode k) with
      | None => ([], true)
      | Some (m1, out) => let (tr, p) := trace m1 ops' in (mat_out m1 ++ out ++ tr, p)
      end
  end.

(** the same trace computed by the rows-of-rows reference model *)
Definition rows_out (A : list (list float)) : list float :=
  fnat (length A) :: fnat (length (hd [] A)) :: concat A.
Fixpoint ref_trace (A : list (list float)) (ops : list cop) : list float * bool :=
  match ops with
  | [] => ([], false)
  | k :: ops' =>
      match ref_step 0%float A (decode k) with
      | None => ([], true)
      | Some (A1, out) => let (tr, p) := ref_trace A1 ops' in (rows_out A1 ++ out ++ tr, p)
      end
  end.

Definition check (c : case) : bool :=
  match c with
  | CProg a r c ops tr p =>
      match new a r c with
      | None => false
      | Some m =>
          let (tr1, p1) := trace m ops in
          let (tr2, p2) := ref_trace (rows_of_mat m) ops in
          fl_eqb (mat_out m ++ tr1) tr && Bool.eqb p1 p && fl_eqb (mat_out m ++ tr2) tr && Bool.eqb p2 p
      end
  | CProgE a r c ops tr p =>
      match new a r c with
      | None => false
      | Some m => let (tr1, p1) := trace m ops in fl_eqb (mat_out m ++ tr1) tr && Bool.eqb p1 p
      end
  | CNew a r c e => fout_eqb (opt_out (option_map mat_out (new a r c))) e
  | CEye n e => fout_eqb (opt_out (option_map mat_out (eye FO0 n))) e
  | CZeros r c e => fout_eqb (opt_out (option_map mat_out (zeros FO0 r c))) e
  | COnes r c e => fout_eqb (opt_out (option_map mat_out (ones FO0 r c))) e
  | CDiagMatrix a e => fout_eqb (Val (diag_matrix FO0 a)) e
  | CToeplitz a e => fout_eqb (Val (toeplitz FO0 a)) e
  | CVandermonde a n e => fout_eqb (Val (vandermonde FO0 a n)) e
  | CDesign x rows e => fout_eqb (opt_out (design FO0 x rows)) e
  | CLinspace a b n e => fout_eqb (Val (linspace FO0 a b n)) e
  | CArange t start stop step e => fout_eqb (Val (arange (FO t) start stop step)) e
  | CRot t cw axis angle e => fout_eqb (opt_out (option_map mat_out (rotation (FO t) cw axis angle))) e
  | CTranspose a nr e => fout_eqb (opt_out (transpose_flat FO0 a nr)) e
  | CRowToCol a nr e => fout_eqb (opt_out (row_to_col_major FO0 a nr)) e
  | CColToRow a nr e => fout_eqb (opt_out (col_to_row_major FO0 a nr)) e
  | CIsDesign a nr e => fout_eqb (opt_out (option_map (fun b => [fbool b]) (is_design FO0 a nr))) e
  | CIsSquareU len e =>
      fout_eqb (Val [match is_square_u len with Some n => fnat n | None => (-1)%float end]) e
  | CIsSymU a e => fout_eqb (opt_out (option_map (fun b => [fbool b]) (is_symmetric_u FO0 a))) e
  | CDiagU a e => fout_eqb (opt_out (diag_u FO0 a)) e
  | CPred r c a e =>
      let m := mkMat r c a in
      fout_eqb (Val [fbool (is_square m); fbool (is_symmetric FO0 m); fbool (is_upper_triangular FO0 m);
                     fbool (is_lower_triangular FO0 m)]) e
  | CCmpV x y tol e => fout_eqb (Val [fbool (close_to_v FO0 x y tol); fbool (eq_v FO0 x y)]) e
  | CCmpM r1 r2 x y tol e =>
      match new x (Z.of_nat r1) (-1), new y (Z.of_nat r2) (-1) with
      | Some a, Some b => fout_eqb (Val [fbool (close_to_m FO0 a b tol); fbool (eq_m FO0 a b)]) e
      | _, _ => false
      end
  end.
