(** Correspondence cases for C10: the optimiser models on binary64, with the executable [reverse]
    tape ([Base/Tape.v]) as gradient, against the implementation's outcome.

    LM, END-TO-END cases ([CLmE]): no table of inner solves.  [damped.solve(jtr)] and [jtj.inv()] are computed
    by C01's executable models of [Solve<Vector>::solve] and [Matrix::inv] ([mat_solve_vec], [mat_inv],
    Model/SolveInst.v: LU with partial pivoting, substitutions) on binary64, so whole LM runs (residuals and
    Jacobians through the tape, normal equations, damping, LU solve, gain ratio, covariance) are reproduced
    bit for bit by one Gallina term.  The recorded-table cases [CLm] are kept: they localise a disagreement. *)
From Coq Require Import List Floats ZArith Bool.
From Compute Require Export Base.Ops Base.ListMat Base.Tape Model.Reduce Model.MatMul Model.Optim
  Model.Subst Model.Cholesky Model.LU Model.Solve Model.SolveInst Model.LMTape.
Import ListNotations.

Definition runs := list (nat * outcome (list float)).

Inductive case :=
(* value :: gradient of a program on the tape (leaf parameters, or Nesterov's look-ahead nodes) *)
| CGrad (e : expr float) (data : list (list float)) (ps : list float) (la : bool)
        (out : outcome (list float)) (tbl : libm_table)
| CAdam (e : expr float) (data : list (list float)) (st b1 b2 eps : float) (ps : list float)
        (rs : runs) (tbl : libm_table)
| CSgd (e : expr float) (data : list (list float)) (st mom : float) (nest : bool) (ps : list float)
       (rs : runs) (tbl : libm_table)
(* [solves]: recorded calls [damped.solve(jtr)] as (matrix data, rhs, result);
   [invs]: recorded calls [jtj.inv()] as (matrix data, result data) *)
| CLm (e : expr float) (data : list (list float)) (eps1 eps2 tau : float) (ps : list float) (rs : runs)
      (solves : list (list float * list float * list float)) (invs : list (list float * list float))
      (tbl : libm_table)
(* the same runs with the inner solves computed by C01's model instead of looked up *)
| CLmE (e : expr float) (data : list (list float)) (eps1 eps2 tau : float) (ps : list float) (rs : runs)
       (tbl : libm_table).

Section WithTable.
  Variable tbl : libm_table.
  Let F := FO tbl.

  Definition total (g : list float -> option (list float)) (x : list float) : list float :=
    match g x with Some v => v | None => [] end.

  Definition grad_of (e : expr float) (data : list (list float)) (la : bool) :=
    if la then tape_grad_la F e data else tape_grad F e data.

  (** a program panics (index out of range) independently of the parameter values *)
  Definition run_grad (e : expr float) data (la : bool) (ps : list float) : outcome (list float) :=
    match tape_val F e data ps, grad_of e data la ps with
    | Some v, Some g => Val (v :: g)
    | _, _ => Panic
    end.

  Definition run_adam e data (h : adam_hp (T:=float)) (ps : list float) (k : nat) : outcome (list float) :=
    if negb (PrimFloat.ltb 0 (a_b1 h) && PrimFloat.ltb 0 (a_b2 h)) then Panic   (* [Adam::new] asserts *)
    else match k with
         | 0 => Val ps
         | _ => match tape_grad F e data ps with
                | None => Panic
                | Some _ => Val (adam F (total (tape_grad F e data)) h k ps)
                end
         end.

  Definition run_sgd e data (h : sgd_hp (T:=float)) (ps : list float) (k : nat) : outcome (list float) :=
    match k with
    | 0 => Val ps
    | _ => match grad_of e data (s_nesterov h) ps with
           | None => Panic
           | Some _ => Val (sgd F (total (grad_of e data (s_nesterov h))) h k ps)
           end
    end.

  (** ** LM on the tape: [lm_resid], [lm_jac0], [lm_jac1] of Model/LMTape.v (generic over the carrier; the
      theorems of Proofs/C10_lm_tape.v are about the same terms at [RO]) run at [F] *)

  Definition lookup_solve (t : list (list float * list float * list float))
             (m : matrix (T:=float)) (b : list float) : option (list float) :=
    let fix go t := match t with
                    | [] => None
                    | (a, b', x) :: t' => if fl_eqb a (dat m) && fl_eqb b' b then Some x else go t'
                    end in go t.
  Definition lookup_inv (t : list (list float * list float)) (m : matrix (T:=float)) : option (list float) :=
    let fix go t := match t with
                    | [] => None
                    | (a, x) :: t' => if fl_eqb a (dat m) then Some x else go t'
                    end in go t.

  Definition run_lm e (data : list (list float)) (h : lm_hp (T:=float)) solves invs (ps : list float) (k : nat)
    : outcome (list float) :=
    match data with
    | [xs; ys] =>
        if negb (length xs =? length ys) then Panic
        else opt_out (option_map (fun r => fst r ++ snd r)
               (lm F (lm_resid F e xs ys) (lm_jac0 F e xs) (lm_jac1 F e xs)
                   (lookup_solve solves) (lookup_inv invs) h k ps))
    | _ => Panic
    end.

  Definition run_lm_e2e e (data : list (list float)) (h : lm_hp (T:=float)) (ps : list float) (k : nat)
    : outcome (list float) :=
    match data with
    | [xs; ys] =>
        if negb (length xs =? length ys) then Panic
        else opt_out (option_map (fun r => fst r ++ snd r)
               (lm F (lm_resid F e xs ys) (lm_jac0 F e xs) (lm_jac1 F e xs)
                   (mat_solve_vec F) (fun m => option_map (@dat float) (mat_inv F m)) h k ps))
    | _ => Panic
    end.
End WithTable.

Definition check_runs (f : nat -> outcome (list float)) (rs : runs) : bool :=
  forallb (fun r => fout_eqb (f (fst r)) (snd r)) rs.

Definition check (c : case) : bool :=
  match c with
  | CGrad e data ps la out tbl => fout_eqb (run_grad tbl e data la ps) out
  | CAdam e data st b1 b2 eps ps rs tbl =>
      check_runs (run_adam tbl e data {| a_step := st; a_b1 := b1; a_b2 := b2; a_eps := eps |} ps) rs
  | CSgd e data st mom nest ps rs tbl =>
      check_runs (run_sgd tbl e data {| s_step := st; s_mom := mom; s_nesterov := nest |} ps) rs
  | CLm e data eps1 eps2 tau ps rs solves invs tbl =>
      check_runs (run_lm tbl e data {| l_eps1 := eps1; l_eps2 := eps2; l_tau := tau |} solves invs ps) rs
  | CLmE e data eps1 eps2 tau ps rs tbl =>
      check_runs (run_lm_e2e tbl e data {| l_eps1 := eps1; l_eps2 := eps2; l_tau := tau |} ps) rs
  end.
