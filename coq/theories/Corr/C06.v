(** Correspondence cases for C06: the GLM model on binary64 with the recorded libm table; the inner
    [solve] / [invert_matrix] are answered from the recorded calls of the crate's own functions
    (bit-equal argument; a miss is a disagreement: the model is run with two different miss values).

    END-TO-END cases ([CFitE]): nothing but libm is recorded.  [solve] and [inv] are C01's executable models
    of [solve] and [invert_matrix] ([slice_solve], [slice_invert], Model/SolveInst.v) run on binary64, so one
    scoring step from an observed state, whole fits, the covariance matrix / standard errors and the
    predictions are reproduced bit for bit by one Gallina term.  The recorded-table cases are kept: they
    localise a disagreement (inside the linear solve / around it). *)
From Coq Require Import List Floats ZArith Bool.
From Compute Require Export Base.Ops Base.ListMat Model.Reduce Model.MatMul Generated.glm_families Model.GLM
  Model.Subst Model.Cholesky Model.LU Model.Solve Model.SolveInst.
Import ListNotations.

Definition solve_tbl := list (list float * list float * outcome (list float)).
Definition inv_tbl := list (list float * outcome (list float)).

Definition out_opt (o : outcome (list float)) : option (list float) :=
  match o with Val v => Some v | Panic => None end.

(** [miss]: value returned when the argument was never passed to the crate's routine *)
Fixpoint lookup_solve (miss : float) (t : solve_tbl) (a b : list float) : option (list float) :=
  match t with
  | [] => Some (map (fun _ => miss) b)
  | (a', b', r) :: t' => if fl_eqb a a' && fl_eqb b b' then out_opt r else lookup_solve miss t' a b
  end.
Fixpoint lookup_inv (miss : float) (t : inv_tbl) (a : list float) : option (list float) :=
  match t with
  | [] => Some (map (fun _ => miss) a)
  | (a', r) :: t' => if fl_eqb a a' then out_opt r else lookup_inv miss t' a
  end.

Inductive case :=
| CFam (t : libm_table) (which : nat) (f : family) (a b c : list float) (alpha : float) (e : outcome (list float))
| CFit (t : libm_table) (st : solve_tbl) (it : inv_tbl) (f : family) (alpha tol : float)
       (w off : option (list float)) (x y : list float) (max_iter : nat)
       (start : option (list float * float)) (xnew : list float)
       (e_fit e_cov e_pred : outcome (list float))
| CFitE (t : libm_table) (f : family) (alpha tol : float)
       (w off : option (list float)) (x y : list float) (max_iter : nat)
       (start : option (list float * float)) (xnew : list float)
       (e_fit e_cov e_pred : outcome (list float)).

Definition b2f (b : bool) : float := if b then 0%float else 1%float.

Definition check_fit (miss : float) (t : libm_table) (st : solve_tbl) (it : inv_tbl) (f : family) (alpha tol : float)
       (w off : option (list float)) (x y : list float) (max_iter : nat)
       (start : option (list float * float)) (xnew : list float)
       (e_fit e_cov e_pred : outcome (list float)) : bool :=
  let O := FO t in
  let iv := lookup_inv miss it in
  match fit_from O (lookup_solve miss st) f alpha tol w off x y max_iter start with
  | None => fout_eqb Panic e_fit
  | Some ft =>
      fout_eqb (opt_out (let* d := dispersion O f ft in
                         Some (b2f (f_ok ft) :: f_coef ft ++ [f_dev ft; aic O ft; bic O ft; d]))) e_fit
      && fout_eqb (opt_out (let* c := coef_covariance_matrix O iv f ft in
                            let* s := coef_standard_error O iv f ft in Some (c ++ s))) e_cov
      && fout_eqb (opt_out (predict O f off ft xnew)) e_pred
  end.

(** the same comparison with the inner routines computed by C01's model instead of looked up *)
Definition check_fit_e2e (t : libm_table) (f : family) (alpha tol : float)
       (w off : option (list float)) (x y : list float) (max_iter : nat)
       (start : option (list float * float)) (xnew : list float)
       (e_fit e_cov e_pred : outcome (list float)) : bool :=
  let O := FO t in
  let iv := slice_invert O in
  match fit_from O (slice_solve O) f alpha tol w off x y max_iter start with
  | None => fout_eqb Panic e_fit
  | Some ft =>
      fout_eqb (opt_out (let* d := dispersion O f ft in
                         Some (b2f (f_ok ft) :: f_coef ft ++ [f_dev ft; aic O ft; bic O ft; d]))) e_fit
      && fout_eqb (opt_out (let* c := coef_covariance_matrix O iv f ft in
                            let* s := coef_standard_error O iv f ft in Some (c ++ s))) e_cov
      && fout_eqb (opt_out (predict O f off ft xnew)) e_pred
  end.

Definition check (c : case) : bool :=
  match c with
  | CFam t which f a b c alpha e =>
      let O := FO t in
      fout_eqb (match which with
                | 0 => Val (variance O f a)
                | 1 => Val (inv_link O f a)
                | 2 => Val (d_inv_link O f a b)
                | 3 => opt_out (option_map (fun v => [v]) (deviance O f a b))
                | _ => opt_out (option_map (fun v => [v]) (penalized_deviance O f a b alpha c))
                end) e
  | CFit t st it f alpha tol w off x y max_iter start xnew e_fit e_cov e_pred =>
      check_fit nan t st it f alpha tol w off x y max_iter start xnew e_fit e_cov e_pred
      && check_fit 0%float t st it f alpha tol w off x y max_iter start xnew e_fit e_cov e_pred
  | CFitE t f alpha tol w off x y max_iter start xnew e_fit e_cov e_pred =>
      check_fit_e2e t f alpha tol w off x y max_iter start xnew e_fit e_cov e_pred
  end.
