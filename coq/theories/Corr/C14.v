(** Correspondence cases for C14: the model on binary64 against the implementation's outcome.

    The inner solve is not modelled: every [fit] carries the record [r] of the crate's own public
    [invert_matrix] on the argument the harness recomputed with the crate's public [vandermonde] and
    [xtx] ([NoCall]: a panic precedes the call).  The check demands (i) that the model reaches the call
    exactly when the record exists and passes a BIT-EQUAL argument (a miss is a disagreement), and
    (ii) that the model, with [inv] answered from the record, reproduces the implementation's outcome
    bit for bit.  So the dataflow into and out of the solve is checked.

    END-TO-END cases ([CFitE], [CSeqE]): nothing is recorded.  [inv] is C01's executable model of
    [invert_matrix] ([slice_invert], Model/SolveInst.v: routing predicate, fallible Cholesky sweep, LU
    fall-back, substitutions, row/column-major conversions) run on binary64, so the whole of
    [PolynomialRegressor::fit] (and whole programs of fits and predictions) is reproduced bit for bit by one
    Gallina term.  The recorded-table cases are kept: when an end-to-end case disagrees they tell whether
    the disagreement is inside the solve (table case agrees) or around it. *)
From Coq Require Import List Floats ZArith Bool.
From Compute Require Export Base.Ops Base.ListMat Model.Reduce Model.MatMul Model.Poly
  Model.Subst Model.Cholesky Model.LU Model.Solve Model.SolveInst.
Import ListNotations.

Inductive rec := NoCall | Call (arg : list float) (res : outcome (list float)).

Inductive cop :=
| KFit (x y : list float) (r : rec)
| KPredict (x : list float)
| KSet (c : list float).

Inductive case :=
| CVander (x : list float) (n : nat) (e : outcome (list float))
| CPredict (coef x : list float) (e : outcome (list float))
| CFit (k : nat) (x y : list float) (r : rec) (e : outcome (list float))
| CSeq (deg : nat) (ops : list cop) (e : outcome (list float))
| CFitE (k : nat) (x y : list float) (e : outcome (list float))
| CSeqE (deg : nat) (ops : list cop) (e : outcome (list float)).

Definition inv_of (r : rec) (a : list float) : option (list float) :=
  match r with
  | NoCall => None
  | Call arg res => if fl_eqb arg a then match res with Val v => Some v | Panic => None end else None
  end.

(** the model reaches [invert_matrix] iff the record exists, and with the recorded argument *)
Definition hit (k : nat) (x y : list float) (r : rec) : bool :=
  match fit_gram FO0 k x y, r with
  | None, NoCall => true
  | Some g, Call a _ => fl_eqb g a
  | _, _ => false
  end.

Definition to_op (o : cop) : op (T:=float) :=
  match o with KFit x y _ => OFit x y | KPredict x => OPredict x | KSet c => OSetCoef c end.
Definition rec_of (o : cop) : rec := match o with KFit _ _ r => r | _ => NoCall end.
Definition hit_op (coef : list float) (o : cop) : bool :=
  match o with KFit x y r => hit (length coef) x y r | _ => true end.

(** run a program step by step with each fit's own record; [(all hits ok, outputs or panic)] *)
Fixpoint crun (coef : list float) (ops : list cop) : bool * option (list float) :=
  match ops with
  | [] => (true, Some [])
  | o :: ops' =>
      let h := hit_op coef o in
      match step FO0 (inv_of (rec_of o)) coef (to_op o) with
      | None => (h, None)
      | Some (coef', out) =>
          let '(h', r) := crun coef' ops' in
          (h && h', option_map (fun outs => out ++ outs) r)
      end
  end.

Definition check (c : case) : bool :=
  match c with
  | CVander x n e => fout_eqb (Val (vandermonde FO0 x n)) e
  | CPredict coef x e => fout_eqb (Val (predict FO0 coef x)) e
  | CFit k x y r e => hit k x y r && fout_eqb (opt_out (fit FO0 (inv_of r) k x y)) e
  | CSeq deg ops e => let '(h, r) := crun (new FO0 deg) ops in h && fout_eqb (opt_out r) e
  | CFitE k x y e => fout_eqb (opt_out (fit FO0 (slice_invert FO0) k x y)) e
  | CSeqE deg ops e =>
      fout_eqb (opt_out (option_map snd (run FO0 (slice_invert FO0) (new FO0 deg) (map to_op ops)))) e
  end.
