(** Correspondence cases for C07: the quadrature models on binary64 against the implementation's outcome.
    Polynomial integrands are coefficient lists evaluated by Horner's rule on both sides; the integrands
    that call libm ([catalogue]) run on [FO tbl] with the table recorded from the real run. *)
From Coq Require Import List Floats ZArith.
From Compute Require Export Base.Ops Base.ListMat Model.Quad.
Import ListNotations.

Inductive case :=
| CTrapz (p : list float) (a b : float) (n : nat) (e : outcome (list float))
| CRomberg (p : list float) (a b eps : float) (nmax : nat) (e : outcome (list float))
| CQuad5 (p : list float) (a b : float) (e : outcome (list float))
| CTrapzF (t : libm_table) (id : nat) (a b : float) (n : nat) (e : outcome (list float))
| CRombergF (t : libm_table) (id : nat) (a b eps : float) (nmax : nat) (e : outcome (list float))
| CQuad5F (t : libm_table) (id : nat) (a b : float) (e : outcome (list float))
| CSamples (y : list float) (x : option (list float)) (dx : option float) (e : outcome (list float)).

Definition one_out (x : float) : outcome (list float) := Val [x].
Definition opt1 (o : option float) : outcome (list float) := opt_out (option_map (fun v => [v]) o).

Definition check (c : case) : bool :=
  match c with
  | CTrapz p a b n e => fout_eqb (one_out (trapz FO0 (horner FO0 p) a b n)) e
  | CRomberg p a b eps nmax e => fout_eqb (opt1 (romberg FO0 (horner FO0 p) a b eps nmax)) e
  | CQuad5 p a b e => fout_eqb (one_out (quad5 FO0 (horner FO0 p) a b)) e
  | CTrapzF t id a b n e => fout_eqb (one_out (trapz (FO t) (catalogue (FO t) id) a b n)) e
  | CRombergF t id a b eps nmax e => fout_eqb (opt1 (romberg (FO t) (catalogue (FO t) id) a b eps nmax)) e
  | CQuad5F t id a b e => fout_eqb (one_out (quad5 (FO t) (catalogue (FO t) id) a b)) e
  | CSamples y x dx e => fout_eqb (opt1 (trapezoid FO0 y x dx)) e
  end.
