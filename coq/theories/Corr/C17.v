(** Correspondence cases for C17: transforms on binary64 with the recorded libm table; [binom_coeff] on [N]
    in the mode of the build that produced the case ([dbg = true]: overflow checks on, [Trap]). *)
From Coq Require Import List Floats ZArith NArith.
From Compute Require Export Base.Ops Model.Transforms Model.Binom Model.BinomAlt.
Import ListNotations.

Inductive case :=
| CLogistic (t : libm_table) (x : float) (e : outcome (list float))
| CLogit (t : libm_table) (p : float) (e : outcome (list float))
| CBoxcox (t : libm_table) (x lambda : float) (e : outcome (list float))
| CBoxcoxShifted (t : libm_table) (x lambda alpha : float) (e : outcome (list float))
| CSoftmax (t : libm_table) (x : list float) (e : outcome (list float))
| CBinom (dbg : bool) (n k : N) (e : outcome N)
| CBinomAlt (t : libm_table) (n k : N) (e : outcome N).

(** Rust's saturating [f64 as u64]: NaN and negatives -> 0, values >= 2^64 -> u64::MAX, else truncation *)
Definition float_to_u64 (x : float) : N :=
  match Prim2SF x with
  | S754_zero _ | S754_nan => 0%N
  | S754_infinity s => if s then 0%N else MAX64
  | S754_finite s m e =>
      if s then 0%N
      else N.min MAX64 (match e with
                        | Z0 => Npos m
                        | Zpos k => (Npos m * 2 ^ Npos k)%N
                        | Zneg k => (Npos m / 2 ^ Npos k)%N
                        end)
  end.

Definition one_out (x : float) : outcome (list float) := Val [x].
Definition opt1 (o : option float) : outcome (list float) := opt_out (option_map (fun v => [v]) o).

Definition check (c : case) : bool :=
  match c with
  | CLogistic t x e => fout_eqb (one_out (logistic (FO t) x)) e
  | CLogit t p e => fout_eqb (opt1 (logit (FO t) p)) e
  | CBoxcox t x l e => fout_eqb (opt1 (boxcox (FO t) x l)) e
  | CBoxcoxShifted t x l a e => fout_eqb (opt1 (boxcox_shifted (FO t) x l a)) e
  | CSoftmax t x e => fout_eqb (Val (softmax (FO t) x)) e
  | CBinom dbg n k e => out_eqb N.eqb (opt_out (binom_coeff (if dbg then Trap else Wrap) n k)) e
  | CBinomAlt t n k e =>
      out_eqb N.eqb (if (k <=? n)%N then Val (float_to_u64 (binom_alt_rounded (FO t) (Z.of_N n) (Z.of_N k))) else Panic) e
  end.
