(** Correspondence cases for C19: the resampling models on binary64, driven by the executable
    `alea` model (Base/Rng.v) from the SAME seed as the implementation; outputs and the final
    generator state must agree bit for bit. *)
From Coq Require Import List Floats ZArith NArith Bool.
From Compute Require Export Base.Ops Base.ListMat Base.Rng Model.Resample.
Import ListNotations.

Inductive case :=
| CU64 (seed : N) (e : list N) (st : N)                         (* alea::u64() x |e| *)
| CF64 (seed : N) (e : list float) (st : N)                     (* alea::f64() x |e| *)
| CLess (seed : N) (max : N) (e : list N) (st : N)              (* alea::u64_less_than(max) x |e| *)
| CIRange (seed : N) (lo hi : Z) (k : nat) (e : outcome (list Z)) (st : N)   (* alea::i64_in_range x k *)
| CURange (seed : N) (lo hi : N) (k : nat) (e : outcome (list N)) (st : N)   (* alea::u64_in_range x k *)
| CDU (seed : N) (lo hi : Z) (k : nat) (e : outcome (list float)) (st : N)   (* DiscreteUniform::new(lo,hi).sample_n(k) *)
| CBoot (seed : N) (data : list float) (nb : nat) (e : outcome (list float)) (st : N)
| CJack (data : list float) (e : outcome (list float))
| CShuf (seed : N) (data : list float) (e : outcome (list float)) (st : N)
| CShuf2 (seed : N) (a b : list float) (e : outcome (list float)) (st : N).

(** re-draws allowed per range sample; a run out of fuel is a disagreement, never a match *)
Definition FUEL := 4096%nat.

Definition nlist_eqb := list_eqb N.eqb.
Definition zlist_eqb := list_eqb Z.eqb.

(** nested result -> flat list: count, then every row as (len, elements...) *)
Definition flat_rows (rows : list (list float)) : list float :=
  float_ofZ (Z.of_nat (length rows)) :: concat (map (fun r => float_ofZ (Z.of_nat (length r)) :: r) rows).

Fixpoint repeat_res {A} (f : rng -> res (A * rng)) (k : nat) (s : rng) : res (list A * rng) :=
  match k with
  | O => Ok ([], s)
  | S k' => res_bind (f s) (fun p => res_bind (repeat_res f k' (snd p)) (fun q => Ok (fst p :: fst q, snd q)))
  end.

(** compare a model result (value + final state) with the implementation's outcome.  After a panic
    the implementation's state is not compared (the model does not define it). *)
Definition agree {A} (eqb : A -> A -> bool) (m : res (A * rng)) (e : outcome A) (st : N) : bool :=
  match m, e with
  | Ok (a, s), Val b => eqb a b && N.eqb s st
  | Fail, Panic => true
  | _, _ => false
  end.
Definition agree_opt {A} (eqb : A -> A -> bool) (m : option (A * rng)) (e : outcome A) (st : N) : bool :=
  match m, e with
  | Some (a, s), Val b => eqb a b && N.eqb s st
  | None, Panic => true
  | _, _ => false
  end.

Definition check (c : case) : bool :=
  match c with
  | CU64 seed e st => let (l, s) := u64s (length e) (set_seed seed) in nlist_eqb l e && N.eqb s st
  | CF64 seed e st => let (l, s) := f64s FO0 (length e) (set_seed seed) in fl_eqb l e && N.eqb s st
  | CLess seed max e st => agree nlist_eqb (repeat_res (u64_less_than FUEL max) (length e) (set_seed seed)) (Val e) st
  | CIRange seed lo hi k e st => agree zlist_eqb (repeat_res (i64_in_range FUEL lo hi) k (set_seed seed)) e st
  | CURange seed lo hi k e st => agree nlist_eqb (repeat_res (u64_in_range FUEL lo hi) k (set_seed seed)) e st
  | CDU seed lo hi k e st =>
      match du_new lo hi with
      | None => match e with Panic => true | _ => false end
      | Some d => agree fl_eqb (du_sample_n FO0 FUEL d k (set_seed seed)) e st
      end
  (* the resampling functions are run twice: with the index source that follows the implementation's
     `i64 as f64 as usize` on binary64 ([du_draw FO0]) and with the integer index source [du_draw_Z]
     about which Proofs/C19Rng.v proves the range property; both must reproduce the implementation *)
  | CBoot seed data nb e st =>
      let dZ := du_draw_Z FUEL (randomizer (length data)) in
      agree_opt fl_eqb (option_map (fun p => (flat_rows (fst p), snd p)) (bootstrap_rng FO0 FUEL data nb (set_seed seed))) e st
      && agree_opt fl_eqb (option_map (fun p => (flat_rows (fst p), snd p)) (bootstrap dZ data nb (set_seed seed))) e st
  | CJack data e => fout_eqb (opt_out (option_map flat_rows (jackknife data))) e
  | CShuf seed data e st =>
      let dZ := du_draw_Z FUEL (randomizer (length data)) in
      agree_opt fl_eqb (shuffle_rng FO0 FUEL data (set_seed seed)) e st
      && agree_opt fl_eqb (shuffle dZ data (set_seed seed)) e st
  | CShuf2 seed a b e st =>
      let dZ := du_draw_Z FUEL (randomizer (length a)) in
      agree_opt fl_eqb (option_map (fun p => (fst (fst p) ++ snd (fst p), snd p)) (shuffle_two_rng FO0 FUEL a b (set_seed seed))) e st
      && agree_opt fl_eqb (option_map (fun p => (fst (fst p) ++ snd (fst p), snd p)) (shuffle_two dZ a b (set_seed seed))) e st
  end.
