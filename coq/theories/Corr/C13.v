(** Correspondence cases for C13: the time-series model on binary64 against the implementation's
    outcome.  The inner [invert_matrix] call of [AR::fit] is answered from the recorded
    (argument, result) pair of the real call: the model's argument must be bit-equal to the
    recorded one (a miss is a disagreement), and the recorded result (or panic) is what the
    model continues with. *)
From Coq Require Import List Floats ZArith Bool.
From Compute Require Export Base.Ops Base.ListMat Model.Reduce Model.MatMul Model.TimeSeries.
Import ListNotations.

Inductive case :=
| CLags (x : list float) (ks : list Z) (e : outcome (list float))
| CDiff (x : list float) (e : outcome (list float))
| CFit (p : nat) (data arg : list float) (res e : outcome (list float))
| CPredOne (coeffs : list float) (mu : float) (data : list float) (e : outcome (list float))
| CPredict (coeffs : list float) (mu : float) (data : list float) (h : nat) (e : outcome (list float)).

(** the recorded inner call as a one-entry table *)
Definition inv_tbl (arg : list float) (res : outcome (list float)) (A : list float) : option (list float) :=
  if fl_eqb A arg then match res with Val r => Some r | Panic => None end else None.

Definition state_out (s : list float * float) : list float := snd s :: fst s.

Definition check (c : case) : bool :=
  match c with
  | CLags x ks e => fout_eqb (Val (flat_map (fun k => [acovf FO0 x k; acf FO0 x k]) ks)) e
  | CDiff x e => fout_eqb (opt_out (difference FO0 x)) e
  | CFit p data arg res e =>
      if (p =? 0)%nat then fout_eqb Panic e
      else fl_eqb (fit_inv_arg FO0 p data) arg
           && fout_eqb (opt_out (option_map state_out (ar_new_fit FO0 (inv_tbl arg res) p data))) e
  | CPredOne coeffs mu data e =>
      fout_eqb (opt_out (option_map (fun v => [v]) (predict_one FO0 coeffs mu data))) e
  | CPredict coeffs mu data h e => fout_eqb (opt_out (predict FO0 coeffs mu data h)) e
  end.
