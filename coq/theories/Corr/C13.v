(** Correspondence cases for C13: the time-series model on binary64 against the implementation's
    outcome.  The inner [invert_matrix] call of [AR::fit] is answered from the recorded
    (argument, result) pair of the real call: the model's argument must be bit-equal to the
    recorded one (a miss is a disagreement), and the recorded result (or panic) is what the
    model continues with.

    END-TO-END cases ([CFitE], [CFitPredictE]): nothing is recorded.  [inv] is C01's executable model of
    [invert_matrix] ([slice_invert], Model/SolveInst.v) run on binary64, so [AR::new(p).fit(data)] — and the
    pipeline fit-then-[predict(data, h)] — is reproduced bit for bit by one Gallina term.  The recorded
    cases are kept: they localise a disagreement (inside the solve / around it). *)
From Coq Require Import List Floats ZArith Bool.
From Compute Require Export Base.Ops Base.ListMat Model.Reduce Model.MatMul Model.TimeSeries
  Model.Subst Model.Cholesky Model.LU Model.Solve Model.SolveInst.
Import ListNotations.

Inductive case :=
| CLags (x : list float) (ks : list Z) (e : outcome (list float))
| CDiff (x : list float) (e : outcome (list float))
| CFit (p : nat) (data arg : list float) (res e : outcome (list float))
| CPredOne (coeffs : list float) (mu : float) (data : list float) (e : outcome (list float))
| CPredict (coeffs : list float) (mu : float) (data : list float) (h : nat) (e : outcome (list float))
| CFitE (p : nat) (data : list float) (e : outcome (list float))
| CFitPredictE (p : nat) (data : list float) (h : nat) (e : outcome (list float)).

(** the recorded inner call as a one-entry table *)
Definition inv_tbl (arg : list float) (res : outcome (list float)) (A : list float) : option (list float) :=
  if fl_eqb A arg then match res with Val r => Some r | Panic => None end else None.

Definition state_out (s : list float * float) : list float := snd s :: fst s.

Definition check (c : case) : bool :=
  match c with
  | CLags x ks e => fout_eqb (Val (flat_map (fun k => [acovf FO0 x k; acf FO0 x k]) ks)) e
  | CDiff x e => fout_eqb (opt_out (difference FO0 x)) e
  | CFit p data arg res e =>
      if (p =? 0)%nat then fout_eqb Panic e
      else fl_eqb (fit_inv_arg FO0 p data) arg
           && fout_eqb (opt_out (option_map state_out (ar_new_fit FO0 (inv_tbl arg res) p data))) e
  | CPredOne coeffs mu data e =>
      fout_eqb (opt_out (option_map (fun v => [v]) (predict_one FO0 coeffs mu data))) e
  | CPredict coeffs mu data h e => fout_eqb (opt_out (predict FO0 coeffs mu data h)) e
  | CFitE p data e =>
      fout_eqb (opt_out (option_map state_out (ar_new_fit FO0 (slice_invert FO0) p data))) e
  | CFitPredictE p data h e =>
      fout_eqb (opt_out (let* st := ar_new_fit FO0 (slice_invert FO0) p data in
                         predict FO0 (fst st) (snd st) data h)) e
  end.
