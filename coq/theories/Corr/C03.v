(** Correspondence cases for C03: every sampler on binary64, the random source being the executable model of
    `alea` (Base/Rng.v) started from the same seed, libm answered from the table recorded from the real run. *)
From Coq Require Import List Floats ZArith NArith Bool.
From Compute Require Export Base.Ops Base.ListMat Base.Rng Model.MatMul Model.Samplers Model.MVNNew Model.MVNSample.
Import ListNotations.

Inductive case :=
| CDraws (t : libm_table) (d : dist float) (seed : N) (k : nat) (e : outcome (list float))
| CMatrix (t : libm_table) (d : dist float) (seed : N) (r c : nat) (e : outcome (list float))
| CMvn (t : libm_table) (mu L : list float) (dim : nat) (seed : N) (n : nat) (e : outcome (list float))
(** END TO END: [MVN::new(mu, Matrix::new(cov, r, c))] with the Cholesky factor computed by C11's model (nothing
    recorded but libm), then one [sample()] and one [sample_n(n)] on the same object *)
| CMvnE (t : libm_table) (r c : nat) (cov mu : list float) (seed : N) (n : nat) (e : outcome (list float))
| CLnGamma (t : libm_table) (x : float) (e : outcome (list float)).

(** loop budgets: far above anything a terminating run needs *)
Definition FUEL : nat := 4000.
Definition RANGE_FUEL : nat := 200.

Definition nf (n : nat) : float := float_ofZ (Z.of_nat n).
Definition mat_out (m : matrix (T:=float)) : list float := nf (nr m) :: nf (nc m) :: dat m.

(** [Fuel] never equals a recorded outcome *)
Definition res_eqb {A} (f : A -> list float) (r : res (A * rng)) (e : outcome (list float)) : bool :=
  match r with
  | Ok (a, _) => fout_eqb (Val (f a)) e
  | Fail => fout_eqb Panic e
  | Fuel => false
  end.

Definition check (c : case) : bool :=
  match c with
  | CDraws t d seed k e =>
      let O := FO t in let src := alea_source O RANGE_FUEL in
      res_eqb (fun l => l) (if valid O d then sample_n O src FUEL d k (set_seed seed) else Fail) e
  | CMatrix t d seed r c e =>
      let O := FO t in let src := alea_source O RANGE_FUEL in
      res_eqb mat_out (if valid O d then sample_matrix O src FUEL d r c (set_seed seed) else Fail) e
  | CMvn t mu L dim seed n e =>
      let O := FO t in let src := alea_source O RANGE_FUEL in
      res_eqb (fun p => fst p ++ mat_out (snd p))
        (if (length mu =? dim)%nat then
           res_bind (mvn_sample O src FUEL mu L (set_seed seed)) (fun p1 =>
           res_bind (mvn_sample_n O src FUEL mu L n (snd p1)) (fun p2 => Ok ((fst p1, fst p2), snd p2)))
         else Fail) e
  | CMvnE t r c cov mu seed n e =>
      let O := FO t in let src := alea_source O RANGE_FUEL in
      res_eqb (fun p => fst p ++ mat_out (snd p))
        (match mvn_new O mu {| nr := r; nc := c; dat := cov |} with
         | Some d =>
             res_bind (mvn_obj_sample O src FUEL d (set_seed seed)) (fun p1 =>
             res_bind (mvn_obj_sample_n O src FUEL d n (snd p1)) (fun p2 => Ok ((fst p1, fst p2), snd p2)))
         | None => Fail
         end) e
  | CLnGamma t x e => fout_eqb (Val [ln_gamma (FO t) x]) e
  end.
