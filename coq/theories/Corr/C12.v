(** Correspondence cases for C12: the broadcasting model on binary64 against the implementation's outcome.
    A case names one of the 48 operator impls (operator 0..3 = + - * /, kind 0..2 = Matrix o Matrix,
    Matrix o Vector, Vector o Matrix, ownership form 0..3 = (T,T) (T,&T) (&T,T) (&T,&T)); the impl's row is
    looked up in the GENERATED wiring table and executed by [run_impl] (callee, argument order and Vector
    promotion as the table says), the callee being the hand-written arms over the GENERATED classifier. *)
From Coq Require Import List Floats ZArith Bool Arith.
From Compute Require Export Base.Ops Base.ListMat Model.Broadcast.
Import ListNotations.

Inductive case :=
| CBc (op kind form : nat) (r1 c1 : nat) (d1 : list float) (r2 c2 : nat) (d2 : list float)
      (e : outcome (list float)).

Definition mat_out (m : mat float) : list float :=
  float_ofZ (Z.of_nat (nr m)) :: float_ofZ (Z.of_nat (nc m)) :: dat m.

Definition trait_of (op : nat) : optrait :=
  match op with 0 => TrAdd | 1 => TrSub | 2 => TrMul | _ => TrDiv end.
Definition mat_ty (ref : bool) := if ref then TyRefMatrix else TyMatrix.
Definition vec_ty (ref : bool) := if ref then TyRefVector else TyVector.

Definition run_case (op kind form r1 c1 : nat) (d1 : list float) (r2 c2 : nat) (d2 : list float)
  : option (mat float) :=
  let ref1 := (form =? 2) || (form =? 3) in
  let ref2 := (form =? 1) || (form =? 3) in
  let '(sty, oty, self, other) :=
    match kind with
    | 0 => (mat_ty ref1, mat_ty ref2, VMat (mkmat r1 c1 d1), VMat (mkmat r2 c2 d2))
    | 1 => (mat_ty ref1, vec_ty ref2, VMat (mkmat r1 c1 d1), VVec d2)
    | _ => (vec_ty ref1, mat_ty ref2, VVec d1, VMat (mkmat r2 c2 d2))
    end in
  let* row := find_impl (trait_of op) sty oty in
  run_impl FO0 row self other.

Definition check (c : case) : bool :=
  match c with
  | CBc op kind form r1 c1 d1 r2 c2 d2 e =>
      fout_eqb (opt_out (option_map mat_out (run_case op kind form r1 c1 d1 r2 c2 d2))) e
  end.
