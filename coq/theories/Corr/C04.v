(** Correspondence cases for C04: the model on binary64 against the implementation's outcome.
    Operator cases name an impl by (trait, Self type, Other type); the row is looked up in the REGENERATED
    wiring table, so a re-wired macro invocation changes what the model computes. *)
From Coq Require Import String.
From Coq Require Import List Floats ZArith Bool.
From Compute Require Export Base.Ops Base.ListMat Model.Reduce Model.Broadcast Model.Vops.
Import ListNotations.

Inductive redk := RSum | RProd | RNorm | RMax | RLogsumexp | RLogmeanexp.

Inductive case :=
(* Vector rows of the wiring table: Vector op Vector, Vector op f64, f64 op Vector, op-assign forms *)
| CVecOp (tr : vtrait) (s o : vty) (self other : opnd float) (e : outcome (list float))
(* Matrix rows of the wiring table: Matrix op f64, f64 op Matrix, Matrix op= Matrix, Matrix op= f64 *)
| CMatOp (tr : vtrait) (s o : vty) (self other : mopnd float) (e : outcome (list float))
(* Matrix op Matrix (4 ownership forms) *)
| CMatBin (t : vtok) (form : nat) (m1 m2 : mat float) (e : outcome (list float))
| CVecNeg (v : list float) (e : outcome (list float))
| CMatNeg (m : mat float) (e : outcome (list float))
| CVecMap (u : umap) (v : list float) (tbl : libm_table) (e : outcome (list float))
| CMatMap (u : umap) (m : mat float) (tbl : libm_table) (e : outcome (list float))
| CVecPowi (v : list float) (n : Z) (e : outcome (list float))
| CMatPowi (m : mat float) (n : Z) (e : outcome (list float))
| CVecPowf (v : list float) (a : float) (tbl : libm_table) (e : outcome (list float))
| CMatPowf (m : mat float) (a : float) (tbl : libm_table) (e : outcome (list float))
(* reductions: form 0 = free function on a slice, 1 = Vector method, 2 = Matrix method *)
| CRed (k : redk) (form : nat) (v : list float) (tbl : libm_table) (e : outcome (list float))
| CDot (v w : list float) (e : outcome (list float))
| CInfNorm (x : list float) (nrows : nat) (e : outcome (list float))
| CMatInfNorm (m : mat float) (e : outcome (list float)).

Definition mat_out (m : mat float) : list float :=
  float_ofZ (Z.of_nat (nr m)) :: float_ofZ (Z.of_nat (nc m)) :: dat m.
Definition is_assign (tr : vtrait) : bool :=
  match tr with TAddAssign | TSubAssign | TMulAssign | TDivAssign => true | _ => false end.
Definition in_list (s : String.string) (l : list String.string) : bool := existsb (String.eqb s) l.

Definition red (O : Ops float) (k : redk) (v : list float) : float :=
  match k with
  | RSum => Reduce.sum O v | RProd => Reduce.prod O v | RNorm => Reduce.norm O v
  | RMax => vmax O v | RLogsumexp => logsumexp O v | RLogmeanexp => logmeanexp O v
  end.
Definition red_name (k : redk) : String.string :=
  match k with
  | RSum => "sum" | RProd => "prod" | RNorm => "norm" | RMax => "max"
  | RLogsumexp => "logsumexp" | RLogmeanexp => "logmeanexp"
  end%string.

Definition check (c : case) : bool :=
  match c with
  | CVecOp tr s o self other e =>
      match find_row tr s o with
      | Some r =>
          (* an op-assign through a borrowed Vector also reports the borrowed operand afterwards *)
          let tail := match is_assign tr, o, other with true, TyRefVector, OVec l => l | _, _, _ => [] end in
          fout_eqb (opt_out (option_map (fun d => d ++ tail) (run_row FO0 r self other))) e
      | None => false
      end
  | CMatOp tr s o self other e =>
      match find_row tr s o with
      | Some r =>
          let tail := match is_assign tr, o, other with true, TyRefMatrix, MMat m => mat_out m | _, _, _ => [] end in
          fout_eqb (opt_out (option_map (fun m => mat_out m ++ tail) (run_mat_row FO0 r self other))) e
      | None => false
      end
  | CMatBin t _ m1 m2 e => fout_eqb (opt_out (option_map mat_out (mat_binop FO0 t m1 m2))) e
  | CVecNeg v e => fout_eqb (Val (vneg FO0 v)) e
  | CMatNeg m e => fout_eqb (opt_out (option_map mat_out (mat_neg FO0 m))) e
  | CVecMap u v tbl e => fout_eqb (opt_out (run_vecmap (FO tbl) (umap_method u) v)) e
  | CMatMap u m tbl e =>
      in_list (umap_method u) mat_unary_impls
      && fout_eqb (opt_out (let* d := run_vecmap (FO tbl) (umap_method u) (dat m) in
                            option_map mat_out (mat_of m d))) e
  | CVecPowi v n e => fout_eqb (Val (vpowi FO0 v n)) e
  | CMatPowi m n e => fout_eqb (opt_out (option_map mat_out (mat_powi FO0 m n))) e
  | CVecPowf v a tbl e => fout_eqb (Val (vpowf (FO tbl) v a)) e
  | CMatPowf m a tbl e => fout_eqb (opt_out (option_map mat_out (mat_powf (FO tbl) m a))) e
  | CRed k form v tbl e =>
      match form with
      | 0 => true
      | 1 => in_list (red_name k) vec_reductions
      | _ => in_list (red_name k) mat_reductions
      end && fout_eqb (Val [red (FO tbl) k v]) e
  | CDot v w e => fout_eqb (opt_out (option_map (fun x => [x]) (Reduce.dot FO0 v w))) e
  | CInfNorm x nrows e => fout_eqb (opt_out (option_map (fun x => [x]) (inf_norm FO0 x nrows))) e
  | CMatInfNorm m e => fout_eqb (opt_out (option_map (fun x => [x]) (mat_inf_norm FO0 m))) e
  end.
