(** Correspondence cases for C01: the model on binary64 against the implementation's outcome. *)
From Coq Require Import List Floats ZArith.
From Compute Require Export Base.Ops Base.ListMat Model.Reduce Model.MatMul Model.Subst Model.Cholesky Model.LU Model.Solve Model.SolveInst.
Import ListNotations.

Inductive case :=
| CSolve (a b : list float) (e : outcome (list float))
| CSolveSys (a b : list float) (e : outcome (list float))
| CInvert (a : list float) (e : outcome (list float))
| CMSolveV (r c : nat) (d b : list float) (e : outcome (list float))
| CMSolveM (r c : nat) (d : list float) (sr sc : nat) (sd : list float) (e : outcome (list float))
| CMInv (r c : nat) (d : list float) (e : outcome (list float))
| CIsSym (a : list float) (e : outcome (list float))
| CIsPD (a : list float) (e : outcome (list float))
| CRowToCol (a : list float) (rows : nat) (e : outcome (list float))
| CColToRow (a : list float) (rows : nat) (e : outcome (list float))
| CTryChol (a : list float) (e : outcome (list float))
| CChol (a : list float) (e : outcome (list float)).

Definition mat_out (m : matrix (T:=float)) : list float :=
  float_ofZ (Z.of_nat (nr m)) :: float_ofZ (Z.of_nat (nc m)) :: dat m.
Definition mk (r c : nat) (d : list float) : matrix := {| nr := r; nc := c; dat := d |}.
Definition b2f (b : bool) : list float := [if b then 1%float else 0%float].
(** [try_cholesky]: [Some l] is sent as [1 :: l], [None] as [[0]] *)
Definition tc_out (r : option (list float)) : list float :=
  match r with Some l => 1%float :: l | None => [0%float] end.

Definition check (c : case) : bool :=
  match c with
  | CSolve a b e => fout_eqb (opt_out (slice_solve FO0 a b)) e
  | CSolveSys a b e => fout_eqb (opt_out (slice_solve_sys FO0 a b)) e
  | CInvert a e => fout_eqb (opt_out (slice_invert FO0 a)) e
  | CMSolveV r c d b e => fout_eqb (opt_out (mat_solve_vec FO0 (mk r c d) b)) e
  | CMSolveM r c d sr sc sd e =>
      fout_eqb (opt_out (option_map mat_out (mat_solve_mat FO0 (mk r c d) (mk sr sc sd)))) e
  | CMInv r c d e => fout_eqb (opt_out (option_map mat_out (mat_inv FO0 (mk r c d)))) e
  | CIsSym a e => fout_eqb (opt_out (option_map b2f (is_symmetric FO0 a))) e
  | CIsPD a e => fout_eqb (opt_out (option_map b2f (is_positive_definite FO0 a))) e
  | CRowToCol a rows e => fout_eqb (opt_out (row_to_col_major FO0 a rows)) e
  | CColToRow a rows e => fout_eqb (opt_out (col_to_row_major FO0 a rows)) e
  | CTryChol a e => fout_eqb (opt_out (option_map tc_out (try_cholesky FO0 a))) e
  | CChol a e => fout_eqb (opt_out (cholesky FO0 a)) e
  end.
