(** Correspondence cases for C18: a history of calls on one distribution object.  The harness records, after the
    constructor and after every call, whether it returned and EVERY field of the object (parameters and cached
    sub-samplers, depth first, read through the derived [{:?}]); the GENERATED state machine runs the same history
    on binary64 and must show the same panic pattern and the same state, bit for bit, at every step.  Each step
    also carries the implementation-only verdict "object == fresh twin at the object's parameters (state, pdf/pmf
    at probes, mean, var, first seeded draws)", which must be true (the theorems say the model state is always
    coherent).  [d] is the distribution id = position in [machines]; method [k] of arity-[a] distribution:
    [k < a] the setter of parameter [k], [k = a] update. *)
From Coq Require Import List Floats ZArith Bool Arith.
From Compute Require Export Base.Ops Base.DistCore Generated.dist_setters.
Import ListNotations.

Definition snapshot : Type := (list Z * list float)%type.
Definition step_record : Type := (nat * list Z * list float * (bool * bool * list Z * list float))%type.

Inductive case :=
| CHist (d : nat) (zs : list Z) (fs : list float)      (* constructor arguments: the integer ones, the float ones *)
        (e0 : outcome snapshot)                         (* Panic, or the object right after new *)
        (steps : list step_record).

Definition snap_eqb (a b : snapshot) : bool :=
  list_eqb Z.eqb (fst a) (fst b) && fl_eqb (snd a) (snd b).

Fixpoint check_steps (m : machine float) (s : m_state m) (steps : list step_record) : bool :=
  match steps with
  | [] => true
  | (k, zs, fs, (ok, twin, ezs, efs)) :: rest =>
      match m_decode_op m k zs fs with
      | None => false
      | Some o =>
          let r := m_step m s o in
          Bool.eqb (is_ok r) ok && twin && snap_eqb (m_flat m (state_of r)) (ezs, efs)
          && check_steps m (state_of r) rest
      end
  end.

Definition check (c : case) : bool :=
  match c with
  | CHist d zs fs e0 steps =>
      match nth_error (machines FO0) d with
      | None => false
      | Some m =>
          match m_decode_param m zs fs with
          | None => false
          | Some th =>
              match m_new m th, e0 with
              | None, Panic => match steps with [] => true | _ => false end
              | Some s, Val e => snap_eqb (m_flat m s) e && check_steps m s steps
              | _, _ => false
              end
          end
      end
  end.
