(** Correspondence cases for C20: kernels on binary64 with the recorded libm table. *)
From Coq Require Import List Floats ZArith.
From Compute Require Export Base.Ops Model.Kernels.
Import ListNotations.

Inductive case :=
| CRbf (t : libm_table) (var ls x y : float) (e : outcome (list float))
| CRq (t : libm_table) (var alpha ls x y : float) (e : outcome (list float))
| CRbfM (t : libm_table) (form : nat) (var ls : float) (xs ys : list float) (e : outcome (list float))
| CRqM (t : libm_table) (form : nat) (var alpha ls : float) (xs ys : list float) (e : outcome (list float))
| CRbfNew (var ls : float) (e : outcome (list float))
| CRqNew (var alpha ls : float) (e : outcome (list float)).

Definition mat_out (nr nc : nat) (m : list (list float)) : list float :=
  float_ofZ (Z.of_nat nr) :: float_ofZ (Z.of_nat nc) :: concat m.

Definition check (c : case) : bool :=
  match c with
  | CRbf t var ls x y e => fout_eqb (Val [rbf (FO t) var ls x y]) e
  | CRq t var alpha ls x y e => fout_eqb (Val [rq (FO t) var alpha ls x y]) e
  | CRbfM t _ var ls xs ys e => fout_eqb (Val (mat_out (length xs) (length ys) (rbf_matrix (FO t) var ls xs ys))) e
  | CRqM t _ var alpha ls xs ys e => fout_eqb (Val (mat_out (length xs) (length ys) (rq_matrix (FO t) var alpha ls xs ys))) e
  | CRbfNew var ls e => fout_eqb (opt_out (option_map (fun _ => []) (rbf_new FO0 var ls))) e
  | CRqNew var alpha ls e => fout_eqb (opt_out (option_map (fun _ => []) (rq_new FO0 var alpha ls))) e
  end.
