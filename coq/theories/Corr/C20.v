(** Correspondence cases for C20: kernels on binary64 with the recorded libm table.
    The matrix forms are checked TWICE against the implementation's outcome: against the matrix of the SCALAR form
    ([rbf_matrix] / [rq_matrix]: the repaired matrix form equals the scalar form bit for bit, entry by entry) and against
    the composition of the verified component models in the order the Rust code calls them ([Model/KernelsPlumbing.v]:
    reshape to a column / a row, assertion on the sizes, broadcast difference, powi, ...; the two are proved equal in
    Proofs/C20_plumbing.v).  The [CRbfP] / [CRqP] cases (any Matrix shape, empty point sets) run the composition only. *)
From Coq Require Import List Floats ZArith Bool.
From Compute Require Export Base.Ops Model.Kernels.
From Compute Require Import Model.Shape Model.Broadcast Model.KernelsPlumbing.
Import ListNotations.

Inductive case :=
| CRbf (t : libm_table) (var ls x y : float) (e : outcome (list float))
| CRq (t : libm_table) (var alpha ls x y : float) (e : outcome (list float))
| CRbfM (t : libm_table) (form : nat) (var ls : float) (xs ys : list float) (e : outcome (list float))
| CRqM (t : libm_table) (form : nat) (var alpha ls : float) (xs ys : list float) (e : outcome (list float))
| CRbfP (t : libm_table) (kind : nat) (var ls : float) (rx cx : nat) (xs : list float) (ry cy : nat) (ys : list float)
        (e : outcome (list float))
| CRqP (t : libm_table) (kind : nat) (var alpha ls : float) (rx cx : nat) (xs : list float) (ry cy : nat) (ys : list float)
       (e : outcome (list float))
| CRbfNew (var ls : float) (e : outcome (list float))
| CRqNew (var alpha ls : float) (e : outcome (list float)).

Definition mat_out (nr nc : nat) (m : list (list float)) : list float :=
  float_ofZ (Z.of_nat nr) :: float_ofZ (Z.of_nat nc) :: concat m.
Definition bmat_out (m : Broadcast.mat float) : list float :=
  float_ofZ (Z.of_nat (Broadcast.nr m)) :: float_ofZ (Z.of_nat (Broadcast.nc m)) :: Broadcast.dat m.

(** argument of kind 0 = Vector, 1 = &Vector, 2 = Matrix, 3 = &Matrix (an [r] x [c] Matrix for the last two) *)
Definition arg_of (kind r c : nat) (d : list float) : karg float :=
  match kind with
  | 0 => KVector d | 1 => KRefVector d | 2 => KMatrix (mkMat r c d) | _ => KRefMatrix (mkMat r c d)
  end.
(** the four forms of the [CRbfM] / [CRqM] cases (harness [rbf_m] / [rq_m]): Vector, &Vector, (1 x n Matrix, m x 1 Matrix),
    (&(n x 1 Matrix), &(1 x m Matrix)) *)
Definition form_args (form : nat) (xs ys : list float) : karg float * karg float :=
  match form with
  | 0 => (KVector xs, KVector ys)
  | 1 => (KRefVector xs, KRefVector ys)
  | 2 => (KMatrix (mkMat 1 (length xs) xs), KMatrix (mkMat (length ys) 1 ys))
  | _ => (KRefMatrix (mkMat (length xs) 1 xs), KRefMatrix (mkMat 1 (length ys) ys))
  end.

Definition check (c : case) : bool :=
  match c with
  | CRbf t var ls x y e => fout_eqb (Val [rbf (FO t) var ls x y]) e
  | CRq t var alpha ls x y e => fout_eqb (Val [rq (FO t) var alpha ls x y]) e
  | CRbfM t form var ls xs ys e =>
      fout_eqb (Val (mat_out (length xs) (length ys) (rbf_matrix (FO t) var ls xs ys))) e
      && let (ax, ay) := form_args form xs ys in
         fout_eqb (opt_out (option_map bmat_out (rbf_forward_plumbing (FO t) var ls ax ay))) e
  | CRqM t form var alpha ls xs ys e =>
      fout_eqb (Val (mat_out (length xs) (length ys) (rq_matrix (FO t) var alpha ls xs ys))) e
      && let (ax, ay) := form_args form xs ys in
         fout_eqb (opt_out (option_map bmat_out (rq_forward_plumbing (FO t) var alpha ls ax ay))) e
  | CRbfP t kind var ls rx cx xs ry cy ys e =>
      fout_eqb (opt_out (option_map bmat_out
                  (rbf_forward_plumbing (FO t) var ls (arg_of kind rx cx xs) (arg_of kind ry cy ys)))) e
  | CRqP t kind var alpha ls rx cx xs ry cy ys e =>
      fout_eqb (opt_out (option_map bmat_out
                  (rq_forward_plumbing (FO t) var alpha ls (arg_of kind rx cx xs) (arg_of kind ry cy ys)))) e
  | CRbfNew var ls e => fout_eqb (opt_out (option_map (fun _ => []) (rbf_new FO0 var ls))) e
  | CRqNew var alpha ls e => fout_eqb (opt_out (option_map (fun _ => []) (rq_new FO0 var alpha ls))) e
  end.
