(** Correspondence cases for C09: special functions on binary64 with the recorded libm table. *)
From Coq Require Import List Floats ZArith.
From Compute Require Export Base.Ops Model.Special.
Import ListNotations.

Inductive case :=
| CGamma (t : libm_table) (x : float) (e : outcome (list float))
| CBeta (t : libm_table) (a b : float) (e : outcome (list float))
| CDigamma (t : libm_table) (x : float) (e : outcome (list float))
| CErf (t : libm_table) (x : float) (e : outcome (list float)).

Definition one_out (x : float) : outcome (list float) := Val [x].
Definition check (c : case) : bool :=
  match c with
  | CGamma t x e => fout_eqb (one_out (gamma (FO t) x)) e
  | CBeta t a b e => fout_eqb (one_out (beta (FO t) a b)) e
  | CDigamma t x e => fout_eqb (opt_out (option_map (fun v => [v]) (digamma (FO t) 1000 x))) e
  | CErf t x e => fout_eqb (one_out (erf (FO t) x)) e
  end.
