(** Correspondence cases for C08: the model on binary64 against the implementation's outcome. *)
From Coq Require Import List Floats ZArith Arith.
From Compute Require Export Base.Ops Base.ListMat Model.Reduce Model.Stats.
Import ListNotations.

Inductive sfn := Mean | WMean | Var | SVar | Std | SStd | Min | Max | ArgMin | ArgMax.
Inductive covk := CovPop | CovSample | CovOnepass | CovOnline.

(** [form]: 0 free function, 1 Vector method, 2 Matrix method on an [r] x (len / r) matrix *)
Inductive case :=
| CStat (f : sfn) (form r : nat) (d : list float) (e : outcome (list float))
| CCov (k : covk) (x y : list float) (e : outcome (list float))
| CHist (edges : list float) (e : outcome (list float)).

Definition fnat (n : nat) : float := float_ofZ (Z.of_nat n).

Definition run_stat (f : sfn) (form r : nat) (d : list float) : option (list float) :=
  match f with
  | Mean => Some [mean FO0 d] | WMean => Some [welford_mean FO0 d]
  | Var => Some [var FO0 d] | SVar => Some [sample_var FO0 d]
  | Std => Some [std FO0 d] | SStd => Some [sample_std FO0 d]
  | Min => Some [min FO0 d] | Max => Some [max FO0 d]
  | ArgMin => if form =? 2 then option_map (fun p => [fnat (fst p); fnat (snd p)]) (matrix_argmin FO0 d (length d / r))
              else Some [fnat (argmin FO0 d)]
  | ArgMax => if form =? 2 then option_map (fun p => [fnat (fst p); fnat (snd p)]) (matrix_argmax FO0 d (length d / r))
              else Some [fnat (argmax FO0 d)]
  end.

Definition run_cov (k : covk) (x y : list float) : option float :=
  match k with
  | CovPop => covariance FO0 x y
  | CovSample => sample_covariance FO0 x y
  | CovOnepass => sample_covariance_onepass FO0 x y
  | CovOnline => sample_covariance_online FO0 x y
  end.

(** [f64::min] / [f64::max] are minNum / maxNum: when the operands are +0 and -0 "either may be returned
    non-deterministically" (std documentation); the compiled fold indeed returns a position-dependent
    zero (its unrolled body and its remainder loop order the operands differently).  For [Min] and [Max]
    only, a zero is therefore compared up to its sign; every other value, and every other routine, bitwise. *)
Definition fzero_eqb (x y : float) : bool :=
  fbits_eqb x y || (PrimFloat.eqb x 0 && PrimFloat.eqb y 0).
Definition stat_eqb (f : sfn) : outcome (list float) -> outcome (list float) -> bool :=
  match f with
  | Min | Max => out_eqb (list_eqb fzero_eqb)
  | _ => fout_eqb
  end.

Definition check (c : case) : bool :=
  match c with
  | CStat f form r d e => stat_eqb f (opt_out (run_stat f form r d)) e
  | CCov k x y e => fout_eqb (opt_out (option_map (fun v => [v]) (run_cov k x y))) e
  | CHist edges e => fout_eqb (opt_out (hist_bin_centers FO0 edges)) e
  end.
