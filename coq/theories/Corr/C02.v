(** Correspondence cases for C02: densities, mass functions and moments on binary64, with the libm calls
    answered from the table recorded during the real run; [Gam], [Bet], [Erf] are the C09 models. *)
From Coq Require Import List Floats ZArith.
From Compute Require Export Base.Ops Model.Special Model.Dists Model.MatMul Model.MVN Model.MVNNew.
Import ListNotations.

Inductive case :=
| CPdf (t : libm_table) (d : dist float) (x : float) (e : outcome (list float))
| CLnPdf (t : libm_table) (d : dist float) (x : float) (e : outcome (list float))
| CCdf (t : libm_table) (d : dist float) (x : float) (e : outcome (list float))
| CPmf (t : libm_table) (d : dist float) (k : Z) (e : outcome (list float))
| CMean (t : libm_table) (d : dist float) (e : outcome (list float))
| CVar (t : libm_table) (d : dist float) (e : outcome (list float))
(** multivariate normal of dimension [n]: covariance, and the cached inverse and determinant recomputed with the
    same public functions ([Matrix::inv], [Matrix::det]), mean, point *)
| CMvnPdf (t : libm_table) (n : nat) (cov cinv : list float) (cdet : float) (mu x : list float) (e : outcome (list float))
| CMvnLnPdf (t : libm_table) (n : nat) (cov cinv : list float) (cdet : float) (mu x : list float) (e : outcome (list float))
(** END TO END (Model/MVNNew.v): [MVN::new(mu, Matrix::new(cov, r, c))] with the Cholesky factor, the inverse and the
    determinant computed by the models of C01 / C11, then [pdf(x)] / [ln_pdf(x)]; nothing is recorded but libm *)
| CMvnPdfE (t : libm_table) (r c : nat) (cov mu x : list float) (e : outcome (list float))
| CMvnLnPdfE (t : libm_table) (r c : nat) (cov mu x : list float) (e : outcome (list float)).

Definition moment_float (m : moment float) : float :=
  match m with Fin x => x | PInf => infinity | Undef => nan end.
Definition out1 (o : option float) : outcome (list float) := opt_out (option_map (fun v => [v]) o).

Definition sqm (n : nat) (d : list float) : matrix (T := float) := {| nr := n; nc := n; dat := d |}.

Definition check (c : case) : bool :=
  match c with
  | CPdf t d x e => let O := FO t in fout_eqb (out1 (pdf O (gamma O) (beta O) d x)) e
  | CLnPdf t d x e => let O := FO t in fout_eqb (out1 (ln_pdf O (gamma O) (beta O) d x)) e
  | CCdf t d x e => let O := FO t in fout_eqb (out1 (cdf O (erf O) d x)) e
  | CPmf t d k e => let O := FO t in fout_eqb (out1 (pmf O d k)) e
  | CMean t d e => fout_eqb (out1 (option_map moment_float (mean (FO t) d))) e
  | CVar t d e => fout_eqb (out1 (option_map moment_float (var (FO t) d))) e
  | CMvnPdf t n cov cinv cdet mu x e =>
      fout_eqb (out1 (mvn_pdf (FO t) (sqm n cov) (sqm n cinv) cdet mu x)) e
  | CMvnLnPdf t n cov cinv cdet mu x e =>
      fout_eqb (out1 (mvn_ln_pdf (FO t) (sqm n cov) (sqm n cinv) cdet mu x)) e
  | CMvnPdfE t r c cov mu x e =>
      fout_eqb (out1 (mvn_pdf_full (FO t) mu {| nr := r; nc := c; dat := cov |} x)) e
  | CMvnLnPdfE t r c cov mu x e =>
      fout_eqb (out1 (mvn_ln_pdf_full (FO t) mu {| nr := r; nc := c; dat := cov |} x)) e
  end.
