(** Correspondence cases for C05: the model on binary64 against the implementation's outcome. *)
From Coq Require Import List Floats ZArith.
From Compute Require Export Base.Ops Base.ListMat Model.Reduce Model.MatMul.
Import ListNotations.

Inductive case :=
| CMatmul (a b : list float) (ra rb : nat) (ta tb : bool) (e : outcome (list float))
| CBlocked (a b : list float) (ra rb : nat) (ta tb : bool) (bs : nat) (e : outcome (list float))
| CXtx (x : list float) (k : nat) (e : outcome (list float))
| CDotMM (k : dotk) (form sr sc : nat) (sd : list float) (or oc : nat) (od : list float) (e : outcome (list float))
| CDotMV (k : dotk) (form sr sc : nat) (sd v : list float) (e : outcome (list float))
| CDotVM (k : dotk) (form : nat) (v : list float) (or oc : nat) (od : list float) (e : outcome (list float))
| CDotVV (k : dotk) (form : nat) (v w : list float) (e : outcome (list float)).

Definition mat_out (m : matrix (T:=float)) : list float :=
  float_ofZ (Z.of_nat (nr m)) :: float_ofZ (Z.of_nat (nc m)) :: dat m.
Definition mk (r c : nat) (d : list float) : matrix := {| nr := r; nc := c; dat := d |}.

Definition check (c : case) : bool :=
  match c with
  | CMatmul a b ra rb ta tb e => fout_eqb (opt_out (matmul FO0 a b ra rb ta tb)) e
  | CBlocked a b ra rb ta tb bs e => fout_eqb (opt_out (matmul_blocked FO0 a b ra rb ta tb bs)) e
  | CXtx x k e => fout_eqb (opt_out (xtx FO0 x k)) e
  | CDotMM k _ sr sc sd or oc od e =>
      fout_eqb (opt_out (option_map mat_out (mat_mat_dot FO0 k (mk sr sc sd) (mk or oc od)))) e
  | CDotMV k _ sr sc sd v e => fout_eqb (opt_out (mat_vec_dot FO0 k (mk sr sc sd) v)) e
  | CDotVM k _ v or oc od e => fout_eqb (opt_out (vec_mat_dot FO0 k v (mk or oc od))) e
  | CDotVV k _ v w e => fout_eqb (opt_out (option_map (fun x => [x]) (vec_vec_dot FO0 k v w))) e
  end.
