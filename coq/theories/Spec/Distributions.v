(** * Spec: the documented parameter domain of each univariate distribution (over R / Z), and the one
    property of a carrier that the Beta machine needs. *)
From Coq Require Import ZArith Reals.
From Compute Require Import Base.Ops.
Local Open Scope R_scope.

(** "1 is neither below nor at 0" -- true of R, Q and binary64 by computation; needed only where a setter
    stores a parameter BEFORE it calls a sub-constructor with the constant 1 (Beta::set_alpha/set_beta). *)
Definition carrier_sane {T} (O : Ops T) : Prop :=
  leb O (one O) (zero O) = false /\ ltb O (one O) (zero O) = false.

(** Domains as the crate documents them ("Panics if ..."): closed where the code is closed
    (sigma >= 0, lower <= upper, p in [0,1]); integers of unsigned type carry no lower bound here. *)
Definition Bernoulli_dom (p : R) : Prop := 0 <= p <= 1.
Definition Beta_dom (th : R * R) : Prop := 0 < fst th /\ 0 < snd th.
Definition Binomial_dom (th : Z * R) : Prop := 0 <= snd th <= 1.
Definition ChiSquared_dom (dof : Z) : Prop := (0 < dof)%Z.
Definition DiscreteUniform_dom (th : Z * Z) : Prop := (fst th <= snd th)%Z.
Definition Exponential_dom (lambda : R) : Prop := 0 < lambda.
Definition Gamma_dom (th : R * R) : Prop := 0 < fst th /\ 0 < snd th.
Definition Gumbel_dom (th : R * R) : Prop := 0 < snd th.
Definition Normal_dom (th : R * R) : Prop := 0 <= snd th.
Definition Pareto_dom (th : R * R) : Prop := 0 < fst th /\ 0 < snd th.
Definition Poisson_dom (lambda : R) : Prop := 0 < lambda.
Definition T_dom (dof : R) : Prop := 0 < dof.
Definition Uniform_dom (th : R * R) : Prop := fst th <= snd th.
