(** * Spec: textbook definitions of the descriptive statistics (C08), on the reals. *)
From Coq Require Import List Arith Reals.
From Compute Require Import Base.ListMat.
Import ListNotations.
Local Open Scope R_scope.

(** Σ l *)
Definition Rsum (l : list R) : R := fold_right Rplus 0 l.

(** x̄ = (Σ xᵢ) / n *)
Definition mean_def (l : list R) : R := Rsum l / INR (length l).

(** Σ (xᵢ - x̄)² *)
Definition ssd (l : list R) : R := Rsum (map (fun x => (x - mean_def l) * (x - mean_def l)) l).

Definition var_def (l : list R) : R := ssd l / INR (length l).
Definition sample_var_def (l : list R) : R := ssd l / INR (length l - 1).

(** Σ (xᵢ - x̄)(yᵢ - ȳ) *)
Definition scp (x y : list R) : R :=
  Rsum (map2 (fun a b => (a - mean_def x) * (b - mean_def y)) x y).

Definition cov_def (x y : list R) : R := scp x y / INR (length x).
Definition sample_cov_def (x y : list R) : R := scp x y / INR (length x - 1).

(** [m] is the least / greatest element of [l] *)
Definition is_min (l : list R) (m : R) : Prop := In m l /\ forall x, In x l -> m <= x.
Definition is_max (l : list R) (m : R) : Prop := In m l /\ forall x, In x l -> x <= m.

(** [i] is the first index at which the minimum / maximum of [l] is attained *)
Definition first_argmin (l : list R) (i : nat) : Prop :=
  (i < length l)%nat /\
  (forall j, (j < length l)%nat -> nth i l 0 <= nth j l 0) /\
  (forall j, (j < i)%nat -> nth i l 0 < nth j l 0).
Definition first_argmax (l : list R) (i : nat) : Prop :=
  (i < length l)%nat /\
  (forall j, (j < length l)%nat -> nth j l 0 <= nth i l 0) /\
  (forall j, (j < i)%nat -> nth j l 0 < nth i l 0).

(** [c] is the list of midpoints of consecutive edges [e], on any carrier:
    c = [(e₀+e₁)/2; (e₁+e₂)/2; ...; (eₙ₋₂+eₙ₋₁)/2] *)
Definition is_midpoints {T} (add : T -> T -> T) (half : T -> T) (e c : list T) : Prop :=
  length c = (length e - 1)%nat /\
  forall (i : nat) (d : T), (i < length e - 1)%nat ->
    nth i c d = half (add (nth i e d) (nth (S i) e d)).
