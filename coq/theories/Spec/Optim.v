(** * Spec: the published recurrences of Adam (Kingma & Ba 2014, Algorithm 1, with bias correction)
    and of SGD with classical / Nesterov momentum, as unstopped iterations over vectors; the
    Levenberg-Marquardt objects (residual sum of squares, normal equations). *)
From Coq Require Import List Arith ZArith Bool.
From Compute Require Import Base.Ops Base.ListMat Model.Optim.
Import ListNotations.

Section Spec.
  Context {T : Type} (O : Ops T).
  Local Notation c1 := (one O).
  Local Notation "x + y" := (add O x y). Local Notation "x * y" := (mul O x y).
  Local Notation "x / y" := (div O x y). Local Notation "- x" := (neg O x).
  Local Notation "x '-.' y" := (sub O x y) (at level 50, left associativity).
  Variable grad : list T -> list T.

  (** ** Adam.  g_t = grad(theta_{t-1});  m_t = b1 m_{t-1} + (1-b1) g_t;  v_t = b2 v_{t-1} + (1-b2) g_t^2;
      mhat_t = m_t / (1 - b1^t);  vhat_t = v_t / (1 - b2^t);
      theta_t = theta_{t-1} - alpha mhat_t / (sqrt vhat_t + eps)    (all element-wise) *)
  Section Adam.
    Variable h : adam_hp (T:=T).
    Definition kb_m (m g : T) : T := a_b1 h * m + (c1 -. a_b1 h) * g.
    Definition kb_v (v g : T) : T := a_b2 h * v + (c1 -. a_b2 h) * g * g.
    Definition kb_hat (beta : T) (t : nat) (x : T) : T := x / (c1 -. powi O beta (Z.of_nat t)).
    Definition kb_theta (t : nat) (th : T) (mv : T * T) : T :=
      th + - (a_step h * kb_hat (a_b1 h) t (fst mv) / (sqrt O (kb_hat (a_b2 h) t (snd mv)) + a_eps h)).
    Record adam_st := { ad_theta : list T; ad_m : list T; ad_v : list T }.
    Definition adam_next (t : nat) (s : adam_st) : adam_st :=
      let g := grad (ad_theta s) in
      let m' := map2 kb_m (ad_m s) g in
      let v' := map2 kb_v (ad_v s) g in
      {| ad_theta := map2 (kb_theta t) (ad_theta s) (combine m' v'); ad_m := m'; ad_v := v' |}.
    (** the state after [k] updates (the update with index [t] uses b^t, t = 1, 2, ...) *)
    Fixpoint adam_iter (k : nat) (th0 : list T) : adam_st :=
      match k with
      | 0 => {| ad_theta := th0; ad_m := repeat (zero O) (length th0); ad_v := repeat (zero O) (length th0) |}
      | S k' => adam_next (S k') (adam_iter k' th0)
      end.
    Definition adam_theta (k : nat) (th0 : list T) : list T := ad_theta (adam_iter k th0).
  End Adam.

  (** ** SGD.  u_t = mom u_{t-1} + step grad(theta_{t-1} - [Nesterov] mom u_{t-1});  theta_t = theta_{t-1} - u_t *)
  Section SGD.
    Variable h : sgd_hp (T:=T).
    Definition sgd_at (th u : list T) : list T :=
      if s_nesterov h then map2 (fun t x => t + - (s_mom h * x)) th u else th.
    Definition sgd_next (s : list T * list T) : list T * list T :=
      let g := grad (sgd_at (fst s) (snd s)) in
      let u' := map2 (fun u x => s_mom h * u + s_step h * x) (snd s) g in
      (map2 (fun t x => t + - x) (fst s) u', u').
    Fixpoint sgd_iter (k : nat) (th0 : list T) : list T * list T :=
      match k with
      | 0 => (th0, repeat (zero O) (length th0))
      | S k' => sgd_next (sgd_iter k' th0)
      end.
    Definition sgd_theta (k : nat) (th0 : list T) : list T := fst (sgd_iter k th0).
  End SGD.
End Spec.
Arguments ad_theta {T} _. Arguments ad_m {T} _. Arguments ad_v {T} _.
