(** * Specification side of C04.
    - element-wise forms: the specified object IS [map] / [map2] of the scalar operation (no separate definition);
      what has to be specified is which operation and which operand order each operator form denotes
      ([trait_op]) and what a correctly wired impl row looks like ([row_ok], [vops_wiring_consistent]);
    - reductions: the textbook sums / products / maxima over the reals. *)
From Coq Require Import String.
From Coq Require Import List Arith Bool ZArith Reals.
From Compute Require Import Base.Ops Base.ListMat Model.Broadcast Model.Vops.
Import ListNotations.

(** ** Operator forms *)
Definition trait_tok (t : vtrait) : vtok :=
  match t with
  | TAdd | TAddAssign => VAdd | TSub | TSubAssign => VSub
  | TMul | TMulAssign => VMul | TDiv | TDivAssign => VDiv
  end.
Definition trait_assign (t : vtrait) : bool :=
  match t with TAddAssign | TSubAssign | TMulAssign | TDivAssign => true | _ => false end.
Definition trait_method (t : vtrait) : string :=
  match t with
  | TAdd => "add" | TSub => "sub" | TMul => "mul" | TDiv => "div"
  | TAddAssign => "add_assign" | TSubAssign => "sub_assign" | TMulAssign => "mul_assign" | TDivAssign => "div_assign"
  end%string.
(** the scalar operation an operator trait denotes, left operand first *)
Definition trait_op {T} (O : Ops T) (t : vtrait) : T -> T -> T := tok_fn O (trait_tok t).

Definition is_vec (t : vty) := match t with TyVector | TyRefVector => true | _ => false end.
Definition is_mat (t : vty) := match t with TyMatrix | TyRefMatrix => true | _ => false end.
Definition is_f64 (t : vty) := match t with TyF64 => true | _ => false end.
Definition is_owned (t : vty) := match t with TyVector | TyMatrix => true | _ => false end.

Definition vtok_eqb (a b : vtok) : bool :=
  match a, b with VAdd, VAdd | VSub, VSub | VMul, VMul | VDiv, VDiv => true | _, _ => false end.
Definition kfamily_eqb (a b : kfamily) : bool :=
  match a, b with
  | KBinary, KBinary | KBinaryMut, KBinaryMut | KVs, KVs | KSv, KSv | KVsMut, KVsMut => true
  | _, _ => false
  end.
Definition wrap_eqb (a b : wrap) : bool :=
  match a, b with
  | WVector, WVector | WUnit, WUnit | WMatrixSelf, WMatrixSelf | WMatrixOther, WMatrixOther
  | WUnitShapeAssert, WUnitShapeAssert => true
  | _, _ => false
  end.
Definition kside_eqb (a b : kside) : bool :=
  match a, b with Elem1, Elem1 | Elem2, Elem2 | Scalar, Scalar => true | _, _ => false end.

(** the kernel family and the wrapper a form must use: container [op] container -> binary kernel,
    container [op] f64 -> vector-scalar kernel, f64 [op] container -> scalar-vector kernel, the [_mut] families for
    op-assign; Vector results are wrapped in [Vector { v }], Matrix results re-shaped with the Matrix operand's shape,
    [Matrix op= Matrix] asserts equal shapes first *)
Definition expected (tr : vtrait) (s o : vty) : option (kfamily * wrap) :=
  let asg := trait_assign tr in
  if is_vec s && is_vec o then
    if asg then (if is_owned s then Some (KBinaryMut, WUnit) else None) else Some (KBinary, WVector)
  else if is_vec s && is_f64 o then
    if asg then (if is_owned s then Some (KVsMut, WUnit) else None) else Some (KVs, WVector)
  else if is_f64 s && is_vec o then
    if asg then None else Some (KSv, WVector)
  else if is_mat s && is_mat o then
    if asg then (if is_owned s then Some (KBinaryMut, WUnitShapeAssert) else None) else None (* broadcast_*: C12 *)
  else if is_mat s && is_f64 o then
    if asg then (if is_owned s then Some (KVsMut, WUnit) else None) else Some (KVs, WMatrixSelf)
  else if is_f64 s && is_mat o then
    if asg then None else Some (KSv, WMatrixOther)
  else None.

(** one impl row is wired correctly: the method is the trait's, the kernel exists, belongs to the family the form
    needs and carries the trait's operator token, it is called as [kernel(self, other)] (operand order preserved)
    and its result is wrapped as the form needs *)
Definition row_ok (r : op_row) : bool :=
  String.eqb (o_method r) (trait_method (o_trait r))
  && match o_arg1 r, o_arg2 r with SelfArg, OtherArg => true | _, _ => false end
  && match expected (o_trait r) (o_self r) (o_other r), find_kernel (o_kernel r) with
     | Some (fam, w), Some (fam', tok) =>
         kfamily_eqb fam fam' && vtok_eqb tok (trait_tok (o_trait r)) && wrap_eqb w (o_wrap r)
     | _, _ => false
     end.

Definition all_traits : list vtrait := [TAdd; TSub; TMul; TDiv; TAddAssign; TSubAssign; TMulAssign; TDivAssign].
Definition all_types : list vty := [TyVector; TyRefVector; TyMatrix; TyRefMatrix; TyF64].

(** every form that should exist has exactly one impl row, and no other row exists *)
Definition rows_complete : bool :=
  forallb (fun tr => forallb (fun s => forallb (fun o =>
    let n := length (filter (fun r => vtrait_eqb (o_trait r) tr && vty_eqb (o_self r) s && vty_eqb (o_other r) o) op_rows) in
    match expected tr s o with Some _ => n =? 1 | None => n =? 0 end) all_types) all_types) all_traits.

(** operand order on every line of each kernel macro: [v1[k] op v2[k]], [v1[k] op scalar], [scalar op v1[k]] *)
Definition family_form (f : kfamily) : kside * kside :=
  match f with
  | KBinary | KBinaryMut => (Elem1, Elem2)
  | KVs | KVsMut => (Elem1, Scalar)
  | KSv => (Scalar, Elem1)
  end.
Definition kernel_forms_ok : bool :=
  (length kernel_forms =? 5)
  && forallb (fun f => existsb (fun r => let '(f', a, b) := r in
                kfamily_eqb f f' && kside_eqb a (fst (family_form f)) && kside_eqb b (snd (family_form f))) kernel_forms)
             [KBinary; KBinaryMut; KVs; KSv; KVsMut].

(** the map tables: each of the 29 maps has a kernel whose scalar method is the map's, a Vector method of the same
    name calling that kernel, and a Matrix method of the same name *)
Definition maps_ok : bool :=
  (length unary_kernels =? 29) && (length vec_unary_impls =? 29) && (length mat_unary_impls =? 29)
  && forallb (fun u =>
       let m := umap_method u in
       match find (fun r => String.eqb (snd r) m) vec_unary_impls with
       | Some (k, _) =>
           match find (fun r => String.eqb (fst r) k) unary_kernels with
           | Some (_, m') => String.eqb m m'
           | None => false
           end
       | None => false
       end
       && existsb (String.eqb m) mat_unary_impls) all_umaps.

Definition vops_wiring_consistent : bool :=
  (length op_rows =? 72) && forallb row_ok op_rows && rows_complete && kernel_forms_ok && maps_ok.

(** ** Reductions over the reals *)
Local Open Scope R_scope.
Definition Rsum (l : list R) : R := fold_right Rplus 0 l.
Definition Rprod (l : list R) : R := fold_right Rmult 1 l.
Definition Rdot (x y : list R) : R := Rsum (map2 Rmult x y).
(** [m] is the maximum of the list [l] *)
Definition is_max (m : R) (l : list R) : Prop := In m l /\ forall x, In x l -> x <= m.
(** ln sum_i e^{x_i} and ln ((1/n) sum_i e^{x_i}) *)
Definition lse (x : list R) : R := ln (Rsum (map exp x)).
Definition lme (x : list R) : R := ln (Rsum (map exp x) / INR (length x)).
(** sum_j |a_ij| for each row of a row-major [nr] x [nc] array *)
Definition abs_row_sums (x : list R) (nr nc : nat) : list R :=
  map (fun i => Rsum (map Rabs (row_of x nc i))) (seq 0 nr).
