(** * Spec: the determinant of a square matrix (C11), defined independently of any factorisation.
    Textbook definition: Laplace (cofactor) expansion along the first column,
      det A = sum_{i<n} (-1)^i * A[i][0] * det (A without row i and without column 0),   det (0 x 0) = 1.
    A matrix of order [n] is an entry function [a : nat -> nat -> R] read at indices [< n];
    [determinant] reads the entries of a list of rows.  The same definition over [Z] gives the exact
    determinant of an integer matrix. *)
From Coq Require Import List Arith ZArith Reals.
From Compute Require Import Spec.Factor.
Import ListNotations.
Local Open Scope R_scope.

(** row [r] of the minor obtained by deleting row [i] is row [skip i r] of the matrix *)
Definition skip (i r : nat) : nat := if (r <? i)%nat then r else S r.

Fixpoint det_n (n : nat) (a : nat -> nat -> R) : R :=
  match n with
  | 0%nat => 1
  | S m => rsum (fun i => (-1) ^ i * a i 0%nat * det_n m (fun r c => a (skip i r) (S c))) (S m)
  end.

(** the determinant of the list-of-rows matrix [A] (order = number of rows) *)
Definition determinant (A : list (list R)) : R :=
  det_n (length A) (fun i j => nth j (nth i A []) 0).

(** ** The same over the integers *)
Fixpoint zsum (f : nat -> Z) (n : nat) : Z :=
  match n with 0%nat => 0%Z | S k => (zsum f k + f k)%Z end.

Fixpoint zdet_n (n : nat) (a : nat -> nat -> Z) : Z :=
  match n with
  | 0%nat => 1%Z
  | S m => zsum (fun i => ((-1) ^ Z.of_nat i * a i 0%nat * zdet_n m (fun r c => a (skip i r) (S c)))%Z) (S m)
  end.

Definition zdeterminant (A : list (list Z)) : Z :=
  zdet_n (length A) (fun i j => nth j (nth i A []) 0%Z).

(** ** Leibniz form
    det A = sum over ALL index vectors p in {0..n-1}^n of sgn(p) * prod_i A[i][p_i], where [sgn p] is
    the sign of [p] when [p] is a permutation and 0 when an entry repeats (the Levi-Civita symbol).
    The sign function is a parameter here; the theorems instantiate it with the inversion sign. *)

(** all vectors of length [k] with entries below [n] *)
Fixpoint vectors (n k : nat) : list (list nat) :=
  match k with
  | 0%nat => [[]]
  | S k' => flat_map (fun q => map (fun j => q ++ [j]) (seq 0 n)) (vectors n k')
  end.

Definition leibniz (sgn : list nat -> Z) (n : nat) (a : nat -> nat -> R) : R :=
  fold_right Rplus 0 (map (fun p => IZR (sgn p) * rprod (fun i => a i (nth i p 0%nat)) n) (vectors n n)).

Fixpoint zpi (f : nat -> Z) (n : nat) : Z :=
  match n with 0%nat => 1%Z | S k => (zpi f k * f k)%Z end.

Definition zleibniz (sgn : list nat -> Z) (n : nat) (a : nat -> nat -> Z) : Z :=
  fold_right Z.add 0%Z (map (fun p => (sgn p * zpi (fun i => a i (nth i p 0%nat)) n)%Z) (vectors n n)).
