(** * Spec: generalized linear models (McCullagh & Nelder) over the reals.
    Mean function (inverse link), variance function and unit deviance of the six families, the
    (weighted) score and Fisher information of a design with offsets, the ridge-penalised score
    (intercept unpenalised, strength alpha), and the family deviance. *)
From Coq Require Import Reals List Arith Bool.
From Compute Require Import Generated.glm_families.
Import ListNotations.
Local Open Scope R_scope.

(** Σ_{i<n} f i *)
Fixpoint bigsum (f : nat -> R) (n : nat) : R :=
  match n with
  | O => 0
  | S k => bigsum f k + f k
  end.

(** identity link for Gaussian, logit for Bernoulli, log for the others *)
Definition mean_fn (f : family) (eta : R) : R :=
  match f with
  | Gaussian => eta
  | Bernoulli => 1 / (1 + exp (- eta))
  | _ => exp eta
  end.
(** d mean_fn / d eta, in closed form in eta *)
Definition dmean_fn (f : family) (eta : R) : R :=
  match f with
  | Gaussian => 1
  | Bernoulli => exp (- eta) / ((1 + exp (- eta)) * (1 + exp (- eta)))
  | _ => exp eta
  end.
(** variance function V(mu) *)
Definition var_fn (f : family) (mu : R) : R :=
  match f with
  | Gaussian => 1
  | Bernoulli => mu * (1 - mu)
  | QuasiPoisson | Poisson => mu
  | Gamma | Exponential => mu * mu
  end.
(** unit deviance d(y, mu) = 2 (l(y; y) - l(mu; y)) *)
Definition unit_deviance (f : family) (y mu : R) : R :=
  match f with
  | Gaussian => (y - mu) * (y - mu)
  | Bernoulli => - 2 * (y * ln mu + (1 - y) * ln (1 - mu))
  | QuasiPoisson | Poisson => 2 * ((if Req_EM_T y 0 then 0 else y * ln (y / mu)) - (y - mu))
  | Gamma | Exponential => 2 * ((y - mu) / mu - ln (y / mu))
  end.
(** families with a free dispersion parameter *)
Definition free_dispersion (f : family) : Prop := f = Gaussian \/ f = QuasiPoisson \/ f = Gamma.

Section Data.
  (** [x]: n x p row-major design; [y], [w]: responses and prior weights; [off i]: offset of row i *)
  Variables (f : family) (x : list R) (n p : nat) (y w : list R) (off : nat -> R).

  Definition X (i j : nat) : R := nth (i * p + j) x 0.
  Definition lin (beta : list R) (i : nat) : R := bigsum (fun k => X i k * nth k beta 0) p + off i.
  Definition mu_at (beta : list R) (i : nat) : R := mean_fn f (lin beta i).

  (** score_j = Σ_i x_ij w_i (y_i - mu_i) (dmu_i/deta_i) / V(mu_i) *)
  Definition score (beta : list R) (j : nat) : R :=
    bigsum (fun i => X i j * (nth i w 0 * (nth i y 0 - mu_at beta i)
                              * (dmean_fn f (lin beta i) / var_fn f (mu_at beta i)))) n.
  (** Fisher information_jk = Σ_i x_ij x_ik w_i (dmu_i/deta_i)^2 / V(mu_i) *)
  Definition fisher (beta : list R) (j k : nat) : R :=
    bigsum (fun i => X i j * (X i k * (nth i w 0 * (dmean_fn f (lin beta i) * dmean_fn f (lin beta i))
                                       / var_fn f (mu_at beta i)))) n.
  (** gradient of the ridge penalty (alpha/2) Σ_{j>=1} beta_j^2 *)
  Definition ridge (alpha : R) (beta : list R) (j : nat) : R :=
    match j with O => 0 | _ => alpha * nth j beta 0 end.
  Definition penalised_score (alpha : R) (beta : list R) (j : nat) : R := score beta j - ridge alpha beta j.
  Definition penalised_fisher (alpha : R) (beta : list R) (j k : nat) : R :=
    fisher beta j k + (if ((1 <=? j)%nat && (j =? k)%nat)%bool then alpha else 0).

  (** family deviance at means [m] *)
  Definition family_deviance (m : nat -> R) : R := bigsum (fun i => unit_deviance f (nth i y 0) (m i)) n.
End Data.

(** matrix-vector product of a flat p x p matrix *)
Definition matvec (a : list R) (p : nat) (s : list R) (j : nat) : R :=
  bigsum (fun k => nth (j * p + k) a 0 * nth k s 0) p.
