(** * Spec: the density of the multivariate normal law N(mu, Sigma) of dimension [n] (C02), textbook form
      (2 pi)^(-n/2) det(Sigma)^(-1/2) exp(-(x - mu)^T Sigma^-1 (x - mu) / 2),
    written in terms of a precision matrix [P] (flat row-major, order [n]) and a number [d]; the theorems instantiate
    [P] with THE inverse of Sigma and [d] with THE determinant of Sigma ([Spec/Determinant.v]). *)
From Coq Require Import List Arith Reals.
From Compute Require Import Spec.Factor.
Local Open Scope R_scope.

(** (x - mu)^T P (x - mu) *)
Definition mvn_quad (n : nat) (P mu x : list R) : R :=
  rsum (fun i => (nth i x 0 - nth i mu 0) * rsum (fun k => getm P n i k * (nth k x 0 - nth k mu 0)) n) n.

Definition mvn_density (n : nat) (P : list R) (d : R) (mu x : list R) : R :=
  Rpower (2 * PI) (- INR n / 2) * Rpower d (- 1 / 2) * exp (- mvn_quad n P mu x / 2).
