(** * Spec for C07: polynomials as coefficient lists, their exact integral, chords of tabulated samples. *)
From Coq Require Import Reals List.
Import ListNotations.
Open Scope R_scope.

(** c0 + c1 x + c2 x^2 + ... *)
Fixpoint peval_from (i : nat) (p : list R) (x : R) : R :=
  match p with
  | [] => 0
  | c :: p' => c * x ^ i + peval_from (S i) p' x
  end.
Definition peval (p : list R) (x : R) : R := peval_from 0 p x.

(** ∫_a^b Σ_j c_j x^(i+j) dx = Σ_j c_j (b^(i+j+1) - a^(i+j+1)) / (i+j+1)   (closed form; tied to Coquelicot's
    [RInt] by [poly_int_is_RInt]) *)
Fixpoint poly_int_from (i : nat) (p : list R) (a b : R) : R :=
  match p with
  | [] => 0
  | c :: p' => c * (b ^ S i - a ^ S i) / INR (S i) + poly_int_from (S i) p' a b
  end.
Definition poly_int (p : list R) (a b : R) : R := poly_int_from 0 p a b.

(** coefficient-wise operations and the coefficients of t |-> p(u + v t) *)
Fixpoint padd (p q : list R) : list R :=
  match p, q with
  | [], _ => q
  | _, [] => p
  | c :: p', d :: q' => (c + d) :: padd p' q'
  end.
Definition pscale (k : R) (p : list R) : list R := map (Rmult k) p.
Fixpoint comp_aff (p : list R) (u v : R) : list R :=
  match p with
  | [] => []
  | c :: p' => let r := comp_aff p' u v in padd [c] (padd (pscale u r) (0 :: pscale v r))
  end.
(** Σ |c_j| *)
Definition norm1 (p : list R) : R := fold_right (fun c s => Rabs c + s) 0 p.

(** tabulated samples: the chord through (x0,y0), (x1,y1) and the sum of the exact chord integrals *)
Definition chord (x0 y0 x1 y1 t : R) : R := y0 + (y1 - y0) / (x1 - x0) * (t - x0).
Fixpoint chord_sum (x y : list R) : R :=
  match x, y with
  | x0 :: ((x1 :: _) as xs), y0 :: ((y1 :: _) as ys) => (y1 + y0) / 2 * (x1 - x0) + chord_sum xs ys
  | _, _ => 0
  end.

(** strictly increasing abscissae, and the piecewise-linear interpolant of the samples (value 0 outside / for < 2 samples;
    at a knot the left chord is used, which is also the right chord's value there) *)
Fixpoint increasing (x : list R) : Prop :=
  match x with
  | x0 :: ((x1 :: _) as xs) => x0 < x1 /\ increasing xs
  | _ => True
  end.
Fixpoint interp (x y : list R) (t : R) : R :=
  match x, y with
  | x0 :: ((x1 :: _) as xs), y0 :: ((y1 :: _) as ys) =>
      if Rle_dec t x1 then chord x0 y0 x1 y1 t else interp xs ys t
  | _, _ => 0
  end.
