(** * Spec: the matrix product of row-major flat arrays (the definition C05 refers to). *)
From Coq Require Import List Arith Bool.
From Compute Require Import Base.Ops.
Import ListNotations.

Section Spec.
  Context {T : Type} (O : Ops T).
  Local Notation z := (zero O).

  (** Σ_{k<l} f k, accumulated left to right from zero (on a commutative ring: the sum;
      on binary64: the exact sequence of roundings the property's "Σₖ" is realised by). *)
  Definition sumk (f : nat -> T) (l : nat) : T := fold_left (fun s k => add O s (f k)) (seq 0 l) z.

  (** op(A)[i,k] and op(B)[k,j] of flat row-major arrays with [ca] / [cb] columns *)
  Definition opA (a : list T) (ca : nat) (ta : bool) (i k : nat) : T :=
    if ta then nth (k * ca + i) a z else nth (i * ca + k) a z.
  Definition opB (b : list T) (cb : nat) (tb : bool) (k j : nat) : T :=
    if tb then nth (j * cb + k) b z else nth (k * cb + j) b z.

  (** conformability: [Some (ca, cb, m, l, n)] iff both arrays are matrices with the given
      row counts and op(A) is m x l, op(B) is l x n *)
  Definition dims (la lb ra rb : nat) (ta tb : bool) : option (nat * nat * nat * nat * nat) :=
    if (0 <? ra) && (0 <? rb) && (la mod ra =? 0) && (lb mod rb =? 0) then
      let ca := la / ra in let cb := lb / rb in
      let '(m, l) := if ta then (ca, ra) else (ra, ca) in
      let '(l', n) := if tb then (cb, rb) else (rb, cb) in
      if l =? l' then Some (ca, cb, m, l, n) else None
    else None.

  (** [c] is the m x n product, entry by entry; [swap]: the factors of each term are commuted *)
  Definition is_product (swap : bool) (a b : list T) (ca cb : nat) (ta tb : bool) (m l n : nat) (c : list T) : Prop :=
    length c = m * n /\
    forall i j, i < m -> j < n ->
      nth (i * n + j) c z =
      sumk (fun k => if swap then mul O (opB b cb tb k j) (opA a ca ta i k)
                     else mul O (opA a ca ta i k) (opB b cb tb k j)) l.
End Spec.
