(** * Spec: the laws the inverse-CDF samplers are meant to draw from (cumulative distribution functions),
    and what it means for a random source to deliver unit-interval variates. *)
From Coq Require Import Reals ZArith.
From Compute Require Import Base.Ops Base.Rng Model.Samplers.
Open Scope R_scope.

(** F(x) = P(X <= x) *)
Definition uniform_cdf (lo hi x : R) : R := (x - lo) / (hi - lo).                 (* on [lo, hi], lo < hi *)
Definition exponential_cdf (lambda x : R) : R := 1 - exp (- lambda * x).           (* on x >= 0 *)
Definition gumbel_cdf (mu beta x : R) : R := exp (- exp (- (x - mu) / beta)).
Definition pareto_cdf (alpha m x : R) : R := 1 - Rpower (m / x) alpha.             (* on x >= m > 0 *)

(** every [alea::f64()] of the source lies in [0, 1) *)
Definition unit_source {S : Type} (src : source S R) : Prop :=
  forall s, 0 <= fst (next_f64 src s) < 1.
(** every [alea::i64_in_range(lo, hi)] that returns, returns a value of the range *)
Definition range_source {S : Type} (src : source S R) : Prop :=
  forall lo hi s k s', next_range src lo hi s = Ok (k, s') -> (lo <= k <= hi)%Z.

(** integers, as reals *)
Definition is_integer (x : R) : Prop := exists k : Z, x = IZR k.
