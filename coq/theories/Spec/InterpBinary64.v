(** * Spec: the real number denoted by a binary64 value (through Flocq's [Prim2B]); used to state
    the C16 theorems on the carrier the correspondence check runs on. *)
From Coq Require Import Reals Floats.
From Flocq Require Import BinarySingleNaN.
From Flocq Require IEEE754.PrimFloat.

(** the real value of a finite float; 0 for infinities and NaN (which the theorems exclude by
    [PrimFloat.is_finite]) *)
Definition FR (x : Coq.Floats.PrimFloat.float) : R := B2R (Flocq.IEEE754.PrimFloat.Prim2B x).
