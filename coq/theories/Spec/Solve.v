(** * Spec for C01: what it means to solve A.x = b, A.X = B and to invert A, on flat row-major
    arrays of reals ([getm], [mvec], [mmul], [rsum], [symmetric] are those of [Spec/Factor.v]). *)
From Coq Require Import List Arith Reals.
From Compute Require Import Base.ListMat Spec.Factor.
Import ListNotations.

(** column [j] of a row-major array with [n] rows and [k] columns (any carrier) *)
Definition colk {A : Type} (d : A) (X : list A) (n k j : nat) : list A :=
  map (fun i => nth (i * k + j) X d) (seq 0 n).

Local Open Scope R_scope.

(** [x] has [n] entries and A.x = b *)
Definition solves (a : list R) (n : nat) (x b : list R) : Prop :=
  length x = n /\ forall i, (i < n)%nat -> mvec a n x i = nth i b 0.

(** [X] is [n x k] row-major and every column of [X] solves its column of [B]: A.X = B *)
Definition solves_sys (a : list R) (n k : nat) (X B : list R) : Prop :=
  length X = (n * k)%nat /\
  forall j, (j < k)%nat -> solves a n (colk 0 X n k j) (colk 0 B n k j).

Definition delta (i j : nat) : R := if (i =? j)%nat then 1 else 0.

(** A.X = I *)
Definition is_right_inverse (a : list R) (n : nat) (X : list R) : Prop :=
  length X = (n * n)%nat /\
  forall i j, (i < n)%nat -> (j < n)%nat -> mmul a X n i j = delta i j.

(** A has a left inverse (for square matrices over a field: A is nonsingular) *)
Definition nonsingular (a : list R) (n : nat) : Prop :=
  exists c, forall i j, (i < n)%nat -> (j < n)%nat -> mmul c a n i j = delta i j.
