(** * Reference model for C15: a matrix is a plain list of rows; every structural operation is its
    textbook definition on rows (no flat indices).  [None] = the request is impossible. *)
From Coq Require Import List Arith ZArith Bool.
From Compute Require Import Base.ListMat Model.Shape.
Import ListNotations.

Section Ref.
  Context {T : Type} (d : T).
  Local Notation rows := (list (list T)).

  Definition rnr (A : rows) : nat := length A.
  Definition rnc (A : rows) : nat := length (hd [] A).

  (** the shape a request [(r, c)] denotes for [sz] elements ([-1] = "infer this dimension") *)
  Definition want_shape (sz : nat) (r c : Z) : option (nat * nat) :=
    if ((0 <? r) && (0 <? c))%Z then
      if (r * c =? Z.of_nat sz)%Z then Some (Z.to_nat r, Z.to_nat c) else None
    else if ((r =? -1) && (0 <? c))%Z then
      if sz mod Z.to_nat c =? 0 then Some (sz / Z.to_nat c, Z.to_nat c) else None
    else if ((c =? -1) && (0 <? r))%Z then
      if sz mod Z.to_nat r =? 0 then Some (Z.to_nat r, sz / Z.to_nat r) else None
    else None.

  (** cut a flat list into [r] rows of [c] *)
  Definition ref_new (a : list T) (r c : Z) : option rows :=
    let* (r', c') := want_shape (length a) r c in Some (unflatten a r' c').

  Definition ref_transpose (A : rows) : rows := transpose_rows d A (rnc A).

  Definition ref_step (A : rows) (o : op (T:=T)) : option (rows * list T) :=
    match o with
    | OT | OTMut | ORowToCol | OColToRow => Some (ref_transpose A, [])
    | OReshape r c | OReshapeMut r c | OToVecReshape r c =>
        let* B := ref_new (concat A) r c in Some (B, [])
    | OToVecToMatrix => Some ([concat A], [])
    | OHcat od r c =>
        let* B := ref_new od r c in
        let* _ := guard (length A =? length B) in Some (map2 (@app T) A B, [])
    | OVcat od r c =>
        let* (r', c') := want_shape (length od) r c in
        let* _ := guard (rnc A =? c') in Some (A ++ unflatten od r' c', [])
    | OHrepeat n => let* _ := guard (0 <? n) in Some (map (fun row => concat (repeat row n)) A, [])
    | OVrepeat n => let* _ := guard (0 <? n) in Some (concat (repeat A n), [])
    | OGetRow i | ORowSlice i => let* _ := guard (i <? rnr A) in Some (A, nth i A [])
    | OGetCol j => let* _ := guard (j <? rnc A) in Some (A, map (fun row => nth j row d) A)
    | OApplyRow i f => let* _ := guard (i <? rnr A) in Some (upd A i (map f (nth i A [])), [])
    | OApplyCol j f => let* _ := guard (j <? rnc A) in Some (map (fun row => upd row j (f (nth j row d))) A, [])
    | OFlatIdx k =>
        let* _ := guard (k <? rnr A * rnc A) in Some (A, [ent d A (k / rnc A) (k mod rnc A)])
    | OFlatSet k v =>
        let* _ := guard (k <? rnr A * rnc A) in
        Some (upd A (k / rnc A) (upd (nth (k / rnc A) A []) (k mod rnc A) v), [])
    | OIdx i j => let* _ := guard ((i <? rnr A) && (j <? rnc A)) in Some (A, [ent d A i j])
    | OIdxSet i j v =>
        let* _ := guard ((i <? rnr A) && (j <? rnc A)) in Some (upd A i (upd (nth i A []) j v), [])
    | ODiag => Some (A, map (fun i => ent d A i i) (seq 0 (Nat.min (rnr A) (rnc A))))
    end.

  Fixpoint ref_run (A : rows) (ops : list op) : option (rows * list (list T)) :=
    match ops with
    | [] => Some (A, [])
    | o :: ops' =>
        let* (A1, out) := ref_step A o in
        let* (A2, outs) := ref_run A1 ops' in
        Some (A2, out :: outs)
    end.

  (** the rows a concrete state denotes, and the invariant of a well-formed state *)
  Definition rows_of_mat (m : mat T) : rows := unflatten (data m) (nrows m) (ncols m).
  Definition Inv (m : mat T) : Prop := nrows m * ncols m = length (data m) /\ 0 < nrows m /\ 0 < ncols m.

  (** an [r] x [c] rectangle *)
  Definition rect (A : rows) (r c : nat) : Prop := length A = r /\ Forall (fun row => length row = c) A.
End Ref.
