(** * Reference model for C15: a matrix is a plain list of rows; every structural operation is its
    textbook definition on rows (no flat indices).  [None] = the request is impossible. *)
From Coq Require Import List Arith ZArith Bool.
From Compute Require Import Base.ListMat Model.Shape.
Import ListNotations.

Section Ref.
  Context {T : Type} (d : T).
  Local Notation rows := (list (list T)).

  Definition rnr (A : rows) : nat := length A.
  Definition rnc (A : rows) : nat := length (hd [] A).

  (** the shape a request [(r, c)] denotes for [sz] elements ([-1] = "infer this dimension"; a dimension of 0 can
      only be asked for as 0 x 0, the shape of the matrix without elements) *)
  Definition want_shape (sz : nat) (r c : Z) : option (nat * nat) :=
    if ((0 <? r) && (0 <? c))%Z then
      if (r * c =? Z.of_nat sz)%Z then Some (Z.to_nat r, Z.to_nat c) else None
    else if ((r =? -1) && (0 <? c))%Z then
      if sz mod Z.to_nat c =? 0 then Some (sz / Z.to_nat c, Z.to_nat c) else None
    else if ((c =? -1) && (0 <? r))%Z then
      if sz mod Z.to_nat r =? 0 then Some (Z.to_nat r, sz / Z.to_nat r) else None
    else if ((r =? 0) && (c =? 0))%Z then
      if sz =? 0 then Some (0, 0) else None
    else None.

  (** cut a flat list into [r] rows of [c] *)
  Definition ref_new (a : list T) (r c : Z) : option rows :=
    let* (r', c') := want_shape (length a) r c in Some (unflatten a r' c').

  Definition ref_transpose (A : rows) : rows := transpose_rows d A (rnc A).

  Definition ref_step (A : rows) (o : op (T:=T)) : option (rows * list T) :=
    match o with
    | OT | OTMut | ORowToCol | OColToRow => Some (ref_transpose A, [])
    | OReshape r c | OReshapeMut r c | OToVecReshape r c =>
        let* B := ref_new (concat A) r c in Some (B, [])
    | OToVecToMatrix => Some ([concat A], [])
    | OHcat od r c =>
        let* B := ref_new od r c in
        let* _ := guard (length A =? length B) in Some (map2 (@app T) A B, [])
    | OVcat od r c =>
        let* (r', c') := want_shape (length od) r c in
        let* _ := guard (rnc A =? c') in Some (A ++ unflatten od r' c', [])
    | OHrepeat n => let* _ := guard (0 <? n) in Some (map (fun row => concat (repeat row n)) A, [])
    | OVrepeat n => let* _ := guard (0 <? n) in Some (concat (repeat A n), [])
    | OGetRow i | ORowSlice i => let* _ := guard (i <? rnr A) in Some (A, nth i A [])
    | OGetCol j => let* _ := guard (j <? rnc A) in Some (A, map (fun row => nth j row d) A)
    | OApplyRow i f => let* _ := guard (i <? rnr A) in Some (upd A i (map f (nth i A [])), [])
    | OApplyCol j f => let* _ := guard (j <? rnc A) in Some (map (fun row => upd row j (f (nth j row d))) A, [])
    | OFlatIdx k =>
        let* _ := guard (k <? rnr A * rnc A) in Some (A, [ent d A (k / rnc A) (k mod rnc A)])
    | OFlatSet k v =>
        let* _ := guard (k <? rnr A * rnc A) in
        Some (upd A (k / rnc A) (upd (nth (k / rnc A) A []) (k mod rnc A) v), [])
    | OIdx i j => let* _ := guard ((i <? rnr A) && (j <? rnc A)) in Some (A, [ent d A i j])
    | OIdxSet i j v =>
        let* _ := guard ((i <? rnr A) && (j <? rnc A)) in Some (upd A i (upd (nth i A []) j v), [])
    | ODiag => Some (A, map (fun i => ent d A i i) (seq 0 (Nat.min (rnr A) (rnc A))))
    end.

  Fixpoint ref_run (A : rows) (ops : list op) : option (rows * list (list T)) :=
    match ops with
    | [] => Some (A, [])
    | o :: ops' =>
        let* (A1, out) := ref_step A o in
        let* (A2, outs) := ref_run A1 ops' in
        Some (A2, out :: outs)
    end.

  (** the rows a concrete state denotes, and the invariant of a well-formed state *)
  Definition rows_of_mat (m : mat T) : rows := unflatten (data m) (nrows m) (ncols m).
  Definition Inv (m : mat T) : Prop := nrows m * ncols m = length (data m) /\ 0 < nrows m /\ 0 < ncols m.
  (** the struct invariant alone (every shape, including the empty matrix 0 x 0 and the degenerate 0 x c / r x 0 that
      [reshape_mut] with an inferred dimension produces on empty data) *)
  Definition WF (m : mat T) : Prop := nrows m * ncols m = length (data m).
  (** the empty matrix of [Matrix::empty()] *)
  Definition is_empty_mat (m : mat T) : Prop := nrows m = 0 /\ ncols m = 0 /\ data m = [].

  (** what every structural operation does on the empty matrix 0 x 0 (a DESCRIPTION of the code, proved of the model
      in Proofs/C15Empty.v and compared with the implementation by the correspondence; not a textbook definition:
      transposing the empty matrix panics with a division by zero in [utils::is_matrix], and a reshape with an
      inferred dimension produces the degenerate shapes 0 x c / r x 0 over no elements) *)
  Definition empty_step (o : op (T:=T)) : option (mat T * list T) :=
    let E := mkMat 0 0 [] in
    match o with
    | OReshape r c => if ((r =? 0) && (c =? 0))%Z then Some (E, []) else None
    | OReshapeMut r c | OToVecReshape r c =>
        option_map (fun p : nat * nat => (mkMat (fst p) (snd p) [], [])) (want_shape 0 r c)
    | OHcat od r c | OVcat od r c =>
        match od with [] => if ((r =? 0) && (c =? 0))%Z then Some (E, []) else None | _ => None end
    | OHrepeat _ | OVrepeat _ | ODiag => Some (E, [])
    | _ => None
    end.

  (** an [r] x [c] rectangle *)
  Definition rect (A : rows) (r c : nat) : Prop := length A = r /\ Forall (fun row => length row = c) A.
End Ref.
