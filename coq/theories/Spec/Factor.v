(** * Spec for the factorisations (C11; reused by C01, C13, C14, C06): textbook objects on flat
    row-major arrays of reals.  [getm a n i j] is entry (i,j) of the order-[n] matrix stored in [a]. *)
From Coq Require Import List Arith ZArith Reals Permutation.
From Compute Require Import Base.ListMat.
Import ListNotations.
Local Open Scope R_scope.

(** [f 0 + f 1 + ... + f (n-1)] *)
Fixpoint rsum (f : nat -> R) (n : nat) : R :=
  match n with 0%nat => 0 | S k => rsum f k + f k end.

(** [f 0 * f 1 * ... * f (n-1)] *)
Fixpoint rprod (f : nat -> R) (n : nat) : R :=
  match n with 0%nat => 1 | S k => rprod f k * f k end.

Definition getm (a : list R) (n i j : nat) : R := nth (i * n + j) a 0.

(** (A.x)_i  and  (A.B)_ij *)
Definition mvec (a : list R) (n : nat) (x : list R) (i : nat) : R :=
  rsum (fun k => getm a n i k * nth k x 0) n.
Definition mmul (a b : list R) (n i j : nat) : R :=
  rsum (fun k => getm a n i k * getm b n k j) n.

(** a pivot vector is a permutation of 0..n-1 *)
Definition is_perm (p : list nat) (n : nat) : Prop := Permutation p (seq 0 n).

Definition lower_triangular (a : list R) (n : nat) : Prop :=
  forall i j, (i < n)%nat -> (j < n)%nat -> (i < j)%nat -> getm a n i j = 0.
Definition upper_triangular (a : list R) (n : nat) : Prop :=
  forall i j, (i < n)%nat -> (j < n)%nat -> (j < i)%nat -> getm a n i j = 0.
Definition symmetric (a : list R) (n : nat) : Prop :=
  forall i j, (i < n)%nat -> (j < n)%nat -> getm a n i j = getm a n j i.

(** the two factors packed in the result of [lu]: unit lower triangle and upper triangle *)
Definition Lof (m : list R) (n i k : nat) : R :=
  if (k <? i)%nat then getm m n i k else if (k =? i)%nat then 1 else 0.
Definition Uof (m : list R) (n k j : nat) : R :=
  if (k <=? j)%nat then getm m n k j else 0.

(** lower / upper triangular part (diagonal included) of an arbitrary square array *)
Definition lower_part (a : list R) (n i k : nat) : R := if (k <=? i)%nat then getm a n i k else 0.
Definition upper_part (a : list R) (n i k : nat) : R := if (i <=? k)%nat then getm a n i k else 0.

(** a sign function on permutation vectors: +1 on the identity, negated by every transposition
    (this characterises the sign of a permutation) *)
Definition is_sign (sgn : list nat -> Z) : Prop :=
  (forall n, sgn (seq 0 n) = 1%Z) /\
  (forall p i j d, (i < length p)%nat -> (j < length p)%nat -> i <> j ->
     sgn (swap d p i j) = (- sgn p)%Z).
