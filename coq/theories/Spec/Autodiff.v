(** * Spec: what an objective program over [reverse::Var] MEANS on the reals, where it is
    differentiable, and what its gradient is.

    [den e data xs env]: the textbook denotation of the expression AST of [Base/Tape.v] (parameters
    [xs], let-bound values [env], data cells [data]); [covered e]: the program uses only node kinds
    whose recorded partial derivatives are right in reverse 0.2.2 - everything except [f64 / Var]
    (finding reverse:gradient-of-const-over-var; [f64::powf(Var)] has the same flaw and is not in the
    AST) - with [i32] exponents in [powi]; [smooth_at e data xs env]: the program is differentiable in
    the usual sense at [xs] (indices in range, divisors nonzero, arguments of ln and sqrt positive,
    base of a negative integer power nonzero); [true_grad e data x g]: [g] is the vector of partial
    derivatives of the denotation at [x] (Coquelicot's [is_derive] along each coordinate). *)
From Coq Require Import List Arith ZArith Bool Reals.
From Coquelicot Require Import Coquelicot.
From Compute Require Import Base.Ops Base.ListMat Base.Tape.
Import ListNotations.
Local Open Scope R_scope.

(** ** denotation *)
Definition cden (data : list (list R)) (c : cst R) : R :=
  match cval data c with Some x => x | None => 0 end.

Definition uden (f : ufn) (x : R) : R :=
  match f with
  | UExp => exp x | USin => sin x | UCos => cos x | ULn => ln x
  | USqrt => R_sqrt.sqrt x | URecip => / x | UTanh => tanh x
  end.

Fixpoint den (e : expr R) (data : list (list R)) (xs env : list R) : R :=
  match e with
  | EPar i => nth i xs 0
  | EVar k => nth k env 0
  | ELet a b => den b data xs (den a data xs env :: env)
  | EAdd a b => den a data xs env + den b data xs env
  | EAddC a c => den a data xs env + cden data c
  | ESub a b => den a data xs env - den b data xs env
  | ESubC a c => den a data xs env - cden data c
  | ECSub c a => cden data c - den a data xs env
  | EMul a b => den a data xs env * den b data xs env
  | EMulC a c => den a data xs env * cden data c
  | EDiv a b => den a data xs env / den b data xs env
  | EDivC a c => den a data xs env / cden data c
  | ECDiv c a => cden data c / den a data xs env
  | ENeg a => - den a data xs env
  | EPowi a n => powerRZ (den a data xs env) n
  | EFn f a => uden f (den a data xs env)
  end.

(** the node kinds whose recorded partial derivatives are right: all of the AST except [f64 / Var];
    [powi] takes an [i32] *)
Fixpoint covered (e : expr R) : Prop :=
  match e with
  | EPar _ | EVar _ => True
  | ELet a b | EAdd a b | ESub a b | EMul a b | EDiv a b => covered a /\ covered b
  | EAddC a _ | ESubC a _ | ECSub _ a | EMulC a _ | EDivC a _ | ENeg a | EFn _ a => covered a
  | ECDiv _ _ => False
  | EPowi a n => covered a /\ (- 2 ^ 31 <= n < 2 ^ 31)%Z
  end.

Definition usmooth (f : ufn) (x : R) : Prop :=
  match f with
  | UExp | USin | UCos | UTanh => True
  | ULn | USqrt => 0 < x
  | URecip => x <> 0
  end.

(** differentiable in the usual sense at the point [xs] (with let-bound values [env]) *)
Fixpoint smooth_at (e : expr R) (data : list (list R)) (xs env : list R) : Prop :=
  match e with
  | EPar i => (i < length xs)%nat
  | EVar k => (k < length env)%nat
  | ELet a b => smooth_at a data xs env /\ smooth_at b data xs (den a data xs env :: env)
  | EAdd a b | ESub a b | EMul a b => smooth_at a data xs env /\ smooth_at b data xs env
  | EAddC a c | ESubC a c | ECSub c a | EMulC a c => smooth_at a data xs env /\ cval data c <> None
  | EDiv a b => smooth_at a data xs env /\ smooth_at b data xs env /\ den b data xs env <> 0
  | EDivC a c => smooth_at a data xs env /\ cval data c <> None /\ cden data c <> 0
  | ECDiv c a => smooth_at a data xs env /\ cval data c <> None /\ den a data xs env <> 0
  | ENeg a => smooth_at a data xs env
  | EPowi a n => smooth_at a data xs env /\ ((n < 0)%Z -> den a data xs env <> 0)
  | EFn f a => smooth_at a data xs env /\ usmooth f (den a data xs env)
  end.

(** [g] is the vector of partial derivatives of the denotation of [e] at [x] *)
Definition true_grad (e : expr R) (data : list (list R)) (x g : list R) : Prop :=
  length g = length x /\
  forall i, (i < length x)%nat -> is_derive (fun t => den e data (upd x i t) []) (nth i x 0) (nth i g 0).

(** the gradient functions handed to the optimisers (total: the zero vector where the program
    panics, i.e. an index is out of range - never the case at a smooth point) *)
Definition tape_gradient (e : expr R) (data : list (list R)) (x : list R) : list R :=
  match tape_grad RO e data x with Some g => g | None => repeat 0 (length x) end.
Definition tape_gradient_la (e : expr R) (data : list (list R)) (x : list R) : list R :=
  match tape_grad_la RO e data x with Some g => g | None => repeat 0 (length x) end.
(** what [SGD::optimize] differentiates with: the look-ahead tape under Nesterov momentum *)
Definition tape_gradient_sgd (nesterov : bool) := if nesterov then tape_gradient_la else tape_gradient.


(** ** Levenberg-Marquardt's objects for a model function [e] = f(params, [[x]]) fitted to the points
    [(x_i, y_i)]: residuals r_i = y_i - f(params, x_i), and the Jacobian of the model function (row i =
    gradient of params |-> f(params, x_i); the Jacobian of the residuals is its opposite, J^T J is the same) *)
Definition model_residuals (e : expr R) (xs ys : list R) (ps : list R) : list R :=
  map (fun xy => snd xy - den e [[fst xy]] ps []) (combine xs ys).
(** [J] is a Jacobian of the model function at [ps]: one row per point, each row the vector of partial derivatives *)
Definition true_jacobian (e : expr R) (xs : list R) (ps : list R) (J : list (list R)) : Prop :=
  length J = length xs /\
  forall i, (i < length xs)%nat -> true_grad e [[nth i xs 0]] ps (nth i J []).
(** THE Jacobian, in closed form (Coquelicot's [Derive] along each coordinate) *)
Definition model_jacobian (e : expr R) (xs : list R) (ps : list R) : list (list R) :=
  map (fun x => map (fun j => Derive (fun t => den e [[x]] (upd ps j t) []) (nth j ps 0)) (seq 0 (length ps))) xs.
(** the model function is differentiable (in the sense of [smooth_at]) at [ps] for every abscissa *)
Definition smooth_on (e : expr R) (xs : list R) (ps : list R) : Prop :=
  forall x, In x xs -> smooth_at e [[x]] ps [].
