(** * Spec: the textbook objects of resampling. *)
From Coq Require Import List Arith Permutation.
Import ListNotations.

(** the list without its [i]-th element (unchanged when [i] is out of range) *)
Fixpoint remove_nth {A} (i : nat) (l : list A) {struct l} : list A :=
  match l with
  | [] => []
  | x :: t => match i with 0 => t | S i' => x :: remove_nth i' t end
  end.

(** the [n] leave-one-out vectors, in order *)
Definition leave_one_out {A} (l : list A) : list (list A) :=
  map (fun i => remove_nth i l) (seq 0 (length l)).

(** [out] reads [l] through the index list [idx]: [out[j] = l[idx[j]]] for every [j], all indices in
    range, same length *)
Definition selects {A} (l : list A) (idx : list nat) (out : list A) : Prop :=
  map Some out = map (nth_error l) idx.

(** [sigma] is a permutation of the positions [0 .. n-1] *)
Definition is_perm_of (n : nat) (sigma : list nat) : Prop := Permutation sigma (seq 0 n).
