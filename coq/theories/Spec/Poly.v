(** * Spec: polynomial least squares over the reals (the objects C14 refers to). *)
From Coq Require Import Reals List Arith.
Import ListNotations.
Local Open Scope R_scope.

(** Σ_{i<n} f i *)
Fixpoint rsum (f : nat -> R) (n : nat) : R :=
  match n with 0%nat => 0 | S m => rsum f m + f m end.

(** c₀ + c₁x + … + c_d x^d for the coefficient list [c] (d + 1 = length c) *)
Definition poly_sum (c : list R) (x : R) : R := rsum (fun i => nth i c 0 * x ^ i) (length c).

(** residual of observation [i], and the residual sum of squares of the coefficient list [c] *)
Definition resid (x y c : list R) (i : nat) : R := nth i y 0 - poly_sum c (nth i x 0).
Definition rss (x y c : list R) : R := rsum (fun i => (resid x y c i) ^ 2) (length x).

(** [Ai] (flat, row-major) is a right inverse of the [n x n] matrix [A]:  A·Ai = I, entry by entry *)
Definition right_inverse (n : nat) (A Ai : list R) : Prop :=
  length Ai = (n * n)%nat /\
  forall i j, (i < n)%nat -> (j < n)%nat ->
    rsum (fun l => nth (i * n + l) A 0 * nth (l * n + j) Ai 0) n = if (i =? j)%nat then 1 else 0.

(** the Gram matrix VᵀV of the Vandermonde matrix of [x] with [k] columns, and Vᵀy, entry by entry *)
Definition gram_entry (x : list R) (j l : nat) : R := rsum (fun i => nth i x 0 ^ j * nth i x 0 ^ l) (length x).
Definition is_gram (k : nat) (x G : list R) : Prop :=
  length G = (k * k)%nat /\ forall j l, (j < k)%nat -> (l < k)%nat -> nth (j * k + l) G 0 = gram_entry x j l.

(** [A·d = 0] forces [d = 0] *)
Definition nonsingular (n : nat) (A : list R) : Prop :=
  forall d, length d = n ->
    (forall j, (j < n)%nat -> rsum (fun l => nth (j * n + l) A 0 * nth l d 0) n = 0) ->
    Forall (fun a => a = 0) d.
(** symmetric, and dᵀAd > 0 for every d <> 0 *)
Definition sym_pos_def (n : nat) (A : list R) : Prop :=
  (forall j l, (j < n)%nat -> (l < n)%nat -> nth (j * n + l) A 0 = nth (l * n + j) A 0) /\
  forall d, length d = n -> ~ Forall (fun a => a = 0) d ->
    0 < rsum (fun j => nth j d 0 * rsum (fun l => nth (j * n + l) A 0 * nth l d 0) n) n.

(** [x] has at least [k] pairwise distinct entries (witnessed by an injective choice of [k] positions) *)
Definition has_distinct (k : nat) (x : list R) : Prop :=
  exists pos : list nat, length pos = k /\ (forall p, In p pos -> (p < length x)%nat) /\
    NoDup (map (fun p => nth p x 0) pos).
