(** * Spec: piecewise-linear interpolation through knots (x_j, y_j) with an out-of-range mode
    (the textbook object C16 refers to), over the reals. *)
From Coq Require Import List Arith Reals.
From Compute Require Import Base.Ops Model.Interp.
Import ListNotations.
Local Open Scope R_scope.

(** the straight line through (x0,y0) and (x1,y1), at t *)
Definition line (x0 y0 x1 y1 t : R) : R := y0 + (t - x0) / (x1 - x0) * (y1 - y0).

(** v lies between a and b (in either order) *)
Definition between (a b v : R) : Prop := Rmin a b <= v <= Rmax a b.

(** strictly increasing abscissae *)
Definition increasing (x : list R) : Prop :=
  forall i j, (i < j < length x)%nat -> nth i x 0 < nth j x 0.

(** some adjacent pair descends *)
Definition has_descent (x : list R) : Prop :=
  exists i, (S i < length x)%nat /\ nth (S i) x 0 < nth i x 0.

(** [interp_spec x y m t r]: r is what interpolation of the knots (x,y) at t has to produce under
    mode m ([None] = panic) *)
Inductive interp_spec (x y : list R) (m : mode R) (t : R) : option R -> Prop :=
| IS_inside j :
    (S j < length x)%nat -> nth j x 0 <= t <= nth (S j) x 0 ->
    interp_spec x y m t (Some (line (nth j x 0) (nth j y 0) (nth (S j) x 0) (nth (S j) y 0) t))
| IS_below_panic : t < nth 0 x 0 -> m = MPanic -> interp_spec x y m t None
| IS_below_fill l r : t < nth 0 x 0 -> m = MFill l r -> interp_spec x y m t (Some l)
| IS_below_extrap :
    t < nth 0 x 0 -> m = MExtrap ->
    interp_spec x y m t (Some (line (nth 0 x 0) (nth 0 y 0) (nth 1 x 0) (nth 1 y 0) t))
| IS_above_panic : nth (length x - 1) x 0 < t -> m = MPanic -> interp_spec x y m t None
| IS_above_fill l r : nth (length x - 1) x 0 < t -> m = MFill l r -> interp_spec x y m t (Some r)
| IS_above_extrap :
    nth (length x - 1) x 0 < t -> m = MExtrap ->
    interp_spec x y m t (Some (line (nth (length x - 2) x 0) (nth (length x - 2) y 0)
                                    (nth (length x - 1) x 0) (nth (length x - 1) y 0) t)).
