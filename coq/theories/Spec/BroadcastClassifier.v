(** * Spec of the leaves of the shape classifier: what each of the nine valid results of
    [calc_broadcast_shape] (regenerated from the Rust source) must say about the two shapes. *)
From Coq Require Import Arith.
From Compute Require Import Generated.broadcast_classifier.

(** what each of the nine valid results says about the two shapes (parameters included) *)
Definition leaf_ok (r1 c1 r2 c2 : nat) (b : Broadcast * Broadcast) : Prop :=
  match b with
  | (BNone, BNone) => r1 = r2 /\ c1 = c2
  | (BHstack h, BNone) => c1 = 1 /\ r1 = r2 /\ h = c2 /\ c2 <> 1
  | (BVstack v, BNone) => r1 = 1 /\ c1 = c2 /\ v = r2 /\ r2 <> 1
  | (BNone, BHstack h) => c2 = 1 /\ r1 = r2 /\ h = c1 /\ c1 <> 1
  | (BNone, BVstack v) => r2 = 1 /\ c1 = c2 /\ v = r1 /\ r1 <> 1
  | (BHstack h, BVstack v) => c1 = 1 /\ r2 = 1 /\ h = c2 /\ v = r1 /\ r1 <> 1
  | (BVstack v, BHstack h) => r1 = 1 /\ c2 = 1 /\ h = c1 /\ v = r2 /\ c1 <> 1
  | (BIsScalar, BNone) => r1 = 1 /\ c1 = 1 /\ c2 <> 1
  | (BNone, BIsScalar) => r2 = 1 /\ c2 = 1 /\ r1 <> 1 /\ c1 <> 1
  | _ => False
  end.
