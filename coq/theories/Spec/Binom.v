(** * Spec: the binomial coefficient C(n,k), as MathComp's ['C(n, k)] ([binomial.binomial], defined by
    Pascal's recurrence on [nat]), transported to [N].  Never computed on large arguments. *)
From mathcomp Require binomial.
From Coq Require Import NArith.

Definition CN (n k : N) : N := N.of_nat (binomial.binomial (N.to_nat n) (N.to_nat k)).
