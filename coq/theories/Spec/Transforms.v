(** * Spec: the textbook transforms on reals. *)
From Coq Require Import Reals List.
Import ListNotations.
Local Open Scope R_scope.

Definition Rsum (l : list R) : R := fold_right Rplus 0 l.

(** sigma(x) = e^x / (1 + e^x) *)
Definition sigma (x : R) : R := exp x / (1 + exp x).
(** log-odds *)
Definition logodds (p : R) : R := ln p - ln (1 - p).
(** softmax(x)_i = e^{x_i} / sum_j e^{x_j} *)
Definition softmax_spec (x : list R) : list R :=
  map (fun v => exp v / Rsum (map exp x)) x.
(** Box-Cox: (y^lambda - 1)/lambda, and ln y at lambda = 0 (for y > 0) *)
Definition boxcox_spec (y lambda : R) : R :=
  if Req_EM_T lambda 0 then ln y else (Rpower y lambda - 1) / lambda.
