(** * Spec: the textbook densities, mass functions and moments of the 13 univariate laws.
    Parametric in the Gamma function [Gam] (no Gamma theory is installed; C09 ties [Gam] to the code).
    Formulas as in the standard references (Johnson-Kotz-Balakrishnan; the Wikipedia pages the crate cites). *)
From Coq Require Import Reals ZArith List.
From Compute Require Import Base.Ops Model.Dists.
Import ListNotations.
Open Scope R_scope.

Section Densities.
  Context (Gam : R -> R).
  Definition Beta_fn (a b : R) : R := Gam a * Gam b / Gam (a + b).

  (** densities on the (interior of the) support *)
  Definition spec_pdf_normal (mu s x : R) : R := / (s * R_sqrt.sqrt (2 * PI)) * exp (- (((x - mu) / s) ^ 2) / 2).
  Definition spec_pdf_gamma (a b x : R) : R := Rpower b a / Gam a * Rpower x (a - 1) * exp (- (b * x)).
  Definition spec_pdf_beta (a b x : R) : R := Rpower x (a - 1) * Rpower (1 - x) (b - 1) / Beta_fn a b.
  Definition spec_pdf_chisq (k : Z) (x : R) : R :=
    / (Rpower 2 (IZR k / 2) * Gam (IZR k / 2)) * Rpower x (IZR k / 2 - 1) * exp (- (x / 2)).
  Definition spec_pdf_t (nu x : R) : R :=
    Gam ((nu + 1) / 2) / (R_sqrt.sqrt (nu * PI) * Gam (nu / 2)) * Rpower (1 + x ^ 2 / nu) (- ((nu + 1) / 2)).
  Definition spec_pdf_pareto (a m x : R) : R := a * Rpower m a / Rpower x (a + 1).
  Definition spec_pdf_gumbel (mu b x : R) : R :=
    let z := (x - mu) / b in / b * exp (- (z + exp (- z))).
  Definition spec_pdf_exponential (l x : R) : R := l * exp (- (l * x)).
  Definition spec_pdf_uniform (lo hi : R) : R := / (hi - lo).
  Definition spec_cdf_normal (Erf : R -> R) (mu s x : R) : R := (1 + Erf ((x - mu) / (s * R_sqrt.sqrt 2))) / 2.

  (** mass functions on the support (counts as [nat] offsets / [Z]) *)
  Definition spec_pmf_bernoulli (p : R) (k : Z) : R := if Z.eqb k 0 then 1 - p else p.
  Definition spec_pmf_binomial (n : nat) (p : R) (k : nat) : R := C n k * p ^ k * (1 - p) ^ (n - k).
  Definition spec_pmf_duniform (lo hi : Z) : R := / IZR (hi - lo + 1).
  Definition spec_pmf_poisson (l : R) (k : nat) : R := l ^ k * exp (- l) / INR (fact k).
End Densities.

(** the textbook table of means and variances ([None] = infinite or undefined) *)
Definition euler_gamma_99 : R :=
  IZR 577215664901532860606512090082402431042159335939923598805767234884867726777664670936947063291746749 / 10 ^ 99.

(** validity of the parameters (the domain of each law) *)
Definition valid_params (d : dist R) : Prop :=
  match d with
  | DBernoulli p => 0 <= p <= 1
  | DBeta a b => 0 < a /\ 0 < b
  | DBinomial n p => (0 <= n)%Z /\ 0 <= p <= 1
  | DChiSquared k => (0 < k)%Z
  | DDiscreteUniform lo hi => (lo <= hi)%Z
  | DExponential l => 0 < l
  | DGamma a b => 0 < a /\ 0 < b
  | DGumbel _ b => 0 < b
  | DNormal _ s => 0 <= s
  | DPareto a m => 0 < a /\ 0 < m
  | DPoisson l => 0 < l
  | DT nu => 0 < nu
  | DUniform lo hi => lo <= hi
  end.

Definition spec_mean (d : dist R) : moment R :=
  match d with
  | DBernoulli p => Fin p
  | DBeta a b => Fin (a / (a + b))
  | DBinomial n p => Fin (IZR n * p)
  | DChiSquared k => Fin (IZR k)
  | DDiscreteUniform lo hi => Fin ((IZR lo + IZR hi) / 2)
  | DExponential l => Fin (/ l)
  | DGamma a b => Fin (a / b)
  | DGumbel mu b => Fin (mu + b * euler_gamma_99)
  | DNormal mu _ => Fin mu
  | DPareto a m => if Rle_dec a 1 then PInf else Fin (a * m / (a - 1))
  | DPoisson l => Fin l
  | DT nu => if Rlt_dec 1 nu then Fin 0 else Undef
  | DUniform lo hi => Fin ((lo + hi) / 2)
  end.
Definition spec_var (d : dist R) : moment R :=
  match d with
  | DBernoulli p => Fin (p * (1 - p))
  | DBeta a b => Fin (a * b / ((a + b) ^ 2 * (a + b + 1)))
  | DBinomial n p => Fin (IZR n * p * (1 - p))
  | DChiSquared k => Fin (2 * IZR k)
  | DDiscreteUniform lo hi => Fin ((IZR (hi - lo + 1) ^ 2 - 1) / 12)
  | DExponential l => Fin (/ (l ^ 2))
  | DGamma a b => Fin (a / b ^ 2)
  | DGumbel _ b => Fin (PI ^ 2 / 6 * b ^ 2)
  | DNormal _ s => Fin (s ^ 2)
  | DPareto a m => if Rle_dec a 2 then PInf else Fin (m ^ 2 * a / ((a - 1) ^ 2 * (a - 2)))
  | DPoisson l => Fin l
  | DT nu => if Rlt_dec 2 nu then Fin (nu / (nu - 2)) else if Rlt_dec 1 nu then PInf else Undef
  | DUniform lo hi => Fin ((hi - lo) ^ 2 / 12)
  end.

(** the support of each law (continuous: a set of reals; discrete: a set of integers) *)
Definition in_support (d : dist R) (x : R) : Prop :=
  match d with
  | DBeta _ _ => 0 <= x <= 1
  | DChiSquared k => if Z.eqb k 1 then 0 < x else 0 <= x
  | DExponential _ => 0 <= x
  | DGamma _ _ => 0 < x
  | DPareto _ m => m <= x
  | DUniform lo hi => lo <= x <= hi
  | _ => True
  end.
Definition in_support_Z (d : dist R) (k : Z) : Prop :=
  match d with
  | DBernoulli _ => k = 0%Z \/ k = 1%Z
  | DBinomial n _ => (0 <= k <= n)%Z
  | DDiscreteUniform lo hi => (lo <= k <= hi)%Z
  | DPoisson _ => (0 <= k)%Z
  | _ => True
  end.
Definition is_continuous (d : dist R) : bool :=
  match d with DBernoulli _ | DBinomial _ _ | DDiscreteUniform _ _ | DPoisson _ => false | _ => true end.
