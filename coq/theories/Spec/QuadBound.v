(** * Spec for C07 (error bounds): the spacings of tabulated abscissae are at most H. *)
From Coq Require Import Reals List.
Import ListNotations.
Open Scope R_scope.

(** x_{i+1} - x_i <= H for every consecutive pair *)
Fixpoint spacing_le (H : R) (x : list R) : Prop :=
  match x with
  | x0 :: ((x1 :: _) as xs) => x1 - x0 <= H /\ spacing_le H xs
  | _ => True
  end.
