(** * Spec: the textbook objects C13 refers to (over the reals). *)
From Coq Require Import Reals List Arith ZArith.
From Compute Require Import Base.ListMat.
Import ListNotations.
Local Open Scope R_scope.

(** Σ of a list *)
Definition Rsum (l : list R) : R := fold_right Rplus 0 l.

(** sample mean *)
Definition smean (x : list R) : R := Rsum x / INR (length x).

(** biased autocovariance estimator at lag k (k of either sign):
    (1/n) Σ_{i=|k|}^{n-1} (x_i - m)(x_{i-|k|} - m) *)
Definition acov (x : list R) (k : Z) : R :=
  let n := length x in
  let m := smean x in
  let h := Z.abs_nat k in
  / INR n * Rsum (map (fun i => (nth i x 0 - m) * (nth (i - h) x 0 - m)) (seq h (n - h))).

(** autocorrelation = autocovariance normalised by the lag-0 autocovariance (the biased variance) *)
Definition acorr (x : list R) (k : Z) : R := acov x k / acov x 0.

(** cumulative summation started at [x0]: [x0; x0+x_1; x0+x_1+x_2; ...] *)
Fixpoint cumsum (x0 : R) (x : list R) : list R :=
  x0 :: match x with
        | [] => []
        | a :: x' => cumsum (x0 + a) x'
        end.

(** |i - j| on naturals *)
Definition adiff (i j : nat) : nat := (i - j) + (j - i).

(** Yule-Walker equations of order p for autocorrelations r(0), r(1), ... and coefficients
    phi = [phi_1; ...; phi_p]:   Σ_{j<p} r(|i-j|) phi_{j+1} = r(i+1)   for every i < p *)
Definition yule_walker (r : nat -> R) (p : nat) (phi : list R) : Prop :=
  length phi = p /\
  forall i, (i < p)%nat ->
    Rsum (map (fun j => r (adiff i j) * nth j phi 0) (seq 0 p)) = r (S i).

(** the AR recursion z_t = Σ_{i=1}^{p} phi_i z_{t-i} applied to a (centred) history [hist]
    (oldest first); observations before the start of the history count as 0 *)
Definition ar_next (phi hist : list R) : R := Rsum (map2 Rmult phi (rev hist)).
Fixpoint ar_forecast (phi hist : list R) (h : nat) : list R :=
  match h with
  | O => []
  | S h' => let zv := ar_next phi hist in zv :: ar_forecast phi (hist ++ [zv]) h'
  end.

(** flat row-major n x n matrices: [Ai] is a right inverse of [A] *)
Definition right_inverse (n : nat) (A Ai : list R) : Prop :=
  length Ai = (n * n)%nat /\
  forall i j, (i < n)%nat -> (j < n)%nat ->
    Rsum (map (fun k => nth (i * n + k) A 0 * nth (k * n + j) Ai 0) (seq 0 n))
    = if Nat.eqb i j then 1 else 0.
