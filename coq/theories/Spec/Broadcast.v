(** * Spec: NumPy broadcasting of two 2-D row-major arrays (the rule C12 refers to).

    Two shapes are compatible when, on each axis, the extents are equal or one of them is 1.  The result has
    the element-wise maximum shape and entry (i,j) is [left[i or 0][j or 0] o right[i or 0][j or 0]], where an
    axis of extent 1 is read at index 0, with the LEFT operand on the left of [o]. *)
From Coq Require Import List Arith Bool.
Import ListNotations.

Definition dim_compatible (a b : nat) : Prop := a = b \/ a = 1 \/ b = 1.
Definition np_compatible (r1 c1 r2 c2 : nat) : Prop := dim_compatible r1 r2 /\ dim_compatible c1 c2.

Definition dim_compatible_b (a b : nat) : bool := (a =? b) || (a =? 1) || (b =? 1).
Definition np_compatible_b (r1 c1 r2 c2 : nat) : bool := dim_compatible_b r1 r2 && dim_compatible_b c1 c2.

(** "i or 0": an axis of extent 1 is read at index 0 *)
Definition bidx (extent i : nat) : nat := if extent =? 1 then 0 else i.

(** [R] rows of [C] entries [f i j] *)
Definition tabulate {A} (R C : nat) (f : nat -> nat -> A) : list (list A) :=
  map (fun i => map (fun j => f i j) (seq 0 C)) (seq 0 R).

Section Spec.
  Context {T : Type} (op : T -> T -> T) (d : T).

  (** entry (i,j) of a flat row-major array with [c] columns ([d] only outside the array) *)
  Definition flat_at (a : list T) (c i j : nat) : T := nth (i * c + j) a d.

  Definition np_entry (r1 c1 : nat) (a1 : list T) (r2 c2 : nat) (a2 : list T) (i j : nat) : T :=
    op (flat_at a1 c1 (bidx r1 i) (bidx c1 j)) (flat_at a2 c2 (bidx r2 i) (bidx c2 j)).

  (** the row-major data of the broadcast result *)
  Definition np_data (r1 c1 : nat) (a1 : list T) (r2 c2 : nat) (a2 : list T) : list T :=
    concat (tabulate (Nat.max r1 r2) (Nat.max c1 c2) (np_entry r1 c1 a1 r2 c2 a2)).
End Spec.
