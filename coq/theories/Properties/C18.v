(** * C18 — distributions are a pure function of their current parameters (and of the RNG state handed to them).
    Statements only; proofs in Proofs/C18_generic.v (once, for any machine), Proofs/C18.v (the four per-call facts of each
    machine, by one tactic over the text REGENERATED from src/distributions/*.rs) and Proofs/C18_inst.v.
    [X_machine O] is the generated state machine of distribution X over the carrier [O]: [m_new] = X::new ([None] = panic),
    [m_step] = one setter / update call ([Panicked s] = panic leaving the object as [s]), [m_params] = the parameter fields,
    [m_target s o] = the parameter vector call [o] asks for, [run] = a whole history with panics caught.
    The first four theorems of each distribution hold for EVERY carrier and EVERY operations record (for Beta: every carrier
    on which 1 <= 0 and 1 < 0 are false) -- in particular bit for bit on binary64, NaN and infinities included; the last
    three read the constructor's guard as the documented domain over the reals. *)
From Coq Require Import ZArith QArith Reals List Bool.
From Compute Require Import Base.Ops Base.DistCore Generated.dist_setters Spec.Distributions Proofs.C18_generic Proofs.C18 Proofs.C18_inst Proofs.C18_refuted.
Import ListNotations.

(** ** Bernoulli *)
(** after any history of Bernoulli setter/update calls (panics caught, object used further) the object -- cached sub-samplers included -- is exactly what new builds from the object's current parameters *)
Theorem C18_fresh_equiv_Bernoulli :
  forall (T : Type) (O : Ops T), forall (th0 : m_param (Bernoulli_machine O)) (s0 : m_state (Bernoulli_machine O)) (h : list (m_op (Bernoulli_machine O))),
    m_new (Bernoulli_machine O) th0 = Some s0 ->
    m_new (Bernoulli_machine O) (m_params (Bernoulli_machine O) (run (Bernoulli_machine O) s0 h)) = Some (run (Bernoulli_machine O) s0 h).
Proof. exact @fresh_equiv_Bernoulli. Qed.

(** hence any observation of the object (pdf/pmf, mean, var, the sample stream from any RNG state) equals that of a fresh twin *)
Theorem C18_observational_equiv_Bernoulli :
  forall (T : Type) (O : Ops T), forall (A : Type) (obs : m_state (Bernoulli_machine O) -> A) (th0 : m_param (Bernoulli_machine O)) (s0 : m_state (Bernoulli_machine O)) (h : list (m_op (Bernoulli_machine O))),
    m_new (Bernoulli_machine O) th0 = Some s0 ->
    exists twin, m_new (Bernoulli_machine O) (m_params (Bernoulli_machine O) (run (Bernoulli_machine O) s0 h)) = Some twin /\ obs (run (Bernoulli_machine O) s0 h) = obs twin.
Proof. exact @observational_equiv_Bernoulli. Qed.

(** at any point of any history a setter/update asking for parameters that Bernoulli::new accepts returns, and the object is then the fresh one at those parameters, whatever the previous parameters *)
Theorem C18_valid_update_succeeds_Bernoulli :
  forall (T : Type) (O : Ops T), forall (th0 : m_param (Bernoulli_machine O)) (s0 : m_state (Bernoulli_machine O)) (h : list (m_op (Bernoulli_machine O))) (o : m_op (Bernoulli_machine O)) (th : m_param (Bernoulli_machine O)) (s' : m_state (Bernoulli_machine O)),
    m_new (Bernoulli_machine O) th0 = Some s0 -> m_wf (Bernoulli_machine O) o = true ->
    m_target (Bernoulli_machine O) (run (Bernoulli_machine O) s0 h) o = Some th -> m_new (Bernoulli_machine O) th = Some s' ->
    m_step (Bernoulli_machine O) (run (Bernoulli_machine O) s0 h) o = Ok s' /\ m_params (Bernoulli_machine O) s' = th.
Proof. exact @valid_update_succeeds_Bernoulli. Qed.

(** a call asking for parameters Bernoulli::new refuses (or passing too few numbers) panics; a setter leaves the object untouched, update leaves an object that is still fresh at its own parameters *)
Theorem C18_invalid_rejected_Bernoulli :
  forall (T : Type) (O : Ops T), forall (th0 : m_param (Bernoulli_machine O)) (s0 : m_state (Bernoulli_machine O)) (h : list (m_op (Bernoulli_machine O))) (o : m_op (Bernoulli_machine O)),
    m_new (Bernoulli_machine O) th0 = Some s0 ->
    obind (m_target (Bernoulli_machine O) (run (Bernoulli_machine O) s0 h) o) (m_new (Bernoulli_machine O)) = None ->
    exists s'', m_step (Bernoulli_machine O) (run (Bernoulli_machine O) s0 h) o = Panicked s'' /\ m_new (Bernoulli_machine O) (m_params (Bernoulli_machine O) s'') = Some s'' /\
                (m_is_update (Bernoulli_machine O) o = false -> s'' = run (Bernoulli_machine O) s0 h).
Proof. exact @invalid_rejected_Bernoulli. Qed.

(** over R, Bernoulli::new accepts exactly the documented domain *)
Theorem C18_constructor_domain_Bernoulli :
  forall (th : m_param (Bernoulli_machine RO)), m_new (Bernoulli_machine RO) th <> None <-> Bernoulli_dom th.
Proof. exact @constructor_domain_Bernoulli. Qed.

(** over R, after any history the parameters held by the object lie in the documented domain *)
Theorem C18_domain_invariant_Bernoulli :
  forall (th0 : m_param (Bernoulli_machine RO)) (s0 : m_state (Bernoulli_machine RO)) (h : list (m_op (Bernoulli_machine RO))),
    m_new (Bernoulli_machine RO) th0 = Some s0 -> Bernoulli_dom (m_params (Bernoulli_machine RO) (run (Bernoulli_machine RO) s0 h)).
Proof. exact @domain_invariant_Bernoulli. Qed.

(** over R, a well-formed call at any point of any history returns iff the parameters it asks for lie in the documented domain *)
Theorem C18_accepted_iff_in_domain_Bernoulli :
  forall (th0 : m_param (Bernoulli_machine RO)) (s0 : m_state (Bernoulli_machine RO)) (h : list (m_op (Bernoulli_machine RO))) (o : m_op (Bernoulli_machine RO)) (th : m_param (Bernoulli_machine RO)),
    m_new (Bernoulli_machine RO) th0 = Some s0 -> m_wf (Bernoulli_machine RO) o = true -> m_target (Bernoulli_machine RO) (run (Bernoulli_machine RO) s0 h) o = Some th ->
    (is_ok (m_step (Bernoulli_machine RO) (run (Bernoulli_machine RO) s0 h) o) = true <-> Bernoulli_dom th).
Proof. exact @accepted_iff_in_domain_Bernoulli. Qed.

(** ** Beta *)
(** after any history of Beta setter/update calls (panics caught, object used further) the object -- cached sub-samplers included -- is exactly what new builds from the object's current parameters *)
Theorem C18_fresh_equiv_Beta :
  forall (T : Type) (O : Ops T), carrier_sane O -> forall (th0 : m_param (Beta_machine O)) (s0 : m_state (Beta_machine O)) (h : list (m_op (Beta_machine O))),
    m_new (Beta_machine O) th0 = Some s0 ->
    m_new (Beta_machine O) (m_params (Beta_machine O) (run (Beta_machine O) s0 h)) = Some (run (Beta_machine O) s0 h).
Proof. exact @fresh_equiv_Beta. Qed.

(** hence any observation of the object (pdf/pmf, mean, var, the sample stream from any RNG state) equals that of a fresh twin *)
Theorem C18_observational_equiv_Beta :
  forall (T : Type) (O : Ops T), carrier_sane O -> forall (A : Type) (obs : m_state (Beta_machine O) -> A) (th0 : m_param (Beta_machine O)) (s0 : m_state (Beta_machine O)) (h : list (m_op (Beta_machine O))),
    m_new (Beta_machine O) th0 = Some s0 ->
    exists twin, m_new (Beta_machine O) (m_params (Beta_machine O) (run (Beta_machine O) s0 h)) = Some twin /\ obs (run (Beta_machine O) s0 h) = obs twin.
Proof. exact @observational_equiv_Beta. Qed.

(** at any point of any history a setter/update asking for parameters that Beta::new accepts returns, and the object is then the fresh one at those parameters, whatever the previous parameters *)
Theorem C18_valid_update_succeeds_Beta :
  forall (T : Type) (O : Ops T), carrier_sane O -> forall (th0 : m_param (Beta_machine O)) (s0 : m_state (Beta_machine O)) (h : list (m_op (Beta_machine O))) (o : m_op (Beta_machine O)) (th : m_param (Beta_machine O)) (s' : m_state (Beta_machine O)),
    m_new (Beta_machine O) th0 = Some s0 -> m_wf (Beta_machine O) o = true ->
    m_target (Beta_machine O) (run (Beta_machine O) s0 h) o = Some th -> m_new (Beta_machine O) th = Some s' ->
    m_step (Beta_machine O) (run (Beta_machine O) s0 h) o = Ok s' /\ m_params (Beta_machine O) s' = th.
Proof. exact @valid_update_succeeds_Beta. Qed.

(** a call asking for parameters Beta::new refuses (or passing too few numbers) panics; a setter leaves the object untouched, update leaves an object that is still fresh at its own parameters *)
Theorem C18_invalid_rejected_Beta :
  forall (T : Type) (O : Ops T), carrier_sane O -> forall (th0 : m_param (Beta_machine O)) (s0 : m_state (Beta_machine O)) (h : list (m_op (Beta_machine O))) (o : m_op (Beta_machine O)),
    m_new (Beta_machine O) th0 = Some s0 ->
    obind (m_target (Beta_machine O) (run (Beta_machine O) s0 h) o) (m_new (Beta_machine O)) = None ->
    exists s'', m_step (Beta_machine O) (run (Beta_machine O) s0 h) o = Panicked s'' /\ m_new (Beta_machine O) (m_params (Beta_machine O) s'') = Some s'' /\
                (m_is_update (Beta_machine O) o = false -> s'' = run (Beta_machine O) s0 h).
Proof. exact @invalid_rejected_Beta. Qed.

(** over R, Beta::new accepts exactly the documented domain *)
Theorem C18_constructor_domain_Beta :
  forall (th : m_param (Beta_machine RO)), m_new (Beta_machine RO) th <> None <-> Beta_dom th.
Proof. exact @constructor_domain_Beta. Qed.

(** over R, after any history the parameters held by the object lie in the documented domain *)
Theorem C18_domain_invariant_Beta :
  forall (th0 : m_param (Beta_machine RO)) (s0 : m_state (Beta_machine RO)) (h : list (m_op (Beta_machine RO))),
    m_new (Beta_machine RO) th0 = Some s0 -> Beta_dom (m_params (Beta_machine RO) (run (Beta_machine RO) s0 h)).
Proof. exact @domain_invariant_Beta. Qed.

(** over R, a well-formed call at any point of any history returns iff the parameters it asks for lie in the documented domain *)
Theorem C18_accepted_iff_in_domain_Beta :
  forall (th0 : m_param (Beta_machine RO)) (s0 : m_state (Beta_machine RO)) (h : list (m_op (Beta_machine RO))) (o : m_op (Beta_machine RO)) (th : m_param (Beta_machine RO)),
    m_new (Beta_machine RO) th0 = Some s0 -> m_wf (Beta_machine RO) o = true -> m_target (Beta_machine RO) (run (Beta_machine RO) s0 h) o = Some th ->
    (is_ok (m_step (Beta_machine RO) (run (Beta_machine RO) s0 h) o) = true <-> Beta_dom th).
Proof. exact @accepted_iff_in_domain_Beta. Qed.

(** ** Binomial *)
(** after any history of Binomial setter/update calls (panics caught, object used further) the object -- cached sub-samplers included -- is exactly what new builds from the object's current parameters *)
Theorem C18_fresh_equiv_Binomial :
  forall (T : Type) (O : Ops T), forall (th0 : m_param (Binomial_machine O)) (s0 : m_state (Binomial_machine O)) (h : list (m_op (Binomial_machine O))),
    m_new (Binomial_machine O) th0 = Some s0 ->
    m_new (Binomial_machine O) (m_params (Binomial_machine O) (run (Binomial_machine O) s0 h)) = Some (run (Binomial_machine O) s0 h).
Proof. exact @fresh_equiv_Binomial. Qed.

(** hence any observation of the object (pdf/pmf, mean, var, the sample stream from any RNG state) equals that of a fresh twin *)
Theorem C18_observational_equiv_Binomial :
  forall (T : Type) (O : Ops T), forall (A : Type) (obs : m_state (Binomial_machine O) -> A) (th0 : m_param (Binomial_machine O)) (s0 : m_state (Binomial_machine O)) (h : list (m_op (Binomial_machine O))),
    m_new (Binomial_machine O) th0 = Some s0 ->
    exists twin, m_new (Binomial_machine O) (m_params (Binomial_machine O) (run (Binomial_machine O) s0 h)) = Some twin /\ obs (run (Binomial_machine O) s0 h) = obs twin.
Proof. exact @observational_equiv_Binomial. Qed.

(** at any point of any history a setter/update asking for parameters that Binomial::new accepts returns, and the object is then the fresh one at those parameters, whatever the previous parameters *)
Theorem C18_valid_update_succeeds_Binomial :
  forall (T : Type) (O : Ops T), forall (th0 : m_param (Binomial_machine O)) (s0 : m_state (Binomial_machine O)) (h : list (m_op (Binomial_machine O))) (o : m_op (Binomial_machine O)) (th : m_param (Binomial_machine O)) (s' : m_state (Binomial_machine O)),
    m_new (Binomial_machine O) th0 = Some s0 -> m_wf (Binomial_machine O) o = true ->
    m_target (Binomial_machine O) (run (Binomial_machine O) s0 h) o = Some th -> m_new (Binomial_machine O) th = Some s' ->
    m_step (Binomial_machine O) (run (Binomial_machine O) s0 h) o = Ok s' /\ m_params (Binomial_machine O) s' = th.
Proof. exact @valid_update_succeeds_Binomial. Qed.

(** a call asking for parameters Binomial::new refuses (or passing too few numbers) panics; a setter leaves the object untouched, update leaves an object that is still fresh at its own parameters *)
Theorem C18_invalid_rejected_Binomial :
  forall (T : Type) (O : Ops T), forall (th0 : m_param (Binomial_machine O)) (s0 : m_state (Binomial_machine O)) (h : list (m_op (Binomial_machine O))) (o : m_op (Binomial_machine O)),
    m_new (Binomial_machine O) th0 = Some s0 ->
    obind (m_target (Binomial_machine O) (run (Binomial_machine O) s0 h) o) (m_new (Binomial_machine O)) = None ->
    exists s'', m_step (Binomial_machine O) (run (Binomial_machine O) s0 h) o = Panicked s'' /\ m_new (Binomial_machine O) (m_params (Binomial_machine O) s'') = Some s'' /\
                (m_is_update (Binomial_machine O) o = false -> s'' = run (Binomial_machine O) s0 h).
Proof. exact @invalid_rejected_Binomial. Qed.

(** over R, Binomial::new accepts exactly the documented domain *)
Theorem C18_constructor_domain_Binomial :
  forall (th : m_param (Binomial_machine RO)), m_new (Binomial_machine RO) th <> None <-> Binomial_dom th.
Proof. exact @constructor_domain_Binomial. Qed.

(** over R, after any history the parameters held by the object lie in the documented domain *)
Theorem C18_domain_invariant_Binomial :
  forall (th0 : m_param (Binomial_machine RO)) (s0 : m_state (Binomial_machine RO)) (h : list (m_op (Binomial_machine RO))),
    m_new (Binomial_machine RO) th0 = Some s0 -> Binomial_dom (m_params (Binomial_machine RO) (run (Binomial_machine RO) s0 h)).
Proof. exact @domain_invariant_Binomial. Qed.

(** over R, a well-formed call at any point of any history returns iff the parameters it asks for lie in the documented domain *)
Theorem C18_accepted_iff_in_domain_Binomial :
  forall (th0 : m_param (Binomial_machine RO)) (s0 : m_state (Binomial_machine RO)) (h : list (m_op (Binomial_machine RO))) (o : m_op (Binomial_machine RO)) (th : m_param (Binomial_machine RO)),
    m_new (Binomial_machine RO) th0 = Some s0 -> m_wf (Binomial_machine RO) o = true -> m_target (Binomial_machine RO) (run (Binomial_machine RO) s0 h) o = Some th ->
    (is_ok (m_step (Binomial_machine RO) (run (Binomial_machine RO) s0 h) o) = true <-> Binomial_dom th).
Proof. exact @accepted_iff_in_domain_Binomial. Qed.

(** ** ChiSquared *)
(** after any history of ChiSquared setter/update calls (panics caught, object used further) the object -- cached sub-samplers included -- is exactly what new builds from the object's current parameters *)
Theorem C18_fresh_equiv_ChiSquared :
  forall (T : Type) (O : Ops T), forall (th0 : m_param (ChiSquared_machine O)) (s0 : m_state (ChiSquared_machine O)) (h : list (m_op (ChiSquared_machine O))),
    m_new (ChiSquared_machine O) th0 = Some s0 ->
    m_new (ChiSquared_machine O) (m_params (ChiSquared_machine O) (run (ChiSquared_machine O) s0 h)) = Some (run (ChiSquared_machine O) s0 h).
Proof. exact @fresh_equiv_ChiSquared. Qed.

(** hence any observation of the object (pdf/pmf, mean, var, the sample stream from any RNG state) equals that of a fresh twin *)
Theorem C18_observational_equiv_ChiSquared :
  forall (T : Type) (O : Ops T), forall (A : Type) (obs : m_state (ChiSquared_machine O) -> A) (th0 : m_param (ChiSquared_machine O)) (s0 : m_state (ChiSquared_machine O)) (h : list (m_op (ChiSquared_machine O))),
    m_new (ChiSquared_machine O) th0 = Some s0 ->
    exists twin, m_new (ChiSquared_machine O) (m_params (ChiSquared_machine O) (run (ChiSquared_machine O) s0 h)) = Some twin /\ obs (run (ChiSquared_machine O) s0 h) = obs twin.
Proof. exact @observational_equiv_ChiSquared. Qed.

(** at any point of any history a setter/update asking for parameters that ChiSquared::new accepts returns, and the object is then the fresh one at those parameters, whatever the previous parameters *)
Theorem C18_valid_update_succeeds_ChiSquared :
  forall (T : Type) (O : Ops T), forall (th0 : m_param (ChiSquared_machine O)) (s0 : m_state (ChiSquared_machine O)) (h : list (m_op (ChiSquared_machine O))) (o : m_op (ChiSquared_machine O)) (th : m_param (ChiSquared_machine O)) (s' : m_state (ChiSquared_machine O)),
    m_new (ChiSquared_machine O) th0 = Some s0 -> m_wf (ChiSquared_machine O) o = true ->
    m_target (ChiSquared_machine O) (run (ChiSquared_machine O) s0 h) o = Some th -> m_new (ChiSquared_machine O) th = Some s' ->
    m_step (ChiSquared_machine O) (run (ChiSquared_machine O) s0 h) o = Ok s' /\ m_params (ChiSquared_machine O) s' = th.
Proof. exact @valid_update_succeeds_ChiSquared. Qed.

(** a call asking for parameters ChiSquared::new refuses (or passing too few numbers) panics; a setter leaves the object untouched, update leaves an object that is still fresh at its own parameters *)
Theorem C18_invalid_rejected_ChiSquared :
  forall (T : Type) (O : Ops T), forall (th0 : m_param (ChiSquared_machine O)) (s0 : m_state (ChiSquared_machine O)) (h : list (m_op (ChiSquared_machine O))) (o : m_op (ChiSquared_machine O)),
    m_new (ChiSquared_machine O) th0 = Some s0 ->
    obind (m_target (ChiSquared_machine O) (run (ChiSquared_machine O) s0 h) o) (m_new (ChiSquared_machine O)) = None ->
    exists s'', m_step (ChiSquared_machine O) (run (ChiSquared_machine O) s0 h) o = Panicked s'' /\ m_new (ChiSquared_machine O) (m_params (ChiSquared_machine O) s'') = Some s'' /\
                (m_is_update (ChiSquared_machine O) o = false -> s'' = run (ChiSquared_machine O) s0 h).
Proof. exact @invalid_rejected_ChiSquared. Qed.

(** over R, ChiSquared::new accepts exactly the documented domain *)
Theorem C18_constructor_domain_ChiSquared :
  forall (th : m_param (ChiSquared_machine RO)), m_new (ChiSquared_machine RO) th <> None <-> ChiSquared_dom th.
Proof. exact @constructor_domain_ChiSquared. Qed.

(** over R, after any history the parameters held by the object lie in the documented domain *)
Theorem C18_domain_invariant_ChiSquared :
  forall (th0 : m_param (ChiSquared_machine RO)) (s0 : m_state (ChiSquared_machine RO)) (h : list (m_op (ChiSquared_machine RO))),
    m_new (ChiSquared_machine RO) th0 = Some s0 -> ChiSquared_dom (m_params (ChiSquared_machine RO) (run (ChiSquared_machine RO) s0 h)).
Proof. exact @domain_invariant_ChiSquared. Qed.

(** over R, a well-formed call at any point of any history returns iff the parameters it asks for lie in the documented domain *)
Theorem C18_accepted_iff_in_domain_ChiSquared :
  forall (th0 : m_param (ChiSquared_machine RO)) (s0 : m_state (ChiSquared_machine RO)) (h : list (m_op (ChiSquared_machine RO))) (o : m_op (ChiSquared_machine RO)) (th : m_param (ChiSquared_machine RO)),
    m_new (ChiSquared_machine RO) th0 = Some s0 -> m_wf (ChiSquared_machine RO) o = true -> m_target (ChiSquared_machine RO) (run (ChiSquared_machine RO) s0 h) o = Some th ->
    (is_ok (m_step (ChiSquared_machine RO) (run (ChiSquared_machine RO) s0 h) o) = true <-> ChiSquared_dom th).
Proof. exact @accepted_iff_in_domain_ChiSquared. Qed.

(** ** DiscreteUniform *)
(** after any history of DiscreteUniform setter/update calls (panics caught, object used further) the object -- cached sub-samplers included -- is exactly what new builds from the object's current parameters *)
Theorem C18_fresh_equiv_DiscreteUniform :
  forall (T : Type) (O : Ops T), forall (th0 : m_param (DiscreteUniform_machine O)) (s0 : m_state (DiscreteUniform_machine O)) (h : list (m_op (DiscreteUniform_machine O))),
    m_new (DiscreteUniform_machine O) th0 = Some s0 ->
    m_new (DiscreteUniform_machine O) (m_params (DiscreteUniform_machine O) (run (DiscreteUniform_machine O) s0 h)) = Some (run (DiscreteUniform_machine O) s0 h).
Proof. exact @fresh_equiv_DiscreteUniform. Qed.

(** hence any observation of the object (pdf/pmf, mean, var, the sample stream from any RNG state) equals that of a fresh twin *)
Theorem C18_observational_equiv_DiscreteUniform :
  forall (T : Type) (O : Ops T), forall (A : Type) (obs : m_state (DiscreteUniform_machine O) -> A) (th0 : m_param (DiscreteUniform_machine O)) (s0 : m_state (DiscreteUniform_machine O)) (h : list (m_op (DiscreteUniform_machine O))),
    m_new (DiscreteUniform_machine O) th0 = Some s0 ->
    exists twin, m_new (DiscreteUniform_machine O) (m_params (DiscreteUniform_machine O) (run (DiscreteUniform_machine O) s0 h)) = Some twin /\ obs (run (DiscreteUniform_machine O) s0 h) = obs twin.
Proof. exact @observational_equiv_DiscreteUniform. Qed.

(** at any point of any history a setter/update asking for parameters that DiscreteUniform::new accepts returns, and the object is then the fresh one at those parameters, whatever the previous parameters *)
Theorem C18_valid_update_succeeds_DiscreteUniform :
  forall (T : Type) (O : Ops T), forall (th0 : m_param (DiscreteUniform_machine O)) (s0 : m_state (DiscreteUniform_machine O)) (h : list (m_op (DiscreteUniform_machine O))) (o : m_op (DiscreteUniform_machine O)) (th : m_param (DiscreteUniform_machine O)) (s' : m_state (DiscreteUniform_machine O)),
    m_new (DiscreteUniform_machine O) th0 = Some s0 -> m_wf (DiscreteUniform_machine O) o = true ->
    m_target (DiscreteUniform_machine O) (run (DiscreteUniform_machine O) s0 h) o = Some th -> m_new (DiscreteUniform_machine O) th = Some s' ->
    m_step (DiscreteUniform_machine O) (run (DiscreteUniform_machine O) s0 h) o = Ok s' /\ m_params (DiscreteUniform_machine O) s' = th.
Proof. exact @valid_update_succeeds_DiscreteUniform. Qed.

(** a call asking for parameters DiscreteUniform::new refuses (or passing too few numbers) panics; a setter leaves the object untouched, update leaves an object that is still fresh at its own parameters *)
Theorem C18_invalid_rejected_DiscreteUniform :
  forall (T : Type) (O : Ops T), forall (th0 : m_param (DiscreteUniform_machine O)) (s0 : m_state (DiscreteUniform_machine O)) (h : list (m_op (DiscreteUniform_machine O))) (o : m_op (DiscreteUniform_machine O)),
    m_new (DiscreteUniform_machine O) th0 = Some s0 ->
    obind (m_target (DiscreteUniform_machine O) (run (DiscreteUniform_machine O) s0 h) o) (m_new (DiscreteUniform_machine O)) = None ->
    exists s'', m_step (DiscreteUniform_machine O) (run (DiscreteUniform_machine O) s0 h) o = Panicked s'' /\ m_new (DiscreteUniform_machine O) (m_params (DiscreteUniform_machine O) s'') = Some s'' /\
                (m_is_update (DiscreteUniform_machine O) o = false -> s'' = run (DiscreteUniform_machine O) s0 h).
Proof. exact @invalid_rejected_DiscreteUniform. Qed.

(** over R, DiscreteUniform::new accepts exactly the documented domain *)
Theorem C18_constructor_domain_DiscreteUniform :
  forall (th : m_param (DiscreteUniform_machine RO)), m_new (DiscreteUniform_machine RO) th <> None <-> DiscreteUniform_dom th.
Proof. exact @constructor_domain_DiscreteUniform. Qed.

(** over R, after any history the parameters held by the object lie in the documented domain *)
Theorem C18_domain_invariant_DiscreteUniform :
  forall (th0 : m_param (DiscreteUniform_machine RO)) (s0 : m_state (DiscreteUniform_machine RO)) (h : list (m_op (DiscreteUniform_machine RO))),
    m_new (DiscreteUniform_machine RO) th0 = Some s0 -> DiscreteUniform_dom (m_params (DiscreteUniform_machine RO) (run (DiscreteUniform_machine RO) s0 h)).
Proof. exact @domain_invariant_DiscreteUniform. Qed.

(** over R, a well-formed call at any point of any history returns iff the parameters it asks for lie in the documented domain *)
Theorem C18_accepted_iff_in_domain_DiscreteUniform :
  forall (th0 : m_param (DiscreteUniform_machine RO)) (s0 : m_state (DiscreteUniform_machine RO)) (h : list (m_op (DiscreteUniform_machine RO))) (o : m_op (DiscreteUniform_machine RO)) (th : m_param (DiscreteUniform_machine RO)),
    m_new (DiscreteUniform_machine RO) th0 = Some s0 -> m_wf (DiscreteUniform_machine RO) o = true -> m_target (DiscreteUniform_machine RO) (run (DiscreteUniform_machine RO) s0 h) o = Some th ->
    (is_ok (m_step (DiscreteUniform_machine RO) (run (DiscreteUniform_machine RO) s0 h) o) = true <-> DiscreteUniform_dom th).
Proof. exact @accepted_iff_in_domain_DiscreteUniform. Qed.

(** ** Exponential *)
(** after any history of Exponential setter/update calls (panics caught, object used further) the object -- cached sub-samplers included -- is exactly what new builds from the object's current parameters *)
Theorem C18_fresh_equiv_Exponential :
  forall (T : Type) (O : Ops T), forall (th0 : m_param (Exponential_machine O)) (s0 : m_state (Exponential_machine O)) (h : list (m_op (Exponential_machine O))),
    m_new (Exponential_machine O) th0 = Some s0 ->
    m_new (Exponential_machine O) (m_params (Exponential_machine O) (run (Exponential_machine O) s0 h)) = Some (run (Exponential_machine O) s0 h).
Proof. exact @fresh_equiv_Exponential. Qed.

(** hence any observation of the object (pdf/pmf, mean, var, the sample stream from any RNG state) equals that of a fresh twin *)
Theorem C18_observational_equiv_Exponential :
  forall (T : Type) (O : Ops T), forall (A : Type) (obs : m_state (Exponential_machine O) -> A) (th0 : m_param (Exponential_machine O)) (s0 : m_state (Exponential_machine O)) (h : list (m_op (Exponential_machine O))),
    m_new (Exponential_machine O) th0 = Some s0 ->
    exists twin, m_new (Exponential_machine O) (m_params (Exponential_machine O) (run (Exponential_machine O) s0 h)) = Some twin /\ obs (run (Exponential_machine O) s0 h) = obs twin.
Proof. exact @observational_equiv_Exponential. Qed.

(** at any point of any history a setter/update asking for parameters that Exponential::new accepts returns, and the object is then the fresh one at those parameters, whatever the previous parameters *)
Theorem C18_valid_update_succeeds_Exponential :
  forall (T : Type) (O : Ops T), forall (th0 : m_param (Exponential_machine O)) (s0 : m_state (Exponential_machine O)) (h : list (m_op (Exponential_machine O))) (o : m_op (Exponential_machine O)) (th : m_param (Exponential_machine O)) (s' : m_state (Exponential_machine O)),
    m_new (Exponential_machine O) th0 = Some s0 -> m_wf (Exponential_machine O) o = true ->
    m_target (Exponential_machine O) (run (Exponential_machine O) s0 h) o = Some th -> m_new (Exponential_machine O) th = Some s' ->
    m_step (Exponential_machine O) (run (Exponential_machine O) s0 h) o = Ok s' /\ m_params (Exponential_machine O) s' = th.
Proof. exact @valid_update_succeeds_Exponential. Qed.

(** a call asking for parameters Exponential::new refuses (or passing too few numbers) panics; a setter leaves the object untouched, update leaves an object that is still fresh at its own parameters *)
Theorem C18_invalid_rejected_Exponential :
  forall (T : Type) (O : Ops T), forall (th0 : m_param (Exponential_machine O)) (s0 : m_state (Exponential_machine O)) (h : list (m_op (Exponential_machine O))) (o : m_op (Exponential_machine O)),
    m_new (Exponential_machine O) th0 = Some s0 ->
    obind (m_target (Exponential_machine O) (run (Exponential_machine O) s0 h) o) (m_new (Exponential_machine O)) = None ->
    exists s'', m_step (Exponential_machine O) (run (Exponential_machine O) s0 h) o = Panicked s'' /\ m_new (Exponential_machine O) (m_params (Exponential_machine O) s'') = Some s'' /\
                (m_is_update (Exponential_machine O) o = false -> s'' = run (Exponential_machine O) s0 h).
Proof. exact @invalid_rejected_Exponential. Qed.

(** over R, Exponential::new accepts exactly the documented domain *)
Theorem C18_constructor_domain_Exponential :
  forall (th : m_param (Exponential_machine RO)), m_new (Exponential_machine RO) th <> None <-> Exponential_dom th.
Proof. exact @constructor_domain_Exponential. Qed.

(** over R, after any history the parameters held by the object lie in the documented domain *)
Theorem C18_domain_invariant_Exponential :
  forall (th0 : m_param (Exponential_machine RO)) (s0 : m_state (Exponential_machine RO)) (h : list (m_op (Exponential_machine RO))),
    m_new (Exponential_machine RO) th0 = Some s0 -> Exponential_dom (m_params (Exponential_machine RO) (run (Exponential_machine RO) s0 h)).
Proof. exact @domain_invariant_Exponential. Qed.

(** over R, a well-formed call at any point of any history returns iff the parameters it asks for lie in the documented domain *)
Theorem C18_accepted_iff_in_domain_Exponential :
  forall (th0 : m_param (Exponential_machine RO)) (s0 : m_state (Exponential_machine RO)) (h : list (m_op (Exponential_machine RO))) (o : m_op (Exponential_machine RO)) (th : m_param (Exponential_machine RO)),
    m_new (Exponential_machine RO) th0 = Some s0 -> m_wf (Exponential_machine RO) o = true -> m_target (Exponential_machine RO) (run (Exponential_machine RO) s0 h) o = Some th ->
    (is_ok (m_step (Exponential_machine RO) (run (Exponential_machine RO) s0 h) o) = true <-> Exponential_dom th).
Proof. exact @accepted_iff_in_domain_Exponential. Qed.

(** ** Gamma *)
(** after any history of Gamma setter/update calls (panics caught, object used further) the object -- cached sub-samplers included -- is exactly what new builds from the object's current parameters *)
Theorem C18_fresh_equiv_Gamma :
  forall (T : Type) (O : Ops T), forall (th0 : m_param (Gamma_machine O)) (s0 : m_state (Gamma_machine O)) (h : list (m_op (Gamma_machine O))),
    m_new (Gamma_machine O) th0 = Some s0 ->
    m_new (Gamma_machine O) (m_params (Gamma_machine O) (run (Gamma_machine O) s0 h)) = Some (run (Gamma_machine O) s0 h).
Proof. exact @fresh_equiv_Gamma. Qed.

(** hence any observation of the object (pdf/pmf, mean, var, the sample stream from any RNG state) equals that of a fresh twin *)
Theorem C18_observational_equiv_Gamma :
  forall (T : Type) (O : Ops T), forall (A : Type) (obs : m_state (Gamma_machine O) -> A) (th0 : m_param (Gamma_machine O)) (s0 : m_state (Gamma_machine O)) (h : list (m_op (Gamma_machine O))),
    m_new (Gamma_machine O) th0 = Some s0 ->
    exists twin, m_new (Gamma_machine O) (m_params (Gamma_machine O) (run (Gamma_machine O) s0 h)) = Some twin /\ obs (run (Gamma_machine O) s0 h) = obs twin.
Proof. exact @observational_equiv_Gamma. Qed.

(** at any point of any history a setter/update asking for parameters that Gamma::new accepts returns, and the object is then the fresh one at those parameters, whatever the previous parameters *)
Theorem C18_valid_update_succeeds_Gamma :
  forall (T : Type) (O : Ops T), forall (th0 : m_param (Gamma_machine O)) (s0 : m_state (Gamma_machine O)) (h : list (m_op (Gamma_machine O))) (o : m_op (Gamma_machine O)) (th : m_param (Gamma_machine O)) (s' : m_state (Gamma_machine O)),
    m_new (Gamma_machine O) th0 = Some s0 -> m_wf (Gamma_machine O) o = true ->
    m_target (Gamma_machine O) (run (Gamma_machine O) s0 h) o = Some th -> m_new (Gamma_machine O) th = Some s' ->
    m_step (Gamma_machine O) (run (Gamma_machine O) s0 h) o = Ok s' /\ m_params (Gamma_machine O) s' = th.
Proof. exact @valid_update_succeeds_Gamma. Qed.

(** a call asking for parameters Gamma::new refuses (or passing too few numbers) panics; a setter leaves the object untouched, update leaves an object that is still fresh at its own parameters *)
Theorem C18_invalid_rejected_Gamma :
  forall (T : Type) (O : Ops T), forall (th0 : m_param (Gamma_machine O)) (s0 : m_state (Gamma_machine O)) (h : list (m_op (Gamma_machine O))) (o : m_op (Gamma_machine O)),
    m_new (Gamma_machine O) th0 = Some s0 ->
    obind (m_target (Gamma_machine O) (run (Gamma_machine O) s0 h) o) (m_new (Gamma_machine O)) = None ->
    exists s'', m_step (Gamma_machine O) (run (Gamma_machine O) s0 h) o = Panicked s'' /\ m_new (Gamma_machine O) (m_params (Gamma_machine O) s'') = Some s'' /\
                (m_is_update (Gamma_machine O) o = false -> s'' = run (Gamma_machine O) s0 h).
Proof. exact @invalid_rejected_Gamma. Qed.

(** over R, Gamma::new accepts exactly the documented domain *)
Theorem C18_constructor_domain_Gamma :
  forall (th : m_param (Gamma_machine RO)), m_new (Gamma_machine RO) th <> None <-> Gamma_dom th.
Proof. exact @constructor_domain_Gamma. Qed.

(** over R, after any history the parameters held by the object lie in the documented domain *)
Theorem C18_domain_invariant_Gamma :
  forall (th0 : m_param (Gamma_machine RO)) (s0 : m_state (Gamma_machine RO)) (h : list (m_op (Gamma_machine RO))),
    m_new (Gamma_machine RO) th0 = Some s0 -> Gamma_dom (m_params (Gamma_machine RO) (run (Gamma_machine RO) s0 h)).
Proof. exact @domain_invariant_Gamma. Qed.

(** over R, a well-formed call at any point of any history returns iff the parameters it asks for lie in the documented domain *)
Theorem C18_accepted_iff_in_domain_Gamma :
  forall (th0 : m_param (Gamma_machine RO)) (s0 : m_state (Gamma_machine RO)) (h : list (m_op (Gamma_machine RO))) (o : m_op (Gamma_machine RO)) (th : m_param (Gamma_machine RO)),
    m_new (Gamma_machine RO) th0 = Some s0 -> m_wf (Gamma_machine RO) o = true -> m_target (Gamma_machine RO) (run (Gamma_machine RO) s0 h) o = Some th ->
    (is_ok (m_step (Gamma_machine RO) (run (Gamma_machine RO) s0 h) o) = true <-> Gamma_dom th).
Proof. exact @accepted_iff_in_domain_Gamma. Qed.

(** ** Gumbel *)
(** after any history of Gumbel setter/update calls (panics caught, object used further) the object -- cached sub-samplers included -- is exactly what new builds from the object's current parameters *)
Theorem C18_fresh_equiv_Gumbel :
  forall (T : Type) (O : Ops T), forall (th0 : m_param (Gumbel_machine O)) (s0 : m_state (Gumbel_machine O)) (h : list (m_op (Gumbel_machine O))),
    m_new (Gumbel_machine O) th0 = Some s0 ->
    m_new (Gumbel_machine O) (m_params (Gumbel_machine O) (run (Gumbel_machine O) s0 h)) = Some (run (Gumbel_machine O) s0 h).
Proof. exact @fresh_equiv_Gumbel. Qed.

(** hence any observation of the object (pdf/pmf, mean, var, the sample stream from any RNG state) equals that of a fresh twin *)
Theorem C18_observational_equiv_Gumbel :
  forall (T : Type) (O : Ops T), forall (A : Type) (obs : m_state (Gumbel_machine O) -> A) (th0 : m_param (Gumbel_machine O)) (s0 : m_state (Gumbel_machine O)) (h : list (m_op (Gumbel_machine O))),
    m_new (Gumbel_machine O) th0 = Some s0 ->
    exists twin, m_new (Gumbel_machine O) (m_params (Gumbel_machine O) (run (Gumbel_machine O) s0 h)) = Some twin /\ obs (run (Gumbel_machine O) s0 h) = obs twin.
Proof. exact @observational_equiv_Gumbel. Qed.

(** at any point of any history a setter/update asking for parameters that Gumbel::new accepts returns, and the object is then the fresh one at those parameters, whatever the previous parameters *)
Theorem C18_valid_update_succeeds_Gumbel :
  forall (T : Type) (O : Ops T), forall (th0 : m_param (Gumbel_machine O)) (s0 : m_state (Gumbel_machine O)) (h : list (m_op (Gumbel_machine O))) (o : m_op (Gumbel_machine O)) (th : m_param (Gumbel_machine O)) (s' : m_state (Gumbel_machine O)),
    m_new (Gumbel_machine O) th0 = Some s0 -> m_wf (Gumbel_machine O) o = true ->
    m_target (Gumbel_machine O) (run (Gumbel_machine O) s0 h) o = Some th -> m_new (Gumbel_machine O) th = Some s' ->
    m_step (Gumbel_machine O) (run (Gumbel_machine O) s0 h) o = Ok s' /\ m_params (Gumbel_machine O) s' = th.
Proof. exact @valid_update_succeeds_Gumbel. Qed.

(** a call asking for parameters Gumbel::new refuses (or passing too few numbers) panics; a setter leaves the object untouched, update leaves an object that is still fresh at its own parameters *)
Theorem C18_invalid_rejected_Gumbel :
  forall (T : Type) (O : Ops T), forall (th0 : m_param (Gumbel_machine O)) (s0 : m_state (Gumbel_machine O)) (h : list (m_op (Gumbel_machine O))) (o : m_op (Gumbel_machine O)),
    m_new (Gumbel_machine O) th0 = Some s0 ->
    obind (m_target (Gumbel_machine O) (run (Gumbel_machine O) s0 h) o) (m_new (Gumbel_machine O)) = None ->
    exists s'', m_step (Gumbel_machine O) (run (Gumbel_machine O) s0 h) o = Panicked s'' /\ m_new (Gumbel_machine O) (m_params (Gumbel_machine O) s'') = Some s'' /\
                (m_is_update (Gumbel_machine O) o = false -> s'' = run (Gumbel_machine O) s0 h).
Proof. exact @invalid_rejected_Gumbel. Qed.

(** over R, Gumbel::new accepts exactly the documented domain *)
Theorem C18_constructor_domain_Gumbel :
  forall (th : m_param (Gumbel_machine RO)), m_new (Gumbel_machine RO) th <> None <-> Gumbel_dom th.
Proof. exact @constructor_domain_Gumbel. Qed.

(** over R, after any history the parameters held by the object lie in the documented domain *)
Theorem C18_domain_invariant_Gumbel :
  forall (th0 : m_param (Gumbel_machine RO)) (s0 : m_state (Gumbel_machine RO)) (h : list (m_op (Gumbel_machine RO))),
    m_new (Gumbel_machine RO) th0 = Some s0 -> Gumbel_dom (m_params (Gumbel_machine RO) (run (Gumbel_machine RO) s0 h)).
Proof. exact @domain_invariant_Gumbel. Qed.

(** over R, a well-formed call at any point of any history returns iff the parameters it asks for lie in the documented domain *)
Theorem C18_accepted_iff_in_domain_Gumbel :
  forall (th0 : m_param (Gumbel_machine RO)) (s0 : m_state (Gumbel_machine RO)) (h : list (m_op (Gumbel_machine RO))) (o : m_op (Gumbel_machine RO)) (th : m_param (Gumbel_machine RO)),
    m_new (Gumbel_machine RO) th0 = Some s0 -> m_wf (Gumbel_machine RO) o = true -> m_target (Gumbel_machine RO) (run (Gumbel_machine RO) s0 h) o = Some th ->
    (is_ok (m_step (Gumbel_machine RO) (run (Gumbel_machine RO) s0 h) o) = true <-> Gumbel_dom th).
Proof. exact @accepted_iff_in_domain_Gumbel. Qed.

(** ** Normal *)
(** after any history of Normal setter/update calls (panics caught, object used further) the object -- cached sub-samplers included -- is exactly what new builds from the object's current parameters *)
Theorem C18_fresh_equiv_Normal :
  forall (T : Type) (O : Ops T), forall (th0 : m_param (Normal_machine O)) (s0 : m_state (Normal_machine O)) (h : list (m_op (Normal_machine O))),
    m_new (Normal_machine O) th0 = Some s0 ->
    m_new (Normal_machine O) (m_params (Normal_machine O) (run (Normal_machine O) s0 h)) = Some (run (Normal_machine O) s0 h).
Proof. exact @fresh_equiv_Normal. Qed.

(** hence any observation of the object (pdf/pmf, mean, var, the sample stream from any RNG state) equals that of a fresh twin *)
Theorem C18_observational_equiv_Normal :
  forall (T : Type) (O : Ops T), forall (A : Type) (obs : m_state (Normal_machine O) -> A) (th0 : m_param (Normal_machine O)) (s0 : m_state (Normal_machine O)) (h : list (m_op (Normal_machine O))),
    m_new (Normal_machine O) th0 = Some s0 ->
    exists twin, m_new (Normal_machine O) (m_params (Normal_machine O) (run (Normal_machine O) s0 h)) = Some twin /\ obs (run (Normal_machine O) s0 h) = obs twin.
Proof. exact @observational_equiv_Normal. Qed.

(** at any point of any history a setter/update asking for parameters that Normal::new accepts returns, and the object is then the fresh one at those parameters, whatever the previous parameters *)
Theorem C18_valid_update_succeeds_Normal :
  forall (T : Type) (O : Ops T), forall (th0 : m_param (Normal_machine O)) (s0 : m_state (Normal_machine O)) (h : list (m_op (Normal_machine O))) (o : m_op (Normal_machine O)) (th : m_param (Normal_machine O)) (s' : m_state (Normal_machine O)),
    m_new (Normal_machine O) th0 = Some s0 -> m_wf (Normal_machine O) o = true ->
    m_target (Normal_machine O) (run (Normal_machine O) s0 h) o = Some th -> m_new (Normal_machine O) th = Some s' ->
    m_step (Normal_machine O) (run (Normal_machine O) s0 h) o = Ok s' /\ m_params (Normal_machine O) s' = th.
Proof. exact @valid_update_succeeds_Normal. Qed.

(** a call asking for parameters Normal::new refuses (or passing too few numbers) panics; a setter leaves the object untouched, update leaves an object that is still fresh at its own parameters *)
Theorem C18_invalid_rejected_Normal :
  forall (T : Type) (O : Ops T), forall (th0 : m_param (Normal_machine O)) (s0 : m_state (Normal_machine O)) (h : list (m_op (Normal_machine O))) (o : m_op (Normal_machine O)),
    m_new (Normal_machine O) th0 = Some s0 ->
    obind (m_target (Normal_machine O) (run (Normal_machine O) s0 h) o) (m_new (Normal_machine O)) = None ->
    exists s'', m_step (Normal_machine O) (run (Normal_machine O) s0 h) o = Panicked s'' /\ m_new (Normal_machine O) (m_params (Normal_machine O) s'') = Some s'' /\
                (m_is_update (Normal_machine O) o = false -> s'' = run (Normal_machine O) s0 h).
Proof. exact @invalid_rejected_Normal. Qed.

(** over R, Normal::new accepts exactly the documented domain *)
Theorem C18_constructor_domain_Normal :
  forall (th : m_param (Normal_machine RO)), m_new (Normal_machine RO) th <> None <-> Normal_dom th.
Proof. exact @constructor_domain_Normal. Qed.

(** over R, after any history the parameters held by the object lie in the documented domain *)
Theorem C18_domain_invariant_Normal :
  forall (th0 : m_param (Normal_machine RO)) (s0 : m_state (Normal_machine RO)) (h : list (m_op (Normal_machine RO))),
    m_new (Normal_machine RO) th0 = Some s0 -> Normal_dom (m_params (Normal_machine RO) (run (Normal_machine RO) s0 h)).
Proof. exact @domain_invariant_Normal. Qed.

(** over R, a well-formed call at any point of any history returns iff the parameters it asks for lie in the documented domain *)
Theorem C18_accepted_iff_in_domain_Normal :
  forall (th0 : m_param (Normal_machine RO)) (s0 : m_state (Normal_machine RO)) (h : list (m_op (Normal_machine RO))) (o : m_op (Normal_machine RO)) (th : m_param (Normal_machine RO)),
    m_new (Normal_machine RO) th0 = Some s0 -> m_wf (Normal_machine RO) o = true -> m_target (Normal_machine RO) (run (Normal_machine RO) s0 h) o = Some th ->
    (is_ok (m_step (Normal_machine RO) (run (Normal_machine RO) s0 h) o) = true <-> Normal_dom th).
Proof. exact @accepted_iff_in_domain_Normal. Qed.

(** ** Pareto *)
(** after any history of Pareto setter/update calls (panics caught, object used further) the object -- cached sub-samplers included -- is exactly what new builds from the object's current parameters *)
Theorem C18_fresh_equiv_Pareto :
  forall (T : Type) (O : Ops T), forall (th0 : m_param (Pareto_machine O)) (s0 : m_state (Pareto_machine O)) (h : list (m_op (Pareto_machine O))),
    m_new (Pareto_machine O) th0 = Some s0 ->
    m_new (Pareto_machine O) (m_params (Pareto_machine O) (run (Pareto_machine O) s0 h)) = Some (run (Pareto_machine O) s0 h).
Proof. exact @fresh_equiv_Pareto. Qed.

(** hence any observation of the object (pdf/pmf, mean, var, the sample stream from any RNG state) equals that of a fresh twin *)
Theorem C18_observational_equiv_Pareto :
  forall (T : Type) (O : Ops T), forall (A : Type) (obs : m_state (Pareto_machine O) -> A) (th0 : m_param (Pareto_machine O)) (s0 : m_state (Pareto_machine O)) (h : list (m_op (Pareto_machine O))),
    m_new (Pareto_machine O) th0 = Some s0 ->
    exists twin, m_new (Pareto_machine O) (m_params (Pareto_machine O) (run (Pareto_machine O) s0 h)) = Some twin /\ obs (run (Pareto_machine O) s0 h) = obs twin.
Proof. exact @observational_equiv_Pareto. Qed.

(** at any point of any history a setter/update asking for parameters that Pareto::new accepts returns, and the object is then the fresh one at those parameters, whatever the previous parameters *)
Theorem C18_valid_update_succeeds_Pareto :
  forall (T : Type) (O : Ops T), forall (th0 : m_param (Pareto_machine O)) (s0 : m_state (Pareto_machine O)) (h : list (m_op (Pareto_machine O))) (o : m_op (Pareto_machine O)) (th : m_param (Pareto_machine O)) (s' : m_state (Pareto_machine O)),
    m_new (Pareto_machine O) th0 = Some s0 -> m_wf (Pareto_machine O) o = true ->
    m_target (Pareto_machine O) (run (Pareto_machine O) s0 h) o = Some th -> m_new (Pareto_machine O) th = Some s' ->
    m_step (Pareto_machine O) (run (Pareto_machine O) s0 h) o = Ok s' /\ m_params (Pareto_machine O) s' = th.
Proof. exact @valid_update_succeeds_Pareto. Qed.

(** a call asking for parameters Pareto::new refuses (or passing too few numbers) panics; a setter leaves the object untouched, update leaves an object that is still fresh at its own parameters *)
Theorem C18_invalid_rejected_Pareto :
  forall (T : Type) (O : Ops T), forall (th0 : m_param (Pareto_machine O)) (s0 : m_state (Pareto_machine O)) (h : list (m_op (Pareto_machine O))) (o : m_op (Pareto_machine O)),
    m_new (Pareto_machine O) th0 = Some s0 ->
    obind (m_target (Pareto_machine O) (run (Pareto_machine O) s0 h) o) (m_new (Pareto_machine O)) = None ->
    exists s'', m_step (Pareto_machine O) (run (Pareto_machine O) s0 h) o = Panicked s'' /\ m_new (Pareto_machine O) (m_params (Pareto_machine O) s'') = Some s'' /\
                (m_is_update (Pareto_machine O) o = false -> s'' = run (Pareto_machine O) s0 h).
Proof. exact @invalid_rejected_Pareto. Qed.

(** over R, Pareto::new accepts exactly the documented domain *)
Theorem C18_constructor_domain_Pareto :
  forall (th : m_param (Pareto_machine RO)), m_new (Pareto_machine RO) th <> None <-> Pareto_dom th.
Proof. exact @constructor_domain_Pareto. Qed.

(** over R, after any history the parameters held by the object lie in the documented domain *)
Theorem C18_domain_invariant_Pareto :
  forall (th0 : m_param (Pareto_machine RO)) (s0 : m_state (Pareto_machine RO)) (h : list (m_op (Pareto_machine RO))),
    m_new (Pareto_machine RO) th0 = Some s0 -> Pareto_dom (m_params (Pareto_machine RO) (run (Pareto_machine RO) s0 h)).
Proof. exact @domain_invariant_Pareto. Qed.

(** over R, a well-formed call at any point of any history returns iff the parameters it asks for lie in the documented domain *)
Theorem C18_accepted_iff_in_domain_Pareto :
  forall (th0 : m_param (Pareto_machine RO)) (s0 : m_state (Pareto_machine RO)) (h : list (m_op (Pareto_machine RO))) (o : m_op (Pareto_machine RO)) (th : m_param (Pareto_machine RO)),
    m_new (Pareto_machine RO) th0 = Some s0 -> m_wf (Pareto_machine RO) o = true -> m_target (Pareto_machine RO) (run (Pareto_machine RO) s0 h) o = Some th ->
    (is_ok (m_step (Pareto_machine RO) (run (Pareto_machine RO) s0 h) o) = true <-> Pareto_dom th).
Proof. exact @accepted_iff_in_domain_Pareto. Qed.

(** ** Poisson *)
(** after any history of Poisson setter/update calls (panics caught, object used further) the object -- cached sub-samplers included -- is exactly what new builds from the object's current parameters *)
Theorem C18_fresh_equiv_Poisson :
  forall (T : Type) (O : Ops T), forall (th0 : m_param (Poisson_machine O)) (s0 : m_state (Poisson_machine O)) (h : list (m_op (Poisson_machine O))),
    m_new (Poisson_machine O) th0 = Some s0 ->
    m_new (Poisson_machine O) (m_params (Poisson_machine O) (run (Poisson_machine O) s0 h)) = Some (run (Poisson_machine O) s0 h).
Proof. exact @fresh_equiv_Poisson. Qed.

(** hence any observation of the object (pdf/pmf, mean, var, the sample stream from any RNG state) equals that of a fresh twin *)
Theorem C18_observational_equiv_Poisson :
  forall (T : Type) (O : Ops T), forall (A : Type) (obs : m_state (Poisson_machine O) -> A) (th0 : m_param (Poisson_machine O)) (s0 : m_state (Poisson_machine O)) (h : list (m_op (Poisson_machine O))),
    m_new (Poisson_machine O) th0 = Some s0 ->
    exists twin, m_new (Poisson_machine O) (m_params (Poisson_machine O) (run (Poisson_machine O) s0 h)) = Some twin /\ obs (run (Poisson_machine O) s0 h) = obs twin.
Proof. exact @observational_equiv_Poisson. Qed.

(** at any point of any history a setter/update asking for parameters that Poisson::new accepts returns, and the object is then the fresh one at those parameters, whatever the previous parameters *)
Theorem C18_valid_update_succeeds_Poisson :
  forall (T : Type) (O : Ops T), forall (th0 : m_param (Poisson_machine O)) (s0 : m_state (Poisson_machine O)) (h : list (m_op (Poisson_machine O))) (o : m_op (Poisson_machine O)) (th : m_param (Poisson_machine O)) (s' : m_state (Poisson_machine O)),
    m_new (Poisson_machine O) th0 = Some s0 -> m_wf (Poisson_machine O) o = true ->
    m_target (Poisson_machine O) (run (Poisson_machine O) s0 h) o = Some th -> m_new (Poisson_machine O) th = Some s' ->
    m_step (Poisson_machine O) (run (Poisson_machine O) s0 h) o = Ok s' /\ m_params (Poisson_machine O) s' = th.
Proof. exact @valid_update_succeeds_Poisson. Qed.

(** a call asking for parameters Poisson::new refuses (or passing too few numbers) panics; a setter leaves the object untouched, update leaves an object that is still fresh at its own parameters *)
Theorem C18_invalid_rejected_Poisson :
  forall (T : Type) (O : Ops T), forall (th0 : m_param (Poisson_machine O)) (s0 : m_state (Poisson_machine O)) (h : list (m_op (Poisson_machine O))) (o : m_op (Poisson_machine O)),
    m_new (Poisson_machine O) th0 = Some s0 ->
    obind (m_target (Poisson_machine O) (run (Poisson_machine O) s0 h) o) (m_new (Poisson_machine O)) = None ->
    exists s'', m_step (Poisson_machine O) (run (Poisson_machine O) s0 h) o = Panicked s'' /\ m_new (Poisson_machine O) (m_params (Poisson_machine O) s'') = Some s'' /\
                (m_is_update (Poisson_machine O) o = false -> s'' = run (Poisson_machine O) s0 h).
Proof. exact @invalid_rejected_Poisson. Qed.

(** over R, Poisson::new accepts exactly the documented domain *)
Theorem C18_constructor_domain_Poisson :
  forall (th : m_param (Poisson_machine RO)), m_new (Poisson_machine RO) th <> None <-> Poisson_dom th.
Proof. exact @constructor_domain_Poisson. Qed.

(** over R, after any history the parameters held by the object lie in the documented domain *)
Theorem C18_domain_invariant_Poisson :
  forall (th0 : m_param (Poisson_machine RO)) (s0 : m_state (Poisson_machine RO)) (h : list (m_op (Poisson_machine RO))),
    m_new (Poisson_machine RO) th0 = Some s0 -> Poisson_dom (m_params (Poisson_machine RO) (run (Poisson_machine RO) s0 h)).
Proof. exact @domain_invariant_Poisson. Qed.

(** over R, a well-formed call at any point of any history returns iff the parameters it asks for lie in the documented domain *)
Theorem C18_accepted_iff_in_domain_Poisson :
  forall (th0 : m_param (Poisson_machine RO)) (s0 : m_state (Poisson_machine RO)) (h : list (m_op (Poisson_machine RO))) (o : m_op (Poisson_machine RO)) (th : m_param (Poisson_machine RO)),
    m_new (Poisson_machine RO) th0 = Some s0 -> m_wf (Poisson_machine RO) o = true -> m_target (Poisson_machine RO) (run (Poisson_machine RO) s0 h) o = Some th ->
    (is_ok (m_step (Poisson_machine RO) (run (Poisson_machine RO) s0 h) o) = true <-> Poisson_dom th).
Proof. exact @accepted_iff_in_domain_Poisson. Qed.

(** ** T *)
(** after any history of T setter/update calls (panics caught, object used further) the object -- cached sub-samplers included -- is exactly what new builds from the object's current parameters *)
Theorem C18_fresh_equiv_T :
  forall (T : Type) (O : Ops T), forall (th0 : m_param (T_machine O)) (s0 : m_state (T_machine O)) (h : list (m_op (T_machine O))),
    m_new (T_machine O) th0 = Some s0 ->
    m_new (T_machine O) (m_params (T_machine O) (run (T_machine O) s0 h)) = Some (run (T_machine O) s0 h).
Proof. exact @fresh_equiv_T. Qed.

(** hence any observation of the object (pdf/pmf, mean, var, the sample stream from any RNG state) equals that of a fresh twin *)
Theorem C18_observational_equiv_T :
  forall (T : Type) (O : Ops T), forall (A : Type) (obs : m_state (T_machine O) -> A) (th0 : m_param (T_machine O)) (s0 : m_state (T_machine O)) (h : list (m_op (T_machine O))),
    m_new (T_machine O) th0 = Some s0 ->
    exists twin, m_new (T_machine O) (m_params (T_machine O) (run (T_machine O) s0 h)) = Some twin /\ obs (run (T_machine O) s0 h) = obs twin.
Proof. exact @observational_equiv_T. Qed.

(** at any point of any history a setter/update asking for parameters that T::new accepts returns, and the object is then the fresh one at those parameters, whatever the previous parameters *)
Theorem C18_valid_update_succeeds_T :
  forall (T : Type) (O : Ops T), forall (th0 : m_param (T_machine O)) (s0 : m_state (T_machine O)) (h : list (m_op (T_machine O))) (o : m_op (T_machine O)) (th : m_param (T_machine O)) (s' : m_state (T_machine O)),
    m_new (T_machine O) th0 = Some s0 -> m_wf (T_machine O) o = true ->
    m_target (T_machine O) (run (T_machine O) s0 h) o = Some th -> m_new (T_machine O) th = Some s' ->
    m_step (T_machine O) (run (T_machine O) s0 h) o = Ok s' /\ m_params (T_machine O) s' = th.
Proof. exact @valid_update_succeeds_T. Qed.

(** a call asking for parameters T::new refuses (or passing too few numbers) panics; a setter leaves the object untouched, update leaves an object that is still fresh at its own parameters *)
Theorem C18_invalid_rejected_T :
  forall (T : Type) (O : Ops T), forall (th0 : m_param (T_machine O)) (s0 : m_state (T_machine O)) (h : list (m_op (T_machine O))) (o : m_op (T_machine O)),
    m_new (T_machine O) th0 = Some s0 ->
    obind (m_target (T_machine O) (run (T_machine O) s0 h) o) (m_new (T_machine O)) = None ->
    exists s'', m_step (T_machine O) (run (T_machine O) s0 h) o = Panicked s'' /\ m_new (T_machine O) (m_params (T_machine O) s'') = Some s'' /\
                (m_is_update (T_machine O) o = false -> s'' = run (T_machine O) s0 h).
Proof. exact @invalid_rejected_T. Qed.

(** over R, T::new accepts exactly the documented domain *)
Theorem C18_constructor_domain_T :
  forall (th : m_param (T_machine RO)), m_new (T_machine RO) th <> None <-> T_dom th.
Proof. exact @constructor_domain_T. Qed.

(** over R, after any history the parameters held by the object lie in the documented domain *)
Theorem C18_domain_invariant_T :
  forall (th0 : m_param (T_machine RO)) (s0 : m_state (T_machine RO)) (h : list (m_op (T_machine RO))),
    m_new (T_machine RO) th0 = Some s0 -> T_dom (m_params (T_machine RO) (run (T_machine RO) s0 h)).
Proof. exact @domain_invariant_T. Qed.

(** over R, a well-formed call at any point of any history returns iff the parameters it asks for lie in the documented domain *)
Theorem C18_accepted_iff_in_domain_T :
  forall (th0 : m_param (T_machine RO)) (s0 : m_state (T_machine RO)) (h : list (m_op (T_machine RO))) (o : m_op (T_machine RO)) (th : m_param (T_machine RO)),
    m_new (T_machine RO) th0 = Some s0 -> m_wf (T_machine RO) o = true -> m_target (T_machine RO) (run (T_machine RO) s0 h) o = Some th ->
    (is_ok (m_step (T_machine RO) (run (T_machine RO) s0 h) o) = true <-> T_dom th).
Proof. exact @accepted_iff_in_domain_T. Qed.

(** ** Uniform *)
(** after any history of Uniform setter/update calls (panics caught, object used further) the object -- cached sub-samplers included -- is exactly what new builds from the object's current parameters *)
Theorem C18_fresh_equiv_Uniform :
  forall (T : Type) (O : Ops T), forall (th0 : m_param (Uniform_machine O)) (s0 : m_state (Uniform_machine O)) (h : list (m_op (Uniform_machine O))),
    m_new (Uniform_machine O) th0 = Some s0 ->
    m_new (Uniform_machine O) (m_params (Uniform_machine O) (run (Uniform_machine O) s0 h)) = Some (run (Uniform_machine O) s0 h).
Proof. exact @fresh_equiv_Uniform. Qed.

(** hence any observation of the object (pdf/pmf, mean, var, the sample stream from any RNG state) equals that of a fresh twin *)
Theorem C18_observational_equiv_Uniform :
  forall (T : Type) (O : Ops T), forall (A : Type) (obs : m_state (Uniform_machine O) -> A) (th0 : m_param (Uniform_machine O)) (s0 : m_state (Uniform_machine O)) (h : list (m_op (Uniform_machine O))),
    m_new (Uniform_machine O) th0 = Some s0 ->
    exists twin, m_new (Uniform_machine O) (m_params (Uniform_machine O) (run (Uniform_machine O) s0 h)) = Some twin /\ obs (run (Uniform_machine O) s0 h) = obs twin.
Proof. exact @observational_equiv_Uniform. Qed.

(** at any point of any history a setter/update asking for parameters that Uniform::new accepts returns, and the object is then the fresh one at those parameters, whatever the previous parameters *)
Theorem C18_valid_update_succeeds_Uniform :
  forall (T : Type) (O : Ops T), forall (th0 : m_param (Uniform_machine O)) (s0 : m_state (Uniform_machine O)) (h : list (m_op (Uniform_machine O))) (o : m_op (Uniform_machine O)) (th : m_param (Uniform_machine O)) (s' : m_state (Uniform_machine O)),
    m_new (Uniform_machine O) th0 = Some s0 -> m_wf (Uniform_machine O) o = true ->
    m_target (Uniform_machine O) (run (Uniform_machine O) s0 h) o = Some th -> m_new (Uniform_machine O) th = Some s' ->
    m_step (Uniform_machine O) (run (Uniform_machine O) s0 h) o = Ok s' /\ m_params (Uniform_machine O) s' = th.
Proof. exact @valid_update_succeeds_Uniform. Qed.

(** a call asking for parameters Uniform::new refuses (or passing too few numbers) panics; a setter leaves the object untouched, update leaves an object that is still fresh at its own parameters *)
Theorem C18_invalid_rejected_Uniform :
  forall (T : Type) (O : Ops T), forall (th0 : m_param (Uniform_machine O)) (s0 : m_state (Uniform_machine O)) (h : list (m_op (Uniform_machine O))) (o : m_op (Uniform_machine O)),
    m_new (Uniform_machine O) th0 = Some s0 ->
    obind (m_target (Uniform_machine O) (run (Uniform_machine O) s0 h) o) (m_new (Uniform_machine O)) = None ->
    exists s'', m_step (Uniform_machine O) (run (Uniform_machine O) s0 h) o = Panicked s'' /\ m_new (Uniform_machine O) (m_params (Uniform_machine O) s'') = Some s'' /\
                (m_is_update (Uniform_machine O) o = false -> s'' = run (Uniform_machine O) s0 h).
Proof. exact @invalid_rejected_Uniform. Qed.

(** over R, Uniform::new accepts exactly the documented domain *)
Theorem C18_constructor_domain_Uniform :
  forall (th : m_param (Uniform_machine RO)), m_new (Uniform_machine RO) th <> None <-> Uniform_dom th.
Proof. exact @constructor_domain_Uniform. Qed.

(** over R, after any history the parameters held by the object lie in the documented domain *)
Theorem C18_domain_invariant_Uniform :
  forall (th0 : m_param (Uniform_machine RO)) (s0 : m_state (Uniform_machine RO)) (h : list (m_op (Uniform_machine RO))),
    m_new (Uniform_machine RO) th0 = Some s0 -> Uniform_dom (m_params (Uniform_machine RO) (run (Uniform_machine RO) s0 h)).
Proof. exact @domain_invariant_Uniform. Qed.

(** over R, a well-formed call at any point of any history returns iff the parameters it asks for lie in the documented domain *)
Theorem C18_accepted_iff_in_domain_Uniform :
  forall (th0 : m_param (Uniform_machine RO)) (s0 : m_state (Uniform_machine RO)) (h : list (m_op (Uniform_machine RO))) (o : m_op (Uniform_machine RO)) (th : m_param (Uniform_machine RO)),
    m_new (Uniform_machine RO) th0 = Some s0 -> m_wf (Uniform_machine RO) o = true -> m_target (Uniform_machine RO) (run (Uniform_machine RO) s0 h) o = Some th ->
    (is_ok (m_step (Uniform_machine RO) (run (Uniform_machine RO) s0 h) o) = true <-> Uniform_dom th).
Proof. exact @accepted_iff_in_domain_Uniform. Qed.

(** every machine of the list the correspondence check runs ([machines], indexed by distribution id) satisfies the four
    per-call facts -- so the theorems above are about the very terms that are compared with the Rust objects *)
Theorem C18_all_machines_ok :
  forall (T : Type) (O : Ops T), carrier_sane O -> Forall (fun m => machine_ok m) (machines O).
Proof. exact @all_machines_ok. Qed.

(** binary64 with any libm table is such a carrier *)
Theorem C18_binary64_carrier_sane : forall tbl, carrier_sane (FO tbl).
Proof. exact @FO_sane. Qed.

(** ** what the ORIGINAL code did (before the two `fix:` commits); [*_orig] are the translator's output on the original sources *)
(** D32: after ChiSquared::new(4); set_dof(9) the object is not the fresh ChiSquared(9): its sampler is still Gamma(2, 1/2), not Gamma(9/2, 1/2) *)
Theorem C18_D32_stale_sampler_on_original :
  exists s0 s1, ChiSquared_new QO 4 = Some s0 /\ ChiSquared_set_dof_orig s0 9 = Ok s1 /\
                ChiSquared_new QO (ChiSquared_params s1) <> Some s1 /\
                Gamma_alpha (ChiSquared_sampler s1) = 2%Q /\
                option_map (fun s => Gamma_alpha (ChiSquared_sampler s)) (ChiSquared_new QO 9) = Some (9 # 2)%Q.
Proof. exact D32_stale_sampler_on_original. Qed.

(** D33: after Uniform::new(0,1), update([2,3]) panicked although Uniform::new(2,3) is accepted; same for DiscreteUniform (0,1) -> (5,9) *)
Theorem C18_D33_valid_move_rejected_on_original_Uniform :
  exists s0, Uniform_new QO 0%Q 1%Q = Some s0 /\ Uniform_new QO 2%Q 3%Q <> None /\
             is_ok (Uniform_update_orig QO s0 [2%Q; 3%Q]) = false.
Proof. exact D33_valid_move_rejected_on_original_Uniform. Qed.

Theorem C18_D33_valid_move_rejected_on_original_DiscreteUniform :
  exists s0, DiscreteUniform_new 0%Z 1%Z = Some s0 /\ DiscreteUniform_new 5%Z 9%Z <> None /\
             is_ok (DiscreteUniform_update_orig QO s0 [5%Q; 9%Q]) = false.
Proof. exact D33_valid_move_rejected_on_original_DiscreteUniform. Qed.
