(** * C07 — quadrature rules are exact on their polynomial class, linear in the integrand and odd in the limits.
    Statements only (proofs: Proofs/C07_*.v).  Carrier: [RO] (exact real arithmetic); the same Gallina terms run
    on binary64 in the correspondence (Corr/C07.v).  Polynomials are coefficient lists [p = [c0; c1; ...]],
    [horner RO p] is the integrand the correspondence uses, [poly_int p a b] its closed-form integral, tied to
    Coquelicot's Riemann integral by [C07_poly_int_is_RInt].
    Claim: the polynomial clauses are COMPLETE for trapz (every n >= 1), for Romberg with 1 <= k <= K0 = 12 levels
    and for the Gauss-Legendre table (degree <= 19, to 1e-15); linearity / sign change / empty interval are proved
    for all three rules; the smooth-integrand h^2 error bound (b-a)h^2/12 max|f''| of the trapezoid rule IS a theorem
    (C07_trapz_error_bound and its variants at the end of this file, sharp by C07_trapz_error_bound_sharp; also for the
    sampled rule on a non-uniform grid, and the Simpson-level bound for Romberg with 2 levels); Romberg's
    "error of the order of eps" clause is NOT a theorem (oracle only; false in general, see
    C07_romberg_early_stop_spurious). *)
From Coq Require Import Reals List ZArith QArith Lra.
From Coquelicot Require Import Coquelicot.
From Compute Require Import Base.Ops Base.ListMat Model.Quad Spec.Quad Generated.quad_tables
  Proofs.C07_base Proofs.C07_poly Proofs.C07_trapz Proofs.C07_romberg Proofs.C07_romberg_swap Proofs.C07_romberg_exact Proofs.C07_gauss Proofs.C07_samples Proofs.C07_interp
  Proofs.C07_main.
Import ListNotations.
Open Scope R_scope.

(** ** polynomials and their integral *)
(** Tie A: every regenerated binary64 node/weight is a nearest double of the decimal literal in the source *)
Theorem C07_gauss_literals_ok : forallb lit_ok gauss_literals = true.
Proof. exact gauss_literals_ok. Qed.

(** the integrand of the correspondence (Horner) is the polynomial Σ c_j x^j *)
Theorem C07_horner_is_polynomial : forall (p : list R) (x : R), horner RO p x = peval p x.
Proof. exact horner_peval. Qed.

(** the closed form Σ c_j (b^(j+1) − a^(j+1))/(j+1) is the Riemann integral (Coquelicot) *)
Theorem C07_poly_int_is_RInt : forall (p : list R) (a b : R), is_RInt (horner RO p) a b (poly_int p a b).
Proof. exact poly_int_is_RInt. Qed.
Theorem C07_poly_int_RInt : forall (p : list R) (a b : R), RInt (horner RO p) a b = poly_int p a b.
Proof. exact poly_int_RInt. Qed.

(** ** trapz (repaired, D17) *)
(** on reals the model is the textbook composite rule h·(Σ_{k=1}^{n−1} f(a+kh) + (f(a)+f(b))/2), h = (b−a)/n *)
Theorem C07_trapz_is_composite_rule :
  forall (f : R -> R) (a b : R) (n : nat),
    trapz RO f a b n =
    (b - a) / INR n * (rsum (fun i => f (a + (1 + INR i) * ((b - a) / INR n))) (n - 1) + (f b + f a) / 2).
Proof. exact trapz_R. Qed.

(** exact for affine integrands for EVERY number of panels n >= 1 and every interval (a > b and a = b included) *)
Theorem C07_trapz_affine_exact :
  forall (c d a b : R) (n : nat),
    (1 <= n)%nat -> trapz RO (fun x => c + d * x) a b n = c * (b - a) + d * (b * b - a * a) / 2.
Proof. exact trapz_affine_exact. Qed.
Theorem C07_trapz_affine_exact_RInt :
  forall (c d a b : R) (n : nat),
    (1 <= n)%nat -> trapz RO (horner RO [c; d]) a b n = RInt (horner RO [c; d]) a b.
Proof. exact trapz_affine_RInt. Qed.
Example C07_example_trapz_hyp : (1 <= 7)%nat.
Proof. repeat constructor. Qed.

Theorem C07_trapz_linear :
  forall (f g : R -> R) (al be a b : R) (n : nat),
    trapz RO (fun x => al * f x + be * g x) a b n = al * trapz RO f a b n + be * trapz RO g a b n.
Proof. exact trapz_linear. Qed.
Theorem C07_trapz_swap : forall (f : R -> R) (a b : R) (n : nat), trapz RO f b a n = - trapz RO f a b n.
Proof. exact trapz_swap. Qed.
Theorem C07_trapz_empty : forall (f : R -> R) (a : R) (n : nat), trapz RO f a a n = 0.
Proof. exact trapz_empty. Qed.
Theorem C07_trapz_affine_subst :
  forall (f : R -> R) (a b : R) (n : nat),
    trapz RO f a b n = (b - a) * trapz RO (fun t => f (a + (b - a) * t)) 0 1 n.
Proof. exact trapz_affine_subst. Qed.

(** ** romberg (eps = 0: the tableau is run to its budget; repaired stopping test) *)
(** exact for every polynomial of degree <= 2k−1 (at most 2k coefficients), every interval, 1 <= k <= K0 = 12 *)
Theorem C07_romberg_exact :
  forall (k : nat) (p : list R) (a b : R),
    (1 <= k <= 12)%nat -> (length p <= 2 * k)%nat ->
    romberg RO (horner RO p) a b 0 k = Some (poly_int p a b).
Proof. exact romberg_exact. Qed.
Theorem C07_romberg_exact_RInt :
  forall (k : nat) (p : list R) (a b : R),
    (1 <= k <= 12)%nat -> (length p <= 2 * k)%nat ->
    romberg RO (horner RO p) a b 0 k = Some (RInt (horner RO p) a b).
Proof. exact romberg_exact_RInt. Qed.
Example C07_example_romberg_hyp : (1 <= 3 <= 12)%nat /\ (length [1; 2; 3; 4; 5; 6] <= 2 * 3)%nat.
Proof. cbn. split; [split|]; repeat constructor. Qed.
(** sharp: x^(2k) on [0,1] is not integrated exactly *)
Theorem C07_romberg_not_exact_2k :
  forall k : nat, (1 <= k <= 12)%nat -> romberg RO (fun x => x ^ (2 * k)) 0 1 0 k <> Some (/ INR (S (2 * k))).
Proof. exact romberg_not_exact_2k. Qed.

Theorem C07_romberg_linear :
  forall (al be : R) (f g : R -> R) (a b : R) (m : nat),
    exists rf rg, romberg RO f a b 0 (S m) = Some rf /\ romberg RO g a b 0 (S m) = Some rg /\
                  romberg RO (fun x => al * f x + be * g x) a b 0 (S m) = Some (al * rf + be * rg).
Proof. exact romberg_linear. Qed.
Theorem C07_romberg_affine_subst :
  forall (f : R -> R) (a b : R) (m : nat),
    exists r, romberg RO (fun t => f (a + (b - a) * t)) 0 1 0 (S m) = Some r /\
              romberg RO f a b 0 (S m) = Some ((b - a) * r).
Proof. exact romberg_affine_subst. Qed.
(** sign change under a <-> b, for every level budget below 2^64 (the fuel of the model's [powi]) *)
Theorem C07_romberg_swap :
  forall (f : R -> R) (a b : R) (m : nat),
    (Z.of_nat (S m) < 2 ^ 64)%Z ->
    exists r, romberg RO f a b 0 (S m) = Some r /\ romberg RO f b a 0 (S m) = Some (- r).
Proof. exact romberg_swap. Qed.
Example C07_example_romberg_swap_hyp : (Z.of_nat (S 19) < 2 ^ 64)%Z.
Proof. reflexivity. Qed.
Theorem C07_romberg_empty : forall (f : R -> R) (a : R) (m : nat), romberg RO f a a 0 (S m) = Some 0.
Proof. exact romberg_empty. Qed.
(** acceptance / rejection of the level budget *)
Theorem C07_romberg_defined :
  forall (f : R -> R) (a b eps : R) (m : nat), exists r, romberg RO f a b eps (S m) = Some r.
Proof. exact romberg_defined. Qed.
Theorem C07_romberg_zero_budget_panics : forall (f : R -> R) (a b eps : R), romberg RO f a b eps 0 = None.
Proof. exact romberg_R_zero. Qed.

(** why the tolerance clause ("error of the order of eps") is not a theorem: with eps > 0 the stopping rule can end
    the run on two agreeing but wrong estimates (here 5/24 twice; the integral is 13/63, which 4 levels return
    exactly with eps = 0).  Computed on the rational carrier. *)
Theorem C07_romberg_early_stop_spurious :
  romberg QO (horner QO [0; 0; 4 # 3; - (8 # 1); 55 # 3; - (16 # 1); 16 # 3]%Q) 0%Q 1%Q (1 # 100000000)%Q 12 = Some (5 # 24)%Q /\
  romberg QO (horner QO [0; 0; 4 # 3; - (8 # 1); 55 # 3; - (16 # 1); 16 # 3]%Q) 0%Q 1%Q 0%Q 4 = Some (13 # 63)%Q /\
  ~ (5 # 24 == 13 # 63)%Q.
Proof. exact romberg_early_stop_spurious. Qed.

(** ** quad5 (symmetric Gauss–Legendre, regenerated tables) *)
(** exact to 1e-15·(|b−a|/2)·‖p∘aff‖₁ for every polynomial of degree <= 19 and every interval *)
Theorem C07_quad5_exact :
  forall (p : list R) (a b : R),
    (length p <= 20)%nat ->
    Rabs (quad5 RO (horner RO p) a b - poly_int p a b)
    <= 1e-15 * (Rabs (b - a) / 2) * norm1 (comp_aff p ((b + a) / 2) ((b - a) / 2)).
Proof. exact quad5_exact. Qed.
Theorem C07_quad5_exact_RInt :
  forall (p : list R) (a b : R),
    (length p <= 20)%nat ->
    Rabs (quad5 RO (horner RO p) a b - RInt (horner RO p) a b)
    <= 1e-15 * (Rabs (b - a) / 2) * norm1 (comp_aff p ((b + a) / 2) ((b - a) / 2)).
Proof. exact quad5_exact_RInt. Qed.
Example C07_example_quad5_hyp : (length [1; 0; 0; 0; 0; 0; 0; 0; 0; 0; 0; 0; 0; 0; 0; 0; 0; 0; 0; 7] <= 20)%nat.
Proof. cbn. repeat constructor. Qed.
(** the transformed polynomial is p∘aff: its coefficients define the scale of the bound *)
Theorem C07_comp_aff_spec :
  forall (p : list R) (u v t : R), horner RO (comp_aff p u v) t = horner RO p (u + v * t).
Proof. exact horner_comp_aff. Qed.
(** on [−1,1]: each monomial of degree <= 19 to 1e-15, odd ones exactly; one degree further the table is not 1e-15-exact *)
Theorem C07_quad5_monomials :
  forall j : nat, (j < 20)%nat -> Rabs (quad5 RO (fun x => x ^ j) (-1) 1 - (1 - (-1) ^ S j) / INR (S j)) <= 1e-15.
Proof. exact gl_monomial. Qed.
Example C07_example_monomial_hyp : (19 < 20)%nat /\ Nat.odd 19 = true.
Proof. split; [repeat constructor|reflexivity]. Qed.
Theorem C07_quad5_monomials_odd :
  forall j : nat, (j < 20)%nat -> Nat.odd j = true -> quad5 RO (fun x => x ^ j) (-1) 1 = 0.
Proof. exact gl_monomial_odd. Qed.
Theorem C07_quad5_table_sharp :
  (Qle_bool (gl_mono_q 20 - moment_q 20) gl_tol_q && Qle_bool (- gl_tol_q) (gl_mono_q 20 - moment_q 20))%bool = false.
Proof. exact gl_table_sharp. Qed.
(** integrands odd about the midpoint integrate to exactly 0 (any table) *)
Theorem C07_quad5_odd :
  forall (f : R -> R) (a b : R),
    (forall t, f ((b + a) / 2 + t) = - f ((b + a) / 2 - t)) -> quad5 RO f a b = 0.
Proof. exact quad5_odd. Qed.
Example C07_example_quad5_odd_hyp : forall t : R, (fun x => (x - 1) ^ 3) ((2 + 0) / 2 + t) = - (fun x => (x - 1) ^ 3) ((2 + 0) / 2 - t).
Proof. intros t. cbn. field. Qed.

Theorem C07_quad5_linear :
  forall (al be : R) (f g : R -> R) (a b : R),
    quad5 RO (fun x => al * f x + be * g x) a b = al * quad5 RO f a b + be * quad5 RO g a b.
Proof. exact quad5_linear. Qed.
Theorem C07_quad5_swap : forall (f : R -> R) (a b : R), quad5 RO f b a = - quad5 RO f a b.
Proof. exact quad5_swap. Qed.
Theorem C07_quad5_empty : forall (f : R -> R) (a : R), quad5 RO f a a = 0.
Proof. exact quad5_empty. Qed.
Theorem C07_quad5_affine_subst :
  forall (f : R -> R) (a b : R),
    quad5 RO f a b = (b - a) / 2 * quad5 RO (fun t => f ((b + a) / 2 + (b - a) / 2 * t)) (-1) 1.
Proof. exact quad5_affine. Qed.

(** ** sampled trapezoid *)
(** acceptance with abscissae: the result is the sum of the exact integrals of the chords (uniform or not, sorted or not) *)
Theorem C07_trapezoid_samples :
  forall (y x : list R), length y = length x -> trapezoid RO y (Some x) None = Some (chord_sum x y).
Proof. exact trapezoid_x_accept. Qed.
Example C07_example_trapezoid_hyp : length [2; 4; 5; 6] = length [1; 2; 3; 5].
Proof. reflexivity. Qed.
(** each summand (y1+y0)/2·(x1−x0) of [chord_sum] is the Riemann integral of the chord, which interpolates the samples *)
Theorem C07_chord_is_RInt :
  forall (x0 y0 x1 y1 : R), x0 <> x1 -> is_RInt (chord x0 y0 x1 y1) x0 x1 ((y1 + y0) / 2 * (x1 - x0)).
Proof. exact chord_is_RInt. Qed.
Theorem C07_chord_interpolates :
  forall (x0 y0 x1 y1 : R), x0 <> x1 -> chord x0 y0 x1 y1 x0 = y0 /\ chord x0 y0 x1 y1 x1 = y1.
Proof. exact chord_interpolates. Qed.
Example C07_example_chord_hyp : 1 <> 3.
Proof. lra. Qed.
(** for strictly increasing abscissae (uniform or not) the result is the Riemann integral, over [x_first, x_last], of the
    piecewise-linear interpolant of the samples, which passes through them *)
Theorem C07_trapezoid_is_integral_of_interpolant :
  forall (x0 : R) (xs y : list R),
    increasing (x0 :: xs) -> length y = length (x0 :: xs) ->
    exists v, trapezoid RO y (Some (x0 :: xs)) None = Some v /\
              is_RInt (interp (x0 :: xs) y) x0 (last (x0 :: xs) x0) v.
Proof. exact trapezoid_is_RInt_interp. Qed.
Example C07_example_interpolant_hyp : increasing [1; 2; 3; 5] /\ length [2; 4; 5; 6] = length [1; 2; 3; 5].
Proof. cbn. repeat split; lra. Qed.
Theorem C07_interp_at_knots :
  forall (x0 x1 : R) (xs : list R) (y0 y1 : R) (ys : list R),
    x0 < x1 -> interp (x0 :: x1 :: xs) (y0 :: y1 :: ys) x0 = y0 /\ interp (x0 :: x1 :: xs) (y0 :: y1 :: ys) x1 = y1.
Proof. exact interp_at_knots. Qed.
(** acceptance with a constant spacing (1 when neither x nor dx is given) *)
Theorem C07_trapezoid_spacing :
  forall (y0 : R) (y : list R) (dx : option R),
    trapezoid RO (y0 :: y) None dx
    = Some (match dx with Some d => d | None => 1 end
            * fold_right Rplus 0 (map2 (fun a b => (a + b) / 2) y (y0 :: y))).
Proof. exact trapezoid_dx_accept. Qed.
(** rejection *)
Theorem C07_trapezoid_rejects_length_mismatch :
  forall (y x : list R) (dx : option R), length y <> length x -> trapezoid RO y (Some x) dx = None.
Proof. exact trapezoid_reject_lengths. Qed.
Example C07_example_mismatch_hyp : length [1; 2; 3] <> length [1; 2].
Proof. discriminate. Qed.
Theorem C07_trapezoid_rejects_x_and_dx : forall (y x : list R) (d : R), trapezoid RO y (Some x) (Some d) = None.
Proof. exact trapezoid_reject_both. Qed.
Theorem C07_trapezoid_rejects_empty : forall dx : option R, trapezoid RO [] None dx = None.
Proof. exact trapezoid_reject_empty. Qed.

(** ** Tie A: the model IS the source ([trapz], [quad5], sampled [trapezoid]).  [Generated/quad_loops.v] is regenerated
    on every run from src/integrate/{functions,samples}.rs by the statement-level translator (tools/rsexpr.py, target
    tools/tiea/quad_loops.py): iterator chains and loops are folds over lists, [usize] lives in [Z], a panic (failed
    assert, out-of-bounds index, capacity overflow of an allocation) is [None].  For every carrier, operations record,
    integrand and input the generated function and the function of Model/Quad.v agree.  [romberg] (Matrix tableau) is
    outside the translator's subset: the target checks on every run that it is still refused. *)
Close Scope R_scope.
From Compute Require Import Base.RsExpr Generated.quad_loops Proofs.TieA_quad_loops.
Theorem C07_model_is_source_trapz :
  forall (T : Type) (O : Ops T) (f : T -> T) (a b : T) (n : nat), src_trapz O f a b (Z.of_nat n) = trapz O f a b n.
Proof. exact @tiea_trapz. Qed.
(** the five checked reads of the node and weight tables are in bounds: the source never panics *)
Theorem C07_model_is_source_quad5 :
  forall (T : Type) (O : Ops T) (f : T -> T) (a b : T), src_quad5 O f a b = Some (quad5 O f a b).
Proof. exact @tiea_quad5. Qed.
(** [y] fits the address space: [Vector::ones(y.len() - 1)] then passes the allocation's capacity check (2^60 f64s) *)
Theorem C07_model_is_source_trapezoid :
  forall (T : Type) (O : Ops T) (y : list T) (x : option (list T)) (dx : option T),
    (Z.of_nat (length y) <= 1152921504606846976)%Z -> src_trapezoid O y x dx = trapezoid O y x dx.
Proof. exact @tiea_trapezoid. Qed.

(** ** error bound of the trapezoid rule for smooth integrands (the property's "(b−a)h²/12·max|f″|" clause).
    About the same model term [trapz RO] that the Tie-A theorem [C07_model_is_source_trapz] and the bitwise correspondence
    tie to the code; the integral is Coquelicot's [RInt]; [is_derive] is the (two-sided) Fréchet derivative on R. *)
From Compute Require Import Spec.QuadBound Proofs.C07_bound Proofs.C07_bound_samples.
Open Scope R_scope.
(** f twice differentiable on [a,b] with |f″| <= M there: |trapz − ∫_a^b f| <= (b−a)·h²/12·M, h = (b−a)/n, every n >= 1.
    (Continuity of f″ is not needed, so it is not assumed: the statement with that extra hypothesis follows a fortiori.) *)
Theorem C07_trapz_error_bound :
  forall (f f' f'' : R -> R) (a b : R) (n : nat) (M : R),
    a <= b -> (1 <= n)%nat ->
    (forall x, a <= x <= b -> is_derive f x (f' x) /\ is_derive f' x (f'' x)) ->
    (forall x, a <= x <= b -> Rabs (f'' x) <= M) ->
    Rabs (trapz RO f a b n - RInt f a b) <= (b - a) * ((b - a) / INR n) ^ 2 / 12 * M.
Proof. exact trapz_error_bound. Qed.
(** the hypotheses are satisfiable: f = f′ = f″ = exp on [0,1], M = e, every n >= 1; ∫ = e − 1 *)
Example C07_example_trapz_error_bound_exp :
  forall n : nat, (1 <= n)%nat ->
    Rabs (trapz RO exp 0 1 n - (exp 1 - 1)) <= (1 - 0) * ((1 - 0) / INR n) ^ 2 / 12 * exp 1.
Proof. exact trapz_error_bound_exp. Qed.
(** weaker hypotheses: f continuous on [a,b], twice differentiable with |f″| <= M on the OPEN interval only
    (covers e.g. x^(5/2) on [0,1] or integrands whose derivative does not exist at an end point) *)
Theorem C07_trapz_error_bound_open :
  forall (f f' f'' : R -> R) (a b : R) (n : nat) (M : R),
    a <= b -> (1 <= n)%nat ->
    (forall x, a <= x <= b -> continuous f x) ->
    (forall x, a < x < b -> is_derive f x (f' x) /\ is_derive f' x (f'' x)) ->
    (forall x, a < x < b -> Rabs (f'' x) <= M) ->
    Rabs (trapz RO f a b n - RInt f a b) <= (b - a) * ((b - a) / INR n) ^ 2 / 12 * M.
Proof. exact trapz_error_bound_open. Qed.
(** either orientation of the limits (b <= a by the swap theorem): the bound is |b−a|·h²/12·M *)
Theorem C07_trapz_error_bound_any_orientation :
  forall (f f' f'' : R -> R) (a b : R) (n : nat) (M : R),
    (1 <= n)%nat ->
    (forall x, Rmin a b <= x <= Rmax a b -> continuous f x) ->
    (forall x, Rmin a b < x < Rmax a b -> is_derive f x (f' x) /\ is_derive f' x (f'' x)) ->
    (forall x, Rmin a b < x < Rmax a b -> Rabs (f'' x) <= M) ->
    Rabs (trapz RO f a b n - RInt f a b) <= Rabs (b - a) * ((b - a) / INR n) ^ 2 / 12 * M.
Proof. exact trapz_error_bound_any. Qed.
(** the constant 1/12 cannot be improved: for f(x) = x² (f″ = 2 = M) the error EQUALS the bound, for every a, b, n >= 1 *)
Theorem C07_trapz_error_bound_sharp :
  forall (a b : R) (n : nat),
    (1 <= n)%nat ->
    trapz RO (fun x => x * x) a b n - RInt (fun x => x * x) a b = (b - a) * ((b - a) / INR n) ^ 2 / 12 * 2.
Proof. exact trapz_error_bound_sharp. Qed.
(** consequence: the rule converges to the integral as the number of panels grows (either orientation) *)
Theorem C07_trapz_converges :
  forall (f f' f'' : R -> R) (a b M : R),
    (forall x, Rmin a b <= x <= Rmax a b -> continuous f x) ->
    (forall x, Rmin a b < x < Rmax a b -> is_derive f x (f' x) /\ is_derive f' x (f'' x)) ->
    (forall x, Rmin a b < x < Rmax a b -> Rabs (f'' x) <= M) ->
    is_lim_seq (fun n => trapz RO f a b n) (RInt f a b).
Proof. exact trapz_converges. Qed.
(** one panel: the error of a single trapezoid is at most M·(d−c)³/12 *)
Theorem C07_trapezoid_panel_error_bound :
  forall (f f' f'' : R -> R) (c d M : R),
    c <= d ->
    (forall x, c <= x <= d -> continuous f x) ->
    (forall x, c < x < d -> is_derive f x (f' x)) ->
    (forall x, c < x < d -> is_derive f' x (f'' x)) ->
    (forall x, c < x < d -> Rabs (f'' x) <= M) ->
    Rabs ((f d + f c) / 2 * (d - c) - RInt f c d) <= M * (d - c) ^ 3 / 12.
Proof. exact panel_bound. Qed.
(** pointwise: f minus its chord on [c,d] is at most M/2·(t−c)(d−t) (Rolle twice) *)
Theorem C07_chord_interpolation_error :
  forall (f f' f'' : R -> R) (c d t M : R),
    c < t < d ->
    (forall x, c <= x <= d -> continuous f x) ->
    (forall x, c < x < d -> is_derive f x (f' x)) ->
    (forall x, c < x < d -> is_derive f' x (f'' x)) ->
    (forall x, c < x < d -> Rabs (f'' x) <= M) ->
    Rabs (f t - chord c (f c) d (f d) t) <= M / 2 * ((t - c) * (d - t)).
Proof. exact chord_error. Qed.
(** the sampled rule on the samples y_i = f(x_i) of a smooth f, strictly increasing abscissae (uniform or not) with
    spacings <= H: |trapezoid − ∫ f| <= (x_last − x_first)·H²/12·M *)
Theorem C07_trapezoid_samples_error_bound :
  forall (f f' f'' : R -> R) (x0 : R) (xs : list R) (M H : R),
    increasing (x0 :: xs) -> spacing_le H (x0 :: xs) ->
    (forall t, x0 <= t <= last (x0 :: xs) x0 -> continuous f t) ->
    (forall t, x0 < t < last (x0 :: xs) x0 -> is_derive f t (f' t) /\ is_derive f' t (f'' t)) ->
    (forall t, x0 < t < last (x0 :: xs) x0 -> Rabs (f'' t) <= M) ->
    exists v, trapezoid RO (map f (x0 :: xs)) (Some (x0 :: xs)) None = Some v /\
              Rabs (v - RInt f x0 (last (x0 :: xs) x0)) <= (last (x0 :: xs) x0 - x0) * H ^ 2 / 12 * M.
Proof. exact trapezoid_error_bound. Qed.
(** satisfiable: exp sampled at 0, 1/4, 1/2, 1 (non-uniform), H = 1/2, M = e *)
Example C07_example_trapezoid_samples_error_bound_exp :
  exists v, trapezoid RO (map exp [0; 1/4; 1/2; 1]) (Some [0; 1/4; 1/2; 1]) None = Some v /\
            Rabs (v - (exp 1 - 1)) <= (1 - 0) * (1/2) ^ 2 / 12 * exp 1.
Proof. exact trapezoid_error_bound_exp. Qed.
(** constant-spacing form of the sampled rule (dx given, or 1 when neither x nor dx is): samples y_i = f(a + i·d), i = 0..n *)
Theorem C07_trapezoid_spacing_error_bound :
  forall (f f' f'' : R -> R) (a : R) (n : nat) (dx : option R) (M : R),
    let d := match dx with Some d => d | None => 1 end in
    0 <= d ->
    (forall t, a <= t <= a + INR n * d -> continuous f t) ->
    (forall t, a < t < a + INR n * d -> is_derive f t (f' t) /\ is_derive f' t (f'' t)) ->
    (forall t, a < t < a + INR n * d -> Rabs (f'' t) <= M) ->
    exists v, trapezoid RO (map (fun i => f (a + INR i * d)) (seq 0 (S n))) None dx = Some v /\
              Rabs (v - RInt f a (a + INR n * d)) <= (INR n * d) * d ^ 2 / 12 * M.
Proof. exact trapezoid_dx_error_bound. Qed.
Example C07_example_trapezoid_spacing_error_bound_exp :
  exists v, trapezoid RO (map (fun i => exp (0 + INR i * (1/4))) (seq 0 5)) None (Some (1/4)) = Some v /\
            Rabs (v - (exp 1 - 1)) <= (INR 4 * (1/4)) * (1/4) ^ 2 / 12 * exp 1.
Proof. exact trapezoid_dx_error_bound_exp. Qed.
Close Scope R_scope.

(** ** Simpson level: Romberg with a budget of 2 levels (any eps: the stopping test is not reached) is Simpson's rule, and
    for f with a fourth derivative bounded by M on (a,b) its error is at most (b−a)·h⁴/180·M, h = (b−a)/2 *)
From Compute Require Import Proofs.C07_bound_simpson.
Open Scope R_scope.
Theorem C07_romberg2_is_simpson :
  forall (f : R -> R) (a b eps : R),
    romberg RO f a b eps 2 = Some ((b - a) / 6 * (f a + 4 * f ((a + b) / 2) + f b)).
Proof. exact romberg2_simpson. Qed.
Theorem C07_romberg2_error_bound :
  forall (f f1 f2 f3 f4 : R -> R) (a b eps M : R),
    a <= b ->
    (forall x, a <= x <= b -> continuous f x) ->
    (forall x, a < x < b -> is_derive f x (f1 x) /\ is_derive f1 x (f2 x) /\ is_derive f2 x (f3 x) /\ is_derive f3 x (f4 x)) ->
    (forall x, a < x < b -> Rabs (f4 x) <= M) ->
    exists r, romberg RO f a b eps 2 = Some r /\ Rabs (r - RInt f a b) <= (b - a) * ((b - a) / 2) ^ 4 / 180 * M.
Proof. exact romberg2_error_bound. Qed.
(** satisfiable: exp on [0,1], M = e *)
Example C07_example_romberg2_error_bound_exp :
  forall eps : R, exists r, romberg RO exp 0 1 eps 2 = Some r /\
                            Rabs (r - (exp 1 - 1)) <= (1 - 0) * ((1 - 0) / 2) ^ 4 / 180 * exp 1.
Proof. exact romberg2_error_bound_exp. Qed.
Close Scope R_scope.
