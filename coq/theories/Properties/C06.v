(** * C06 — GLM fitting (Fisher scoring) returns the (ridge-penalised) MLE with correct inference.
    Statements only; proofs in Proofs/C06*.v.  Carrier [RO] (exact arithmetic).  The inner linear routines
    [solve] / [inv] are parameters of the model (like libm); their defining equations appear as explicit
    hypotheses ([solve_ok], [inv_ok]) to be discharged by C01.
    Spec objects ([score], [fisher], [penalised_score], [unit_deviance], ...) are in Spec/GLM.v.

    COMPOSED WITH C01 (last section, theorems [C06_..._composed]; proofs in Proofs/C06_compose.v): [solve] and
    [inv] are instantiated by C01's models of [solve] and [invert_matrix] ([slice_solve], [slice_invert],
    Model/SolveInst.v) and [solve_ok] / [inv_ok] are discharged from C01's theorems.  Those theorems assume
    nothing about the inner routines; what remains is a condition on the data at the iterate: the penalised
    Fisher information matrix (proved exactly symmetric) has a left inverse. *)
From Coq Require Import Reals List Arith ZArith Bool.
From Compute Require Import Base.Ops Base.ListMat Model.Reduce Model.MatMul Model.SolveInst.
From Coq Require Import Permutation.
From Compute Require Import Generated.glm_families Model.GLM Spec.GLM Proofs.C06_base Proofs.C06 Proofs.C06_infer Proofs.C06_perm
  Proofs.C06_compose Proofs.C06_weighted Proofs.C06_replicate Proofs.C06_fitperm.
From Compute Require Spec.Factor Spec.Solve.
Import ListNotations.
Open Scope R_scope.

(** gradient = minus the score, for every family, with weights and offsets *)
Theorem C06_dbeta_is_minus_score :
  forall (f : family) (x y w : list R) (off : option (list R)) (n p : nat) (beta : list R) (q : quantities),
    wf_data x y w off n p -> length beta = p ->
    at_coef RO f x n p off beta = Some q ->
    exists db, compute_dbeta RO x y (q_mu q) (q_dmu q) (q_var q) w = Some db /\ length db = p /\
      forall j, (j < p)%nat -> nth j db 0 = - score f x n p y w (offs off) beta j.
Proof. exact dbeta_is_minus_score. Qed.

(** information matrix = Fisher information *)
Theorem C06_ddbeta_is_fisher :
  forall (f : family) (x y w : list R) (off : option (list R)) (n p : nat) (beta : list R) (q : quantities),
    wf_data x y w off n p -> length beta = p ->
    at_coef RO f x n p off beta = Some q ->
    exists dd, compute_ddbeta RO x (q_dmu q) (q_var q) w = Some dd /\ length dd = (p * p)%nat /\
      forall j k, (j < p)%nat -> (k < p)%nat -> nth (j * p + k) dd 0 = fisher f x n p w (offs off) beta j k.
Proof. exact ddbeta_is_fisher. Qed.

(** the system handed to the linear solver: rhs = minus the penalised score (strength alpha, intercept
    unpenalised), matrix = Fisher information + alpha on the non-intercept diagonal *)
Theorem C06_newton_system :
  forall (f : family) (alpha : R) (x y w : list R) (off : option (list R)) (n p : nat) (beta : list R) (q : quantities),
    wf_data x y w off n p -> length beta = p -> 0 <= alpha ->
    at_coef RO f x n p off beta = Some q ->
    exists a b, newton_system RO alpha x y p w beta q = Some (a, b) /\
      length a = (p * p)%nat /\ length b = p /\
      (forall j, (j < p)%nat -> nth j b 0 = - penalised_score f x n p y w (offs off) alpha beta j) /\
      (forall j k, (j < p)%nat -> (k < p)%nat ->
         nth (j * p + k) a 0 = penalised_fisher f x n p w (offs off) alpha beta j k).
Proof. exact newton_system_spec. Qed.

(** a fixed point of the scoring step satisfies the penalised score equations *)
Theorem C06_fixed_point_is_penalised_mle :
  forall (solve : list R -> list R -> option (list R)),
    (forall a b s, solve a b = Some s ->
       length s = length b /\ forall j, (j < length b)%nat -> matvec a (length b) s j = nth j b 0) ->
  forall (f : family) (alpha tol : R) (x y w : list R) (off : option (list R)) (n p : nat),
    wf_data x y w off n p -> 0 <= alpha ->
  forall (beta : list R) (pdev : option R) (pd : R) (conv : bool) (q : quantities),
    length beta = p ->
    step RO solve f alpha tol x y n p w off beta pdev = Some (beta, pd, conv, q) ->
    forall j, (j < p)%nat -> penalised_score f x n p y w (offs off) alpha beta j = 0.
Proof. exact fixed_point_is_penalised_mle. Qed.

(** conversely, where the penalised score vanishes and the penalised information is nonsingular the step does not move *)
Theorem C06_penalised_mle_is_fixed_point :
  forall (solve : list R -> list R -> option (list R)),
    (forall a b s, solve a b = Some s ->
       length s = length b /\ forall j, (j < length b)%nat -> matvec a (length b) s j = nth j b 0) ->
  forall (f : family) (alpha tol : R) (x y w : list R) (off : option (list R)) (n p : nat),
    wf_data x y w off n p -> 0 <= alpha ->
  forall (beta : list R) (pdev : option R) (beta' : list R) (pd : R) (conv : bool) (q : quantities),
    length beta = p ->
    (forall v, length v = p ->
       (forall j, (j < p)%nat ->
          bigsum (fun k => penalised_fisher f x n p w (offs off) alpha beta j k * nth k v 0) p = 0) ->
       forall k, (k < p)%nat -> nth k v 0 = 0) ->
    (forall j, (j < p)%nat -> penalised_score f x n p y w (offs off) alpha beta j = 0) ->
    step RO solve f alpha tol x y n p w off beta pdev = Some (beta', pd, conv, q) ->
    beta' = beta.
Proof. exact penalised_mle_is_fixed_point. Qed.

(** Gaussian family: every iterate solves the (weighted, ridge) least-squares normal equations
    (X^T W X + alpha I') beta' = X^T W (y - offset), I' = identity without the intercept entry *)
Theorem C06_gaussian_is_ridge_wls :
  forall (solve : list R -> list R -> option (list R)),
    (forall a b s, solve a b = Some s ->
       length s = length b /\ forall j, (j < length b)%nat -> matvec a (length b) s j = nth j b 0) ->
  forall (f : family) (alpha tol : R) (x y w : list R) (off : option (list R)) (n p : nat),
    wf_data x y w off n p -> 0 <= alpha ->
  forall (beta : list R) (pdev : option R) (beta' : list R) (pd : R) (conv : bool) (q : quantities),
    f = Gaussian -> length beta = p ->
    step RO solve f alpha tol x y n p w off beta pdev = Some (beta', pd, conv, q) ->
    forall j, (j < p)%nat ->
      bigsum (fun k => (bigsum (fun i => X x p i j * (nth i w 0 * X x p i k)) n
                        + (if (1 <=? j)%nat && (j =? k)%nat then alpha else 0)) * nth k beta' 0) p
      = bigsum (fun i => X x p i j * (nth i w 0 * (nth i y 0 - offs off i))) n.
Proof. exact gaussian_step_is_ridge_wls. Qed.

(** the loop (any carrier, any inner solver): it stops at the first iteration whose convergence test
    succeeds or when the budget is exhausted; the flag returned ([Ok] / [Err]) is the test of the last executed
    iteration; every earlier test failed *)
Theorem C06_fit_loop_spec :
  forall (T : Type) (O : Ops T) (solve : list T -> list T -> option (list T))
         (f : family) (alpha tol : T) (x y : list T) (n p : nat) (w : list T) (off : option (list T))
         (fuel : nat) (c0 : list T) (pd0 : option T) (conv : bool) (coef : list T) (q : quantities),
    fit_loop O solve f alpha tol x y n p w off fuel c0 pd0 = Some (conv, coef, q) ->
    exists k c pd pd',
      (k <= fuel)%nat /\ run O solve f alpha tol x y n p w off k c0 pd0 = Some (c, pd) /\
      step O solve f alpha tol x y n p w off c pd = Some (coef, pd', conv, q) /\
      conv = has_converged O pd' pd tol /\
      (conv = false -> k = fuel) /\
      (forall j, (j < k)%nat -> exists cj pdj cj' pdj' qj,
          run O solve f alpha tol x y n p w off j c0 pd0 = Some (cj, pdj) /\
          step O solve f alpha tol x y n p w off cj pdj = Some (cj', pdj', false, qj)).
Proof. exact @fit_loop_spec. Qed.

(** [fit] = Ok  =>  the relative change of the penalised deviance between the last two iterations is below
    the tolerance, and the stored deviance is the (weighted) deviance at the means the last step started from.
    RESTATED for the repaired code (fix 877a7e1): the last conjunct used to read
    [deviance RO f y (q_mu q) = Some (f_dev ft)], the UNWEIGHTED deviance of a possibly weighted fit, which was the
    recorded defect; it now names [weighted_deviance] at the fit's weights (= the family's deviance when there are no
    weights: C06_unit_weights_deviance_unchanged; = sum_i w_i d(y_i, mu_i): C06_weighted_deviance_formula).  The
    penalised deviances [pd'], [lp] compared by the test are those of [step], now weighted too
    (C06_step_penalised_deviance_weighted). *)
Theorem C06_ok_implies_converged :
  forall (solve : list R -> list R -> option (list R)) (f : family) (alpha tol : R) (w off : option (list R))
         (x y : list R) (max_iter : nat) (ft : fitted),
    fit RO solve f alpha tol w off x y max_iter = Some ft -> f_ok ft = true ->
    exists p k c lp pd' q,
      is_matrix (length x) (length y) = Some p /\ (k <= max_iter - 1)%nat /\
      run RO solve f alpha tol x y (length y) p (weights_of RO w (length y)) off k (initial_coef RO y p) None = Some (c, Some lp) /\
      step RO solve f alpha tol x y (length y) p (weights_of RO w (length y)) off c (Some lp) = Some (f_coef ft, pd', true, q) /\
      Rabs (pd' - lp) / lp < tol /\
      weighted_deviance RO f y (q_mu q) (weights_of RO w (length y)) = Some (f_dev ft).
Proof. exact fit_ok_implies_converged. Qed.

(** [fit] = Err  =>  all [max(1, max_iter)] iterations were executed and the criterion failed at the last one *)
Theorem C06_not_converged_is_err :
  forall (solve : list R -> list R -> option (list R)) (f : family) (alpha tol : R) (w off : option (list R))
         (x y : list R) (max_iter : nat) (ft : fitted),
    fit RO solve f alpha tol w off x y max_iter = Some ft -> f_ok ft = false ->
    exists p c pd pd' q,
      is_matrix (length x) (length y) = Some p /\
      run RO solve f alpha tol x y (length y) p (weights_of RO w (length y)) off (max_iter - 1) (initial_coef RO y p) None = Some (c, pd) /\
      step RO solve f alpha tol x y (length y) p (weights_of RO w (length y)) off c pd = Some (f_coef ft, pd', false, q) /\
      (forall lp, pd = Some lp -> ~ Rabs (pd' - lp) / lp < tol).
Proof. exact fit_err_iff_not_converged. Qed.

(** a budget of 0 or 1 iterations always reports Err (any carrier: also on binary64) *)
Theorem C06_small_budget_is_err :
  forall (T : Type) (O : Ops T) (solve : list T -> list T -> option (list T)) (f : family) (alpha tol : T)
         (w off : option (list T)) (x y : list T) (max_iter : nat) (ft : fitted),
    (max_iter <= 1)%nat -> fit O solve f alpha tol w off x y max_iter = Some ft -> f_ok ft = false.
Proof. exact @fit_small_budget_is_err. Qed.

(** what [fit] stores (any carrier).  RESTATED for the repaired code (fix 877a7e1): the deviance conjunct used to
    read [deviance O f y (q_mu q) = Some (f_dev ft)] (unweighted: the recorded defect); it is now the weighted
    deviance at the fit's weights.  The stored n is pinned in C06_fit_stores_n. *)
Theorem C06_fit_stores :
  forall (T : Type) (O : Ops T) (solve : list T -> list T -> option (list T)) (f : family) (alpha tol : T)
         (w off : option (list T)) (x y : list T) (max_iter : nat) (ft : fitted),
    fit O solve f alpha tol w off x y max_iter = Some ft ->
    exists p q,
      is_matrix (length x) (length y) = Some p /\
      is_design O x (length y) = Some true /\
      length (weights_of O w (length y)) = length y /\
      fit_loop O solve f alpha tol x y (length y) p (weights_of O w (length y)) off (max_iter - 1)
               (initial_coef O y p) None = Some (f_ok ft, f_coef ft, q) /\
      weighted_deviance O f y (q_mu q) (weights_of O w (length y)) = Some (f_dev ft) /\
      compute_ddbeta O x (q_dmu q) (q_var q) (weights_of O w (length y)) = Some (f_info ft) /\
      f_p ft = p.
Proof. exact @fit_inv. Qed.

(** deviance of each family = sum of the unit deviances (Gaussian: residual sum of squares) *)
Theorem C06_deviance_formula :
  forall (f : family) (y mu : list R) (d : R),
    deviance RO f y mu = Some d ->
    (f = Poisson \/ f = QuasiPoisson ->
       forall i, (i < length y)%nat -> nth i y 0 = 0 \/ (0 < nth i y 0 /\ 0 < nth i mu 0)) ->
    length y = length mu /\ d = family_deviance f (length y) y (fun i => nth i mu 0).
Proof. exact deviance_formula. Qed.

Theorem C06_penalized_deviance_formula :
  forall (f : family) (y mu : list R) (alpha b0 : R) (beta : list R) (d : R),
    penalized_deviance RO f y mu alpha (b0 :: beta) = Some d ->
    exists dv, deviance RO f y mu = Some dv /\
               d = dv + alpha * bigsum (fun j => nth j beta 0 * nth j beta 0) (length beta).
Proof. exact penalized_deviance_formula. Qed.

Theorem C06_dispersion_formula :
  forall (f : family) (ft : fitted) (d : R),
    dispersion RO f ft = Some d ->
    (has_dispersion f = true -> (Z.of_nat (f_p ft) <= f_n ft)%Z /\ d = f_dev ft / IZR (f_n ft - Z.of_nat (f_p ft))) /\
    (has_dispersion f = false -> d = 1).
Proof. exact dispersion_formula. Qed.

(** standard errors = square roots of the diagonal of dispersion x inverse information *)
Theorem C06_stderr_formula :
  forall (inv : list R -> option (list R)),
    (forall a ai m, length a = (m * m)%nat -> inv a = Some ai ->
       length ai = (m * m)%nat /\
       forall j k, (j < m)%nat -> (k < m)%nat ->
         bigsum (fun l => nth (j * m + l) a 0 * nth (l * m + k) ai 0) m = if (j =? k)%nat then 1 else 0) ->
  forall (f : family) (ft : fitted) (se : list R),
    length (f_info ft) = (f_p ft * f_p ft)%nat ->
    coef_standard_error RO inv f ft = Some se ->
    exists disp iv,
      dispersion RO f ft = Some disp /\ inv (f_info ft) = Some iv /\ length iv = (f_p ft * f_p ft)%nat /\
      (forall j k, (j < f_p ft)%nat -> (k < f_p ft)%nat ->
         bigsum (fun l => nth (j * f_p ft + l) (f_info ft) 0 * nth (l * f_p ft + k) iv 0) (f_p ft)
         = if (j =? k)%nat then 1 else 0) /\
      length se = f_p ft /\
      forall j, (j < f_p ft)%nat -> nth j se 0 = R_sqrt.sqrt (disp * nth (j * f_p ft + j) iv 0).
Proof. exact stderr_formula. Qed.

Theorem C06_aic_bic_formula :
  forall ft : fitted (T:=R),
    aic RO ft = f_dev ft + 2 * INR (f_p ft) /\ bic RO ft = f_dev ft + INR (f_p ft) * ln (IZR (f_n ft)).
Proof. exact aic_bic_formula. Qed.

(** predictions = inverse link of x.beta + offset *)
Theorem C06_predict_formula :
  forall (f : family) (off : option (list R)) (ft : fitted) (xnew pr : list R),
    length (f_coef ft) = f_p ft ->
    predict RO f off ft xnew = Some pr ->
    exists m, length xnew = (m * f_p ft)%nat /\ length pr = m /\
      forall i, (i < m)%nat ->
        nth i pr 0 = mean_fn f (bigsum (fun k => X xnew (f_p ft) i k * nth k (f_coef ft) 0) (f_p ft) + offs off i).
Proof. exact predict_formula. Qed.

(** reordering the observations changes neither the gradient, nor the information matrix, nor the deviance *)
Theorem C06_row_permutation_invariant :
  forall (x y mu dmu var w : list R) (n p : nat) (sigma : list nat),
    Permutation sigma (seq 0 n) -> (0 < n)%nat -> (0 < p)%nat -> length x = (n * p)%nat ->
    length y = n -> length mu = n -> length dmu = n -> length var = n -> length w = n ->
    compute_dbeta RO (permute_rows x p sigma) (permute y sigma) (permute mu sigma) (permute dmu sigma)
                  (permute var sigma) (permute w sigma) = compute_dbeta RO x y mu dmu var w /\
    compute_ddbeta RO (permute_rows x p sigma) (permute dmu sigma) (permute var sigma) (permute w sigma)
      = compute_ddbeta RO x dmu var w /\
    forall f, deviance RO f (permute y sigma) (permute mu sigma) = deviance RO f y mu.
Proof. exact row_permutation_invariant. Qed.

(** family tables: the tabulated derivative is the derivative of the tabulated inverse link, and the
    regenerated [has_dispersion] marks exactly Gaussian, QuasiPoisson, Gamma *)
Theorem C06_d_inv_link_is_derivative :
  forall (f : family) (eta : R), derivable_pt_lim (mean_fn f) eta (d_inv_link1 RO f eta (inv_link1 RO f eta)).
Proof. exact d_inv_link_is_derivative. Qed.

Theorem C06_has_dispersion_table :
  forall f : family, has_dispersion f = true <-> (f = Gaussian \/ f = QuasiPoisson \/ f = Gamma).
Proof. exact has_dispersion_spec. Qed.

(** ** composed with C01: the inner routines are C01's models of [solve] / [invert_matrix]; nothing is
    assumed about them.  Data condition, written out in each statement: the penalised information matrix at
    the iterate has a left inverse  (exists c, c.(I(beta) + alpha I') = identity). *)

(** the penalised information matrix is exactly symmetric (so both routes of C01's [solve] are covered) *)
Theorem C06_penalised_fisher_symmetric :
  forall (f : family) (x : list R) (n p : nat) (w : list R) (off : nat -> R) (alpha : R) (beta : list R) (j k : nat),
    penalised_fisher f x n p w off alpha beta j k = penalised_fisher f x n p w off alpha beta k j.
Proof. exact penalised_fisher_sym. Qed.

(** at an iterate with nonsingular penalised information C01's [solve] RETURNS on the Newton system, and
    returns THE solution *)
Theorem C06_newton_system_solved_composed :
  forall (f : family) (alpha : R) (x y w : list R) (off : option (list R)) (n p : nat) (beta : list R) (q : quantities),
    wf_data x y w off n p -> 0 <= alpha -> length beta = p ->
    at_coef RO f x n p off beta = Some q ->
    (exists c : list R, forall i j, (i < p)%nat -> (j < p)%nat ->
       bigsum (fun l => nth (i * p + l) c 0 * penalised_fisher f x n p w (offs off) alpha beta l j) p
       = if (i =? j)%nat then 1 else 0) ->
    exists a b s,
      newton_system RO alpha x y p w beta q = Some (a, b) /\ length a = (p * p)%nat /\ length b = p /\
      slice_solve RO a b = Some s /\ length s = p /\
      (forall j, (j < p)%nat -> matvec a p s j = nth j b 0) /\
      (forall s', length s' = p -> (forall j, (j < p)%nat -> matvec a p s' j = nth j b 0) -> s' = s).
Proof. intros f alpha x y w off n p beta q W Ha. exact (newton_solved f alpha x y w off n p W Ha beta q). Qed.

(** one pass of the loop body IS the Fisher-scoring update:
    (information + ridge).(beta - beta') = - penalised score, row by row *)
Theorem C06_step_is_fisher_scoring_composed :
  forall (f : family) (alpha tol : R) (x y w : list R) (off : option (list R)) (n p : nat),
    wf_data x y w off n p -> 0 <= alpha ->
  forall (beta : list R) (pdev : option R) (beta' : list R) (pd : R) (conv : bool) (q : quantities),
    length beta = p ->
    (exists c : list R, forall i j, (i < p)%nat -> (j < p)%nat ->
       bigsum (fun l => nth (i * p + l) c 0 * penalised_fisher f x n p w (offs off) alpha beta l j) p
       = if (i =? j)%nat then 1 else 0) ->
    step RO (slice_solve RO) f alpha tol x y n p w off beta pdev = Some (beta', pd, conv, q) ->
    length beta' = p /\
    forall j, (j < p)%nat ->
      bigsum (fun k => penalised_fisher f x n p w (offs off) alpha beta j k * (nth k beta 0 - nth k beta' 0)) p
      = - penalised_score f x n p y w (offs off) alpha beta j.
Proof. exact step_is_fisher_scoring_composed. Qed.

Theorem C06_fixed_point_is_penalised_mle_composed :
  forall (f : family) (alpha tol : R) (x y w : list R) (off : option (list R)) (n p : nat),
    wf_data x y w off n p -> 0 <= alpha ->
  forall (beta : list R) (pdev : option R) (pd : R) (conv : bool) (q : quantities),
    length beta = p ->
    (exists c : list R, forall i j, (i < p)%nat -> (j < p)%nat ->
       bigsum (fun l => nth (i * p + l) c 0 * penalised_fisher f x n p w (offs off) alpha beta l j) p
       = if (i =? j)%nat then 1 else 0) ->
    step RO (slice_solve RO) f alpha tol x y n p w off beta pdev = Some (beta, pd, conv, q) ->
    forall j, (j < p)%nat -> penalised_score f x n p y w (offs off) alpha beta j = 0.
Proof. exact fixed_point_is_penalised_mle_composed. Qed.

Theorem C06_penalised_mle_is_fixed_point_composed :
  forall (f : family) (alpha tol : R) (x y w : list R) (off : option (list R)) (n p : nat),
    wf_data x y w off n p -> 0 <= alpha ->
  forall (beta : list R) (pdev : option R) (beta' : list R) (pd : R) (conv : bool) (q : quantities),
    length beta = p ->
    (exists c : list R, forall i j, (i < p)%nat -> (j < p)%nat ->
       bigsum (fun l => nth (i * p + l) c 0 * penalised_fisher f x n p w (offs off) alpha beta l j) p
       = if (i =? j)%nat then 1 else 0) ->
    (forall j, (j < p)%nat -> penalised_score f x n p y w (offs off) alpha beta j = 0) ->
    step RO (slice_solve RO) f alpha tol x y n p w off beta pdev = Some (beta', pd, conv, q) ->
    beta' = beta.
Proof. exact penalised_mle_is_fixed_point_composed. Qed.

Theorem C06_gaussian_is_ridge_wls_composed :
  forall (f : family) (alpha tol : R) (x y w : list R) (off : option (list R)) (n p : nat),
    wf_data x y w off n p -> 0 <= alpha ->
  forall (beta : list R) (pdev : option R) (beta' : list R) (pd : R) (conv : bool) (q : quantities),
    f = Gaussian -> length beta = p ->
    (exists c : list R, forall i j, (i < p)%nat -> (j < p)%nat ->
       bigsum (fun l => nth (i * p + l) c 0 * penalised_fisher f x n p w (offs off) alpha beta l j) p
       = if (i =? j)%nat then 1 else 0) ->
    step RO (slice_solve RO) f alpha tol x y n p w off beta pdev = Some (beta', pd, conv, q) ->
    forall j, (j < p)%nat ->
      bigsum (fun k => (bigsum (fun i => X x p i j * (nth i w 0 * X x p i k)) n
                        + (if (1 <=? j)%nat && (j =? k)%nat then alpha else 0)) * nth k beta' 0) p
      = bigsum (fun i => X x p i j * (nth i w 0 * (nth i y 0 - offs off i))) n.
Proof. exact gaussian_step_is_ridge_wls_composed. Qed.

(** the information matrix stored by [fit] (any inner solver) is p x p and exactly symmetric *)
Theorem C06_fit_info_symmetric :
  forall (solve : list R -> list R -> option (list R)) (f : family) (alpha tol : R) (w off : option (list R))
         (x y : list R) (max_iter : nat) (ft : fitted),
    fit RO solve f alpha tol w off x y max_iter = Some ft -> (0 < f_p ft)%nat ->
    length (f_info ft) = (f_p ft * f_p ft)%nat /\
    forall j k, (j < f_p ft)%nat -> (k < f_p ft)%nat ->
      nth (j * f_p ft + k) (f_info ft) 0 = nth (k * f_p ft + j) (f_info ft) 0.
Proof. exact fit_info_symmetric. Qed.

(** standard errors with C01's [invert_matrix]: a symmetric information matrix with a left inverse is
    inverted, and the standard errors are the square roots of dispersion x diagonal of that inverse *)
Theorem C06_stderr_composed :
  forall (f : family) (ft : fitted) (disp : R),
    (0 < f_p ft)%nat -> length (f_info ft) = (f_p ft * f_p ft)%nat ->
    (forall j k, (j < f_p ft)%nat -> (k < f_p ft)%nat ->
       nth (j * f_p ft + k) (f_info ft) 0 = nth (k * f_p ft + j) (f_info ft) 0) ->
    (exists c : list R, forall i j, (i < f_p ft)%nat -> (j < f_p ft)%nat ->
       bigsum (fun l => nth (i * f_p ft + l) c 0 * nth (l * f_p ft + j) (f_info ft) 0) (f_p ft)
       = if (i =? j)%nat then 1 else 0) ->
    dispersion RO f ft = Some disp ->
    exists iv se,
      slice_invert RO (f_info ft) = Some iv /\ length iv = (f_p ft * f_p ft)%nat /\
      (forall j k, (j < f_p ft)%nat -> (k < f_p ft)%nat ->
         bigsum (fun l => nth (j * f_p ft + l) (f_info ft) 0 * nth (l * f_p ft + k) iv 0) (f_p ft)
         = if (j =? k)%nat then 1 else 0) /\
      coef_standard_error RO (slice_invert RO) f ft = Some se /\ length se = f_p ft /\
      forall j, (j < f_p ft)%nat -> nth j se 0 = R_sqrt.sqrt (disp * nth (j * f_p ft + j) iv 0).
Proof. exact stderr_composed. Qed.

(** the data condition is satisfiable: intercept-only Gaussian model on three observations *)
Theorem C06_example_composed :
  exists c : list R, forall i j, (i < 1)%nat -> (j < 1)%nat ->
    bigsum (fun l => nth (i * 1 + l) c 0 * penalised_fisher Gaussian [1; 1; 1] 3 1 [1; 1; 1] (offs None) 0 [0] l j) 1
    = if (i =? j)%nat then 1 else 0.
Proof. exact info_nonsingular_instance. Qed.

(** ** prior weights: the deviance of a weighted fit (the repaired code, fix 877a7e1).
    [GLM::weighted_deviance] = sum_i w_i * d_i where the unit deviance d_i is obtained through the existing
    [ExponentialFamily::deviance] on the single observation i; unit weights take the family's deviance of the whole
    sample.  Proofs in Proofs/C06_weighted.v. *)

(** the model's unit deviance IS the family's deviance of one observation (any carrier, hence on binary64) *)
Theorem C06_unit_deviance_is_deviance_of_one_observation :
  forall (T : Type) (O : Ops T) (f : family) (yi mi : T), deviance O f [yi] [mi] = Some (unit_dev O f yi mi).
Proof. exact @unit_dev_singleton. Qed.

(** every family arm is additive over the observations, so the route through single observations is exact:
    deviance(y, mu) = sum_i deviance([y_i], [mu_i])  (no domain condition: the code's own summands) *)
Theorem C06_deviance_additive_over_observations :
  forall (f : family) (y mu : list R),
    length y = length mu ->
    deviance RO f y mu = Some (bigsum (fun i => unit_dev RO f (nth i y 0) (nth i mu 0)) (length y)).
Proof. exact deviance_additive. Qed.

(** the code's unit deviance is the textbook unit deviance d(y, mu) *)
Theorem C06_unit_deviance_formula :
  forall (f : family) (yi mi : R),
    (f = Poisson \/ f = QuasiPoisson -> yi = 0 \/ (0 < yi /\ 0 < mi)) ->
    unit_dev RO f yi mi = unit_deviance f yi mi.
Proof. exact unit_dev_R. Qed.

(** the weighted deviance is sum_i w_i d(y_i, mu_i), whatever branch the code took (unit weights or not) *)
Theorem C06_weighted_deviance_formula :
  forall (f : family) (y mu w : list R) (d : R),
    weighted_deviance RO f y mu w = Some d -> length w = length y ->
    (f = Poisson \/ f = QuasiPoisson ->
       forall i, (i < length y)%nat -> nth i y 0 = 0 \/ (0 < nth i y 0 /\ 0 < nth i mu 0)) ->
    d = bigsum (fun i => nth i w 0 * unit_deviance f (nth i y 0) (nth i mu 0)) (length y).
Proof. exact weighted_deviance_formula. Qed.

(** acceptance half: it returns on data of matching lengths *)
Theorem C06_weighted_deviance_total :
  forall (f : family) (y mu w : list R),
    length mu = length y -> length w = length y -> exists d, weighted_deviance RO f y mu w = Some d.
Proof. exact weighted_deviance_total. Qed.

(** without weights ([fit] uses a vector of ones) or with explicit unit weights, the deviance and the penalised
    deviance are the family's own, by the same call as before the fix (any carrier on which 1 == 1, in particular
    binary64: the unweighted path is unchanged bit for bit) *)
Theorem C06_unit_weights_deviance_unchanged :
  forall (T : Type) (O : Ops T) (f : family) (y mu : list T) (n : nat) (alpha : T) (coef : list T),
    eqb O (one O) (one O) = true ->
    weighted_deviance O f y mu (repeat (one O) n) = deviance O f y mu /\
    weighted_penalized_deviance O f y mu (repeat (one O) n) alpha coef = penalized_deviance O f y mu alpha coef.
Proof.
  intros T O f y mu n alpha coef E. split.
  - exact (weighted_deviance_unweighted O f y mu n E).
  - exact (weighted_penalized_deviance_unweighted O f y mu n alpha coef E).
Qed.

(** the hypothesis holds on binary64 (any libm table) and on the reals *)
Theorem C06_one_eq_one_binary64 : forall tbl, eqb (FO tbl) (one (FO tbl)) (one (FO tbl)) = true.
Proof. exact one_eqb_one_FO. Qed.
Theorem C06_one_eq_one_R : eqb RO (one RO) (one RO) = true.
Proof. exact one_eqb_one_RO. Qed.

(** explicit unit weights are the same fit as no weights (any carrier) *)
Theorem C06_unit_weights_same_fit_as_none :
  forall (T : Type) (O : Ops T) (solve : list T -> list T -> option (list T)) (f : family) (alpha tol : T)
         (off : option (list T)) (x y : list T) (max_iter : nat),
    fit O solve f alpha tol (Some (repeat (one O) (length y))) off x y max_iter
    = fit O solve f alpha tol None off x y max_iter.
Proof. exact @unit_weights_same_fit. Qed.

(** the penalised deviance used by the stopping rule: weighted deviance + alpha sum_{j>=1} beta_j^2 *)
Theorem C06_weighted_penalized_deviance_formula :
  forall (f : family) (y mu w : list R) (alpha b0 : R) (beta : list R) (d : R),
    weighted_penalized_deviance RO f y mu w alpha (b0 :: beta) = Some d ->
    exists dv, weighted_deviance RO f y mu w = Some dv /\
               d = dv + alpha * bigsum (fun j => nth j beta 0 * nth j beta 0) (length beta).
Proof. exact weighted_penalized_deviance_formula. Qed.

(** one pass of the loop body (any inner solver): the value [pd] the stopping rule compares is the WEIGHTED deviance
    at the means the step started from plus the ridge penalty at the new coefficients *)
Theorem C06_step_penalised_deviance_weighted :
  forall (solve : list R -> list R -> option (list R)) (f : family) (alpha tol : R) (x y : list R) (n p : nat)
         (w : list R) (off : option (list R)) (beta : list R) (pdev : option R) (beta' : list R) (pd : R)
         (conv : bool) (q : quantities),
    step RO solve f alpha tol x y n p w off beta pdev = Some (beta', pd, conv, q) ->
    length (q_mu q) = length y /\
    exists dv b0 rest,
      beta' = b0 :: rest /\ weighted_deviance RO f y (q_mu q) w = Some dv /\
      pd = dv + alpha * bigsum (fun j => nth j rest 0 * nth j rest 0) (length rest).
Proof. exact step_penalised_deviance. Qed.

(** the stored n = round(sum of the weights) clamped at 0 ([as usize]) (any carrier) *)
Theorem C06_fit_stores_n :
  forall (T : Type) (O : Ops T) (solve : list T -> list T -> option (list T)) (f : family) (alpha tol : T)
         (w off : option (list T)) (x y : list T) (max_iter : nat) (ft : fitted),
    fit O solve f alpha tol w off x y max_iter = Some ft ->
    f_n ft = Z.max 0 (truncZ O (f1 O Round (sum O (weights_of O w (length y))))).
Proof. exact @fit_stores_n. Qed.

(** the deviance stored by [fit] is sum_i w_i d(y_i, mu_i) at the means the last step started from (w_i = 1 without
    weights); Poisson's domain condition is discharged: the fitted means are positive, counts need only be >= 0 *)
Theorem C06_fit_deviance_is_weighted_sum :
  forall (solve : list R -> list R -> option (list R)) (f : family) (alpha tol : R) (w off : option (list R))
         (x y : list R) (max_iter : nat) (ft : fitted),
    fit RO solve f alpha tol w off x y max_iter = Some ft ->
    (f = Poisson \/ f = QuasiPoisson -> forall i, (i < length y)%nat -> 0 <= nth i y 0) ->
    exists p q,
      fit_loop RO solve f alpha tol x y (length y) p (weights_of RO w (length y)) off (max_iter - 1)
               (initial_coef RO y p) None = Some (f_ok ft, f_coef ft, q) /\
      length (q_mu q) = length y /\
      f_dev ft = bigsum (fun i => nth i (weights_of RO w (length y)) 0
                                  * unit_deviance f (nth i y 0) (nth i (q_mu q) 0)) (length y).
Proof. exact fit_deviance_is_weighted_sum. Qed.

(** dispersion, covariance, standard errors, AIC, BIC read the stored deviance: for any record whose deviance field
    holds the weighted deviance D = sum_i w_i d(y_i, mu_i) they are D / (n - p), dispersion x inverse information,
    its diagonal's square roots, D + 2p, D + p ln n *)
Theorem C06_inference_uses_weighted_deviance :
  forall (f : family) (y mu w : list R) (ft : fitted),
    weighted_deviance RO f y mu w = Some (f_dev ft) -> length w = length y ->
    (f = Poisson \/ f = QuasiPoisson ->
       forall i, (i < length y)%nat -> nth i y 0 = 0 \/ (0 < nth i y 0 /\ 0 < nth i mu 0)) ->
    let D := bigsum (fun i => nth i w 0 * unit_deviance f (nth i y 0) (nth i mu 0)) (length y) in
    aic RO ft = D + 2 * INR (f_p ft) /\
    bic RO ft = D + INR (f_p ft) * ln (IZR (f_n ft)) /\
    (forall d, dispersion RO f ft = Some d ->
       (has_dispersion f = true -> (Z.of_nat (f_p ft) <= f_n ft)%Z /\ d = D / IZR (f_n ft - Z.of_nat (f_p ft))) /\
       (has_dispersion f = false -> d = 1)) /\
    (forall inv c, coef_covariance_matrix RO inv f ft = Some c ->
       exists disp iv, dispersion RO f ft = Some disp /\ inv (f_info ft) = Some iv /\ c = map (Rmult disp) iv) /\
    (forall inv se, coef_standard_error RO inv f ft = Some se ->
       exists c dg, coef_covariance_matrix RO inv f ft = Some c /\ diag RO c = Some dg /\ se = map R_sqrt.sqrt dg).
Proof. exact inference_uses_weighted_deviance. Qed.

(** ** frequency weights = replicated observations ([replicate k v]: entry i of v repeated k_i times) *)

(** deviance: with integer weights k the weighted deviance IS the family's unweighted deviance of the replicated
    data at the replicated means (same definedness, same value; no domain condition) *)
Theorem C06_frequency_weights_deviance :
  forall (f : family) (k : list nat) (y mu : list R),
    length y = length k -> length mu = length k ->
    weighted_deviance RO f y mu (map INR k) = deviance RO f (replicate k y) (replicate k mu).
Proof. exact frequency_weights_deviance. Qed.

(** the sum of the frequencies is the number of replicated rows (so n = round(sum w) is that number) *)
Theorem C06_frequency_weights_n :
  forall (A : Type) (k : list nat) (v : list A),
    length v = length k -> sum RO (map INR k) = INR (length (replicate k v)).
Proof. exact @sum_frequency_weights. Qed.

(** dispersion, AIC, BIC: a record holding the weighted deviance and n = sum of the frequencies gives what a record
    holding the deviance of the replicated data and n = its number of rows gives *)
Theorem C06_frequency_weights_inference :
  forall (f : family) (k : list nat) (y mu : list R) (ft ft' : fitted),
    length y = length k -> length mu = length k ->
    weighted_deviance RO f y mu (map INR k) = Some (f_dev ft) -> IZR (f_n ft) = sum RO (map INR k) ->
    deviance RO f (replicate k y) (replicate k mu) = Some (f_dev ft') -> f_n ft' = Z.of_nat (length (replicate k y)) ->
    f_p ft = f_p ft' ->
    f_dev ft = f_dev ft' /\ f_n ft = f_n ft' /\
    dispersion RO f ft = dispersion RO f ft' /\ aic RO ft = aic RO ft' /\ bic RO ft = bic RO ft'.
Proof. exact frequency_weights_inference. Qed.

(** gradient and information matrix: on the replicated data (row r of [replicate_rows x p k] is row [(rep_index k)_r]
    of x; unit weights) they are those of the original data with weights k, at the same means; together with
    C06_frequency_weights_deviance: the Newton system, the deviance and everything derived from them agree, so the
    penalised score equations and their roots are the same *)
Theorem C06_frequency_weights_gradient_information :
  forall (x y mu dmu var : list R) (k : list nat) (n p : nat),
    (0 < n)%nat -> (0 < p)%nat -> (0 < list_sum k)%nat -> length x = (n * p)%nat ->
    length y = n -> length mu = n -> length dmu = n -> length var = n -> length k = n ->
    compute_dbeta RO (replicate_rows x p k) (replicate k y) (replicate k mu) (replicate k dmu) (replicate k var)
                  (repeat 1 (list_sum k))
    = compute_dbeta RO x y mu dmu var (map INR k) /\
    compute_ddbeta RO (replicate_rows x p k) (replicate k dmu) (replicate k var) (repeat 1 (list_sum k))
    = compute_ddbeta RO x dmu var (map INR k) /\
    length (replicate_rows x p k) = (list_sum k * p)%nat /\
    (forall i j, (i < list_sum k)%nat -> (j < p)%nat ->
       X (replicate_rows x p k) p i j = X x p (nth i (rep_index k) 0%nat) j).
Proof. exact frequency_weights_gradient_information. Qed.

(** ** the whole fit is invariant under a permutation of the observations (proofs in Proofs/C06_fitperm.v)
    Rows of the design, responses, prior weights and offsets permuted together ([permute], [permute_rows] of
    C06_perm.v: observation i of the permuted data is observation sigma_i of the original data).  For every
    family, iteration budget, ridge penalty, tolerance, every (abstract) inner solver, weights / offsets present
    or absent, and also when resuming from any state: the permuted problem returns the SAME result, the same
    [Some] record (Ok/Err flag, coefficients, deviance, information matrix, n, p) or [None] (panic) alike.
    This lifts C06_row_permutation_invariant through the linear predictor, the family tables, the Newton system,
    the (weighted, penalised) deviance, the scoring loop and the entry checks of [fit].  No positivity side
    condition: without observations or without columns both calls panic.  The length conditions on the weights and
    offsets are necessary (a permuted array always has length n). *)
Theorem C06_fit_row_permutation_invariant :
  forall (solve : list R -> list R -> option (list R)) (f : family) (alpha tol : R) (w off : option (list R))
         (x y : list R) (n p : nat) (sigma : list nat) (max_iter : nat) (start : option (list R * R)),
    Permutation sigma (seq 0 n) -> length x = (n * p)%nat -> length y = n ->
    (forall wv, w = Some wv -> length wv = n) -> (forall o, off = Some o -> length o = n) ->
    fit_from RO solve f alpha tol (option_map (fun v => permute v sigma) w) (option_map (fun v => permute v sigma) off)
             (permute_rows x p sigma) (permute y sigma) max_iter start
    = fit_from RO solve f alpha tol w off x y max_iter start.
Proof. exact fit_row_permutation_invariant. Qed.

(** [fit] itself (the loop started from the intercept-only coefficients) *)
Theorem C06_fit_row_permutation_invariant_fit :
  forall (solve : list R -> list R -> option (list R)) (f : family) (alpha tol : R) (w off : option (list R))
         (x y : list R) (n p : nat) (sigma : list nat) (max_iter : nat),
    Permutation sigma (seq 0 n) -> length x = (n * p)%nat -> length y = n ->
    (forall wv, w = Some wv -> length wv = n) -> (forall o, off = Some o -> length o = n) ->
    fit RO solve f alpha tol (option_map (fun v => permute v sigma) w) (option_map (fun v => permute v sigma) off)
        (permute_rows x p sigma) (permute y sigma) max_iter
    = fit RO solve f alpha tol w off x y max_iter.
Proof. exact fit_row_permutation_invariant_fit. Qed.

(** composed with C01: the inner solver is the model of the crate's own [solve] *)
Theorem C06_fit_row_permutation_invariant_composed :
  forall (f : family) (alpha tol : R) (w off : option (list R))
         (x y : list R) (n p : nat) (sigma : list nat) (max_iter : nat),
    Permutation sigma (seq 0 n) -> length x = (n * p)%nat -> length y = n ->
    (forall wv, w = Some wv -> length wv = n) -> (forall o, off = Some o -> length o = n) ->
    fit RO (slice_solve RO) f alpha tol (option_map (fun v => permute v sigma) w)
        (option_map (fun v => permute v sigma) off) (permute_rows x p sigma) (permute y sigma) max_iter
    = fit RO (slice_solve RO) f alpha tol w off x y max_iter.
Proof. exact fit_row_permutation_invariant_composed. Qed.

(** the hypotheses are satisfiable on a non-trivial instance: 3 observations, 2 columns, weights and offsets
    present, a 3-cycle of the rows; the permuted arrays written out *)
Theorem C06_fit_row_permutation_example :
  Permutation [2; 0; 1]%nat (seq 0 3) /\ length [1; 0; 1; 1; 1; 2] = (3 * 2)%nat /\ length [0; 1; 3] = 3%nat /\
  (forall wv, Some [1; 2; 1] = Some wv -> length wv = 3%nat) /\
  (forall o, Some [0; 0; 1] = Some o -> length o = 3%nat) /\
  permute_rows [1; 0; 1; 1; 1; 2] 2 [2; 0; 1]%nat = [1; 2; 1; 0; 1; 1] /\
  permute [0; 1; 3] [2; 0; 1]%nat = [3; 0; 1] /\
  forall solve f alpha tol max_iter start,
    fit_from RO solve f alpha tol (Some [1; 1; 2]) (Some [1; 0; 0]) [1; 2; 1; 0; 1; 1] [3; 0; 1] max_iter start
    = fit_from RO solve f alpha tol (Some [1; 2; 1]) (Some [0; 0; 1]) [1; 0; 1; 1; 1; 2] [0; 1; 3] max_iter start.
Proof. exact fit_row_permutation_example. Qed.

(** ** Tie A, fourth round: the helpers and accessors of [impl GLM] are the source (regenerated from src/predict/glms/glm.rs on
    every run by tools/tiea/glm_loops.py; the element-wise family tables are regenerated by tools/tiea/glm_families.py).  The
    source accumulates in place ([dbeta[i_p] -= ..] inside the [i_n] loop, [weighted_x[i_n * p + i_p] *= ..], [ddbeta[i * p +
    i] += alpha]); the models are written per cell: every index is in bounds and every cell sees the same operations in the
    same order.  Routines of other files are parameters of the generated text, instantiated by their models ([vbin] for the
    element-wise kernels, [is_matrix], [is_design], [matmul], [dot], [diag]; [inv] = [invert_matrix] stays a parameter of the
    model as well).  A method returning [Result<_, &str>] returns an option VALUE inside the option of the panics. *)
From Compute Require Import Base.RsExpr Base.RsExprFour Generated.glm_loops Proofs.TieA_glm_loops.
(** [has_converged]: the source tests [loss_previous.is_infinite()], the model [x == x && x - x != x - x] (and "no previous
    loss" = [None] for the initial [f64::INFINITY]); stated for the values on which the two tests agree *)
Theorem C06_model_is_source_has_converged :
  forall (T : Type) (O : Ops T) (loss lp tol : T), rs_is_infinite O lp = is_inf O lp ->
    src_has_converged O loss lp tol = has_converged O loss (Some lp) tol.
Proof. exact @tiea_has_converged. Qed.
Theorem C06_model_is_source_has_converged_first :
  forall (T : Type) (O : Ops T) (loss tol : T), eqb O (rs_f64_infinity O) (rs_f64_infinity O) = true ->
    src_has_converged O loss (rs_f64_infinity O) tol = has_converged O loss None tol.
Proof. exact @tiea_has_converged_first. Qed.
(** the gradient: the allocation of [dbeta] passes the capacity check ([x] itself is below it) *)
Theorem C06_model_is_source_compute_dbeta :
  forall (T : Type) (O : Ops T) (x y mu dmu var w : list T), (Z.of_nat (length x) <= 1152921504606846975)%Z ->
    src_compute_dbeta O (is_matrix_z (T := T)) (vbin (mul O)) (vbin (sub O)) (vbin (div O)) x y mu dmu var w
    = compute_dbeta O x y mu dmu var w.
Proof. exact @tiea_compute_dbeta. Qed.
Theorem C06_model_is_source_compute_ddbeta :
  forall (T : Type) (O : Ops T) (x dmu var w : list T),
    src_compute_ddbeta O (is_matrix_z (T := T)) (vbin (mul O)) (vbin (div O)) (matmul_z O) x dmu var w = compute_ddbeta O x dmu var w.
Proof. exact @tiea_compute_ddbeta. Qed.
(** the ridge penalties, as called by [fit] ([coef] and [dbeta] of length p, [ddbeta] p x p) *)
Theorem C06_model_is_source_apply_dbeta_penalty :
  forall (T : Type) (O : Ops T) (alpha : T) (dbeta coef : list T), length coef = length dbeta ->
    src_apply_dbeta_penalty O alpha dbeta coef = Some (apply_dbeta_penalty O alpha dbeta coef).
Proof. exact @tiea_apply_dbeta_penalty. Qed.
Theorem C06_model_is_source_apply_ddbeta_penalty :
  forall (T : Type) (O : Ops T) (alpha : T) (ddbeta : list T) (p : nat), length ddbeta = (p * p)%nat ->
    src_apply_ddbeta_penalty O alpha ddbeta (Z.of_nat p) = Some (apply_ddbeta_penalty O alpha ddbeta p).
Proof. exact @tiea_apply_ddbeta_penalty. Qed.
(** the deviance of a fit with prior weights: unit weights take the family's deviance of the whole sample; otherwise
    [weights[i]], [&y[i..i + 1]], [&mu[i..i + 1]] panic exactly when the model says [None] *)
Theorem C06_model_is_source_weighted_deviance :
  forall (T : Type) (O : Ops T) (f : family) (y mu w : list T),
    src_weighted_deviance O (deviance O f) y mu w = weighted_deviance O f y mu w.
Proof. exact @tiea_weighted_deviance. Qed.
Theorem C06_model_is_source_weighted_penalized_deviance :
  forall (T : Type) (O : Ops T) (f : family) (alpha : T) (y mu w coef : list T),
    src_weighted_penalized_deviance O (dot O) (deviance O f) alpha y mu w coef = weighted_penalized_deviance O f y mu w alpha coef.
Proof. exact @tiea_weighted_penalized_deviance. Qed.
(** accessors of a fitted model: the Option-valued fields hold what [fit] stored; before [fit] they return [Err] *)
Theorem C06_model_is_source_aic :
  forall (T : Type) (O : Ops T) (ft : @fitted T),
    src_aic O (Some (f_dev ft)) (Some (Z.of_nat (f_p ft))) = Some (Some (aic O ft)).
Proof. exact @tiea_aic. Qed.
Theorem C06_model_is_source_aic_unfitted :
  forall (T : Type) (O : Ops T) (p : option Z), src_aic O (@None T) p = Some None.
Proof. exact @tiea_aic_unfitted. Qed.
Theorem C06_model_is_source_bic :
  forall (T : Type) (O : Ops T) (ft : @fitted T),
    src_bic O (Some (f_dev ft)) (Some (f_n ft)) (Some (Z.of_nat (f_p ft))) = Some (Some (bic O ft)).
Proof. exact @tiea_bic. Qed.
(** [(n - p) as f64] on [usize]: the release build wraps, the model follows the debug build (panic): equal for [p <= n] *)
Theorem C06_model_is_source_dispersion :
  forall (T : Type) (O : Ops T) (f : family) (ft : @fitted T), (Z.of_nat (f_p ft) <= f_n ft)%Z \/ has_dispersion f = false ->
    src_dispersion O (has_dispersion f) (Some (f_dev ft)) (Some (f_n ft)) (Some (Z.of_nat (f_p ft))) = option_map Some (dispersion O f ft).
Proof. exact @tiea_dispersion. Qed.
Theorem C06_model_is_source_coef_covariance_matrix :
  forall (T : Type) (O : Ops T) (inv : list T -> option (list T)) (f : family) (ft : @fitted T),
    (Z.of_nat (f_p ft) <= f_n ft)%Z \/ has_dispersion f = false ->
    src_coef_covariance_matrix O (fun s v => map (mul O s) v) inv (has_dispersion f) (Some (f_dev ft)) (Some (f_info ft)) (Some (f_n ft)) (Some (Z.of_nat (f_p ft)))
    = option_map Some (coef_covariance_matrix O inv f ft).
Proof. exact @tiea_coef_covariance_matrix. Qed.
Theorem C06_model_is_source_coef_standard_error :
  forall (T : Type) (O : Ops T) (inv : list T -> option (list T)) (f : family) (ft : @fitted T),
    (Z.of_nat (f_p ft) <= f_n ft)%Z \/ has_dispersion f = false ->
    src_coef_standard_error O (fun s v => map (mul O s) v) (map (sqrt O)) (diag O) inv (has_dispersion f) (Some (f_dev ft)) (Some (f_info ft)) (Some (f_n ft)) (Some (Z.of_nat (f_p ft)))
    = option_map Some (coef_standard_error O inv f ft).
Proof. exact @tiea_coef_standard_error. Qed.
Theorem C06_model_is_source_predict :
  forall (T : Type) (O : Ops T) (f : family) (off : option (list T)) (ft : @fitted T) (x : list T),
    src_predict O (is_matrix_z (T := T)) (is_design_z O) (vbin (add O)) (matmul_z O) (inv_link O f) off (Some (f_coef ft)) (Some (Z.of_nat (f_p ft))) x
    = option_map Some (predict O f off ft x).
Proof. exact @tiea_predict. Qed.
(** [score]: the family's deviance of the responses against the predictions *)
Theorem C06_model_is_source_score :
  forall (T : Type) (O : Ops T) (f : family) (off : option (list T)) (ft : @fitted T) (x y : list T),
    src_score O (is_matrix_z (T := T)) (is_design_z O) (vbin (add O)) (matmul_z O) (deviance O f) (inv_link O f) off (Some (f_coef ft)) (Some (Z.of_nat (f_p ft))) x y
    = let* mu := predict O f off ft x in deviance O f y mu.
Proof. exact @tiea_score. Qed.
(** on binary64 the two infinity tests are the same function of a double (Flocq: [x - x] is a zero for a finite [x]): the generated
    [has_converged] IS the model's on the carrier the correspondence runs on, for every previous loss *)
From Coq Require Floats.
From Compute Require Import Proofs.TieA_glm_float.
Theorem C06_model_is_source_has_converged_binary64 :
  forall (tbl : libm_table) (loss lp tol : PrimFloat.float),
    src_has_converged (FO tbl) loss lp tol = has_converged (FO tbl) loss (Some lp) tol.
Proof. exact tiea_has_converged_binary64. Qed.
Theorem C06_model_is_source_has_converged_first_binary64 :
  forall (tbl : libm_table) (loss tol : PrimFloat.float),
    src_has_converged (FO tbl) loss PrimFloat.infinity tol = has_converged (FO tbl) loss None tol.
Proof. exact tiea_has_converged_first_binary64. Qed.
