(** * C06 — GLM fitting (Fisher scoring) returns the (ridge-penalised) MLE with correct inference.
    Statements only; proofs in Proofs/C06*.v.  Carrier [RO] (exact arithmetic).  The inner linear routines
    [solve] / [inv] are parameters of the model (like libm); their defining equations appear as explicit
    hypotheses ([solve_ok], [inv_ok]) to be discharged by C01.
    Spec objects ([score], [fisher], [penalised_score], [unit_deviance], ...) are in Spec/GLM.v.

    COMPOSED WITH C01 (last section, theorems [C06_..._composed]; proofs in Proofs/C06_compose.v): [solve] and
    [inv] are instantiated by C01's models of [solve] and [invert_matrix] ([slice_solve], [slice_invert],
    Model/SolveInst.v) and [solve_ok] / [inv_ok] are discharged from C01's theorems.  Those theorems assume
    nothing about the inner routines; what remains is a condition on the data at the iterate: the penalised
    Fisher information matrix (proved exactly symmetric) has a left inverse. *)
From Coq Require Import Reals List Arith ZArith Bool.
From Compute Require Import Base.Ops Base.ListMat Model.Reduce Model.MatMul Model.SolveInst.
From Coq Require Import Permutation.
From Compute Require Import Generated.glm_families Model.GLM Spec.GLM Proofs.C06_base Proofs.C06 Proofs.C06_infer Proofs.C06_perm
  Proofs.C06_compose.
From Compute Require Spec.Factor Spec.Solve.
Import ListNotations.
Open Scope R_scope.

(** gradient = minus the score, for every family, with weights and offsets *)
Theorem C06_dbeta_is_minus_score :
  forall (f : family) (x y w : list R) (off : option (list R)) (n p : nat) (beta : list R) (q : quantities),
    wf_data x y w off n p -> length beta = p ->
    at_coef RO f x n p off beta = Some q ->
    exists db, compute_dbeta RO x y (q_mu q) (q_dmu q) (q_var q) w = Some db /\ length db = p /\
      forall j, (j < p)%nat -> nth j db 0 = - score f x n p y w (offs off) beta j.
Proof. exact dbeta_is_minus_score. Qed.

(** information matrix = Fisher information *)
Theorem C06_ddbeta_is_fisher :
  forall (f : family) (x y w : list R) (off : option (list R)) (n p : nat) (beta : list R) (q : quantities),
    wf_data x y w off n p -> length beta = p ->
    at_coef RO f x n p off beta = Some q ->
    exists dd, compute_ddbeta RO x (q_dmu q) (q_var q) w = Some dd /\ length dd = (p * p)%nat /\
      forall j k, (j < p)%nat -> (k < p)%nat -> nth (j * p + k) dd 0 = fisher f x n p w (offs off) beta j k.
Proof. exact ddbeta_is_fisher. Qed.

(** the system handed to the linear solver: rhs = minus the penalised score (strength alpha, intercept
    unpenalised), matrix = Fisher information + alpha on the non-intercept diagonal *)
Theorem C06_newton_system :
  forall (f : family) (alpha : R) (x y w : list R) (off : option (list R)) (n p : nat) (beta : list R) (q : quantities),
    wf_data x y w off n p -> length beta = p -> 0 <= alpha ->
    at_coef RO f x n p off beta = Some q ->
    exists a b, newton_system RO alpha x y p w beta q = Some (a, b) /\
      length a = (p * p)%nat /\ length b = p /\
      (forall j, (j < p)%nat -> nth j b 0 = - penalised_score f x n p y w (offs off) alpha beta j) /\
      (forall j k, (j < p)%nat -> (k < p)%nat ->
         nth (j * p + k) a 0 = penalised_fisher f x n p w (offs off) alpha beta j k).
Proof. exact newton_system_spec. Qed.

(** a fixed point of the scoring step satisfies the penalised score equations *)
Theorem C06_fixed_point_is_penalised_mle :
  forall (solve : list R -> list R -> option (list R)),
    (forall a b s, solve a b = Some s ->
       length s = length b /\ forall j, (j < length b)%nat -> matvec a (length b) s j = nth j b 0) ->
  forall (f : family) (alpha tol : R) (x y w : list R) (off : option (list R)) (n p : nat),
    wf_data x y w off n p -> 0 <= alpha ->
  forall (beta : list R) (pdev : option R) (pd : R) (conv : bool) (q : quantities),
    length beta = p ->
    step RO solve f alpha tol x y n p w off beta pdev = Some (beta, pd, conv, q) ->
    forall j, (j < p)%nat -> penalised_score f x n p y w (offs off) alpha beta j = 0.
Proof. exact fixed_point_is_penalised_mle. Qed.

(** conversely, where the penalised score vanishes and the penalised information is nonsingular the step does not move *)
Theorem C06_penalised_mle_is_fixed_point :
  forall (solve : list R -> list R -> option (list R)),
    (forall a b s, solve a b = Some s ->
       length s = length b /\ forall j, (j < length b)%nat -> matvec a (length b) s j = nth j b 0) ->
  forall (f : family) (alpha tol : R) (x y w : list R) (off : option (list R)) (n p : nat),
    wf_data x y w off n p -> 0 <= alpha ->
  forall (beta : list R) (pdev : option R) (beta' : list R) (pd : R) (conv : bool) (q : quantities),
    length beta = p ->
    (forall v, length v = p ->
       (forall j, (j < p)%nat ->
          bigsum (fun k => penalised_fisher f x n p w (offs off) alpha beta j k * nth k v 0) p = 0) ->
       forall k, (k < p)%nat -> nth k v 0 = 0) ->
    (forall j, (j < p)%nat -> penalised_score f x n p y w (offs off) alpha beta j = 0) ->
    step RO solve f alpha tol x y n p w off beta pdev = Some (beta', pd, conv, q) ->
    beta' = beta.
Proof. exact penalised_mle_is_fixed_point. Qed.

(** Gaussian family: every iterate solves the (weighted, ridge) least-squares normal equations
    (X^T W X + alpha I') beta' = X^T W (y - offset), I' = identity without the intercept entry *)
Theorem C06_gaussian_is_ridge_wls :
  forall (solve : list R -> list R -> option (list R)),
    (forall a b s, solve a b = Some s ->
       length s = length b /\ forall j, (j < length b)%nat -> matvec a (length b) s j = nth j b 0) ->
  forall (f : family) (alpha tol : R) (x y w : list R) (off : option (list R)) (n p : nat),
    wf_data x y w off n p -> 0 <= alpha ->
  forall (beta : list R) (pdev : option R) (beta' : list R) (pd : R) (conv : bool) (q : quantities),
    f = Gaussian -> length beta = p ->
    step RO solve f alpha tol x y n p w off beta pdev = Some (beta', pd, conv, q) ->
    forall j, (j < p)%nat ->
      bigsum (fun k => (bigsum (fun i => X x p i j * (nth i w 0 * X x p i k)) n
                        + (if (1 <=? j)%nat && (j =? k)%nat then alpha else 0)) * nth k beta' 0) p
      = bigsum (fun i => X x p i j * (nth i w 0 * (nth i y 0 - offs off i))) n.
Proof. exact gaussian_step_is_ridge_wls. Qed.

(** the loop (any carrier, any inner solver): it stops at the first iteration whose convergence test
    succeeds or when the budget is exhausted; the flag returned ([Ok] / [Err]) is the test of the last executed
    iteration; every earlier test failed *)
Theorem C06_fit_loop_spec :
  forall (T : Type) (O : Ops T) (solve : list T -> list T -> option (list T))
         (f : family) (alpha tol : T) (x y : list T) (n p : nat) (w : list T) (off : option (list T))
         (fuel : nat) (c0 : list T) (pd0 : option T) (conv : bool) (coef : list T) (q : quantities),
    fit_loop O solve f alpha tol x y n p w off fuel c0 pd0 = Some (conv, coef, q) ->
    exists k c pd pd',
      (k <= fuel)%nat /\ run O solve f alpha tol x y n p w off k c0 pd0 = Some (c, pd) /\
      step O solve f alpha tol x y n p w off c pd = Some (coef, pd', conv, q) /\
      conv = has_converged O pd' pd tol /\
      (conv = false -> k = fuel) /\
      (forall j, (j < k)%nat -> exists cj pdj cj' pdj' qj,
          run O solve f alpha tol x y n p w off j c0 pd0 = Some (cj, pdj) /\
          step O solve f alpha tol x y n p w off cj pdj = Some (cj', pdj', false, qj)).
Proof. exact @fit_loop_spec. Qed.

(** [fit] = Ok  =>  the relative change of the penalised deviance between the last two iterations is below
    the tolerance, and the stored deviance is the family deviance at the means the last step started from *)
Theorem C06_ok_implies_converged :
  forall (solve : list R -> list R -> option (list R)) (f : family) (alpha tol : R) (w off : option (list R))
         (x y : list R) (max_iter : nat) (ft : fitted),
    fit RO solve f alpha tol w off x y max_iter = Some ft -> f_ok ft = true ->
    exists p k c lp pd' q,
      is_matrix (length x) (length y) = Some p /\ (k <= max_iter - 1)%nat /\
      run RO solve f alpha tol x y (length y) p (weights_of RO w (length y)) off k (initial_coef RO y p) None = Some (c, Some lp) /\
      step RO solve f alpha tol x y (length y) p (weights_of RO w (length y)) off c (Some lp) = Some (f_coef ft, pd', true, q) /\
      Rabs (pd' - lp) / lp < tol /\
      deviance RO f y (q_mu q) = Some (f_dev ft).
Proof. exact fit_ok_implies_converged. Qed.

(** [fit] = Err  =>  all [max(1, max_iter)] iterations were executed and the criterion failed at the last one *)
Theorem C06_not_converged_is_err :
  forall (solve : list R -> list R -> option (list R)) (f : family) (alpha tol : R) (w off : option (list R))
         (x y : list R) (max_iter : nat) (ft : fitted),
    fit RO solve f alpha tol w off x y max_iter = Some ft -> f_ok ft = false ->
    exists p c pd pd' q,
      is_matrix (length x) (length y) = Some p /\
      run RO solve f alpha tol x y (length y) p (weights_of RO w (length y)) off (max_iter - 1) (initial_coef RO y p) None = Some (c, pd) /\
      step RO solve f alpha tol x y (length y) p (weights_of RO w (length y)) off c pd = Some (f_coef ft, pd', false, q) /\
      (forall lp, pd = Some lp -> ~ Rabs (pd' - lp) / lp < tol).
Proof. exact fit_err_iff_not_converged. Qed.

(** a budget of 0 or 1 iterations always reports Err (any carrier: also on binary64) *)
Theorem C06_small_budget_is_err :
  forall (T : Type) (O : Ops T) (solve : list T -> list T -> option (list T)) (f : family) (alpha tol : T)
         (w off : option (list T)) (x y : list T) (max_iter : nat) (ft : fitted),
    (max_iter <= 1)%nat -> fit O solve f alpha tol w off x y max_iter = Some ft -> f_ok ft = false.
Proof. exact @fit_small_budget_is_err. Qed.

(** what [fit] stores (any carrier) *)
Theorem C06_fit_stores :
  forall (T : Type) (O : Ops T) (solve : list T -> list T -> option (list T)) (f : family) (alpha tol : T)
         (w off : option (list T)) (x y : list T) (max_iter : nat) (ft : fitted),
    fit O solve f alpha tol w off x y max_iter = Some ft ->
    exists p q,
      is_matrix (length x) (length y) = Some p /\
      is_design O x (length y) = Some true /\
      length (weights_of O w (length y)) = length y /\
      fit_loop O solve f alpha tol x y (length y) p (weights_of O w (length y)) off (max_iter - 1)
               (initial_coef O y p) None = Some (f_ok ft, f_coef ft, q) /\
      deviance O f y (q_mu q) = Some (f_dev ft) /\
      compute_ddbeta O x (q_dmu q) (q_var q) (weights_of O w (length y)) = Some (f_info ft) /\
      f_p ft = p.
Proof. exact @fit_inv. Qed.

(** deviance of each family = sum of the unit deviances (Gaussian: residual sum of squares) *)
Theorem C06_deviance_formula :
  forall (f : family) (y mu : list R) (d : R),
    deviance RO f y mu = Some d ->
    (f = Poisson \/ f = QuasiPoisson ->
       forall i, (i < length y)%nat -> nth i y 0 = 0 \/ (0 < nth i y 0 /\ 0 < nth i mu 0)) ->
    length y = length mu /\ d = family_deviance f (length y) y (fun i => nth i mu 0).
Proof. exact deviance_formula. Qed.

Theorem C06_penalized_deviance_formula :
  forall (f : family) (y mu : list R) (alpha b0 : R) (beta : list R) (d : R),
    penalized_deviance RO f y mu alpha (b0 :: beta) = Some d ->
    exists dv, deviance RO f y mu = Some dv /\
               d = dv + alpha * bigsum (fun j => nth j beta 0 * nth j beta 0) (length beta).
Proof. exact penalized_deviance_formula. Qed.

Theorem C06_dispersion_formula :
  forall (f : family) (ft : fitted) (d : R),
    dispersion RO f ft = Some d ->
    (has_dispersion f = true -> (Z.of_nat (f_p ft) <= f_n ft)%Z /\ d = f_dev ft / IZR (f_n ft - Z.of_nat (f_p ft))) /\
    (has_dispersion f = false -> d = 1).
Proof. exact dispersion_formula. Qed.

(** standard errors = square roots of the diagonal of dispersion x inverse information *)
Theorem C06_stderr_formula :
  forall (inv : list R -> option (list R)),
    (forall a ai m, length a = (m * m)%nat -> inv a = Some ai ->
       length ai = (m * m)%nat /\
       forall j k, (j < m)%nat -> (k < m)%nat ->
         bigsum (fun l => nth (j * m + l) a 0 * nth (l * m + k) ai 0) m = if (j =? k)%nat then 1 else 0) ->
  forall (f : family) (ft : fitted) (se : list R),
    length (f_info ft) = (f_p ft * f_p ft)%nat ->
    coef_standard_error RO inv f ft = Some se ->
    exists disp iv,
      dispersion RO f ft = Some disp /\ inv (f_info ft) = Some iv /\ length iv = (f_p ft * f_p ft)%nat /\
      (forall j k, (j < f_p ft)%nat -> (k < f_p ft)%nat ->
         bigsum (fun l => nth (j * f_p ft + l) (f_info ft) 0 * nth (l * f_p ft + k) iv 0) (f_p ft)
         = if (j =? k)%nat then 1 else 0) /\
      length se = f_p ft /\
      forall j, (j < f_p ft)%nat -> nth j se 0 = R_sqrt.sqrt (disp * nth (j * f_p ft + j) iv 0).
Proof. exact stderr_formula. Qed.

Theorem C06_aic_bic_formula :
  forall ft : fitted (T:=R),
    aic RO ft = f_dev ft + 2 * INR (f_p ft) /\ bic RO ft = f_dev ft + INR (f_p ft) * ln (IZR (f_n ft)).
Proof. exact aic_bic_formula. Qed.

(** predictions = inverse link of x.beta + offset *)
Theorem C06_predict_formula :
  forall (f : family) (off : option (list R)) (ft : fitted) (xnew pr : list R),
    length (f_coef ft) = f_p ft ->
    predict RO f off ft xnew = Some pr ->
    exists m, length xnew = (m * f_p ft)%nat /\ length pr = m /\
      forall i, (i < m)%nat ->
        nth i pr 0 = mean_fn f (bigsum (fun k => X xnew (f_p ft) i k * nth k (f_coef ft) 0) (f_p ft) + offs off i).
Proof. exact predict_formula. Qed.

(** reordering the observations changes neither the gradient, nor the information matrix, nor the deviance *)
Theorem C06_row_permutation_invariant :
  forall (x y mu dmu var w : list R) (n p : nat) (sigma : list nat),
    Permutation sigma (seq 0 n) -> (0 < n)%nat -> (0 < p)%nat -> length x = (n * p)%nat ->
    length y = n -> length mu = n -> length dmu = n -> length var = n -> length w = n ->
    compute_dbeta RO (permute_rows x p sigma) (permute y sigma) (permute mu sigma) (permute dmu sigma)
                  (permute var sigma) (permute w sigma) = compute_dbeta RO x y mu dmu var w /\
    compute_ddbeta RO (permute_rows x p sigma) (permute dmu sigma) (permute var sigma) (permute w sigma)
      = compute_ddbeta RO x dmu var w /\
    forall f, deviance RO f (permute y sigma) (permute mu sigma) = deviance RO f y mu.
Proof. exact row_permutation_invariant. Qed.

(** family tables: the tabulated derivative is the derivative of the tabulated inverse link, and the
    regenerated [has_dispersion] marks exactly Gaussian, QuasiPoisson, Gamma *)
Theorem C06_d_inv_link_is_derivative :
  forall (f : family) (eta : R), derivable_pt_lim (mean_fn f) eta (d_inv_link1 RO f eta (inv_link1 RO f eta)).
Proof. exact d_inv_link_is_derivative. Qed.

Theorem C06_has_dispersion_table :
  forall f : family, has_dispersion f = true <-> (f = Gaussian \/ f = QuasiPoisson \/ f = Gamma).
Proof. exact has_dispersion_spec. Qed.

(** ** composed with C01: the inner routines are C01's models of [solve] / [invert_matrix]; nothing is
    assumed about them.  Data condition, written out in each statement: the penalised information matrix at
    the iterate has a left inverse  (exists c, c.(I(beta) + alpha I') = identity). *)

(** the penalised information matrix is exactly symmetric (so both routes of C01's [solve] are covered) *)
Theorem C06_penalised_fisher_symmetric :
  forall (f : family) (x : list R) (n p : nat) (w : list R) (off : nat -> R) (alpha : R) (beta : list R) (j k : nat),
    penalised_fisher f x n p w off alpha beta j k = penalised_fisher f x n p w off alpha beta k j.
Proof. exact penalised_fisher_sym. Qed.

(** at an iterate with nonsingular penalised information C01's [solve] RETURNS on the Newton system, and
    returns THE solution *)
Theorem C06_newton_system_solved_composed :
  forall (f : family) (alpha : R) (x y w : list R) (off : option (list R)) (n p : nat) (beta : list R) (q : quantities),
    wf_data x y w off n p -> 0 <= alpha -> length beta = p ->
    at_coef RO f x n p off beta = Some q ->
    (exists c : list R, forall i j, (i < p)%nat -> (j < p)%nat ->
       bigsum (fun l => nth (i * p + l) c 0 * penalised_fisher f x n p w (offs off) alpha beta l j) p
       = if (i =? j)%nat then 1 else 0) ->
    exists a b s,
      newton_system RO alpha x y p w beta q = Some (a, b) /\ length a = (p * p)%nat /\ length b = p /\
      slice_solve RO a b = Some s /\ length s = p /\
      (forall j, (j < p)%nat -> matvec a p s j = nth j b 0) /\
      (forall s', length s' = p -> (forall j, (j < p)%nat -> matvec a p s' j = nth j b 0) -> s' = s).
Proof. intros f alpha x y w off n p beta q W Ha. exact (newton_solved f alpha x y w off n p W Ha beta q). Qed.

(** one pass of the loop body IS the Fisher-scoring update:
    (information + ridge).(beta - beta') = - penalised score, row by row *)
Theorem C06_step_is_fisher_scoring_composed :
  forall (f : family) (alpha tol : R) (x y w : list R) (off : option (list R)) (n p : nat),
    wf_data x y w off n p -> 0 <= alpha ->
  forall (beta : list R) (pdev : option R) (beta' : list R) (pd : R) (conv : bool) (q : quantities),
    length beta = p ->
    (exists c : list R, forall i j, (i < p)%nat -> (j < p)%nat ->
       bigsum (fun l => nth (i * p + l) c 0 * penalised_fisher f x n p w (offs off) alpha beta l j) p
       = if (i =? j)%nat then 1 else 0) ->
    step RO (slice_solve RO) f alpha tol x y n p w off beta pdev = Some (beta', pd, conv, q) ->
    length beta' = p /\
    forall j, (j < p)%nat ->
      bigsum (fun k => penalised_fisher f x n p w (offs off) alpha beta j k * (nth k beta 0 - nth k beta' 0)) p
      = - penalised_score f x n p y w (offs off) alpha beta j.
Proof. exact step_is_fisher_scoring_composed. Qed.

Theorem C06_fixed_point_is_penalised_mle_composed :
  forall (f : family) (alpha tol : R) (x y w : list R) (off : option (list R)) (n p : nat),
    wf_data x y w off n p -> 0 <= alpha ->
  forall (beta : list R) (pdev : option R) (pd : R) (conv : bool) (q : quantities),
    length beta = p ->
    (exists c : list R, forall i j, (i < p)%nat -> (j < p)%nat ->
       bigsum (fun l => nth (i * p + l) c 0 * penalised_fisher f x n p w (offs off) alpha beta l j) p
       = if (i =? j)%nat then 1 else 0) ->
    step RO (slice_solve RO) f alpha tol x y n p w off beta pdev = Some (beta, pd, conv, q) ->
    forall j, (j < p)%nat -> penalised_score f x n p y w (offs off) alpha beta j = 0.
Proof. exact fixed_point_is_penalised_mle_composed. Qed.

Theorem C06_penalised_mle_is_fixed_point_composed :
  forall (f : family) (alpha tol : R) (x y w : list R) (off : option (list R)) (n p : nat),
    wf_data x y w off n p -> 0 <= alpha ->
  forall (beta : list R) (pdev : option R) (beta' : list R) (pd : R) (conv : bool) (q : quantities),
    length beta = p ->
    (exists c : list R, forall i j, (i < p)%nat -> (j < p)%nat ->
       bigsum (fun l => nth (i * p + l) c 0 * penalised_fisher f x n p w (offs off) alpha beta l j) p
       = if (i =? j)%nat then 1 else 0) ->
    (forall j, (j < p)%nat -> penalised_score f x n p y w (offs off) alpha beta j = 0) ->
    step RO (slice_solve RO) f alpha tol x y n p w off beta pdev = Some (beta', pd, conv, q) ->
    beta' = beta.
Proof. exact penalised_mle_is_fixed_point_composed. Qed.

Theorem C06_gaussian_is_ridge_wls_composed :
  forall (f : family) (alpha tol : R) (x y w : list R) (off : option (list R)) (n p : nat),
    wf_data x y w off n p -> 0 <= alpha ->
  forall (beta : list R) (pdev : option R) (beta' : list R) (pd : R) (conv : bool) (q : quantities),
    f = Gaussian -> length beta = p ->
    (exists c : list R, forall i j, (i < p)%nat -> (j < p)%nat ->
       bigsum (fun l => nth (i * p + l) c 0 * penalised_fisher f x n p w (offs off) alpha beta l j) p
       = if (i =? j)%nat then 1 else 0) ->
    step RO (slice_solve RO) f alpha tol x y n p w off beta pdev = Some (beta', pd, conv, q) ->
    forall j, (j < p)%nat ->
      bigsum (fun k => (bigsum (fun i => X x p i j * (nth i w 0 * X x p i k)) n
                        + (if (1 <=? j)%nat && (j =? k)%nat then alpha else 0)) * nth k beta' 0) p
      = bigsum (fun i => X x p i j * (nth i w 0 * (nth i y 0 - offs off i))) n.
Proof. exact gaussian_step_is_ridge_wls_composed. Qed.

(** the information matrix stored by [fit] (any inner solver) is p x p and exactly symmetric *)
Theorem C06_fit_info_symmetric :
  forall (solve : list R -> list R -> option (list R)) (f : family) (alpha tol : R) (w off : option (list R))
         (x y : list R) (max_iter : nat) (ft : fitted),
    fit RO solve f alpha tol w off x y max_iter = Some ft -> (0 < f_p ft)%nat ->
    length (f_info ft) = (f_p ft * f_p ft)%nat /\
    forall j k, (j < f_p ft)%nat -> (k < f_p ft)%nat ->
      nth (j * f_p ft + k) (f_info ft) 0 = nth (k * f_p ft + j) (f_info ft) 0.
Proof. exact fit_info_symmetric. Qed.

(** standard errors with C01's [invert_matrix]: a symmetric information matrix with a left inverse is
    inverted, and the standard errors are the square roots of dispersion x diagonal of that inverse *)
Theorem C06_stderr_composed :
  forall (f : family) (ft : fitted) (disp : R),
    (0 < f_p ft)%nat -> length (f_info ft) = (f_p ft * f_p ft)%nat ->
    (forall j k, (j < f_p ft)%nat -> (k < f_p ft)%nat ->
       nth (j * f_p ft + k) (f_info ft) 0 = nth (k * f_p ft + j) (f_info ft) 0) ->
    (exists c : list R, forall i j, (i < f_p ft)%nat -> (j < f_p ft)%nat ->
       bigsum (fun l => nth (i * f_p ft + l) c 0 * nth (l * f_p ft + j) (f_info ft) 0) (f_p ft)
       = if (i =? j)%nat then 1 else 0) ->
    dispersion RO f ft = Some disp ->
    exists iv se,
      slice_invert RO (f_info ft) = Some iv /\ length iv = (f_p ft * f_p ft)%nat /\
      (forall j k, (j < f_p ft)%nat -> (k < f_p ft)%nat ->
         bigsum (fun l => nth (j * f_p ft + l) (f_info ft) 0 * nth (l * f_p ft + k) iv 0) (f_p ft)
         = if (j =? k)%nat then 1 else 0) /\
      coef_standard_error RO (slice_invert RO) f ft = Some se /\ length se = f_p ft /\
      forall j, (j < f_p ft)%nat -> nth j se 0 = R_sqrt.sqrt (disp * nth (j * f_p ft + j) iv 0).
Proof. exact stderr_composed. Qed.

(** the data condition is satisfiable: intercept-only Gaussian model on three observations *)
Theorem C06_example_composed :
  exists c : list R, forall i j, (i < 1)%nat -> (j < 1)%nat ->
    bigsum (fun l => nth (i * 1 + l) c 0 * penalised_fisher Gaussian [1; 1; 1] 3 1 [1; 1; 1] (offs None) 0 [0] l j) 1
    = if (i =? j)%nat then 1 else 0.
Proof. exact info_nonsingular_instance. Qed.
