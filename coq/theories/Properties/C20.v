(** * C20 — covariance kernels (RBF, rational quadratic), scalar and matrix form.  Statements only.
    Carrier [RO] unless the theorem is stated for every carrier.  Claim: PARTIAL — positive semi-definiteness is
    proved for every finite RBF Gram matrix, and for every 2-point rational-quadratic Gram matrix only (general n for RQ is
    explored by the oracle: Jacobi eigenvalues). *)
From Coq Require Import Reals List ZArith.
From Compute Require Import Base.Ops Base.ListMat Model.Kernels Proofs.C20 Proofs.C20_psd.
Import ListNotations.
Open Scope R_scope.

Theorem C20_rbf_symmetric : forall var ls x y : R, rbf RO var ls x y = rbf RO var ls y x.
Proof. exact rbf_symmetric. Qed.
Theorem C20_rbf_diag_is_variance : forall var ls x : R, rbf RO var ls x x = var.
Proof. exact rbf_diag. Qed.
Theorem C20_rbf_positive : forall var ls x y : R, 0 < var -> 0 < rbf RO var ls x y.
Proof. exact rbf_positive. Qed.
Theorem C20_rbf_nonincreasing_in_distance :
  forall var ls x y x' y' : R, 0 < var -> 0 < ls -> Rabs (x - y) <= Rabs (x' - y') ->
    rbf RO var ls x' y' <= rbf RO var ls x y.
Proof. exact rbf_nonincreasing. Qed.
Theorem C20_rbf_le_variance : forall var ls x y : R, 0 < var -> 0 < ls -> rbf RO var ls x y <= var.
Proof. exact rbf_le_var. Qed.

Theorem C20_rq_symmetric : forall var alpha ls x y : R, rq RO var alpha ls x y = rq RO var alpha ls y x.
Proof. exact rq_symmetric. Qed.
Theorem C20_rq_diag_is_variance : forall var alpha ls x : R, rq RO var alpha ls x x = var.
Proof. exact rq_diag. Qed.
Theorem C20_rq_positive : forall var alpha ls x y : R, 0 < var -> 0 < rq RO var alpha ls x y.
Proof. exact rq_positive. Qed.
Theorem C20_rq_nonincreasing_in_distance :
  forall var alpha ls x y x' y' : R, 0 < var -> 0 < alpha -> 0 < ls -> Rabs (x - y) <= Rabs (x' - y') ->
    rq RO var alpha ls x' y' <= rq RO var alpha ls x y.
Proof. exact rq_nonincreasing. Qed.
Theorem C20_rq_le_variance :
  forall var alpha ls x y : R, 0 < var -> 0 < alpha -> 0 < ls -> rq RO var alpha ls x y <= var.
Proof. exact rq_le_var. Qed.

(** matrix form: one row per first-argument point, one column per second-argument point (any carrier) *)
Theorem C20_rbf_matrix_shape :
  forall (T : Type) (O : Ops T) (var ls : T) (xs ys : list T),
    length (rbf_matrix O var ls xs ys) = length xs /\
    forall i, (i < length xs)%nat -> length (nth i (rbf_matrix O var ls xs ys) []) = length ys.
Proof. exact @rbf_matrix_shape. Qed.
Theorem C20_rq_matrix_shape :
  forall (T : Type) (O : Ops T) (var alpha ls : T) (xs ys : list T),
    length (rq_matrix O var alpha ls xs ys) = length xs /\
    forall i, (i < length xs)%nat -> length (nth i (rq_matrix O var alpha ls xs ys) []) = length ys.
Proof. exact @rq_matrix_shape. Qed.
(** ... and equals the scalar form entry by entry *)
Theorem C20_rbf_matrix_is_scalar :
  forall (var ls : R) (xs ys : list R) (i j : nat), (i < length xs)%nat -> (j < length ys)%nat ->
    ent 0 (rbf_matrix RO var ls xs ys) i j = rbf RO var ls (nth i xs 0) (nth j ys 0).
Proof. exact rbf_matrix_is_scalar. Qed.
Theorem C20_rq_matrix_is_scalar :
  forall (var alpha ls : R) (xs ys : list R) (i j : nat), (i < length xs)%nat -> (j < length ys)%nat ->
    ent 0 (rq_matrix RO var alpha ls xs ys) i j = rq RO var alpha ls (nth i xs 0) (nth j ys 0).
Proof. exact rq_matrix_is_scalar. Qed.

Theorem C20_rbf_gram_symmetric :
  forall (var ls : R) (xs : list R) (i j : nat), (i < length xs)%nat -> (j < length xs)%nat ->
    ent 0 (rbf_matrix RO var ls xs xs) i j = ent 0 (rbf_matrix RO var ls xs xs) j i.
Proof. exact rbf_gram_symmetric. Qed.
Theorem C20_rq_gram_symmetric :
  forall (var alpha ls : R) (xs : list R) (i j : nat), (i < length xs)%nat -> (j < length xs)%nat ->
    ent 0 (rq_matrix RO var alpha ls xs xs) i j = ent 0 (rq_matrix RO var alpha ls xs xs) j i.
Proof. exact rq_gram_symmetric. Qed.

(** positive semi-definiteness, PARTIAL: every 2-point Gram matrix (full statement: all finite point sets) *)
Theorem C20_rbf_gram_2x2_psd_partial :
  forall var ls x y c1 c2 : R, 0 < var -> 0 < ls ->
    0 <= c1 * c1 * rbf RO var ls x x + 2 * c1 * c2 * rbf RO var ls x y + c2 * c2 * rbf RO var ls y y.
Proof. exact rbf_gram_2x2_psd. Qed.
Theorem C20_rq_gram_2x2_psd_partial :
  forall var alpha ls x y c1 c2 : R, 0 < var -> 0 < alpha -> 0 < ls ->
    0 <= c1 * c1 * rq RO var alpha ls x x + 2 * c1 * c2 * rq RO var alpha ls x y + c2 * c2 * rq RO var alpha ls y y.
Proof. exact rq_gram_2x2_psd. Qed.

(** positive semi-definiteness of EVERY finite RBF Gram matrix: for every list of (point, coefficient) pairs the quadratic form
    sum_i sum_j c_i c_j k(x_i, x_j) is non-negative (feature-map argument: exp(xy/l^2) is a limit of non-negative combinations of
    rank-one kernels; Proofs/C20_psd.v).  The rational-quadratic kernel has this only for two points (above). *)
Theorem C20_rbf_gram_psd :
  forall (var ls : R) (pts : list (R * R)), 0 < var -> 0 < ls ->
    0 <= fold_right Rplus 0
           (map (fun p => fold_right Rplus 0 (map (fun q => snd p * snd q * rbf RO var ls (fst p) (fst q)) pts)) pts).
Proof. exact rbf_gram_psd. Qed.

(** constructors accept exactly positive parameters *)
Theorem C20_rbf_new_spec :
  forall var ls : R,
    rbf_new RO var ls = if Rlt_dec 0 var then if Rlt_dec 0 ls then Some (var, ls) else None else None.
Proof. exact rbf_new_spec. Qed.
Theorem C20_rq_new_spec :
  forall var alpha ls : R,
    rq_new RO var alpha ls =
    if Rlt_dec 0 var then if Rlt_dec 0 alpha then if Rlt_dec 0 ls then Some (var, alpha, ls) else None else None else None.
Proof. exact rq_new_spec. Qed.

(** ** Tie A: the model IS the source (expression translator).  [Generated/kernels.v] is re-translated from
    src/predict/gps/kernels.rs on every run (tools/tiea/kernels.py, tools/rsexpr.py), operation for operation; each
    theorem says that the translated body of the Rust function (scalar [forward] of the two kernels; the constructors,
    a failed [assert!] being [None]) and the hand-written model function are the same function, for EVERY carrier [T]
    and every operations record [O]. *)
From Compute Require Import Base.RsExpr Generated.kernels Proofs.TieA_kernels.
Theorem C20_model_is_source_RBFKernel_forward :
  forall (T : Type) (O : Ops T) (var ls x y : T), RBFKernel_forward O var ls x y = rbf O var ls x y.
Proof. exact @tiea_RBFKernel_forward. Qed.
Theorem C20_model_is_source_RationalQuadraticKernel_forward :
  forall (T : Type) (O : Ops T) (var alpha ls x y : T),
    RationalQuadraticKernel_forward O var alpha ls x y = rq O var alpha ls x y.
Proof. exact @tiea_RationalQuadraticKernel_forward. Qed.
Theorem C20_model_is_source_RBFKernel_new :
  forall (T : Type) (O : Ops T) (var ls : T), RBFKernel_new O var ls = rbf_new O var ls.
Proof. exact @tiea_RBFKernel_new. Qed.
Theorem C20_model_is_source_RationalQuadraticKernel_new :
  forall (T : Type) (O : Ops T) (var alpha ls : T),
    RationalQuadraticKernel_new O var alpha ls = rq_new O var alpha ls.
Proof. exact @tiea_RationalQuadraticKernel_new. Qed.
