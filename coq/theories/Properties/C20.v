(** * C20 — covariance kernels (RBF, rational quadratic), scalar and matrix form.  Statements only.
    Carrier [RO] unless the theorem is stated for every carrier.  Claim: PARTIAL — positive semi-definiteness is
    proved for every finite RBF Gram matrix, and for every 2-point rational-quadratic Gram matrix only (general n for RQ is
    explored by the oracle: Jacobi eigenvalues). *)
From Coq Require Import Reals List ZArith.
From Compute Require Import Base.Ops Base.ListMat Model.Kernels Proofs.C20 Proofs.C20_psd.
Import ListNotations.
Open Scope R_scope.

Theorem C20_rbf_symmetric : forall var ls x y : R, rbf RO var ls x y = rbf RO var ls y x.
Proof. exact rbf_symmetric. Qed.
Theorem C20_rbf_diag_is_variance : forall var ls x : R, rbf RO var ls x x = var.
Proof. exact rbf_diag. Qed.
Theorem C20_rbf_positive : forall var ls x y : R, 0 < var -> 0 < rbf RO var ls x y.
Proof. exact rbf_positive. Qed.
Theorem C20_rbf_nonincreasing_in_distance :
  forall var ls x y x' y' : R, 0 < var -> 0 < ls -> Rabs (x - y) <= Rabs (x' - y') ->
    rbf RO var ls x' y' <= rbf RO var ls x y.
Proof. exact rbf_nonincreasing. Qed.
Theorem C20_rbf_le_variance : forall var ls x y : R, 0 < var -> 0 < ls -> rbf RO var ls x y <= var.
Proof. exact rbf_le_var. Qed.

Theorem C20_rq_symmetric : forall var alpha ls x y : R, rq RO var alpha ls x y = rq RO var alpha ls y x.
Proof. exact rq_symmetric. Qed.
Theorem C20_rq_diag_is_variance : forall var alpha ls x : R, rq RO var alpha ls x x = var.
Proof. exact rq_diag. Qed.
Theorem C20_rq_positive : forall var alpha ls x y : R, 0 < var -> 0 < rq RO var alpha ls x y.
Proof. exact rq_positive. Qed.
Theorem C20_rq_nonincreasing_in_distance :
  forall var alpha ls x y x' y' : R, 0 < var -> 0 < alpha -> 0 < ls -> Rabs (x - y) <= Rabs (x' - y') ->
    rq RO var alpha ls x' y' <= rq RO var alpha ls x y.
Proof. exact rq_nonincreasing. Qed.
Theorem C20_rq_le_variance :
  forall var alpha ls x y : R, 0 < var -> 0 < alpha -> 0 < ls -> rq RO var alpha ls x y <= var.
Proof. exact rq_le_var. Qed.

(** matrix form: one row per first-argument point, one column per second-argument point (any carrier) *)
Theorem C20_rbf_matrix_shape :
  forall (T : Type) (O : Ops T) (var ls : T) (xs ys : list T),
    length (rbf_matrix O var ls xs ys) = length xs /\
    forall i, (i < length xs)%nat -> length (nth i (rbf_matrix O var ls xs ys) []) = length ys.
Proof. exact @rbf_matrix_shape. Qed.
Theorem C20_rq_matrix_shape :
  forall (T : Type) (O : Ops T) (var alpha ls : T) (xs ys : list T),
    length (rq_matrix O var alpha ls xs ys) = length xs /\
    forall i, (i < length xs)%nat -> length (nth i (rq_matrix O var alpha ls xs ys) []) = length ys.
Proof. exact @rq_matrix_shape. Qed.
(** ... and equals the scalar form entry by entry (the net matrix of the repaired code IS the matrix of the scalar form;
    the same on every carrier: C20_matrix_is_scalar_any_carrier below) *)
Theorem C20_rbf_matrix_is_scalar :
  forall (var ls : R) (xs ys : list R) (i j : nat), (i < length xs)%nat -> (j < length ys)%nat ->
    ent 0 (rbf_matrix RO var ls xs ys) i j = rbf RO var ls (nth i xs 0) (nth j ys 0).
Proof. exact rbf_matrix_is_scalar. Qed.
Theorem C20_rq_matrix_is_scalar :
  forall (var alpha ls : R) (xs ys : list R) (i j : nat), (i < length xs)%nat -> (j < length ys)%nat ->
    ent 0 (rq_matrix RO var alpha ls xs ys) i j = rq RO var alpha ls (nth i xs 0) (nth j ys 0).
Proof. exact rq_matrix_is_scalar. Qed.

Theorem C20_matrix_is_scalar_any_carrier :
  forall (T : Type) (O : Ops T) (var alpha ls : T) (xs ys : list T) (i j : nat) (d : T), (i < length xs)%nat -> (j < length ys)%nat ->
    ent d (rbf_matrix O var ls xs ys) i j = rbf O var ls (nth i xs d) (nth j ys d) /\
    ent d (rq_matrix O var alpha ls xs ys) i j = rq O var alpha ls (nth i xs d) (nth j ys d).
Proof. exact @matrix_is_scalar_any_carrier. Qed.

Theorem C20_rbf_gram_symmetric :
  forall (var ls : R) (xs : list R) (i j : nat), (i < length xs)%nat -> (j < length xs)%nat ->
    ent 0 (rbf_matrix RO var ls xs xs) i j = ent 0 (rbf_matrix RO var ls xs xs) j i.
Proof. exact rbf_gram_symmetric. Qed.
Theorem C20_rq_gram_symmetric :
  forall (var alpha ls : R) (xs : list R) (i j : nat), (i < length xs)%nat -> (j < length xs)%nat ->
    ent 0 (rq_matrix RO var alpha ls xs xs) i j = ent 0 (rq_matrix RO var alpha ls xs xs) j i.
Proof. exact rq_gram_symmetric. Qed.

(** positive semi-definiteness, PARTIAL: every 2-point Gram matrix (full statement: all finite point sets) *)
Theorem C20_rbf_gram_2x2_psd_partial :
  forall var ls x y c1 c2 : R, 0 < var -> 0 < ls ->
    0 <= c1 * c1 * rbf RO var ls x x + 2 * c1 * c2 * rbf RO var ls x y + c2 * c2 * rbf RO var ls y y.
Proof. exact rbf_gram_2x2_psd. Qed.
Theorem C20_rq_gram_2x2_psd_partial :
  forall var alpha ls x y c1 c2 : R, 0 < var -> 0 < alpha -> 0 < ls ->
    0 <= c1 * c1 * rq RO var alpha ls x x + 2 * c1 * c2 * rq RO var alpha ls x y + c2 * c2 * rq RO var alpha ls y y.
Proof. exact rq_gram_2x2_psd. Qed.

(** positive semi-definiteness of EVERY finite RBF Gram matrix: for every list of (point, coefficient) pairs the quadratic form
    sum_i sum_j c_i c_j k(x_i, x_j) is non-negative (feature-map argument: exp(xy/l^2) is a limit of non-negative combinations of
    rank-one kernels; Proofs/C20_psd.v).  The rational-quadratic kernel has this only for two points (above). *)
Theorem C20_rbf_gram_psd :
  forall (var ls : R) (pts : list (R * R)), 0 < var -> 0 < ls ->
    0 <= fold_right Rplus 0
           (map (fun p => fold_right Rplus 0 (map (fun q => snd p * snd q * rbf RO var ls (fst p) (fst q)) pts)) pts).
Proof. exact rbf_gram_psd. Qed.

(** constructors accept exactly positive parameters *)
Theorem C20_rbf_new_spec :
  forall var ls : R,
    rbf_new RO var ls = if Rlt_dec 0 var then if Rlt_dec 0 ls then Some (var, ls) else None else None.
Proof. exact rbf_new_spec. Qed.
Theorem C20_rq_new_spec :
  forall var alpha ls : R,
    rq_new RO var alpha ls =
    if Rlt_dec 0 var then if Rlt_dec 0 alpha then if Rlt_dec 0 ls then Some (var, alpha, ls) else None else None else None.
Proof. exact rq_new_spec. Qed.

(** ** Tie A: the model IS the source (expression translator).  [Generated/kernels.v] is re-translated from
    src/predict/gps/kernels.rs on every run (tools/tiea/kernels.py, tools/rsexpr.py), operation for operation; each
    theorem says that the translated body of the Rust function (scalar [forward] of the two kernels; the constructors,
    a failed [assert!] being [None]) and the hand-written model function are the same function, for EVERY carrier [T]
    and every operations record [O]. *)
From Compute Require Import Base.RsExpr Generated.kernels Proofs.TieA_kernels.
Theorem C20_model_is_source_RBFKernel_forward :
  forall (T : Type) (O : Ops T) (var ls x y : T), RBFKernel_forward O var ls x y = rbf O var ls x y.
Proof. exact @tiea_RBFKernel_forward. Qed.
Theorem C20_model_is_source_RationalQuadraticKernel_forward :
  forall (T : Type) (O : Ops T) (var alpha ls x y : T),
    RationalQuadraticKernel_forward O var alpha ls x y = rq O var alpha ls x y.
Proof. exact @tiea_RationalQuadraticKernel_forward. Qed.
Theorem C20_model_is_source_RBFKernel_new :
  forall (T : Type) (O : Ops T) (var ls : T), RBFKernel_new O var ls = rbf_new O var ls.
Proof. exact @tiea_RBFKernel_new. Qed.
Theorem C20_model_is_source_RationalQuadraticKernel_new :
  forall (T : Type) (O : Ops T) (var alpha ls : T),
    RationalQuadraticKernel_new O var alpha ls = rq_new O var alpha ls.
Proof. exact @tiea_RationalQuadraticKernel_new. Qed.
(** matrix form: the translator refuses the file unless the body of the matrix-form [forward] of both kernels is
    [let (x, y) = (x.reshape(R1, C1), y.reshape(R2, C2)); assert!(x.size() > 0 && y.size() > 0, ..);] followed, token for
    token, by the body of the scalar [forward] (the terms tied above); the reshape requests it reads out are the ones the
    model makes, on all four argument types *)
From Compute Require Import Model.Shape Model.KernelsPlumbing.
Theorem C20_model_is_source_matrix_form_prologue :
  forall (T : Type) (a : karg T),
    to_column a =
      match a with
      | KVector v | KRefVector v => Shape.new v (fst kernels_matrix_form_x_reshape) (snd kernels_matrix_form_x_reshape)
      | KMatrix m | KRefMatrix m => Shape.reshape m (fst kernels_matrix_form_x_reshape) (snd kernels_matrix_form_x_reshape)
      end /\
    to_row a =
      match a with
      | KVector v | KRefVector v => Shape.new v (fst kernels_matrix_form_y_reshape) (snd kernels_matrix_form_y_reshape)
      | KMatrix m | KRefMatrix m => Shape.reshape m (fst kernels_matrix_form_y_reshape) (snd kernels_matrix_form_y_reshape)
      end /\
    kernels_matrix_form_asserts_nonempty = true /\ kernels_matrix_form_rest_is_scalar_body = true.
Proof. exact @tiea_matrix_form_prologue. Qed.

(** ** The matrix form IS the plumbing, and the plumbing IS the scalar form entry by entry (extension).
    REPAIRED CODE (fix "matrix-form kernels take the difference of the points before squaring it"):
      let (x, y) = (x.reshape(-1, 1), y.reshape(1, -1));  assert!(x.size() > 0 && y.size() > 0);
      (-(x - y).powi(2) / (2. * l.powi(2))).exp() * var      |      (1. + (x - y).powi(2) / (2. * alpha * l.powi(2))).powf(-alpha) * var
    [Model/KernelsPlumbing.v] writes the matrix-form [forward] of both kernels, on the four argument types (Vector, &Vector,
    Matrix, &Matrix), as the composition — in the order the Rust code calls them — of the model functions of the
    properties that own them: [reshape] / [Vector::reshape] / [size] (C15, Model/Shape.v), [Matrix - Matrix] = [broadcast] of a
    column against a row (C04 / C12, Model/Broadcast.v), element-wise [powi], negation, [exp], [powf] and the three
    scalar-matrix operators through the regenerated impl table (C04, Model/Vops.v).
    [points a] is the point set an argument stands for: the entries of a non-empty Vector, the row-major data of a Matrix
    satisfying the struct invariant (ANY shape: the reshapes flatten it); [None] otherwise.
    The theorems say, for every carrier (no algebraic law), all point sets and all argument types, that the composition
    returns exactly the |xs| x |ys| matrix whose entries are the SCALAR form's operations, in the scalar form's order, on
    the square of x_i - y_j, and panics exactly when a point set is missing.

    STATEMENTS REPLACED BY THE REPAIR (they were about the expanded square x^2 + y^2 - 2xy, code that no longer exists;
    kept here, renamed, for the record — the new statements follow):
      C20_matrix_form_is_plumbing_rbf_any_carrier_before_fix / ..._rq_any_carrier_before_fix :
        forall T O var [alpha] ls ax ay, rbf_forward_plumbing O var ls ax ay =
          match points ax, points ay with
          | Some xs, Some ys => Some (mkmat (length xs) (length ys) (table_sq O (rbf_entry_sq O var ls) xs ys)) | _, _ => None end
        ([table_sq F xs ys]: entry (i,j) = F (i-th of vpowi xs 2) (j-th of vpowi ys 2) x_i y_j;
         [rbf_entry_sq var ls x2 y2 x y] = exp (-((x2 + y2) - 2 * (0 + x * y)) / (2 * ls^2)) * var)
      C20_matrix_form_is_plumbing_rbf_entry_before_fix / ..._rq_entry_before_fix :
        under (forall x, mul O x x = powi O x 2): ... nth (i * nc r + j) (dat r) d = rbf_entry O var ls (nth i xs d) (nth j ys d)
        ([rbf_entry] = the scalar form with (x - y).powi(2) replaced by sqdist_expanded x y = (x.powi(2) + y.powi(2)) - 2 * (0 + x * y)).
      C20_matrix_form_is_plumbing_{rbf,rq}, ..._R, ..._binary64 keep their TEXT, but [rbf_matrix] / [rq_matrix] of Model/Kernels.v
      were the matrices of [rbf_entry] / [rq_entry] and are now the matrices of the scalar forms [rbf] / [rq]: the statements
      are strictly stronger than before (bitwise equality with the scalar form instead of equality up to the cancellation).
    Why it was replaced: on binary64 the expanded square cancels; C20_original_expanded_square_negative (end of this file) is the witness. *)
From Compute Require Import Model.Shape Model.Broadcast Model.Vops Model.KernelsPlumbing Proofs.C20_plumbing.
Local Close Scope R_scope.
Local Open Scope nat_scope.

(** closed form on EVERY carrier, no hypothesis at all: [sq_table xs ys] is the row-major table of the differences
    x_i - y_j squared by the element-wise [powi] kernel of C04; [rbf_of_sq var ls s] / [rq_of_sq var alpha ls s] are the
    scalar forms' operations after the square ([rbf O var ls x y = rbf_of_sq O var ls (powi O (sub O x y) 2)] by definition) *)
Theorem C20_matrix_form_is_plumbing_rbf_any_carrier :
  forall (T : Type) (O : Ops T) (var ls : T) (ax ay : karg T),
    rbf_forward_plumbing O var ls ax ay =
    match points ax, points ay with
    | Some xs, Some ys => Some (mkmat (length xs) (length ys) (map (rbf_of_sq O var ls) (sq_table O xs ys)))
    | _, _ => None
    end.
Proof. exact @rbf_plumbing_any_carrier. Qed.
Theorem C20_matrix_form_is_plumbing_rq_any_carrier :
  forall (T : Type) (O : Ops T) (var alpha ls : T) (ax ay : karg T),
    rq_forward_plumbing O var alpha ls ax ay =
    match points ax, points ay with
    | Some xs, Some ys => Some (mkmat (length xs) (length ys) (map (rq_of_sq O var alpha ls) (sq_table O xs ys)))
    | _, _ => None
    end.
Proof. exact @rq_plumbing_any_carrier. Qed.
Theorem C20_scalar_form_is_of_sq :
  forall (T : Type) (O : Ops T) (var alpha ls x y : T),
    rbf O var ls x y = rbf_of_sq O var ls (powi O (sub O x y) 2) /\
    rq O var alpha ls x y = rq_of_sq O var alpha ls (powi O (sub O x y) 2).
Proof. exact @scalar_form_is_of_sq. Qed.

(** entry (i, j) on EVERY carrier, no hypothesis — what exactly is equal operation for operation and what is not: the
    entry is the scalar form's own chain of operations (negate, divide by 2 l^2, exp, times var / divide by 2 alpha l^2, 1 +,
    powf(-alpha), times var) applied to the square of d = x_i - y_j, where the square is [d.powi(2)] — the scalar code's own —
    in the remainder loop of the [powi] kernel and [d * d] in its 8-wide unrolled part (flat positions below
    n*m - (n*m) mod 8); [d.powi(2)] is [1 * (d * d)] by square-and-multiply, so the two differ by one multiplication by one *)
Theorem C20_matrix_form_entry_any_carrier_rbf :
  forall (T : Type) (O : Ops T) (var ls : T) (ax ay : karg T) (xs ys : list T) (i j : nat) (d : T),
    points ax = Some xs -> points ay = Some ys -> i < length xs -> j < length ys ->
    exists r, rbf_forward_plumbing O var ls ax ay = Some r /\
              Broadcast.nr r = length xs /\ Broadcast.nc r = length ys /\
              length (Broadcast.dat r) = length xs * length ys /\
              nth (i * Broadcast.nc r + j) (Broadcast.dat r) d =
              rbf_of_sq O var ls (let e := sub O (nth i xs d) (nth j ys d) in
                                  if i * length ys + j <? length xs * length ys - (length xs * length ys) mod 8
                                  then mul O e e else powi O e 2).
Proof. exact @rbf_plumbing_entry_any_carrier. Qed.
Theorem C20_matrix_form_entry_any_carrier_rq :
  forall (T : Type) (O : Ops T) (var alpha ls : T) (ax ay : karg T) (xs ys : list T) (i j : nat) (d : T),
    points ax = Some xs -> points ay = Some ys -> i < length xs -> j < length ys ->
    exists r, rq_forward_plumbing O var alpha ls ax ay = Some r /\
              Broadcast.nr r = length xs /\ Broadcast.nc r = length ys /\
              length (Broadcast.dat r) = length xs * length ys /\
              nth (i * Broadcast.nc r + j) (Broadcast.dat r) d =
              rq_of_sq O var alpha ls (let e := sub O (nth i xs d) (nth j ys d) in
                                       if i * length ys + j <? length xs * length ys - (length xs * length ys) mod 8
                                       then mul O e e else powi O e 2).
Proof. exact @rq_plumbing_entry_any_carrier. Qed.

(** ... which is the matrix of the SCALAR forms [rbf] / [rq] on every carrier where the kernel's [d * d] is the scalar code's
    [d.powi(2)] (the only fact about the carrier that is used; it holds on the reals and bit for bit on binary64, below) *)
Theorem C20_matrix_form_is_plumbing_rbf :
  forall (T : Type) (O : Ops T), (forall x : T, mul O x x = powi O x 2) ->
  forall (var ls : T) (ax ay : karg T),
    rbf_forward_plumbing O var ls ax ay =
    match points ax, points ay with
    | Some xs, Some ys => Some (mkmat (length xs) (length ys) (flatten (rbf_matrix O var ls xs ys)))
    | _, _ => None
    end.
Proof. exact @rbf_plumbing_net. Qed.
Theorem C20_matrix_form_is_plumbing_rq :
  forall (T : Type) (O : Ops T), (forall x : T, mul O x x = powi O x 2) ->
  forall (var alpha ls : T) (ax ay : karg T),
    rq_forward_plumbing O var alpha ls ax ay =
    match points ax, points ay with
    | Some xs, Some ys => Some (mkmat (length xs) (length ys) (flatten (rq_matrix O var alpha ls xs ys)))
    | _, _ => None
    end.
Proof. exact @rq_plumbing_net. Qed.

(** shape and entry (i,j) of the result, in the flat row-major data the Rust struct holds: THE MATRIX FORM EQUALS THE SCALAR
    FORM ENTRY BY ENTRY — all sizes, all four argument kinds, both kernels (this replaces "up to the cancellation allowance") *)
Theorem C20_matrix_form_entry_is_scalar_form :
  forall (T : Type) (O : Ops T), (forall x : T, mul O x x = powi O x 2) ->
  forall (var alpha ls : T) (ax ay : karg T) (xs ys : list T) (i j : nat) (d : T),
    points ax = Some xs -> points ay = Some ys -> i < length xs -> j < length ys ->
    (exists r, rbf_forward_plumbing O var ls ax ay = Some r /\
               Broadcast.nr r = length xs /\ Broadcast.nc r = length ys /\
               length (Broadcast.dat r) = length xs * length ys /\
               nth (i * Broadcast.nc r + j) (Broadcast.dat r) d = rbf O var ls (nth i xs d) (nth j ys d)) /\
    (exists r, rq_forward_plumbing O var alpha ls ax ay = Some r /\
               Broadcast.nr r = length xs /\ Broadcast.nc r = length ys /\
               length (Broadcast.dat r) = length xs * length ys /\
               nth (i * Broadcast.nc r + j) (Broadcast.dat r) d = rq O var alpha ls (nth i xs d) (nth j ys d)).
Proof. exact @matrix_form_entry_is_scalar_form. Qed.
(** bit for bit on binary64, for EVERY recorded libm table (the matrix form asks libm for exactly the arguments the scalar
    form asks for), and on the reals: no hypothesis *)
Theorem C20_matrix_form_entry_is_scalar_form_binary64 :
  forall (tbl : libm_table) (var alpha ls : PrimFloat.float) (ax ay : karg PrimFloat.float)
         (xs ys : list PrimFloat.float) (i j : nat) (d : PrimFloat.float),
    points ax = Some xs -> points ay = Some ys -> i < length xs -> j < length ys ->
    (exists r, rbf_forward_plumbing (FO tbl) var ls ax ay = Some r /\
               Broadcast.nr r = length xs /\ Broadcast.nc r = length ys /\
               length (Broadcast.dat r) = length xs * length ys /\
               nth (i * Broadcast.nc r + j) (Broadcast.dat r) d = rbf (FO tbl) var ls (nth i xs d) (nth j ys d)) /\
    (exists r, rq_forward_plumbing (FO tbl) var alpha ls ax ay = Some r /\
               Broadcast.nr r = length xs /\ Broadcast.nc r = length ys /\
               length (Broadcast.dat r) = length xs * length ys /\
               nth (i * Broadcast.nc r + j) (Broadcast.dat r) d = rq (FO tbl) var alpha ls (nth i xs d) (nth j ys d)).
Proof. exact matrix_form_entry_is_scalar_form_binary64. Qed.
Theorem C20_matrix_form_entry_is_scalar_form_R :
  forall (var alpha ls : R) (ax ay : karg R) (xs ys : list R) (i j : nat) (d : R),
    points ax = Some xs -> points ay = Some ys -> i < length xs -> j < length ys ->
    (exists r, rbf_forward_plumbing RO var ls ax ay = Some r /\
               Broadcast.nr r = length xs /\ Broadcast.nc r = length ys /\
               length (Broadcast.dat r) = length xs * length ys /\
               nth (i * Broadcast.nc r + j) (Broadcast.dat r) d = rbf RO var ls (nth i xs d) (nth j ys d)) /\
    (exists r, rq_forward_plumbing RO var alpha ls ax ay = Some r /\
               Broadcast.nr r = length xs /\ Broadcast.nc r = length ys /\
               length (Broadcast.dat r) = length xs * length ys /\
               nth (i * Broadcast.nc r + j) (Broadcast.dat r) d = rq RO var alpha ls (nth i xs d) (nth j ys d)).
Proof. exact matrix_form_entry_is_scalar_form_R. Qed.
(** the two per-kernel statements, under their pinned names (entry formula now the scalar form; see the note above) *)
Theorem C20_matrix_form_is_plumbing_rbf_entry :
  forall (T : Type) (O : Ops T), (forall x : T, mul O x x = powi O x 2) ->
  forall (var ls : T) (ax ay : karg T) (xs ys : list T) (i j : nat) (d : T),
    points ax = Some xs -> points ay = Some ys -> i < length xs -> j < length ys ->
    exists r, rbf_forward_plumbing O var ls ax ay = Some r /\
              Broadcast.nr r = length xs /\ Broadcast.nc r = length ys /\
              length (Broadcast.dat r) = length xs * length ys /\
              nth (i * Broadcast.nc r + j) (Broadcast.dat r) d = rbf O var ls (nth i xs d) (nth j ys d).
Proof. exact @rbf_plumbing_entry. Qed.
Theorem C20_matrix_form_is_plumbing_rq_entry :
  forall (T : Type) (O : Ops T), (forall x : T, mul O x x = powi O x 2) ->
  forall (var alpha ls : T) (ax ay : karg T) (xs ys : list T) (i j : nat) (d : T),
    points ax = Some xs -> points ay = Some ys -> i < length xs -> j < length ys ->
    exists r, rq_forward_plumbing O var alpha ls ax ay = Some r /\
              Broadcast.nr r = length xs /\ Broadcast.nc r = length ys /\
              length (Broadcast.dat r) = length xs * length ys /\
              nth (i * Broadcast.nc r + j) (Broadcast.dat r) d = rq O var alpha ls (nth i xs d) (nth j ys d).
Proof. exact @rq_plumbing_entry. Qed.

(** the two carriers of the development, without hypothesis: reals (the object of the theorems above) and binary64 with
    EVERY recorded libm table (the object of the bitwise correspondence) *)
Theorem C20_matrix_form_is_plumbing_rbf_R :
  forall (var ls : R) (ax ay : karg R),
    rbf_forward_plumbing RO var ls ax ay =
    match points ax, points ay with
    | Some xs, Some ys => Some (mkmat (length xs) (length ys) (flatten (rbf_matrix RO var ls xs ys)))
    | _, _ => None
    end.
Proof. exact rbf_plumbing_R. Qed.
Theorem C20_matrix_form_is_plumbing_rq_R :
  forall (var alpha ls : R) (ax ay : karg R),
    rq_forward_plumbing RO var alpha ls ax ay =
    match points ax, points ay with
    | Some xs, Some ys => Some (mkmat (length xs) (length ys) (flatten (rq_matrix RO var alpha ls xs ys)))
    | _, _ => None
    end.
Proof. exact rq_plumbing_R. Qed.
Theorem C20_matrix_form_is_plumbing_rbf_binary64 :
  forall (tbl : libm_table) (var ls : PrimFloat.float) (ax ay : karg PrimFloat.float),
    rbf_forward_plumbing (FO tbl) var ls ax ay =
    match points ax, points ay with
    | Some xs, Some ys => Some (mkmat (length xs) (length ys) (flatten (rbf_matrix (FO tbl) var ls xs ys)))
    | _, _ => None
    end.
Proof. exact rbf_plumbing_binary64. Qed.
Theorem C20_matrix_form_is_plumbing_rq_binary64 :
  forall (tbl : libm_table) (var alpha ls : PrimFloat.float) (ax ay : karg PrimFloat.float),
    rq_forward_plumbing (FO tbl) var alpha ls ax ay =
    match points ax, points ay with
    | Some xs, Some ys => Some (mkmat (length xs) (length ys) (flatten (rq_matrix (FO tbl) var alpha ls xs ys)))
    | _, _ => None
    end.
Proof. exact rq_plumbing_binary64. Qed.

(** rejection, every carrier: the call returns a value exactly when both arguments have a point set ... *)
Theorem C20_matrix_form_is_plumbing_rbf_accepts_iff :
  forall (T : Type) (O : Ops T) (var ls : T) (ax ay : karg T),
    (exists r, rbf_forward_plumbing O var ls ax ay = Some r) <-> (points ax <> None /\ points ay <> None).
Proof. exact @rbf_plumbing_accepts_iff. Qed.
Theorem C20_matrix_form_is_plumbing_rq_accepts_iff :
  forall (T : Type) (O : Ops T) (var alpha ls : T) (ax ay : karg T),
    (exists r, rq_forward_plumbing O var alpha ls ax ay = Some r) <-> (points ax <> None /\ points ay <> None).
Proof. exact @rq_plumbing_accepts_iff. Qed.
(** ... and an argument has no point set exactly when it is an empty Vector (refused by the repaired code's own assertion on
    the sizes; the original refused it inside [powi]), or a Matrix violating the struct invariant / without entries
    ([Matrix::empty()]: refused by the reshape).  A row-shaped (or any r x c) Matrix IS accepted:
    it is flattened to r*c points, so two Matrix arguments of unequal counts are fine. *)
Theorem C20_matrix_form_is_plumbing_rejected_arguments :
  forall (T : Type) (a : karg T),
    points a = None <->
    match a with
    | KVector v | KRefVector v => v = []
    | KMatrix m | KRefMatrix m => Shape.nrows m * Shape.ncols m <> length (Shape.data m) \/ Shape.data m = []
    end.
Proof. exact @points_none_iff. Qed.
(** the owned and the borrowed form of an argument run the same code ([reshape] takes [&self]) *)
Theorem C20_matrix_form_is_plumbing_owned_is_borrowed :
  forall (T : Type) (O : Ops T) (var alpha ls : T) (v w : list T) (m p : Shape.mat T),
    rbf_forward_plumbing O var ls (KVector v) (KVector w) = rbf_forward_plumbing O var ls (KRefVector v) (KRefVector w) /\
    rbf_forward_plumbing O var ls (KMatrix m) (KMatrix p) = rbf_forward_plumbing O var ls (KRefMatrix m) (KRefMatrix p) /\
    rq_forward_plumbing O var alpha ls (KVector v) (KVector w) = rq_forward_plumbing O var alpha ls (KRefVector v) (KRefVector w) /\
    rq_forward_plumbing O var alpha ls (KMatrix m) (KMatrix p) = rq_forward_plumbing O var alpha ls (KRefMatrix m) (KRefMatrix p).
Proof. exact @plumbing_owned_is_borrowed. Qed.

(** the hypotheses are satisfiable on a non-trivial instance: a 2 x 3 Matrix (six points after flattening) against a
    borrowed 2 x 1 Matrix of two points, on the reals; the composition returns a 6 x 2 matrix; an empty Vector and a Matrix
    whose data is too short have no point set and the call panics; the carrier hypothesis holds on the reals *)
Example C20_example_plumbing :
  let a := KMatrix (mkMat 2 3 [1%R; 2%R; 3%R; 4%R; 5%R; 6%R]) in let b := KRefMatrix (mkMat 2 1 [0%R; 7%R]) in
  points a = Some [1%R; 2%R; 3%R; 4%R; 5%R; 6%R] /\ points b = Some [0%R; 7%R] /\
  (exists r, rbf_forward_plumbing RO 1%R 1%R a b = Some r /\ Broadcast.nr r = 6 /\ Broadcast.nc r = 2) /\
  points (KVector (@nil R)) = None /\ points (KMatrix (mkMat 2 2 [1%R; 2%R; 3%R])) = None /\
  rbf_forward_plumbing RO 1%R 1%R (KVector []) (KVector [1%R]) = None /\
  (forall x : R, mul RO x x = powi RO x 2).
Proof.
  cbv zeta. split; [reflexivity|]. split; [reflexivity|]. split.
  - rewrite rbf_plumbing_R. eexists; split; [reflexivity|split; reflexivity].
  - split; [reflexivity|]. split; [reflexivity|]. split; [rewrite rbf_plumbing_R; reflexivity|exact sq_is_powi_R].
Qed.

From Coq Require Import Floats.
(** the defect the repair removes, on binary64 (no libm involved): for the two points 999 and 999.000001 (inside the stated
    range +-1e3) the ORIGINAL squared distance x^2 + y^2 - 2 (0 + x y) is NEGATIVE (-2^-32, true value 1e-12), so that with the
    length scale 1e-2 the entry exp(+2^-32 / 2e-4) * var exceeded the variance; the difference-first form is positive *)
Example C20_original_expanded_square_negative :
  let x := 0x1.f380000000000p+9%float in let y := 0x1.f3800008637bdp+9%float in
  PrimFloat.ltb (sqdist_expanded FO0 x y) 0%float = true /\
  PrimFloat.ltb 0%float (powi FO0 (Ops.sub FO0 x y) 2) = true.
Proof. exact original_expanded_square_negative. Qed.
