(** * C12 — broadcast arithmetic follows NumPy semantics.
    Statements only; proofs are in Proofs/C12*.v.  Every theorem about [broadcast] holds for an arbitrary
    carrier [T] and an arbitrary binary operation [op] (no algebraic law is assumed, in particular not
    commutativity), hence bit for bit on binary64 and with operand order preserved for - and /.
    [calc_broadcast_shape] and the wiring tables are REGENERATED from the Rust source on every run (Tie A);
    the ten match arms in [broadcast] are hand-written; they are tied to the code by the correspondence check and, since the
    third round of the loop translator, by Tie A as well: [C12_model_is_source_broadcast] at the end of this file. *)
From Coq Require Import String.
From Coq Require Import List Arith Bool ZArith.
From Compute Require Import Base.Ops Base.ListMat Model.Broadcast Spec.Broadcast Spec.BroadcastClassifier.
From Compute Require Import Proofs.C12Classifier Proofs.C12.
Import ListNotations.

(** ** The main claim *)

(** closed form, acceptance and rejection at once: on well-formed operands [broadcast] returns exactly the
    NumPy result (shape = element-wise max, data = the row-major table of
    [op left[i or 0][j or 0] right[i or 0][j or 0]]) when the shapes are compatible, and panics otherwise *)
Theorem C12_broadcast_numpy :
  forall (T : Type) (op : T -> T -> T) (m1 m2 : mat T) (d : T),
    wf_mat m1 -> wf_mat m2 ->
    broadcast op m1 m2 =
    if np_compatible_b (nr m1) (nc m1) (nr m2) (nc m2)
    then Some (mkmat (Nat.max (nr m1) (nr m2)) (Nat.max (nc m1) (nc m2))
                     (np_data op d (nr m1) (nc m1) (dat m1) (nr m2) (nc m2) (dat m2)))
    else None.
Proof. exact @broadcast_numpy. Qed.

(** no incompatible pair ever yields a value and no compatible pair panics *)
Theorem C12_broadcast_total :
  forall (T : Type) (op : T -> T -> T) (m1 m2 : mat T),
    wf_mat m1 -> wf_mat m2 ->
    (np_compatible (nr m1) (nc m1) (nr m2) (nc m2) <-> exists r, broadcast op m1 m2 = Some r).
Proof. exact @broadcast_total. Qed.

(** the result shape is the element-wise maximum (and the result is again a well-formed matrix) *)
Theorem C12_broadcast_shape :
  forall (T : Type) (op : T -> T -> T) (m1 m2 r : mat T),
    wf_mat m1 -> wf_mat m2 -> broadcast op m1 m2 = Some r ->
    nr r = Nat.max (nr m1) (nr m2) /\ nc r = Nat.max (nc m1) (nc m2) /\ wf_mat r.
Proof. exact @broadcast_shape. Qed.

(** entry (i,j) of the result is [left[i or 0][j or 0] op right[i or 0][j or 0]] on the flat row-major data,
    the left operand on the left of [op] (this is what covers - and / on the swapped classifier paths) *)
Theorem C12_broadcast_entry :
  forall (T : Type) (op : T -> T -> T) (m1 m2 r : mat T) (d : T) (i j : nat),
    wf_mat m1 -> wf_mat m2 -> broadcast op m1 m2 = Some r ->
    i < nr r -> j < nc r ->
    nth (i * nc r + j) (dat r) d =
    op (nth (bidx (nr m1) i * nc m1 + bidx (nc m1) j) (dat m1) d)
       (nth (bidx (nr m2) i * nc m2 + bidx (nc m2) j) (dat m2) d).
Proof. exact @broadcast_entry. Qed.

(** the hypotheses are satisfiable on non-trivial instances (a non-commutative [op], shapes that broadcast):
    column - row on a swapped-free path, row - matrix and matrix / column on the paths reached after the
    classifier swaps its operands, and a rejected pair *)
Example C12_example_outer :
  let m1 := mkmat 3 1 [1; 2; 3]%Z in let m2 := mkmat 1 2 [10; 20]%Z in
  wf_mat m1 /\ wf_mat m2 /\ np_compatible 3 1 1 2 /\
  broadcast Z.sub m1 m2 = Some (mkmat 3 2 [-9; -19; -8; -18; -7; -17]%Z).
Proof. cbv [wf_mat np_compatible dim_compatible nr nc dat length]. repeat split; auto. Qed.

Example C12_example_swapped_paths :
  let M := mkmat 2 3 [1; 2; 3; 4; 5; 6]%Z in
  let row := mkmat 1 3 [10; 20; 30]%Z in let col := mkmat 2 1 [2; 5]%Z in
  wf_mat M /\ wf_mat row /\ wf_mat col /\
  broadcast Z.sub row M = Some (mkmat 2 3 [9; 18; 27; 6; 15; 24]%Z) /\
  broadcast Z.sub M row = Some (mkmat 2 3 [-9; -18; -27; -6; -15; -24]%Z) /\
  broadcast Z.div M col = Some (mkmat 2 3 [0; 1; 1; 0; 1; 1]%Z) /\
  broadcast Z.div col M = Some (mkmat 2 3 [2; 1; 0; 1; 1; 0]%Z).
Proof. cbv [wf_mat nr nc dat length]. repeat split; auto. Qed.

Example C12_example_rejected :
  let m1 := mkmat 2 3 [1; 2; 3; 4; 5; 6]%Z in let m2 := mkmat 3 2 [1; 2; 3; 4; 5; 6]%Z in
  wf_mat m1 /\ wf_mat m2 /\ ~ np_compatible 2 3 3 2 /\ broadcast Z.add m1 m2 = None.
Proof.
  cbv [wf_mat np_compatible dim_compatible nr nc dat length]. repeat split; auto.
  intros [[H|[H|H]] _]; discriminate H.
Qed.

(** ** The regenerated shape classifier (Tie A): every input, including zero extents *)

(** compatible shapes are classified into one of the nine valid leaves, with the right parameters *)
Theorem C12_classifier_complete :
  forall r1 c1 r2 c2 : nat,
    np_compatible r1 c1 r2 c2 ->
    exists b, calc_broadcast_shape r1 c1 r2 c2 = Some b /\ leaf_ok r1 c1 r2 c2 b.
Proof. exact classifier_complete. Qed.

(** every result is a valid leaf that tells the truth about the shapes, or [(Invalid, Invalid)] *)
Theorem C12_classifier_sound :
  forall (r1 c1 r2 c2 : nat) (b : Broadcast * Broadcast),
    calc_broadcast_shape r1 c1 r2 c2 = Some b ->
    b = (BInvalid, BInvalid) \/ leaf_ok r1 c1 r2 c2 b.
Proof. exact classifier_sound. Qed.

(** the decision tree is total and exact: a valid result exactly on the compatible pairs; on the others an
    [assert!] fails or the result is [(Invalid, Invalid)] (which the catch-all arm turns into a panic) *)
Theorem C12_classifier_total :
  forall r1 c1 r2 c2 : nat,
    np_compatible r1 c1 r2 c2 <->
    exists b, calc_broadcast_shape r1 c1 r2 c2 = Some b /\ b <> (BInvalid, BInvalid).
Proof. exact classifier_total. Qed.

Theorem C12_classifier_rejects :
  forall r1 c1 r2 c2 : nat,
    ~ np_compatible r1 c1 r2 c2 ->
    calc_broadcast_shape r1 c1 r2 c2 = None \/ calc_broadcast_shape r1 c1 r2 c2 = Some (BInvalid, BInvalid).
Proof. exact classifier_rejects. Qed.

(** the recursive operand swap recurses at most once: the fuel of the translation is never exhausted *)
Theorem C12_classifier_fuel_stable :
  forall k r1 c1 r2 c2 : nat,
    calc_broadcast_shape_fuel (S (S k)) r1 c1 r2 c2 = calc_broadcast_shape r1 c1 r2 c2.
Proof. exact classifier_fuel_stable. Qed.

Example C12_example_classifier :
  np_compatible 4 1 1 7 /\ calc_broadcast_shape 4 1 1 7 = Some (BHstack 7, BVstack 4) /\
  calc_broadcast_shape 4 7 1 7 = Some (BNone, BVstack 4) /\          (* reached through the swap *)
  ~ np_compatible 2 2 3 3 /\ calc_broadcast_shape 2 2 3 3 = Some (BInvalid, BInvalid) /\
  ~ np_compatible 1 3 2 4 /\ calc_broadcast_shape 1 3 2 4 = None.
Proof.
  cbv [np_compatible dim_compatible]. repeat split; auto;
    intros [[H|[H|H]] [H'|[H'|H']]]; discriminate.
Qed.

(** ** The wiring of the 48 operator impls (regenerated tables, Tie A) *)

(** 48 rows, one per (trait, Self, Other); each calls the broadcast function of its trait's operator with
    (self, other) in this order, promoting exactly the Vector operands; each broadcast function's equal-shape
    kernel and the scalar impls behind its two scalar arms use the same operator token; the three kernel
    macros keep the operand order *)
Theorem C12_wiring_consistent : wiring_consistent = true.
Proof. exact wiring_consistent_true. Qed.

Theorem C12_impls_are_broadcast :
  forall (T : Type) (O : Ops T) (row : impl_row) (self other : value T),
    In row impl_rows ->
    value_has_type (i_self row) self = true -> value_has_type (i_other row) other = true ->
    run_impl O row self other =
    bind (promote self) (fun a => bind (promote other) (fun b =>
      broadcast (tok_op O (trait_tok (i_trait row))) a b)).
Proof. exact @impls_are_broadcast. Qed.

Theorem C12_impls_cover :
  forall (tr : optrait) (s o : opty),
    In tr all_traits -> In (s, o) all_type_pairs ->
    exists row, find_impl tr s o = Some row /\ In row impl_rows /\
                i_trait row = tr /\ i_self row = s /\ i_other row = o.
Proof. exact impls_cover. Qed.

(** the property at the level of the operators, for each of the 48 impls: the NumPy result of the trait's
    operator with [self] on the left and a Vector operand read as 1 x n, or a panic exactly on incompatible shapes *)
Theorem C12_operator_numpy :
  forall (T : Type) (O : Ops T) (row : impl_row) (self other : value T) (m1 m2 : mat T) (d : T),
    In row impl_rows ->
    value_has_type (i_self row) self = true -> value_has_type (i_other row) other = true ->
    denotes self m1 -> denotes other m2 ->
    run_impl O row self other =
    if np_compatible_b (nr m1) (nc m1) (nr m2) (nc m2)
    then Some (mkmat (Nat.max (nr m1) (nr m2)) (Nat.max (nc m1) (nc m2))
                     (np_data (tok_op O (trait_tok (i_trait row))) d
                              (nr m1) (nc m1) (dat m1) (nr m2) (nc m2) (dat m2)))
    else None.
Proof. exact @operator_numpy. Qed.

(** an empty Vector operand always panics (its 1 x 0 promotion is refused by [Matrix::new]; the repaired
    [Matrix::new] accepts only ONE shape with a zero dimension, 0 x 0 on empty data, so this is unchanged) *)
Theorem C12_empty_vector_panics :
  forall (T : Type) (O : Ops T) (row : impl_row) (self other : value T),
    In row impl_rows ->
    value_has_type (i_self row) self = true -> value_has_type (i_other row) other = true ->
    self = VVec [] \/ other = VVec [] ->
    run_impl O row self other = None.
Proof. exact @empty_vector_panics. Qed.

(** [&Vector - Matrix] on the integers: the row is the left operand of every subtraction *)
Example C12_example_operator :
  exists row, find_impl TrSub TyRefVector TyMatrix = Some row /\ In row impl_rows /\
    value_has_type (i_self row) (VVec [10; 20]%Z) = true /\
    value_has_type (i_other row) (VMat (mkmat 2 2 [1; 2; 3; 4]%Z)) = true /\
    denotes (VVec [10; 20]%Z) (mkmat 1 2 [10; 20]%Z) /\
    denotes (VMat (mkmat 2 2 [1; 2; 3; 4]%Z)) (mkmat 2 2 [1; 2; 3; 4]%Z) /\
    broadcast Z.sub (mkmat 1 2 [10; 20]%Z) (mkmat 2 2 [1; 2; 3; 4]%Z) = Some (mkmat 2 2 [9; 18; 7; 16]%Z).
Proof.
  destruct (C12_impls_cover TrSub TyRefVector TyMatrix) as [row (Hf & Hin & Ht & Hs & Ho)];
    [cbn; tauto|cbn; tauto|].
  exists row. rewrite Hs, Ho. cbv [denotes wf_mat nr nc dat length value_has_type is_vec_ty negb].
  repeat split; auto; discriminate.
Qed.

(** ** The empty 0 x 0 matrix ([Matrix::empty()]; outside the property's quantifier, which starts at 1 x 1).
    Since the repair of the C04 finding [empty-matrix:value-form-panics] ([reshape_mut] accepts the request 0 x 0 on
    empty data) [Matrix::new] no longer refuses it, and broadcasting follows NumPy's rule for the shape (0, 0): it is
    compatible with (0, 0) and with (1, 1) only, and the result is the empty matrix (a dimension of extent 0 against
    extent 1 gives extent 0 -- "element-wise maximum" is the rule for positive extents); against every other
    well-formed operand the operator panics.  (On the original code all of these panicked.) *)
Theorem C12_matrix_new_accepts :
  forall (T : Type) (a : list T) (r c : nat),
    matrix_new a r c = (if new_ok (length a) r c then Some (mkmat r c a) else None) /\
    (new_ok (length a) r c = true <-> (0 < r /\ 0 < c /\ r * c = length a) \/ (r = 0 /\ c = 0 /\ length a = 0)).
Proof. exact @matrix_new_accepts. Qed.

Theorem C12_empty_matrix_broadcast :
  forall (T : Type) (op : T -> T -> T),
    broadcast op (mkmat 0 0 []) (mkmat 0 0 []) = Some (mkmat 0 0 []) /\
    forall m : mat T, wf_mat m ->
      broadcast op (mkmat 0 0 []) m = (if (nr m =? 1) && (nc m =? 1) then Some (mkmat 0 0 []) else None) /\
      broadcast op m (mkmat 0 0 []) = (if (nr m =? 1) && (nc m =? 1) then Some (mkmat 0 0 []) else None).
Proof. exact @empty_matrix_broadcast. Qed.

(** closure: on operands that are well formed or empty, a result is well formed or empty *)
Theorem C12_broadcast_closed_wf0 :
  forall (T : Type) (op : T -> T -> T) (m1 m2 r : mat T),
    wf_mat0 m1 -> wf_mat0 m2 -> broadcast op m1 m2 = Some r -> wf_mat0 r.
Proof. exact @broadcast_wf0. Qed.

Example C12_example_empty_matrix :
  broadcast Z.sub (mkmat 0 0 []) (mkmat 1 1 [5%Z]) = Some (mkmat 0 0 []) /\
  broadcast Z.sub (mkmat 3 3 [1; 2; 3; 4; 5; 6; 7; 8; 9]%Z) (mkmat 0 0 []) = None /\
  broadcast Z.sub (mkmat 0 0 []) (mkmat 1 3 [1; 2; 3]%Z) = None /\
  vec_to_matrix (@nil Z) = None /\ matrix_new (@nil Z) 0 3 = None /\ matrix_new (@nil Z) 0 0 = Some (mkmat 0 0 []).
Proof. repeat split. Qed.

(** ** Tie A for the ten arms of [broadcast_op!] (regenerated from src/linalg/array/broadcast.rs and matrix.rs on every run by
    tools/tiea/broadcast_arms.py): the arms ARE the source.  [src_broadcast] is the macro body translated statement for
    statement — the [match] on the pair returned by [calc_broadcast_shape] with its patterns in source order, the clones, the
    loops over rows with [apply_along_row] / [iter_mut().zip(..).for_each(..)], the double loops [new[i][j] = ..] on a zero
    matrix, the scalar arms, the panic of the default arm — on ONE flat row-major [data] (a row is the window
    [data[i * ncols .. (i + 1) * ncols]] guarded by [i < nrows], read with [rs_slice] and written back with [rs_put_slice]); the
    model works on rows.  A [Matrix] of the generated text is [zm m] = (nrows, ncols, data) with the dimensions in [Z]; the enum
    [Broadcast] is [rs_Broadcast] ([bz]).  Abstract parameters instantiated by the models: [calc_z] = the regenerated classifier,
    [zeros_z] = [Matrix::zeros] = [matrix_new] of zeros, [matmat_z] = [$matmatfn], [op] = [$op] on f64, [scalar_mat_z] /
    [mat_scalar_z] = [$op] between an f64 and a Matrix.  Hypothesis: the struct invariant [data.len() = nrows * ncols] of both
    operands.  No law of [op] is used: any binary operation, operand order as in the source. *)
From Coq Require Import QArith.
From Compute Require Import Base.RsExpr Base.RsExprMut Base.RsExprMore Generated.broadcast_arms Proofs.TieA_broadcast_arms.
Local Close Scope Q_scope.
Theorem C12_model_is_source_broadcast :
  forall (T : Type) (O : Ops T) (op : T -> T -> T) (m1 m2 : mat T),
    length (dat m1) = nr m1 * nc m1 -> length (dat m2) = nr m2 * nc m2 ->
    src_broadcast O (calc_z (T := T)) (zeros_z O) (matmat_z op) op (scalar_mat_z op) (mat_scalar_z op) (zm m1) (zm m2)
    = option_map zm (broadcast op m1 m2).
Proof. exact @tiea_broadcast. Qed.
(** the translated [Matrix] methods the arms use, against the rows view: [m[i]] is row [i] ([None] = the assertion [i < nrows]
    fails), [apply_along_row] maps one row *)
Theorem C12_model_is_source_index :
  forall (T : Type) (O : Ops T) (d : list T) (nr nc i : nat), length d = nr * nc ->
    src_index O d (Z.of_nat nr) (Z.of_nat nc) (Z.of_nat i) = nth_error (unflatten d nr nc) i.
Proof. exact @index_rows. Qed.
(** not vacuous: a 2x2 matrix minus a row vector (operand order visible), and a column minus a row on a zero matrix, on the rationals *)
Example C12_model_is_source_example :
  src_broadcast QO calc_z (zeros_z QO) (matmat_z (sub QO)) (sub QO) (scalar_mat_z (sub QO)) (mat_scalar_z (sub QO))
    (2%Z, 2%Z, [10; 20; 30; 40]%Q) (1%Z, 2%Z, [1; 2]%Q) = Some (2%Z, 2%Z, [9; 18; 29; 38]%Q) /\
  src_broadcast QO calc_z (zeros_z QO) (matmat_z (sub QO)) (sub QO) (scalar_mat_z (sub QO)) (mat_scalar_z (sub QO))
    (2%Z, 1%Z, [10; 20]%Q) (1%Z, 3%Z, [1; 2; 3]%Q) = Some (2%Z, 3%Z, [9; 8; 7; 19; 18; 17]%Q) /\
  src_broadcast QO calc_z (zeros_z QO) (matmat_z (sub QO)) (sub QO) (scalar_mat_z (sub QO)) (mat_scalar_z (sub QO))
    (2%Z, 2%Z, [10; 20; 30; 40]%Q) (1%Z, 3%Z, [1; 2; 3]%Q) = None.
Proof. vm_compute. repeat split; reflexivity. Qed.
