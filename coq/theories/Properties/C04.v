(** * C04 — element-wise arithmetic and maps are exact at every length and operand form; reductions.
    Statements only; proofs are in Proofs/C04*.v.
    - The kernel theorems hold for an arbitrary carrier [T] and arbitrary functions in place of the macro
      parameters [$op] (no algebraic law is assumed), for EVERY length: on binary64 they say that each position
      holds exactly the IEEE result of the scalar operation on the elements at that position, operands in the
      stated order.
    - Which kernel / token / argument order / wrapper each of the 72 operator impls uses is a table REGENERATED from
      the Rust source on every run (Tie A); [C04_wiring_consistent] is recomputed on it and the operator theorems
      are proved from that fact alone.
    - The reductions are related to their mathematical definition on the reals (exact arithmetic). *)
From Coq Require Import String.
From Coq Require Import List Arith Bool ZArith QArith Reals Floats Lra.
From Compute Require Import Base.Ops Base.ListMat Model.Reduce Model.Broadcast Model.Vops Spec.Vops.
From Compute Require Import Proofs.C04 Proofs.C04Ops Proofs.C04Red Proofs.C04Float Proofs.C04Err Proofs.C04ErrF Proofs.C04ErrDot Proofs.C04ErrNP Proofs.C04ErrEx.
Import ListNotations.
Local Close Scope Q_scope.
Local Open Scope nat_scope.

(** ** 1. The unrolled kernels *)

(** every kernel macro: the chunk body [f] on the first [n - n mod 8] positions, the remainder body [g] on the rest *)
Theorem C04_kernel_split :
  forall (T : Type) (f g : T -> T) (v : list T),
    kernel1 f g v = map f (firstn (chunked (length v)) v) ++ map g (skipn (chunked (length v)) v).
Proof. exact @kernel1_split. Qed.

(** same body in both loops (all kernels but [vpowi] with exponent 2 / 3): the kernel is the point-wise map *)
Theorem C04_kernel_pointwise :
  forall (T : Type) (f : T -> T) (v : list T), kernel1 f f v = map f v.
Proof. exact @kernel1_map. Qed.

(** position by position, with the length preserved *)
Theorem C04_kernel_nth :
  forall (T : Type) (f g : T -> T) (v : list T) (i : nat) (d : T),
    i < length v ->
    nth i (kernel1 f g v) d = if i <? chunked (length v) then f (nth i v d) else g (nth i v d).
Proof. exact @kernel1_nth. Qed.
Theorem C04_kernel_length :
  forall (T : Type) (f g : T -> T) (v : list T), length (kernel1 f g v) = length v.
Proof. exact @kernel1_length. Qed.

(** [vadd] / [vsub] / [vmul] / [vdiv]: acceptance (equal lengths: the point-wise [map2], left operand on the left)
    and rejection (different lengths: panic) in one closed form; and position by position *)
Theorem C04_vbin :
  forall (T : Type) (op : T -> T -> T) (v1 v2 : list T),
    vbin op v1 v2 = if length v1 =? length v2 then Some (map2 op v1 v2) else None.
Proof. exact @vbin_closed. Qed.
Theorem C04_vbin_accepts :
  forall (T : Type) (op : T -> T -> T) (v1 v2 : list T),
    length v1 = length v2 -> vbin op v1 v2 = Some (map2 op v1 v2).
Proof. exact @vbin_accepts. Qed.
Theorem C04_vbin_rejects :
  forall (T : Type) (op : T -> T -> T) (v1 v2 : list T),
    length v1 <> length v2 -> vbin op v1 v2 = None.
Proof. exact @vbin_rejects. Qed.
Theorem C04_map2_nth :
  forall (T : Type) (op : T -> T -> T) (v1 v2 : list T) (i : nat) (d : T),
    i < length v1 -> i < length v2 -> nth i (map2 op v1 v2) d = op (nth i v1 d) (nth i v2 d).
Proof. exact @map2_nth. Qed.

(** the [_mut] kernels: the new content of the left operand (the right operand is a shared borrow) *)
Theorem C04_vbin_mut :
  forall (T : Type) (op : T -> T -> T) (v1 v2 : list T),
    vbin_mut op v1 v2 = if length v1 =? length v2 then Some (map2 op v1 v2) else None.
Proof. exact @vbin_mut_closed. Qed.

(** vector-scalar, scalar-vector (scalar on the LEFT of the operation), vector-scalar assign *)
Theorem C04_vs :
  forall (T : Type) (op : T -> T -> T) (v : list T) (s : T), vs op v s = map (fun x => op x s) v.
Proof. exact @vs_map. Qed.
Theorem C04_sv :
  forall (T : Type) (op : T -> T -> T) (s : T) (v : list T), sv op s v = map (fun x => op s x) v.
Proof. exact @sv_map. Qed.
Theorem C04_vs_mut :
  forall (T : Type) (op : T -> T -> T) (v : list T) (s : T), vs_mut op v s = map (fun x => op x s) v.
Proof. exact @vs_mut_map. Qed.

(** the 29 maps and [powf]: the scalar method at each position (on binary64 the libm-backed ones are the
    recorded values of the scalar [f64] method: kernel-vs-scalar) *)
Theorem C04_vmap :
  forall (T : Type) (O : Ops T) (u : umap) (v : list T), vmap O u v = map (umap_fn O u) v.
Proof. exact @vmap_map. Qed.
Theorem C04_vpowf :
  forall (T : Type) (O : Ops T) (v : list T) (a : T), vpowf O v a = map (fun x => powf O x a) v.
Proof. exact @vpowf_map. Qed.

(** [powi]: exactly what the three branches compute ... *)
Theorem C04_vpowi_split :
  forall (T : Type) (O : Ops T) (v : list T) (n : Z),
    vpowi O v n = map (powi_chunk O n) (firstn (chunked (length v)) v)
                  ++ map (fun x => powi O x n) (skipn (chunked (length v)) v).
Proof. exact @vpowi_split. Qed.
(** ... which is the point-wise [powi] for every exponent other than 2 and 3 on every carrier ... *)
Theorem C04_vpowi_other :
  forall (T : Type) (O : Ops T) (v : list T) (n : Z),
    n <> 2%Z -> n <> 3%Z -> vpowi O v n = map (fun x => powi O x n) v.
Proof. exact @vpowi_other. Qed.
(** ... and for 2 and 3 wherever [x*x] and [x*x*x] agree with [powi] on the elements ... *)
Theorem C04_vpowi_pointwise :
  forall (T : Type) (O : Ops T) (v : list T) (n : Z),
    (n = 2%Z -> forall x, In x v -> mul O x x = powi O x 2) ->
    (n = 3%Z -> forall x, In x v -> mul O (mul O x x) x = powi O x 3) ->
    vpowi O v n = map (fun x => powi O x n) v.
Proof. exact @vpowi_pointwise. Qed.
(** ... which is the case on the reals ... *)
Theorem C04_vpowi_R :
  forall (v : list R) (n : Z), vpowi RO v n = map (fun x => powi RO x n) v.
Proof. exact vpowi_R. Qed.
(** ... and on binary64: [x*x] and [x*x*x] ARE the values of the square-and-multiply [powi x 2], [powi x 3]
    (Leibniz equality on Coq's primitive floats, i.e. bit-equal up to the NaN payload), so the kernel is the
    point-wise scalar [powi] at every length and for every exponent *)
Theorem C04_powi2_is_mul :
  forall (tbl : libm_table) (x : float), mul (FO tbl) x x = powi (FO tbl) x 2.
Proof. exact powi2_is_mul. Qed.
Theorem C04_powi3_is_mul :
  forall (tbl : libm_table) (x : float), mul (FO tbl) (mul (FO tbl) x x) x = powi (FO tbl) x 3.
Proof. exact powi3_is_mul. Qed.
Theorem C04_vpowi_F :
  forall (tbl : libm_table) (v : list float) (n : Z),
    vpowi (FO tbl) v n = map (fun x => powi (FO tbl) x n) v.
Proof. exact vpowi_F. Qed.

Example C04_example_lengths :
  (* a length that crosses the unroll boundary with a non-empty remainder, a non-commutative operation *)
  vbin Z.sub [1;2;3;4;5;6;7;8;9;10;11]%Z [10;10;10;10;10;10;10;10;10;10;10]%Z
    = Some [-9;-8;-7;-6;-5;-4;-3;-2;-1;0;1]%Z
  /\ vbin Z.sub [1;2;3]%Z [1;2]%Z = None
  /\ sv Z.sub 100%Z [1;2;3;4;5;6;7;8;9]%Z = [99;98;97;96;95;94;93;92;91]%Z
  /\ chunked 11 = 8 /\ chunked 7 = 0 /\ chunked 16 = 16.
Proof. repeat split. Qed.

(** ** 2. The operator layer (Tie A) *)

Theorem C04_wiring_consistent : vops_wiring_consistent = true.
Proof. exact vops_wiring_consistent_true. Qed.

(** every form the crate should offer has an impl *)
Theorem C04_forms_exist :
  forall (tr : vtrait) (s o : vty), expected tr s o <> None -> exists r, find_row tr s o = Some r.
Proof. exact find_row_expected. Qed.

(** [Vector op Vector] (owned / borrowed on either side) and [Vector op= Vector]: the trait's operation, [self] on
    the left, at each position; different lengths panic *)
Theorem C04_vec_op_vec :
  forall (T : Type) (O : Ops T) (tr : vtrait) (s o : vty) (r : op_row) (a b : list T),
    find_row tr s o = Some r -> is_vec s = true -> is_vec o = true ->
    run_row O r (OVec a) (OVec b) =
    if length a =? length b then Some (map2 (trait_op O tr) a b) else None.
Proof. exact @vec_op_vec. Qed.
(** [Vector op f64], [&Vector op f64], [Vector op= f64] *)
Theorem C04_vec_op_scalar :
  forall (T : Type) (O : Ops T) (tr : vtrait) (s : vty) (r : op_row) (a : list T) (x : T),
    find_row tr s TyF64 = Some r -> is_vec s = true ->
    run_row O r (OVec a) (OSc x) = Some (map (fun e => trait_op O tr e x) a).
Proof. exact @vec_op_scalar. Qed.
(** [f64 op Vector], [f64 op &Vector]: [s - v] is [map (fun e => s - e)], not [e - s] *)
Theorem C04_scalar_op_vec :
  forall (T : Type) (O : Ops T) (tr : vtrait) (o : vty) (r : op_row) (x : T) (a : list T),
    find_row tr TyF64 o = Some r -> is_vec o = true ->
    run_row O r (OSc x) (OVec a) = Some (map (fun e => trait_op O tr x e) a).
Proof. exact @scalar_op_vec. Qed.
(** [Matrix op f64], [&Matrix op f64], [Matrix op= f64]: shape preserved *)
Theorem C04_mat_op_scalar :
  forall (T : Type) (O : Ops T) (tr : vtrait) (s : vty) (r : op_row) (m : mat T) (x : T),
    find_row tr s TyF64 = Some r -> is_mat s = true -> wf_mat m ->
    run_mat_row O r (MMat m) (MSc x) = Some (mkmat (nr m) (nc m) (map (fun e => trait_op O tr e x) (dat m))).
Proof. exact @mat_op_scalar. Qed.
(** [f64 op Matrix], [f64 op &Matrix] *)
Theorem C04_scalar_op_mat :
  forall (T : Type) (O : Ops T) (tr : vtrait) (o : vty) (r : op_row) (x : T) (m : mat T),
    find_row tr TyF64 o = Some r -> is_mat o = true -> wf_mat m ->
    run_mat_row O r (MSc x) (MMat m) = Some (mkmat (nr m) (nc m) (map (fun e => trait_op O tr x e) (dat m))).
Proof. exact @scalar_op_mat. Qed.
(** [Matrix op= Matrix], [Matrix op= &Matrix]: equal shapes give the point-wise result, any other shape panics *)
Theorem C04_mat_assign_mat :
  forall (T : Type) (O : Ops T) (tr : vtrait) (s o : vty) (r : op_row) (m1 m2 : mat T),
    find_row tr s o = Some r -> is_mat s = true -> is_mat o = true -> wf_mat m1 -> wf_mat m2 ->
    run_mat_row O r (MMat m1) (MMat m2) =
    if (nr m1 =? nr m2) && (nc m1 =? nc m2)
    then Some (mkmat (nr m1) (nc m1) (map2 (trait_op O tr) (dat m1) (dat m2))) else None.
Proof. exact @mat_assign_mat. Qed.
(** [Matrix op Matrix] on equal shapes: the binary kernel on the data, shape preserved; on all operands it is the
    [broadcast] of C12 (whose theorems decide every other shape pair, including the rejections) *)
Theorem C04_mat_op_mat :
  forall (T : Type) (O : Ops T) (t : vtok) (m1 m2 : mat T),
    wf_mat m1 -> wf_mat m2 -> nr m1 = nr m2 -> nc m1 = nc m2 ->
    mat_binop O t m1 m2 = Some (mkmat (nr m1) (nc m1) (map2 (tok_fn O t) (dat m1) (dat m2))).
Proof. exact @mat_binop_same_shape. Qed.
Theorem C04_mat_op_mat_is_broadcast :
  forall (T : Type) (O : Ops T) (t : vtok) (m1 m2 : mat T),
    mat_binop O t m1 m2 = broadcast (tok_fn O t) m1 m2.
Proof. exact @mat_binop_broadcast. Qed.

(** the map methods: [Vector::m] reaches the kernel of the scalar method [m] (through the regenerated tables),
    [Matrix::m] exists for each of the 29 and keeps the shape; [powf], [powi], negation likewise *)
Theorem C04_vector_map_methods :
  forall (T : Type) (O : Ops T) (u : umap) (v : list T),
    run_vecmap O (umap_method u) v = Some (map (umap_fn O u) v).
Proof. exact @run_vecmap_map. Qed.
Theorem C04_matrix_map_methods : forall u : umap, In (umap_method u) mat_unary_impls.
Proof. exact mat_map_methods. Qed.
Theorem C04_mat_map :
  forall (T : Type) (O : Ops T) (u : umap) (m : mat T),
    wf_mat m -> mat_map O u m = Some (mkmat (nr m) (nc m) (map (umap_fn O u) (dat m))).
Proof. exact @mat_map_wf. Qed.
Theorem C04_mat_powf :
  forall (T : Type) (O : Ops T) (m : mat T) (a : T),
    wf_mat m -> mat_powf O m a = Some (mkmat (nr m) (nc m) (map (fun x => powf O x a) (dat m))).
Proof. exact @mat_powf_wf. Qed.
Theorem C04_mat_powi :
  forall (T : Type) (O : Ops T) (m : mat T) (n : Z),
    wf_mat m -> mat_powi O m n = Some (mkmat (nr m) (nc m) (vpowi O (dat m) n)).
Proof. exact @mat_powi_wf. Qed.
Theorem C04_mat_neg :
  forall (T : Type) (O : Ops T) (m : mat T),
    wf_mat m -> mat_neg O m = Some (mkmat (nr m) (nc m) (map (neg O) (dat m))).
Proof. exact @mat_neg_wf. Qed.

Example C04_example_forms :
  (* f64 - &Vector and &Matrix - f64 exist, are wired to subtraction kernels, scalar on the stated side *)
  (exists r, find_row TSub TyF64 TyRefVector = Some r /\
             run_row QO r (OSc 10%Q) (OVec [1%Q; 2%Q; 3%Q]) = Some [9%Q; 8%Q; 7%Q]) /\
  (exists r, find_row TSub TyRefMatrix TyF64 = Some r /\
             run_mat_row QO r (MMat (mkmat 1 3 [1%Q; 2%Q; 3%Q])) (MSc 10%Q)
             = Some (mkmat 1 3 [(-9)%Q; (-8)%Q; (-7)%Q])) /\
  (exists r, find_row TDivAssign TyMatrix TyRefMatrix = Some r /\
             run_mat_row QO r (MMat (mkmat 2 1 [6%Q; 8%Q])) (MMat (mkmat 2 1 [3%Q; 2%Q])) = Some (mkmat 2 1 [2%Q; 4%Q]) /\
             run_mat_row QO r (MMat (mkmat 2 1 [6%Q; 8%Q])) (MMat (mkmat 1 2 [3%Q; 2%Q])) = None) /\
  wf_mat (mkmat 2 1 [6%Q; 8%Q]).
Proof.
  repeat split; try (eexists; split; [reflexivity|]); try (vm_compute; reflexivity); try (split; vm_compute; reflexivity);
    cbv [nr nc dat length]; auto.
Qed.

(** ** 3. Reductions (exact arithmetic) *)
Local Open Scope R_scope.

Theorem C04_sum_R : forall x : list R, Reduce.sum RO x = Rsum x.
Proof. exact sum_R. Qed.
Theorem C04_dot_R :
  forall x y : list R, Reduce.dot RO x y = if (length x =? length y)%nat then Some (Rdot x y) else None.
Proof. exact dot_R. Qed.
Theorem C04_norm_R : forall x : list R, Reduce.norm RO x = R_sqrt.sqrt (Rsum (map (fun a => a * a) x)).
Proof. intros x. rewrite norm_R, Rdot_self. reflexivity. Qed.
Theorem C04_prod_R : forall x : list R, Reduce.prod RO x = Rprod x.
Proof. exact prod_R. Qed.

(** the NaN-seeded fold of [statistics::max] is the model's [vmax] whenever the seed is a NaN (any carrier); the
    seed is a NaN on binary64; on the reals [vmax] is the maximum *)
Theorem C04_max_seeded :
  forall (T : Type) (O : Ops T) (seed x0 : T) (xs : list T),
    is_nan O seed = true -> max_seeded O seed (x0 :: xs) = vmax O (x0 :: xs).
Proof. exact @max_seeded_vmax. Qed.
Theorem C04_max_seed_is_nan : forall tbl : libm_table, is_nan (FO tbl) (nan_ (FO tbl)) = true.
Proof. exact nan_is_nan_FO. Qed.
Theorem C04_max_R : forall x : list R, x <> [] -> is_max (vmax RO x) x.
Proof. exact vmax_R. Qed.

(** log-sum-exp and log-mean-exp of a non-empty slice *)
Theorem C04_logsumexp_R : forall x : list R, x <> [] -> logsumexp RO x = ln (Rsum (map exp x)).
Proof. exact logsumexp_R. Qed.
Theorem C04_logmeanexp_R :
  forall x : list R, x <> [] -> logmeanexp RO x = ln (Rsum (map exp x) / INR (length x)).
Proof. exact logmeanexp_R. Qed.
(** overflow safety: every argument of [exp] is <= 0 and the argument of [ln] lies in [1, n] *)
Theorem C04_logsumexp_safe :
  forall x : list R, x <> [] ->
    let m := vmax RO x in
    (forall e, In e x -> sub RO e m <= 0) /\ 1 <= shifted_exp_sum RO m x <= INR (length x).
Proof. exact logsumexp_safe. Qed.

(** the free [inf_norm]: acceptance (largest absolute row sum) and rejection (zero rows / not a matrix) *)
Theorem C04_inf_norm_accepts :
  forall (x : list R) (nrows ncols : nat),
    nrows <> 0%nat -> length x = (nrows * ncols)%nat ->
    exists r, inf_norm RO x nrows = Some r /\ is_max r (abs_row_sums x nrows ncols).
Proof. exact inf_norm_accepts. Qed.
Theorem C04_inf_norm_rejects :
  forall (x : list R) (nrows : nat),
    nrows = 0%nat \/ (length x mod nrows <> 0)%nat -> inf_norm RO x nrows = None.
Proof. exact inf_norm_rejects. Qed.
(** [Matrix::inf_norm] (abs, unrolled row sums, max) *)
Theorem C04_mat_inf_norm_R :
  forall m : mat R, wf_mat m ->
    exists r, mat_inf_norm RO m = Some r /\ is_max r (abs_row_sums (dat m) (nr m) (nc m)).
Proof. exact mat_inf_norm_R. Qed.

Example C04_example_reductions :
  let x : list R := [1; -5; 2] in let y : list R := [1; -5; 2; 3] in
  x <> [] /\ wf_mat (mkmat 2 2 y) /\ length y = (2 * 2)%nat /\ (length x mod 2)%nat <> 0%nat.
Proof. repeat split; cbv [nr nc dat length]; auto; try discriminate. Qed.

(** ** 3b. Rounding error of the unrolled [sum] (extension) *)

(** in the standard model of floating-point arithmetic (a rounded addition with relative error at most [u] on a set
    [F] of representable numbers closed under it) the 8-way unrolled [sum] obeys the classical worst-case bound for
    [n] terms, at every length *)
Theorem C04_sum_error_standard_model :
  forall (u : R), 0 <= u -> forall (F : R -> Prop) (rnd : R -> R),
    F 0 ->
    (forall a b, F a -> F b -> F (rnd (a + b)) /\ Rabs (rnd (a + b) - (a + b)) <= u * Rabs (a + b)) ->
    forall x : list R, Forall F x ->
      Rabs (Reduce.sum (RndO rnd) x - Rsum x) <= ((1 + u) ^ length x - 1) * Rsum (map Rabs x).
Proof. exact sum_error. Qed.

(** binary64 is such a carrier as long as nothing overflows: for every slice of doubles whose computed sum is finite
    (which forces every element and every partial sum to be finite), with [B2Rf] the real value of a double *)
Theorem C04_sum_error_binary64 :
  forall (tbl : libm_table) (x : list float),
    finite (Reduce.sum (FO tbl) x) ->
    Rabs (B2Rf (Reduce.sum (FO tbl) x) - Rsum (map B2Rf x))
    <= ((1 + / 2 ^ 53) ^ length x - 1) * Rsum (map Rabs (map B2Rf x)).
Proof. exact sum_F_error. Qed.

Example C04_example_sum_error :
  (* exact arithmetic is an instance of the standard model; a 10-element binary64 sum is finite *)
  (forall a b : R, True -> True -> True /\ Rabs ((fun r => r) (a + b) - (a + b)) <= 0 * Rabs (a + b)) /\
  finite (Reduce.sum FO0 [1; 2; 3; 4; 5; 6; 7; 8; 9; 0x1.999999999999ap-4]%float).
Proof.
  split.
  - intros a b _ _. split; [exact I|]. replace (a + b - (a + b)) with 0 by ring. rewrite Rabs_R0. lra.
  - vm_compute. reflexivity.
Qed.

(** ** 3c. Rounding error of the unrolled [dot] (extension) *)

(** the operation tree of [dot] is that of the unrolled [sum] applied to the products, on every carrier (so the
    analysis of [sum] transfers; on binary64 the products are the rounded products) *)
Theorem C04_dot_is_sum_of_products :
  forall (T : Type) (O : Ops T) (x y : list T),
    length x = length y -> dot_raw O x y = Reduce.sum O (map2 (mul O) x y).
Proof. exact @dot_raw_sum. Qed.

(** standard model: the unrolled sum of [n] terms each of which already carries one relative rounding error [u] *)
Theorem C04_sum_error_perturbed_standard_model :
  forall (u : R), 0 <= u -> forall (F : R -> Prop) (rnd : R -> R),
    F 0 ->
    (forall a b, F a -> F b -> F (rnd (a + b)) /\ Rabs (rnd (a + b) - (a + b)) <= u * Rabs (a + b)) ->
    forall c c' : list R, Forall F c' -> Forall2 (fun a a' => Rabs (a' - a) <= u * Rabs a) c c' ->
      Rabs (Reduce.sum (RndO rnd) c' - Rsum c) <= ((1 + u) ^ S (length c) - 1) * Rsum (map Rabs c).
Proof. exact sum_error_perturbed. Qed.

(** binary64: for every pair of slices of doubles for which [dot] returns a FINITE value (equal lengths; no overflow in
    any product or partial sum: finiteness of the result forces all of them finite) and none of whose exact products
    underflows (each x_i*y_i is 0 or at least 2^-1022, the smallest normal number, in magnitude),
        | dot x y - Sigma x_i y_i |  <=  ((1 + 2^-53)^(n+1) - 1) * Sigma |x_i y_i|
    for the exact operation tree of the code (8-term inner sums of rounded products, then [s +=], then the remainder
    loop), at every length n.  (The exponent is n+1 and not n because the standard model also charges the first
    addition [0 + x_0*y_0].) *)
Theorem C04_dot_error_binary64 :
  forall (tbl : libm_table) (x y : list float) (d : float),
    Reduce.dot (FO tbl) x y = Some d ->
    finite d ->
    Forall2 (fun a b => B2Rf a * B2Rf b = 0 \/ / 2 ^ 1022 <= Rabs (B2Rf a * B2Rf b)) x y ->
    Rabs (B2Rf d - Rdot (map B2Rf x) (map B2Rf y))
    <= ((1 + / 2 ^ 53) ^ S (length x) - 1) * Rsum (map Rabs (map2 Rmult (map B2Rf x) (map B2Rf y))).
Proof. exact dot_F_error_explicit. Qed.

Example C04_example_dot_error :
  (* the hypotheses are satisfiable: a length-9 dot product (one chunk + remainder) is finite, no product underflows *)
  let x := [1; 2; 3; 4; 5; 6; 7; 8; 0x1.999999999999ap-4]%float in
  let y := [0.5; -1; 3; 0; 5; 6; 7; 8; 3]%float in
  (exists d, Reduce.dot FO0 x y = Some d /\ finite d) /\
  Forall2 (fun a b => B2Rf a * B2Rf b = 0 \/ / 2 ^ 1022 <= Rabs (B2Rf a * B2Rf b)) x y.
Proof. exact dot_example. Qed.

(** ** 3d. Rounding error of [norm] and [prod] (extension) *)

(** [norm] = sqrt (dot x x): for every slice of doubles whose computed norm is finite (no overflow) and none of whose
    squares underflows, the relative error is at most (1 + 2^-53)^(n+2) - 1 (n+1 roundings in the dot product of the
    code's operation tree, one in the square root, which cannot underflow) *)
Theorem C04_norm_error_binary64 :
  forall (tbl : libm_table) (x : list float),
    finite (Reduce.norm (FO tbl) x) ->
    Forall (fun a => B2Rf a * B2Rf a = 0 \/ / 2 ^ 1022 <= Rabs (B2Rf a * B2Rf a)) x ->
    Rabs (B2Rf (Reduce.norm (FO tbl) x) - R_sqrt.sqrt (Rsum (map (fun a => a * a) (map B2Rf x))))
    <= ((1 + / 2 ^ 53) ^ S (S (length x)) - 1) * R_sqrt.sqrt (Rsum (map (fun a => a * a) (map B2Rf x))).
Proof. exact norm_F_error_explicit. Qed.

(** [prod] (left fold from 1): relative error at most (1 + 2^-53)^n - 1 when the result is finite and no partial product
    underflows ([prod_no_underflow acc l]: at each step the exact product of the computed accumulator and the next
    element is 0 or at least 2^-1022 in magnitude) *)
Theorem C04_prod_no_underflow_def :
  forall (acc a : float) (l : list float),
    (prod_no_underflow acc [] <-> True) /\
    (prod_no_underflow acc (a :: l) <->
     (B2Rf acc * B2Rf a = 0 \/ / 2 ^ 1022 <= Rabs (B2Rf acc * B2Rf a)) /\ prod_no_underflow (acc * a)%float l).
Proof. intros; split; reflexivity. Qed.
Theorem C04_prod_error_binary64 :
  forall (tbl : libm_table) (x : list float),
    finite (Reduce.prod (FO tbl) x) ->
    prod_no_underflow 1%float x ->
    Rabs (B2Rf (Reduce.prod (FO tbl) x) - Rprod (map B2Rf x))
    <= ((1 + / 2 ^ 53) ^ length x - 1) * Rabs (Rprod (map B2Rf x)).
Proof. exact prod_F_error. Qed.

(** the no-underflow hypotheses can be checked on COMPUTED values: a product whose computed value is finite and strictly
    above the smallest normal number 2^-1022 in magnitude did not underflow (and an exact product is zero iff a factor is) *)
Theorem C04_computed_normal_product_suffices :
  forall a b : float,
    finite (a * b)%float -> / 2 ^ 1022 < Rabs (B2Rf (a * b)%float) ->
    B2Rf a * B2Rf b = 0 \/ / 2 ^ 1022 <= Rabs (B2Rf a * B2Rf b).
Proof. exact computed_normal_no_underflow. Qed.

Example C04_example_norm_prod_error :
  (* the hypotheses are satisfiable (length 10: one chunk + remainder; tiny and negative elements) *)
  let x := [3; -4; 0; 0x1.999999999999ap-4; 5; 6; 7; 8; 9; 0x1p-500]%float in
  finite (Reduce.norm FO0 x) /\
  Forall (fun a => B2Rf a * B2Rf a = 0 \/ / 2 ^ 1022 <= Rabs (B2Rf a * B2Rf a)) x /\
  finite (Reduce.prod FO0 [1.5; -2; 0x1.999999999999ap-4; 0x1p-500]%float) /\
  prod_no_underflow 1%float [1.5; -2; 0x1.999999999999ap-4; 0x1p-500]%float.
Proof. exact norm_prod_example. Qed.

(** ** 4. The empty Matrix (repaired finding [empty-matrix:value-form-panics]).  The three theorems of this section
    used to DESCRIBE A DEFECT of the original code: on the 0 x 0 matrix of [Matrix::empty()] every form that returns a
    new Matrix panicked ([C04_empty_matrix_scalar_forms] said [if trait_assign tr then Some empty else None], the other
    two said [None]), because the result is rebuilt by [Matrix::new], whose [reshape_mut] refused every zero
    dimension, although the property asks for the (empty) point-wise result.  [reshape_mut] now accepts the request
    0 x 0 on empty data (one [fix:] commit in /repo); the theorems are restated for the repaired code: EVERY form
    returns the empty matrix. *)
Theorem C04_empty_matrix_scalar_forms :
  forall (T : Type) (O : Ops T) (tr : vtrait) (s : vty) (r : op_row) (x : T),
    find_row tr s TyF64 = Some r -> is_mat s = true ->
    run_mat_row O r (MMat (mkmat 0 0 [])) (MSc x) = Some (mkmat 0 0 []).
Proof. exact @empty_mat_op_scalar. Qed.
Theorem C04_empty_matrix_scalar_left_forms :
  forall (T : Type) (O : Ops T) (tr : vtrait) (o : vty) (r : op_row) (x : T),
    find_row tr TyF64 o = Some r -> is_mat o = true ->
    run_mat_row O r (MSc x) (MMat (mkmat 0 0 [])) = Some (mkmat 0 0 []).
Proof. exact @empty_scalar_op_mat. Qed.
Theorem C04_empty_matrix_other_forms :
  forall (T : Type) (O : Ops T) (t : vtok) (u : umap) (n : Z) (a : T),
    mat_binop O t (mkmat 0 0 []) (mkmat 0 0 []) = Some (mkmat 0 0 []) /\
    mat_map O u (mkmat 0 0 []) = Some (mkmat 0 0 []) /\
    mat_powi O (mkmat 0 0 []) n = Some (mkmat 0 0 []) /\ mat_powf O (mkmat 0 0 []) a = Some (mkmat 0 0 []) /\
    mat_neg O (mkmat 0 0 []) = Some (mkmat 0 0 []).
Proof. exact @empty_mat_others. Qed.
Theorem C04_empty_matrix_assign_forms :
  forall (T : Type) (O : Ops T) (tr : vtrait) (s o : vty) (r : op_row),
    find_row tr s o = Some r -> is_mat s = true -> is_mat o = true ->
    run_mat_row O r (MMat (mkmat 0 0 [])) (MMat (mkmat 0 0 [])) = Some (mkmat 0 0 []).
Proof. exact @empty_mat_assign. Qed.
(** [Matrix::inf_norm] of the empty matrix is the NaN seed of [max] (no row sums), as for an empty Vector *)
Theorem C04_empty_matrix_inf_norm :
  forall (T : Type) (O : Ops T), mat_inf_norm O (mkmat 0 0 []) = Some (nan_ O).
Proof. exact @empty_mat_inf_norm. Qed.

(** The theorems of section 2 about well-formed matrices extend to [wf_mat0] = positive shape OR the empty matrix,
    i.e. to every Matrix the crate's constructors and [Matrix::empty()] produce. *)
Theorem C04_mat_op_scalar_wf0 :
  forall (T : Type) (O : Ops T) (tr : vtrait) (s : vty) (r : op_row) (m : mat T) (x : T),
    find_row tr s TyF64 = Some r -> is_mat s = true -> wf_mat0 m ->
    run_mat_row O r (MMat m) (MSc x) = Some (mkmat (nr m) (nc m) (map (fun e => trait_op O tr e x) (dat m))).
Proof. exact @mat_op_scalar0. Qed.
Theorem C04_scalar_op_mat_wf0 :
  forall (T : Type) (O : Ops T) (tr : vtrait) (o : vty) (r : op_row) (x : T) (m : mat T),
    find_row tr TyF64 o = Some r -> is_mat o = true -> wf_mat0 m ->
    run_mat_row O r (MSc x) (MMat m) = Some (mkmat (nr m) (nc m) (map (fun e => trait_op O tr x e) (dat m))).
Proof. exact @scalar_op_mat0. Qed.
Theorem C04_mat_assign_mat_wf0 :
  forall (T : Type) (O : Ops T) (tr : vtrait) (s o : vty) (r : op_row) (m1 m2 : mat T),
    find_row tr s o = Some r -> is_mat s = true -> is_mat o = true -> wf_mat0 m1 -> wf_mat0 m2 ->
    run_mat_row O r (MMat m1) (MMat m2) =
    if (nr m1 =? nr m2) && (nc m1 =? nc m2)
    then Some (mkmat (nr m1) (nc m1) (map2 (trait_op O tr) (dat m1) (dat m2))) else None.
Proof. exact @mat_assign_mat0. Qed.
Theorem C04_mat_op_mat_wf0 :
  forall (T : Type) (O : Ops T) (t : vtok) (m1 m2 : mat T),
    wf_mat0 m1 -> wf_mat0 m2 -> nr m1 = nr m2 -> nc m1 = nc m2 ->
    mat_binop O t m1 m2 = Some (mkmat (nr m1) (nc m1) (map2 (tok_fn O t) (dat m1) (dat m2))).
Proof. exact @mat_binop_same_shape0. Qed.
Theorem C04_mat_map_wf0 :
  forall (T : Type) (O : Ops T) (u : umap) (m : mat T),
    wf_mat0 m -> mat_map O u m = Some (mkmat (nr m) (nc m) (map (umap_fn O u) (dat m))).
Proof. exact @mat_map_wf0. Qed.
Theorem C04_mat_powf_wf0 :
  forall (T : Type) (O : Ops T) (m : mat T) (a : T),
    wf_mat0 m -> mat_powf O m a = Some (mkmat (nr m) (nc m) (map (fun x => powf O x a) (dat m))).
Proof. exact @mat_powf_wf0. Qed.
Theorem C04_mat_powi_wf0 :
  forall (T : Type) (O : Ops T) (m : mat T) (n : Z),
    wf_mat0 m -> mat_powi O m n = Some (mkmat (nr m) (nc m) (vpowi O (dat m) n)).
Proof. exact @mat_powi_wf0. Qed.
Theorem C04_mat_neg_wf0 :
  forall (T : Type) (O : Ops T) (m : mat T),
    wf_mat0 m -> mat_neg O m = Some (mkmat (nr m) (nc m) (map (neg O) (dat m))).
Proof. exact @mat_neg_wf0. Qed.
(** what stays refused: a shape with exactly one zero dimension (0 x c or r x 0; only [reshape_mut] with an inferred
    dimension on empty data produces one) -- [Matrix::new] rejects it, so the value forms panic there *)
Theorem C04_degenerate_matrix_map_panics :
  forall (T : Type) (O : Ops T) (u : umap) (m : mat T),
    ((nr m = 0 /\ 0 < nc m) \/ (0 < nr m /\ nc m = 0))%nat -> mat_map O u m = None.
Proof. exact @degenerate_mat_map_panics. Qed.
Example C04_example_wf0 :
  wf_mat0 (mkmat 0 0 (@nil R)) /\ wf_mat0 (mkmat 2 1 [6%Q; 8%Q]) /\ ~ wf_mat0 (mkmat 0 3 (@nil R)).
Proof.
  split; [right; reflexivity|]. split; [left; cbv [wf_mat nr nc dat length]; auto|].
  intros [(H & _)|H]; [cbn in H; inversion H|discriminate H].
Qed.

(** ** Tie A for the reductions: the model IS the source.  [Generated/reduce_loops.v] is regenerated on every run from
    src/linalg/utils.rs by the statement-level translator (tools/rsexpr.py, target tools/tiea/reduce_loops.py): the
    [#[cfg(not(feature = "blas"))]] bodies (the verified build has no default features), loops as folds over lists,
    [usize] in [Z], a panic (the [assert!(n > idx + 7)], an out-of-bounds read) as [None].  For every carrier, operations
    record and slice: the unrolled [sum] / [dot] never panic and equal the fuelled eight-at-a-time recursion of
    Model/Reduce.v; [norm], [prod], [logsumexp], [logmeanexp] likewise ([statistics::max], another file, is the parameter
    of the last two, instantiated by the model [vmax]). *)
From Compute Require Import Base.RsExpr Generated.reduce_loops Proofs.TieA_reduce_loops.
Theorem C04_model_is_source_sum :
  forall (T : Type) (O : Ops T) (x : list T), src_sum O x = Some (sum O x).
Proof. exact @tiea_sum. Qed.
(** unequal lengths: both [None] *)
Theorem C04_model_is_source_dot :
  forall (T : Type) (O : Ops T) (x y : list T), src_dot O x y = dot O x y.
Proof. exact @tiea_dot. Qed.
Theorem C04_model_is_source_norm :
  forall (T : Type) (O : Ops T) (x : list T), src_norm O x = Some (norm O x).
Proof. exact @tiea_norm. Qed.
Theorem C04_model_is_source_prod :
  forall (T : Type) (O : Ops T) (x : list T), src_prod O x = prod O x.
Proof. exact @tiea_prod. Qed.
Theorem C04_model_is_source_logsumexp :
  forall (T : Type) (O : Ops T) (x : list T), src_logsumexp O (vmax O) x = logsumexp O x.
Proof. exact @tiea_logsumexp. Qed.
Theorem C04_model_is_source_logmeanexp :
  forall (T : Type) (O : Ops T) (x : list T), src_logmeanexp O (vmax O) x = logmeanexp O x.
Proof. exact @tiea_logmeanexp. Qed.

(** the free [inf_norm] (third round of the loop translator; regenerated by tools/tiea/norm_loops.py): [is_matrix(x, nrows).unwrap()]
    (a zero [nrows] and [Err] panic), per row the plain sum [s += x[i * ncols + j].abs()] from [0.] — every read is in bounds —,
    then [statistics::max] of the row sums ([max_] = [vmax], tied in C08) *)
From Compute Require Import Base.RsExprMut Generated.norm_loops Proofs.TieA_norm_loops.
Theorem C04_model_is_source_inf_norm :
  forall (T : Type) (O : Ops T) (x : list T) (nrows : nat), src_inf_norm O (vmax O) x (Z.of_nat nrows) = inf_norm O x nrows.
Proof. exact @tiea_inf_norm. Qed.
(** ** 3e. The binary64 bounds of [dot], [norm], [prod] WITHOUT the no-underflow hypothesis (extension)

    A binary64 multiplication that does not overflow satisfies |fl(r) - r| <= 2^-53 |r| + 2^-1075 for EVERY exact product r,
    normal, subnormal or zero (Flocq's [error_N_FLT]; 2^-1075 is half the spacing of the subnormal numbers); an addition
    needs no absolute term (a sum of two doubles that lands in the subnormal range is exact).  The theorems of 3c / 3d are
    the special case in which no product underflows (no absolute term is needed there); the ones below hold for EVERY input
    whose computed result is finite. *)
From Compute Require Import Proofs.C04ErrGen.

(** the rounding of a real number to binary64 (round to nearest even, unbounded exponent range above): one relative error
    2^-53 plus one absolute error 2^-1075, for every real argument *)
Theorem C04_rounding_error_binary64_general :
  forall r : R, Rabs (rnd64 r - r) <= / 2 ^ 53 * Rabs r + / 2 ^ 1075.
Proof. intros r. rewrite <- u64_val, <- eta64_val. apply rnd64_gen. Qed.

(** standard model with an absolute term: the unrolled sum of [n] terms each of which carries one relative error [u] and one
    absolute error [eta] *)
Theorem C04_sum_error_perturbed_abs_standard_model :
  forall (u : R), 0 <= u -> forall (eta : R), 0 <= eta -> forall (F : R -> Prop) (rnd : R -> R),
    F 0 ->
    (forall a b, F a -> F b -> F (rnd (a + b)) /\ Rabs (rnd (a + b) - (a + b)) <= u * Rabs (a + b)) ->
    forall c c' : list R, Forall F c' -> Forall2 (fun a a' => Rabs (a' - a) <= u * Rabs a + eta) c c' ->
      Rabs (Reduce.sum (RndO rnd) c' - Rsum c)
      <= ((1 + u) ^ S (length c) - 1) * Rsum (map Rabs c) + INR (length c) * eta * (1 + u) ^ length c.
Proof. exact (fun u Hu eta _ => sum_error_perturbed_abs u Hu eta). Qed.

(** binary64, NO underflow hypothesis: for every pair of slices of doubles for which [dot] returns a FINITE value (equal
    lengths n; finiteness of the result forces every element, product and partial sum finite), with u = 2^-53,
        | dot x y - Sigma x_i y_i |  <=  ((1+u)^(n+1) - 1) * Sigma |x_i y_i|  +  n * 2^-1075 * (1+u)^n
    for the exact operation tree of the code (the same term [Reduce.dot] as in C04_dot_error_binary64) *)
Theorem C04_dot_error_binary64_general :
  forall (tbl : libm_table) (x y : list float) (d : float),
    Reduce.dot (FO tbl) x y = Some d ->
    finite d ->
    Rabs (B2Rf d - Rdot (map B2Rf x) (map B2Rf y))
    <= ((1 + / 2 ^ 53) ^ S (length x) - 1) * Rsum (map Rabs (map2 Rmult (map B2Rf x) (map B2Rf y)))
       + INR (length x) * / 2 ^ 1075 * (1 + / 2 ^ 53) ^ length x.
Proof. exact dot_F_error_general. Qed.

(** ("lists of finite doubles" is a consequence, not a hypothesis) *)
Theorem C04_dot_finite_operands_binary64 :
  forall (tbl : libm_table) (x y : list float) (d : float),
    Reduce.dot (FO tbl) x y = Some d -> finite d -> Forall finite x /\ Forall finite y.
Proof. exact dot_finite_operands. Qed.

(** [norm] = sqrt (dot x x), NO underflow hypothesis: the absolute error a = n * 2^-1075 * (1+u)^n of the sum of squares goes
    through the square root as sqrt a (a square that underflows to 0 loses an element of magnitude up to 2^-537.5: the term
    is sharp in order of magnitude), then one more rounding (which cannot underflow):
        | norm x - ||x|| |  <=  ((1+u)^(n+2) - 1) * ||x||  +  (1+u) * sqrt (n * 2^-1075 * (1+u)^n) *)
Theorem C04_norm_error_binary64_general :
  forall (tbl : libm_table) (x : list float),
    finite (Reduce.norm (FO tbl) x) ->
    Rabs (B2Rf (Reduce.norm (FO tbl) x) - R_sqrt.sqrt (Rsum (map (fun a => a * a) (map B2Rf x))))
    <= ((1 + / 2 ^ 53) ^ S (S (length x)) - 1) * R_sqrt.sqrt (Rsum (map (fun a => a * a) (map B2Rf x)))
       + (1 + / 2 ^ 53) * R_sqrt.sqrt (INR (length x) * / 2 ^ 1075 * (1 + / 2 ^ 53) ^ length x).
Proof. exact norm_F_error_general. Qed.

(** [prod] (left fold from 1), NO underflow hypothesis: the absolute error 2^-1075 committed by the k-th multiplication is
    multiplied by the later factors x_{k+1} .. x_n; [later_products l] = Sigma_{k=1..n} | Pi_{j>k} l_j | *)
Theorem C04_later_products_def :
  forall (a : R) (l : list R),
    later_products [] = 0 /\ later_products (a :: l) = Rabs (Rprod l) + later_products l.
Proof. intros; split; reflexivity. Qed.
Theorem C04_prod_error_binary64_general :
  forall (tbl : libm_table) (x : list float),
    finite (Reduce.prod (FO tbl) x) ->
    Rabs (B2Rf (Reduce.prod (FO tbl) x) - Rprod (map B2Rf x))
    <= ((1 + / 2 ^ 53) ^ length x - 1) * Rabs (Rprod (map B2Rf x))
       + (1 + / 2 ^ 53) ^ length x * / 2 ^ 1075 * later_products (map B2Rf x).
Proof. exact prod_F_error_general. Qed.

Example C04_example_error_general :
  (* inputs the theorems of 3c / 3d exclude: the product 2^-600 * 2^-500 underflows (to 0), 2^-1074 * 2^-1 is a tie at the
     bottom of the subnormal range; dot, norm and prod are finite *)
  let x := [0x1p-600; 3; 0x1p-1074]%float in
  let y := [0x1p-500; 0.5; 0x1p-1]%float in
  (exists d, Reduce.dot FO0 x y = Some d /\ finite d) /\
  ~ Forall2 (fun a b => B2Rf a * B2Rf b = 0 \/ / 2 ^ 1022 <= Rabs (B2Rf a * B2Rf b)) x y /\
  finite (Reduce.norm FO0 x) /\ finite (Reduce.prod FO0 x).
Proof. exact general_example. Qed.

(** one bound that contains both 3c and the general theorem: the absolute term charges 2^-1075 only to the products that DO
    underflow.  [underflow_cost r] is 0 when r = 0 or |r| >= 2^-1022 and 2^-1075 otherwise, so the sum of the costs is
    2^-1075 times the number of underflowing products: 0 under the hypothesis of C04_dot_error_binary64, at most n * 2^-1075
    always *)
From Compute Require Import Proofs.C04ErrGenCount.
Theorem C04_underflow_cost_def :
  forall r : R,
    ((r = 0 \/ / 2 ^ 1022 <= Rabs r) -> underflow_cost r = 0) /\
    (~ (r = 0 \/ / 2 ^ 1022 <= Rabs r) -> underflow_cost r = / 2 ^ 1075).
Proof. exact underflow_cost_spec. Qed.
Theorem C04_underflow_cost_sum :
  forall c : list R,
    (Forall (fun r => r = 0 \/ / 2 ^ 1022 <= Rabs r) c -> Rsum (map underflow_cost c) = 0) /\
    Rsum (map underflow_cost c) <= INR (length c) * / 2 ^ 1075.
Proof. exact (fun c => conj (Rsum_cost_zero c) (Rsum_cost_le c)). Qed.
Theorem C04_dot_error_binary64_counted :
  forall (tbl : libm_table) (x y : list float) (d : float),
    Reduce.dot (FO tbl) x y = Some d ->
    finite d ->
    Rabs (B2Rf d - Rdot (map B2Rf x) (map B2Rf y))
    <= ((1 + / 2 ^ 53) ^ S (length x) - 1) * Rsum (map Rabs (map2 Rmult (map B2Rf x) (map B2Rf y)))
       + Rsum (map underflow_cost (map2 Rmult (map B2Rf x) (map B2Rf y))) * (1 + / 2 ^ 53) ^ length x.
Proof. exact dot_F_error_counted. Qed.
(* ======================================================================================================== *)
(** ** extension (one contiguous block): the infinity norm on binary64 (Proofs/C04ErrInf.v).
    [inf_norm(x, nrows)] is the MATRIX infinity norm: per row [s = 0.; s += |x[i*ncols+j]|], then [max] of the row sums.
    [abs] and [max] commit no rounding and the first addition 0 + |a_i0| of a row is exact; the other ncols - 1
    additions of a row are rounded.  So the norm is exact for a single column (the vector case) and carries the
    relative error (1 + 2^-53)^(ncols-1) - 1 otherwise.  NaN handling as the model has it: on finite data no NaN can
    arise (the result is a finite non-negative double or +infinity when a row sum overflows). *)
From Compute Require Import Proofs.C04ErrInf.
Local Open Scope R_scope.

(** every matrix of finite doubles: the call succeeds, returns one of the computed row sums, never NaN and never
    negative; when the result is finite it is within the stated relative error of the largest exact row sum *)
Theorem C04_inf_norm_error_binary64 :
  forall (tbl : libm_table) (x : list float) (nrows ncols : nat),
    nrows <> 0%nat -> length x = (nrows * ncols)%nat -> Forall finite x ->
    exists r, inf_norm (FO tbl) x nrows = Some r /\
      (exists i, (i < nrows)%nat /\
         r = fold_left (add (FO tbl)) (map (abs (FO tbl)) (row_of x ncols i)) (zero (FO tbl))) /\
      ((finite r /\ 0 <= B2Rf r) \/ Flocq.IEEE754.PrimFloat.Prim2B r = Flocq.IEEE754.BinarySingleNaN.B754_infinity false) /\
      (finite r -> forall M, is_max M (abs_row_sums (map B2Rf x) nrows ncols) ->
         Rabs (B2Rf r - M) <= ((1 + / 2 ^ 53) ^ (ncols - 1) - 1) * M).
Proof. exact inf_norm_F_error. Qed.

(** a single column ([nrows = length x], the vector case): NO rounding.  For every non-empty list of finite doubles
    the result is finite and its real value IS the maximum of the absolute values (and it is one of them) *)
Theorem C04_inf_norm_exact_binary64 :
  forall (tbl : libm_table) (x : list float),
    x <> [] -> Forall finite x ->
    exists r, inf_norm (FO tbl) x (length x) = Some r /\ finite r /\
      is_max (B2Rf r) (map (fun a => Rabs (B2Rf a)) x).
Proof. exact inf_norm_F_exact. Qed.

(** [Matrix::inf_norm] = [self.abs().sum_rows().max()]: each row of |a_ij| goes through the 8-way unrolled [sum]
    (C04_sum_error_binary64), so the constant is (1 + 2^-53)^ncols - 1.  Every well-formed matrix of finite doubles *)
Theorem C04_mat_inf_norm_error_binary64 :
  forall (tbl : libm_table) (m : mat float),
    wf_mat m -> Forall finite (dat m) ->
    exists r, mat_inf_norm (FO tbl) m = Some r /\
      ((finite r /\ 0 <= B2Rf r) \/ Flocq.IEEE754.PrimFloat.Prim2B r = Flocq.IEEE754.BinarySingleNaN.B754_infinity false) /\
      (finite r -> forall M, is_max M (abs_row_sums (map B2Rf (dat m)) (nr m) (nc m)) ->
         Rabs (B2Rf r - M) <= ((1 + / 2 ^ 53) ^ nc m - 1) * M).
Proof. exact mat_inf_norm_F_error. Qed.

Theorem C04_example_inf_norm_binary64 :
  let x := [1; -2; 0x1.999999999999ap-4; -4; 5; 0x1p-1074]%float in
  Forall finite x /\ length x = (2 * 3)%nat /\
  (exists r, inf_norm FO0 x 2 = Some r /\ finite r) /\
  inf_norm FO0 [0x1.fffffffffffffp+1023; (-0x1.fffffffffffffp+1023)]%float 1 = Some infinity.
Proof. exact inf_norm_example. Qed.
