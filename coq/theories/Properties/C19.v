(** * C19 — resampling never invents, loses or unpairs data.
    Statements only; proofs are in Proofs/C19.v (arbitrary element type, arbitrary index source) and
    Proofs/C19Rng.v (the executable `alea` model).  In the first group [draw : St -> option (nat * St)]
    is ANY index source (any state type, any function: every stream, including ones that run out of
    range or stop answering); [None] is a panic. *)
From Coq Require Import List Arith Bool ZArith NArith Permutation Floats Reals.
From Compute Require Import Base.Ops Base.ListMat Base.Rng Model.Resample Spec.Resample Proofs.C19 Proofs.C19Rng Proofs.C19Float.
Import ListNotations.

(** ** bootstrap *)

(** the requested number of resamples, each of the original length *)
Theorem C19_bootstrap_shape :
  forall (T St : Type) (draw : St -> option (nat * St)) (data : list T) (nb : nat) (s : St)
         (out : list (list T)) (s' : St),
    bootstrap draw data nb s = Some (out, s') ->
    length out = nb /\ Forall (fun r => length r = length data) out.
Proof. exact @bootstrap_shape. Qed.

(** element [i] of resample [j] is [data[idx]] with [idx] the [(j*n+i)]-th draw of the stream; all
    draws were in range; the generator advanced by exactly [nb*n] draws; nothing is invented *)
Theorem C19_bootstrap_members :
  forall (T St : Type) (draw : St -> option (nat * St)) (data : list T) (nb : nat) (s : St)
         (out : list (list T)) (s' : St),
    bootstrap draw data nb s = Some (out, s') ->
    exists idxs,
      draws draw (nb * length data) s = Some (idxs, s') /\
      Forall (fun i => i < length data) idxs /\
      selects data idxs (concat out) /\
      (forall j i, j < nb -> i < length data ->
         nth_error (nth j out []) i = nth_error data (nth (j * length data + i) idxs 0)) /\
      (forall r x, In r out -> In x r -> In x data).
Proof. exact @bootstrap_members. Qed.

(** acceptance: non-empty data and a source that keeps answering in range (under any invariant of
    its states) => a value *)
Theorem C19_bootstrap_accepts :
  forall (T St : Type) (draw : St -> option (nat * St)) (data : list T) (Inv : St -> Prop) (nb : nat) (s : St),
    data <> [] -> good_source draw (length data) Inv -> Inv s ->
    exists out s', bootstrap draw data nb s = Some (out, s') /\ Inv s'.
Proof. exact @bootstrap_accepts. Qed.

(** the hypotheses are satisfiable: a counter modulo 3 as index source *)
Example C19_bootstrap_accepts_ex :
  good_source (fun s : nat => Some (s mod 3, S s)) 3 (fun _ => True) /\
  bootstrap (fun s : nat => Some (s mod 3, S s)) [10; 20; 30] 2 0 = Some ([[10; 20; 30]; [10; 20; 30]], 6).
Proof.
  split; [|reflexivity]. intros s _. exists (s mod 3), (S s). repeat split.
  apply Nat.mod_upper_bound. discriminate.
Qed.

(** rejection: empty data panics (DiscreteUniform::new(0, -1)); an out-of-range draw panics *)
Theorem C19_bootstrap_empty_panics :
  forall (T St : Type) (draw : St -> option (nat * St)) (nb : nat) (s : St),
    bootstrap draw (@nil T) nb s = None.
Proof. exact @bootstrap_empty_panics. Qed.

Theorem C19_bootstrap_out_of_range_panics :
  forall (T St : Type) (draw : St -> option (nat * St)) (data : list T) (nb : nat) (s : St)
         (idxs : list nat) (s1 : St),
    draws draw (length data) s = Some (idxs, s1) ->
    ~ Forall (fun i => i < length data) idxs ->
    bootstrap draw data (S nb) s = None.
Proof. exact @bootstrap_out_of_range_panics. Qed.

(** ** jackknife: exactly the n leave-one-out vectors, in order (total: no panic for any input) *)
Theorem C19_jackknife_def :
  forall (T : Type) (data : list T),
    jackknife data = Some (map (fun i => remove_nth i data) (seq 0 (length data))).
Proof. exact @jackknife_def. Qed.

Theorem C19_jackknife_shape :
  forall (T : Type) (data : list T) (out : list (list T)),
    jackknife data = Some out ->
    length out = length data /\ Forall (fun r => length r = length data - 1) out.
Proof. exact @jackknife_shape. Qed.

(** what [remove_nth] is, position by position *)
Theorem C19_remove_nth_nth :
  forall (T : Type) (l : list T) (i j : nat),
    nth_error (remove_nth i l) j = if j <? i then nth_error l j else nth_error l (S j).
Proof. exact @remove_nth_nth. Qed.

(** ** shuffle: a permutation of its input, for every stream *)
Theorem C19_shuffle_perm :
  forall (T St : Type) (draw : St -> option (nat * St)) (data : list T) (s : St) (out : list T) (s' : St),
    shuffle draw data s = Some (out, s') -> Permutation out data.
Proof. exact @shuffle_perm. Qed.

Theorem C19_shuffle_sigma :
  forall (T St : Type) (draw : St -> option (nat * St)) (data : list T) (s : St) (out : list T) (s' : St),
    shuffle draw data s = Some (out, s') ->
    exists sigma, Permutation sigma (seq 0 (length data)) /\ map Some out = map (nth_error data) sigma.
Proof. exact @shuffle_sigma. Qed.

Theorem C19_shuffle_accepts :
  forall (T St : Type) (draw : St -> option (nat * St)) (Inv : St -> Prop) (data : list T) (s : St),
    data <> [] -> good_source draw (length data) Inv -> Inv s ->
    exists out s', shuffle draw data s = Some (out, s') /\ Inv s'.
Proof. exact @shuffle_accepts. Qed.

Example C19_shuffle_accepts_ex :
  shuffle (fun s : nat => Some ((s * s + s / 2) mod 3, S s)) [10; 20; 30] 0 = Some ([30; 10; 20], 12).
Proof. reflexivity. Qed.

Theorem C19_shuffle_empty_panics :
  forall (T St : Type) (draw : St -> option (nat * St)) (s : St), shuffle draw (@nil T) s = None.
Proof. exact @shuffle_empty_panics. Qed.

(** ** shuffle_two: ONE common permutation of the positions is applied to both arrays *)
Theorem C19_shuffle_two_common :
  forall (T St : Type) (draw : St -> option (nat * St)) (a b : list T) (s : St)
         (oa ob : list T) (s' : St),
    shuffle_two draw a b s = Some (oa, ob, s') ->
    exists sigma, Permutation sigma (seq 0 (length a)) /\
                  map Some oa = map (nth_error a) sigma /\ map Some ob = map (nth_error b) sigma.
Proof. exact @shuffle_two_common. Qed.

(** pairs stay paired (the multiset of pairs is preserved), and each array is permuted *)
Theorem C19_shuffle_two_pairs :
  forall (T St : Type) (draw : St -> option (nat * St)) (a b : list T) (s : St)
         (oa ob : list T) (s' : St),
    shuffle_two draw a b s = Some (oa, ob, s') ->
    Permutation (combine oa ob) (combine a b) /\ Permutation oa a /\ Permutation ob b.
Proof. exact @shuffle_two_pairs. Qed.

Theorem C19_shuffle_two_accepts :
  forall (T St : Type) (draw : St -> option (nat * St)) (Inv : St -> Prop) (a b : list T) (s : St),
    a <> [] -> length a = length b -> good_source draw (length a) Inv -> Inv s ->
    exists oa ob s', shuffle_two draw a b s = Some (oa, ob, s') /\ Inv s'.
Proof. exact @shuffle_two_accepts. Qed.

Example C19_shuffle_two_ex :
  shuffle_two (fun s : nat => Some ((s * s + s / 2) mod 3, S s)) [10; 20; 30] [1; 2; 3] 0 = Some ([30; 10; 20], [3; 1; 2], 12).
Proof. reflexivity. Qed.

Theorem C19_shuffle_two_length_mismatch :
  forall (T St : Type) (draw : St -> option (nat * St)) (a b : list T) (s : St),
    length a <> length b -> shuffle_two draw a b s = None.
Proof. exact @shuffle_two_length_mismatch. Qed.

(** ** the `alea` model: range sampling *)

(** Lemire's reduction returns a value below [max] (any state, any fuel) and never panics *)
Theorem C19_u64_less_than_in_range :
  forall (fuel : nat) (max : N) (s : rng) (r : N) (s' : rng),
    (0 < max)%N -> u64_less_than fuel max s = Ok (r, s') -> (r < max)%N.
Proof. exact u64_less_than_in_range. Qed.

(** the repaired DiscreteUniform sampler stays inside [lower, upper] for every i64 interval with fewer
    than 2^64 points, and never panics *)
Theorem C19_du_sample_in_range :
  forall (fuel : nat) (lo hi : Z) (s : rng) (z : Z) (s' : rng),
    (-9223372036854775808 <= lo < 9223372036854775808)%Z ->
    (-9223372036854775808 <= hi < 9223372036854775808)%Z ->
    (lo <= hi)%Z -> (hi - lo + 1 < 18446744073709551616)%Z ->
    du_sample_i64 fuel (lo, hi) s = Ok (z, s') -> (lo <= z <= hi)%Z.
Proof. exact du_sample_i64_in_range. Qed.

Example C19_du_sample_in_range_ex :
  du_sample_i64 8 ((-5)%Z, 12%Z) (set_seed 42) = Ok (7%Z, 11562461410679940185%N).
Proof. vm_compute. reflexivity. Qed.

Theorem C19_du_sample_never_panics :
  forall (fuel : nat) (d : Z * Z) (s : rng), du_sample_i64 fuel d s <> Fail.
Proof. exact du_sample_i64_never_fails. Qed.

(** the index source of bootstrap/shuffle (DiscreteUniform(0, n-1) on the alea model) is in range *)
Theorem C19_du_draw_in_range :
  forall (fuel n : nat) (s : rng) (i : nat) (s' : rng),
    1 <= n -> (Z.of_nat n < 9223372036854775808)%Z ->
    du_draw_Z fuel (randomizer n) s = Some (i, s') -> i < n.
Proof. exact du_draw_Z_in_range. Qed.

(** ** length 1 (D11) *)

(** the ORIGINAL sampler: alea::i64_in_range asserts max > min, so the single-point distribution panics *)
Theorem C19_original_sampler_degenerate_panics :
  forall (fuel : nat) (a : Z) (s : rng), du_sample_i64_original fuel (a, a) s = Fail.
Proof. exact du_sample_original_degenerate_panics. Qed.

(** the REPAIRED sampler returns the point, after one draw, with no fuel *)
Theorem C19_du_sample_degenerate :
  forall (fuel : nat) (a : Z) (s : rng),
    (-9223372036854775808 <= a < 9223372036854775808)%Z ->
    du_sample_i64 fuel (a, a) s = Ok (a, snd (u64 s)).
Proof. exact du_sample_i64_degenerate. Qed.

(** on the concrete generator (binary64 path of the implementation), for EVERY seed state and any fuel:
    bootstrap of [x] is nb copies of [x]; shuffle of [x] is [x]; shuffle_two of [x],[y] is [x],[y] *)
Theorem C19_length1_bootstrap :
  forall (fuel : nat) (x : float) (nb : nat) (s : rng),
    exists s', bootstrap_rng FO0 fuel [x] nb s = Some (repeat [x] nb, s').
Proof. intros. apply bootstrap_length1. apply du_draw_float_one. Qed.

Theorem C19_length1_shuffle :
  forall (fuel : nat) (x : float) (s : rng), exists s', shuffle_rng FO0 fuel [x] s = Some ([x], s').
Proof. intros. apply shuffle_length1. apply du_draw_float_one. Qed.

Theorem C19_length1_shuffle_two :
  forall (fuel : nat) (x y : float) (s : rng),
    exists s', shuffle_two_rng FO0 fuel [x] [y] s = Some ([x], [y], s').
Proof. intros. apply shuffle_two_length1. apply du_draw_float_one. Qed.

(** ** ext: Lemire's range reduction is unbiased *)

(** the model of `u64_less_than` is exactly "draw one 64-bit word r; accept it iff the low half of
    r*max is at least 2^64 mod max, returning the high half; otherwise draw again" *)
Theorem C19_lemire_step :
  forall (fuel : nat) (max : N) (s : rng),
    (0 < max)%N -> (max < W64)%N ->
    u64_less_than fuel max s =
    let (r, s') := u64 s in
    if negb (wmul r max <? W64 mod max)%N then Ok (mul_high r max, s')
    else match fuel with O => Fuel | S f => u64_less_than f max s' end.
Proof. exact u64_less_than_step. Qed.

(** for every modulus and every residue k < max, the 64-bit words that are accepted AND produce k are
    exactly floor(2^64 / max) consecutive integers — the same number for every k: a uniform word gives
    a uniform residue, conditionally on acceptance *)
Theorem C19_lemire_unbiased :
  forall (max k : N),
    (0 < max)%N -> (max < W64)%N -> (k < max)%N ->
    exists r0 : N, forall r : N, (r < W64)%N ->
      (negb (wmul r max <? W64 mod max)%N = true /\ mul_high r max = k) <->
      (r0 <= r < r0 + W64 / max)%N.
Proof. exact lemire_unbiased. Qed.

Example C19_lemire_unbiased_ex :
  (0 < 3)%N /\ (3 < W64)%N /\ (W64 / 3 = 6148914691236517205)%N /\
  negb (wmul 6148914691236517206 3 <? W64 mod 3)%N = true /\ mul_high 6148914691236517206 3 = 1%N.
Proof. vm_compute. repeat split; discriminate. Qed.

(** ** finding outside C19's quantifier (reported, not repaired): on the full i64 range the span
    2^64 wraps to 0 and the sampler returns [lower] on every draw (release profile; the debug profile
    panics on the overflow instead) *)
Theorem C19_du_sample_full_range_constant :
  forall (fuel : nat) (s : rng),
    du_sample_i64 fuel ((-9223372036854775808)%Z, 9223372036854775807%Z) s
    = Ok ((-9223372036854775808)%Z, snd (u64 s)).
Proof. exact du_sample_i64_full_range_constant. Qed.

(** ** the binary64 index path of the implementation *)

(** `randomizer.sample() as usize` goes i64 -> f64 -> usize; on binary64 that is the identity below
    2^53, so the index source the implementation uses IS the integer one the range theorem is about *)
Theorem C19_du_draw_float_eq :
  forall (fuel n : nat) (s : rng),
    1 <= n -> (Z.of_nat n <= 2 ^ 53)%Z ->
    du_draw FO0 fuel (randomizer n) s = du_draw_Z fuel (randomizer n) s.
Proof. exact du_draw_float_eq. Qed.

Theorem C19_du_draw_float_in_range :
  forall (fuel n : nat) (s : rng) (i : nat) (s' : rng),
    1 <= n -> (Z.of_nat n <= 2 ^ 53)%Z ->
    du_draw FO0 fuel (randomizer n) s = Some (i, s') -> i < n.
Proof. exact du_draw_float_in_range. Qed.

(** ** for C03: `alea::f64()` is in [0,1) (real carrier), for every generator state *)
Theorem C19_f64_unit_interval :
  forall s : rng, (0 <= fst (f64 RO s) < 1)%R.
Proof. exact f64_unit_interval. Qed.

(** ** the public functions on the concrete generator (binary64 path) never panic on non-empty data:
    unless some draw's rejection loop is never left (fuel exhausted), they return a value — to which all
    the theorems of the first group apply *)
Theorem C19_bootstrap_rng_accepts :
  forall (fuel : nat) (data : list float) (nb : nat) (s : rng),
    data <> [] -> (Z.of_nat (length data) <= 2 ^ 53)%Z ->
    (forall k, draws (du_draw FO0 fuel (randomizer (length data))) k s <> None) ->
    exists out s', bootstrap_rng FO0 fuel data nb s = Some (out, s').
Proof. exact bootstrap_rng_accepts. Qed.

Theorem C19_shuffle_rng_accepts :
  forall (fuel : nat) (data : list float) (s : rng),
    data <> [] -> (Z.of_nat (length data) <= 2 ^ 53)%Z ->
    (forall k, draws (du_draw FO0 fuel (randomizer (length data))) k s <> None) ->
    exists out s', shuffle_rng FO0 fuel data s = Some (out, s').
Proof. exact shuffle_rng_accepts. Qed.

Theorem C19_shuffle_two_rng_accepts :
  forall (fuel : nat) (a b : list float) (s : rng),
    a <> [] -> length a = length b -> (Z.of_nat (length a) <= 2 ^ 53)%Z ->
    (forall k, draws (du_draw FO0 fuel (randomizer (length a))) k s <> None) ->
    exists oa ob s', shuffle_two_rng FO0 fuel a b s = Some (oa, ob, s').
Proof. exact shuffle_two_rng_accepts. Qed.

(** the hypothesis is satisfiable: two-point data never re-draws (2^64 mod 2 = 0), any seed, no fuel *)
Example C19_rng_accepts_ex :
  shuffle_rng FO0 0 [1%float; 2%float] (set_seed 2) = Some ([2%float; 1%float], 265970916891763066%N).
Proof. vm_compute. reflexivity. Qed.

(** ** Tie A: the models ARE the source (regenerated from /repo/src/validation/resample.rs on every run by
    tools/tiea/resample_loops.py).  [src_*] is the Rust function translated statement for statement; the random draws are an
    abstract source threaded through the statements in execution order (rule R6 of the translator): [sample_ (lo, hi) s] is
    [DiscreteUniform::sample] of the object [DiscreteUniform::new(lo, hi)] on the generator state [s] of ANY type
    ([None] = the draw does not return), [du_new] is the constructor's guard ([lo > hi] panics).  The model's index source
    is [draw_of O sample_ d] = [randomizer.sample() as usize]; [sample_n_z sample_ d k] = [k] successive draws.  The slice
    fits the address space (at most [isize::MAX] elements, as every Rust slice). *)
From Compute Require Import Base.RsExpr Base.RsExprMut Base.RsExprMore Generated.resample_loops Proofs.TieA_resample_loops.
Local Close Scope R_scope.
(** [DiscreteUniform::new(0, (len - 1) as i64)] (wrapping subtraction, then the two's-complement cast: -1 for empty data, a
    panic), [n_bootstrap] times [sample_n(len)] and the gather [data[i as usize]] (out of bounds = panic), pushed in order *)
Theorem C19_model_is_source_bootstrap :
  forall (T : Type) (O : Ops T) (St : Type) (sample_ : Z * Z -> St -> option (T * St)) (data : list T) (nb : nat) (s : St),
    (Z.of_nat (length data) <= 9223372036854775808)%Z ->
    src_bootstrap O du_new (sample_n_z sample_) data (Z.of_nat nb) s
    = bootstrap (draw_of O sample_ (0, Z.of_nat (length data) - 1)%Z) data nb s.
Proof. exact @tiea_bootstrap. Qed.
(** [split_at(i)], [split_first().unwrap()], [front.to_vec()] extended by the rest: never panics *)
Theorem C19_model_is_source_jackknife :
  forall (T : Type) (O : Ops T) (data : list T), src_jackknife O data = jackknife data.
Proof. exact @tiea_jackknife. Qed.
(** [2 * len] times two draws and [shuf.swap(a as usize, b as usize)] (a position out of bounds = panic) *)
Theorem C19_model_is_source_shuffle :
  forall (T : Type) (O : Ops T) (St : Type) (sample_ : Z * Z -> St -> option (T * St)) (data : list T) (s : St),
    (Z.of_nat (length data) <= 9223372036854775807)%Z ->
    src_shuffle O du_new sample_ data s = shuffle (draw_of O sample_ (0, Z.of_nat (length data) - 1)%Z) data s.
Proof. exact @tiea_shuffle. Qed.
(** the length assertion, then the two arrays swapped in lock-step with the SAME pair of draws *)
Theorem C19_model_is_source_shuffle_two :
  forall (T : Type) (O : Ops T) (St : Type) (sample_ : Z * Z -> St -> option (T * St)) (arr1 arr2 : list T) (s : St),
    (Z.of_nat (length arr1) <= 9223372036854775807)%Z ->
    src_shuffle_two O du_new sample_ arr1 arr2 s
    = shuffle_two (draw_of O sample_ (0, Z.of_nat (length arr1) - 1)%Z) arr1 arr2 s.
Proof. exact @tiea_shuffle_two. Qed.
(** on the executable model of the generator ([sample_rng] = the repaired [DiscreteUniform::sample] on wyrand + Lemire) the
    generated functions are the functions the correspondence check runs *)
Theorem C19_model_is_source_shuffle_rng :
  forall (T : Type) (O : Ops T) (fuel : nat) (data : list T) (s : rng), (Z.of_nat (length data) <= 9223372036854775807)%Z ->
    src_shuffle O du_new (sample_rng O fuel) data s = shuffle_rng O fuel data s.
Proof. exact @tiea_shuffle_rng. Qed.
Theorem C19_model_is_source_shuffle_two_rng :
  forall (T : Type) (O : Ops T) (fuel : nat) (a b : list T) (s : rng), (Z.of_nat (length a) <= 9223372036854775807)%Z ->
    src_shuffle_two O du_new (sample_rng O fuel) a b s = shuffle_two_rng O fuel a b s.
Proof. exact @tiea_shuffle_two_rng. Qed.
Theorem C19_model_is_source_bootstrap_rng :
  forall (T : Type) (O : Ops T) (fuel : nat) (data : list T) (nb : nat) (s : rng), (Z.of_nat (length data) <= 9223372036854775808)%Z ->
    src_bootstrap O du_new (sample_n_z (sample_rng O fuel)) data (Z.of_nat nb) s = bootstrap_rng O fuel data nb s.
Proof. exact @tiea_bootstrap_rng. Qed.
(** not vacuous: the generated [shuffle] on the executable generator reproduces the example above *)
Example C19_model_is_source_example :
  src_shuffle FO0 du_new (sample_rng FO0 0) [1%float; 2%float] (set_seed 2) = Some ([2%float; 1%float], 265970916891763066%N) /\
  src_jackknife FO0 [1%float; 2%float; 3%float] = Some [[2%float; 3%float]; [1%float; 3%float]; [1%float; 2%float]] /\
  src_shuffle FO0 du_new (sample_rng FO0 0) [] (set_seed 2) = None.
Proof. vm_compute. repeat split; reflexivity. Qed.

(** ** `alea::f64()` on BINARY64 (Flocq's specification of the primitive floats), for EVERY generator state word.
    The model follows the dependency's source: `((self.u64() >> 11) as f64) * CF64`, `CF64 = 1.0 / ((1u64 << 53) as f64)`.
    On the carrier [FO t] (any libm table: none is consulted) the conversion of k = u64() >> 11 < 2^53 is exact, the
    constant is exactly 2^-53 and the product k * 2^-53 is a binary64 number, so NO operation rounds: the draw is the
    finite double whose real value is k * 2^-53 with 0 <= k < 2^53 — a value of [0, 1 - 2^-53], never 1.0, never NaN,
    never negative — and the generator state advances exactly as for `u64()`. *)
From Flocq Require BinarySingleNaN PrimFloat.
From Compute Require Proofs.C19F64.
Local Notation finite64 v := (Flocq.IEEE754.BinarySingleNaN.is_finite (Flocq.IEEE754.PrimFloat.Prim2B v) = true).
Local Notation real64 v := (Flocq.IEEE754.BinarySingleNaN.B2R (Flocq.IEEE754.PrimFloat.Prim2B v)).
Theorem C19_alea_f64_unit_interval_binary64 :
  forall (t : libm_table) (s : rng),
    let k := Z.of_N (N.shiftr (fst (u64 s)) 11) in
    (0 <= k < 2 ^ 53)%Z /\
    finite64 (fst (f64 (FO t) s)) /\
    real64 (fst (f64 (FO t) s)) = (IZR k * / 2 ^ 53)%R /\
    (0 <= real64 (fst (f64 (FO t) s)) <= 1 - / 2 ^ 53)%R /\
    is_nan (FO t) (fst (f64 (FO t) s)) = false /\
    PrimFloat.ltb (fst (f64 (FO t) s)) 1 = true /\
    PrimFloat.leb 0 (fst (f64 (FO t) s)) = true /\
    snd (f64 (FO t) s) = snd (u64 s).
Proof. exact Proofs.C19F64.alea_f64_binary64. Qed.
(** the primitive behind `as f64` ([ofZ] of the carrier) is exact on every integer below 2^53, and the multiplication by
    the constant 2^-53 is exact on every such integer (the two facts the theorem composes) *)
Theorem C19_ofZ_exact_binary64 :
  forall (t : libm_table) (z : Z), (0 <= z < 2 ^ 53)%Z ->
    finite64 (ofZ (FO t) z) /\ real64 (ofZ (FO t) z) = IZR z /\
    cf64 (FO t) = 0x1p-53%float /\ real64 (cf64 (FO t)) = (/ 2 ^ 53)%R /\
    finite64 (mul (FO t) (ofZ (FO t) z) (cf64 (FO t))) /\
    real64 (mul (FO t) (ofZ (FO t) z) (cf64 (FO t))) = (IZR z * / 2 ^ 53)%R.
Proof.
  intros t z Hz. rewrite Proofs.C19F64.cf64_FO. cbn [ofZ mul FO].
  destruct (Proofs.C19F64.float_ofZ_exact z Hz) as (A & B). destruct (Proofs.C19F64.mul_cf64_exact z Hz) as (C & D).
  destruct Proofs.C19F64.cf64_exact as (_ & E). repeat split; assumption.
Qed.
(** a concrete draw: seed 42 gives k = 6132318200378678, the double k * 2^-53 *)
Example C19_example_alea_f64_binary64 :
  fst (f64 (FO empty_tbl) (set_seed 42)) = 0x1.5c94f97fbb536p-1%float /\
  Z.of_N (N.shiftr (fst (u64 (set_seed 42))) 11) = 6132318200378678%Z.
Proof. exact Proofs.C19F64.alea_f64_binary64_ex. Qed.
