(** * C09 — special functions.  Statements only (proofs: Proofs/C09*.v).
    Carrier: [RO] (the real-valued expression the code evaluates, with the regenerated constants).
    Claim: PARTIAL — what is proved: Γ(n) = (n−1)! to 1e-13 at all 171 integers; the functional equation
    Γ(z+1) = zΓ(z) to relative 2e-16 for EVERY real z in [1/2, 170.6] and, by reflection, in [−170.6, −1/2) off the poles,
    hence the shift theorem Γ(x+n) = Γ(x)·x(x+1)…(x+n−1) within (1±2e-16)^n for every real x ≥ 1/2; Γ(n+1/2) and Γ(−n−1/2)
    against their closed forms to 1e-13 for n = 0..170 (direct and reflection branch); B(m,n) = (m−1)!(n−1)!/(m+n−1)! to
    1e-12 at all integer pairs; the reflection identity, range safety of the repaired evaluation order, B(a,b) = B(b,a); the digamma recurrence for EVERY x > 0 (exact below 6, to 1e-10 on the
    whole asymptotic branch), its integer differences = harmonic sums, its Bernoulli coefficients; erf odd (x ≠ 0),
    bounded by 1, and within 1.5e-7 of the TRUE error function 2/sqrt(pi) int_0^x exp(-t^2) dt for EVERY real x.
    Not theorems: accuracy of Γ and B against the true functions away from integers and half-integers, and of ψ against the true digamma function
    (no Γ/ψ theory in the installed libraries); binary64 rounding of the formulas (correspondence + oracle). *)
From Coquelicot Require Import Coquelicot.
From Compute Require Import Proofs.C09_base Proofs.C09 Proofs.C09_erf_all Proofs.C09_half_base
  Proofs.C09_recur Proofs.C09_shift Proofs.C09_beta Proofs.C09_digamma.
Open Scope R_scope.

(** Tie A: every regenerated binary64 constant is a nearest double of the decimal literal in the source *)
Theorem C09_literals_ok : forallb lit_ok all_literals = true.
Proof. exact all_literals_ok. Qed.

(** Γ(n+1) = n!: |gamma n − (n−1)!| ≤ 1e-13·(n−1)! for every n = 1..171 *)
Theorem C09_lanczos_at_integers :
  Forall (fun n : nat =>
            Rabs (gamma RO (IZR (Z.of_nat n)) - IZR (zfact (n - 1))) <= IZR (zfact (n - 1)) * 1e-13)
         (seq 1 171).
Proof. exact lanczos_at_integers. Qed.

Theorem C09_gamma_reflection :
  forall z : R, z < 1/2 -> sin (PI * z) <> 0 -> gamma_pos RO (1 - z) <> 0 ->
    gamma RO z * gamma RO (1 - z) * sin (PI * z) = PI.
Proof. exact gamma_reflection. Qed.

(** the repaired order of evaluation keeps every real-valued factor inside the binary64 range for all
    arguments up to 171.6 (true Γ overflows at 171.62...) *)
Theorem C09_lanczos_factors_in_range :
  forall z : R, 1/2 <= z <= 1716/10 ->
    let t := z - 1 + 735/128 - 1/2 in
    let p := Rpower t ((z - 1 + 1/2) / 2) in
    0 < p <= 1e193 /\ R_sqrt.sqrt (2 * PI) * p * exp (- t) <= 1e118 /\
    0 < gamma_pos RO z <= 17e307.
Proof. exact lanczos_factors_in_range. Qed.

(** the unrepaired expression t^(z−1/2) is out of range at z = 144 while Γ(144) = 143! is not *)
Theorem C09_gamma_overflow_refuted :
  let z := 144 in let t := z - 1 + 735/128 - 1/2 in
  Rpower t (z - 1 + 1/2) > 2 ^ 1024 /\ IZR (zfact 143) < 2 ^ 1024.
Proof. exact gamma_overflow_refuted. Qed.

Theorem C09_beta_def : forall a b : R, beta RO a b = gamma RO a * gamma RO b / gamma RO (a + b).
Proof. exact beta_def. Qed.
Theorem C09_beta_symmetric : forall a b : R, beta RO a b = beta RO b a.
Proof. exact beta_symmetric. Qed.

(** ψ(x+1) = ψ(x) + 1/x to 1e-10 for every 0 < x ≤ 1e6 (exactly, below 6), whenever the fuel suffices ... *)
Theorem C09_digamma_recurrence :
  forall (fuel : nat) (x a b : R),
    0 < x <= 1000000 -> digamma RO (S fuel) x = Some a -> digamma RO (S fuel) (x + 1) = Some b ->
    Rabs (b - a - 1 / x) <= 1e-10.
Proof. exact digamma_recurrence. Qed.
(** ... and 7 levels always suffice for a positive argument *)
Theorem C09_digamma_positive_defined : forall x : R, 0 < x -> exists v, digamma RO 7 x = Some v.
Proof. exact digamma_positive_defined. Qed.

(** the asymptotic coefficients in the source are −B_{2k}/(2k), k = 1..7 (Bernoulli numbers by recurrence) *)
Theorem C09_digamma_series_coeffs :
  map digamma_term_q digamma_terms =
  map (fun k => (Qred (- bernoulli (2 * k) / inject_Z (Z.of_nat (2 * k))), Z.of_nat (2 * k))) (seq 1 7).
Proof. exact digamma_series_coeffs. Qed.

Theorem C09_erf_bounded : forall x : R, Rabs (erf RO x) <= 1.
Proof. exact erf_bounded. Qed.
Theorem C09_erf_odd : forall x : R, x <> 0 -> erf RO (- x) = - erf RO x.
Proof. exact erf_odd. Qed.
(** known finding: the Abramowitz–Stegun formula does not vanish at 0, so oddness fails at exactly x = 0 *)
Theorem C09_erf_at_zero : erf RO 0 = 1 / 1000000000.
Proof. exact erf_at_zero. Qed.

(** ** Extensions: accuracy against the true functions *)

(** erf: the Abramowitz–Stegun formula of the code is within 1.5e-7 of the true error function, written as Coquelicot's
    Riemann integral, for EVERY real x.  On [0,6]: adaptive cells, on each the error at the midpoint is enclosed by
    coq-interval's [integral] and the closed-form derivative of the error by [interval] (mean value theorem); beyond 6
    both sides are within 1e-10 of 1; negative x by oddness of both sides.  In particular at every grid point k/64,
    k = 0..384 (stated separately as lemma [erf_accuracy_grid] in Proofs/C09_erf.v; not pinned here
    only to keep the audit of this file short).  Re-proved on the regenerated constants. *)
Theorem C09_erf_accuracy :
  forall x : R,
    Rabs (erf RO x - 2 / R_sqrt.sqrt PI * RInt (fun t => exp (- (t * t))) 0 x) <= 1.5e-7.
Proof. exact erf_accuracy_all. Qed.

(** Γ: the functional equation Γ(z+1) = zΓ(z) holds for the Lanczos formula of the code to relative 2e-16 for EVERY real
    z in [1/2, 170.6] (direct branch; [interval] with bisection and Taylor models on the well-conditioned quotient
    z A(z)/A(z+1) exp(...); the largest deviation is about 5.2e-17 at z = 1/2) and, through the reflection branch, for
    every z in [−170.6, −1/2) that is not a pole *)
Theorem C09_gamma_recurrence :
  (forall z : R, 1/2 <= z <= 1706/10 ->
     Rabs (gamma RO (z + 1) - z * gamma RO z) <= 2e-16 * Rabs (gamma RO (z + 1))) /\
  (forall z : R, -1706/10 <= z < -1/2 -> sin (PI * z) <> 0 ->
     Rabs (gamma RO (z + 1) - z * gamma RO z) <= 2e-16 * Rabs (gamma RO (z + 1))) /\
  (* hence the shift theorem, for every real x >= 1/2 and every n with x + n <= 171.6
     ([rprod x n] = x (x+1) ... (x+n−1)) *)
  (forall (x : R) (n : nat), 1/2 <= x -> x + INR n <= 1716/10 ->
     gamma RO x * rprod x n <= gamma RO (x + INR n) * (1 + 2e-16) ^ n /\
     gamma RO (x + INR n) * (1 - 2e-16) ^ n <= gamma RO x * rprod x n).
Proof. split; [exact gamma_recurrence_pos|split; [exact gamma_recurrence_neg|exact gamma_shift]]. Qed.
Theorem C09_rprod_def :
  forall x : R, rprod x 0 = 1 /\ forall n : nat, rprod x (S n) = rprod x n * (x + INR n).
Proof. intros x; split; reflexivity. Qed.

(** Γ at the half-integers, where the true value is known in closed form: Γ(n+1/2) = (2n)! sqrt(pi) / (4^n n!) (direct
    branch) and Γ(−n−1/2) = (−4)^(n+1) (n+1)! sqrt(pi) / (2n+2)! (reflection branch), to relative 1e-13 for n = 0..170
    (from the shift theorem and one [interval] evaluation, Γ(1/2) = sqrt(pi) to 1e-15) *)
Theorem C09_gamma_at_half_integers :
  Forall (fun n : nat =>
            Rabs (gamma RO (IZR (Z.of_nat n) + 1/2)
                  - IZR (zfact (2 * n)) * R_sqrt.sqrt PI / IZR (4 ^ Z.of_nat n * zfact n))
            <= Rabs (IZR (zfact (2 * n)) * R_sqrt.sqrt PI / IZR (4 ^ Z.of_nat n * zfact n)) * 1e-13)
         (seq 0 171) /\
  Forall (fun n : nat =>
            Rabs (gamma RO (- IZR (Z.of_nat n) - 1/2)
                  - IZR ((-4) ^ Z.of_nat (S n) * zfact (S n)) * R_sqrt.sqrt PI / IZR (zfact (2 * S n)))
            <= Rabs (IZR ((-4) ^ Z.of_nat (S n) * zfact (S n)) * R_sqrt.sqrt PI / IZR (zfact (2 * S n))) * 1e-13)
         (seq 0 171).
Proof. exact gamma_at_half_integers'. Qed.

(** beta at ALL integer pairs: B(m,n) = (m−1)! (n−1)! / (m+n−1)! to relative 1e-12, m, n >= 1, m + n <= 171 *)
Theorem C09_beta_at_integers :
  forall m n : nat, (1 <= m)%nat -> (1 <= n)%nat -> (m + n <= 171)%nat ->
    Rabs (beta RO (IZR (Z.of_nat m)) (IZR (Z.of_nat n))
          - IZR (zfact (m - 1)) * IZR (zfact (n - 1)) / IZR (zfact (m + n - 1)))
    <= IZR (zfact (m - 1)) * IZR (zfact (n - 1)) / IZR (zfact (m + n - 1)) * 1e-12.
Proof. exact beta_at_integers. Qed.

(** digamma: the recurrence ψ(x+1) = ψ(x) + 1/x to 1e-10 for EVERY x > 0 (no upper limit: the whole asymptotic branch,
    by [interval] in u = 1/x on [0, 1/6]); hence ψ(n) − ψ(m) = H_(n−1) − H_(m−1) within (n−m)·1e-10 for all integers
    1 ≤ m ≤ n ([harmonic k] = 1 + 1/2 + ... + 1/k; the real-argument k-step form is lemma [digamma_steps]) *)
Theorem C09_digamma_recurrence_all :
  (forall (fuel : nat) (x a b : R),
     0 < x -> digamma RO (S fuel) x = Some a -> digamma RO (S fuel) (x + 1) = Some b ->
     Rabs (b - a - 1 / x) <= 1e-10) /\
  (forall (fuel m n : nat) (a b : R),
     (1 <= m <= n)%nat ->
     digamma RO (S fuel) (INR m) = Some a -> digamma RO (S fuel) (INR n) = Some b ->
     Rabs (b - a - (harmonic (n - 1) - harmonic (m - 1))) <= INR (n - m) * 1e-10).
Proof. split; [exact digamma_recurrence_all|exact digamma_integer_differences]. Qed.
Theorem C09_harmonic_def :
  harmonic 0 = 0 /\ forall n : nat, harmonic (S n) = harmonic n + 1 / INR (S n).
Proof. split; reflexivity. Qed.

(** ** Tie A: the model IS the source (expression translator).  [Generated/special.v] is re-translated from
    src/functions/gamma.rs and src/functions/statistical.rs on every run (tools/tiea/special.py, tools/rsexpr.py),
    operation for operation, with the literals of Generated/special_consts.v.  [src_f O F] is the BODY of the Rust
    function [f] with its recursive call rendered as a call of [F].  The theorems hold for EVERY carrier [T] and
    operations record [O] (the digamma ones under [ofZ O 1 = one O], true by computation on R, Q and binary64: the
    model takes its numerators from the generated table, the source writes [1.]). *)
From Coq Require Import ZArith QArith Reals Floats List.
From Compute Require Import Base.Ops Base.RsExpr Model.Special Generated.special_consts Generated.special Proofs.TieA_special.
Theorem C09_model_is_source_beta :
  forall (T : Type) (O : Ops T) (a b : T), src_beta O (gamma O) a b = beta O a b.
Proof. exact @tiea_beta. Qed.
(** the body of [gamma] is: reflection formula around the recursive call below 1/2, the model's [gamma_pos] (Lanczos
    loop, split power) from 1/2 on *)
Theorem C09_model_is_source_gamma_body :
  forall (T : Type) (O : Ops T) (Gam : T -> T) (z : T),
    src_gamma O Gam z =
    if ltb O z (ofQ O (1 # 2)) then div O (pi O) (mul O (f1 O Sin (mul O (pi O) z)) (Gam (sub O (one O) z)))
    else gamma_pos O z.
Proof. exact @tiea_gamma_body. Qed.
(** the model is the body whose reflected call [gamma(1. - z)] takes the [else] branch *)
Theorem C09_model_is_source_gamma :
  forall (T : Type) (O : Ops T) (z : T), src_gamma O (gamma_pos O) z = gamma O z.
Proof. exact @tiea_gamma. Qed.
(** and on the reals it satisfies the source's recursion equation itself *)
Theorem C09_model_is_source_gamma_fixpoint_R : forall z : R, src_gamma RO (gamma RO) z = gamma RO z.
Proof. exact gamma_fixpoint_R. Qed.
Theorem C09_model_is_source_erf_body :
  forall (T : Type) (O : Ops T) (Erf : T -> T) (x : T),
    src_erf O Erf x = if leb O (zero O) x then erf_nonneg O x else neg O (Erf (neg O x)).
Proof. exact @tiea_erf_body. Qed.
Theorem C09_model_is_source_erf :
  forall (T : Type) (O : Ops T) (x : T), src_erf O (erf_nonneg O) x = erf O x.
Proof. exact @tiea_erf. Qed.
Theorem C09_model_is_source_erf_fixpoint_R : forall x : R, src_erf RO (erf RO) x = erf RO x.
Proof. exact erf_fixpoint_R. Qed.
(** digamma: from 6 on the source's series is the model's fold over the generated table *)
Theorem C09_model_is_source_digamma_series :
  forall (T : Type) (O : Ops T), ofZ O 1 = one O ->
    forall (Dig : T -> T) (x : T), ltb O x (ofZ O 6) = false -> src_digamma O Dig x = digamma_asym O x.
Proof. exact @tiea_digamma_series. Qed.
(** one unfolding of the fuelled model is the source body (the recursive call's value [d] plugged in) *)
Theorem C09_model_is_source_digamma :
  forall (T : Type) (O : Ops T), ofZ O 1 = one O ->
    forall (fuel : nat) (x : T),
      digamma O (S fuel) x =
      if ltb O x (ofZ O 6)
      then option_map (fun d : T => src_digamma O (fun _ : T => d) x) (digamma O fuel (add O x (one O)))
      else Some (src_digamma O (fun y : T => y) x).
Proof. exact @tiea_digamma. Qed.
Theorem C09_model_is_source_digamma_carriers :
  ofZ RO 1 = one RO /\ ofZ QO 1 = one QO /\ forall t : libm_table, ofZ (FO t) 1 = one (FO t).
Proof. exact (conj ofZ_one_RO (conj ofZ_one_QO ofZ_one_FO)). Qed.
