(** * C09 — special functions.  Statements only (proofs: Proofs/C09*.v).
    Carrier: [RO] (the real-valued expression the code evaluates, with the regenerated constants).
    Claim: PARTIAL — accuracy against the true Γ, ψ, erf at non-grid reals is not a theorem (no Γ/erf theory in
    the installed libraries); what is proved: Γ(n) = (n−1)! to 1e-13 at all 171 integers, the reflection
    identity, range safety of the repaired evaluation order, B(a,b) = B(b,a), the digamma recurrence (exact below
    6, to 1e-10 on [6, 1e6]) and its Bernoulli coefficients, erf odd (x ≠ 0) and bounded by 1. *)
From Compute Require Import Proofs.C09_base Proofs.C09.

(** Tie A: every regenerated binary64 constant is a nearest double of the decimal literal in the source *)
Theorem C09_literals_ok : forallb lit_ok all_literals = true.
Proof. exact all_literals_ok. Qed.

(** Γ(n+1) = n!: |gamma n − (n−1)!| ≤ 1e-13·(n−1)! for every n = 1..171 *)
Theorem C09_lanczos_at_integers :
  Forall (fun n : nat =>
            Rabs (gamma RO (IZR (Z.of_nat n)) - IZR (zfact (n - 1))) <= IZR (zfact (n - 1)) * 1e-13)
         (seq 1 171).
Proof. exact lanczos_at_integers. Qed.

Theorem C09_gamma_reflection :
  forall z : R, z < 1/2 -> sin (PI * z) <> 0 -> gamma_pos RO (1 - z) <> 0 ->
    gamma RO z * gamma RO (1 - z) * sin (PI * z) = PI.
Proof. exact gamma_reflection. Qed.

(** the repaired order of evaluation keeps every real-valued factor inside the binary64 range for all
    arguments up to 171.6 (true Γ overflows at 171.62...) *)
Theorem C09_lanczos_factors_in_range :
  forall z : R, 1/2 <= z <= 1716/10 ->
    let t := z - 1 + 735/128 - 1/2 in
    let p := Rpower t ((z - 1 + 1/2) / 2) in
    0 < p <= 1e193 /\ R_sqrt.sqrt (2 * PI) * p * exp (- t) <= 1e118 /\
    0 < gamma_pos RO z <= 17e307.
Proof. exact lanczos_factors_in_range. Qed.

(** the unrepaired expression t^(z−1/2) is out of range at z = 144 while Γ(144) = 143! is not *)
Theorem C09_gamma_overflow_refuted :
  let z := 144 in let t := z - 1 + 735/128 - 1/2 in
  Rpower t (z - 1 + 1/2) > 2 ^ 1024 /\ IZR (zfact 143) < 2 ^ 1024.
Proof. exact gamma_overflow_refuted. Qed.

Theorem C09_beta_def : forall a b : R, beta RO a b = gamma RO a * gamma RO b / gamma RO (a + b).
Proof. exact beta_def. Qed.
Theorem C09_beta_symmetric : forall a b : R, beta RO a b = beta RO b a.
Proof. exact beta_symmetric. Qed.

(** ψ(x+1) = ψ(x) + 1/x to 1e-10 for every 0 < x ≤ 1e6 (exactly, below 6), whenever the fuel suffices ... *)
Theorem C09_digamma_recurrence :
  forall (fuel : nat) (x a b : R),
    0 < x <= 1000000 -> digamma RO (S fuel) x = Some a -> digamma RO (S fuel) (x + 1) = Some b ->
    Rabs (b - a - 1 / x) <= 1e-10.
Proof. exact digamma_recurrence. Qed.
(** ... and 7 levels always suffice for a positive argument *)
Theorem C09_digamma_positive_defined : forall x : R, 0 < x -> exists v, digamma RO 7 x = Some v.
Proof. exact digamma_positive_defined. Qed.

(** the asymptotic coefficients in the source are −B_{2k}/(2k), k = 1..7 (Bernoulli numbers by recurrence) *)
Theorem C09_digamma_series_coeffs :
  map digamma_term_q digamma_terms =
  map (fun k => (Qred (- bernoulli (2 * k) / inject_Z (Z.of_nat (2 * k))), Z.of_nat (2 * k))) (seq 1 7).
Proof. exact digamma_series_coeffs. Qed.

Theorem C09_erf_bounded : forall x : R, Rabs (erf RO x) <= 1.
Proof. exact erf_bounded. Qed.
Theorem C09_erf_odd : forall x : R, x <> 0 -> erf RO (- x) = - erf RO x.
Proof. exact erf_odd. Qed.
(** known finding: the Abramowitz–Stegun formula does not vanish at 0, so oddness fails at exactly x = 0 *)
Theorem C09_erf_at_zero : erf RO 0 = 1 / 1000000000.
Proof. exact erf_at_zero. Qed.
