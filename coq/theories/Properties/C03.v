(** * C03 — samplers draw from the law they describe.  Statements only.
    Claim: PARTIAL.  Proved, for EVERY random source (an arbitrary state machine delivering [alea::u64()], [alea::f64()],
    [alea::i64_in_range]; nothing about `alea` is assumed except where a hypothesis says so) and every parameter:
    the inverse-CDF samplers hit their CDF exactly, Bernoulli/DiscreteUniform/Poisson/binomial-inversion draws are integers of
    the support, the Gamma sampler returns positive values and its shape < 1 branch is the boost identity, bulk sampling has the
    requested shape, the MVN draw is mu + L z, the ziggurat tables regenerated from the source satisfy the construction
    identities.  NOT proved: that the rejection samplers (ziggurat, Marsaglia-Tsang, PTRS, BTPE) produce their target law —
    a statement about measures, explored by the DKW oracle only. *)
From Coq Require Import Reals List ZArith NArith.
From Coq Require Import QArith Qabs Qround Floats.
From Compute Require Import Base.Ops Base.ListMat Base.Rng Model.MatMul Spec.MatMul Model.Samplers Spec.Samplers.
From Compute Require Import Generated.ziggurat_tables Generated.sampler_consts Proofs.C03 Proofs.C03_zig Proofs.C03_discrete Proofs.C03_mvn Proofs.C03_pins Proofs.C03_diverge Proofs.C03_binv Proofs.C03_examples Proofs.C03_more.
Import ListNotations.
Open Scope R_scope.

(** ** inverse-CDF samplers: F(sample(u)) = u (or 1 - u), in the support, monotone in u — every u in (0,1) *)
Theorem C03_uniform_inverse_cdf :
  forall (S : Type) (src : source S R) (lo hi : R) (s : S),
    lo < hi ->
    uniform_cdf lo hi (fst (uniform_sample RO src lo hi s)) = fst (next_f64 src s) /\
    (0 <= fst (next_f64 src s) < 1 -> lo <= fst (uniform_sample RO src lo hi s) < hi) /\
    snd (uniform_sample RO src lo hi s) = snd (next_f64 src s).
Proof. exact @uniform_inverse_cdf. Qed.
Theorem C03_uniform_monotone :
  forall (S : Type) (src : source S R) (lo hi : R) (s1 s2 : S),
    lo < hi -> fst (next_f64 src s1) < fst (next_f64 src s2) ->
    fst (uniform_sample RO src lo hi s1) < fst (uniform_sample RO src lo hi s2).
Proof. exact @uniform_monotone. Qed.
Theorem C03_uniform_degenerate :
  forall (S : Type) (src : source S R) (lo : R) (s : S), fst (uniform_sample RO src lo lo s) = lo.
Proof. exact @uniform_degenerate. Qed.

Theorem C03_exponential_inverse_cdf :
  forall (S : Type) (src : source S R) (fuel : nat) (lambda : R) (s : S),
    0 < lambda -> 0 < fst (next_f64 src s) < 1 ->
    exists x, exponential_sample RO src (Datatypes.S fuel) lambda s = Ok (x, snd (next_f64 src s)) /\
              exponential_cdf lambda x = 1 - fst (next_f64 src s) /\ 0 < x.
Proof. exact @exponential_inverse_cdf_pin. Qed.
Theorem C03_exponential_monotone :
  forall (S : Type) (src : source S R) (fuel : nat) (lambda : R) (s1 s2 : S) (x1 x2 : R) (t1 t2 : S),
    0 < lambda -> 0 < fst (next_f64 src s1) -> fst (next_f64 src s1) < fst (next_f64 src s2) ->
    exponential_sample RO src (Datatypes.S fuel) lambda s1 = Ok (x1, t1) ->
    exponential_sample RO src (Datatypes.S fuel) lambda s2 = Ok (x2, t2) -> x2 < x1.
Proof. exact @exponential_monotone_pin. Qed.
(** the repaired redraw loop: zero variates are skipped, whatever their number; a returned draw is never infinite *)
Theorem C03_exponential_skips_zero_variates :
  forall (S : Type) (src : source S R) (fuel : nat) (s : S),
    fst (next_f64 src s) <= 0 ->
    positive_unit RO src (Datatypes.S fuel) s = positive_unit RO src fuel (snd (next_f64 src s)).
Proof. exact @positive_unit_skip. Qed.
Theorem C03_exponential_support :
  forall (S : Type) (src : source S R) (fuel : nat) (lambda : R) (s : S) (x : R) (s' : S),
    0 < lambda -> unit_source src -> exponential_sample RO src fuel lambda s = Ok (x, s') -> 0 < x.
Proof. exact @exponential_support. Qed.

Theorem C03_gumbel_inverse_cdf :
  forall (S : Type) (src : source S R) (fuel : nat) (mu beta : R) (s : S),
    0 < beta -> 0 < fst (next_f64 src s) < 1 ->
    exists x, gumbel_sample RO src (Datatypes.S fuel) mu beta s = Ok (x, snd (next_f64 src s)) /\
              gumbel_cdf mu beta x = fst (next_f64 src s).
Proof. exact @gumbel_inverse_cdf_pin. Qed.
Theorem C03_gumbel_monotone :
  forall (S : Type) (src : source S R) (fuel : nat) (mu beta : R) (s1 s2 : S) (x1 x2 : R) (t1 t2 : S),
    0 < beta -> 0 < fst (next_f64 src s1) -> fst (next_f64 src s1) < fst (next_f64 src s2) -> fst (next_f64 src s2) < 1 ->
    gumbel_sample RO src (Datatypes.S fuel) mu beta s1 = Ok (x1, t1) ->
    gumbel_sample RO src (Datatypes.S fuel) mu beta s2 = Ok (x2, t2) -> x1 < x2.
Proof. exact @gumbel_monotone_pin. Qed.

Theorem C03_pareto_inverse_cdf :
  forall (S : Type) (src : source S R) (fuel : nat) (alpha m : R) (s : S),
    0 < alpha -> 0 < m -> 0 < fst (next_f64 src s) < 1 ->
    exists x, pareto_sample RO src (Datatypes.S fuel) alpha m s = Ok (x, snd (next_f64 src s)) /\
              pareto_cdf alpha m x = 1 - fst (next_f64 src s) /\ m < x.
Proof. exact @pareto_inverse_cdf_pin. Qed.
Theorem C03_pareto_monotone :
  forall (S : Type) (src : source S R) (fuel : nat) (alpha m : R) (s1 s2 : S) (x1 x2 : R) (t1 t2 : S),
    0 < alpha -> 0 < m -> 0 < fst (next_f64 src s1) -> fst (next_f64 src s1) < fst (next_f64 src s2) ->
    pareto_sample RO src (Datatypes.S fuel) alpha m s1 = Ok (x1, t1) ->
    pareto_sample RO src (Datatypes.S fuel) alpha m s2 = Ok (x2, t2) -> x2 < x1.
Proof. exact @pareto_monotone_pin. Qed.

(** ** Bernoulli: 1 iff u < p; DiscreteUniform: the range draw itself *)
Theorem C03_bernoulli_iff :
  forall (S : Type) (src : source S R) (p : R) (s : S),
    0 < p < 1 ->
    (fst (bernoulli_sample RO src p s) = 1 <-> fst (next_f64 src s) < p) /\
    (fst (bernoulli_sample RO src p s) = 0 <-> ~ fst (next_f64 src s) < p).
Proof. exact @bernoulli_iff. Qed.
Theorem C03_bernoulli_degenerate :
  forall (S : Type) (src : source S R) (s : S),
    bernoulli_sample RO src 1 s = (1, s) /\ bernoulli_sample RO src 0 s = (0, s).
Proof. exact @bernoulli_degenerate_pin. Qed.
Theorem C03_bernoulli_support :
  forall (S : Type) (src : source S R) (p : R) (s : S),
    fst (bernoulli_sample RO src p s) = 0 \/ fst (bernoulli_sample RO src p s) = 1.
Proof. exact @bernoulli_support. Qed.
Theorem C03_discrete_uniform_is_range_draw :
  forall (S : Type) (src : source S R) (lo hi : Z) (s : S),
    discrete_uniform_sample RO src lo hi s =
    match next_range src lo hi s with Ok (k, s') => Ok (IZR k, s') | Fail => Fail | Fuel => Fuel end.
Proof. exact @discrete_uniform_spec. Qed.
Theorem C03_discrete_uniform_support :
  forall (S : Type) (src : source S R) (lo hi : Z) (s : S) (x : R) (s' : S),
    range_source src -> discrete_uniform_sample RO src lo hi s = Ok (x, s') ->
    exists k : Z, x = IZR k /\ (lo <= k <= hi)%Z.
Proof. exact @discrete_uniform_support. Qed.

(** ** bulk sampling: requested number and shape, for every carrier, source, distribution and count *)
Theorem C03_sample_n_length :
  forall (T S : Type) (O : Ops T) (src : source S T) (fuel : nat) (d : dist T) (n : nat) (s : S) (l : list T) (s' : S),
    sample_n O src fuel d n s = Ok (l, s') -> length l = n.
Proof. exact @sample_n_length. Qed.
Theorem C03_sample_matrix_shape :
  forall (T S : Type) (O : Ops T) (src : source S T) (fuel : nat) (d : dist T) (r c : nat) (s : S) (m : matrix) (s' : S),
    sample_matrix O src fuel d r c s = Ok (m, s') -> nr m = r /\ nc m = c /\ length (dat m) = (r * c)%nat.
Proof. exact @sample_matrix_shape. Qed.
Theorem C03_sample_matrix_accepts :
  forall (T S : Type) (O : Ops T) (src : source S T) (fuel : nat) (d : dist T) (r c : nat) (s : S) (l : list T) (s' : S),
    (0 < r)%nat -> (0 < c)%nat -> sample_n O src fuel d (r * c) s = Ok (l, s') ->
    sample_matrix O src fuel d r c s = Ok ({| nr := r; nc := c; dat := l |}, s').
Proof. exact @sample_matrix_accepts. Qed.
(** restated for the repaired [Matrix::new] (C04 finding empty-matrix:value-form-panics: the request 0 x 0 on empty data is
    now accepted); the statement used to be [(r = 0 \/ c = 0) -> never Ok], which described the original refusal *)
Theorem C03_sample_matrix_rejects_empty :
  forall (T S : Type) (O : Ops T) (src : source S T) (fuel : nat) (d : dist T) (r c : nat) (s : S),
    (r = 0 \/ c = 0)%nat -> ~ (r = 0 /\ c = 0)%nat -> forall m s', sample_matrix O src fuel d r c s <> Ok (m, s').
Proof. exact @sample_matrix_rejects_empty. Qed.
Theorem C03_sample_matrix_empty :
  forall (T S : Type) (O : Ops T) (src : source S T) (fuel : nat) (d : dist T) (s : S),
    sample_matrix O src fuel d 0 0 s = Ok ({| nr := 0; nc := 0; dat := [] |}, s).
Proof. exact @sample_matrix_empty. Qed.

(** ** Gamma (Marsaglia-Tsang + boost): every returned value is positive; shape < 1 is the boost identity *)
Theorem C03_gamma_mt_positive :
  forall (S : Type) (src : source S R) (fuel : nat) (alpha beta : R) (s : S) (g : R) (s' : S),
    1 <= alpha -> 0 < beta -> gamma_sample RO src fuel alpha beta s = Ok (g, s') -> 0 < g.
Proof. exact @gamma_mt_positive_pin. Qed.
Theorem C03_gamma_positive_every_shape :
  forall (S : Type) (src : source S R) (fuel : nat) (alpha beta : R) (s : S) (g : R) (s' : S),
    0 < alpha -> 0 < beta -> gamma_sample RO src fuel alpha beta s = Ok (g, s') -> 0 < g.
Proof. exact @gamma_sample_pos. Qed.
Theorem C03_gamma_boost_identity :
  forall (S : Type) (src : source S R) (fuel : nat) (alpha beta : R) (s : S),
    0 < alpha < 1 ->
    gamma_sample RO src fuel alpha beta s =
    match gamma_sample RO src fuel (alpha + 1) beta (snd (next_f64 src s)) with
    | Ok (g, s') => Ok (Rpower (fst (next_f64 src s)) (1 / alpha) * g, s')
    | Fail => Fail
    | Fuel => Fuel
    end.
Proof. exact @gamma_boost_identity. Qed.

(** ** discrete samplers: integer values of the support *)
Theorem C03_poisson_sample_is_count :
  forall (S : Type) (src : source S R) (fuel : nat) (lambda : R) (s : S) (k : R) (s' : S),
    0 < lambda -> unit_source src -> poisson_sample RO src fuel lambda s = Ok (k, s') -> exists n : nat, k = INR n.
Proof. exact @poisson_sample_count. Qed.
Theorem C03_ptrs_squeeze_nonneg :
  forall lam U0 : R,
    10 <= lam -> Rabs U0 <= 1 / 2 -> 7 / 100 <= 1 / 2 - Rabs U0 ->
    let slam := R_sqrt.sqrt lam in
    let b := 931 / 1000 + 253 / 100 * slam in
    let a := - (59 / 1000) + 2483 / 100000 * b in
    0 <= (2 * a / (1 / 2 - Rabs U0) + b) * U0 + lam + 43 / 100.
Proof. exact ptrs_squeeze_nonneg. Qed.
Theorem C03_binomial_inversion_le_n :
  forall (S : Type) (src : source S R) (fuel : nat) (n : N) (p : R) (s : S) (y : N) (s' : S),
    binomial_inversion RO src fuel n p s = Ok (y, s') -> (y <= n)%N.
Proof. exact @binomial_inversion_le. Qed.
Theorem C03_binomial_sample_support_inversion_regime :
  forall (S : Type) (src : source S R) (fuel : nat) (n : N) (p : R) (s : S) (y : R) (s' : S),
    (n < 18446744073709551616)%N ->
    (n = 0%N \/ p = 0 \/ Rabs (p - 1) <= Q2R (1 # 4503599627370496) \/
     (if Rlt_dec (1 / 2) p then 1 - p else p) * IZR (Z.of_N n) <= 30) ->
    binomial_sample RO src fuel n p s = Ok (y, s') -> exists k : Z, y = IZR k /\ (0 <= k <= Z.of_N n)%Z.
Proof. exact @binomial_sample_support. Qed.

(** ** multivariate normal: the draw is mu + L z; bulk draws form an n x dim matrix (every carrier) *)
Theorem C03_mvn_sample_is_mu_plus_Lz :
  forall (T S : Type) (O : Ops T) (src : source S T) (fuel : nat) (mu L : list T) (s : S) (z : list T) (s' : S),
    (0 < length mu)%nat -> length L = (length mu * length mu)%nat ->
    sample_n O src fuel (DNormal (zero O) (one O)) (length mu) s = Ok (z, s') ->
    exists v, mvn_sample O src fuel mu L s = Ok (v, s') /\ length v = length mu /\
      forall i, (i < length mu)%nat ->
        nth i v (zero O) =
        add O (nth i mu (zero O)) (sumk O (fun k => mul O (nth (i * length mu + k) L (zero O)) (nth k z (zero O))) (length mu)).
Proof. exact @mvn_sample_structure. Qed.
Theorem C03_mvn_sample_n_shape :
  forall (T S : Type) (O : Ops T) (src : source S T) (fuel : nat) (mu L : list T) (n : nat) (s : S) (m : matrix) (s' : S),
    mvn_sample_n O src fuel mu L n s = Ok (m, s') -> nr m = n /\ nc m = length mu /\ length (dat m) = (n * length mu)%nat.
Proof. exact @mvn_sample_n_shape. Qed.
Theorem C03_mvn_sample_n_accepts :
  forall (T S : Type) (O : Ops T) (src : source S T) (fuel : nat) (mu L : list T) (n : nat) (s : S) (rows : list (list T)) (s' : S),
    (0 < n)%nat -> (0 < length mu)%nat -> draws (mvn_sample O src fuel mu L) n s = Ok (rows, s') ->
    mvn_sample_n O src fuel mu L n s = Ok ({| nr := n; nc := length mu; dat := concat rows |}, s').
Proof. exact @mvn_sample_n_accepts. Qed.

(** ** the ziggurat tables regenerated from normal.rs (Tie A) satisfy the construction identities Z1-Z6 *)
Theorem C03_ziggurat_tables_consistent :
  (length zig_K = 128 /\ length zig_W = 128 /\ length zig_Y = 128)%nat /\
  (yq 0 == 1)%Q /\
  (forall i, (i < 127)%nat -> Rabs (Q2R (yq (Datatypes.S i)) - exp (- (Q2R (xq i) * Q2R (xq i)) / 2)) <= 1 / 100000000000) /\
  (kz 0 = 0%Z /\ forall i, (i < 127)%nat -> kz (Datatypes.S i) = Qfloor ((16777216 # 1) * xq i / xq (Datatypes.S i))) /\
  (forall i, (i < 128)%nat -> (Qabs (area i - area 0) <= tol9 * area 0)%Q) /\
  ((Qabs (xq 127 - (rq + 1 / rq)) <= tol9)%Q /\ (Qabs (xq 126 - rq) <= tol9)%Q) /\
  ((forall i, (i < 127)%nat -> (xq i < xq (Datatypes.S i))%Q /\ (yq (Datatypes.S i) < yq i)%Q) /\ (0 < xq 0)%Q /\ (0 < yq 127)%Q) /\
  forallb lit_ok zig_literals = true.
Proof. exact ziggurat_tables_consistent. Qed.
Theorem C03_ln_gamma_constant_is_nearest_double : lit_ok ln_sqrt_2pi = true.
Proof. vm_compute. reflexivity. Qed.

(** ** binomial inversion IS inversion of the binomial CDF (real carrier): the draw y has F(y-1) < u <= F(y) for a uniform
    variate u of the source (the first, or the one redrawn after the BINV restart), and the loop's terms are the mass function *)
Theorem C03_binomial_inversion_is_inverse_cdf :
  forall (S : Type) (src : source S R) (fuel n : nat) (p : R) (s : S) (y : N) (s' : S),
    0 < p < 1 -> binomial_inversion RO src fuel (N.of_nat n) p s = Ok (y, s') ->
    (N.to_nat y <= n)%nat /\
    exists s0, let u := fst (next_f64 src s0) in
      (forall j, (j < N.to_nat y)%nat -> binomial_cdf n p j < u) /\ u <= binomial_cdf n p (N.to_nat y).
Proof. exact @binomial_inversion_is_inverse_cdf. Qed.
Theorem C03_binv_terms_are_binomial_pmf :
  forall (n : nat) (p : R) (k : nat),
    0 < p < 1 -> (k <= n)%nat ->
    binv_term ((1 - p) ^ n) ((INR n + 1) * (p / (1 - p))) (p / (1 - p)) k = C n k * p ^ k * (1 - p) ^ (n - k).
Proof. exact binv_term_is_pmf. Qed.

(** ** binary64: the formal content of defect D10.  Before the repair d = alpha - 1/3 for every shape; whenever 9 d < 0 the
    candidate is NaN on every stream and the inner loop cannot exit, so the sampler never returns a value *)
Theorem C03_gamma_small_shape_diverges :
  forall (t : libm_table) (S : Type) (src : source S float) (fuel : nat) (alpha beta : float) (s : S),
    ltb (FO t) (mul (FO t) (ofZ (FO t) 9) (sub (FO t) alpha (div (FO t) (one (FO t)) (ofZ (FO t) 3)))) (zero (FO t)) = true ->
    forall r, gamma_sample_before_fix t src fuel alpha beta s <> Ok r.
Proof. exact @gamma_small_shape_diverges. Qed.
Theorem C03_gamma_inner_loop_never_exits_on_negative_d :
  forall (t : libm_table) (S : Type) (src : source S float) (fuel nfuel : nat) (d : float),
    ltb (FO t) (mul (FO t) (ofZ (FO t) 9) d) (zero (FO t)) = true ->
    forall s r, gamma_xv (FO t) src fuel nfuel d s <> Ok r.
Proof. exact @gamma_xv_never_exits. Qed.

(** ** non-vacuity: on a concrete source the Gamma sampler returns (so the positivity theorems are about existing runs) *)
Theorem C03_gamma_returns_on_a_concrete_source :
  gamma_sample RO (const_source (1 / 2)) 1 2 1 0%nat = Ok (2 - 1 / 3, 3%nat).
Proof. exact gamma_returns_on_const_source. Qed.

(** termination of the inversion sampler on the reals: a variate not above F(kb), kb below the restart bound, is inverted
    without a restart, consuming exactly one variate, whenever fuel >= kb *)
Theorem C03_binomial_inversion_terminates :
  forall (S : Type) (src : source S R) (fuel n : nat) (p : R) (s : S) (kb : nat),
    0 < p < 1 -> (kb <= n)%nat -> (kb <= fuel)%nat ->
    IZR (Z.of_nat kb) < IZR (Z.of_nat n) ->
    IZR (Z.of_nat kb) < IZR (Z.of_nat n) * p + 10 * R_sqrt.sqrt (IZR (Z.of_nat n) * p * (1 - p) + 1) ->
    fst (next_f64 src s) <= binomial_cdf n p kb ->
    exists y : nat,
      binomial_inversion RO src fuel (N.of_nat n) p s = Ok (N.of_nat y, snd (next_f64 src s)) /\ (y <= kb)%nat /\
      (forall j, (j < y)%nat -> binomial_cdf n p j < fst (next_f64 src s)) /\ fst (next_f64 src s) <= binomial_cdf n p y.
Proof. exact @binomial_inversion_terminates. Qed.

(** ** support of the samplers built on Gamma *)
Theorem C03_beta_sample_support :
  forall (S : Type) (src : source S R) (fuel : nat) (a b : R) (s : S) (x : R) (s' : S),
    0 < a -> 0 < b -> beta_sample RO src fuel a b s = Ok (x, s') -> 0 < x < 1.
Proof. exact @beta_sample_support. Qed.
Theorem C03_chi_squared_sample_support :
  forall (S : Type) (src : source S R) (fuel : nat) (dof : N) (s : S) (x : R) (s' : S),
    (0 < dof)%N -> chi_squared_sample RO src fuel dof s = Ok (x, s') -> 0 < x.
Proof. exact @chi_squared_sample_support. Qed.

(** ** Poisson multiplication method: the count is the first passage of the running product of variates below exp(-lambda) *)
Theorem C03_poisson_mult_first_passage :
  forall (S : Type) (src : source S R) (fuel : nat) (lambda : R) (s : S) (c : R) (s' : S),
    poisson_mult RO src fuel lambda s = Ok (c, s') ->
    exists m : nat, c = INR m /\ s' = nth_state src (Datatypes.S m) s /\
      (forall j, (j < m)%nat -> exp (- lambda) < run_prod src j s) /\ run_prod src m s <= exp (- lambda).
Proof. exact @poisson_mult_first_passage. Qed.

(** ** ziggurat fast path: for every layer i >= 1 and EVERY j < K[i], the abscissa j W[i] is left of x_(i-1) *)
Theorem C03_ziggurat_fast_path_inside_core :
  forall (i : nat) (j : Z),
    (i < 127)%nat -> (0 <= j < kz (Datatypes.S i))%Z ->
    (inject_Z j * fst (nth (Datatypes.S i) zig_W (0%Q, 0%float)) < xq i)%Q.
Proof. exact ziggurat_fast_path_inside_core. Qed.

(** ** Tie A: the inverse-CDF formulas of the model ARE the source (expression translator).  [Generated/samplers.v] is
    re-translated from src/distributions/{uniform,exponential,gumbel,pareto}.rs and src/functions/gamma.rs on every run
    (tools/tiea/samplers.py, tools/rsexpr.py), operation for operation.  Randomness is abstract in the generated terms:
    the value of [alea::f64()] is a parameter; for the rejection loop [let u = loop { let u = <draw>; if u > 0. { break u; } }]
    the accepted draw is the last argument of [<Law>_sample] and the loop's condition is [<Law>_sample_accept].
    For EVERY carrier [T], operations record [O] and random source [src]. *)
From Compute Require Import Base.RsExpr Model.Special Generated.special_consts Generated.samplers Proofs.TieA_samplers.
Theorem C03_model_is_source_Uniform_sample :
  forall (T : Type) (O : Ops T) (S : Type) (src : source S T) (lo hi : T) (s : S),
    uniform_sample O src lo hi s = let (u, s') := next_f64 src s in (Uniform_sample O u lo hi, s').
Proof. exact @tiea_Uniform_sample. Qed.
Theorem C03_model_is_source_Exponential_sample :
  forall (T : Type) (O : Ops T) (S : Type) (src : source S T) (fuel : nat) (lambda : T) (s : S),
    exponential_sample O src fuel lambda s =
    res_bind (positive_unit O src fuel s) (fun p : T * S => let (u, s') := p in Ok (Exponential_sample O lambda u, s')).
Proof. exact @tiea_Exponential_sample. Qed.
Theorem C03_model_is_source_Gumbel_sample :
  forall (T : Type) (O : Ops T) (S : Type) (src : source S T) (fuel : nat) (mu beta : T) (s : S),
    gumbel_sample O src fuel mu beta s =
    res_bind (positive_unit O src fuel s) (fun p : T * S => let (u, s') := p in Ok (Gumbel_sample O mu beta u, s')).
Proof. exact @tiea_Gumbel_sample. Qed.
Theorem C03_model_is_source_Pareto_sample :
  forall (T : Type) (O : Ops T) (S : Type) (src : source S T) (fuel : nat) (alpha minval : T) (s : S),
    pareto_sample O src fuel alpha minval s =
    res_bind (positive_f64 O src fuel s) (fun p : T * S => let (u, s') := p in Ok (Pareto_sample O alpha minval u, s')).
Proof. exact @tiea_Pareto_sample. Qed.
Theorem C03_model_is_source_Bernoulli_sample :
  forall (T : Type) (O : Ops T) (S : Type) (src : source S T) (p : T) (s : S),
    fst (bernoulli_sample O src p s) = Bernoulli_sample O (fst (next_f64 src s)) p.
Proof. exact @tiea_Bernoulli_sample. Qed.
(** one iteration of the model's rejection loop draws once and tests the source's condition *)
Theorem C03_model_is_source_Exponential_sample_accept :
  forall (T : Type) (O : Ops T) (S : Type) (src : source S T) (lambda : T) (fuel : nat) (s : S),
    positive_unit O src (Datatypes.S fuel) s =
    let (u, s') := uniform_sample O src (zero O) (one O) s in
    if Exponential_sample_accept O lambda u then Ok (u, s') else positive_unit O src fuel s'.
Proof. exact @tiea_Exponential_sample_accept. Qed.
Theorem C03_model_is_source_Gumbel_sample_accept :
  forall (T : Type) (O : Ops T) (S : Type) (src : source S T) (mu beta : T) (fuel : nat) (s : S),
    positive_unit O src (Datatypes.S fuel) s =
    let (u, s') := uniform_sample O src (zero O) (one O) s in
    if Gumbel_sample_accept O mu beta u then Ok (u, s') else positive_unit O src fuel s'.
Proof. exact @tiea_Gumbel_sample_accept. Qed.
Theorem C03_model_is_source_Pareto_sample_accept :
  forall (T : Type) (O : Ops T) (S : Type) (src : source S T) (alpha minval : T) (fuel : nat) (s : S),
    positive_f64 O src (Datatypes.S fuel) s =
    let (u, s') := next_f64 src s in
    if Pareto_sample_accept O alpha minval u then Ok (u, s') else positive_f64 O src fuel s'.
Proof. exact @tiea_Pareto_sample_accept. Qed.
(** [ln_gamma] (used by the Poisson PTRS sampler): body with the recursive call abstracted, and the model *)
Theorem C03_model_is_source_ln_gamma_body :
  forall (T : Type) (O : Ops T) (LnGam : T -> T) (z : T),
    src_ln_gamma O LnGam z =
    if ltb O z (ofQ O (1 # 2))
    then sub O (f1 O Ln (div O (pi O) (abs O (f1 O Sin (mul O (pi O) z))))) (LnGam (sub O (one O) z))
    else ln_gamma_pos O z.
Proof. exact @tiea_ln_gamma_body. Qed.
Theorem C03_model_is_source_ln_gamma :
  forall (T : Type) (O : Ops T) (z : T), src_ln_gamma O (ln_gamma_pos O) z = ln_gamma O z.
Proof. exact @tiea_ln_gamma. Qed.

(** ** multivariate normal END TO END, composed with C11 (models: Model/MVNNew.v, Model/MVNSample.v).  [MVN::new]
       computes the factor [sample] multiplies with by C11's model of [Matrix::cholesky] (and the inverse and determinant
       it also caches by C01 / C11's models of [Matrix::inv] / [Matrix::det]) — the same terms that run bit for bit
       against the crate in the end-to-end correspondence cases; no hypothesis on an inner routine is left.
       For EVERY symmetric positive definite Sigma (flat row-major, order n; positive definite written out:
       v^T Sigma v > 0 for every v <> 0), every random source, fuel and generator state: the constructor returns, the
       cached factor L is lower triangular with a positive diagonal, L L^T = Sigma, L I L^T = Sigma (the covariance of the
       affine image mu + L z of a vector z with unit covariance, as the matrix identity), and the draw IS mu + L z for
       the vector z of standard normal draws made from the same state (and nothing else can come out); the composed
       [sample] / [sample_n] ARE the samplers [mvn_sample] / [mvn_sample_n] of the older theorems (C03_mvn_sample_is_mu_plus_Lz,
       C03_mvn_sample_n_shape, C03_mvn_sample_n_accepts) run with that factor L, so those apply to them too. *)
From Compute Require Import Model.Subst Model.MVNNew Model.MVNSample Spec.Factor Spec.Solve.
From Compute Require Proofs.C02_compose Proofs.C03_compose.

Theorem C03_mvn_sample_composed :
  forall (S : Type) (src : source S R) (fuel n : nat) (cov mu : list R),
    (0 < n)%nat -> length cov = (n * n)%nat -> length mu = n ->
    symmetric cov n ->
    (forall v : nat -> R, (exists i, (i < n)%nat /\ v i <> 0) ->
       0 < rsum (fun p => rsum (fun q => v p * getm cov n p q * v q) n) n) ->
    exists L : list R,
      (length L = (n * n)%nat /\ lower_triangular L n /\ (forall i, (i < n)%nat -> 0 < getm L n i i) /\
       (forall i j, (i < n)%nat -> (j < n)%nat -> rsum (fun k => getm L n i k * getm L n j k) n = getm cov n i j) /\
       (forall i j, (i < n)%nat -> (j < n)%nat ->
          rsum (fun k => rsum (fun l => getm L n i k * delta k l * getm L n j l) n) n = getm cov n i j)) /\
      (forall s : S, mvn_sample_full RO src fuel mu {| nr := n; nc := n; dat := cov |} s = mvn_sample RO src fuel mu L s) /\
      (forall (k : nat) (s : S),
         mvn_sample_n_full RO src fuel mu {| nr := n; nc := n; dat := cov |} k s = mvn_sample_n RO src fuel mu L k s) /\
      (forall (s s' : S) (z : list R),
         sample_n RO src fuel (DNormal 0 1) n s = Ok (z, s') ->
         exists v, mvn_sample_full RO src fuel mu {| nr := n; nc := n; dat := cov |} s = Ok (v, s') /\ length v = n /\
           forall i, (i < n)%nat -> nth i v 0 = nth i mu 0 + rsum (fun k => getm L n i k * nth k z 0) n) /\
      (forall (s s' : S) (v : list R),
         mvn_sample_full RO src fuel mu {| nr := n; nc := n; dat := cov |} s = Ok (v, s') ->
         exists z, sample_n RO src fuel (DNormal 0 1) n s = Ok (z, s')).
Proof. exact Proofs.C03_compose.mvn_sample_full_spd. Qed.

Theorem C03_mvn_sample_n_shape_composed :
  forall (S : Type) (src : source S R) (fuel n : nat) (cov mu : list R) (k : nat) (s s' : S) (m : matrix),
    (0 < n)%nat -> length cov = (n * n)%nat -> length mu = n ->
    symmetric cov n ->
    (forall v : nat -> R, (exists i, (i < n)%nat /\ v i <> 0) ->
       0 < rsum (fun p => rsum (fun q => v p * getm cov n p q * v q) n) n) ->
    mvn_sample_n_full RO src fuel mu {| nr := n; nc := n; dat := cov |} k s = Ok (m, s') ->
    nr m = k /\ nc m = n /\ length (dat m) = (k * n)%nat.
Proof. exact Proofs.C03_compose.mvn_sample_n_full_spd. Qed.

(** every carrier (binary64 included): the factor cached by a constructor that returned has [mean.len()] rows and columns
    (so [sample] multiplies with exactly the matrix [mvn_sample] rebuilds from its data), it IS what [Matrix::cholesky]
    returns on the covariance, and a constructor that panics makes [sample] / [sample_n] fail *)
Theorem C03_mvn_new_caches_cholesky_composed :
  forall (T : Type) (O : Ops T) (mean : list T) (c : matrix) (d : mvn T),
    mvn_new O mean c = Some d ->
    mvn_mean d = mean /\ mvn_cov d = c /\ Model.Cholesky.matrix_cholesky O c = Some (mvn_chol d) /\
    Model.SolveInst.mat_inv O c = Some (mvn_cinv d) /\ Model.LU.matrix_det O c = Some (mvn_cdet d) /\
    nr c = nc c /\ length mean = nc c.
Proof. exact @Proofs.C02_compose.mvn_new_fields. Qed.
Theorem C03_mvn_factor_shape_composed :
  forall (T : Type) (O : Ops T) (mean : list T) (c : matrix) (d : mvn T),
    mvn_new O mean c = Some d ->
    mvn_chol d = {| nr := length (mvn_mean d); nc := length (mvn_mean d); dat := dat (mvn_chol d) |}.
Proof. exact @Proofs.C02_compose.mvn_new_chol_shape. Qed.
Theorem C03_mvn_sample_rejects_composed :
  forall (T : Type) (O : Ops T) (S : Type) (src : source S T) (fuel : nat) (mean : list T) (c : matrix) (n : nat) (s : S),
    mvn_new O mean c = None ->
    mvn_sample_full O src fuel mean c s = Fail /\ mvn_sample_n_full O src fuel mean c n s = Fail.
Proof. exact @Proofs.C03_compose.mvn_sample_full_rejects. Qed.

(** the hypotheses are satisfiable: Sigma = [[2,1],[1,2]] *)
Example C03_example_mvn_composed :
  symmetric [2; 1; 1; 2] 2 /\
  forall v : nat -> R, (exists i, (i < 2)%nat /\ v i <> 0) ->
    0 < rsum (fun p => rsum (fun q => v p * getm [2; 1; 1; 2] 2 p q * v q) 2) 2.
Proof. exact Proofs.C03_compose.mvn_sample_example_cov. Qed.

(** * Support and structure of the rejection samplers (the logical half of "draws from the law it describes"; the
      distributional half stays with the oracle).  [unit_source src]: every [alea::f64()] lies in [0, 1);
      [range_source src]: every range draw lies in its range.  Nothing else is assumed of the source. *)
From Compute Require Import Proofs.C03_support Proofs.C03_support_poisson Proofs.C03_support_fuel Proofs.C03_support_cont Proofs.C03_support_normal Proofs.C03_support_nopanic.

(** ** (a) BTPE: every candidate the loop lets out is an integer of [0, n] — triangle and parallelogram candidates are not
       tested at all and are bounded by the constants of step 0, the left tail is tested only against 0 and the right tail
       only against n; step 5 never changes the candidate — for every parameter that reaches BTPE (n min(p, 1-p) > 30) *)
Theorem C03_btpe_step5_keeps_candidate :
  forall (T : Type) (O : Ops T) (fuel : nat) (n : N) (p : T) (k : btpe_consts) (y v y' : T),
    btpe_step5 O fuel n p k y v = BAccept y' -> y' = y.
Proof. exact @btpe_step5_accept. Qed.
Theorem C03_btpe_draw_support :
  forall (S : Type) (src : source S R) (fuel ifuel : nat) (n : N) (p : R) (s : S) (y : R) (s' : S),
    0 < p < 1 -> 30 < IZR (Z.of_N n) * Rmin p (1 - p) -> unit_source src ->
    btpe_loop RO src fuel ifuel n p (btpe_setup RO n p) s = Ok (y, s') ->
    exists z : Z, y = IZR z /\ (0 <= z <= Z.of_N n)%Z.
Proof. exact @btpe_draw_support. Qed.
(** step 6 and the cast: the count is at most n and [y as u64] is applied to the integer y (or n - y when p > 1/2) itself *)
Theorem C03_binomial_btpe_support :
  forall (S : Type) (src : source S R) (fuel : nat) (n : N) (p : R) (s : S) (x : N) (s' : S),
    0 < p < 1 -> 30 < IZR (Z.of_N n) * Rmin p (1 - p) -> unit_source src ->
    binomial_btpe RO src fuel n p s = Ok (x, s') ->
    (x <= n)%N /\
    exists y, btpe_loop RO src fuel fuel n p (btpe_setup RO n p) s = Ok (y, s') /\
              IZR (Z.of_N x) = if Rlt_dec (1 / 2) p then IZR (Z.of_N n) - y else y.
Proof. exact @binomial_btpe_support. Qed.
(** [Binomial::sample] in EVERY regime (degenerate, inversion, BTPE; reflection n - x for p > 1/2): no hypothesis on p *)
Theorem C03_binomial_sample_support :
  forall (S : Type) (src : source S R) (fuel : nat) (n : N) (p : R) (s : S) (y : R) (s' : S),
    (n < 18446744073709551616)%N -> unit_source src ->
    binomial_sample RO src fuel n p s = Ok (y, s') -> exists k : Z, y = IZR k /\ (0 <= k <= Z.of_N n)%Z.
Proof. exact @binomial_sample_support_all. Qed.
(** EVERY carrier (binary64 included), every source: an accepted candidate was produced by exactly one of the four regions
    ([btpe_region]: triangle / parallelogram / left tail with [y < 0] false / right tail with [y > n] false) from the two
    variates of the accepting iteration *)
Theorem C03_btpe_accepted_regions :
  forall (T : Type) (O : Ops T) (S : Type) (src : source S T) (fuel ifuel : nat) (n : N) (p : T) (k : btpe_consts) (s : S) (y : T) (s' : S),
    btpe_loop O src fuel ifuel n p k s = Ok (y, s') ->
    exists s0,
      let us := uniform_sample O src (zero O) (c_p4 k) s0 in
      let vs := uniform_sample O src (zero O) (one O) (snd us) in
      s' = snd vs /\ btpe_region O k (fst us) (fst vs) y.
Proof. exact @btpe_loop_accepted. Qed.
(** acceptance half: [Binomial::sample] never panics, whatever n and p — [Uniform::new(0., p4)] is reached only with p4 >= 0 *)
Theorem C03_binomial_sample_never_panics :
  forall (S : Type) (src : source S R) (fuel : nat) (n : N) (p : R) (s : S), binomial_sample RO src fuel n p s <> Fail.
Proof. exact @binomial_sample_not_fail. Qed.
(** the hypotheses are satisfiable, and on a concrete unit source BTPE does return a count *)
Example C03_example_btpe_regime : 0 < 2 / 5 < 1 /\ 30 < IZR (Z.of_N 100) * Rmin (2 / 5) (1 - 2 / 5).
Proof. exact btpe_regime_satisfiable. Qed.
Example C03_example_btpe_returns :
  exists x : N, binomial_btpe RO (const_source 0) 1 100 (2 / 5) 0%nat = Ok (x, 2%nat) /\ (x <= 100)%N.
Proof. exact btpe_returns_on_const_source. Qed.

(** ** (b) Poisson: a count for EVERY rate (no hypothesis on lambda); PTRS on every accepted path *)
Theorem C03_poisson_sample_support :
  forall (S : Type) (src : source S R) (fuel : nat) (lambda : R) (s : S) (k : R) (s' : S),
    unit_source src -> poisson_sample RO src fuel lambda s = Ok (k, s') -> exists n : nat, k = INR n.
Proof. exact @poisson_sample_support. Qed.
Theorem C03_poisson_ptrs_support :
  forall (S : Type) (src : source S R) (fuel : nat) (lam : R) (s : S) (k : R) (s' : S),
    10 <= lam -> unit_source src -> poisson_ptrs RO src fuel lam s = Ok (k, s') -> exists n : nat, k = INR n.
Proof. exact @poisson_ptrs_support. Qed.
(** anatomy of an accepted PTRS draw, ANY source: the value is the floor of the transformed variate of the iteration that
    accepted, that iteration consumed two variates, and it left through the squeeze or, with k >= 0, through the full test *)
Theorem C03_ptrs_accepted_paths :
  forall (S : Type) (src : source S R) (fuel : nat) (lam loglam b a invalpha vr : R) (s : S) (k : R) (s' : S),
    ptrs_loop RO src fuel lam loglam b a invalpha vr s = Ok (k, s') ->
    exists s0, k = ptrs_candidate src lam b a s0 /\ s' = snd (next_f64 src (snd (next_f64 src s0))) /\
      let us := 1 / 2 - Rabs (fst (next_f64 src s0) - 1 / 2) in
      let V := fst (next_f64 src (snd (next_f64 src s0))) in
      ((7 / 100 <= us /\ V <= vr) \/
       (0 <= k /\ ~ (us < 13 / 1000 /\ us < V) /\
        ln V + ln invalpha - ln (a / (us * us) + b) <= - lam + k * loglam - ln_gamma RO (k + 1))).
Proof. exact @ptrs_loop_accepted. Qed.

(** ** (e) fuel monotonicity, EVERY carrier (binary64 included), every source, every looping sampler: a run that does not
       end with [Fuel] (a value, or a panic) is reproduced unchanged — value and final generator state — by every larger
       budget.  "Out of fuel" is therefore the only way the fuelled model differs from the unbounded loops of the code.
       (Termination with probability one is a statement about measures; it is not stated.) *)
Theorem C03_sample_fuel_monotone :
  forall (T : Type) (O : Ops T) (S : Type) (src : source S T) (f f' : nat) (d : dist T) (s : S),
    (f <= f')%nat -> sample O src f d s <> Fuel -> sample O src f' d s = sample O src f d s.
Proof. exact @sample_mono. Qed.
Theorem C03_sample_fuel_monotone_value :
  forall (T : Type) (O : Ops T) (S : Type) (src : source S T) (f f' : nat) (d : dist T) (s : S) (r : T * S),
    (f <= f')%nat -> sample O src f d s = Ok r -> sample O src f' d s = Ok r.
Proof. exact @sample_mono_ok. Qed.
Theorem C03_sample_fuel_irrelevant :
  forall (T : Type) (O : Ops T) (S : Type) (src : source S T) (f f' : nat) (d : dist T) (s : S),
    sample O src f d s <> Fuel -> sample O src f' d s <> Fuel -> sample O src f d s = sample O src f' d s.
Proof. exact @sample_fuel_irrelevant. Qed.
Theorem C03_out_of_fuel_downward_closed :
  forall (T : Type) (O : Ops T) (S : Type) (src : source S T) (f f' : nat) (d : dist T) (s : S),
    (f <= f')%nat -> sample O src f' d s = Fuel -> sample O src f d s = Fuel.
Proof. exact @sample_out_of_fuel_downward. Qed.
Theorem C03_sample_fuel_monotone_Normal :
  forall (T : Type) (O : Ops T) (S : Type) (src : source S T) (f f' : nat) (mu sigma : T) (s : S),
    (f <= f')%nat -> normal_sample O src f mu sigma s <> Fuel -> normal_sample O src f' mu sigma s = normal_sample O src f mu sigma s.
Proof. exact @normal_sample_mono. Qed.
Theorem C03_sample_fuel_monotone_Exponential :
  forall (T : Type) (O : Ops T) (S : Type) (src : source S T) (f f' : nat) (lambda : T) (s : S),
    (f <= f')%nat -> exponential_sample O src f lambda s <> Fuel -> exponential_sample O src f' lambda s = exponential_sample O src f lambda s.
Proof. exact @exponential_sample_mono. Qed.
Theorem C03_sample_fuel_monotone_Gumbel :
  forall (T : Type) (O : Ops T) (S : Type) (src : source S T) (f f' : nat) (mu beta : T) (s : S),
    (f <= f')%nat -> gumbel_sample O src f mu beta s <> Fuel -> gumbel_sample O src f' mu beta s = gumbel_sample O src f mu beta s.
Proof. exact @gumbel_sample_mono. Qed.
Theorem C03_sample_fuel_monotone_Pareto :
  forall (T : Type) (O : Ops T) (S : Type) (src : source S T) (f f' : nat) (alpha m : T) (s : S),
    (f <= f')%nat -> pareto_sample O src f alpha m s <> Fuel -> pareto_sample O src f' alpha m s = pareto_sample O src f alpha m s.
Proof. exact @pareto_sample_mono. Qed.
(** Gamma: both budgets (outer Marsaglia-Tsang loop, inner positive-v loop with its ziggurat draws) may grow independently *)
Theorem C03_sample_fuel_monotone_Gamma_loops :
  forall (T : Type) (O : Ops T) (S : Type) (src : source S T) (f f' i i' : nat) (d beta boost : T) (s : S),
    (f <= f')%nat -> (i <= i')%nat ->
    gamma_loop O src f i d beta boost s <> Fuel -> gamma_loop O src f' i' d beta boost s = gamma_loop O src f i d beta boost s.
Proof. exact @gamma_loop_mono. Qed.
Theorem C03_sample_fuel_monotone_Gamma :
  forall (T : Type) (O : Ops T) (S : Type) (src : source S T) (f f' : nat) (alpha beta : T) (s : S),
    (f <= f')%nat -> gamma_sample O src f alpha beta s <> Fuel -> gamma_sample O src f' alpha beta s = gamma_sample O src f alpha beta s.
Proof. exact @gamma_sample_mono. Qed.
Theorem C03_sample_fuel_monotone_Beta :
  forall (T : Type) (O : Ops T) (S : Type) (src : source S T) (f f' : nat) (a b : T) (s : S),
    (f <= f')%nat -> beta_sample O src f a b s <> Fuel -> beta_sample O src f' a b s = beta_sample O src f a b s.
Proof. exact @beta_sample_mono. Qed.
Theorem C03_sample_fuel_monotone_ChiSquared :
  forall (T : Type) (O : Ops T) (S : Type) (src : source S T) (f f' : nat) (dof : N) (s : S),
    (f <= f')%nat -> chi_squared_sample O src f dof s <> Fuel -> chi_squared_sample O src f' dof s = chi_squared_sample O src f dof s.
Proof. exact @chi_squared_sample_mono. Qed.
Theorem C03_sample_fuel_monotone_T :
  forall (T : Type) (O : Ops T) (S : Type) (src : source S T) (f f' : nat) (dof : T) (s : S),
    (f <= f')%nat -> t_sample O src f dof s <> Fuel -> t_sample O src f' dof s = t_sample O src f dof s.
Proof. exact @t_sample_mono. Qed.
Theorem C03_sample_fuel_monotone_Poisson :
  forall (T : Type) (O : Ops T) (S : Type) (src : source S T) (f f' : nat) (lambda : T) (s : S),
    (f <= f')%nat -> poisson_sample O src f lambda s <> Fuel -> poisson_sample O src f' lambda s = poisson_sample O src f lambda s.
Proof. exact @poisson_sample_mono. Qed.
Theorem C03_sample_fuel_monotone_Binomial :
  forall (T : Type) (O : Ops T) (S : Type) (src : source S T) (f f' : nat) (n : N) (p : T) (s : S),
    (f <= f')%nat -> binomial_sample O src f n p s <> Fuel -> binomial_sample O src f' n p s = binomial_sample O src f n p s.
Proof. exact @binomial_sample_mono. Qed.
(** BTPE: the rejection loop and the step-5.1 product loop have separate budgets *)
Theorem C03_sample_fuel_monotone_BTPE_loops :
  forall (T : Type) (O : Ops T) (S : Type) (src : source S T) (f f' i i' : nat) (n : N) (p : T) (k : btpe_consts) (s : S),
    (f <= f')%nat -> (i <= i')%nat ->
    btpe_loop O src f i n p k s <> Fuel -> btpe_loop O src f' i' n p k s = btpe_loop O src f i n p k s.
Proof. exact @btpe_loop_mono. Qed.
Theorem C03_sample_n_fuel_monotone :
  forall (T : Type) (O : Ops T) (S : Type) (src : source S T) (f f' : nat) (d : dist T) (n : nat) (s : S),
    (f <= f')%nat -> sample_n O src f d n s <> Fuel -> sample_n O src f' d n s = sample_n O src f d n s.
Proof. exact @sample_n_mono. Qed.
Theorem C03_sample_matrix_fuel_monotone :
  forall (T : Type) (O : Ops T) (S : Type) (src : source S T) (f f' : nat) (d : dist T) (r c : nat) (s : S),
    (f <= f')%nat -> sample_matrix O src f d r c s <> Fuel -> sample_matrix O src f' d r c s = sample_matrix O src f d r c s.
Proof. exact @sample_matrix_mono. Qed.
Theorem C03_mvn_sample_fuel_monotone :
  forall (T : Type) (O : Ops T) (S : Type) (src : source S T) (f f' : nat) (mean : list T) (c : matrix) (n : nat) (s : S),
    (f <= f')%nat ->
    (mvn_sample_full O src f mean c s <> Fuel -> mvn_sample_full O src f' mean c s = mvn_sample_full O src f mean c s) /\
    (mvn_sample_n_full O src f mean c n s <> Fuel -> mvn_sample_n_full O src f' mean c n s = mvn_sample_n_full O src f mean c n s).
Proof.
  intros T O S src f f' mean c n s Hle. split; [apply mvn_sample_full_mono|apply mvn_sample_n_full_mono]; exact Hle.
Qed.

(** ** (d) samplers composed from others, every parameter regime (the shape < 1 boost path of Gamma included) *)
(** Student t: t = z / sqrt(chi2 / dof), chi2 = 2 g with g a POSITIVE Gamma(dof/2, 1) draw: the divisor is positive *)
Theorem C03_t_sample_structure :
  forall (S : Type) (src : source S R) (fuel : nat) (dof : R) (s : S) (t : R) (s' : S),
    0 < dof -> t_sample RO src fuel dof s = Ok (t, s') ->
    exists z s1 g,
      normal_sample RO src fuel 0 1 s = Ok (z, s1) /\ gamma_sample RO src fuel (dof / 2) 1 s1 = Ok (g, s') /\
      0 < g /\ 0 < R_sqrt.sqrt (2 * g / dof) /\ t = z / R_sqrt.sqrt (2 * g / dof).
Proof. exact @t_sample_structure. Qed.
Theorem C03_t_sample_rejects_nonpositive_dof :
  forall (S : Type) (src : source S R) (fuel : nat) (dof : R) (s : S) (r : R * S),
    dof <= 0 -> t_sample RO src fuel dof s <> Ok r.
Proof. exact @t_sample_rejects. Qed.
Theorem C03_beta_sample_structure :
  forall (S : Type) (src : source S R) (fuel : nat) (a b : R) (s : S) (x : R) (s' : S),
    0 < a -> 0 < b -> beta_sample RO src fuel a b s = Ok (x, s') ->
    exists g1 s1 g2,
      gamma_sample RO src fuel a 1 s = Ok (g1, s1) /\ gamma_sample RO src fuel b 1 s1 = Ok (g2, s') /\
      0 < g1 /\ 0 < g2 /\ x = g1 / (g1 + g2) /\ 0 < x < 1.
Proof. exact @beta_sample_structure. Qed.
Theorem C03_pareto_support :
  forall (S : Type) (src : source S R) (fuel : nat) (alpha m : R) (s : S) (x : R) (s' : S),
    0 < alpha -> 0 < m -> unit_source src -> pareto_sample RO src fuel alpha m s = Ok (x, s') -> m < x.
Proof. exact @pareto_support. Qed.
(** capstone: for EVERY distribution object the constructors accept, a returned draw lies in the support of its law
    ([in_support]: Uniform [lo, hi]; Exponential, Gamma, ChiSquared (0, inf); Pareto (m, inf); Beta (0, 1); Poisson the
    naturals; Binomial the integers of [0, n] (n a u64); DiscreteUniform the integers of [lo, hi]; Bernoulli {0, 1};
    Normal, Gumbel, t: the whole line), and so does every entry of a bulk draw *)
Theorem C03_sample_support :
  forall (S : Type) (src : source S R) (fuel : nat) (d : dist R) (s : S) (x : R) (s' : S),
    valid RO d = true -> unit_source src -> range_source src ->
    sample RO src fuel d s = Ok (x, s') ->
    match d with
    | DNormal _ _ | DGumbel _ _ | DT _ => True
    | DUniform lo hi => lo <= x <= hi
    | DExponential _ | DGamma _ _ | DChiSquared _ => 0 < x
    | DPareto _ m => m < x
    | DBeta _ _ => 0 < x < 1
    | DPoisson _ => exists n : nat, x = INR n
    | DBinomial n _ => (n < 18446744073709551616)%N -> exists k : Z, x = IZR k /\ (0 <= k <= Z.of_N n)%Z
    | DDiscreteUniform lo hi => exists k : Z, x = IZR k /\ (lo <= k <= hi)%Z
    | DBernoulli _ => x = 0 \/ x = 1
    end.
Proof. exact @sample_support. Qed.
Theorem C03_sample_n_support :
  forall (S : Type) (src : source S R) (fuel : nat) (d : dist R) (n : nat) (s : S) (l : list R) (s' : S),
    valid RO d = true -> unit_source src -> range_source src ->
    sample_n RO src fuel d n s = Ok (l, s') -> length l = n /\ Forall (in_support d) l.
Proof. exact @sample_n_support. Qed.

(** ** (c) ziggurat: structure of a returned draw, every source of unit variates; index facts for every word *)
Theorem C03_ziggurat_reads_in_bounds :
  forall w : N,
    (zig_i w < 128)%nat /\ (zig_j w < 16777216)%N /\
    (zig_i w < length zig_K)%nat /\ (zig_i w < length zig_W)%nat /\ (zig_i w < length zig_Y)%nat /\
    ((zig_i w <? 127)%nat = true -> (Datatypes.S (zig_i w) < length zig_Y)%nat).
Proof. intros w. split; [apply zig_i_lt|]. split; [apply zig_j_lt|]. apply zig_reads_in_bounds. Qed.
Theorem C03_normal_sample_structure :
  forall (S : Type) (src : source S R) (fuel : nat) (mu sigma : R),
    unit_source src -> forall (s : S) (v : R) (s' : S),
    normal_sample RO src fuel mu sigma s = Ok (v, s') ->
    exists (s0 : S) (x : R),
      let w := fst (next_u64 src s0) in let s1 := snd (next_u64 src s0) in let i := zig_i w in let j := zig_j w in
      (i < 128)%nat /\ (j < 16777216)%N /\
      v = zig_sign w * x * sigma + mu /\ 0 <= x /\
      ( ((j < zK i)%N /\ x = IZR (Z.of_N j) * zW RO i /\ s' = s1)
        \/ ((zK i <= j)%N /\ (i < 127)%nat /\ x = IZR (Z.of_N j) * zW RO i /\ s' = snd (next_f64 src s1) /\
            zY RO (Datatypes.S i) + (zY RO i - zY RO (Datatypes.S i)) * fst (next_f64 src s1) < exp (- (1 / 2) * x * x))
        \/ ((zK i <= j)%N /\ i = 127%nat /\ x = zR RO - ln (1 + - fst (next_f64 src s1)) / zR RO /\ zR RO <= x /\
            s' = snd (next_f64 src (snd (next_f64 src s1))) /\
            exp (- zR RO * (x - 1 / 2 * zR RO)) * fst (next_f64 src (snd (next_f64 src s1))) < exp (- (1 / 2) * x * x)) ).
Proof. exact @normal_sample_structure. Qed.

(** ** acceptance half: an object the constructors accept never makes [sample] panic (the loops contain no panic site; the
       constructor calls made inside [sample] — [Gamma::new(dof / 2., 1.)] in t, [Uniform::new(0., p4)] in BTPE — receive
       valid parameters; the range draw is asked for a non-empty range).  Hence, with fuel monotonicity: the outcome of a run
       on a valid object is a value (of the support, by C03_sample_support) or "out of fuel", nothing else *)
Theorem C03_sample_never_panics_on_valid_object :
  forall (S : Type) (src : source S R) (fuel : nat) (d : dist R) (s : S),
    valid RO d = true -> (forall lo hi s0, (lo <= hi)%Z -> next_range src lo hi s0 <> Fail) ->
    sample RO src fuel d s <> Fail.
Proof. exact @sample_not_fail. Qed.
Theorem C03_sample_outcome_on_valid_object :
  forall (S : Type) (src : source S R) (fuel : nat) (d : dist R) (s : S),
    valid RO d = true -> (forall lo hi s0, (lo <= hi)%Z -> next_range src lo hi s0 <> Fail) ->
    (exists x s', sample RO src fuel d s = Ok (x, s')) \/ sample RO src fuel d s = Fuel.
Proof. exact @sample_outcome. Qed.
Example C03_example_range_total : forall lo hi s0, (lo <= hi)%Z -> next_range (const_source (1 / 2)) lo hi s0 <> Fail.
Proof. exact range_total_inhabited. Qed.

(** ** supports ON BINARY64 (Flocq's specification of the primitive floats): Uniform and Exponential as the crate computes
    them, for EVERY random source whose unit variates are finite doubles of [0, 1 - 2^-53] (1 - 2^-53 is the largest double
    below 1) — the executable `alea` model is such a source for every generator state (C19_alea_f64_unit_interval_binary64),
    whatever the libm table.
    [finite64 v] = "v is neither NaN nor an infinity", [real64 v] = the real number a finite double denotes. *)
From Flocq Require BinarySingleNaN PrimFloat Core.
From Compute Require Proofs.C03_binary64.
Import Proofs.C03_binary64.
Local Notation finite64 v := (Flocq.IEEE754.BinarySingleNaN.is_finite (Flocq.IEEE754.PrimFloat.Prim2B v) = true).
Local Notation real64 v := (Flocq.IEEE754.BinarySingleNaN.B2R (Flocq.IEEE754.PrimFloat.Prim2B v)).
Local Notation round64 := (Flocq.Core.Generic_fmt.round Flocq.Core.Zaux.radix2 (SpecFloat.fexp FloatOps.prec FloatOps.emax)
                             (Flocq.IEEE754.BinarySingleNaN.round_mode Flocq.IEEE754.BinarySingleNaN.mode_NE)).
Theorem C03_alea_source_unit_binary64 :
  forall (t : libm_table) (range_fuel : nat) (s : rng),
    finite64 (fst (next_f64 (alea_source (FO t) range_fuel) s)) /\
    0 <= real64 (fst (next_f64 (alea_source (FO t) range_fuel) s)) <= 1 - / 2 ^ 53.
Proof. exact alea_unit_source64. Qed.
(** `Uniform::sample` = `(upper - lower) * alea::f64() + lower`, three roundings.  For finite lower <= upper whose binary64
    difference is finite (no overflow), every draw is a FINITE double of the CLOSED interval [lower, upper], it is the
    thrice-rounded expression, and the source advances by one variate.  The upper end is included — it is attained (example
    below), unlike on the real carrier (C03_uniform_inverse_cdf: `< upper`) — and never exceeded; the latter is not monotone
    rounding alone (the rounded width may exceed upper - lower): it uses that the variate is at most 1 - 2^-53. *)
Theorem C03_uniform_support_binary64 :
  forall (S : Type) (t : libm_table) (src : source S float) (lo hi : float) (s : S),
    (forall s0 : S, finite64 (fst (next_f64 src s0)) /\ 0 <= real64 (fst (next_f64 src s0)) <= 1 - / 2 ^ 53) ->
    finite64 lo -> finite64 hi -> real64 lo <= real64 hi -> finite64 (PrimFloat.sub hi lo) ->
    finite64 (fst (uniform_sample (FO t) src lo hi s)) /\
    real64 lo <= real64 (fst (uniform_sample (FO t) src lo hi s)) <= real64 hi /\
    real64 (fst (uniform_sample (FO t) src lo hi s))
      = round64 (round64 (round64 (real64 hi - real64 lo) * real64 (fst (next_f64 src s))) + real64 lo) /\
    snd (uniform_sample (FO t) src lo hi s) = snd (next_f64 src s).
Proof. exact @uniform_support_f64_pin. Qed.
(** on the executable generator: no hypothesis on the source is left *)
Theorem C03_uniform_support_binary64_alea :
  forall (t : libm_table) (range_fuel : nat) (lo hi : float) (s : rng),
    finite64 lo -> finite64 hi -> real64 lo <= real64 hi -> finite64 (PrimFloat.sub hi lo) ->
    finite64 (fst (uniform_sample (FO t) (alea_source (FO t) range_fuel) lo hi s)) /\
    real64 lo <= real64 (fst (uniform_sample (FO t) (alea_source (FO t) range_fuel) lo hi s)) <= real64 hi /\
    snd (uniform_sample (FO t) (alea_source (FO t) range_fuel) lo hi s) = snd (u64 s).
Proof. exact uniform_support_alea. Qed.
(** the hypotheses are satisfiable (seed 42, Uniform(-1.5, 2.25)) ... *)
Example C03_example_uniform_binary64 :
  finite64 (-1.5)%float /\ finite64 2.25%float /\ real64 (-1.5)%float <= real64 2.25%float /\
  finite64 (PrimFloat.sub 2.25 (-1.5)) /\
  uniform_sample (FO empty_tbl) (alea_source (FO empty_tbl) 0) (-1.5)%float 2.25%float (set_seed 42)
    = (0x1.0d9753cf7f3c6p+0%float, 11562461410679940185%N).
Proof. exact uniform_f64_hyps_ex. Qed.
(** ... and the upper end IS attained on binary64: between 1 and the next double every variate above 1/2 returns `upper` *)
Example C03_example_uniform_upper_attained_binary64 :
  finite64 1%float /\ finite64 0x1.0000000000001p+0%float /\ real64 1%float <= real64 0x1.0000000000001p+0%float /\
  finite64 (PrimFloat.sub 0x1.0000000000001p+0 1) /\
  fst (uniform_sample (FO empty_tbl) (alea_source (FO empty_tbl) 0) 1%float 0x1.0000000000001p+0%float (set_seed 42))
    = 0x1.0000000000001p+0%float.
Proof. exact uniform_f64_upper_attained_ex. Qed.

(** `Exponential::sample` = `-u.ln() / lambda` with u the first strictly positive `Uniform(0,1).sample()`.  On binary64 the
    argument handed to ln is a finite double of (0, 1 - 2^-53] — never 0, never 1, never NaN, whatever libm does — and the draw
    is the displayed quotient.  What glibc's ln returns is not known to Coq: under the NAMED hypothesis
    [ln_tbl_nonpos_on_unit t [u]] (on the one argument that occurs, the recorded table's ln of a finite double of (0, 1] is a
    finite double <= 0) the draw compares >= 0 and is not NaN (+inf only when the quotient overflows: tiny lambda), and it is
    the finite, non-negative, correctly rounded quotient when that does not overflow. *)
Theorem C03_exponential_support_binary64 :
  forall (S : Type) (t : libm_table) (src : source S float) (fuel : nat) (lambda : float) (s : S) (v : float) (s' : S),
    (forall s0 : S, finite64 (fst (next_f64 src s0)) /\ 0 <= real64 (fst (next_f64 src s0)) <= 1 - / 2 ^ 53) ->
    finite64 lambda -> 0 < real64 lambda ->
    exponential_sample (FO t) src fuel lambda s = Ok (v, s') ->
    exists u : float,
      positive_unit (FO t) src fuel s = Ok (u, s') /\ finite64 u /\ 0 < real64 u <= 1 - / 2 ^ 53 /\
      v = PrimFloat.div (PrimFloat.opp (f1 (FO t) Ln u)) lambda /\
      (ln_tbl_nonpos_on_unit t [u] ->
         PrimFloat.leb 0 v = true /\ is_nan (FO t) v = false /\
         (Rabs (round64 (- real64 (f1 (FO t) Ln u) / real64 lambda)) < Flocq.Core.Raux.bpow Flocq.Core.Zaux.radix2 FloatOps.emax ->
            finite64 v /\ real64 v = round64 (- real64 (f1 (FO t) Ln u) / real64 lambda) /\ 0 <= real64 v)).
Proof. exact @exponential_support_f64. Qed.
(** the named hypothesis, written out *)
Theorem C03_ln_tbl_nonpos_on_unit_def :
  forall (t : libm_table) (args : list float),
    ln_tbl_nonpos_on_unit t args <->
    (forall a : float, In a args -> finite64 a -> 0 < real64 a <= 1 ->
       finite64 (f1 (FO t) Ln a) /\ real64 (f1 (FO t) Ln a) <= 0).
Proof. intros t args. split; intros H; exact H. Qed.
Theorem C03_exponential_support_binary64_alea :
  forall (t : libm_table) (range_fuel fuel : nat) (lambda : float) (s : rng) (v : float) (s' : rng),
    finite64 lambda -> 0 < real64 lambda ->
    exponential_sample (FO t) (alea_source (FO t) range_fuel) fuel lambda s = Ok (v, s') ->
    exists u : float,
      positive_unit (FO t) (alea_source (FO t) range_fuel) fuel s = Ok (u, s') /\ finite64 u /\ 0 < real64 u <= 1 - / 2 ^ 53 /\
      v = PrimFloat.div (PrimFloat.opp (f1 (FO t) Ln u)) lambda /\
      (ln_tbl_nonpos_on_unit t [u] -> PrimFloat.leb 0 v = true /\ is_nan (FO t) v = false).
Proof. exact exponential_support_alea. Qed.
(** the hypotheses are satisfiable: seed 42, Exponential(2), the table holding glibc's ln of the one variate drawn *)
Example C03_example_exponential_binary64 :
  let t := {| tbl1 := [(Ln, 0x1.5c94f97fbb536p-1%float, (-0x1.89ad9b925a81ap-2)%float)]; tbl2 := [] |} in
  finite64 2%float /\ 0 < real64 2%float /\
  exponential_sample (FO t) (alea_source (FO t) 0) 1 2%float (set_seed 42)
    = Ok (0x1.89ad9b925a81ap-3%float, 11562461410679940185%N) /\
  positive_unit (FO t) (alea_source (FO t) 0) 1 (set_seed 42) = Ok (0x1.5c94f97fbb536p-1%float, 11562461410679940185%N) /\
  ln_tbl_nonpos_on_unit t [0x1.5c94f97fbb536p-1%float].
Proof. exact exponential_f64_hyps_ex. Qed.

(** `DiscreteUniform::sample` = `(lower + alea::i64_less_than(upper - lower + 1)) as f64` on binary64: for bounds below 2^53 in
    magnitude the conversion is exact, so a returned draw is the finite double whose value is the integer the range draw
    produced, inside [lower, upper] (every source whose range draw stays in range; on the executable generator: always) *)
Theorem C03_discrete_uniform_support_binary64 :
  forall (S : Type) (t : libm_table) (src : source S float) (lo hi : Z) (s : S) (v : float) (s' : S),
    (- 2 ^ 53 < lo)%Z -> (hi < 2 ^ 53)%Z ->
    (forall k s1, next_range src lo hi s = Ok (k, s1) -> (lo <= k <= hi)%Z) ->
    discrete_uniform_sample (FO t) src lo hi s = Ok (v, s') ->
    exists k : Z, next_range src lo hi s = Ok (k, s') /\ (lo <= k <= hi)%Z /\
                  finite64 v /\ real64 v = IZR k /\ IZR lo <= real64 v <= IZR hi.
Proof. exact @discrete_uniform_support_f64. Qed.
Theorem C03_discrete_uniform_support_binary64_alea :
  forall (t : libm_table) (range_fuel : nat) (lo hi : Z) (s : rng) (v : float) (s' : rng),
    (- 2 ^ 53 < lo)%Z -> (lo <= hi)%Z -> (hi < 2 ^ 53)%Z ->
    discrete_uniform_sample (FO t) (alea_source (FO t) range_fuel) lo hi s = Ok (v, s') ->
    exists k : Z, (lo <= k <= hi)%Z /\ finite64 v /\ real64 v = IZR k /\ IZR lo <= real64 v <= IZR hi.
Proof. exact discrete_uniform_support_alea. Qed.
Example C03_example_discrete_uniform_binary64 :
  discrete_uniform_sample (FO empty_tbl) (alea_source (FO empty_tbl) 64) (-3) 5 (set_seed 42)
    = Ok (3%float, 11562461410679940185%N).
Proof. exact discrete_uniform_f64_ex. Qed.

(** 1 - 2^-53 is the largest double below 1: "a finite double of [0, 1)" and "a finite double of [0, 1 - 2^-53]" are the same
    condition on a source (the form used in the hypotheses above) *)
Theorem C03_below_one_binary64 :
  forall u : float, real64 u < 1 -> real64 u <= 1 - / 2 ^ 53.
Proof. exact below_one_f64. Qed.
(** bulk: every entry of `sample_n` of a Uniform (hence of `sample_matrix`, which reshapes it) is a finite double of
    [lower, upper], and there are n of them — every source of unit variates, every count *)
Theorem C03_uniform_sample_n_support_binary64 :
  forall (S : Type) (t : libm_table) (src : source S float) (lo hi : float) (fuel n : nat) (s : S) (l : list float) (s' : S),
    (forall s0 : S, finite64 (fst (next_f64 src s0)) /\ 0 <= real64 (fst (next_f64 src s0)) <= 1 - / 2 ^ 53) ->
    finite64 lo -> finite64 hi -> real64 lo <= real64 hi -> finite64 (PrimFloat.sub hi lo) ->
    sample_n (FO t) src fuel (DUniform lo hi) n s = Ok (l, s') ->
    length l = n /\ Forall (fun v => finite64 v /\ real64 lo <= real64 v <= real64 hi) l.
Proof. exact @uniform_sample_n_support_f64. Qed.
Example C03_example_uniform_sample_n_binary64 :
  sample_n (FO empty_tbl) (alea_source (FO empty_tbl) 0) 0 (DUniform (-1.5)%float 2.25%float) 3 (set_seed 42)
  = Ok ([0x1.0d9753cf7f3c6p+0%float; 0x1.ecbd24d825952p+0%float; 0x1.7a8783b063684p+0%float], 16240640158330268855%N).
Proof. exact uniform_sample_n_f64_ex. Qed.
