(** * C03 — samplers draw from the law they describe.  Statements only.
    Claim: PARTIAL.  Proved, for EVERY random source (an arbitrary state machine delivering [alea::u64()], [alea::f64()],
    [alea::i64_in_range]; nothing about `alea` is assumed except where a hypothesis says so) and every parameter:
    the inverse-CDF samplers hit their CDF exactly, Bernoulli/DiscreteUniform/Poisson/binomial-inversion draws are integers of
    the support, the Gamma sampler returns positive values and its shape < 1 branch is the boost identity, bulk sampling has the
    requested shape, the MVN draw is mu + L z, the ziggurat tables regenerated from the source satisfy the construction
    identities.  NOT proved: that the rejection samplers (ziggurat, Marsaglia-Tsang, PTRS, BTPE) produce their target law —
    a statement about measures, explored by the DKW oracle only. *)
From Coq Require Import Reals List ZArith NArith.
From Coq Require Import QArith Qabs Qround Floats.
From Compute Require Import Base.Ops Base.ListMat Base.Rng Model.MatMul Spec.MatMul Model.Samplers Spec.Samplers.
From Compute Require Import Generated.ziggurat_tables Generated.sampler_consts Proofs.C03 Proofs.C03_zig Proofs.C03_discrete Proofs.C03_mvn Proofs.C03_pins Proofs.C03_diverge Proofs.C03_binv Proofs.C03_examples Proofs.C03_more.
Import ListNotations.
Open Scope R_scope.

(** ** inverse-CDF samplers: F(sample(u)) = u (or 1 - u), in the support, monotone in u — every u in (0,1) *)
Theorem C03_uniform_inverse_cdf :
  forall (S : Type) (src : source S R) (lo hi : R) (s : S),
    lo < hi ->
    uniform_cdf lo hi (fst (uniform_sample RO src lo hi s)) = fst (next_f64 src s) /\
    (0 <= fst (next_f64 src s) < 1 -> lo <= fst (uniform_sample RO src lo hi s) < hi) /\
    snd (uniform_sample RO src lo hi s) = snd (next_f64 src s).
Proof. exact @uniform_inverse_cdf. Qed.
Theorem C03_uniform_monotone :
  forall (S : Type) (src : source S R) (lo hi : R) (s1 s2 : S),
    lo < hi -> fst (next_f64 src s1) < fst (next_f64 src s2) ->
    fst (uniform_sample RO src lo hi s1) < fst (uniform_sample RO src lo hi s2).
Proof. exact @uniform_monotone. Qed.
Theorem C03_uniform_degenerate :
  forall (S : Type) (src : source S R) (lo : R) (s : S), fst (uniform_sample RO src lo lo s) = lo.
Proof. exact @uniform_degenerate. Qed.

Theorem C03_exponential_inverse_cdf :
  forall (S : Type) (src : source S R) (fuel : nat) (lambda : R) (s : S),
    0 < lambda -> 0 < fst (next_f64 src s) < 1 ->
    exists x, exponential_sample RO src (Datatypes.S fuel) lambda s = Ok (x, snd (next_f64 src s)) /\
              exponential_cdf lambda x = 1 - fst (next_f64 src s) /\ 0 < x.
Proof. exact @exponential_inverse_cdf_pin. Qed.
Theorem C03_exponential_monotone :
  forall (S : Type) (src : source S R) (fuel : nat) (lambda : R) (s1 s2 : S) (x1 x2 : R) (t1 t2 : S),
    0 < lambda -> 0 < fst (next_f64 src s1) -> fst (next_f64 src s1) < fst (next_f64 src s2) ->
    exponential_sample RO src (Datatypes.S fuel) lambda s1 = Ok (x1, t1) ->
    exponential_sample RO src (Datatypes.S fuel) lambda s2 = Ok (x2, t2) -> x2 < x1.
Proof. exact @exponential_monotone_pin. Qed.
(** the repaired redraw loop: zero variates are skipped, whatever their number; a returned draw is never infinite *)
Theorem C03_exponential_skips_zero_variates :
  forall (S : Type) (src : source S R) (fuel : nat) (s : S),
    fst (next_f64 src s) <= 0 ->
    positive_unit RO src (Datatypes.S fuel) s = positive_unit RO src fuel (snd (next_f64 src s)).
Proof. exact @positive_unit_skip. Qed.
Theorem C03_exponential_support :
  forall (S : Type) (src : source S R) (fuel : nat) (lambda : R) (s : S) (x : R) (s' : S),
    0 < lambda -> unit_source src -> exponential_sample RO src fuel lambda s = Ok (x, s') -> 0 < x.
Proof. exact @exponential_support. Qed.

Theorem C03_gumbel_inverse_cdf :
  forall (S : Type) (src : source S R) (fuel : nat) (mu beta : R) (s : S),
    0 < beta -> 0 < fst (next_f64 src s) < 1 ->
    exists x, gumbel_sample RO src (Datatypes.S fuel) mu beta s = Ok (x, snd (next_f64 src s)) /\
              gumbel_cdf mu beta x = fst (next_f64 src s).
Proof. exact @gumbel_inverse_cdf_pin. Qed.
Theorem C03_gumbel_monotone :
  forall (S : Type) (src : source S R) (fuel : nat) (mu beta : R) (s1 s2 : S) (x1 x2 : R) (t1 t2 : S),
    0 < beta -> 0 < fst (next_f64 src s1) -> fst (next_f64 src s1) < fst (next_f64 src s2) -> fst (next_f64 src s2) < 1 ->
    gumbel_sample RO src (Datatypes.S fuel) mu beta s1 = Ok (x1, t1) ->
    gumbel_sample RO src (Datatypes.S fuel) mu beta s2 = Ok (x2, t2) -> x1 < x2.
Proof. exact @gumbel_monotone_pin. Qed.

Theorem C03_pareto_inverse_cdf :
  forall (S : Type) (src : source S R) (fuel : nat) (alpha m : R) (s : S),
    0 < alpha -> 0 < m -> 0 < fst (next_f64 src s) < 1 ->
    exists x, pareto_sample RO src (Datatypes.S fuel) alpha m s = Ok (x, snd (next_f64 src s)) /\
              pareto_cdf alpha m x = 1 - fst (next_f64 src s) /\ m < x.
Proof. exact @pareto_inverse_cdf_pin. Qed.
Theorem C03_pareto_monotone :
  forall (S : Type) (src : source S R) (fuel : nat) (alpha m : R) (s1 s2 : S) (x1 x2 : R) (t1 t2 : S),
    0 < alpha -> 0 < m -> 0 < fst (next_f64 src s1) -> fst (next_f64 src s1) < fst (next_f64 src s2) ->
    pareto_sample RO src (Datatypes.S fuel) alpha m s1 = Ok (x1, t1) ->
    pareto_sample RO src (Datatypes.S fuel) alpha m s2 = Ok (x2, t2) -> x2 < x1.
Proof. exact @pareto_monotone_pin. Qed.

(** ** Bernoulli: 1 iff u < p; DiscreteUniform: the range draw itself *)
Theorem C03_bernoulli_iff :
  forall (S : Type) (src : source S R) (p : R) (s : S),
    0 < p < 1 ->
    (fst (bernoulli_sample RO src p s) = 1 <-> fst (next_f64 src s) < p) /\
    (fst (bernoulli_sample RO src p s) = 0 <-> ~ fst (next_f64 src s) < p).
Proof. exact @bernoulli_iff. Qed.
Theorem C03_bernoulli_degenerate :
  forall (S : Type) (src : source S R) (s : S),
    bernoulli_sample RO src 1 s = (1, s) /\ bernoulli_sample RO src 0 s = (0, s).
Proof. exact @bernoulli_degenerate_pin. Qed.
Theorem C03_bernoulli_support :
  forall (S : Type) (src : source S R) (p : R) (s : S),
    fst (bernoulli_sample RO src p s) = 0 \/ fst (bernoulli_sample RO src p s) = 1.
Proof. exact @bernoulli_support. Qed.
Theorem C03_discrete_uniform_is_range_draw :
  forall (S : Type) (src : source S R) (lo hi : Z) (s : S),
    discrete_uniform_sample RO src lo hi s =
    match next_range src lo hi s with Ok (k, s') => Ok (IZR k, s') | Fail => Fail | Fuel => Fuel end.
Proof. exact @discrete_uniform_spec. Qed.
Theorem C03_discrete_uniform_support :
  forall (S : Type) (src : source S R) (lo hi : Z) (s : S) (x : R) (s' : S),
    range_source src -> discrete_uniform_sample RO src lo hi s = Ok (x, s') ->
    exists k : Z, x = IZR k /\ (lo <= k <= hi)%Z.
Proof. exact @discrete_uniform_support. Qed.

(** ** bulk sampling: requested number and shape, for every carrier, source, distribution and count *)
Theorem C03_sample_n_length :
  forall (T S : Type) (O : Ops T) (src : source S T) (fuel : nat) (d : dist T) (n : nat) (s : S) (l : list T) (s' : S),
    sample_n O src fuel d n s = Ok (l, s') -> length l = n.
Proof. exact @sample_n_length. Qed.
Theorem C03_sample_matrix_shape :
  forall (T S : Type) (O : Ops T) (src : source S T) (fuel : nat) (d : dist T) (r c : nat) (s : S) (m : matrix) (s' : S),
    sample_matrix O src fuel d r c s = Ok (m, s') -> nr m = r /\ nc m = c /\ length (dat m) = (r * c)%nat.
Proof. exact @sample_matrix_shape. Qed.
Theorem C03_sample_matrix_accepts :
  forall (T S : Type) (O : Ops T) (src : source S T) (fuel : nat) (d : dist T) (r c : nat) (s : S) (l : list T) (s' : S),
    (0 < r)%nat -> (0 < c)%nat -> sample_n O src fuel d (r * c) s = Ok (l, s') ->
    sample_matrix O src fuel d r c s = Ok ({| nr := r; nc := c; dat := l |}, s').
Proof. exact @sample_matrix_accepts. Qed.
(** restated for the repaired [Matrix::new] (C04 finding empty-matrix:value-form-panics: the request 0 x 0 on empty data is
    now accepted); the statement used to be [(r = 0 \/ c = 0) -> never Ok], which described the original refusal *)
Theorem C03_sample_matrix_rejects_empty :
  forall (T S : Type) (O : Ops T) (src : source S T) (fuel : nat) (d : dist T) (r c : nat) (s : S),
    (r = 0 \/ c = 0)%nat -> ~ (r = 0 /\ c = 0)%nat -> forall m s', sample_matrix O src fuel d r c s <> Ok (m, s').
Proof. exact @sample_matrix_rejects_empty. Qed.
Theorem C03_sample_matrix_empty :
  forall (T S : Type) (O : Ops T) (src : source S T) (fuel : nat) (d : dist T) (s : S),
    sample_matrix O src fuel d 0 0 s = Ok ({| nr := 0; nc := 0; dat := [] |}, s).
Proof. exact @sample_matrix_empty. Qed.

(** ** Gamma (Marsaglia-Tsang + boost): every returned value is positive; shape < 1 is the boost identity *)
Theorem C03_gamma_mt_positive :
  forall (S : Type) (src : source S R) (fuel : nat) (alpha beta : R) (s : S) (g : R) (s' : S),
    1 <= alpha -> 0 < beta -> gamma_sample RO src fuel alpha beta s = Ok (g, s') -> 0 < g.
Proof. exact @gamma_mt_positive_pin. Qed.
Theorem C03_gamma_positive_every_shape :
  forall (S : Type) (src : source S R) (fuel : nat) (alpha beta : R) (s : S) (g : R) (s' : S),
    0 < alpha -> 0 < beta -> gamma_sample RO src fuel alpha beta s = Ok (g, s') -> 0 < g.
Proof. exact @gamma_sample_pos. Qed.
Theorem C03_gamma_boost_identity :
  forall (S : Type) (src : source S R) (fuel : nat) (alpha beta : R) (s : S),
    0 < alpha < 1 ->
    gamma_sample RO src fuel alpha beta s =
    match gamma_sample RO src fuel (alpha + 1) beta (snd (next_f64 src s)) with
    | Ok (g, s') => Ok (Rpower (fst (next_f64 src s)) (1 / alpha) * g, s')
    | Fail => Fail
    | Fuel => Fuel
    end.
Proof. exact @gamma_boost_identity. Qed.

(** ** discrete samplers: integer values of the support *)
Theorem C03_poisson_sample_is_count :
  forall (S : Type) (src : source S R) (fuel : nat) (lambda : R) (s : S) (k : R) (s' : S),
    0 < lambda -> unit_source src -> poisson_sample RO src fuel lambda s = Ok (k, s') -> exists n : nat, k = INR n.
Proof. exact @poisson_sample_count. Qed.
Theorem C03_ptrs_squeeze_nonneg :
  forall lam U0 : R,
    10 <= lam -> Rabs U0 <= 1 / 2 -> 7 / 100 <= 1 / 2 - Rabs U0 ->
    let slam := R_sqrt.sqrt lam in
    let b := 931 / 1000 + 253 / 100 * slam in
    let a := - (59 / 1000) + 2483 / 100000 * b in
    0 <= (2 * a / (1 / 2 - Rabs U0) + b) * U0 + lam + 43 / 100.
Proof. exact ptrs_squeeze_nonneg. Qed.
Theorem C03_binomial_inversion_le_n :
  forall (S : Type) (src : source S R) (fuel : nat) (n : N) (p : R) (s : S) (y : N) (s' : S),
    binomial_inversion RO src fuel n p s = Ok (y, s') -> (y <= n)%N.
Proof. exact @binomial_inversion_le. Qed.
Theorem C03_binomial_sample_support_inversion_regime :
  forall (S : Type) (src : source S R) (fuel : nat) (n : N) (p : R) (s : S) (y : R) (s' : S),
    (n < 18446744073709551616)%N ->
    (n = 0%N \/ p = 0 \/ Rabs (p - 1) <= Q2R (1 # 4503599627370496) \/
     (if Rlt_dec (1 / 2) p then 1 - p else p) * IZR (Z.of_N n) <= 30) ->
    binomial_sample RO src fuel n p s = Ok (y, s') -> exists k : Z, y = IZR k /\ (0 <= k <= Z.of_N n)%Z.
Proof. exact @binomial_sample_support. Qed.

(** ** multivariate normal: the draw is mu + L z; bulk draws form an n x dim matrix (every carrier) *)
Theorem C03_mvn_sample_is_mu_plus_Lz :
  forall (T S : Type) (O : Ops T) (src : source S T) (fuel : nat) (mu L : list T) (s : S) (z : list T) (s' : S),
    (0 < length mu)%nat -> length L = (length mu * length mu)%nat ->
    sample_n O src fuel (DNormal (zero O) (one O)) (length mu) s = Ok (z, s') ->
    exists v, mvn_sample O src fuel mu L s = Ok (v, s') /\ length v = length mu /\
      forall i, (i < length mu)%nat ->
        nth i v (zero O) =
        add O (nth i mu (zero O)) (sumk O (fun k => mul O (nth (i * length mu + k) L (zero O)) (nth k z (zero O))) (length mu)).
Proof. exact @mvn_sample_structure. Qed.
Theorem C03_mvn_sample_n_shape :
  forall (T S : Type) (O : Ops T) (src : source S T) (fuel : nat) (mu L : list T) (n : nat) (s : S) (m : matrix) (s' : S),
    mvn_sample_n O src fuel mu L n s = Ok (m, s') -> nr m = n /\ nc m = length mu /\ length (dat m) = (n * length mu)%nat.
Proof. exact @mvn_sample_n_shape. Qed.
Theorem C03_mvn_sample_n_accepts :
  forall (T S : Type) (O : Ops T) (src : source S T) (fuel : nat) (mu L : list T) (n : nat) (s : S) (rows : list (list T)) (s' : S),
    (0 < n)%nat -> (0 < length mu)%nat -> draws (mvn_sample O src fuel mu L) n s = Ok (rows, s') ->
    mvn_sample_n O src fuel mu L n s = Ok ({| nr := n; nc := length mu; dat := concat rows |}, s').
Proof. exact @mvn_sample_n_accepts. Qed.

(** ** the ziggurat tables regenerated from normal.rs (Tie A) satisfy the construction identities Z1-Z6 *)
Theorem C03_ziggurat_tables_consistent :
  (length zig_K = 128 /\ length zig_W = 128 /\ length zig_Y = 128)%nat /\
  (yq 0 == 1)%Q /\
  (forall i, (i < 127)%nat -> Rabs (Q2R (yq (Datatypes.S i)) - exp (- (Q2R (xq i) * Q2R (xq i)) / 2)) <= 1 / 100000000000) /\
  (kz 0 = 0%Z /\ forall i, (i < 127)%nat -> kz (Datatypes.S i) = Qfloor ((16777216 # 1) * xq i / xq (Datatypes.S i))) /\
  (forall i, (i < 128)%nat -> (Qabs (area i - area 0) <= tol9 * area 0)%Q) /\
  ((Qabs (xq 127 - (rq + 1 / rq)) <= tol9)%Q /\ (Qabs (xq 126 - rq) <= tol9)%Q) /\
  ((forall i, (i < 127)%nat -> (xq i < xq (Datatypes.S i))%Q /\ (yq (Datatypes.S i) < yq i)%Q) /\ (0 < xq 0)%Q /\ (0 < yq 127)%Q) /\
  forallb lit_ok zig_literals = true.
Proof. exact ziggurat_tables_consistent. Qed.
Theorem C03_ln_gamma_constant_is_nearest_double : lit_ok ln_sqrt_2pi = true.
Proof. vm_compute. reflexivity. Qed.

(** ** binomial inversion IS inversion of the binomial CDF (real carrier): the draw y has F(y-1) < u <= F(y) for a uniform
    variate u of the source (the first, or the one redrawn after the BINV restart), and the loop's terms are the mass function *)
Theorem C03_binomial_inversion_is_inverse_cdf :
  forall (S : Type) (src : source S R) (fuel n : nat) (p : R) (s : S) (y : N) (s' : S),
    0 < p < 1 -> binomial_inversion RO src fuel (N.of_nat n) p s = Ok (y, s') ->
    (N.to_nat y <= n)%nat /\
    exists s0, let u := fst (next_f64 src s0) in
      (forall j, (j < N.to_nat y)%nat -> binomial_cdf n p j < u) /\ u <= binomial_cdf n p (N.to_nat y).
Proof. exact @binomial_inversion_is_inverse_cdf. Qed.
Theorem C03_binv_terms_are_binomial_pmf :
  forall (n : nat) (p : R) (k : nat),
    0 < p < 1 -> (k <= n)%nat ->
    binv_term ((1 - p) ^ n) ((INR n + 1) * (p / (1 - p))) (p / (1 - p)) k = C n k * p ^ k * (1 - p) ^ (n - k).
Proof. exact binv_term_is_pmf. Qed.

(** ** binary64: the formal content of defect D10.  Before the repair d = alpha - 1/3 for every shape; whenever 9 d < 0 the
    candidate is NaN on every stream and the inner loop cannot exit, so the sampler never returns a value *)
Theorem C03_gamma_small_shape_diverges :
  forall (t : libm_table) (S : Type) (src : source S float) (fuel : nat) (alpha beta : float) (s : S),
    ltb (FO t) (mul (FO t) (ofZ (FO t) 9) (sub (FO t) alpha (div (FO t) (one (FO t)) (ofZ (FO t) 3)))) (zero (FO t)) = true ->
    forall r, gamma_sample_before_fix t src fuel alpha beta s <> Ok r.
Proof. exact @gamma_small_shape_diverges. Qed.
Theorem C03_gamma_inner_loop_never_exits_on_negative_d :
  forall (t : libm_table) (S : Type) (src : source S float) (fuel nfuel : nat) (d : float),
    ltb (FO t) (mul (FO t) (ofZ (FO t) 9) d) (zero (FO t)) = true ->
    forall s r, gamma_xv (FO t) src fuel nfuel d s <> Ok r.
Proof. exact @gamma_xv_never_exits. Qed.

(** ** non-vacuity: on a concrete source the Gamma sampler returns (so the positivity theorems are about existing runs) *)
Theorem C03_gamma_returns_on_a_concrete_source :
  gamma_sample RO (const_source (1 / 2)) 1 2 1 0%nat = Ok (2 - 1 / 3, 3%nat).
Proof. exact gamma_returns_on_const_source. Qed.

(** termination of the inversion sampler on the reals: a variate not above F(kb), kb below the restart bound, is inverted
    without a restart, consuming exactly one variate, whenever fuel >= kb *)
Theorem C03_binomial_inversion_terminates :
  forall (S : Type) (src : source S R) (fuel n : nat) (p : R) (s : S) (kb : nat),
    0 < p < 1 -> (kb <= n)%nat -> (kb <= fuel)%nat ->
    IZR (Z.of_nat kb) < IZR (Z.of_nat n) ->
    IZR (Z.of_nat kb) < IZR (Z.of_nat n) * p + 10 * R_sqrt.sqrt (IZR (Z.of_nat n) * p * (1 - p) + 1) ->
    fst (next_f64 src s) <= binomial_cdf n p kb ->
    exists y : nat,
      binomial_inversion RO src fuel (N.of_nat n) p s = Ok (N.of_nat y, snd (next_f64 src s)) /\ (y <= kb)%nat /\
      (forall j, (j < y)%nat -> binomial_cdf n p j < fst (next_f64 src s)) /\ fst (next_f64 src s) <= binomial_cdf n p y.
Proof. exact @binomial_inversion_terminates. Qed.

(** ** support of the samplers built on Gamma *)
Theorem C03_beta_sample_support :
  forall (S : Type) (src : source S R) (fuel : nat) (a b : R) (s : S) (x : R) (s' : S),
    0 < a -> 0 < b -> beta_sample RO src fuel a b s = Ok (x, s') -> 0 < x < 1.
Proof. exact @beta_sample_support. Qed.
Theorem C03_chi_squared_sample_support :
  forall (S : Type) (src : source S R) (fuel : nat) (dof : N) (s : S) (x : R) (s' : S),
    (0 < dof)%N -> chi_squared_sample RO src fuel dof s = Ok (x, s') -> 0 < x.
Proof. exact @chi_squared_sample_support. Qed.

(** ** Poisson multiplication method: the count is the first passage of the running product of variates below exp(-lambda) *)
Theorem C03_poisson_mult_first_passage :
  forall (S : Type) (src : source S R) (fuel : nat) (lambda : R) (s : S) (c : R) (s' : S),
    poisson_mult RO src fuel lambda s = Ok (c, s') ->
    exists m : nat, c = INR m /\ s' = nth_state src (Datatypes.S m) s /\
      (forall j, (j < m)%nat -> exp (- lambda) < run_prod src j s) /\ run_prod src m s <= exp (- lambda).
Proof. exact @poisson_mult_first_passage. Qed.

(** ** ziggurat fast path: for every layer i >= 1 and EVERY j < K[i], the abscissa j W[i] is left of x_(i-1) *)
Theorem C03_ziggurat_fast_path_inside_core :
  forall (i : nat) (j : Z),
    (i < 127)%nat -> (0 <= j < kz (Datatypes.S i))%Z ->
    (inject_Z j * fst (nth (Datatypes.S i) zig_W (0%Q, 0%float)) < xq i)%Q.
Proof. exact ziggurat_fast_path_inside_core. Qed.

(** ** Tie A: the inverse-CDF formulas of the model ARE the source (expression translator).  [Generated/samplers.v] is
    re-translated from src/distributions/{uniform,exponential,gumbel,pareto}.rs and src/functions/gamma.rs on every run
    (tools/tiea/samplers.py, tools/rsexpr.py), operation for operation.  Randomness is abstract in the generated terms:
    the value of [alea::f64()] is a parameter; for the rejection loop [let u = loop { let u = <draw>; if u > 0. { break u; } }]
    the accepted draw is the last argument of [<Law>_sample] and the loop's condition is [<Law>_sample_accept].
    For EVERY carrier [T], operations record [O] and random source [src]. *)
From Compute Require Import Base.RsExpr Model.Special Generated.special_consts Generated.samplers Proofs.TieA_samplers.
Theorem C03_model_is_source_Uniform_sample :
  forall (T : Type) (O : Ops T) (S : Type) (src : source S T) (lo hi : T) (s : S),
    uniform_sample O src lo hi s = let (u, s') := next_f64 src s in (Uniform_sample O u lo hi, s').
Proof. exact @tiea_Uniform_sample. Qed.
Theorem C03_model_is_source_Exponential_sample :
  forall (T : Type) (O : Ops T) (S : Type) (src : source S T) (fuel : nat) (lambda : T) (s : S),
    exponential_sample O src fuel lambda s =
    res_bind (positive_unit O src fuel s) (fun p : T * S => let (u, s') := p in Ok (Exponential_sample O lambda u, s')).
Proof. exact @tiea_Exponential_sample. Qed.
Theorem C03_model_is_source_Gumbel_sample :
  forall (T : Type) (O : Ops T) (S : Type) (src : source S T) (fuel : nat) (mu beta : T) (s : S),
    gumbel_sample O src fuel mu beta s =
    res_bind (positive_unit O src fuel s) (fun p : T * S => let (u, s') := p in Ok (Gumbel_sample O mu beta u, s')).
Proof. exact @tiea_Gumbel_sample. Qed.
Theorem C03_model_is_source_Pareto_sample :
  forall (T : Type) (O : Ops T) (S : Type) (src : source S T) (fuel : nat) (alpha minval : T) (s : S),
    pareto_sample O src fuel alpha minval s =
    res_bind (positive_f64 O src fuel s) (fun p : T * S => let (u, s') := p in Ok (Pareto_sample O alpha minval u, s')).
Proof. exact @tiea_Pareto_sample. Qed.
Theorem C03_model_is_source_Bernoulli_sample :
  forall (T : Type) (O : Ops T) (S : Type) (src : source S T) (p : T) (s : S),
    fst (bernoulli_sample O src p s) = Bernoulli_sample O (fst (next_f64 src s)) p.
Proof. exact @tiea_Bernoulli_sample. Qed.
(** one iteration of the model's rejection loop draws once and tests the source's condition *)
Theorem C03_model_is_source_Exponential_sample_accept :
  forall (T : Type) (O : Ops T) (S : Type) (src : source S T) (lambda : T) (fuel : nat) (s : S),
    positive_unit O src (Datatypes.S fuel) s =
    let (u, s') := uniform_sample O src (zero O) (one O) s in
    if Exponential_sample_accept O lambda u then Ok (u, s') else positive_unit O src fuel s'.
Proof. exact @tiea_Exponential_sample_accept. Qed.
Theorem C03_model_is_source_Gumbel_sample_accept :
  forall (T : Type) (O : Ops T) (S : Type) (src : source S T) (mu beta : T) (fuel : nat) (s : S),
    positive_unit O src (Datatypes.S fuel) s =
    let (u, s') := uniform_sample O src (zero O) (one O) s in
    if Gumbel_sample_accept O mu beta u then Ok (u, s') else positive_unit O src fuel s'.
Proof. exact @tiea_Gumbel_sample_accept. Qed.
Theorem C03_model_is_source_Pareto_sample_accept :
  forall (T : Type) (O : Ops T) (S : Type) (src : source S T) (alpha minval : T) (fuel : nat) (s : S),
    positive_f64 O src (Datatypes.S fuel) s =
    let (u, s') := next_f64 src s in
    if Pareto_sample_accept O alpha minval u then Ok (u, s') else positive_f64 O src fuel s'.
Proof. exact @tiea_Pareto_sample_accept. Qed.
(** [ln_gamma] (used by the Poisson PTRS sampler): body with the recursive call abstracted, and the model *)
Theorem C03_model_is_source_ln_gamma_body :
  forall (T : Type) (O : Ops T) (LnGam : T -> T) (z : T),
    src_ln_gamma O LnGam z =
    if ltb O z (ofQ O (1 # 2))
    then sub O (f1 O Ln (div O (pi O) (abs O (f1 O Sin (mul O (pi O) z))))) (LnGam (sub O (one O) z))
    else ln_gamma_pos O z.
Proof. exact @tiea_ln_gamma_body. Qed.
Theorem C03_model_is_source_ln_gamma :
  forall (T : Type) (O : Ops T) (z : T), src_ln_gamma O (ln_gamma_pos O) z = ln_gamma O z.
Proof. exact @tiea_ln_gamma. Qed.

(** ** multivariate normal END TO END, composed with C11 (models: Model/MVNNew.v, Model/MVNSample.v).  [MVN::new]
       computes the factor [sample] multiplies with by C11's model of [Matrix::cholesky] (and the inverse and determinant
       it also caches by C01 / C11's models of [Matrix::inv] / [Matrix::det]) — the same terms that run bit for bit
       against the crate in the end-to-end correspondence cases; no hypothesis on an inner routine is left.
       For EVERY symmetric positive definite Sigma (flat row-major, order n; positive definite written out:
       v^T Sigma v > 0 for every v <> 0), every random source, fuel and generator state: the constructor returns, the
       cached factor L is lower triangular with a positive diagonal, L L^T = Sigma, L I L^T = Sigma (the covariance of the
       affine image mu + L z of a vector z with unit covariance, as the matrix identity), and the draw IS mu + L z for
       the vector z of standard normal draws made from the same state (and nothing else can come out); the composed
       [sample] / [sample_n] ARE the samplers [mvn_sample] / [mvn_sample_n] of the older theorems (C03_mvn_sample_is_mu_plus_Lz,
       C03_mvn_sample_n_shape, C03_mvn_sample_n_accepts) run with that factor L, so those apply to them too. *)
From Compute Require Import Model.Subst Model.MVNNew Model.MVNSample Spec.Factor Spec.Solve.
From Compute Require Proofs.C02_compose Proofs.C03_compose.

Theorem C03_mvn_sample_composed :
  forall (S : Type) (src : source S R) (fuel n : nat) (cov mu : list R),
    (0 < n)%nat -> length cov = (n * n)%nat -> length mu = n ->
    symmetric cov n ->
    (forall v : nat -> R, (exists i, (i < n)%nat /\ v i <> 0) ->
       0 < rsum (fun p => rsum (fun q => v p * getm cov n p q * v q) n) n) ->
    exists L : list R,
      (length L = (n * n)%nat /\ lower_triangular L n /\ (forall i, (i < n)%nat -> 0 < getm L n i i) /\
       (forall i j, (i < n)%nat -> (j < n)%nat -> rsum (fun k => getm L n i k * getm L n j k) n = getm cov n i j) /\
       (forall i j, (i < n)%nat -> (j < n)%nat ->
          rsum (fun k => rsum (fun l => getm L n i k * delta k l * getm L n j l) n) n = getm cov n i j)) /\
      (forall s : S, mvn_sample_full RO src fuel mu {| nr := n; nc := n; dat := cov |} s = mvn_sample RO src fuel mu L s) /\
      (forall (k : nat) (s : S),
         mvn_sample_n_full RO src fuel mu {| nr := n; nc := n; dat := cov |} k s = mvn_sample_n RO src fuel mu L k s) /\
      (forall (s s' : S) (z : list R),
         sample_n RO src fuel (DNormal 0 1) n s = Ok (z, s') ->
         exists v, mvn_sample_full RO src fuel mu {| nr := n; nc := n; dat := cov |} s = Ok (v, s') /\ length v = n /\
           forall i, (i < n)%nat -> nth i v 0 = nth i mu 0 + rsum (fun k => getm L n i k * nth k z 0) n) /\
      (forall (s s' : S) (v : list R),
         mvn_sample_full RO src fuel mu {| nr := n; nc := n; dat := cov |} s = Ok (v, s') ->
         exists z, sample_n RO src fuel (DNormal 0 1) n s = Ok (z, s')).
Proof. exact Proofs.C03_compose.mvn_sample_full_spd. Qed.

Theorem C03_mvn_sample_n_shape_composed :
  forall (S : Type) (src : source S R) (fuel n : nat) (cov mu : list R) (k : nat) (s s' : S) (m : matrix),
    (0 < n)%nat -> length cov = (n * n)%nat -> length mu = n ->
    symmetric cov n ->
    (forall v : nat -> R, (exists i, (i < n)%nat /\ v i <> 0) ->
       0 < rsum (fun p => rsum (fun q => v p * getm cov n p q * v q) n) n) ->
    mvn_sample_n_full RO src fuel mu {| nr := n; nc := n; dat := cov |} k s = Ok (m, s') ->
    nr m = k /\ nc m = n /\ length (dat m) = (k * n)%nat.
Proof. exact Proofs.C03_compose.mvn_sample_n_full_spd. Qed.

(** every carrier (binary64 included): the factor cached by a constructor that returned has [mean.len()] rows and columns
    (so [sample] multiplies with exactly the matrix [mvn_sample] rebuilds from its data), it IS what [Matrix::cholesky]
    returns on the covariance, and a constructor that panics makes [sample] / [sample_n] fail *)
Theorem C03_mvn_new_caches_cholesky_composed :
  forall (T : Type) (O : Ops T) (mean : list T) (c : matrix) (d : mvn T),
    mvn_new O mean c = Some d ->
    mvn_mean d = mean /\ mvn_cov d = c /\ Model.Cholesky.matrix_cholesky O c = Some (mvn_chol d) /\
    Model.SolveInst.mat_inv O c = Some (mvn_cinv d) /\ Model.LU.matrix_det O c = Some (mvn_cdet d) /\
    nr c = nc c /\ length mean = nc c.
Proof. exact @Proofs.C02_compose.mvn_new_fields. Qed.
Theorem C03_mvn_factor_shape_composed :
  forall (T : Type) (O : Ops T) (mean : list T) (c : matrix) (d : mvn T),
    mvn_new O mean c = Some d ->
    mvn_chol d = {| nr := length (mvn_mean d); nc := length (mvn_mean d); dat := dat (mvn_chol d) |}.
Proof. exact @Proofs.C02_compose.mvn_new_chol_shape. Qed.
Theorem C03_mvn_sample_rejects_composed :
  forall (T : Type) (O : Ops T) (S : Type) (src : source S T) (fuel : nat) (mean : list T) (c : matrix) (n : nat) (s : S),
    mvn_new O mean c = None ->
    mvn_sample_full O src fuel mean c s = Fail /\ mvn_sample_n_full O src fuel mean c n s = Fail.
Proof. exact @Proofs.C03_compose.mvn_sample_full_rejects. Qed.

(** the hypotheses are satisfiable: Sigma = [[2,1],[1,2]] *)
Example C03_example_mvn_composed :
  symmetric [2; 1; 1; 2] 2 /\
  forall v : nat -> R, (exists i, (i < 2)%nat /\ v i <> 0) ->
    0 < rsum (fun p => rsum (fun q => v p * getm [2; 1; 1; 2] 2 p q * v q) 2) 2.
Proof. exact Proofs.C03_compose.mvn_sample_example_cov. Qed.
