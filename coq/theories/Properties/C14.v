(** * C14 — polynomial regression returns the least-squares polynomial.
    Statements only; proofs are in Proofs/C14*.v, satisfiability examples in Proofs/C14_examples.v.

    The model ([Model/Poly.v]) is parametric in the inner linear solve [inv] (the crate's
    [invert_matrix]: flat row-major matrix in, inverse out, [None] = panic).  Every theorem about
    [fit] takes its correctness, AT THE MATRIX [fit] PASSES, as the explicit hypothesis

      forall G Gi, fit_gram RO k x y = Some G -> inv G = Some Gi -> right_inverse k G Gi   (G·Gi = I)

    to be discharged by C01's theorem on [invert_matrix]: [C14_inverse_hypothesis_from_global] derives it
    from unconditional correctness, [C14_inverse_hypothesis_from_spd] from correctness on nonsingular
    symmetric positive definite matrices when there are degree+1 distinct abscissae (the matrix passed is
    then such a matrix, [C14_gram_nonsingular_spd]).  [Proofs/C14_examples.v] exhibits a concrete [inv]
    meeting it.  [(Z.of_nat k <= 2 ^ 31)%Z] bounds the number of coefficients [k = degree + 1]
    (the exponent of [powi] is an [i32]).

    COMPOSED WITH C01 (last section, theorems [C14_..._composed]; proofs in Proofs/C14_compose.v): [inv] is
    instantiated by C01's model of [invert_matrix] ([slice_invert], Model/SolveInst.v) and the hypothesis
    above is discharged from C01's theorems.  Those theorems assume nothing about the inner solve; what
    remains is a condition on the data alone, [has_distinct k x]: at least degree+1 distinct abscissae. *)
From Coq Require Import Reals List Arith ZArith Bool.
From Compute Require Import Base.Ops Base.ListMat Model.Reduce Model.MatMul Model.Poly Model.SolveInst
  Spec.Poly Proofs.C14_sums Proofs.C14 Proofs.C14_rank Proofs.C14_examples Proofs.C14_compose.
Import ListNotations.
Local Open Scope R_scope.

(** ** predict *)

(** prediction evaluates c₀ + c₁x + … + c_d x^d at each point: for EVERY coefficient list and points *)
Theorem C14_predict_is_polynomial :
  forall (c x : list R), predict RO c x = map (fun v => rsum (fun i => nth i c 0 * v ^ i) (length c)) x.
Proof. exact predict_is_polynomial. Qed.

Theorem C14_horner_is_power_sum :
  forall (c : list R) (v : R), horner RO c v = rsum (fun i => nth i c 0 * v ^ i) (length c).
Proof. exact horner_is_power_sum. Qed.

(** one prediction per point, on any carrier (so also on binary64) *)
Theorem C14_predict_length :
  forall (T : Type) (O : Ops T) (c x : list T), length (predict O c x) = length x.
Proof. exact @predict_length. Qed.

(** predict before fit: [new(deg)] is the zero polynomial *)
Theorem C14_predict_before_fit_is_zero :
  forall (deg : nat) (x : list R), predict RO (new RO deg) x = map (fun _ => 0) x.
Proof. exact predict_new_zero. Qed.

(** ** the Vandermonde matrix and the matrix handed to the inner solve *)

Theorem C14_vandermonde_shape :
  forall (T : Type) (O : Ops T) (x : list T) (k : nat), length (vandermonde O x k) = (length x * k)%nat.
Proof. exact @vandermonde_length. Qed.

Theorem C14_vandermonde_def :
  forall (x : list R) (k i j : nat),
    (Z.of_nat k <= 2 ^ 31)%Z -> (i < length x)%nat -> (j < k)%nat ->
    nth (i * k + j) (vandermonde RO x k) 0 = nth i x 0 ^ j.
Proof. exact vandermonde_R. Qed.

(** [fit] reaches [invert_matrix] exactly when the lengths agree and there is data, and passes VᵀV *)
Theorem C14_gram_passed_to_solver :
  forall (k : nat) (x y : list R),
    (Z.of_nat k <= 2 ^ 31)%Z ->
    match fit_gram RO k x y with
    | Some G => length x = length y /\ (0 < length x)%nat /\
                length G = (k * k)%nat /\
                forall j l, (j < k)%nat -> (l < k)%nat ->
                  nth (j * k + l) G 0 = rsum (fun i => nth i x 0 ^ j * nth i x 0 ^ l) (length x)
    | None => length x <> length y \/ length x = 0%nat
    end.
Proof. exact fit_gram_spec. Qed.

(** ** acceptance and rejection *)

(** valid call: lengths agree, at least one point, at least one coefficient.  [fit] then returns
    [k] coefficients exactly when the inner solve returns, and panics exactly when it panics *)
Theorem C14_fit_accepts :
  forall (inv : list R -> option (list R)) (k : nat) (x y : list R),
    (forall G Gi, fit_gram RO k x y = Some G -> inv G = Some Gi -> right_inverse k G Gi) ->
    (Z.of_nat k <= 2 ^ 31)%Z ->
    length x = length y -> (0 < length x)%nat -> (0 < k)%nat ->
    exists G, fit_gram RO k x y = Some G /\ is_gram k x G /\
      (forall Gi, inv G = Some Gi -> exists c, fit RO inv k x y = Some c /\ length c = k) /\
      (inv G = None -> fit RO inv k x y = None).
Proof. exact fit_accepts. Qed.

(** malformed call (any carrier): different lengths, no data, or no coefficients  =>  panic *)
Theorem C14_fit_rejects :
  forall (T : Type) (O : Ops T) (inv : list T -> option (list T)) (k : nat) (x y : list T),
    length x <> length y \/ length x = 0%nat \/ k = 0%nat -> fit O inv k x y = None.
Proof. exact @fit_rejects. Qed.

(** ** the fitted coefficients *)

Theorem C14_fit_coefficient_count :
  forall (T : Type) (O : Ops T) (inv : list T -> option (list T)) (k : nat) (x y c : list T),
    fit O inv k x y = Some c -> length c = k.
Proof. exact @fit_length_any. Qed.

(** normal equations  VᵀV·c = Vᵀy, row by row *)
Theorem C14_fit_normal_equations :
  forall (inv : list R -> option (list R)) (k : nat) (x y c : list R),
    (forall G Gi, fit_gram RO k x y = Some G -> inv G = Some Gi -> right_inverse k G Gi) ->
    (Z.of_nat k <= 2 ^ 31)%Z ->
    fit RO inv k x y = Some c ->
    forall j, (j < k)%nat ->
      rsum (fun l => rsum (fun i => nth i x 0 ^ j * nth i x 0 ^ l) (length x) * nth l c 0) k =
      rsum (fun i => nth i x 0 ^ j * nth i y 0) (length x).
Proof. exact fit_normal_equations. Qed.

(** the residual is orthogonal to every power of x up to the degree *)
Theorem C14_residual_orthogonal :
  forall (inv : list R -> option (list R)) (k : nat) (x y c : list R),
    (forall G Gi, fit_gram RO k x y = Some G -> inv G = Some Gi -> right_inverse k G Gi) ->
    (Z.of_nat k <= 2 ^ 31)%Z ->
    fit RO inv k x y = Some c ->
    forall j, (j < k)%nat ->
      rsum (fun i => nth i x 0 ^ j * (nth i y 0 - poly_sum c (nth i x 0))) (length x) = 0.
Proof. exact fit_residual_orthogonal. Qed.

(** Pythagoras:  rss c' = rss c + |V(c' − c)|²  for EVERY c' with k coefficients *)
Theorem C14_rss_decomposition :
  forall (inv : list R -> option (list R)) (k : nat) (x y c : list R),
    (forall G Gi, fit_gram RO k x y = Some G -> inv G = Some Gi -> right_inverse k G Gi) ->
    (Z.of_nat k <= 2 ^ 31)%Z ->
    fit RO inv k x y = Some c ->
    forall c', length c' = k ->
      rss x y c' = rss x y c +
        rsum (fun i => (poly_sum c' (nth i x 0) - poly_sum c (nth i x 0)) ^ 2) (length x).
Proof. exact fit_rss_decomposition. Qed.

(** no coefficient vector has a smaller residual sum of squares *)
Theorem C14_fit_is_least_squares :
  forall (inv : list R -> option (list R)) (k : nat) (x y c : list R),
    (forall G Gi, fit_gram RO k x y = Some G -> inv G = Some Gi -> right_inverse k G Gi) ->
    (Z.of_nat k <= 2 ^ 31)%Z ->
    fit RO inv k x y = Some c ->
    forall c', length c' = k -> rss x y c <= rss x y c'.
Proof. exact fit_is_least_squares. Qed.

(** data generated by a polynomial of that degree are reproduced at every abscissa *)
Theorem C14_fit_reproduces_polynomial :
  forall (inv : list R -> option (list R)) (k : nat) (x y c : list R),
    (forall G Gi, fit_gram RO k x y = Some G -> inv G = Some Gi -> right_inverse k G Gi) ->
    (Z.of_nat k <= 2 ^ 31)%Z ->
    fit RO inv k x y = Some c ->
    forall c0, length c0 = k ->
      (forall i, (i < length x)%nat -> nth i y 0 = poly_sum c0 (nth i x 0)) ->
      forall i, (i < length x)%nat -> poly_sum c (nth i x 0) = nth i y 0.
Proof. exact fit_reproduces_data. Qed.

(** ** extensions: at least degree+1 distinct abscissae *)

(** the Vandermonde matrix has full column rank: V·d = 0 forces d = 0 *)
Theorem C14_vandermonde_full_rank :
  forall (k : nat) (x d : list R),
    has_distinct k x -> length d = k ->
    (forall i, (i < length x)%nat -> poly_sum d (nth i x 0) = 0) -> Forall (fun a => a = 0) d.
Proof. exact vandermonde_full_rank. Qed.

(** hence VᵀV is nonsingular: (VᵀV)·d = 0 forces d = 0 *)
Theorem C14_gram_nonsingular :
  forall (k : nat) (x d : list R),
    has_distinct k x -> length d = k ->
    (forall j, (j < k)%nat ->
       rsum (fun l => rsum (fun i => nth i x 0 ^ j * nth i x 0 ^ l) (length x) * nth l d 0) k = 0) ->
    Forall (fun a => a = 0) d.
Proof. exact gram_nonsingular. Qed.

(** VᵀV is symmetric positive definite (what the Cholesky route of the inner solve needs):
    dᵀ(VᵀV)d = |V d|², strictly positive for d <> 0 *)
Theorem C14_gram_quadratic_form :
  forall (k : nat) (x d : list R), length d = k ->
    rsum (fun j => nth j d 0 * rsum (fun l => rsum (fun i => nth i x 0 ^ j * nth i x 0 ^ l) (length x) * nth l d 0) k) k =
    rsum (fun i => (poly_sum d (nth i x 0)) ^ 2) (length x).
Proof. exact gram_quadratic. Qed.

Theorem C14_gram_positive_definite :
  forall (k : nat) (x d : list R),
    has_distinct k x -> length d = k -> ~ Forall (fun a => a = 0) d ->
    0 < rsum (fun j => nth j d 0 * rsum (fun l => rsum (fun i => nth i x 0 ^ j * nth i x 0 ^ l) (length x) * nth l d 0) k) k.
Proof. exact gram_positive_definite. Qed.

(** on ANY carrier with a commutative product (binary64 included) the matrix handed to the inner solve
    is symmetric entry for entry (bit-symmetric) *)
Theorem C14_gram_symmetric_any_carrier :
  forall (T : Type) (O : Ops T) (k : nat) (x y G : list T),
    (forall a b, mul O a b = mul O b a) -> fit_gram O k x y = Some G ->
    forall j l, (j < k)%nat -> (l < k)%nat -> nth (j * k + l) G (zero O) = nth (l * k + j) G (zero O).
Proof. exact @fit_gram_symmetric. Qed.

(** noiseless data: the generating coefficients themselves are returned *)
Theorem C14_fit_recovers_coefficients :
  forall (inv : list R -> option (list R)) (k : nat) (x y c : list R),
    (forall G Gi, fit_gram RO k x y = Some G -> inv G = Some Gi -> right_inverse k G Gi) ->
    (Z.of_nat k <= 2 ^ 31)%Z ->
    fit RO inv k x y = Some c -> has_distinct k x ->
    forall c0, length c0 = k ->
      (forall i, (i < length x)%nat -> nth i y 0 = poly_sum c0 (nth i x 0)) -> c = c0.
Proof. exact fit_recovers_coefficients. Qed.

(** the least-squares polynomial is unique *)
Theorem C14_fit_unique_minimiser :
  forall (inv : list R -> option (list R)) (k : nat) (x y c : list R),
    (forall G Gi, fit_gram RO k x y = Some G -> inv G = Some Gi -> right_inverse k G Gi) ->
    (Z.of_nat k <= 2 ^ 31)%Z ->
    fit RO inv k x y = Some c -> has_distinct k x ->
    forall c', length c' = k -> rss x y c' <= rss x y c -> c' = c.
Proof. exact fit_unique_minimiser. Qed.

(** ** discharging the hypothesis on the inner solve *)

(** from unconditional correctness of the inner routine *)
Theorem C14_inverse_hypothesis_from_global :
  forall (inv : list R -> option (list R)) (k : nat) (x y : list R),
    (forall n A Ai, length A = (n * n)%nat -> inv A = Some Ai -> right_inverse n A Ai) ->
    (Z.of_nat k <= 2 ^ 31)%Z ->
    forall G Gi, fit_gram RO k x y = Some G -> inv G = Some Gi -> right_inverse k G Gi.
Proof. exact inverse_ok_at_of_global. Qed.

(** with degree+1 distinct abscissae the matrix passed is nonsingular and symmetric positive definite *)
Theorem C14_gram_nonsingular_spd :
  forall (k : nat) (x G : list R),
    has_distinct k x -> is_gram k x G -> nonsingular k G /\ sym_pos_def k G.
Proof. exact gram_is_nonsingular_spd. Qed.

(** hence correctness of the inner routine on such matrices suffices *)
Theorem C14_inverse_hypothesis_from_spd :
  forall (inv : list R -> option (list R)) (k : nat) (x y : list R),
    (forall n A Ai, length A = (n * n)%nat -> nonsingular n A /\ sym_pos_def n A ->
                    inv A = Some Ai -> right_inverse n A Ai) ->
    has_distinct k x -> (Z.of_nat k <= 2 ^ 31)%Z ->
    forall G Gi, fit_gram RO k x y = Some G -> inv G = Some Gi -> right_inverse k G Gi.
Proof. exact inverse_ok_at_of_spd. Qed.

(** ** update / refit sequences *)

(** a fit depends on the regressor's history only through the number of coefficients (any carrier) *)
Theorem C14_refit_history_independent :
  forall (T : Type) (O : Ops T) (inv : list T -> option (list T)) (coef coef' x y : list T),
    length coef = length coef' ->
    option_map snd (Poly.step O inv coef (OFit x y)) = option_map snd (Poly.step O inv coef' (OFit x y)) /\
    option_map fst (Poly.step O inv coef (OFit x y)) = option_map fst (Poly.step O inv coef' (OFit x y)).
Proof. exact @step_fit_history_independent. Qed.

(** every program of fits and predictions keeps the number of coefficients (any carrier, any inner routine) *)
Theorem C14_run_keeps_degree :
  forall (T : Type) (O : Ops T) (inv : list T -> option (list T)) (ops : list (op (T:=T))) (coef coef' out : list T),
    forallb (fun o => match o with OSetCoef _ => false | _ => true end) ops = true ->
    run O inv coef ops = Some (coef', out) -> length coef' = length coef.
Proof. exact @run_keeps_degree. Qed.

(** ** composed with C01: the inner solve is C01's model of [invert_matrix], nothing is assumed about it *)

(** the hypothesis of the theorems above, discharged: with degree+1 distinct abscissae, whatever C01's
    [invert_matrix] returns on the matrix [fit] passes is its inverse *)
Theorem C14_inner_solve_correct_composed :
  forall (k : nat) (x y : list R),
    has_distinct k x -> (Z.of_nat k <= 2 ^ 31)%Z ->
    forall G Gi, fit_gram RO k x y = Some G -> slice_invert RO G = Some Gi -> right_inverse k G Gi.
Proof. exact inner_solve_correct_composed. Qed.

(** ... and it does return on every symmetric positive definite matrix (Cholesky route of C01) *)
Theorem C14_inner_solve_returns_on_spd_composed :
  forall (n : nat) (A : list R),
    (0 < n)%nat -> length A = (n * n)%nat -> sym_pos_def n A ->
    exists Ai, slice_invert RO A = Some Ai /\ right_inverse n A Ai.
Proof. exact invert_spd_returns. Qed.

(** the headline: lengths agree, degree+1 distinct abscissae  =>  [fit] (Vandermonde, V^T V, C01's
    [invert_matrix], two products) returns degree+1 coefficients, they solve the normal equations, no
    coefficient vector has a smaller residual sum of squares, and every other one that does as well is equal *)
Theorem C14_fit_total_composed :
  forall (k : nat) (x y : list R),
    (Z.of_nat k <= 2 ^ 31)%Z -> (0 < k)%nat -> length x = length y -> has_distinct k x ->
    exists c, fit RO (slice_invert RO) k x y = Some c /\ length c = k /\
      (forall j, (j < k)%nat ->
         rsum (fun l => rsum (fun i => nth i x 0 ^ j * nth i x 0 ^ l) (length x) * nth l c 0) k =
         rsum (fun i => nth i x 0 ^ j * nth i y 0) (length x)) /\
      (forall c', length c' = k -> rss x y c <= rss x y c') /\
      (forall c', length c' = k -> rss x y c' <= rss x y c -> c' = c).
Proof. exact fit_total_composed. Qed.

Theorem C14_fit_is_least_squares_composed :
  forall (k : nat) (x y c : list R),
    (Z.of_nat k <= 2 ^ 31)%Z -> has_distinct k x ->
    fit RO (slice_invert RO) k x y = Some c ->
    forall c', length c' = k -> rss x y c <= rss x y c'.
Proof. exact fit_is_least_squares_composed. Qed.

Theorem C14_residual_orthogonal_composed :
  forall (k : nat) (x y c : list R),
    (Z.of_nat k <= 2 ^ 31)%Z -> has_distinct k x ->
    fit RO (slice_invert RO) k x y = Some c ->
    forall j, (j < k)%nat ->
      rsum (fun i => nth i x 0 ^ j * (nth i y 0 - poly_sum c (nth i x 0))) (length x) = 0.
Proof. exact fit_residual_orthogonal_composed. Qed.

(** noiseless data of that degree: [fit] returns the generating coefficients *)
Theorem C14_fit_recovers_coefficients_composed :
  forall (k : nat) (x y : list R),
    (Z.of_nat k <= 2 ^ 31)%Z -> (0 < k)%nat -> length x = length y -> has_distinct k x ->
    forall c0, length c0 = k ->
      (forall i, (i < length x)%nat -> nth i y 0 = poly_sum c0 (nth i x 0)) ->
      fit RO (slice_invert RO) k x y = Some c0.
Proof. exact fit_recovers_coefficients_composed. Qed.

(** the data condition is satisfiable; the whole composed routine on three points of the line 1 + 2x *)
Theorem C14_example_composed :
  has_distinct 2 [0; 1; 2] /\ fit RO (slice_invert RO) 2 [0; 1; 2] [1; 3; 5] = Some [1; 2].
Proof. exact (conj has_distinct_012 fit_line_composed). Qed.

(** ** Tie A: the model IS the source (regenerated from /repo/src/predict/polynomial.rs on every run by
    tools/tiea/poly_loops.py).  [src_*] is the method translated statement for statement; the field [coef] of [self] is the
    first argument and a [&mut self] method returns the field after the call.  The routines of other files called by [fit]
    are abstract parameters of the generated text, instantiated by their models: [vandermonde_z] = [vandermonde]
    (C15_model_is_source_vandermonde), [xtx_z] = [xtx] and [matmul_z] = [matmul] (C05_model_is_source_xtx / _matmul), and
    [inv] = [invert_matrix], in which the model is parametric as well (any function). *)
From Coq Require Import ZArith.
From Compute Require Import Base.RsExpr Base.RsExprMut Generated.poly_loops Proofs.TieA_poly_loops.
Local Close Scope R_scope.
Theorem C14_model_is_source_fit :
  forall (T : Type) (O : Ops T) (inv : list T -> option (list T)) (coef x y : list T),
    src_fit O (vandermonde_z O) (xtx_z O) inv (matmul_z O) coef x y = fit O inv (length coef) x y.
Proof. exact @tiea_poly_fit. Qed.
Theorem C14_model_is_source_predict :
  forall (T : Type) (O : Ops T) (coef x : list T), src_predict O coef x = predict O coef x.
Proof. exact @tiea_poly_predict. Qed.
Theorem C14_model_is_source_update :
  forall (T : Type) (O : Ops T) (coef params : list T), src_update O coef params = params.
Proof. exact @tiea_poly_update. Qed.
(** the constructor: [deg + 1] zeros (below the allocation limit of 2^60 - 1 cells) *)
Theorem C14_model_is_source_new :
  forall (T : Type) (O : Ops T) (deg : nat), (Z.of_nat (deg + 1) <= 1152921504606846975)%Z ->
    src_new O (Z.of_nat deg) = Some (new O deg).
Proof. exact @tiea_poly_new. Qed.
