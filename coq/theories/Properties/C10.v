(** * C10 — optimisers follow their published update rules; Levenberg-Marquardt descends.
    Statements only; proofs are in Proofs/C10.v (Adam, SGD: any carrier [T], any operations, any
    gradient function that preserves the dimension — hence bit for bit on binary64 with the
    [reverse] tape as gradient) and Proofs/C10_lm.v (LM, exact arithmetic).

    COMPOSED WITH C01 (last section, theorems [C10_..._composed]; proofs in Proofs/C10_compose.v): the inner
    solves of LM are instantiated by C01's models of [Matrix::solve] / [Matrix::inv] ([mat_solve_vec],
    [mat_inv], Model/SolveInst.v: always LU) and the hypothesis "the inner solve returns a solution" is
    discharged from C01's theorems.  Those theorems assume nothing about the inner solves; what remains is
    a condition on the data along the run: J^T J + mu diag(J^T J) has a left inverse at each iterate.

    UNCONDITIONAL (last section, proofs in Proofs/C10_damped.v): that condition is PROVED from a condition on the
    problem - every Jacobian returned has one column per parameter and no zero column - and tau > 0: mu stays > 0
    along the run and J^T J + mu diag(J^T J) is symmetric positive definite at every iterate. *)
From Coq Require Import List Arith ZArith Bool Reals.
From Compute Require Import Base.Ops Base.ListMat Model.Reduce Model.MatMul Model.Subst Model.SolveInst Model.Optim Spec.Optim
  Proofs.C10 Proofs.C10_lm Proofs.C10_compose Proofs.C10_damped.
From Compute Require Spec.Factor Spec.Solve.
Import ListNotations.

(** Adam with step budget [k] returns the iterate [j <= k] of Kingma-Ba's bias-corrected recurrence,
    where [j] is the first update whose convergence flag is raised ([j = k] if none is) *)
Theorem C10_adam_run :
  forall (T : Type) (O : Ops T) (grad : list T -> list T),
    (forall x, length (grad x) = length x) ->
    forall (h : adam_hp (T:=T)) (k : nat) (th0 : list T),
    exists j, j <= k /\ adam O grad h k th0 = adam_theta O grad h j th0 /\
      (forall i, 1 <= i < j ->
         converged O (adam_theta O grad h i th0) (adam_theta O grad h (i - 1) th0) = false) /\
      (j < k -> 1 <= j /\
         converged O (adam_theta O grad h j th0) (adam_theta O grad h (j - 1) th0) = true).
Proof. exact @adam_run. Qed.

Theorem C10_adam_is_recurrence :
  forall (T : Type) (O : Ops T) (grad : list T -> list T),
    (forall x, length (grad x) = length x) ->
    forall (h : adam_hp (T:=T)) (k : nat) (th0 : list T),
    (forall j, 1 <= j < k ->
       converged O (adam_theta O grad h j th0) (adam_theta O grad h (j - 1) th0) = false) ->
    adam O grad h k th0 = adam_theta O grad h k th0.
Proof. exact @adam_is_recurrence. Qed.

Theorem C10_adam_stops_at :
  forall (T : Type) (O : Ops T) (grad : list T -> list T),
    (forall x, length (grad x) = length x) ->
    forall (h : adam_hp (T:=T)) (k j : nat) (th0 : list T),
    1 <= j <= k ->
    (forall i, 1 <= i < j ->
       converged O (adam_theta O grad h i th0) (adam_theta O grad h (i - 1) th0) = false) ->
    converged O (adam_theta O grad h j th0) (adam_theta O grad h (j - 1) th0) = true ->
    adam O grad h k th0 = adam_theta O grad h j th0.
Proof. exact @adam_stops_at. Qed.

(** SGD (plain: momentum 0; classical momentum; Nesterov: gradient at the look-ahead point) *)
Theorem C10_sgd_run :
  forall (T : Type) (O : Ops T) (grad : list T -> list T),
    (forall x, length (grad x) = length x) ->
    forall (h : sgd_hp (T:=T)) (k : nat) (th0 : list T),
    exists j, j <= k /\ sgd O grad h k th0 = sgd_theta O grad h j th0 /\
      (forall i, 1 <= i < j ->
         converged O (sgd_theta O grad h i th0) (sgd_theta O grad h (i - 1) th0) = false) /\
      (j < k -> 1 <= j /\
         converged O (sgd_theta O grad h j th0) (sgd_theta O grad h (j - 1) th0) = true).
Proof. exact @sgd_run. Qed.

Theorem C10_sgd_is_recurrence :
  forall (T : Type) (O : Ops T) (grad : list T -> list T),
    (forall x, length (grad x) = length x) ->
    forall (h : sgd_hp (T:=T)) (k : nat) (th0 : list T),
    (forall j, 1 <= j < k ->
       converged O (sgd_theta O grad h j th0) (sgd_theta O grad h (j - 1) th0) = false) ->
    sgd O grad h k th0 = sgd_theta O grad h k th0.
Proof. exact @sgd_is_recurrence. Qed.

Theorem C10_sgd_stops_at :
  forall (T : Type) (O : Ops T) (grad : list T -> list T),
    (forall x, length (grad x) = length x) ->
    forall (h : sgd_hp (T:=T)) (k j : nat) (th0 : list T),
    1 <= j <= k ->
    (forall i, 1 <= i < j ->
       converged O (sgd_theta O grad h i th0) (sgd_theta O grad h (i - 1) th0) = false) ->
    converged O (sgd_theta O grad h j th0) (sgd_theta O grad h (j - 1) th0) = true ->
    sgd O grad h k th0 = sgd_theta O grad h j th0.
Proof. exact @sgd_stops_at. Qed.

(** determinism: the result is a function of the gradient's values, the hyper-parameters, the budget
    and the start point (no hidden state: the tape is cleared and re-seeded every step) *)
Theorem C10_adam_deterministic :
  forall (T : Type) (O : Ops T) (g g' : list T -> list T) (h : adam_hp (T:=T)) (k : nat) (th0 : list T),
    (forall x, g x = g' x) -> adam O g h k th0 = adam O g' h k th0.
Proof. exact @adam_deterministic. Qed.
Theorem C10_sgd_deterministic :
  forall (T : Type) (O : Ops T) (g g' : list T -> list T) (h : sgd_hp (T:=T)) (k : nat) (th0 : list T),
    (forall x, g x = g' x) -> sgd O g h k th0 = sgd O g' h k th0.
Proof. exact @sgd_deterministic. Qed.

(** "stops early only once the parameters have stopped changing" (exact arithmetic): the flag is raised
    exactly when every parameter moved by less than 2^-52 times the smaller of its two magnitudes
    (times 1 when either value is zero), sign included *)
Theorem C10_early_stop_means_fixed :
  forall (new old : list R), length new = length old ->
    (converged RO new old = true <->
     forall i, i < length new ->
       (Rabs (nth i new 0 - nth i old 0) < feps RO * change_scale (nth i new 0) (nth i old 0))%R).
Proof. exact @converged_iff. Qed.

(** D22: the test used before the repair ([approx_eq::rel_diff]) cannot see a sign flip;
    the repaired one measures it as a relative change of 2 *)
Theorem C10_rel_diff_sign_blind : forall x : R, rel_diff RO x (- x)%R = 0%R.
Proof. exact @rel_diff_sign_blind. Qed.
Theorem C10_rel_change_flip : forall x : R, x <> 0%R -> rel_change RO (- x)%R x = 2%R.
Proof. exact @rel_change_flip. Qed.

(** ** Levenberg-Marquardt *)

(** what [LM::optimize] returns (any carrier; the inner solves abstract, only assumed to return a vector
    of the right length): the parameters [popt] keep their dimension, and the covariance is
    [rss / (n - p) * inv (J^T J)] where [rss], [J^T J] are the residual sum of squares and the Gram
    matrix of the Jacobian AT THE RETURNED POINT, [n >= p] *)
Theorem C10_lm_result :
  forall (T : Type) (O : Ops T)
         (resid : list T -> option (list T)) (jac0 jac1 : list T -> option (list (list T)))
         (solve : matrix (T:=T) -> list T -> option (list T)) (inv : matrix (T:=T) -> option (list T))
         (h : lm_hp (T:=T)),
    (forall A b d, solve A b = Some d -> length d = length b) ->
    forall (maxsteps : nat) (ps0 popt cov : list T),
    lm O resid jac0 jac1 solve inv h maxsteps ps0 = Some (popt, cov) ->
    exists r J G g ji,
      length popt = length ps0 /\ resid popt = Some r /\
      (jac0 popt = Some J \/ jac1 popt = Some J) /\
      normal_eqs O J (length popt) r = Some (G, g) /\
      inv G = Some ji /\ length popt <= length r /\
      cov = map (mul O (div O (dot_raw O r r) (ofZ O (Z.of_nat (length r - length popt))))) ji.
Proof. exact @lm_result. Qed.

(** LM never returns parameters with a larger residual sum of squares than the start point, for EVERY
    step budget, every residual function and every Jacobian (even a wrong one), provided the inner
    solve returns a solution of its linear system and the initial damping scale tau is >= 0 *)
Theorem C10_lm_never_worse :
  forall (resid : list R -> option (list R)) (jac0 jac1 : list R -> option (list (list R)))
         (solve : matrix (T:=R) -> list R -> option (list R)) (inv : matrix (T:=R) -> option (list R))
         (h : lm_hp (T:=R)),
    (forall A b d, solve A b = Some d -> solves A b d) ->
    forall (maxsteps : nat) (ps0 popt cov : list R),
    (0 <= l_tau h)%R ->
    lm RO resid jac0 jac1 solve inv h maxsteps ps0 = Some (popt, cov) ->
    exists r0 r, resid ps0 = Some r0 /\ resid popt = Some r /\ (dot_raw RO r r <= dot_raw RO r0 r0)%R.
Proof. exact @lm_never_worse. Qed.

(** ... where [dot_raw r r] (the 8-way unrolled product of the code) is the sum of squares *)
Theorem C10_rss_is_sum_of_squares :
  forall r : list R, dot_raw RO r r = rsum (fun i => nth i r 0 * nth i r 0)%R (length r).
Proof. intros r. apply dot_raw_rsum. reflexivity. Qed.

(** the predicted reduction [d^T (mu d + g)] is non-negative whenever [d] solves the damped normal
    equations [(G + mu diag G) d = g] with [G] positive semi-definite and [mu >= 0] *)
Theorem C10_pred_reduction_nonneg :
  forall (G : matrix (T:=R)) (mu : R) (g d : list R),
    psd G -> length (dat G) = nr G * nc G -> (0 <= mu)%R -> solves (damp RO G mu) g d ->
    (0 <= dot_raw RO d (map2 Rplus (map (Rmult mu) d) g))%R.
Proof. exact @pred_reduction_nonneg. Qed.

(** [J^T J] as the code computes it ([Matrix::t_dot]) is positive semi-definite *)
Theorem C10_gram_psd :
  forall (Jm G : matrix (T:=R)),
    length (dat Jm) = nr Jm * nc Jm -> 0 < nr Jm ->
    mat_mat_dot RO DotTN Jm Jm = Some G -> psd G.
Proof. exact @gram_psd. Qed.

(** ** Levenberg-Marquardt composed with C01: [solve] := C01's model of [Solve<Vector>::solve]
    ([mat_solve_vec RO]), [inv] := the data of C01's model of [Matrix::inv] ([mat_inv RO]).
    [Spec.Solve.nonsingular a n]: the order-n matrix stored in [a] has a left inverse. *)

(** the data condition, unfolded: along the run with C01's solver, for at most [fuel] iterations, the damped
    normal matrix of every state from which a step is taken has a left inverse *)
Theorem C10_damped_nonsingular_along_unfold :
  forall (resid : list R -> option (list R)) (jac1 : list R -> option (list (list R))) (h : lm_hp (T:=R))
         (fuel : nat) (st : lm_state (T:=R)),
    damped_nonsingular_along resid jac1 h fuel st =
    match fuel with
    | 0 => True
    | S f =>
        if lm_stop st then True
        else Spec.Solve.nonsingular (dat (damp RO (lm_jtj st) (lm_mu st))) (nr (lm_jtj st)) /\
             match lm_step RO resid jac1 (mat_solve_vec RO) h st with
             | Some st' => damped_nonsingular_along resid jac1 h f st'
             | None => True
             end
    end.
Proof. intros resid jac1 h fuel st. destruct fuel; reflexivity. Qed.

(** J^T J as the code builds it is a well-formed square matrix, and damping keeps the shape (so the
    condition above is about invertibility only) *)
Theorem C10_normal_matrix_well_formed_square :
  forall (J : list (list R)) (p : nat) (r : list R) (jtj : matrix (T:=R)) (jtr : list R) (mu : R),
    normal_eqs RO J p r = Some (jtj, jtr) ->
    (well_formed jtj = true /\ nr jtj = nc jtj) /\
    (well_formed (damp RO jtj mu) = true /\ nr (damp RO jtj mu) = nc (damp RO jtj mu)).
Proof.
  intros J p r jtj jtr mu H. split; [exact (normal_eqs_wfsq J p r jtj jtr H)|].
  exact (damp_wfsq jtj mu (normal_eqs_wfsq J p r jtj jtr H)).
Qed.

(** on such a matrix with a left inverse, C01's [Matrix::solve] returns a solution of the system *)
Theorem C10_inner_solve_correct_composed :
  forall (A : matrix (T:=R)) (b d : list R),
    (well_formed A = true /\ nr A = nc A) /\ Spec.Solve.nonsingular (dat A) (nr A) ->
    mat_solve_vec RO A b = Some d -> solves A b d.
Proof. exact lm_solve_exact_at. Qed.

(** LM with C01's LU solve never returns parameters with a larger residual sum of squares than the start
    point: every step budget, every residual function, every Jacobian; nothing assumed about the solves *)
Theorem C10_lm_never_worse_composed :
  forall (resid : list R -> option (list R)) (jac0 jac1 : list R -> option (list (list R))) (h : lm_hp (T:=R))
         (maxsteps : nat) (ps0 popt cov : list R),
    (0 <= l_tau h)%R ->
    (forall st0, lm_init RO resid jac0 h ps0 = Some st0 -> damped_nonsingular_along resid jac1 h maxsteps st0) ->
    lm RO resid jac0 jac1 (mat_solve_vec RO) (fun m => option_map (@dat R) (mat_inv RO m)) h maxsteps ps0 = Some (popt, cov) ->
    exists r0 r, resid ps0 = Some r0 /\ resid popt = Some r /\ (dot_raw RO r r <= dot_raw RO r0 r0)%R.
Proof. exact lm_never_worse_composed. Qed.

(** what is returned: parameters of the right dimension; covariance = rss / (n - p) times what C01's
    [Matrix::inv] returns on J^T J at the returned point, which IS the inverse whenever J^T J has a left inverse *)
Theorem C10_lm_result_composed :
  forall (resid : list R -> option (list R)) (jac0 jac1 : list R -> option (list (list R))) (h : lm_hp (T:=R))
         (maxsteps : nat) (ps0 popt cov : list R),
    (forall st0, lm_init RO resid jac0 h ps0 = Some st0 -> damped_nonsingular_along resid jac1 h maxsteps st0) ->
    lm RO resid jac0 jac1 (mat_solve_vec RO) (fun m => option_map (@dat R) (mat_inv RO m)) h maxsteps ps0 = Some (popt, cov) ->
    exists r J G g ji,
      length popt = length ps0 /\ resid popt = Some r /\
      (jac0 popt = Some J \/ jac1 popt = Some J) /\
      normal_eqs RO J (length popt) r = Some (G, g) /\
      option_map (@dat R) (mat_inv RO G) = Some ji /\ length popt <= length r /\
      cov = map (Rmult (dot_raw RO r r / IZR (Z.of_nat (length r - length popt)))) ji /\
      (Spec.Solve.nonsingular (dat G) (nr G) -> Spec.Solve.is_right_inverse (dat G) (nr G) ji).
Proof. exact lm_result_composed. Qed.

(** the data condition is satisfiable: one parameter, nonzero Jacobian (g = J^T J > 0), mu >= 0; and a
    one-step run needs it at the start state only *)
Theorem C10_example_composed :
  (forall g mu : R, (0 < g)%R -> (0 <= mu)%R ->
     Spec.Solve.nonsingular (dat (damp RO {| nr := 1; nc := 1; dat := [g] |} mu)) 1) /\
  (forall (resid : list R -> option (list R)) (jac1 : list R -> option (list (list R))) (h : lm_hp (T:=R)) (st : lm_state (T:=R)),
     Spec.Solve.nonsingular (dat (damp RO (lm_jtj st) (lm_mu st))) (nr (lm_jtj st)) ->
     damped_nonsingular_along resid jac1 h 1 st).
Proof. exact (conj damped_1x1_nonsingular damped_nonsingular_along_one). Qed.

(** ** the data condition discharged from a condition on the PROBLEM (proofs in Proofs/C10_damped.v) *)

(** Marquardt scaling D = diag(G): for G positive semi-definite with a positive diagonal and mu > 0,
    G + mu diag(G) (as [damp] builds it) is POSITIVE DEFINITE *)
Theorem C10_damped_matrix_positive_definite_diag :
  forall (G : matrix (T:=R)) (mu : R),
    psd G -> length (dat G) = nr G * nc G -> (0 < mu)%R ->
    (forall i, i < nr G -> (0 < entry G i i)%R) ->
    forall x : nat -> R, (exists i, i < nr G /\ x i <> 0%R) ->
      (0 < Spec.Factor.rsum (fun a => Spec.Factor.rsum (fun b =>
             x a * Spec.Factor.getm (dat (damp RO G mu)) (nr G) a b * x b) (nr G)) (nr G))%R.
Proof. exact damped_positive_definite. Qed.

(** at the J^T J the code computes from a Jacobian J (list of rows of length p) WITHOUT ZERO COLUMN, for every
    mu > 0: J^T J + mu diag(J^T J) is positive definite, symmetric, and has a left inverse - so the LM step
    is defined (C10_inner_solve_correct_composed applies) *)
Theorem C10_damped_matrix_positive_definite :
  forall (J : list (list R)) (p : nat) (r : list R) (G : matrix (T:=R)) (g : list R) (mu : R),
    normal_eqs RO J p r = Some (G, g) ->
    ((forall row, In row J -> length row = p) /\
     (forall i, i < p -> exists row, In row J /\ nth i row 0%R <> 0%R)) ->
    (0 < mu)%R ->
    (forall x : nat -> R, (exists i, i < nr G /\ x i <> 0%R) ->
       (0 < Spec.Factor.rsum (fun a => Spec.Factor.rsum (fun b =>
              x a * Spec.Factor.getm (dat (damp RO G mu)) (nr G) a b * x b) (nr G)) (nr G))%R) /\
    (forall i j, i < nr G -> j < nr G ->
       Spec.Factor.getm (dat (damp RO G mu)) (nr G) i j = Spec.Factor.getm (dat (damp RO G mu)) (nr G) j i) /\
    Spec.Solve.nonsingular (dat (damp RO G mu)) (nr G).
Proof. exact damped_gram_nonsingular. Qed.

(** the mu / nu schedule of the repaired code keeps the damping positive: whatever the solver, the residuals
    and the Jacobian, a step (and a whole loop) from mu > 0, nu > 0 ends with mu > 0, nu > 0
    (accepted: mu * max(1/3, 1 - (2 rho - 1)^3), nu := 2;  rejected: mu * nu, nu * 2) *)
Theorem C10_lm_damping_stays_positive :
  forall (resid : list R -> option (list R)) (jac1 : list R -> option (list (list R)))
         (solve : matrix (T:=R) -> list R -> option (list R)) (h : lm_hp (T:=R)) (st st' : lm_state (T:=R)),
    (0 < lm_mu st)%R -> (0 < lm_nu st)%R ->
    (lm_step RO resid jac1 solve h st = Some st' -> (0 < lm_mu st')%R /\ (0 < lm_nu st')%R) /\
    (forall fuel, lm_loop RO resid jac1 solve h fuel st = Some st' -> (0 < lm_mu st')%R /\ (0 < lm_nu st')%R).
Proof.
  intros resid jac1 solve h st st' Hmu Hnu. split.
  - intros H. exact (lm_step_damping_positive resid jac1 solve h st st' H Hmu Hnu).
  - intros fuel H. exact (lm_loop_damping_positive resid jac1 solve h fuel st st' H Hmu Hnu).
Qed.

(** the data condition of the composed theorems HOLDS on every run, for every step budget, as soon as tau > 0
    and every Jacobian returned (at the start point by [jac0], at accepted points by [jac1]) has rows of the
    parameters' length and no zero column *)
Theorem C10_damped_nonsingular_along_holds :
  forall (resid : list R -> option (list R)) (jac0 jac1 : list R -> option (list (list R))) (h : lm_hp (T:=R)),
    (forall ps J, jac0 ps = Some J \/ jac1 ps = Some J ->
       (forall row, In row J -> length row = length ps) /\
       (forall i, i < length ps -> exists row, In row J /\ nth i row 0%R <> 0%R)) ->
    forall (maxsteps : nat) (ps0 : list R) (st0 : lm_state (T:=R)),
    (0 < l_tau h)%R -> lm_init RO resid jac0 h ps0 = Some st0 ->
    damped_nonsingular_along resid jac1 h maxsteps st0.
Proof. exact damped_nonsingular_along_holds. Qed.

(** ... and at every state the run (with C01's solver) reaches: mu > 0, nu > 0, damped matrix positive definite *)
Theorem C10_lm_run_damped_positive_definite :
  forall (resid : list R -> option (list R)) (jac0 jac1 : list R -> option (list (list R))) (h : lm_hp (T:=R)),
    (forall ps J, jac0 ps = Some J \/ jac1 ps = Some J ->
       (forall row, In row J -> length row = length ps) /\
       (forall i, i < length ps -> exists row, In row J /\ nth i row 0%R <> 0%R)) ->
    forall (maxsteps : nat) (ps0 : list R) (st0 st : lm_state (T:=R)),
    (0 < l_tau h)%R -> lm_init RO resid jac0 h ps0 = Some st0 ->
    lm_loop RO resid jac1 (mat_solve_vec RO) h maxsteps st0 = Some st ->
    (0 < lm_mu st)%R /\ (0 < lm_nu st)%R /\
    forall x : nat -> R, (exists i, i < nr (lm_jtj st) /\ x i <> 0%R) ->
      (0 < Spec.Factor.rsum (fun a => Spec.Factor.rsum (fun b =>
             x a * Spec.Factor.getm (dat (damp RO (lm_jtj st) (lm_mu st))) (nr (lm_jtj st)) a b * x b)
             (nr (lm_jtj st))) (nr (lm_jtj st)))%R.
Proof. exact lm_run_damped_positive_definite. Qed.

(** THE HEADLINE, UNCONDITIONALLY: LM with C01's LU solve never returns parameters with a larger residual sum
    of squares than the start point - every step budget, every residual function; nothing assumed about the
    inner solves and nothing about the run: only tau > 0 and no zero column in any Jacobian returned *)
Theorem C10_lm_never_worse_unconditional :
  forall (resid : list R -> option (list R)) (jac0 jac1 : list R -> option (list (list R))) (h : lm_hp (T:=R)),
    (forall ps J, jac0 ps = Some J \/ jac1 ps = Some J ->
       (forall row, In row J -> length row = length ps) /\
       (forall i, i < length ps -> exists row, In row J /\ nth i row 0%R <> 0%R)) ->
    forall (maxsteps : nat) (ps0 popt cov : list R),
    (0 < l_tau h)%R ->
    lm RO resid jac0 jac1 (mat_solve_vec RO) (fun m => option_map (@dat R) (mat_inv RO m)) h maxsteps ps0 = Some (popt, cov) ->
    exists r0 r, resid ps0 = Some r0 /\ resid popt = Some r /\ (dot_raw RO r r <= dot_raw RO r0 r0)%R.
Proof. exact lm_never_worse_unconditional. Qed.

(** what is returned, under the same hypotheses on the problem only *)
Theorem C10_lm_result_unconditional :
  forall (resid : list R -> option (list R)) (jac0 jac1 : list R -> option (list (list R))) (h : lm_hp (T:=R)),
    (forall ps J, jac0 ps = Some J \/ jac1 ps = Some J ->
       (forall row, In row J -> length row = length ps) /\
       (forall i, i < length ps -> exists row, In row J /\ nth i row 0%R <> 0%R)) ->
    forall (maxsteps : nat) (ps0 popt cov : list R),
    (0 < l_tau h)%R ->
    lm RO resid jac0 jac1 (mat_solve_vec RO) (fun m => option_map (@dat R) (mat_inv RO m)) h maxsteps ps0 = Some (popt, cov) ->
    exists r J G g ji,
      length popt = length ps0 /\ resid popt = Some r /\
      (jac0 popt = Some J \/ jac1 popt = Some J) /\
      normal_eqs RO J (length popt) r = Some (G, g) /\
      option_map (@dat R) (mat_inv RO G) = Some ji /\ length popt <= length r /\
      cov = map (Rmult (dot_raw RO r r / IZR (Z.of_nat (length r - length popt)))) ji /\
      (Spec.Solve.nonsingular (dat G) (nr G) -> Spec.Solve.is_right_inverse (dat G) (nr G) ji).
Proof. exact lm_result_unconditional. Qed.

(** the condition on the problem is satisfiable on a non-trivial instance: two parameters, the Jacobian is the
    constant matrix [[1;2];[0;3]] (a model linear in its parameters) *)
Theorem C10_example_unconditional :
  let jac := fun ps : list R => if length ps =? 2 then Some [[1; 2]; [0; 3]]%R else None in
  forall ps J, jac ps = Some J \/ jac ps = Some J ->
    (forall row, In row J -> length row = length ps) /\
    (forall i, i < length ps -> exists row, In row J /\ nth i row 0%R <> 0%R).
Proof. exact jac_example_cols_nonzero. Qed.

(** ... and at that Jacobian [normal_eqs] returns, and J^T J + 1.diag(J^T J) has a left inverse *)
Theorem C10_example_damped :
  exists G g, normal_eqs RO [[1; 2]; [0; 3]]%R 2 [1; 1]%R = Some (G, g) /\
              Spec.Solve.nonsingular (dat (damp RO G 1%R)) (nr G).
Proof. exact damped_instance. Qed.

From Coquelicot Require Import Coquelicot.
From Compute Require Import Base.Tape Spec.Autodiff Proofs.C10_tape Proofs.C10_tape_den Proofs.C10_tape_grad Proofs.C10_tape_la
  Proofs.C10_tape_compose Proofs.C10_tape_total.
Local Close Scope R_scope.

(** ** THE TAPE YIELDS THE TRUE GRADIENT (proofs in Proofs/C10_tape*.v; definitions in Spec/Autodiff.v)

    [Base/Tape.v] models the [reverse] crate: expression AST with let-sharing -> value + Wengert tape (in
    [add_node] order) -> reverse sweep.  On the reals, for EVERY program built from the node kinds whose recorded
    partial derivatives are right ([covered]: parameters, let / shared variables, Var+Var, Var+f64, Var-Var,
    Var-f64, f64-Var, Var*Var, Var*f64, Var/Var, Var/f64, negation, powi with an i32 exponent, exp, sin, cos,
    ln, sqrt, recip, tanh - i.e. every constructor of the AST except [f64 / Var]), every number of parameters and
    every point at which the program is differentiable in the usual sense ([smooth_at]), the vector returned by
    [f(&params, data).grad().wrt(&params)] is the vector of partial derivatives of the program's denotation
    [den] (Coquelicot's [is_derive] of t |-> den e (upd xs i t) along each coordinate i). *)

(** the reverse sweep, on any well-formed tape (every node a leaf [(idx, idx, 0., 0.)] or depending on older
    nodes only; any length; a node may be used any number of times - its adjoint accumulates): the entry [k] of
    [Var::grad]'s result is the tangent of the output node with respect to node [k], where tangents are
    propagated forward along the recorded weights ([tanf]: 1 at [k], 0 at other leaves,
    w1 * tangent(d1) + w2 * tangent(d2) elsewhere) *)
Theorem C10_tape_sweep_is_adjoint :
  forall (tp : @tape R) (v : @var R) (k : nat),
    tape_wf tp -> k < tlen tp ->
    nth k (grad RO tp v) 0%R = tanf (nodes tp) k (snd v).
Proof. exact grad_adjoint. Qed.

(** what [tanf], [tape_wf], [den], [covered], [smooth_at], [true_grad] are (pinned by unfolding) *)
Theorem C10_tape_defs_unfold :
  (forall (nd : @node R) (nds : list (@node R)) (k j : nat),
     tanf (nd :: nds) k j =
     if j =? length nds then
       (if length nds =? k then 1%R
        else if nd1 nd =? length nds then 0%R
        else (nw1 nd * tanf nds k (nd1 nd) + nw2 nd * tanf nds k (nd2 nd))%R)
     else tanf nds k j) /\
  (forall k j, tanf [] k j = 0%R) /\
  (forall (nd : @node R) (nds : list (@node R)),
     nodes_wf (nd :: nds) <->
     ((nd1 nd = length nds /\ nd2 nd = length nds /\ nw1 nd = 0%R /\ nw2 nd = 0%R) \/
      (nd1 nd < length nds /\ nd2 nd < length nds)) /\ nodes_wf nds) /\
  (forall tp : @tape R, tape_wf tp <-> tlen tp = length (nodes tp) /\ nodes_wf (nodes tp)) /\
  (forall (e : expr R) (data : list (list R)) (x g : list R),
     true_grad e data x g <->
     length g = length x /\
     forall i, i < length x -> is_derive (fun t : R => den e data (upd x i t) []) (nth i x 0%R) (nth i g 0%R)) /\
  (forall (data : list (list R)) (xs env : list R) (a b : expr R) (c : cst R) (n : Z) (f : ufn) (i : nat),
     den (EPar i) data xs env = nth i xs 0%R /\
     den (EVar i) data xs env = nth i env 0%R /\
     den (ELet a b) data xs env = den b data xs (den a data xs env :: env) /\
     den (EAdd a b) data xs env = (den a data xs env + den b data xs env)%R /\
     den (EAddC a c) data xs env = (den a data xs env + cden data c)%R /\
     den (ESub a b) data xs env = (den a data xs env - den b data xs env)%R /\
     den (ESubC a c) data xs env = (den a data xs env - cden data c)%R /\
     den (ECSub c a) data xs env = (cden data c - den a data xs env)%R /\
     den (EMul a b) data xs env = (den a data xs env * den b data xs env)%R /\
     den (EMulC a c) data xs env = (den a data xs env * cden data c)%R /\
     den (EDiv a b) data xs env = (den a data xs env / den b data xs env)%R /\
     den (EDivC a c) data xs env = (den a data xs env / cden data c)%R /\
     den (ECDiv c a) data xs env = (cden data c / den a data xs env)%R /\
     den (ENeg a) data xs env = (- den a data xs env)%R /\
     den (EPowi a n) data xs env = powerRZ (den a data xs env) n /\
     den (EFn f a) data xs env =
       match f with
       | UExp => exp (den a data xs env) | USin => sin (den a data xs env) | UCos => cos (den a data xs env)
       | ULn => ln (den a data xs env) | USqrt => R_sqrt.sqrt (den a data xs env)
       | URecip => (/ den a data xs env)%R | UTanh => tanh (den a data xs env)
       end) /\
  (forall (a b : expr R) (c : cst R) (n : Z) (f : ufn) (i : nat),
     (covered (EPar i) <-> True) /\ (covered (EVar i) <-> True) /\
     (covered (ELet a b) <-> covered a /\ covered b) /\ (covered (EAdd a b) <-> covered a /\ covered b) /\
     (covered (ESub a b) <-> covered a /\ covered b) /\ (covered (EMul a b) <-> covered a /\ covered b) /\
     (covered (EDiv a b) <-> covered a /\ covered b) /\
     (covered (EAddC a c) <-> covered a) /\ (covered (ESubC a c) <-> covered a) /\ (covered (ECSub c a) <-> covered a) /\
     (covered (EMulC a c) <-> covered a) /\ (covered (EDivC a c) <-> covered a) /\ (covered (ENeg a) <-> covered a) /\
     (covered (EFn f a) <-> covered a) /\
     (covered (ECDiv c a) <-> False) /\
     (covered (EPowi a n) <-> covered a /\ (- 2 ^ 31 <= n < 2 ^ 31)%Z)) /\
  (forall (data : list (list R)) (xs env : list R) (a b : expr R) (c : cst R) (n : Z) (f : ufn) (i : nat),
     (smooth_at (EPar i) data xs env <-> i < length xs) /\
     (smooth_at (EVar i) data xs env <-> i < length env) /\
     (smooth_at (ELet a b) data xs env <-> smooth_at a data xs env /\ smooth_at b data xs (den a data xs env :: env)) /\
     (smooth_at (EAdd a b) data xs env <-> smooth_at a data xs env /\ smooth_at b data xs env) /\
     (smooth_at (ESub a b) data xs env <-> smooth_at a data xs env /\ smooth_at b data xs env) /\
     (smooth_at (EMul a b) data xs env <-> smooth_at a data xs env /\ smooth_at b data xs env) /\
     (smooth_at (EAddC a c) data xs env <-> smooth_at a data xs env /\ cval data c <> None) /\
     (smooth_at (ESubC a c) data xs env <-> smooth_at a data xs env /\ cval data c <> None) /\
     (smooth_at (ECSub c a) data xs env <-> smooth_at a data xs env /\ cval data c <> None) /\
     (smooth_at (EMulC a c) data xs env <-> smooth_at a data xs env /\ cval data c <> None) /\
     (smooth_at (EDiv a b) data xs env <->
        smooth_at a data xs env /\ smooth_at b data xs env /\ den b data xs env <> 0%R) /\
     (smooth_at (EDivC a c) data xs env <-> smooth_at a data xs env /\ cval data c <> None /\ cden data c <> 0%R) /\
     (smooth_at (ENeg a) data xs env <-> smooth_at a data xs env) /\
     (smooth_at (EPowi a n) data xs env <-> smooth_at a data xs env /\ ((n < 0)%Z -> den a data xs env <> 0%R)) /\
     (smooth_at (EFn f a) data xs env <->
        smooth_at a data xs env /\
        match f with
        | UExp | USin | UCos | UTanh => True
        | ULn | USqrt => (0 < den a data xs env)%R
        | URecip => den a data xs env <> 0%R
        end)) /\
  (forall (data : list (list R)) (c : cst R),
     cden data c = match cval data c with Some x => x | None => 0%R end).
Proof.
  split; [intros; reflexivity|]. split; [intros; reflexivity|]. split; [intros; reflexivity|].
  split; [intros; reflexivity|]. split; [intros; reflexivity|].
  split; [intros; repeat split; destruct f; reflexivity|].
  split; [intros; cbn [covered]; tauto|].
  split; [|intros; reflexivity].
  intros. cbn [smooth_at]. destruct f; cbn [usmooth]; tauto.
Qed.

(** THE GRADIENT: [tape_grad] (fresh tape, parameters as leaves, [f(&params, data).grad().wrt(&params)]) returns,
    for every covered program, every number of parameters and every smooth point, a vector of the parameters'
    length whose i-th entry is the i-th partial derivative of the denotation *)
Theorem C10_tape_grad_is_gradient :
  forall (e : expr R) (data : list (list R)) (xs : list R),
    covered e -> smooth_at e data xs [] ->
    exists g, tape_grad RO e data xs = Some g /\ length g = length xs /\
      forall i, i < length xs ->
        is_derive (fun t : R => den e data (upd xs i t) []) (nth i xs 0%R) (nth i g 0%R).
Proof. exact tape_grad_sound. Qed.

(** the same for the tape of Nesterov SGD (the objective is evaluated on the NON-LEAF look-ahead nodes and the
    adjoints of those nodes are read): it returns the gradient at the look-ahead point *)
Theorem C10_tape_grad_la_is_gradient :
  forall (e : expr R) (data : list (list R)) (xs : list R),
    covered e -> smooth_at e data xs [] ->
    exists g, tape_grad_la RO e data xs = Some g /\ length g = length xs /\
      forall i, i < length xs ->
        is_derive (fun t : R => den e data (upd xs i t) []) (nth i xs 0%R) (nth i g 0%R).
Proof. exact tape_grad_la_sound. Qed.

(** ... and the value the tape computes along the way is the denotation *)
Theorem C10_tape_val_is_denotation :
  forall (e : expr R) (data : list (list R)) (xs : list R),
    covered e -> smooth_at e data xs [] -> tape_val RO e data xs = Some (den e data xs []).
Proof. exact tape_val_sound. Qed.

(** the general form behind them: along ANY differentiable curve of parameter values [P] and let-bound values
    [E] (tracked by variables on a well-formed tape whose tangents with respect to a node [k] are the curve's
    derivatives), [eval] succeeds, extends the tape by well-formed nodes, returns the denotation's value, and
    the tangent of the returned node is the derivative of the denotation along the curve (the chain rule, by
    induction on the AST; [ELet] shares a node) *)
Theorem C10_tape_eval_chain_rule :
  forall (data : list (list R)) (k base : nat) (s0 : R) (e : expr R),
    covered e ->
    forall (ps env : list (@var R)) (tp : @tape R) (P E : R -> list R),
    tape_wf tp -> base <= tlen tp ->
    (length ps = length (P s0) /\
     forall j pv, nth_error ps j = Some pv ->
       snd pv < length (nodes tp) /\ fst pv = nth j (P s0) 0%R /\
       (k < base -> is_derive (fun s : R => nth j (P s) 0%R) s0 (tanf (nodes tp) k (snd pv)))) ->
    (length env = length (E s0) /\
     forall j pv, nth_error env j = Some pv ->
       snd pv < length (nodes tp) /\ fst pv = nth j (E s0) 0%R /\
       (k < base -> is_derive (fun s : R => nth j (E s) 0%R) s0 (tanf (nodes tp) k (snd pv)))) ->
    smooth_at e data (P s0) (E s0) ->
    exists r tp', eval RO e ps env data tp = Some (r, tp') /\
      (tape_wf tp' /\ exists new, nodes tp' = new ++ nodes tp) /\
      snd r < length (nodes tp') /\ fst r = den e data (P s0) (E s0) /\
      (k < base -> is_derive (fun s : R => den e data (P s) (E s)) s0 (tanf (nodes tp') k (snd r))).
Proof. exact eval_sound. Qed.

(** THE EXCLUDED NODE KIND (finding reverse:gradient-of-const-over-var): for [c / x] the tape returns [-1/x];
    the derivative is [-c/x^2]; so the tape's answer is not the derivative unless c = x
    (c = 3, x = 2: tape -0.5, true -0.75) *)
Theorem C10_tape_const_over_var_refuted :
  forall c x : R, x <> 0%R ->
    tape_grad RO (ECDiv (CLit c) (EPar 0)) [] (x :: nil) = Some ((- (1) / x)%R :: nil) /\
    is_derive (fun t : R => den (ECDiv (CLit c) (EPar 0)) [] (upd (x :: nil) 0 t) []) x (- c / (x * x))%R /\
    (c <> x -> ~ is_derive (fun t : R => den (ECDiv (CLit c) (EPar 0)) [] (upd (x :: nil) 0 t) []) x (- (1) / x)%R).
Proof. exact tape_cdiv_wrong. Qed.
Theorem C10_tape_const_over_var_instance :
  tape_grad RO (ECDiv (CLit 3%R) (EPar 0)) [] (2%R :: nil) = Some ((- (1) / 2)%R :: nil) /\
  is_derive (fun t : R => (3 / t)%R) 2%R (- 3 / (2 * 2))%R /\
  ~ is_derive (fun t : R => (3 / t)%R) 2%R (- (1) / 2)%R.
Proof.
  destruct (tape_cdiv_wrong 3%R 2%R ltac:(apply not_eq_sym, Rlt_not_eq, Rlt_0_2)) as (H1 & H2 & H3).
  split; [exact H1|]. split; [exact H2|]. apply H3. apply not_eq_sym, Rlt_not_eq.
  apply (Rplus_lt_reg_l (-2)%R). replace (-2 + 2)%R with 0%R by ring. replace (-2 + 3)%R with 1%R by ring. exact Rlt_0_1.
Qed.

(** the gradient at a point is unique, so "a function returning the true gradient" is determined on smooth points *)
Theorem C10_true_gradient_unique :
  forall (e : expr R) (data : list (list R)) (x g g' : list R),
    true_grad e data x g -> true_grad e data x g' -> g = g'.
Proof. exact true_grad_unique. Qed.

(** the gradient functions handed to the optimisers below: the tape's answer, made total *)
Theorem C10_tape_gradient_unfold :
  forall (e : expr R) (data : list (list R)) (x : list R),
    tape_gradient e data x = match tape_grad RO e data x with Some g => g | None => repeat 0%R (length x) end /\
    tape_gradient_la e data x = match tape_grad_la RO e data x with Some g => g | None => repeat 0%R (length x) end /\
    (forall b, tape_gradient_sgd b e data x = if b then tape_gradient_la e data x else tape_gradient e data x) /\
    length (tape_gradient e data x) = length x /\ length (tape_gradient_la e data x) = length x.
Proof.
  intros e data x. split; [reflexivity|]. split; [reflexivity|]. split; [intros [|]; reflexivity|].
  split; [apply tape_gradient_len|apply tape_gradient_la_len].
Qed.

(** ** COMPOSED: [C10_adam_is_recurrence] / [C10_adam_run] / [C10_sgd_is_recurrence] / [C10_sgd_run] /
    [C10_early_stop_means_fixed] instantiated with the tape gradient.

    For every covered objective program and EVERY function [G] that returns the vector of partial derivatives of
    the program's denotation at its smooth points (the "true gradient"; unique there), as long as the points at
    which the gradient is evaluated stay smooth: Adam with the [reverse] tape returns the iterate of Kingma-Ba's
    recurrence DRIVEN BY [G] - the iterate [k] when no convergence flag is raised before, in general the
    iterate [j <= k] of the first raised flag, and then every parameter moved by less than 2^-52 of its scale *)
Theorem C10_adam_follows_true_gradient :
  forall (e : expr R) (data : list (list R)) (G : list R -> list R),
    covered e ->
    (forall x, smooth_at e data x [] -> true_grad e data x (G x)) ->
    forall (h : adam_hp (T:=R)) (k : nat) (th0 : list R),
    (forall j, j < k -> smooth_at e data (adam_theta RO G h j th0) []) ->
    (forall j, 1 <= j < k ->
       converged RO (adam_theta RO G h j th0) (adam_theta RO G h (j - 1) th0) = false) ->
    adam RO (tape_gradient e data) h k th0 = adam_theta RO G h k th0.
Proof. exact adam_follows_true_gradient. Qed.

Theorem C10_adam_run_true_gradient :
  forall (e : expr R) (data : list (list R)) (G : list R -> list R),
    covered e ->
    (forall x, smooth_at e data x [] -> true_grad e data x (G x)) ->
    forall (h : adam_hp (T:=R)) (k : nat) (th0 : list R),
    (forall j, j < k -> smooth_at e data (adam_theta RO G h j th0) []) ->
    exists j, j <= k /\
      adam RO (tape_gradient e data) h k th0 = adam_theta RO G h j th0 /\
      (forall i, 1 <= i < j ->
         converged RO (adam_theta RO G h i th0) (adam_theta RO G h (i - 1) th0) = false) /\
      (j < k -> 1 <= j /\
         forall i, i < length th0 ->
           (Rabs (nth i (adam_theta RO G h j th0) 0 - nth i (adam_theta RO G h (j - 1) th0) 0)
            < feps RO * change_scale (nth i (adam_theta RO G h j th0) 0) (nth i (adam_theta RO G h (j - 1) th0) 0))%R).
Proof. exact adam_run_true_gradient. Qed.

(** SGD: plain and classical momentum differentiate at the parameters, Nesterov at the look-ahead point
    [theta - mom * u] with the look-ahead tape; [sgd_at] is that evaluation point *)
Theorem C10_sgd_follows_true_gradient :
  forall (e : expr R) (data : list (list R)) (G : list R -> list R),
    covered e ->
    (forall x, smooth_at e data x [] -> true_grad e data x (G x)) ->
    forall (h : sgd_hp (T:=R)) (k : nat) (th0 : list R),
    (forall j, j < k ->
       smooth_at e data (sgd_at RO h (fst (sgd_iter RO G h j th0)) (snd (sgd_iter RO G h j th0))) []) ->
    (forall j, 1 <= j < k ->
       converged RO (sgd_theta RO G h j th0) (sgd_theta RO G h (j - 1) th0) = false) ->
    sgd RO (tape_gradient_sgd (s_nesterov h) e data) h k th0 = sgd_theta RO G h k th0.
Proof. exact sgd_follows_true_gradient. Qed.

Theorem C10_sgd_run_true_gradient :
  forall (e : expr R) (data : list (list R)) (G : list R -> list R),
    covered e ->
    (forall x, smooth_at e data x [] -> true_grad e data x (G x)) ->
    forall (h : sgd_hp (T:=R)) (k : nat) (th0 : list R),
    (forall j, j < k ->
       smooth_at e data (sgd_at RO h (fst (sgd_iter RO G h j th0)) (snd (sgd_iter RO G h j th0))) []) ->
    exists j, j <= k /\
      sgd RO (tape_gradient_sgd (s_nesterov h) e data) h k th0 = sgd_theta RO G h j th0 /\
      (forall i, 1 <= i < j ->
         converged RO (sgd_theta RO G h i th0) (sgd_theta RO G h (i - 1) th0) = false) /\
      (j < k -> 1 <= j /\
         forall i, i < length th0 ->
           (Rabs (nth i (sgd_theta RO G h j th0) 0 - nth i (sgd_theta RO G h (j - 1) th0) 0)
            < feps RO * change_scale (nth i (sgd_theta RO G h j th0) 0) (nth i (sgd_theta RO G h (j - 1) th0) 0))%R).
Proof. exact sgd_run_true_gradient. Qed.

(** the same with the gradient function in exactly the shape the correspondence check runs on binary64
    ([Corr/C10.v]: [total g x = match g x with Some v => v | None => [] end], [g] the tape gradient - the look-ahead
    tape under Nesterov momentum): the loops evaluate the gradient at their iterates only *)
Theorem C10_adam_follows_true_gradient_corr_term :
  forall (e : expr R) (data : list (list R)) (G : list R -> list R),
    covered e ->
    (forall x, smooth_at e data x [] -> true_grad e data x (G x)) ->
    forall (h : adam_hp (T:=R)) (k : nat) (th0 : list R),
    (forall j, j < k -> smooth_at e data (adam_theta RO G h j th0) []) ->
    (forall j, 1 <= j < k ->
       converged RO (adam_theta RO G h j th0) (adam_theta RO G h (j - 1) th0) = false) ->
    adam RO (fun x => match tape_grad RO e data x with Some v => v | None => [] end) h k th0 = adam_theta RO G h k th0.
Proof. exact adam_total_follows_true_gradient. Qed.

Theorem C10_sgd_follows_true_gradient_corr_term :
  forall (e : expr R) (data : list (list R)) (G : list R -> list R),
    covered e ->
    (forall x, smooth_at e data x [] -> true_grad e data x (G x)) ->
    forall (h : sgd_hp (T:=R)) (k : nat) (th0 : list R),
    (forall j, j < k ->
       smooth_at e data (sgd_at RO h (fst (sgd_iter RO G h j th0)) (snd (sgd_iter RO G h j th0))) []) ->
    (forall j, 1 <= j < k ->
       converged RO (sgd_theta RO G h j th0) (sgd_theta RO G h (j - 1) th0) = false) ->
    sgd RO (fun x => match (if s_nesterov h then tape_grad_la RO e data else tape_grad RO e data) x with
                     | Some v => v | None => [] end) h k th0 = sgd_theta RO G h k th0.
Proof. exact sgd_total_follows_true_gradient. Qed.

(** the hypotheses are satisfiable: [G := tape_gradient e data] is such a function for every covered program, and
    the program  let v = p0 - 3. in v*v + exp(p1)*v + p1.powi(2)  (let-sharing: v is used three times) is covered
    and smooth at every point of R^2, with the expected denotation *)
Theorem C10_tape_example :
  (forall (e : expr R) (data : list (list R)), covered e ->
     forall x, smooth_at e data x [] -> true_grad e data x (tape_gradient e data x)) /\
  (let prog := ELet (ESubC (EPar 0) (CLit 3%R))
                    (EAdd (EAdd (EMul (EVar 0) (EVar 0)) (EMul (EFn UExp (EPar 1)) (EVar 0))) (EPowi (EPar 1) 2)) in
   covered prog /\
   forall x y : R, smooth_at prog [] (x :: y :: nil) [] /\
                   den prog [] (x :: y :: nil) [] = ((x - 3) * (x - 3) + exp y * (x - 3) + y * y)%R).
Proof.
  split; [exact tape_gradient_is_a_G|]. split; [exact example_covered|].
  intros x y. split; [apply example_smooth|apply example_den].
Qed.

From Compute Require Import Model.LMTape Proofs.C10_lm_tape.

(** ** LM's JACOBIAN IS THE TRUE JACOBIAN (proofs in Proofs/C10_lm_tape.v; model in Model/LMTape.v)

    [Model/LMTape.v] is how [optimize/lm.rs] obtains its residuals and Jacobian rows from the [reverse] tape (the same
    terms run on binary64 in Corr/C10.v): [e] is the model function f(params, [[x]]) as a tape program, the data are
    the abscissae [xs] and observations [ys]; ONE tape is shared by all the data points and keeps growing (each point's
    evaluation, the node of [y - val], on accepted steps the [x + d] nodes - the new parameters are NON-leaf nodes - and
    the trial evaluations), and every row is read off by a sweep over the whole tape. *)

(** the objects (pinned by unfolding): smoothness for every abscissa, the residuals y_i - f(ps, x_i), THE Jacobian of
    the model function (Coquelicot's [Derive] along each coordinate; the Jacobian of the residuals is its opposite and
    J^T J is the same), "no column vanishes", the sublevel set of a start point *)
Theorem C10_lm_tape_defs_unfold :
  (forall (e : expr R) (xs ps : list R),
     smooth_on e xs ps <-> forall x, In x xs -> smooth_at e ((x :: nil) :: nil) ps []) /\
  (forall (e : expr R) (xs ys ps : list R),
     model_residuals e xs ys ps = map (fun xy => (snd xy - den e ((fst xy :: nil) :: nil) ps [])%R) (combine xs ys)) /\
  (forall (e : expr R) (xs ps : list R),
     model_jacobian e xs ps =
     map (fun x => map (fun j => Derive (fun t => den e ((x :: nil) :: nil) (upd ps j t) []) (nth j ps 0%R)) (seq 0 (length ps))) xs) /\
  (forall (e : expr R) (xs ps : list R),
     jacobian_cols_nonzero e xs ps <->
     forall j, j < length ps ->
       exists i, i < length xs /\ Derive (fun t => den e ((nth i xs 0%R :: nil) :: nil) (upd ps j t) []) (nth j ps 0%R) <> 0%R) /\
  (forall (e : expr R) (xs ps : list R) (J : list (list R)),
     true_jacobian e xs ps J <->
     length J = length xs /\ forall i, i < length xs -> true_grad e ((nth i xs 0%R :: nil) :: nil) ps (nth i J [])) /\
  (forall (resid : list R -> option (list R)) (ps0 r0 ps : list R),
     sublevel resid ps0 r0 ps <->
     length ps = length ps0 /\ exists r, resid ps = Some r /\ (dot_raw RO r r <= dot_raw RO r0 r0)%R).
Proof. repeat (split; [intros; reflexivity|]). intros; reflexivity. Qed.

(** THE THEOREM: for every covered model program (every node kind except [f64 / Var]), every set of abscissae and
    every parameter vector at which the model function is differentiable in the usual sense for each abscissa, BOTH
    Jacobian functions of the LM model (start of [optimize]: leaf parameters, shared tape with the [y - val] nodes;
    accepted step: [x + d] nodes on top of the leaves and the trial evaluations) return [model_jacobian]: one row per
    data point, of the parameters' length, whose entry (i, j) is the partial derivative of params |-> f(params, x_i)
    along coordinate j ([is_derive]); equivalently minus the partial derivative of the residual y - f(params, x_i) *)
Theorem C10_lm_jacobian_is_true_jacobian :
  forall (e : expr R) (xs ps : list R),
    covered e -> smooth_on e xs ps ->
    lm_jac0 RO e xs ps = Some (model_jacobian e xs ps) /\
    lm_jac1 RO e xs ps = Some (model_jacobian e xs ps) /\
    length (model_jacobian e xs ps) = length xs /\
    forall i, i < length xs ->
      length (nth i (model_jacobian e xs ps) []) = length ps /\
      forall j, j < length ps ->
        is_derive (fun t : R => den e ((nth i xs 0%R :: nil) :: nil) (upd ps j t) []) (nth j ps 0%R)
                  (nth j (nth i (model_jacobian e xs ps) []) 0%R) /\
        forall y : R, is_derive (fun t : R => (y - den e ((nth i xs 0%R :: nil) :: nil) (upd ps j t) [])%R) (nth j ps 0%R)
                                (- nth j (nth i (model_jacobian e xs ps) []) 0%R)%R.
Proof. exact lm_jacobian_is_true_jacobian. Qed.

(** ... and the residual function returns the residuals of the denotation *)
Theorem C10_lm_residuals_are_model_residuals :
  forall (e : expr R) (xs ys ps : list R),
    covered e -> smooth_on e xs ps ->
    lm_resid RO e xs ys ps = Some (model_residuals e xs ys ps).
Proof. intros e xs ys ps Hc Hs. exact (lm_resid_true e xs Hc ys ps Hs). Qed.

(** without any smoothness: whenever [eval] returns, the value is the denotation (on the reals every operation is
    total), so whenever the residual function returns it returns the residuals of the denotation *)
Theorem C10_lm_residuals_value :
  forall (e : expr R) (xs ys ps r : list R),
    covered e -> lm_resid RO e xs ys ps = Some r -> r = model_residuals e xs ys ps.
Proof. exact lm_resid_value. Qed.

(** the general fact behind it: on ANY well-formed tape on which the parameter nodes [pv] carry the values [xs] and have
    unit tangents (tangent of node j with respect to node i = delta_ij: leaves, or the [x + d] nodes), evaluation of a
    covered program at a smooth point returns the denotation, and WHATEVER is pushed on the tape afterwards
    ([text tp' tp'']: tp'' is a well-formed extension of tp'), [val.grad().wrt(&params)] is the gradient *)
Theorem C10_tape_row_on_shared_tape :
  forall (data : list (list R)) (e : expr R) (pv : list (@var R)) (xs : list R) (tp : @tape R),
    covered e -> tape_wf tp ->
    (length pv = length xs /\
     forall j v, nth_error pv j = Some v ->
       snd v < length (nodes tp) /\ fst v = nth j xs 0%R /\
       forall i u, nth_error pv i = Some u -> tanf (nodes tp) (snd u) (snd v) = if j =? i then 1%R else 0%R) ->
    smooth_at e data xs [] ->
    exists r tp', eval RO e pv [] data tp = Some (r, tp') /\
      (tape_wf tp' /\ exists new, nodes tp' = new ++ nodes tp) /\
      fst r = den e data xs [] /\ snd r < tlen tp' /\
      forall tp'', (tape_wf tp'' /\ exists new, nodes tp'' = new ++ nodes tp') ->
        true_grad e data xs (wrt RO (grad RO tp'' r) pv).
Proof. exact eval_row. Qed.

(** THE COVARIANCE with the true Jacobian, run-local form: for every covered model program, data, hyper-parameters,
    step budget and start, if LM (inner solves = C01's LU models, nothing assumed about them) returns (popt, cov),
    the damped normal matrix had a left inverse along the run (the data condition of the composed theorems) and the
    model function is smooth at the RETURNED point, then cov = rss/(n-p) * ji where ji is what C01's [Matrix::inv]
    returns on G = J^T J (THE inverse whenever G has a left inverse), J = [model_jacobian] the TRUE Jacobian at popt
    (G_ab = sum_i dF_i/dp_a dF_i/dp_b), rss the sum of squares of the true residuals y_i - f(popt, x_i) *)
Theorem C10_lm_covariance_true_jacobian :
  forall (e : expr R) (xs ys : list R), covered e ->
  forall (h : lm_hp (T:=R)) (maxsteps : nat) (ps0 popt cov : list R),
    (forall st0, lm_init RO (lm_resid RO e xs ys) (lm_jac0 RO e xs) h ps0 = Some st0 ->
                 damped_nonsingular_along (lm_resid RO e xs ys) (lm_jac1 RO e xs) h maxsteps st0) ->
    lm RO (lm_resid RO e xs ys) (lm_jac0 RO e xs) (lm_jac1 RO e xs)
       (mat_solve_vec RO) (fun m => option_map (@dat R) (mat_inv RO m)) h maxsteps ps0 = Some (popt, cov) ->
    smooth_on e xs popt ->
    let J := model_jacobian e xs popt in
    let r := model_residuals e xs ys popt in
    exists G g ji,
      length popt = length ps0 /\ true_jacobian e xs popt J /\
      normal_eqs RO J (length popt) r = Some (G, g) /\
      (nr G = length popt /\ nc G = length popt /\
       forall a b, a < length popt -> b < length popt ->
         entry G a b = rsum (fun i => nth a (nth i J []) 0 * nth b (nth i J []) 0)%R (length xs)) /\
      option_map (@dat R) (mat_inv RO G) = Some ji /\ length popt <= length r /\
      cov = map (Rmult (dot_raw RO r r / IZR (Z.of_nat (length r - length popt)))) ji /\
      (Spec.Solve.nonsingular (dat G) (nr G) -> Spec.Solve.is_right_inverse (dat G) (nr G) ji).
Proof. intros e xs ys Hc h. exact (lm_tape_covariance_true_jacobian e xs ys Hc h). Qed.

(** ** the run stays in the SUBLEVEL SET of its start point (any residual / Jacobian functions): the hypothesis "no
    zero column in any Jacobian returned" of the unconditional theorems is needed only at points of the start's
    dimension whose residual sum of squares is at most the start's (accepted steps strictly decrease it) *)
Theorem C10_damped_nonsingular_along_sublevel :
  forall (resid : list R -> option (list R)) (jac0 jac1 : list R -> option (list (list R))) (h : lm_hp (T:=R))
         (ps0 r0 : list R),
    resid ps0 = Some r0 ->
    (forall ps J, sublevel resid ps0 r0 ps -> jac0 ps = Some J \/ jac1 ps = Some J ->
       (forall row, In row J -> length row = length ps) /\
       (forall i, i < length ps -> exists row, In row J /\ nth i row 0%R <> 0%R)) ->
    forall (maxsteps : nat) (st0 : lm_state (T:=R)),
    (0 < l_tau h)%R -> lm_init RO resid jac0 h ps0 = Some st0 ->
    damped_nonsingular_along resid jac1 h maxsteps st0.
Proof. exact damped_nonsingular_along_sublevel. Qed.

Theorem C10_lm_result_sublevel :
  forall (resid : list R -> option (list R)) (jac0 jac1 : list R -> option (list (list R))) (h : lm_hp (T:=R))
         (ps0 r0 : list R),
    resid ps0 = Some r0 ->
    (forall ps J, sublevel resid ps0 r0 ps -> jac0 ps = Some J \/ jac1 ps = Some J ->
       (forall row, In row J -> length row = length ps) /\
       (forall i, i < length ps -> exists row, In row J /\ nth i row 0%R <> 0%R)) ->
    forall (maxsteps : nat) (popt cov : list R),
    (0 < l_tau h)%R ->
    lm RO resid jac0 jac1 (mat_solve_vec RO) (fun m => option_map (@dat R) (mat_inv RO m)) h maxsteps ps0 = Some (popt, cov) ->
    exists r J G g ji,
      length popt = length ps0 /\ resid popt = Some r /\ (dot_raw RO r r <= dot_raw RO r0 r0)%R /\
      (jac0 popt = Some J \/ jac1 popt = Some J) /\
      normal_eqs RO J (length popt) r = Some (G, g) /\
      option_map (@dat R) (mat_inv RO G) = Some ji /\ length popt <= length r /\
      cov = map (Rmult (dot_raw RO r r / IZR (Z.of_nat (length r - length popt)))) ji /\
      (Spec.Solve.nonsingular (dat G) (nr G) -> Spec.Solve.is_right_inverse (dat G) (nr G) ji).
Proof. exact lm_result_sublevel. Qed.

(** THE COVARIANCE with the true Jacobian, UNCONDITIONAL form: hypotheses on the PROBLEM only - tau > 0, and at every
    parameter vector of the start's dimension whose TRUE residual sum of squares is at most the start's (the sublevel
    set, a statement about the denotation only) the model function is smooth for every abscissa and no column of
    the TRUE Jacobian vanishes (whenever the residual function returns, it returns the residuals of the denotation,
    smooth point or not: C10_lm_residuals_value).  Then the data
    condition holds for every step budget, LM never returns a larger residual sum of squares than the start, and
    the covariance is rss/(n-p) (J^T J)^-1 with J the true Jacobian at the returned point.  The hypothesis "every
    Jacobian returned ..." of C10_lm_never_worse_unconditional / C10_lm_result_unconditional is discharged *)
Theorem C10_lm_tape_data_condition_holds :
  forall (e : expr R) (xs ys : list R), covered e ->
  forall (h : lm_hp (T:=R)) (ps0 : list R),
    (0 < l_tau h)%R ->
    (forall ps, length ps = length ps0 ->
       (dot_raw RO (model_residuals e xs ys ps) (model_residuals e xs ys ps)
        <= dot_raw RO (model_residuals e xs ys ps0) (model_residuals e xs ys ps0))%R ->
       smooth_on e xs ps /\ jacobian_cols_nonzero e xs ps) ->
    forall (maxsteps : nat) (st0 : lm_state (T:=R)),
    lm_init RO (lm_resid RO e xs ys) (lm_jac0 RO e xs) h ps0 = Some st0 ->
    damped_nonsingular_along (lm_resid RO e xs ys) (lm_jac1 RO e xs) h maxsteps st0.
Proof.
  intros e xs ys Hc h ps0 Htau Hyp.
  exact (lm_tape_damped_nonsingular_along e xs ys Hc h ps0 Htau (fun ps L Hle => proj1 (Hyp ps L Hle)) (fun ps L Hle => proj2 (Hyp ps L Hle))).
Qed.

Theorem C10_lm_covariance_true_jacobian_unconditional :
  forall (e : expr R) (xs ys : list R), covered e ->
  forall (h : lm_hp (T:=R)) (ps0 : list R),
    (0 < l_tau h)%R ->
    (forall ps, length ps = length ps0 ->
       (dot_raw RO (model_residuals e xs ys ps) (model_residuals e xs ys ps)
        <= dot_raw RO (model_residuals e xs ys ps0) (model_residuals e xs ys ps0))%R ->
       smooth_on e xs ps /\ jacobian_cols_nonzero e xs ps) ->
    forall (maxsteps : nat) (popt cov : list R),
    lm RO (lm_resid RO e xs ys) (lm_jac0 RO e xs) (lm_jac1 RO e xs)
       (mat_solve_vec RO) (fun m => option_map (@dat R) (mat_inv RO m)) h maxsteps ps0 = Some (popt, cov) ->
    let J := model_jacobian e xs popt in
    let r := model_residuals e xs ys popt in
    (dot_raw RO r r <= dot_raw RO (model_residuals e xs ys ps0) (model_residuals e xs ys ps0))%R /\
    exists G g ji,
      length popt = length ps0 /\ true_jacobian e xs popt J /\
      normal_eqs RO J (length popt) r = Some (G, g) /\
      (nr G = length popt /\ nc G = length popt /\
       forall a b, a < length popt -> b < length popt ->
         entry G a b = rsum (fun i => nth a (nth i J []) 0 * nth b (nth i J []) 0)%R (length xs)) /\
      option_map (@dat R) (mat_inv RO G) = Some ji /\ length popt <= length r /\
      cov = map (Rmult (dot_raw RO r r / IZR (Z.of_nat (length r - length popt)))) ji /\
      (Spec.Solve.nonsingular (dat G) (nr G) -> Spec.Solve.is_right_inverse (dat G) (nr G) ji).
Proof.
  intros e xs ys Hc h ps0 Htau Hyp.
  exact (lm_tape_unconditional e xs ys Hc h ps0 Htau (fun ps L Hle => proj1 (Hyp ps L Hle)) (fun ps L Hle => proj2 (Hyp ps L Hle))).
Qed.

(** Example, the two-parameter exponential model f((a, b), x) = a * exp(b * x): covered, smooth on R^2 for every
    abscissa, true Jacobian row (exp(b x), a x exp(b x)); with the data (0, 1), (1, 2), (2, 4) and the start (1, 0)
    (rss 10) the hypotheses of the unconditional theorem hold - on the sublevel set a <> 0, because the rss at a = 0 is
    21, although the column of b DOES vanish at a = 0 (so the hypothesis of C10_lm_result_unconditional, which
    quantifies over every point, fails for this model and the sublevel form is the applicable one) - and its
    conclusion reads *)
Theorem C10_lm_exponential_model_example :
  let e := EMul (EPar 0) (EFn UExp (EMulC (EPar 1) (CDat 0 0))) in
  let xs := [0; 1; 2]%R in let ys := [1; 2; 4]%R in let p0 := [1; 0]%R in
  (covered e /\
   (forall (x : R) (ps : list R), den e ((x :: nil) :: nil) ps [] = (nth 0 ps 0 * exp (nth 1 ps 0 * x))%R) /\
   (forall xs' ps, length ps = 2 -> smooth_on e xs' ps) /\
   (forall (xs' : list R) (a b : R),
      model_jacobian e xs' [a; b] = map (fun x => [exp (b * x); a * (x * exp (b * x))]%R) xs')) /\
  (forall ps, length ps = 2 ->
     (dot_raw RO (model_residuals e xs ys ps) (model_residuals e xs ys ps)
      <= dot_raw RO (model_residuals e xs ys p0) (model_residuals e xs ys p0))%R ->
     jacobian_cols_nonzero e xs ps) /\
  ~ jacobian_cols_nonzero e xs [0; 0]%R /\
  (forall (h : lm_hp (T:=R)) (maxsteps : nat) (popt cov : list R),
     (0 < l_tau h)%R ->
     lm RO (lm_resid RO e xs ys) (lm_jac0 RO e xs) (lm_jac1 RO e xs)
        (mat_solve_vec RO) (fun m => option_map (@dat R) (mat_inv RO m)) h maxsteps p0 = Some (popt, cov) ->
     exists a b, popt = [a; b] /\
       (dot_raw RO (model_residuals e xs ys popt) (model_residuals e xs ys popt) <= 10)%R /\
       model_jacobian e xs popt
         = [[exp (b * 0); a * (0 * exp (b * 0))]; [exp (b * 1); a * (1 * exp (b * 1))];
            [exp (b * 2); a * (2 * exp (b * 2))]]%R /\
       exists G g ji,
         normal_eqs RO (model_jacobian e xs popt) 2 (model_residuals e xs ys popt) = Some (G, g) /\
         option_map (@dat R) (mat_inv RO G) = Some ji /\
         cov = map (Rmult (dot_raw RO (model_residuals e xs ys popt) (model_residuals e xs ys popt)
                           / IZR (Z.of_nat (3 - 2)))) ji).
Proof.
  cbv zeta. split; [|split; [|split]].
  - split; [exact exp_model_covered|]. split; [exact exp_model_den|]. split; [exact exp_model_smooth|exact exp_model_jacobian].
  - exact exp_example_cols.
  - exact exp_example_col_vanishes.
  - exact lm_exponential_example.
Qed.

(** ** Tie A: the convergence measure shared by Adam and SGD is the source (regenerated from src/optimize/mod.rs on every run by
    tools/tiea/optim_helpers.py): `rel_change(new, old)` = |new - old| / min(|new|, |old|), or the absolute change when either value is
    exactly zero -- the term [converged] of the Adam / SGD models applies to every pair of consecutive iterates. *)
From Compute Require Import Generated.optim_helpers Proofs.TieA_optim_helpers.
Theorem C10_model_is_source_rel_change :
  forall (T : Type) (O : Ops T) (new old : T), src_rel_change O new old = rel_change O new old.
Proof. exact @tiea_rel_change. Qed.
