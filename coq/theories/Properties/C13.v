(** * C13 — autocovariance / autocorrelation, differencing, AR fit and forecasts.
    Statements only; proofs are in Proofs/C13_*.v.  [RO] is the carrier of exact real
    arithmetic; the same Gallina terms run on binary64 in Corr/C13.v.

    The inner linear solve of [AR::fit] (the crate's [invert_matrix], property C01) is the
    parameter [inv] of the model.  Theorems that need it to be correct take
    [forall n A Ai, length A = n*n -> inv A = Some Ai -> right_inverse n A Ai]
    as an explicit hypothesis, to be discharged by C01's theorem.

    COMPOSED WITH C01 (last section, theorems [C13_..._composed]; proofs in Proofs/C13_compose.v): [inv] is
    instantiated by C01's model of [invert_matrix] ([slice_invert], Model/SolveInst.v) and that hypothesis
    is discharged from C01's theorems.  Those theorems assume nothing about the inner solve; what remains
    is a condition on the data alone: the p x p Toeplitz matrix of the autocorrelations has a left inverse
    ([Spec.Solve.nonsingular]; implied by positive definiteness; for p = 1, 2 by a nonzero variance).

    UNCONDITIONAL (last section; proofs in Proofs/C13_toeplitz.v): that data condition is PROVED for every order
    p >= 1 from a nonzero variance (= not all values equal): the Toeplitz matrix of the autocorrelations is
    positive definite (Gram representation by the shifts of the zero-padded centred series), so the composed fit
    theorem holds with no hypothesis other than a positive order and a nonconstant series. *)
From Coq Require Import Reals List Arith ZArith Bool.
From Compute Require Import Base.Ops Base.ListMat Model.Reduce Model.MatMul Model.TimeSeries Model.SolveInst
  Spec.TimeSeries Proofs.C13_base Proofs.C13_acf Proofs.C13_ar Proofs.C13_conv Proofs.C13_ar1 Proofs.C13_total Proofs.C13_examples
  Proofs.C13_compose Proofs.C13_toeplitz.
From Compute Require Spec.Factor Spec.Solve.
Import ListNotations.
Local Open Scope R_scope.

(** ** autocovariance and autocorrelation: the biased-estimator definitions, every series, every lag *)
Theorem C13_acovf_def : forall (x : list R) (k : Z), acovf RO x k = acov x k.
Proof. exact acovf_def. Qed.

Theorem C13_acf_def : forall (x : list R) (k : Z), acf RO x k = acov x k / acov x 0.
Proof. exact acf_def. Qed.

(** even in the lag — on every carrier, hence bit for bit on binary64 *)
Theorem C13_acf_even :
  forall (T : Type) (O : Ops T) (x : list T) (k : Z),
    acf O x (- k) = acf O x k /\ acovf O x (- k) = acovf O x k.
Proof. intros T O x k. split; [apply acf_even | apply acovf_even]. Qed.

Theorem C13_acf_zero_lag : forall x : list R, acov x 0 <> 0 -> acf RO x 0 = 1.
Proof. exact acf_zero_lag. Qed.

(** never exceeds 1 in magnitude: every series, every lag, no side condition *)
Theorem C13_acf_bounded : forall (x : list R) (k : Z), Rabs (acf RO x k) <= 1.
Proof. exact acf_bounded. Qed.

Theorem C13_acovf_bounded : forall (x : list R) (k : Z), Rabs (acovf RO x k) <= acovf RO x 0.
Proof. exact acovf_bounded. Qed.

Theorem C13_lag_beyond_length_zero :
  forall (x : list R) (k : Z),
    (Z.of_nat (length x) <= Z.abs k)%Z -> acovf RO x k = 0 /\ acf RO x k = 0.
Proof. exact lag_beyond_length_zero. Qed.

Theorem C13_acf_shift_invariant :
  forall (c : R) (x : list R) (k : Z),
    acf RO (map (fun v => v + c) x) k = acf RO x k /\
    acovf RO (map (fun v => v + c) x) k = acovf RO x k.
Proof. intros c x k. split; [apply acf_shift_invariant | apply acovf_shift_invariant]. Qed.

(** ** differencing is the inverse of cumulative summation (both ways); the empty vector is rejected *)
Theorem C13_difference_cumsum :
  forall (x0 : R) (x : list R), difference RO (cumsum x0 x) = Some x.
Proof. exact difference_cumsum. Qed.

Theorem C13_cumsum_difference :
  forall (v d : list R), difference RO v = Some d -> cumsum (hd 0 v) d = v.
Proof. exact cumsum_difference. Qed.

Theorem C13_difference_rejects_empty :
  forall (T : Type) (O : Ops T), difference O [] = None.
Proof. exact @difference_empty. Qed.

(** ** the fit *)

(** the stored coefficients, read backwards ([coeffs[p-1]] is phi_1), solve the Yule-Walker
    equations of the series' autocorrelations, and the intercept is the series mean — provided
    the inner routine returns a right inverse whenever it returns *)
Theorem C13_fit_solves_yule_walker :
  forall inv : list R -> option (list R),
    (forall n A Ai, length A = (n * n)%nat -> inv A = Some Ai -> right_inverse n A Ai) ->
    forall (p : nat) (data coeffs : list R) (mu : R),
      ar_new_fit RO inv p data = Some (coeffs, mu) ->
      yule_walker (fun t => acorr data (Z.of_nat t)) p (rev coeffs) /\ mu = smean data.
Proof. exact fit_solves_yule_walker. Qed.

(** acceptance: positive order and an inner result of the right size => a state with p
    coefficients (the inner result times the autocorrelations 1..p) and intercept = mean *)
Theorem C13_fit_accepts :
  forall (inv : list R -> option (list R)) (p : nat) (data rinv : list R),
    (0 < p)%nat -> inv (fit_inv_arg RO p data) = Some rinv -> length rinv = (p * p)%nat ->
    exists c, ar_new_fit RO inv p data = Some (c, smean data) /\ length c = p /\
      forall j, (j < p)%nat ->
        nth j (rev c) 0
        = Rsum (map (fun k => nth (j * p + k) rinv 0 * acorr data (Z.of_nat (S k))) (seq 0 p)).
Proof. exact fit_accepts. Qed.

(** the argument handed to the inner routine is the p x p Toeplitz matrix of the autocorrelations *)
Theorem C13_fit_inner_argument :
  forall (p : nat) (data : list R),
    length (fit_inv_arg RO p data) = (p * p)%nat /\
    forall i j, (i < p)%nat -> (j < p)%nat ->
      nth (i * p + j) (fit_inv_arg RO p data) 0 = acorr data (Z.of_nat (adiff i j)).
Proof. intros p data. split; [apply fit_inv_arg_length | apply nth_fit_inv_arg]. Qed.

(** rejection: order 0 ([AR::new] asserts p > 0); a panic of the inner routine propagates *)
Theorem C13_fit_rejects :
  forall (T : Type) (O : Ops T) (inv : list T -> option (list T)) (p : nat) (data : list T),
    ar_new_fit O inv 0 data = None /\
    (inv (fit_inv_arg O p data) = None -> ar_new_fit O inv p data = None).
Proof. intros T O inv p data. split; [reflexivity | apply fit_inner_panic]. Qed.

(** adding a constant to the series leaves the coefficients unchanged and adds it to the intercept *)
Theorem C13_fit_shift_invariant :
  forall (inv : list R -> option (list R)) (p : nat) (s : R) (data : list R),
    data <> [] ->
    ar_new_fit RO inv p (map (fun v => v + s) data)
    = option_map (fun st => (fst st, snd st + s)) (ar_new_fit RO inv p data).
Proof. exact fit_shift_invariant. Qed.

(** ** forecasts *)

(** one step: intercept + Σ_i phi_i (x_{t-i} - intercept), for EVERY history length (missing
    older observations count as being at the intercept) *)
Theorem C13_predict_one_is_centred_recursion :
  forall (coeffs : list R) (mu : R) (data : list R),
    predict_one RO coeffs mu data = Some (ar_next (rev coeffs) (map (fun v => v - mu) data) + mu).
Proof. exact predict_one_RO. Qed.

(** h steps: the intercept plus the AR recursion applied to the mean-centred history; a history
    shorter than the order is rejected *)
Theorem C13_forecast_is_centred_recursion :
  forall (coeffs : list R) (mu : R) (data : list R) (h : nat),
    predict RO coeffs mu data h =
    if (length coeffs <=? length data)%nat
    then Some (map (fun zv => zv + mu) (ar_forecast (rev coeffs) (map (fun v => v - mu) data) h))
    else None.
Proof. exact forecast_is_centred_recursion. Qed.

Theorem C13_predict_rejects_short_history :
  forall (T : Type) (O : Ops T) (coeffs : list T) (mu : T) (data : list T) (h : nat),
    (length data < length coeffs)%nat -> predict O coeffs mu data h = None.
Proof. exact @predict_short_history. Qed.

Theorem C13_predict_first_is_predict_one :
  forall (coeffs : list R) (mu : R) (data : list R),
    (length coeffs <= length data)%nat ->
    predict RO coeffs mu data 1 = option_map (fun v => [v]) (predict_one RO coeffs mu data).
Proof. exact predict_first_is_predict_one. Qed.

(** adding a constant to the series (and to the intercept) adds it to every forecast *)
Theorem C13_forecast_shift_equivariant :
  forall (coeffs : list R) (mu s : R) (data : list R) (h : nat),
    predict RO coeffs (mu + s) (map (fun v => v + s) data) h
    = option_map (map (fun v => v + s)) (predict RO coeffs mu data h) /\
    predict_one RO coeffs (mu + s) (map (fun v => v + s) data)
    = option_map (fun v => v + s) (predict_one RO coeffs mu data).
Proof. intros. split; [apply forecast_shift_equivariant | apply predict_one_shift_equivariant]. Qed.

(** the two-run relation of the property: fit the series and the shifted series, forecast both *)
Theorem C13_fit_forecast_shift_equivariant :
  forall (inv : list R -> option (list R)) (p : nat) (s : R) (data coeffs : list R) (mu : R) (h : nat),
    data <> [] ->
    ar_new_fit RO inv p data = Some (coeffs, mu) ->
    ar_new_fit RO inv p (map (fun v => v + s) data) = Some (coeffs, mu + s) /\
    predict RO coeffs (mu + s) (map (fun v => v + s) data) h
    = option_map (map (fun v => v + s)) (predict RO coeffs mu data h).
Proof. exact fit_forecast_shift_equivariant. Qed.

(** ** ext: AR(1) forecasts are mean + phi^h (last - mean) and converge to the mean when |phi| < 1 *)
Theorem C13_ar1_forecast_closed_form :
  forall (phi mu : R) (l : list R) (xl : R) (h k : nat) (f : list R),
    (k < h)%nat -> predict RO [phi] mu (l ++ [xl]) h = Some f ->
    nth k f 0 = mu + phi ^ (S k) * (xl - mu).
Proof. exact ar1_forecast_closed_form. Qed.

Theorem C13_ar1_forecast_converges :
  forall (phi mu : R) (data : list R),
    Rabs phi < 1 -> data <> [] ->
    forall eps, 0 < eps -> exists N, forall h k f,
      (N <= k < h)%nat -> predict RO [phi] mu data h = Some f -> Rabs (nth k f 0 - mu) < eps.
Proof. exact ar1_forecast_converges. Qed.

(** ** ext, every order p: convergence of the forecasts.

    FULL clause of the property, NOT proved (it needs the spectral theory of the companion matrix):
      "forecasts of a stationary fit converge to the series mean", i.e.
      (forall z : complex, 1 - phi_1 z - ... - phi_p z^p = 0 -> 1 < |z|) ->
      forall eps > 0, exists N, forall h k f, N <= k < h ->
        predict RO coeffs mu data h = Some f -> |nth k f 0 - mu| < eps.
    Proved: the same conclusion under the sufficient condition Σ|phi_i| < 1 (a contraction of the
    window maximum), with the explicit rate (Σ|phi_i|)^(k/p + 1). *)
Theorem C13_forecast_contraction_bound_partial :
  forall (coeffs : list R) (mu : R) (data : list R) (h k : nat) (f : list R),
    coeffs <> [] -> Rsum (map Rabs coeffs) <= 1 ->
    (k < h)%nat -> predict RO coeffs mu data h = Some f ->
    Rabs (nth k f 0 - mu)
    <= Rsum (map Rabs coeffs) ^ (S (k / length coeffs)) * Rsum (map Rabs (map (fun v => v - mu) data)).
Proof. exact forecast_contraction_bound. Qed.

Theorem C13_forecast_converges_partial :
  forall (coeffs : list R) (mu : R) (data : list R),
    coeffs <> [] -> Rsum (map Rabs coeffs) < 1 ->
    forall eps, 0 < eps -> exists N, forall h k f,
      (N <= k < h)%nat -> predict RO coeffs mu data h = Some f -> Rabs (nth k f 0 - mu) < eps.
Proof. exact forecast_converges_contraction. Qed.

(** order 1: the fitted coefficient is the lag-1 autocorrelation, so |phi_1| <= 1 *)
Theorem C13_ar1_fit_coefficient :
  forall inv : list R -> option (list R),
    (forall n A Ai, length A = (n * n)%nat -> inv A = Some Ai -> right_inverse n A Ai) ->
    forall (data coeffs : list R) (mu : R),
      acov data 0 <> 0 ->
      ar_new_fit RO inv 1 data = Some (coeffs, mu) ->
      coeffs = [acorr data 1] /\ Rabs (acorr data 1) <= 1.
Proof. exact ar1_fit_coefficient. Qed.

(** ** order 1, complete: no stationarity hypothesis.  The lag-1 autocorrelation of a series with
    nonzero variance is strictly inside (-1, 1); hence every AR(1) fit is stationary and its
    forecasts converge to the series mean. *)
Theorem C13_acf_lag1_strict : forall x : list R, acov x 0 <> 0 -> Rabs (acf RO x 1) < 1.
Proof. exact acf_lag1_strict. Qed.

Theorem C13_ar1_fit_forecasts_converge :
  forall inv : list R -> option (list R),
    (forall n A Ai, length A = (n * n)%nat -> inv A = Some Ai -> right_inverse n A Ai) ->
    forall (data coeffs : list R) (mu : R),
      acov data 0 <> 0 ->
      ar_new_fit RO inv 1 data = Some (coeffs, mu) ->
      mu = smean data /\
      (exists phi, coeffs = [phi] /\ Rabs phi < 1) /\
      forall eps, 0 < eps -> exists N, forall h k f,
        (N <= k < h)%nat -> predict RO coeffs mu data h = Some f -> Rabs (nth k f 0 - mu) < eps.
Proof. exact ar1_fit_forecasts_converge. Qed.

(** ** which calls panic, on EVERY carrier (hence on binary64) *)

(** [predict] returns exactly h forecasts iff the history is at least as long as the coefficient
    vector; otherwise it panics *)
Theorem C13_predict_total :
  forall (T : Type) (O : Ops T) (coeffs : list T) (mu : T) (data : list T) (h : nat),
    if (length coeffs <=? length data)%nat
    then exists f, predict O coeffs mu data h = Some f /\ length f = h
    else predict O coeffs mu data h = None.
Proof. exact @predict_total. Qed.

(** [predict_one] never panics *)
Theorem C13_predict_one_total :
  forall (T : Type) (O : Ops T) (coeffs : list T) (mu : T) (data : list T),
    exists v, predict_one O coeffs mu data = Some v.
Proof. exact @predict_one_total. Qed.

(** [AR::new(p).fit]: the inner routine always receives p*p entries; with a positive order and an
    inner result of p*p entries the fit returns p coefficients and the (unrolled) mean *)
Theorem C13_fit_total :
  forall (T : Type) (O : Ops T) (inv : list T -> option (list T)) (p : nat) (data rinv : list T),
    length (fit_inv_arg O p data) = (p * p)%nat /\
    ((0 < p)%nat -> inv (fit_inv_arg O p data) = Some rinv -> length rinv = (p * p)%nat ->
     exists c, ar_new_fit O inv p data = Some (c, ts_mean O data) /\ length c = p).
Proof. intros T O inv p data rinv. split; [apply fit_inv_arg_length_any | apply fit_total]. Qed.

(** ** composed with C01: the inner solve is C01's model of [invert_matrix], nothing is assumed about it.
    [Spec.Solve.nonsingular a p] : exists c, c.a = I  ([Spec.Factor.mmul c a p i j = delta i j] for i, j < p). *)

(** the matrix handed to [invert_matrix] is exactly symmetric (so both routes of C01 are covered) *)
Theorem C13_fit_inner_argument_symmetric :
  forall (p : nat) (data : list R) (i j : nat),
    (i < p)%nat -> (j < p)%nat ->
    nth (i * p + j) (fit_inv_arg RO p data) 0 = nth (j * p + i) (fit_inv_arg RO p data) 0.
Proof. exact fit_inv_arg_symmetric. Qed.

(** at that matrix, when it is nonsingular, C01's [invert_matrix] returns, and returns the inverse *)
Theorem C13_inner_solve_correct_composed :
  forall (p : nat) (data : list R),
    (0 < p)%nat -> Spec.Solve.nonsingular (fit_inv_arg RO p data) p ->
    exists Ai, slice_invert RO (fit_inv_arg RO p data) = Some Ai /\ right_inverse p (fit_inv_arg RO p data) Ai.
Proof. exact invert_at_arg. Qed.

(** a returned fit solves the Yule-Walker equations *)
Theorem C13_fit_solves_yule_walker_composed :
  forall (p : nat) (data coeffs : list R) (mu : R),
    Spec.Solve.nonsingular (fit_inv_arg RO p data) p ->
    ar_new_fit RO (slice_invert RO) p data = Some (coeffs, mu) ->
    yule_walker (fun t => acorr data (Z.of_nat t)) p (rev coeffs) /\ mu = smean data.
Proof. exact fit_solves_yule_walker_composed. Qed.

(** the headline: positive order and a nonsingular Toeplitz matrix of autocorrelations  =>
    [AR::new(p).fit] (mean, autocorrelations, Toeplitz matrix, C01's [invert_matrix], product) RETURNS p
    coefficients which, read backwards, are THE solution of the Yule-Walker equations; intercept = mean *)
Theorem C13_fit_total_composed :
  forall (p : nat) (data : list R),
    (0 < p)%nat -> Spec.Solve.nonsingular (fit_inv_arg RO p data) p ->
    exists coeffs, ar_new_fit RO (slice_invert RO) p data = Some (coeffs, smean data) /\ length coeffs = p /\
      yule_walker (fun t => acorr data (Z.of_nat t)) p (rev coeffs) /\
      forall phi, yule_walker (fun t => acorr data (Z.of_nat t)) p phi -> phi = rev coeffs.
Proof. exact fit_total_composed. Qed.

(** the data condition: implied by positive definiteness of the Toeplitz matrix ... *)
Theorem C13_toeplitz_positive_definite_suffices :
  forall (p : nat) (data : list R),
    (0 < p)%nat ->
    (forall x : nat -> R, (exists i, (i < p)%nat /\ x i <> 0) ->
       0 < Spec.Factor.rsum (fun a => Spec.Factor.rsum (fun b => x a * Spec.Factor.getm (fit_inv_arg RO p data) p a b * x b) p) p) ->
    Spec.Solve.nonsingular (fit_inv_arg RO p data) p.
Proof. exact toeplitz_pd_nonsingular. Qed.

(** ... and, for orders 1 and 2, by a nonzero variance alone *)
Theorem C13_toeplitz_nonsingular_order_1_2 :
  forall data : list R, acov data 0 <> 0 ->
    Spec.Solve.nonsingular (fit_inv_arg RO 1 data) 1 /\ Spec.Solve.nonsingular (fit_inv_arg RO 2 data) 2.
Proof. intros data Hv. split; [apply toeplitz1_nonsingular | apply toeplitz2_nonsingular]; exact Hv. Qed.

(** order 1, complete and composed: every series with nonzero variance is fitted, the coefficient is the
    lag-1 autocorrelation, strictly inside (-1, 1), and the forecasts converge to the series mean *)
Theorem C13_ar1_fit_forecasts_converge_composed :
  forall data : list R,
    acov data 0 <> 0 ->
    exists phi, ar_new_fit RO (slice_invert RO) 1 data = Some ([phi], smean data) /\
      phi = acorr data 1 /\ Rabs phi < 1 /\
      forall eps, 0 < eps -> exists N, forall h k f,
        (N <= k < h)%nat -> predict RO [phi] (smean data) data h = Some f -> Rabs (nth k f 0 - smean data) < eps.
Proof. exact ar1_fit_forecasts_converge_composed. Qed.

(** the condition is satisfiable on a non-trivial instance, and the composed order-2 fit returns *)
Theorem C13_example_composed :
  Spec.Solve.nonsingular (fit_inv_arg RO 2 [0; 1; 3]) 2 /\
  exists coeffs, ar_new_fit RO (slice_invert RO) 2 [0; 1; 3] = Some (coeffs, smean [0; 1; 3]) /\ length coeffs = 2%nat.
Proof. exact (conj toeplitz_nonsingular_instance fit_composed_instance). Qed.

(** ** the data condition, discharged for EVERY order (proofs in Proofs/C13_toeplitz.v) *)

(** a nonzero biased variance is exactly "not all values of the series are equal" *)
Theorem C13_nonzero_variance_iff_nonconstant :
  forall x : list R,
    acov x 0 <> 0 <-> exists i j, (i < length x)%nat /\ (j < length x)%nat /\ nth i x 0 <> nth j x 0.
Proof. exact acov0_nonzero_iff_nonconstant. Qed.

(** the quadratic form of the autocovariances is a sum of squares: with a = the mean-centred series (0 beyond its
    length) and n its length,  sum_{i,j<p} c_i (sum_u a_u a_{u+|i-j|}) c_j = sum_{t<n+p} (sum_{i<p, i<=t} a_{t-i} c_i)^2 *)
Theorem C13_autocovariance_form_is_gram :
  forall (a : list R) (c : nat -> R) (p : nat),
    Spec.Factor.rsum (fun i => Spec.Factor.rsum (fun j =>
        c i * Rsum (map2 Rmult (skipn (adiff i j) a) a) * c j) p) p
    = Spec.Factor.rsum (fun t =>
        Spec.Factor.rsum (fun i => (if (t <? i)%nat then 0 else nth (t - i) a 0) * c i) p *
        Spec.Factor.rsum (fun i => (if (t <? i)%nat then 0 else nth (t - i) a 0) * c i) p) (length a + p).
Proof. exact lag_form_gram. Qed.

(** every order p, every series that is not constant: the p x p Toeplitz matrix of the autocorrelations
    r(|i-j|) is POSITIVE DEFINITE  (x^T R x > 0 for every x that is not zero on 0..p-1) *)
Theorem C13_toeplitz_positive_definite :
  forall (p : nat) (data : list R),
    acov data 0 <> 0 ->
    forall x : nat -> R, (exists i, (i < p)%nat /\ x i <> 0) ->
      0 < Spec.Factor.rsum (fun a => Spec.Factor.rsum (fun b => x a * Spec.Factor.getm (fit_inv_arg RO p data) p a b * x b) p) p.
Proof. exact toeplitz_positive_definite. Qed.

(** hence nonsingular, for every order *)
Theorem C13_toeplitz_nonsingular_every_order :
  forall (p : nat) (data : list R),
    (0 < p)%nat -> acov data 0 <> 0 -> Spec.Solve.nonsingular (fit_inv_arg RO p data) p.
Proof. exact toeplitz_nonsingular_every_order. Qed.

(** THE FIT, UNCONDITIONALLY: for every order p >= 1 and every series with nonzero variance (of any length, also
    shorter than the order), [AR::new(p).fit] - mean, autocorrelations, Toeplitz matrix, C01's [invert_matrix],
    product - RETURNS p coefficients which, read backwards, are THE solution of the Yule-Walker equations of the
    series' autocorrelations, and the intercept is the series mean.  Nothing is assumed about the inner solve
    and nothing about the data beyond not being constant. *)
Theorem C13_fit_total_unconditional :
  forall (p : nat) (data : list R),
    (0 < p)%nat -> acov data 0 <> 0 ->
    exists coeffs, ar_new_fit RO (slice_invert RO) p data = Some (coeffs, smean data) /\ length coeffs = p /\
      yule_walker (fun t => acorr data (Z.of_nat t)) p (rev coeffs) /\
      forall phi, yule_walker (fun t => acorr data (Z.of_nat t)) p phi -> phi = rev coeffs.
Proof. exact fit_total_unconditional. Qed.

(** the same, with the hypothesis on the data spelled out: two entries differ *)
Theorem C13_fit_total_nonconstant :
  forall (p : nat) (data : list R) (i j : nat),
    (0 < p)%nat -> (i < length data)%nat -> (j < length data)%nat -> nth i data 0 <> nth j data 0 ->
    exists coeffs, ar_new_fit RO (slice_invert RO) p data = Some (coeffs, smean data) /\ length coeffs = p /\
      yule_walker (fun t => acorr data (Z.of_nat t)) p (rev coeffs) /\
      forall phi, yule_walker (fun t => acorr data (Z.of_nat t)) p phi -> phi = rev coeffs.
Proof. exact fit_total_nonconstant. Qed.

(** the hypotheses are satisfiable on a non-trivial instance: order 5 on a series of length 3 *)
Theorem C13_example_unconditional :
  exists coeffs, ar_new_fit RO (slice_invert RO) 5 [0; 1; 3] = Some (coeffs, smean [0; 1; 3]) /\ length coeffs = 5%nat.
Proof. exact fit_unconditional_instance. Qed.

(** ** Tie A: the model IS the source ([acovf], [acf], [difference], [AR::predict_one], [AR::predict]).
    [Generated/ts_loops.v] is regenerated on every run from src/timeseries/{functions,autoregressive}.rs by the
    statement-level translator (tools/rsexpr.py, target tools/tiea/ts_loops.py): iterator chains and loops are folds over
    lists, slices are lists, [usize] lives in [Z] (unsigned [a - b] = the release build's wrapping [rs_usub]), a panic
    (out-of-bounds index or slice, capacity overflow of an allocation) is [None].  For every carrier, operations record
    and input the generated function and the function of Model/TimeSeries.v agree.  [statistics::mean] and [linalg::dot]
    (other files) are parameters of the generated text, instantiated by the models [ts_mean] and [Reduce.dot]; [AR::fit]
    is outside the translator's subset (the target checks on every run that it is still refused). *)
From Compute Require Import Base.RsExpr Generated.ts_loops Proofs.TieA_ts_loops.
(** the checked reads [ts[i]], [ts[i - |k|]] over [|k| .. n] are in bounds: the source never panics, for any lag *)
Theorem C13_model_is_source_acovf :
  forall (T : Type) (O : Ops T) (ts : list T) (k : Z), src_acovf O (ts_mean O) ts k = Some (acovf O ts k).
Proof. exact @tiea_acovf. Qed.
Theorem C13_model_is_source_acf :
  forall (T : Type) (O : Ops T) (ts : list T) (k : Z), src_acf O (ts_mean O) ts k = Some (acf O ts k).
Proof. exact @tiea_acf. Qed.
(** the empty vector panics through the wrapped [0 - 1] and the first out-of-bounds read *)
Theorem C13_model_is_source_difference :
  forall (T : Type) (O : Ops T) (v : list T), src_difference O v = difference O v.
Proof. exact @tiea_difference. Qed.
Theorem C13_model_is_source_predict_one :
  forall (T : Type) (O : Ops T) (coeffs : list T) (intercept : T) (data : list T),
    src_predict_one O (dot O) coeffs intercept data = predict_one O coeffs intercept data.
Proof. exact @tiea_predict_one. Qed.
(** the loop that overwrites slot [i] of the zero-padded vector with [predict_one(&d[..i])] is the model's loop that
    appends; a history shorter than the coefficient vector panics (out-of-bounds slice after the wrapped subtraction).
    [n] forecasts pass the allocation's capacity check (2^60 f64s) and the number of coefficients is a [usize]. *)
Theorem C13_model_is_source_predict :
  forall (T : Type) (O : Ops T) (coeffs : list T) (intercept : T) (data : list T) (n : nat),
    (Z.of_nat n <= 1152921504606846975)%Z -> (Z.of_nat (length coeffs) < 18446744073709551616)%Z ->
    src_predict O (dot O) coeffs intercept data (Z.of_nat n) = predict O coeffs intercept data n.
Proof. exact @tiea_predict. Qed.

(** ** Tie A for [AR::fit] and [AR::new] (regenerated from src/timeseries/autoregressive.rs on every run by
    tools/tiea/ar_fit_loops.py).  [src_fit] is the method translated statement for statement; the fields (p, coeffs, intercept)
    of [self] are its first three arguments and, [fit] being a [&mut self] method, its result.  The routines of other files it
    calls are abstract parameters of the generated text, instantiated by their models: [ts_mean] ([statistics::mean]),
    [acf_opt] = [acf] (C13_model_is_source_acf: it never panics), [toeplitz_opt] = [toeplitz] (C15_model_is_source_toeplitz),
    [matmul_z] = [matmul] (C05_model_is_source_matmul) and [inv] = [invert_matrix], in which the model is parametric as well
    (any function).  The previous contents of the fields do not matter. *)
From Compute Require Import Generated.ar_fit_loops Proofs.TieA_ar_fit_loops.
Theorem C13_model_is_source_fit :
  forall (T : Type) (O : Ops T) (inv : list T -> option (list T)) (p : nat) (coeffs0 : list T) (intercept0 : T) (data : list T),
    ar_fit_loops.src_fit O (ts_mean O) (acf_opt O) (toeplitz_opt O) inv (matmul_z O) (Z.of_nat p) coeffs0 intercept0 data
    = option_map (fun '(c, mu) => (Z.of_nat p, c, mu)) (ar_fit O inv p data).
Proof. exact @tiea_ar_fit. Qed.
(** [AR::new(p)]: [assert!(p > 0)], then [p] zero coefficients (below the allocation limit of 2^60 - 1 cells) and a zero intercept *)
Theorem C13_model_is_source_new :
  forall (T : Type) (O : Ops T) (p : nat), (Z.of_nat p <= 1152921504606846975)%Z ->
    ar_fit_loops.src_new O (Z.of_nat p) = if 0 <? p then Some (Z.of_nat p, repeat (zero O) p, zero O) else None.
Proof. exact @tiea_ar_new. Qed.
(** the constructor followed by [fit] is [ar_new_fit], the function the correspondence check runs *)
Theorem C13_model_is_source_new_fit :
  forall (T : Type) (O : Ops T) (inv : list T -> option (list T)) (p : nat) (data : list T), (Z.of_nat p <= 1152921504606846975)%Z ->
    (let* (p', c0, i0) := ar_fit_loops.src_new O (Z.of_nat p) in
     ar_fit_loops.src_fit O (ts_mean O) (acf_opt O) (toeplitz_opt O) inv (matmul_z O) p' c0 i0 data)
    = option_map (fun '(c, mu) => (Z.of_nat p, c, mu)) (ar_new_fit O inv p data).
Proof. exact @tiea_ar_new_fit. Qed.
