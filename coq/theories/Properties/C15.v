(** * C15 — shape operations, constructors and predicates.
    Statements only; proofs in Proofs/C15*.v.  The structural theorems hold for an arbitrary carrier [T]
    (no law of arithmetic is used), hence bit for bit on binary64; grids and rotations are stated on [RO]. *)
From Coq Require Import List Arith ZArith Bool Reals.
From Compute Require Import Base.Ops Base.ListMat Model.Shape Spec.Shape
  Proofs.C15 Proofs.C15Step Proofs.C15Top Proofs.C15Ctors Proofs.C15Real Proofs.C15Preds Proofs.C15Empty.
Import ListNotations.

(** Core: for EVERY sequence of structural operations, started in a well-formed state, the concrete state
    {nrows; ncols; flat data} keeps [nrows * ncols = length data] (and positive dimensions) and denotes exactly
    the rows the plain rows-of-lists reference model holds, with the same observed outputs; and the run panics
    exactly when the reference says the request is impossible. *)
Theorem C15_run_refines :
  forall (T : Type) (O : Ops T) (ops : list op) (m : mat T), Inv m ->
    match run O m ops with
    | Some (m', outs) => Inv m' /\ ref_run (zero O) (rows_of_mat m) ops = Some (rows_of_mat m', outs)
    | None => ref_run (zero O) (rows_of_mat m) ops = None
    end.
Proof. exact @run_refines. Qed.

Theorem C15_step_refines :
  forall (T : Type) (O : Ops T) (m : mat T) (o : op), Inv m ->
    match step O m o with
    | Some (m', out) => Inv m' /\ ref_step (zero O) (rows_of_mat m) o = Some (rows_of_mat m', out)
    | None => ref_step (zero O) (rows_of_mat m) o = None
    end.
Proof. exact @step_refines. Qed.

(** Impossible shapes are rejected: [reshape_mut], the copying [reshape] and [Matrix::new] on the same data
    agree, and they accept a request (r, c) exactly when there is a shape r' x c' with r' * c' = number of
    elements that agrees with every explicitly given dimension (-1 = inferred; not both inferred). *)
Theorem C15_impossible_shape_rejected :
  forall (T : Type) (m : mat T) (r c : Z), Inv m ->
    (forall m', reshape_mut m r c = Some m' <->
       data m' = data m /\ nrows m' * ncols m' = length (data m) /\
       (r = Z.of_nat (nrows m') \/ r = (-1)%Z) /\ (c = Z.of_nat (ncols m') \/ c = (-1)%Z) /\
       ~ (r = (-1)%Z /\ c = (-1)%Z)) /\
    reshape m r c = reshape_mut m r c /\ new (data m) r c = reshape_mut m r c.
Proof. exact @shape_requests. Qed.

(** [Matrix::new] on non-empty data: an accepted request yields a well-formed state holding the data *)
Theorem C15_new_inv :
  forall (T : Type) (a : list T) (r c : Z) (m : mat T), a <> [] -> new a r c = Some m ->
    Inv m /\
    (data m = a /\ nrows m * ncols m = length a /\
     (r = Z.of_nat (nrows m) \/ r = (-1)%Z) /\ (c = Z.of_nat (ncols m) \/ c = (-1)%Z) /\ ~ (r = (-1)%Z /\ c = (-1)%Z)).
Proof. exact @new_inv. Qed.

Theorem C15_new_rejects :
  forall (T : Type) (a : list T) (r c : Z), a <> [] ->
    (new a r c = None <->
     forall m' : mat T, ~ (data m' = a /\ nrows m' * ncols m' = length a /\
       (r = Z.of_nat (nrows m') \/ r = (-1)%Z) /\ (c = Z.of_nat (ncols m') \/ c = (-1)%Z) /\ ~ (r = (-1)%Z /\ c = (-1)%Z))).
Proof. exact @new_rejects. Qed.

(** ** The struct invariant alone, the empty matrix, zero and negative dimensions.
    [C15_run_refines] is about positive shapes ([Inv]); the empty matrix 0 x 0 of [Matrix::empty()] -- which the repaired
    [reshape_mut] / [Matrix::new] accept as the request (0, 0) on empty data -- and the degenerate shapes 0 x c / r x 0
    that an inferred dimension produces on empty data are outside it (a list of rows cannot carry the column count of a
    matrix without rows).  For them: *)

(** [nrows * ncols = data.len()] is preserved by every operation sequence from EVERY state that has it, any shape *)
Theorem C15_run_preserves_invariant :
  forall (T : Type) (O : Ops T) (ops : list op) (m m' : mat T) (outs : list (list T)),
    nrows m * ncols m = length (data m) -> run O m ops = Some (m', outs) -> nrows m' * ncols m' = length (data m').
Proof. exact @run_wf. Qed.
Theorem C15_step_preserves_invariant :
  forall (T : Type) (O : Ops T) (m : mat T) (o : op) (m' : mat T) (out : list T),
    nrows m * ncols m = length (data m) -> step O m o = Some (m', out) -> nrows m' * ncols m' = length (data m').
Proof. exact @step_wf. Qed.

(** every operation on the empty matrix, as a table ([Spec.Shape.empty_step]): reshapes to 0 x 0 and concatenation with
    the empty matrix return it, repetition returns it, the diagonal is empty, an inferred dimension gives 0 x c / r x 0,
    everything else panics (transposition: division by zero in [utils::is_matrix]) *)
Theorem C15_empty_matrix_steps :
  forall (T : Type) (O : Ops T) (o : op), step O (mkMat 0 0 (@nil T)) o = empty_step o.
Proof. exact @step_on_empty. Qed.

(** a request with a zero dimension is accepted exactly as 0 x 0 on a matrix without elements (by [reshape_mut],
    [Matrix::new] and the copying [reshape] alike), and then yields the 0 x 0 matrix; for EVERY state *)
Theorem C15_zero_dimension_requests :
  forall (T : Type) (m : mat T) (r c : Z), (r = 0 \/ c = 0)%Z ->
    reshape_mut m r c = (if ((r =? 0) && (c =? 0))%Z && (nrows m * ncols m =? 0) then Some (mkMat 0 0 (data m)) else None) /\
    new (data m) r c = (if ((r =? 0) && (c =? 0))%Z && (length (data m) =? 0) then Some (mkMat 0 0 (data m)) else None) /\
    reshape m r c = (if ((r =? 0) && (c =? 0))%Z && (length (data m) =? 0) then Some (mkMat 0 0 (data m)) else None).
Proof. exact @zero_dimension_requests. Qed.
(** a negative dimension other than -1 is always refused *)
Theorem C15_negative_dimension_requests :
  forall (T : Type) (m : mat T) (r c : Z), (r < -1 \/ c < -1)%Z -> reshape_mut m r c = None /\ new (data m) r c = None.
Proof. exact @negative_dimension_requests. Qed.
(** [Matrix::new] on no elements: 0 x 0, or 0 x c / r x 0 through an inferred dimension, nothing else *)
Theorem C15_new_on_empty_data :
  forall (T : Type) (r c : Z),
    new (@nil T) r c =
    if ((r =? 0) && (c =? 0))%Z then Some (mkMat 0 0 [])
    else if ((r =? -1) && (0 <? c))%Z then Some (mkMat 0 (Z.to_nat c) [])
    else if ((c =? -1) && (0 <? r))%Z then Some (mkMat (Z.to_nat r) 0 [])
    else None.
Proof. exact @new_on_empty_data. Qed.
Example C15_example_empty_program :
  run RO (mkMat 0 0 []) [OReshapeMut 0 0; OHrepeat 3; ODiag; OVcat [] 0 0; OReshapeMut (-1) 3; OGetCol 1]
  = Some (mkMat 0 3 [], [[]; []; []; []; []; []]) /\
  run RO (mkMat 0 0 []) [OT] = None /\ run RO (mkMat 0 0 []) [OReshapeMut 0 3] = None /\
  run RO (mkMat 2 1 [1; 2]%R) [OReshapeMut 0 0] = None.
Proof. repeat split. Qed.

(** ** Constructors (any carrier) *)
Theorem C15_zeros_def : forall (T : Type) (O : Ops T) (r c : nat), 0 < r -> 0 < c ->
  zeros O r c = Some (mkMat r c (repeat (zero O) (r * c))).
Proof. exact @zeros_def. Qed.
Theorem C15_ones_def : forall (T : Type) (O : Ops T) (r c : nat), 0 < r -> 0 < c ->
  ones O r c = Some (mkMat r c (repeat (one O) (r * c))).
Proof. exact @ones_def. Qed.
(** a zero dimension is refused -- except 0 x 0.  (This theorem used to say [r = 0 \/ c = 0 -> None]: it described the
    original [reshape_mut], which refused every zero dimension and thereby made every value-returning operator panic
    on [Matrix::empty()] -- the repaired C04 finding [empty-matrix:value-form-panics]; restated for the repaired code.) *)
Theorem C15_zeros_ones_reject : forall (T : Type) (O : Ops T) (r c : nat), r = 0 \/ c = 0 -> ~ (r = 0 /\ c = 0) ->
  zeros O r c = None /\ ones O r c = None.
Proof. exact @zeros_ones_reject. Qed.
Theorem C15_zeros_ones_empty : forall (T : Type) (O : Ops T),
  zeros O 0 0 = Some (mkMat 0 0 []) /\ ones O 0 0 = Some (mkMat 0 0 []).
Proof. exact @zeros_ones_empty. Qed.
Theorem C15_eye_zero : forall (T : Type) (O : Ops T), eye O 0 = Some (mkMat 0 0 []).
Proof. exact @eye_zero. Qed.

Theorem C15_eye_def : forall (T : Type) (O : Ops T) (n : nat), 0 < n ->
  exists a, eye O n = Some (mkMat n n a) /\ length a = n * n /\
            forall i j, i < n -> j < n -> nth (i * n + j) a (zero O) = if i =? j then one O else zero O.
Proof. exact @eye_def. Qed.

Theorem C15_diag_matrix_def : forall (T : Type) (O : Ops T) (a : list T), let n := length a in
  length (diag_matrix O a) = n * n /\
  forall i j, i < n -> j < n -> nth (i * n + j) (diag_matrix O a) (zero O) = if i =? j then nth i a (zero O) else zero O.
Proof. exact @diag_matrix_def. Qed.

(** Toeplitz: entry (i, j) is x[|i - j|]  ([absdiff i j = (i - j) + (j - i)] on naturals) *)
Theorem C15_toeplitz_def : forall (T : Type) (O : Ops T) (x : list T), let n := length x in
  length (toeplitz O x) = n * n /\
  forall i j, i < n -> j < n -> nth (i * n + j) (toeplitz O x) (zero O) = nth ((i - j) + (j - i)) x (zero O).
Proof. exact @toeplitz_def. Qed.

(** Vandermonde: entry (i, j) is x_i^j as computed by [f64::powi] (square-and-multiply) *)
Theorem C15_vandermonde_def : forall (T : Type) (O : Ops T) (x : list T) (n : nat),
  length (vandermonde O x n) = length x * n /\
  forall i j, i < length x -> j < n ->
    nth (i * n + j) (vandermonde O x n) (zero O) = powi O (nth i x (zero O)) (Z.of_nat j).
Proof. exact @vandermonde_def. Qed.

(** design matrix of a row-major rows x k matrix: every row is a one followed by the row of x *)
Theorem C15_design_def : forall (T : Type) (O : Ops T) (x : list T) (rows k : nat), 0 < rows -> length x = rows * k ->
  exists out, design O x rows = Some out /\ length out = rows * (k + 1) /\
    forall i, i < rows -> nth (i * (k + 1)) out (zero O) = one O /\
              forall j, j < k -> nth (i * (k + 1) + 1 + j) out (zero O) = nth (i * k + j) x (zero O).
Proof. exact @design_def. Qed.
Theorem C15_design_rejects : forall (T : Type) (O : Ops T) (x : list T) (rows : nat),
  is_matrix (length x) rows = None -> design O x rows = None.
Proof. exact @design_rejects. Qed.

(** rotations: 3 x 3, clockwise = counter-clockwise transposed (entry by entry, any carrier) *)
Theorem C15_rotation_shape : forall (T : Type) (O : Ops T) (cw : bool) (axis : nat) (angle : T),
  rotation O cw axis angle = Some (mkMat 3 3 (rot_data O cw axis angle)).
Proof. exact @rotation_shape. Qed.
Theorem C15_rotation_cw_ccw_transposed : forall (T : Type) (O : Ops T) (axis : nat) (angle : T) (i j : nat), i < 3 -> j < 3 ->
  nth (i * 3 + j) (rot_data O true axis angle) (zero O) = nth (j * 3 + i) (rot_data O false axis angle) (zero O).
Proof. exact @rotation_cw_ccw_transposed. Qed.

(** ** Grids and rotations on the reals *)
Theorem C15_linspace_def : forall (a b : R) (n : nat), 2 <= n ->
  length (linspace RO a b n) = n /\
  (forall i, i < n -> nth i (linspace RO a b n) 0%R = (a + INR i * ((b - a) / INR (n - 1)))%R) /\
  nth 0 (linspace RO a b n) 0%R = a /\ nth (n - 1) (linspace RO a b n) 0%R = b.
Proof. exact linspace_def. Qed.
Theorem C15_linspace_small : forall a b : R, linspace RO a b 0 = [] /\ linspace RO a b 1 = [a].
Proof. exact linspace_small. Qed.

(** arange: the number of points is the ceiling of (stop - start) / step (0 when that is <= 0) ... *)
Theorem C15_arange_count : forall start stop step : R,
  let q := ((stop - start) / step)%R in
  ((q <= 0)%R -> arange_count RO start stop step = 0) /\
  ((0 < q)%R -> (INR (arange_count RO start stop step) - 1 < q <= INR (arange_count RO start stop step))%R).
Proof. exact arange_count_spec. Qed.
(** ... so the half-open grid [start, stop) is produced exactly: point i exists iff start + i step < stop *)
Theorem C15_arange_points : forall start stop step : R, (0 < step)%R ->
  let n := arange_count RO start stop step in
  length (arange RO start stop step) = n /\
  (forall i, i < n -> nth i (arange RO start stop step) 0%R = (start + INR i * step)%R) /\
  (forall i, i < n <-> (start + INR i * step < stop)%R).
Proof. exact arange_points. Qed.

Theorem C15_rotation_orthogonal : forall (cw : bool) (axis : nat) (angle : R) (i j : nat), i < 3 -> j < 3 ->
  let M := rot_data RO cw axis angle in
  (e9 M 0 i * e9 M 0 j + e9 M 1 i * e9 M 1 j + e9 M 2 i * e9 M 2 j)%R = if i =? j then 1%R else 0%R.
Proof. exact rotation_orthogonal. Qed.
Theorem C15_rotation_det : forall (cw : bool) (axis : nat) (angle : R), det3 (rot_data RO cw axis angle) = 1%R.
Proof. exact rotation_det. Qed.

(** ** Predicates, for every shape *)
Theorem C15_is_square_def : forall (T : Type) (m : mat T), is_square m = true <-> nrows m = ncols m.
Proof. exact @is_square_def. Qed.
Theorem C15_is_upper_triangular_def : forall (T : Type) (O : Ops T) (m : mat T),
  is_upper_triangular O m = true <->
  forall i j, i < nrows m -> j < ncols m -> j < i -> eqb O (nth (i * ncols m + j) (data m) (zero O)) (zero O) = true.
Proof. exact @is_upper_triangular_def. Qed.
Theorem C15_is_lower_triangular_def : forall (T : Type) (O : Ops T) (m : mat T),
  is_lower_triangular O m = true <->
  forall i j, i < nrows m -> j < ncols m -> i < j -> eqb O (nth (i * ncols m + j) (data m) (zero O)) (zero O) = true.
Proof. exact @is_lower_triangular_def. Qed.
Theorem C15_triangular_R : forall m : mat R,
  (is_upper_triangular RO m = true <-> forall i j, i < nrows m -> j < ncols m -> j < i -> nth (i * ncols m + j) (data m) 0%R = 0%R) /\
  (is_lower_triangular RO m = true <-> forall i j, i < nrows m -> j < ncols m -> i < j -> nth (i * ncols m + j) (data m) 0%R = 0%R).
Proof. exact triangular_R. Qed.
Theorem C15_is_symmetric_def : forall (T : Type) (O : Ops T) (m : mat T),
  is_symmetric O m = true <->
  nrows m = ncols m /\ forall i j, i < nrows m -> j < ncols m -> i <= j ->
     sym_differ O (nth (i * ncols m + j) (data m) (zero O)) (nth (j * ncols m + i) (data m) (zero O)) = false.
Proof. exact @is_symmetric_def. Qed.
Theorem C15_is_symmetric_R : forall m : mat R,
  is_symmetric RO m = true <->
  nrows m = ncols m /\ forall i j, i < nrows m -> j < ncols m ->
     (Rabs (nth (i * ncols m + j) (data m) 0 - nth (j * ncols m + i) (data m) 0) <=
      / 4503599627370496 * Rmax (Rabs (nth (i * ncols m + j) (data m) 0)) (Rabs (nth (j * ncols m + i) (data m) 0)))%R.
Proof. exact is_symmetric_R. Qed.
Theorem C15_is_square_u_def : forall len n : nat, is_square_u len = Some n <-> n * n = len.
Proof. exact is_square_u_def. Qed.
Theorem C15_is_design_def : forall (T : Type) (O : Ops T) (a : list T) (nr nc : nat), 0 < nr -> 0 < nc -> length a = nr * nc ->
  exists b, is_design O a nr = Some b /\
    (b = true <-> forall i, i < nr -> differ O (nth (i * nc) a (zero O)) (one O) = false).
Proof. exact @is_design_def. Qed.
Theorem C15_diag_u_def : forall (T : Type) (O : Ops T) (a : list T) (n : nat), length a = n * n ->
  diag_u O a = Some (map (fun i => nth (i * n + i) a (zero O)) (seq 0 n)).
Proof. exact @diag_u_def. Qed.

(** ** Comparisons (reals) *)
Theorem C15_eq_def : forall x y : list R,
  eq_v RO x y = true <->
  length x = length y /\ forall i, i < length x -> (Rabs (nth i x 0 - nth i y 0) <= / 4503599627370496)%R.
Proof. exact eq_v_def. Qed.
Theorem C15_close_to_def : forall (x y : list R) (tol : R),
  close_to_v RO x y tol = true <->
  length x = length y /\ forall i, i < length x -> (rel_diff_R (nth i x 0%R) (nth i y 0%R) <= tol)%R.
Proof. exact close_to_v_def. Qed.
Theorem C15_close_to_sign_safe : forall (x y : list R) (tol : R), (tol < 2)%R ->
  close_to_v RO x y tol = true ->
  length x = length y /\ forall i, i < length x -> ~ (nth i x 0 * nth i y 0 < 0)%R.
Proof. exact close_to_sign_safe. Qed.
Theorem C15_matrix_compare_def : forall (a b : mat R) (tol : R),
  close_to_m RO a b tol = ((nrows a =? nrows b) && (ncols a =? ncols b) && close_to_v RO (data a) (data b) tol) /\
  eq_m RO a b = ((nrows a =? nrows b) && (ncols a =? ncols b) && eq_v RO (data a) (data b)).
Proof. exact matrix_compare_def. Qed.

(** ** Tie A: the dimension logic of the model IS the source ([Matrix::size], [reshape_mut], [reshape]).
    [Generated/shape_loops.v] is regenerated on every run from src/linalg/array/matrix.rs by the statement-level
    translator (tools/rsexpr.py, target tools/tiea/shape_loops.py): the assignments to [self.nrows] / [self.ncols], the
    asserts and the [panic!] of the four-way case split; [i32] / [usize] live in [Z], a panic (assert, zero divisor) is
    [None]; a [&mut self] method is rendered as the fields (nrows, ncols) after the call.  [reshape] ends in
    [Matrix::new], a parameter of the generated text instantiated by the model's [new] ([Matrix::new] itself goes through
    [TryInto] and a [match]: outside the subset, the target checks that it is still refused). *)
From Compute Require Import Base.RsExpr Generated.shape_loops Proofs.TieA_shape_loops.
Theorem C15_model_is_source_size :
  forall (T : Type) (O : Ops T) (nr nc : nat), src_size O (Z.of_nat nr) (Z.of_nat nc) = Z.of_nat (nr * nc).
Proof. exact @tiea_size. Qed.
Theorem C15_model_is_source_reshape_mut :
  forall (T : Type) (O : Ops T) (nr nc : nat) (r c : Z),
    src_reshape_mut O (Z.of_nat nr) (Z.of_nat nc) r c
    = option_map (fun p : nat * nat => (Z.of_nat (fst p), Z.of_nat (snd p))) (reshape_dims (nr * nc) r c).
Proof. exact @tiea_reshape_mut. Qed.
Theorem C15_model_is_source_reshape :
  forall (T : Type) (O : Ops T) (nr nc : nat) (d : list T) (r c : Z),
    src_reshape O (fun a r' c' => option_map (fun m : mat T => (Z.of_nat (nrows m), Z.of_nat (ncols m), data m)) (new a r' c'))
                d (Z.of_nat nr) (Z.of_nat nc) r c
    = option_map (fun m : mat T => (Z.of_nat (nrows m), Z.of_nat (ncols m), data m)) (reshape (mkMat nr nc d) r c).
Proof. exact @tiea_reshape. Qed.

(** ** Tie A for the constructors and slice utilities of utils.rs (tools/tiea/ctor_loops.py, tools/tiea/linalg_loops.py):
    the generated functions are the Rust bodies statement for statement (flat lists, [rs_get] / [rs_set] / [rs_slice], index
    arithmetic in [Z], a panic = [None]); each equals the model of Model/Shape.v for every carrier and every input. *)
From Compute Require Import Base.RsExprMut Generated.ctor_loops Proofs.TieA_linalg_loops Proofs.TieA_ctor_loops.
(** [vec![0.; n * n]] passes the allocation's capacity check (2^60 - 1 cells); every [new[i * n + i] = a[i]] is in bounds *)
Theorem C15_model_is_source_diag_matrix :
  forall (T : Type) (O : Ops T) (a : list T), (Z.of_nat (length a * length a) <= 1152921504606846975)%Z ->
    src_diag_matrix O a = Some (diag_matrix O a).
Proof. exact @tiea_diag_matrix. Qed.
(** the [i32] loop counters, [(i - j).abs() as usize] = the model's [absdiff], all reads and writes in bounds *)
Theorem C15_model_is_source_toeplitz :
  forall (T : Type) (O : Ops T) (x : list T), (Z.of_nat (length x * length x) <= 1152921504606846975)%Z ->
    src_toeplitz O x = Some (toeplitz O x).
Proof. exact @tiea_toeplitz. Qed.
Theorem C15_model_is_source_vandermonde :
  forall (T : Type) (O : Ops T) (x : list T) (n : nat), src_vandermonde O x (Z.of_nat n) = vandermonde O x n.
Proof. exact @tiea_vandermonde. Qed.
(** [is_matrix(x, rows).unwrap()] (zero rows: division by zero) and the slices [&x[i * ncols..(i + 1) * ncols]] *)
Theorem C15_model_is_source_design :
  forall (T : Type) (O : Ops T) (x : list T) (rows : nat), src_design O x (Z.of_nat rows) = design O x rows.
Proof. exact @tiea_design. Qed.
Theorem C15_model_is_source_linspace :
  forall (T : Type) (O : Ops T) (a b : T) (n : nat), src_linspace O a b (Z.of_nat n) = linspace O a b n.
Proof. exact @tiea_linspace. Qed.
(** rule R4 of the translator: [n as usize] for the f64 [n = ceil((stop - start) / step)] is [Z.max 0 (truncZ n)] *)
Theorem C15_model_is_source_arange :
  forall (T : Type) (O : Ops T) (start stop step : T), src_arange O start stop step = arange O start stop step.
Proof. exact @tiea_arange. Qed.
(** the flag loop (no early exit) is the model's [forallb]; an empty matrix with a positive number of rows panics on [m[0]] *)
Theorem C15_model_is_source_is_design :
  forall (T : Type) (O : Ops T) (m : list T) (nr : nat), src_is_design O m (Z.of_nat nr) = is_design O m nr.
Proof. exact @tiea_is_design. Qed.
(** [transpose], [diag], [is_symmetric] on slices (generated text: Generated/linalg_loops.v; [is_square_z] is the crate's
    [is_square], an [f32] square root outside the translated subset, as the models see it) *)
Theorem C15_model_is_source_transpose :
  forall (T : Type) (O : Ops T) (a : list T) (nr : nat),
    Generated.linalg_loops.src_transpose O a (Z.of_nat nr) = transpose_flat O a nr.
Proof. exact @tiea_transpose_flat. Qed.
Theorem C15_model_is_source_diag_u :
  forall (T : Type) (O : Ops T) (a : list T), Generated.linalg_loops.src_diag O is_square_z a = diag_u O a.
Proof. exact @tiea_diag. Qed.
Theorem C15_model_is_source_is_symmetric_u :
  forall (T : Type) (O : Ops T) (m : list T), Generated.linalg_loops.src_is_symmetric O is_square_z m = is_symmetric_u O m.
Proof. exact @tiea_is_symmetric_u. Qed.

(** ** Tie A for the structural methods of [Matrix] beyond reshape (tools/tiea/matrix_loops.py): a method takes the fields
    (data, nrows, ncols) of [self]; a [Matrix] value ([other], results) is [zmat m = (nrows, ncols, data)]; a [&mut self] method
    returns the fields after the call, [zfields m = (data, nrows, ncols)].  [Matrix::new] ([new_z], refused by the translator:
    TryInto + match), [Self::zeros] ([zeros_z]) and utils' [transpose] ([transpose_z], tied above) are parameters of the
    generated text, instantiated by the models.  Where the model reads with a default and the source would panic, the struct
    invariant [in_bounds] ([nrows * ncols <= len(data)], enforced by [Matrix::new]) is a hypothesis.  [apply_along_row] /
    [apply_along_col] ([iter_mut().for_each], [chunks_mut]) are outside the subset (the target checks they are still refused). *)
From Compute Require Import Generated.matrix_loops Proofs.TieA_matrix_loops.
(** [self[i]] = [Index<usize>::index]: the assertion and the checked slice *)
Theorem C15_model_is_source_index :
  forall (T : Type) (O : Ops T) (nr nc : nat) (dat : list T) (i : nat),
    src_index O dat (Z.of_nat nr) (Z.of_nat nc) (Z.of_nat i) = row_slice (mkMat nr nc dat) i.
Proof. exact @tiea_index. Qed.
Theorem C15_model_is_source_get_row :
  forall (T : Type) (O : Ops T) (nr nc : nat) (dat : list T) (i : nat),
    src_get_row_as_vector O dat (Z.of_nat nr) (Z.of_nat nc) (Z.of_nat i) = row_slice (mkMat nr nc dat) i.
Proof. exact @tiea_get_row. Qed.
Theorem C15_model_is_source_get_col :
  forall (T : Type) (O : Ops T) (nr nc : nat) (dat : list T) (j : nat),
    in_bounds (mkMat nr nc dat) = true -> (Z.of_nat nr <= 1152921504606846975)%Z ->
    src_get_col_as_vector O dat (Z.of_nat nr) (Z.of_nat nc) (Z.of_nat j) = get_col O (mkMat nr nc dat) j.
Proof. exact @tiea_get_col. Qed.
Theorem C15_model_is_source_is_square :
  forall (T : Type) (O : Ops T) (nr nc : nat) (dat : list T),
    matrix_loops.src_is_square O dat (Z.of_nat nr) (Z.of_nat nc) = is_square (mkMat nr nc dat).
Proof. exact @tiea_is_square. Qed.
Theorem C15_model_is_source_is_symmetric :
  forall (T : Type) (O : Ops T) (nr nc : nat) (dat : list T), in_bounds (mkMat nr nc dat) = true ->
    matrix_loops.src_is_symmetric O dat (Z.of_nat nr) (Z.of_nat nc) = Some (is_symmetric O (mkMat nr nc dat)).
Proof. exact @tiea_is_symmetric_m. Qed.
Theorem C15_model_is_source_is_upper_triangular :
  forall (T : Type) (O : Ops T) (nr nc : nat) (dat : list T), in_bounds (mkMat nr nc dat) = true ->
    src_is_upper_triangular O dat (Z.of_nat nr) (Z.of_nat nc) = Some (is_upper_triangular O (mkMat nr nc dat)).
Proof. exact @tiea_is_upper_triangular. Qed.
Theorem C15_model_is_source_is_lower_triangular :
  forall (T : Type) (O : Ops T) (nr nc : nat) (dat : list T), in_bounds (mkMat nr nc dat) = true ->
    src_is_lower_triangular O dat (Z.of_nat nr) (Z.of_nat nc) = Some (is_lower_triangular O (mkMat nr nc dat)).
Proof. exact @tiea_is_lower_triangular. Qed.
(** the panic of the out-of-bounds diagonal read is the model's guard on the last index *)
Theorem C15_model_is_source_diag :
  forall (T : Type) (O : Ops T) (nr nc : nat) (dat : list T),
    matrix_loops.src_diag O dat (Z.of_nat nr) (Z.of_nat nc) = diag O (mkMat nr nc dat).
Proof. exact @tiea_diag_m. Qed.
Theorem C15_model_is_source_flat_idx :
  forall (T : Type) (O : Ops T) (nr nc : nat) (dat : list T) (k : nat),
    src_flat_idx O dat (Z.of_nat nr) (Z.of_nat nc) (Z.of_nat k) = flat_idx O (mkMat nr nc dat) k.
Proof. exact @tiea_flat_idx. Qed.
Theorem C15_model_is_source_flat_idx_replace :
  forall (T : Type) (O : Ops T) (nr nc : nat) (dat : list T) (k : nat) (v : T),
    src_flat_idx_replace O dat (Z.of_nat nr) (Z.of_nat nc) (Z.of_nat k) v = option_map zfields (flat_idx_replace (mkMat nr nc dat) k v).
Proof. exact @tiea_flat_idx_replace. Qed.
Theorem C15_model_is_source_t :
  forall (T : Type) (O : Ops T) (nr nc : nat) (dat : list T),
    src_t O new_z (transpose_z O) dat (Z.of_nat nr) (Z.of_nat nc) = option_map zmat (t O (mkMat nr nc dat)).
Proof. exact @tiea_t. Qed.
(** [self.data = Vector::new(t); swap(&mut self.ncols, &mut self.nrows)] *)
Theorem C15_model_is_source_t_mut :
  forall (T : Type) (O : Ops T) (nr nc : nat) (dat : list T),
    src_t_mut O (transpose_z O) dat (Z.of_nat nr) (Z.of_nat nc) = option_map zfields (t_mut O (mkMat nr nc dat)).
Proof. exact @tiea_t_mut. Qed.
Theorem C15_model_is_source_to_vec :
  forall (T : Type) (O : Ops T) (nr nc : nat) (dat : list T), src_to_vec O dat (Z.of_nat nr) (Z.of_nat nc) = data (mkMat nr nc dat).
Proof. exact @tiea_to_vec. Qed.
Theorem C15_model_is_source_hcat :
  forall (T : Type) (O : Ops T) (m o : mat T), in_bounds m = true -> in_bounds o = true ->
    src_hcat O new_z (data m) (Z.of_nat (nrows m)) (Z.of_nat (ncols m)) (zmat o) = option_map zmat (hcat O m o).
Proof. exact @tiea_hcat. Qed.
Theorem C15_model_is_source_vcat :
  forall (T : Type) (O : Ops T) (m o : mat T),
    src_vcat O new_z (data m) (Z.of_nat (nrows m)) (Z.of_nat (ncols m)) (zmat o) = option_map zmat (vcat m o).
Proof. exact @tiea_vcat. Qed.
Theorem C15_model_is_source_hrepeat :
  forall (T : Type) (O : Ops T) (nr nc : nat) (dat : list T) (n : nat), n = 0 \/ in_bounds (mkMat nr nc dat) = true ->
    src_hrepeat O new_z dat (Z.of_nat nr) (Z.of_nat nc) (Z.of_nat n) = option_map zmat (hrepeat (mkMat nr nc dat) n).
Proof. exact @tiea_hrepeat. Qed.
Theorem C15_model_is_source_vrepeat :
  forall (T : Type) (O : Ops T) (nr nc : nat) (dat : list T) (n : nat),
    src_vrepeat O new_z dat (Z.of_nat nr) (Z.of_nat nc) (Z.of_nat n) = option_map zmat (vrepeat (mkMat nr nc dat) n).
Proof. exact @tiea_vrepeat. Qed.
(** the local [m] of [eye] is kept as its three fields; every [m.data[i * dims + i] = 1.] is in bounds *)
Theorem C15_model_is_source_eye :
  forall (T : Type) (O : Ops T) (n : nat), src_eye O (zeros_z O) (Z.of_nat n) = option_map zmat (eye O n).
Proof. exact @tiea_eye. Qed.

(** ** Tie A, fourth round: the approximate comparisons are the source (regenerated from src/linalg/array/vec.rs and
    src/linalg/array/matrix.rs on every run by tools/tiea/compare_loops.py).  [rel_diff] (the private helper of vec.rs, with
    [diff.is_infinite()] = [rs_is_infinite]: [(x == inf) | (x == -inf)]) is the model's term; [Vector::close_to] /
    [PartialEq<Vector>::eq] never panic (both reads are in bounds once the lengths agree) and are the models' [forallb];
    [Matrix::close_to] / [PartialEq<Matrix>::eq] compare [shape()] first. *)
From Compute Require Import Base.RsExprMore Base.RsExprFour Generated.compare_loops Proofs.TieA_compare_loops.
Theorem C15_model_is_source_rel_diff :
  forall (T : Type) (O : Ops T) (x y : T), src_rel_diff O x y = rel_diff O x y.
Proof. exact @tiea_rel_diff. Qed.
Theorem C15_model_is_source_close_to :
  forall (T : Type) (O : Ops T) (x y : list T) (tol : T), src_vector_close_to O x y tol = Some (close_to_v O x y tol).
Proof. exact @tiea_vector_close_to. Qed.
Theorem C15_model_is_source_vector_eq :
  forall (T : Type) (O : Ops T) (x y : list T), src_vector_eq O x y = Some (eq_v O x y).
Proof. exact @tiea_vector_eq. Qed.
Theorem C15_model_is_source_matrix_close_to :
  forall (T : Type) (O : Ops T) (a b : mat T) (tol : T),
    src_matrix_close_to O (data a) (Z.of_nat (nrows a)) (Z.of_nat (ncols a)) (zmat b) tol = Some (close_to_m O a b tol).
Proof. exact @tiea_matrix_close_to. Qed.
Theorem C15_model_is_source_matrix_eq :
  forall (T : Type) (O : Ops T) (a b : mat T),
    src_matrix_eq O (data a) (Z.of_nat (nrows a)) (Z.of_nat (ncols a)) (zmat b) = Some (eq_m O a b).
Proof. exact @tiea_matrix_eq. Qed.
(** the layout conversions of utils.rs ([x = a.to_vec(); x[j * nrows + i] = a[i * ncols + j]] for every i, j) against the loop
    models ([Generated/solve_loops.v], tools/tiea/solve_loops.py; the same generated functions are tied to C01's transposes in
    Properties/C01.v) *)
From Compute Require Import Generated.solve_loops Proofs.TieA_solve_loops.
Theorem C15_model_is_source_row_to_col_major :
  forall (T : Type) (O : Ops T) (a : list T) (nr : nat),
    src_row_to_col_major O (is_matrix_zs (T := T)) a (Z.of_nat nr) = Model.Shape.row_to_col_major O a nr.
Proof. exact @tiea_row_to_col_major_loop. Qed.
Theorem C15_model_is_source_col_to_row_major :
  forall (T : Type) (O : Ops T) (a : list T) (nr : nat),
    src_col_to_row_major O (is_matrix_zs (T := T)) a (Z.of_nat nr) = Model.Shape.col_to_row_major O a nr.
Proof. exact @tiea_col_to_row_major_loop. Qed.
