(** * C11 — factorisations reconstruct the input and have the promised structure.
    Statements only; proofs are in Proofs/C11_*.v (reusable lemmas in Proofs/LinAlgBase.v).
    All theorems are about the generic models of Model/{Subst,Cholesky,LU}.v instantiated at the reals
    ([RO], exact arithmetic); the same terms run on binary64 in the correspondence check.
    Matrices are the flat row-major arrays of the Rust slices: [getm a n i j = nth (i*n+j) a 0]. *)
From Coq Require Import List Arith Bool ZArith QArith Reals Permutation Lia Lra Floats.
From Compute Require Import Base.Ops Base.ListMat Model.Reduce Model.MatMul Model.Subst Model.Cholesky Model.LU
  Spec.Factor Spec.Determinant Proofs.LinAlgBase Proofs.C11_Subst Proofs.C11_Pred Proofs.C11_Chol Proofs.C11_SPD Proofs.C11_LU Proofs.C11_Solve Proofs.C11_Det Proofs.C11_Forms Proofs.C11_Sign
  Proofs.C11_DetLaplace Proofs.C11_DetLU Proofs.C11_DetLeibniz.
Import ListNotations.
Local Open Scope R_scope.

(** ** Triangular solves *)

(** acceptance / rejection: exactly the calls with a square [l] and a right-hand side of matching
    length return a value, of that length *)
Theorem C11_fwd_subst_shape :
  forall l b : list R,
    match is_square (length l) with
    | Some n => if (length b =? n)%nat
                then exists x, forward_substitution RO l b = Some x /\ length x = n
                else forward_substitution RO l b = None
    | None => forward_substitution RO l b = None
    end.
Proof. exact @fwd_subst_shape. Qed.

Theorem C11_bwd_subst_shape :
  forall u b : list R,
    match is_square (length u) with
    | Some n => if (length b =? n)%nat
                then exists x, backward_substitution RO u b = Some x /\ length x = n
                else backward_substitution RO u b = None
    | None => backward_substitution RO u b = None
    end.
Proof. exact @bwd_subst_shape. Qed.

(** forward substitution solves (lower triangle of l).x = b for every order and every nonzero diagonal
    (the routine never reads the strict upper triangle) *)
Theorem C11_fwd_subst_correct :
  forall (l b x : list R) (n : nat),
    forward_substitution RO l b = Some x -> (n * n)%nat = length l ->
    (forall i, (i < n)%nat -> getm l n i i <> 0) ->
    length b = n /\ length x = n /\
    forall i, (i < n)%nat -> rsum (fun k => lower_part l n i k * nth k x 0) n = nth i b 0.
Proof. exact @fwd_subst_correct. Qed.

(** ... hence L.x = b when L is lower triangular *)
Theorem C11_fwd_subst_inverts_triangular :
  forall (l b x : list R) (n : nat),
    forward_substitution RO l b = Some x -> (n * n)%nat = length l ->
    (forall i, (i < n)%nat -> getm l n i i <> 0) -> lower_triangular l n ->
    forall i, (i < n)%nat -> mvec l n x i = nth i b 0.
Proof. exact @fwd_subst_triangular. Qed.

Theorem C11_back_subst_correct :
  forall (u b x : list R) (n : nat),
    backward_substitution RO u b = Some x -> (n * n)%nat = length u ->
    (forall i, (i < n)%nat -> getm u n i i <> 0) ->
    length b = n /\ length x = n /\
    forall i, (i < n)%nat -> rsum (fun k => upper_part u n i k * nth k x 0) n = nth i b 0.
Proof. exact @bwd_subst_correct. Qed.

Theorem C11_back_subst_inverts_triangular :
  forall (u b x : list R) (n : nat),
    backward_substitution RO u b = Some x -> (n * n)%nat = length u ->
    (forall i, (i < n)%nat -> getm u n i i <> 0) -> upper_triangular u n ->
    forall i, (i < n)%nat -> mvec u n x i = nth i b 0.
Proof. exact @bwd_subst_triangular. Qed.

(** the hypotheses are satisfiable: L = [[2,0],[1,4]], b = [2,9] gives x = [1,2] *)
Example C11_fwd_subst_example :
  exists x, forward_substitution QO [2;0;1;4]%Q [2;9]%Q = Some x /\ x = [1;2]%Q.
Proof. eexists; split; vm_compute; reflexivity. Qed.

(** ** Cholesky (after the repairs of D1 and of the absolute symmetry tolerance, made for property C01:
    [cholesky] = [try_cholesky(..).expect(..)], [Matrix::cholesky] asserts every pivot positive) *)

(** acceptance / rejection of [cholesky]: not a square length => panic; an entry pair further apart than
    2^-52 relative to the larger magnitude => panic; otherwise the outcome of the checked sweep *)
Theorem C11_cholesky_shape :
  forall a : list R,
    match is_square (length a) with
    | None => cholesky RO a = None
    | Some n => if is_symmetric_rows RO (unflatten a n n) n
                then cholesky RO a = option_map flatten (try_chol_rows RO false (unflatten a n n) n)
                else cholesky RO a = None
    end.
Proof. exact @cholesky_shape. Qed.

Theorem C11_cholesky_rejects_asymmetric :
  forall (a : list R) (n i j : nat),
    (n * n)%nat = length a -> (i < n)%nat -> (j < n)%nat ->
    sym_tol (getm a n i j) (getm a n j i) < Rabs (getm a n i j - getm a n j i) -> cholesky RO a = None.
Proof. exact @cholesky_rejects_asymmetric. Qed.

(** the main claim, for EVERY order n: a returned factor is lower triangular, has a positive diagonal
    and L.L^T reproduces the lower triangle of A — all of A when A is symmetric.  No hypothesis on the
    pivots is left: a factor is returned only if every pivot passed the [d > 0] test. *)
Theorem C11_chol_reconstructs :
  forall (a l : list R) (n : nat),
    cholesky RO a = Some l -> (n * n)%nat = length a ->
    length l = (n * n)%nat /\ lower_triangular l n /\
    (forall i, (i < n)%nat -> 0 < getm l n i i) /\
    (forall i j, (i < n)%nat -> (j <= i)%nat -> rsum (fun k => getm l n i k * getm l n j k) n = getm a n i j) /\
    (symmetric a n -> forall i j, (i < n)%nat -> (j < n)%nat ->
       rsum (fun k => getm l n i k * getm l n j k) n = getm a n i j).
Proof. exact @chol_reconstructs. Qed.

(** rejection half (D1): a pivot that is not positive makes [cholesky] panic and [try_cholesky] return
    [None] (or panic) — no factor with a zero or NaN diagonal is ever returned *)
Theorem C11_chol_rejects_nonpositive_pivot :
  forall (a : list R) (n i : nat),
    (n * n)%nat = length a -> (i < n)%nat ->
    piv (unflatten a n n) (chol_rows RO false (unflatten a n n) n) i <= 0 ->
    cholesky RO a = None /\ (try_cholesky RO a = None \/ try_cholesky RO a = Some None).
Proof. exact @chol_rejects_nonpositive_pivot. Qed.

(** for symmetric input [cholesky] succeeds EXACTLY on the positive definite matrices:
    completeness (extension; the pivot of row i is the quadratic form at an explicit vector) ... *)
Theorem C11_cholesky_accepts_spd :
  forall (a : list R) (n : nat),
    (n * n)%nat = length a -> symmetric a n -> positive_definite a n ->
    exists l, cholesky RO a = Some l.
Proof. exact @spd_cholesky. Qed.

(** ... and rejection: input that is not positive definite is rejected *)
Theorem C11_cholesky_rejects_not_positive_definite :
  forall (a : list R) (n : nat),
    (n * n)%nat = length a -> symmetric a n -> ~ positive_definite a n -> cholesky RO a = None.
Proof. exact @cholesky_rejects_not_pd. Qed.

Theorem C11_cholesky_factor_implies_positive_definite :
  forall (a l : list R) (n : nat),
    cholesky RO a = Some l -> (n * n)%nat = length a -> symmetric a n -> positive_definite a n.
Proof. exact @cholesky_some_pd. Qed.

(** slice form and [Matrix] form return identical factors in exact arithmetic (D36: on binary64 they
    differ in the last bit from n = 16 on, because the 8-way unrolled dot products see different lengths) *)
Theorem C11_slice_eq_matrix_cholesky :
  forall (m r : matrix (T:=R)),
    matrix_cholesky RO m = Some r ->
    cholesky RO (dat m) = Some (dat r) /\ nr r = nr m /\ nc r = nc m.
Proof. exact @matrix_cholesky_eq_slice. Qed.

Theorem C11_chol_dot_form_irrelevant :
  forall (A : list (list R)) (n : nat),
    chol_rows RO true A n = chol_rows RO false A n /\ try_chol_rows RO true A n = try_chol_rows RO false A n.
Proof. exact @chol_dot_form_irrelevant. Qed.

(** satisfiable: A = [[4,2],[2,5]] has the factor [[2,0],[1,2]] *)
Example C11_chol_example :
  let l := [2;0;1;2]%R in
  (forall i, (i < 2)%nat -> 0 < getm l 2 i i) /\
  forall i j, (i < 2)%nat -> (j < 2)%nat ->
    rsum (fun k => getm l 2 i k * getm l 2 j k) 2 = getm [4;2;2;5]%R 2 i j.
Proof.
  split.
  - intros [|[|i]] H; try lia; unfold getm; simpl; lra.
  - intros [|[|i]] [|[|j]] Hi Hj; try lia; unfold getm; simpl; lra.
Qed.

(** D1's witness [[1,2],[2,1]] (symmetric, positive diagonal, indefinite) is rejected: on the reals ... *)
Theorem C11_chol_indefinite_rejected : cholesky RO [1; 2; 2; 1] = None.
Proof. exact @d1_matrix_rejected. Qed.

(** ** Pivoted LU *)

(** acceptance / rejection: exactly the slices whose length is a perfect square are factored, and
    the result has n*n entries and n pivots.  There is no other way to fail: singular, rank-deficient
    and zero matrices are factored too. *)
Theorem C11_lu_shape :
  forall a : list R,
    match is_square (length a) with
    | None => lu RO a = None
    | Some n => exists m piv, lu RO a = Some (m, piv) /\ length m = (n * n)%nat /\ length piv = n
    end.
Proof. exact @lu_shape. Qed.

(** the main claim, for EVERY order n and EVERY matrix (singular ones included): the pivot vector is
    a permutation of 0..n-1, the unit lower triangle L and the upper triangle U packed in the result
    satisfy (L.U)[i][c] = A[piv[i]][c], i.e. L.U = P.A, and every multiplier is bounded by 1. *)
Theorem C11_lu_reconstructs :
  forall (a m : list R) (piv : list nat) (n : nat),
    lu RO a = Some (m, piv) -> (n * n)%nat = length a ->
    length m = (n * n)%nat /\ is_perm piv n /\
    (forall i c, (i < n)%nat -> (c < n)%nat ->
       rsum (fun k => Lof m n i k * Uof m n k c) n = getm a n (nth i piv 0%nat) c) /\
    (forall i k, (i < n)%nat -> (k < i)%nat -> Rabs (getm m n i k) <= 1).
Proof. exact @lu_reconstructs. Qed.

(** the two clauses separately, as the property text lists them *)
Theorem C11_lu_L_bounded :
  forall (a m : list R) (piv : list nat) (n : nat),
    lu RO a = Some (m, piv) -> (n * n)%nat = length a ->
    forall i k, (i < n)%nat -> (k < i)%nat -> Rabs (getm m n i k) <= 1.
Proof. exact @lu_L_bounded. Qed.

Theorem C11_lu_pivots_are_a_permutation :
  forall (a m : list R) (piv : list nat) (n : nat),
    lu RO a = Some (m, piv) -> (n * n)%nat = length a -> Permutation piv (seq 0 n).
Proof. exact @lu_pivots_perm. Qed.

(** the Matrix method runs the same model: identical factors on EVERY carrier (hence bit for bit) *)
Theorem C11_slice_eq_matrix_lu :
  forall (T : Type) (O : Ops T) (m r : matrix (T:=T)) (piv : list nat),
    matrix_lu O m = Some (r, piv) ->
    lu O (dat m) = Some (dat r, piv) /\ nr r = nr m /\ nc r = nc m /\ nr m = nc m /\
    (nr m * nr m)%nat = length (dat m).
Proof. exact @matrix_lu_eq_slice. Qed.

(** a singular example where the theorem applies: A = [[0,0],[0,0]] and A = [[1,2],[2,4]] *)
Example C11_lu_singular_example :
  lu QO [1;2;2;4]%Q = Some ([2;4;(1#2);0]%Q, [1;0]%nat).
Proof. vm_compute. reflexivity. Qed.

(** ** Solving with the factors *)

(** [lu_solve] applied to the output of [lu] solves A.x = b whenever U has a nonzero diagonal
    (i.e. A is nonsingular), for every order *)
Theorem C11_lu_solve_correct :
  forall (a m : list R) (piv : list nat) (b : list R) (n : nat),
    lu RO a = Some (m, piv) -> (n * n)%nat = length a -> length b = n ->
    (forall i, (i < n)%nat -> getm m n i i <> 0) ->
    exists x, lu_solve RO m piv b = Some x /\ length x = n /\
              forall i, (i < n)%nat -> mvec a n x i = nth i b 0.
Proof. exact @lu_solve_correct. Qed.

Example C11_lu_solve_example :
  exists m piv x, lu QO [0;2;1;1]%Q = Some (m, piv) /\ lu_solve QO m piv [4;3]%Q = Some x /\ x = [1;2]%Q.
Proof. do 3 eexists. split; [vm_compute; reflexivity|]. split; vm_compute; reflexivity. Qed.

(** ** Pivot parity and determinant *)

(** [is_sign sgn]: sgn (identity) = 1 and every transposition of two positions negates sgn — these two
    facts determine sgn on every permutation.  After the D2 repair, [ipiv_parity] computes it. *)
Theorem C11_ipiv_parity_is_sign :
  forall sgn : list nat -> Z, is_sign sgn ->
  forall (p : list nat) (n : nat), is_perm p n -> ipiv_parity p = Some (sgn p).
Proof. exact @ipiv_parity_is_sign. Qed.

(** in particular it never panics and never runs out of fuel on a permutation *)
Theorem C11_ipiv_parity_total :
  forall sgn : list nat -> Z, is_sign sgn ->
  forall (p : list nat) (n : nat), is_perm p n ->
    exists par, parity_loop p = Some (seq 0 n, par) /\ sgn p = (if Nat.even par then 1 else -1)%Z.
Proof. exact @parity_loop_spec. Qed.

(** the 4-cycle on which the original code returned +1 (D2) *)
Example C11_ipiv_parity_D2_witness : ipiv_parity [1; 2; 3; 0]%nat = Some (-1)%Z.
Proof. reflexivity. Qed.

(** [Matrix::det] = (product of U's diagonal) * (sign of the pivot permutation) *)
Theorem C11_det_formula :
  forall (sgn : list nat -> Z) (m : matrix (T:=R)) (n : nat),
    is_sign sgn -> well_formed m = true -> nr m = n -> nc m = n ->
    exists lum piv,
      matrix_lu RO m = Some (lum, piv) /\ is_perm piv n /\
      matrix_det RO m = Some (rprod (fun i => getm (dat lum) n i i) n * IZR (sgn piv)).
Proof. exact @det_formula. Qed.

(** ** Slice-level and Matrix-level implementations agree — on every carrier, hence bit for bit *)
Theorem C11_slice_eq_matrix_forward_substitution :
  forall (T : Type) (O : Ops T) (m : matrix (T:=T)) (b x : list T),
    matrix_forward_substitution O m b = Some x -> forward_substitution O (dat m) b = Some x.
Proof. exact @matrix_fwd_eq_slice. Qed.

Theorem C11_slice_eq_matrix_backward_substitution :
  forall (T : Type) (O : Ops T) (m : matrix (T:=T)) (b x : list T),
    matrix_backward_substitution O m b = Some x -> backward_substitution O (dat m) b = Some x.
Proof. exact @matrix_bwd_eq_slice. Qed.

Theorem C11_slice_eq_matrix_lu_solve :
  forall (T : Type) (O : Ops T) (m : matrix (T:=T)) (piv : list nat) (b x : list T),
    matrix_lu_solve O m piv b = Some x -> lu_solve O (dat m) piv b = Some x.
Proof. exact @matrix_lu_solve_eq_slice. Qed.

(** [Matrix::solve] is [lu] followed by [lu_solve] (so C11_lu_solve_correct applies to it) *)
Theorem C11_matrix_solve_is_lu_then_lu_solve :
  forall (T : Type) (O : Ops T) (m : matrix (T:=T)) (b x : list T),
    matrix_solve O m b = Some x ->
    exists l piv, lu O (dat m) = Some (l, piv) /\ lu_solve O l piv b = Some x.
Proof. exact @matrix_solve_eq_slice. Qed.

(** ** The sign function exists (extension): product over pairs a < b of sgn (p_b - p_a) *)
Theorem C11_sign_exists : is_sign sign_inv.
Proof. exact @sign_inv_is_sign. Qed.

Theorem C11_sign_unique :
  forall (sgn : list nat -> Z) (p : list nat) (n : nat), is_sign sgn -> is_perm p n -> sgn p = sign_inv p.
Proof. exact @sign_unique. Qed.

(** [ipiv_parity] = (-1)^(number of inversions) on every permutation vector, no hypothesis left *)
Theorem C11_ipiv_parity_is_inversion_sign :
  forall (p : list nat) (n : nat), is_perm p n -> ipiv_parity p = Some (sign_inv p).
Proof. exact @ipiv_parity_inversions. Qed.

Theorem C11_det_formula_inversion_sign :
  forall (m : matrix (T:=R)) (n : nat),
    well_formed m = true -> nr m = n -> nc m = n ->
    exists lum piv,
      matrix_lu RO m = Some (lum, piv) /\ is_perm piv n /\
      matrix_det RO m = Some (rprod (fun i => getm (dat lum) n i i) n * IZR (sign_inv piv)).
Proof. exact @det_formula_inversions. Qed.

(** ** The returned number IS the determinant (extension, closed)
    [Spec.Determinant]: [determinant A] is the cofactor expansion of the list-of-rows matrix [A] along its
    first column, [det_n n a] the same for an entry function read at indices < n; no factorisation is
    involved in the definition.  Carrier: the reals ([RO]), the same model terms [matrix_det], [matrix_lu],
    [matrix_lu_det], [lu] of Model/LU.v that the bitwise correspondence ties to the code. *)

(** [Matrix::det], for EVERY order n >= 1 and EVERY n x n matrix given by its rows, singular ones included *)
Theorem C11_det_is_determinant :
  forall (n : nat) (A : list (list R)),
    (0 < n)%nat -> length A = n -> (forall r, In r A -> length r = n) ->
    matrix_det RO {| nr := n; nc := n; dat := flatten A |} = Some (determinant A).
Proof. exact @det_is_determinant. Qed.

(** the same on a [Matrix] value ([mrows m] = its rows) *)
Theorem C11_matrix_det_is_determinant :
  forall m : matrix (T:=R),
    well_formed m = true -> nr m = nc m -> matrix_det RO m = Some (determinant (mrows m)).
Proof. exact @matrix_det_is_determinant. Qed.

(** [Matrix::lu] followed by [Matrix::lu_det] on its outputs *)
Theorem C11_matrix_lu_det_is_determinant :
  forall (m l : matrix (T:=R)) (piv : list nat),
    matrix_lu RO m = Some (l, piv) -> matrix_lu_det RO l piv = Some (determinant (mrows m)).
Proof. exact @matrix_lu_det_is_determinant. Qed.

(** slice level: the determinant of the input is (product of U's diagonal) * (inversion sign of the pivots) *)
Theorem C11_lu_determinant :
  forall (a m : list R) (piv : list nat) (n : nat),
    lu RO a = Some (m, piv) -> (n * n)%nat = length a ->
    determinant (unflatten a n n) = rprod (fun i => getm m n i i) n * IZR (sign_inv piv).
Proof. exact @lu_determinant. Qed.

(** singular matrices: det A = 0 exactly when some u_ii = 0 (the column [lu] leaves unscaled) *)
Theorem C11_determinant_zero_iff_zero_pivot :
  forall (a m : list R) (piv : list nat) (n : nat),
    lu RO a = Some (m, piv) -> (n * n)%nat = length a ->
    (determinant (unflatten a n n) = 0 <-> exists i, (i < n)%nat /\ getm m n i i = 0).
Proof. exact @lu_determinant_zero_iff. Qed.

(** integer matrices: on the reals the routine returns the exact integer determinant
    ([zdeterminant]: the same cofactor expansion computed in Z) *)
Theorem C11_det_integer_exact :
  forall (n : nat) (A : list (list Z)),
    (0 < n)%nat -> length A = n -> (forall r, In r A -> length r = n) ->
    matrix_det RO {| nr := n; nc := n; dat := flatten (map (map IZR) A) |} = Some (IZR (zdeterminant A)).
Proof. exact @det_integer_exact. Qed.

Theorem C11_determinant_of_integer_matrix :
  forall A : list (list Z), determinant (map (map IZR) A) = IZR (zdeterminant A).
Proof. exact @determinant_IZR. Qed.

(** the hypotheses are satisfiable, on a matrix that needs a row exchange and on a singular one *)
Example C11_det_is_determinant_example :
  matrix_det RO {| nr := 2; nc := 2; dat := flatten [[0; 2]; [1; 1]] |} = Some (-2) /\
  matrix_det RO {| nr := 2; nc := 2; dat := flatten [[1; 2]; [2; 4]] |} = Some 0.
Proof.
  split.
  - rewrite (det_is_determinant 2 [[0; 2]; [1; 1]]); [f_equal; rewrite determinant_2x2; lra|lia|reflexivity|].
    intros r [<-|[<-|[]]]; reflexivity.
  - rewrite (det_is_determinant 2 [[1; 2]; [2; 4]]); [f_equal; rewrite determinant_2x2; lra|lia|reflexivity|].
    intros r [<-|[<-|[]]]; reflexivity.
Qed.

Example C11_zdeterminant_example : zdeterminant [[2; 0; 1]; [1; 3; 2]; [1; 1; 1]]%Z = 0%Z /\
                                   zdeterminant [[0;0;0;16]; [16;0;0;0]; [0;16;0;0]; [0;0;16;0]]%Z = (-65536)%Z.
Proof. split; vm_compute; reflexivity. Qed.

(** *** The spec is the determinant: the cofactor definition has the properties that characterise it
    (linear in every row, sign change under every exchange of two rows, 1 on the identity), the
    closed forms at orders 2 and 3, and the product of the diagonal on triangular matrices *)
Theorem C11_determinant_row_linear :
  forall (n : nat) (a : nat -> nat -> R) (i : nat) (u v : nat -> R) (x y : R),
    (i < n)%nat ->
    det_n n (fun r c => if (r =? i)%nat then x * u c + y * v c else a r c) =
    x * det_n n (fun r c => if (r =? i)%nat then u c else a r c) +
    y * det_n n (fun r c => if (r =? i)%nat then v c else a r c).
Proof. exact @det_row_lin. Qed.

Theorem C11_determinant_row_exchange :
  forall (n : nat) (a : nat -> nat -> R) (i j : nat),
    (i < n)%nat -> (j < n)%nat -> i <> j ->
    det_n n (fun r c => a (if (r =? i)%nat then j else if (r =? j)%nat then i else r) c) = - det_n n a.
Proof. exact @det_swap_rows. Qed.

Theorem C11_determinant_repeated_row :
  forall (n : nat) (a : nat -> nat -> R) (i j : nat),
    (i < n)%nat -> (j < n)%nat -> i <> j -> (forall c, (c < n)%nat -> a i c = a j c) -> det_n n a = 0.
Proof. exact @det_eq_rows. Qed.

Theorem C11_determinant_identity :
  forall n : nat, det_n n (fun i j => if (i =? j)%nat then 1 else 0) = 1.
Proof. exact @det_identity. Qed.

Theorem C11_determinant_only_reads_the_matrix :
  forall (n : nat) (a b : nat -> nat -> R),
    (forall r c, (r < n)%nat -> (c < n)%nat -> a r c = b r c) -> det_n n a = det_n n b.
Proof. exact @det_ext. Qed.

Theorem C11_determinant_upper_triangular :
  forall (n : nat) (u : nat -> nat -> R),
    (forall i j, (i < n)%nat -> (j < n)%nat -> (j < i)%nat -> u i j = 0) ->
    det_n n u = rprod (fun i => u i i) n.
Proof. exact @det_upper. Qed.

(** a row permutation multiplies the determinant by the inversion sign *)
Theorem C11_determinant_row_permutation :
  forall (n : nat) (a : nat -> nat -> R) (p : list nat),
    is_perm p n -> det_n n (fun r c => a (nth r p 0%nat) c) = IZR (sign_inv p) * det_n n a.
Proof. exact @det_perm_rows. Qed.

Theorem C11_determinant_2x2 :
  forall a b c d : R, determinant [[a; b]; [c; d]] = a * d - b * c.
Proof. exact @determinant_2x2. Qed.

Theorem C11_determinant_3x3 :
  forall a b c d e f g h i : R,
    determinant [[a; b; c]; [d; e; f]; [g; h; i]] =
    a * e * i + b * f * g + c * d * h - c * e * g - b * d * i - a * f * h.
Proof. exact @determinant_3x3. Qed.

(** *** Leibniz form: the cofactor determinant is the sum over ALL index vectors p in {0..n-1}^n of
    sgn(p) * prod_i a[i][p_i], with sgn = [sign_inv]: THE sign on permutations ([C11_sign_exists],
    [C11_sign_unique]) and 0 on a vector with a repeated entry — i.e. the sum over the permutations.
    [vectors n n] lists each index vector exactly once. *)
Theorem C11_determinant_leibniz :
  forall (n : nat) (a : nat -> nat -> R),
    det_n n a =
    fold_right Rplus 0 (map (fun p => IZR (sign_inv p) * rprod (fun i => a i (nth i p 0%nat)) n) (vectors n n)).
Proof. exact @det_leibniz. Qed.

Theorem C11_determinant_leibniz_rows :
  forall A : list (list R),
    determinant A = leibniz sign_inv (length A) (fun i j => nth j (nth i A []) 0).
Proof. exact @determinant_leibniz. Qed.

Theorem C11_sign_inv_zero_on_repeated_entry :
  forall (p : list nat) (i j : nat),
    (i < j)%nat -> (j < length p)%nat -> nth i p 0%nat = nth j p 0%nat -> sign_inv p = 0%Z.
Proof. exact @sign_inv_repeat. Qed.

Theorem C11_sign_inv_unit_on_permutations :
  forall (p : list nat) (n : nat), is_perm p n -> (sign_inv p * sign_inv p = 1)%Z.
Proof. exact @sign_inv_sq. Qed.

Theorem C11_vectors_enumerates :
  forall (n k : nat) (p : list nat),
    In p (vectors n k) <-> length p = k /\ forall x, In x p -> (x < n)%nat.
Proof. exact @vectors_iff. Qed.

Theorem C11_vectors_NoDup : forall n k : nat, NoDup (vectors n k).
Proof. exact @vectors_NoDup. Qed.

(** over the integers: cofactor expansion = Leibniz sum, and this is what the routine returns on the
    reals for an integer matrix *)
Theorem C11_zdeterminant_leibniz :
  forall (n : nat) (a : nat -> nat -> Z),
    zdet_n n a =
    fold_right Z.add 0%Z (map (fun p => (sign_inv p * zpi (fun i => a i (nth i p 0%nat)) n)%Z) (vectors n n)).
Proof. exact @zdet_leibniz. Qed.

Theorem C11_det_integer_leibniz :
  forall (n : nat) (A : list (list Z)),
    (0 < n)%nat -> length A = n -> (forall r, In r A -> length r = n) ->
    matrix_det RO {| nr := n; nc := n; dat := flatten (map (map IZR) A) |} =
    Some (IZR (zleibniz sign_inv n (fun i j => nth j (nth i A []) 0%Z))).
Proof. exact @det_integer_leibniz. Qed.

Example C11_leibniz_example :
  zleibniz sign_inv 3 (fun i j => nth j (nth i [[2; 0; 1]; [1; 3; 2]; [1; 1; 4]]%Z []) 0%Z) = 18%Z /\
  zdeterminant [[2; 0; 1]; [1; 3; 2]; [1; 1; 4]]%Z = 18%Z.
Proof. split; vm_compute; reflexivity. Qed.

(** ** Behaviour at the edges *)

(** a column whose pivot is exactly zero is left unscaled: [lu] never divides by zero *)
Theorem C11_lu_singular_column_skips_scaling :
  forall (M : list (list R)) (j : nat), ent 0 M j j = 0 -> scale_col RO M j = M.
Proof. exact @scale_col_skips. Qed.

(** ... and on binary64: the model, like the repaired code, panics (slice and Matrix form) where the
    original code returned [1, 0, 2, NaN]; [try_cholesky] answers [None] *)
Example C11_chol_indefinite_rejected_binary64 :
  cholesky FO0 [1; 2; 2; 1]%float = None /\ try_cholesky FO0 [1; 2; 2; 1]%float = Some None /\
  matrix_cholesky FO0 {| nr := 2; nc := 2; dat := [1; 2; 2; 1]%float |} = None.
Proof. repeat split; vm_compute; reflexivity. Qed.

(** ** Further instances (rational arithmetic, computed in the kernel) *)
Example C11_back_subst_example :
  backward_substitution QO [2;1;0;4]%Q [4;8]%Q = Some [1;2]%Q.
Proof. vm_compute. reflexivity. Qed.

Example C11_det_example :
  matrix_det QO {| nr := 2; nc := 2; dat := [0;2;1;1]%Q |} = Some (-2)%Q.
Proof. vm_compute. reflexivity. Qed.

(** the matrix behind D2: every column pivots on the next row, the pivot vector is the 4-cycle
    [1;2;3;0], the determinant is -16^4 (the original code returned +65536) *)
Example C11_det_D2_witness :
  let m := {| nr := 4; nc := 4; dat := [0;0;0;16; 16;0;0;0; 0;16;0;0; 0;0;16;0]%Q |} in
  option_map snd (matrix_lu QO m) = Some [1;2;3;0]%nat /\ matrix_det QO m = Some (-65536)%Q.
Proof. split; vm_compute; reflexivity. Qed.

(** ** Tie A: the models ARE the source (regenerated from /repo/src on every run by tools/tiea/linalg_loops.py).
    [src_*] is the Rust function translated statement for statement: ONE flat row-major list mutated in place
    ([rs_set] / [rs_get] / [rs_slice] / [rs_swap], index arithmetic [i * n + j] in [Z], a panic = [None]); the models work on
    rows.  [is_square_z] is the crate's [is_square] (an [f32] square root, outside the translated subset) as the models
    see it; [dot] is tied in C04 ([C04_model_is_source_dot]); [uninit] is the content of the cells exposed by
    [unsafe { x.set_len(n) }]: the equalities hold for EVERY [uninit], so no such cell is read before it is written. *)
From Compute Require Import Base.RsExpr Base.RsExprMut Generated.linalg_loops Proofs.TieA_linalg_loops.
Local Close Scope R_scope.
Theorem C11_model_is_source_forward_substitution :
  forall (T : Type) (O : Ops T) (uninit : Z -> T) (l b : list T),
    src_forward_substitution O is_square_z (dot O) uninit l b = forward_substitution O l b.
Proof. exact @tiea_forward_substitution. Qed.
Theorem C11_model_is_source_backward_substitution :
  forall (T : Type) (O : Ops T) (uninit : Z -> T) (u b : list T),
    src_backward_substitution O is_square_z (dot O) uninit u b = backward_substitution O u b.
Proof. exact @tiea_backward_substitution. Qed.
(** [is_matrix(m, nrows).unwrap()]: a zero [nrows] (division by zero) and [Err] are both [None] *)
Theorem C11_model_is_source_is_matrix :
  forall (T : Type) (O : Ops T) (m : list T) (nr : nat),
    (let* r := src_is_matrix O m (Z.of_nat nr) in r) = option_map Z.of_nat (is_matrix (length m) nr).
Proof. exact @tiea_is_matrix. Qed.
(** the two nested loops with [return false] are the model's nested [forallb]; all reads [m[i*n+j]], [m[j*n+i]] are in bounds *)
Theorem C11_model_is_source_is_symmetric :
  forall (T : Type) (O : Ops T) (m : list T), src_is_symmetric O is_square_z m = is_symmetric O m.
Proof. exact @tiea_is_symmetric. Qed.
Theorem C11_model_is_source_is_positive_definite :
  forall (T : Type) (O : Ops T) (m : list T), src_is_positive_definite O is_square_z m = is_positive_definite O m.
Proof. exact @tiea_is_positive_definite. Qed.
(** [for j in 0..ncols { for i in 0..nrows { at.push(a[i * ncols + j]) } }] is the flattened list of columns of the rows *)
Theorem C11_model_is_source_transpose :
  forall (T : Type) (O : Ops T) (a : list T) (nr : nat), src_transpose O a (Z.of_nat nr) = transpose O a nr.
Proof. exact @tiea_transpose. Qed.
(** the pivot vector is [&[i32]] in the source ([list Z]) and [list nat] in the model (a negative entry indexes out of
    bounds in Rust); the data-driven [while perm[i] != i] is unrolled at most [fuel_] times (rule R3 of the translator): with
    the model's own fuel, one more than the number of entries — enough by [C11_ipiv_parity_total] — the two agree, panics
    (out-of-bounds entry, the assertion) included *)
Theorem C11_model_is_source_ipiv_parity :
  forall (T : Type) (O : Ops T) (ipiv : list nat),
    src_ipiv_parity O (S (length ipiv)) (map Z.of_nat ipiv) = ipiv_parity ipiv.
Proof. exact @tiea_ipiv_parity. Qed.
(** Cholesky–Banachiewicz in place: the source fills one zero-initialised flat vector of [n * n] cells row by row, reads
    the slices [&l[(j*n)..(j*n+j)]], [&l[(i*n)..(i*n+j)]] of the vector it is writing, and leaves by [return None] from
    inside the two nested loops; the model keeps the finished rows and the prefix of the current row (invariant
    [l = flatten L ++ r ++ zeros]).  Outer [None] = panic, [Some None] = a pivot is not positive.  The input fits the
    address space ([vec![0.; n * n]] passes the allocation's capacity check of 2^60 - 1 cells). *)
From Compute Require Import Proofs.TieA_linalg_chol.
Theorem C11_model_is_source_try_cholesky :
  forall (T : Type) (O : Ops T) (a : list T), (Z.of_nat (length a) <= 1152921504606846975)%Z ->
    src_try_cholesky O is_square_z (dot O) a = try_cholesky O a.
Proof. exact @tiea_try_cholesky. Qed.
Theorem C11_model_is_source_cholesky :
  forall (T : Type) (O : Ops T) (a : list T), (Z.of_nat (length a) <= 1152921504606846975)%Z ->
    src_cholesky O is_square_z (dot O) a = cholesky O a.
Proof. exact @tiea_cholesky. Qed.
Theorem C11_model_is_source_cholesky_solve :
  forall (T : Type) (O : Ops T) (uninit : Z -> T) (l b : list T),
    src_cholesky_solve O is_square_z (dot O) uninit l b = cholesky_solve O l b.
Proof. exact @tiea_cholesky_solve. Qed.
(** [lu_solve]: the right-hand side gathered through the pivot vector into a zero vector, then the two in-place sweeps
    [x[i] -= x[k] * lu[i * n + k]]; the model describes each sweep by what it does to every position.  Too many or
    out-of-range pivots panic (out-of-bounds [x[i] = ..] resp. [b[..]]); [b] fits the address space. *)
From Compute Require Import Proofs.TieA_linalg_lu.
Theorem C11_model_is_source_lu_solve :
  forall (T : Type) (O : Ops T) (lu : list T) (piv : list nat) (b : list T), (Z.of_nat (length b) <= 1152921504606846975)%Z ->
    src_lu_solve O lu (map Z.of_nat piv) b = lu_solve O lu piv b.
Proof. exact @tiea_lu_solve. Qed.
(** pivoted LU IN PLACE on the flat vector (column update [lu[i * n + j] -= s] reading entries of the same column written
    a moment earlier, pivot search, [lu.swap(p * n + k, j * n + k)] for every column, [pivots.swap(p, j)], multipliers) equals
    the model's OUT-OF-PLACE column update on rows (the item listed under "trusted base" until now): the flat vector is
    [flatten M] throughout, every index is in bounds, same operands in the same order. *)
Theorem C11_model_is_source_lu :
  forall (T : Type) (O : Ops T) (a : list T),
    src_lu O is_square_z a = option_map (fun '(f, piv) => (f, map Z.of_nat piv)) (lu O a).
Proof. exact @tiea_lu. Qed.

Local Open Scope R_scope.
(** ** Floating point (extension): componentwise BACKWARD ERROR of the triangular solves on binary64

    The theorems above are exact arithmetic.  This section is the first floating-point link: it is about the SAME
    model terms ([forward_substitution], [backward_substitution], [cholesky_solve] of Model/{Subst,Cholesky}.v, with
    the 8-way unrolled [dot_raw] of Model/Reduce.v), instantiated at the carrier [FO tbl] (primitive binary64) on
    which the correspondence check compares them bit for bit with the Rust code.  [B2Rf x] is the real value of the
    double [x], [finite x] says that [x] is neither infinite nor NaN (Flocq).

    Classical statement (Higham, Accuracy and Stability, Thm 8.5), with gamma = (1 + 2^-53)^n - 1 and n the order:
    the COMPUTED solution x of T x = b satisfies, row by row,
         | b_i - Sigma_j T_ij x_j |  <=  gamma * Sigma_j |T_ij| |x_j| ,
    equivalently it is the EXACT solution of a triangular system T' x = b with |T'_ij - T_ij| <= gamma |T_ij| for
    all i, j ([b] is not perturbed).  Hypotheses, all explicit:  the diagonal is finite and nonzero;  the computed x
    is finite (this forces every intermediate value and every entry of [b] to be finite: no overflow anywhere);
    no product t_ij * x_j underflows (its exact value is 0 or at least 2^-1022 in magnitude, as in
    [C04_dot_error_binary64]);  no quotient s_i / t_ii underflows, where the numerator
    s_i = b_i - dot(t_i, x) is written out as the subterm of the model that it is (the slices are those of the Rust
    code: [&l[i*n..i*n+i]], [&x[..i]] resp. [&u[i*n+i+1..i*n+n]], [&x[i+1..]]).
    The routine never reads the other triangle, so [T] is the lower (upper) triangular PART of the argument
    ([lower_part], [upper_part]); the corollaries for an argument that is triangular follow. *)
From Compute Require Import Spec.Vops Proofs.C04ErrF Proofs.C11_FloatBase Proofs.C11_FloatSubst Proofs.C11_FloatPert
  Proofs.C11_FloatEx.

(** the recurrence satisfied by the result, on EVERY carrier (hence bit for bit on binary64): it identifies the
    numerators [s_i] used in the side conditions below as subterms of the model *)
Theorem C11_forward_substitution_recurrence :
  forall (T : Type) (O : Ops T) (l b x : list T) (n : nat),
    forward_substitution O l b = Some x -> (n * n)%nat = length l ->
    length b = n /\ length x = n /\
    forall i, (i < n)%nat ->
      nth i x (zero O) =
      div O (sub O (nth i b (zero O)) (dot_raw O (firstn i (skipn (i * n) l)) (firstn i x))) (nth (i * n + i) l (zero O)).
Proof. exact @forward_recurrence. Qed.

Theorem C11_backward_substitution_recurrence :
  forall (T : Type) (O : Ops T) (u b x : list T) (n : nat),
    backward_substitution O u b = Some x -> (n * n)%nat = length u ->
    length b = n /\ length x = n /\
    forall i, (i < n)%nat ->
      nth i x (zero O) =
      div O (sub O (nth i b (zero O)) (dot_raw O (firstn (n - S i) (skipn (i * n + S i) u)) (skipn (S i) x)))
            (nth (i * n + i) u (zero O)).
Proof. exact @backward_recurrence. Qed.

(** forward substitution: residual form and perturbed-matrix form, every order n *)
Theorem C11_forward_substitution_backward_error_binary64 :
  forall (tbl : libm_table) (l b x : list float) (n : nat),
    forward_substitution (FO tbl) l b = Some x -> (n * n)%nat = length l ->
    (forall i, (i < n)%nat -> finite (nth (i * n + i) l 0%float) /\ B2Rf (nth (i * n + i) l 0%float) <> 0) ->
    Forall finite x ->
    (forall i j, (i < n)%nat -> (j < i)%nat ->
       B2Rf (nth (i * n + j) l 0%float) * B2Rf (nth j x 0%float) = 0 \/
       / 2 ^ 1022 <= Rabs (B2Rf (nth (i * n + j) l 0%float) * B2Rf (nth j x 0%float))) ->
    (forall i, (i < n)%nat ->
       let s := (nth i b 0 - dot_raw (FO tbl) (firstn i (skipn (i * n) l)) (firstn i x))%float in
       B2Rf s / B2Rf (nth (i * n + i) l 0%float) = 0 \/ / 2 ^ 1022 <= Rabs (B2Rf s / B2Rf (nth (i * n + i) l 0%float))) ->
    let T := map B2Rf l in let B := map B2Rf b in let X := map B2Rf x in
    let gamma := (1 + / 2 ^ 53) ^ n - 1 in
    Forall finite b /\
    (forall i, (i < n)%nat ->
       Rabs (nth i B 0 - rsum (fun k => lower_part T n i k * nth k X 0) n)
       <= gamma * rsum (fun k => Rabs (lower_part T n i k) * Rabs (nth k X 0)) n) /\
    exists T' : list R,
      length T' = (n * n)%nat /\ lower_triangular T' n /\
      (forall i j, (i < n)%nat -> (j < n)%nat ->
         Rabs (getm T' n i j - lower_part T n i j) <= gamma * Rabs (lower_part T n i j)) /\
      (forall i, (i < n)%nat -> mvec T' n X i = nth i B 0).
Proof. exact forward_substitution_backward_error. Qed.

(** ... for a lower-triangular argument: |b - T x|_i <= gamma (|T| |x|)_i  and  (T + dT) x = b, |dT| <= gamma |T| *)
Theorem C11_forward_substitution_backward_error_triangular_binary64 :
  forall (tbl : libm_table) (l b x : list float) (n : nat),
    forward_substitution (FO tbl) l b = Some x -> (n * n)%nat = length l ->
    lower_triangular (map B2Rf l) n ->
    (forall i, (i < n)%nat -> finite (nth (i * n + i) l 0%float) /\ B2Rf (nth (i * n + i) l 0%float) <> 0) ->
    Forall finite x ->
    (forall i j, (i < n)%nat -> (j < i)%nat ->
       B2Rf (nth (i * n + j) l 0%float) * B2Rf (nth j x 0%float) = 0 \/
       / 2 ^ 1022 <= Rabs (B2Rf (nth (i * n + j) l 0%float) * B2Rf (nth j x 0%float))) ->
    (forall i, (i < n)%nat ->
       let s := (nth i b 0 - dot_raw (FO tbl) (firstn i (skipn (i * n) l)) (firstn i x))%float in
       B2Rf s / B2Rf (nth (i * n + i) l 0%float) = 0 \/ / 2 ^ 1022 <= Rabs (B2Rf s / B2Rf (nth (i * n + i) l 0%float))) ->
    let T := map B2Rf l in let B := map B2Rf b in let X := map B2Rf x in
    let gamma := (1 + / 2 ^ 53) ^ n - 1 in
    (forall i, (i < n)%nat ->
       Rabs (nth i B 0 - mvec T n X i) <= gamma * rsum (fun k => Rabs (getm T n i k) * Rabs (nth k X 0)) n) /\
    exists T' : list R,
      length T' = (n * n)%nat /\ lower_triangular T' n /\
      (forall i j, (i < n)%nat -> (j < n)%nat -> Rabs (getm T' n i j - getm T n i j) <= gamma * Rabs (getm T n i j)) /\
      (forall i, (i < n)%nat -> mvec T' n X i = nth i B 0).
Proof. exact forward_substitution_backward_error_triangular. Qed.

(** row i of the forward solve even has the constant (1 + 2^-53)^(i+1) - 1 (i products and additions, one
    subtraction, one division; only the division when i = 0) *)
Theorem C11_forward_substitution_backward_error_rowwise_binary64 :
  forall (tbl : libm_table) (l b x : list float) (n : nat),
    forward_substitution (FO tbl) l b = Some x -> (n * n)%nat = length l ->
    (forall i, (i < n)%nat -> B2Rf (nth (i * n + i) l 0%float) <> 0) ->
    Forall finite x ->
    (forall i j, (i < n)%nat -> (j < i)%nat ->
       B2Rf (nth (i * n + j) l 0%float) * B2Rf (nth j x 0%float) = 0 \/
       / 2 ^ 1022 <= Rabs (B2Rf (nth (i * n + j) l 0%float) * B2Rf (nth j x 0%float))) ->
    (forall i, (i < n)%nat ->
       let s := (nth i b 0 - dot_raw (FO tbl) (firstn i (skipn (i * n) l)) (firstn i x))%float in
       B2Rf s / B2Rf (nth (i * n + i) l 0%float) = 0 \/ / 2 ^ 1022 <= Rabs (B2Rf s / B2Rf (nth (i * n + i) l 0%float))) ->
    forall i, (i < n)%nat ->
      Rabs (nth i (map B2Rf b) 0 - rsum (fun k => lower_part (map B2Rf l) n i k * nth k (map B2Rf x) 0) n)
      <= ((1 + / 2 ^ 53) ^ S i - 1)
         * rsum (fun k => Rabs (lower_part (map B2Rf l) n i k) * Rabs (nth k (map B2Rf x) 0)) n.
Proof. exact forward_rowwise. Qed.

(** backward substitution *)
Theorem C11_backward_substitution_backward_error_binary64 :
  forall (tbl : libm_table) (u b x : list float) (n : nat),
    backward_substitution (FO tbl) u b = Some x -> (n * n)%nat = length u ->
    (forall i, (i < n)%nat -> finite (nth (i * n + i) u 0%float) /\ B2Rf (nth (i * n + i) u 0%float) <> 0) ->
    Forall finite x ->
    (forall i j, (i < j)%nat -> (j < n)%nat ->
       B2Rf (nth (i * n + j) u 0%float) * B2Rf (nth j x 0%float) = 0 \/
       / 2 ^ 1022 <= Rabs (B2Rf (nth (i * n + j) u 0%float) * B2Rf (nth j x 0%float))) ->
    (forall i, (i < n)%nat ->
       let s := (nth i b 0 - dot_raw (FO tbl) (firstn (n - S i) (skipn (i * n + S i) u)) (skipn (S i) x))%float in
       B2Rf s / B2Rf (nth (i * n + i) u 0%float) = 0 \/ / 2 ^ 1022 <= Rabs (B2Rf s / B2Rf (nth (i * n + i) u 0%float))) ->
    let T := map B2Rf u in let B := map B2Rf b in let X := map B2Rf x in
    let gamma := (1 + / 2 ^ 53) ^ n - 1 in
    Forall finite b /\
    (forall i, (i < n)%nat ->
       Rabs (nth i B 0 - rsum (fun k => upper_part T n i k * nth k X 0) n)
       <= gamma * rsum (fun k => Rabs (upper_part T n i k) * Rabs (nth k X 0)) n) /\
    exists T' : list R,
      length T' = (n * n)%nat /\ upper_triangular T' n /\
      (forall i j, (i < n)%nat -> (j < n)%nat ->
         Rabs (getm T' n i j - upper_part T n i j) <= gamma * Rabs (upper_part T n i j)) /\
      (forall i, (i < n)%nat -> mvec T' n X i = nth i B 0).
Proof. exact backward_substitution_backward_error. Qed.

Theorem C11_backward_substitution_backward_error_triangular_binary64 :
  forall (tbl : libm_table) (u b x : list float) (n : nat),
    backward_substitution (FO tbl) u b = Some x -> (n * n)%nat = length u ->
    upper_triangular (map B2Rf u) n ->
    (forall i, (i < n)%nat -> finite (nth (i * n + i) u 0%float) /\ B2Rf (nth (i * n + i) u 0%float) <> 0) ->
    Forall finite x ->
    (forall i j, (i < j)%nat -> (j < n)%nat ->
       B2Rf (nth (i * n + j) u 0%float) * B2Rf (nth j x 0%float) = 0 \/
       / 2 ^ 1022 <= Rabs (B2Rf (nth (i * n + j) u 0%float) * B2Rf (nth j x 0%float))) ->
    (forall i, (i < n)%nat ->
       let s := (nth i b 0 - dot_raw (FO tbl) (firstn (n - S i) (skipn (i * n + S i) u)) (skipn (S i) x))%float in
       B2Rf s / B2Rf (nth (i * n + i) u 0%float) = 0 \/ / 2 ^ 1022 <= Rabs (B2Rf s / B2Rf (nth (i * n + i) u 0%float))) ->
    let T := map B2Rf u in let B := map B2Rf b in let X := map B2Rf x in
    let gamma := (1 + / 2 ^ 53) ^ n - 1 in
    (forall i, (i < n)%nat ->
       Rabs (nth i B 0 - mvec T n X i) <= gamma * rsum (fun k => Rabs (getm T n i k) * Rabs (nth k X 0)) n) /\
    exists T' : list R,
      length T' = (n * n)%nat /\ upper_triangular T' n /\
      (forall i j, (i < n)%nat -> (j < n)%nat -> Rabs (getm T' n i j - getm T n i j) <= gamma * Rabs (getm T n i j)) /\
      (forall i, (i < n)%nat -> mvec T' n X i = nth i B 0).
Proof. exact backward_substitution_backward_error_triangular. Qed.

(** row i of the backward solve has the constant (1 + 2^-53)^(n-i) - 1 *)
Theorem C11_backward_substitution_backward_error_rowwise_binary64 :
  forall (tbl : libm_table) (u b x : list float) (n : nat),
    backward_substitution (FO tbl) u b = Some x -> (n * n)%nat = length u ->
    (forall i, (i < n)%nat -> B2Rf (nth (i * n + i) u 0%float) <> 0) ->
    Forall finite x ->
    (forall i j, (i < j)%nat -> (j < n)%nat ->
       B2Rf (nth (i * n + j) u 0%float) * B2Rf (nth j x 0%float) = 0 \/
       / 2 ^ 1022 <= Rabs (B2Rf (nth (i * n + j) u 0%float) * B2Rf (nth j x 0%float))) ->
    (forall i, (i < n)%nat ->
       let s := (nth i b 0 - dot_raw (FO tbl) (firstn (n - S i) (skipn (i * n + S i) u)) (skipn (S i) x))%float in
       B2Rf s / B2Rf (nth (i * n + i) u 0%float) = 0 \/ / 2 ^ 1022 <= Rabs (B2Rf s / B2Rf (nth (i * n + i) u 0%float))) ->
    forall i, (i < n)%nat ->
      Rabs (nth i (map B2Rf b) 0 - rsum (fun k => upper_part (map B2Rf u) n i k * nth k (map B2Rf x) 0) n)
      <= ((1 + / 2 ^ 53) ^ (n - i) - 1)
         * rsum (fun k => Rabs (upper_part (map B2Rf u) n i k) * Rabs (nth k (map B2Rf x) 0)) n.
Proof. exact backward_rowwise. Qed.

(** the two forms are equivalent, row by row and for any bound g >= 0: a residual bound yields a perturbed row
    (written down explicitly, [pert_row]) that solves the equation exactly, and conversely *)
Theorem C11_residual_bound_iff_perturbed_row :
  forall (Tr X : nat -> R) (bi g : R) (n : nat), 0 <= g ->
    (Rabs (bi - rsum (fun k => Tr k * X k) n) <= g * rsum (fun k => Rabs (Tr k) * Rabs (X k)) n
     <-> exists Tr' : nat -> R,
           (forall k, (k < n)%nat -> Rabs (Tr' k - Tr k) <= g * Rabs (Tr k)) /\ rsum (fun k => Tr' k * X k) n = bi).
Proof. exact residual_iff_perturbed_row. Qed.

(** [cholesky_solve] = forward solve with L, [transpose], backward solve with L^T: the computed x is the exact
    solution of  T1 (T2 x) = b  with a lower-triangular T1 and an upper-triangular T2, each within gamma
    (entrywise, relatively) of L resp. L^T; [y] is the computed intermediate vector, [lt] the transposed array *)
Theorem C11_cholesky_solve_backward_error_binary64 :
  forall (tbl : libm_table) (l b y lt x : list float) (n : nat),
    cholesky_solve (FO tbl) l b = Some x -> (n * n)%nat = length l ->
    forward_substitution (FO tbl) l b = Some y -> transpose (FO tbl) l n = Some lt ->
    (forall i, (i < n)%nat -> finite (nth (i * n + i) l 0%float) /\ B2Rf (nth (i * n + i) l 0%float) <> 0) ->
    Forall finite y -> Forall finite x ->
    (forall i j, (i < n)%nat -> (j < i)%nat ->
       B2Rf (nth (i * n + j) l 0%float) * B2Rf (nth j y 0%float) = 0 \/
       / 2 ^ 1022 <= Rabs (B2Rf (nth (i * n + j) l 0%float) * B2Rf (nth j y 0%float))) ->
    (forall i, (i < n)%nat ->
       let s := (nth i b 0 - dot_raw (FO tbl) (firstn i (skipn (i * n) l)) (firstn i y))%float in
       B2Rf s / B2Rf (nth (i * n + i) l 0%float) = 0 \/ / 2 ^ 1022 <= Rabs (B2Rf s / B2Rf (nth (i * n + i) l 0%float))) ->
    (forall i j, (i < j)%nat -> (j < n)%nat ->
       B2Rf (nth (j * n + i) l 0%float) * B2Rf (nth j x 0%float) = 0 \/
       / 2 ^ 1022 <= Rabs (B2Rf (nth (j * n + i) l 0%float) * B2Rf (nth j x 0%float))) ->
    (forall i, (i < n)%nat ->
       let s := (nth i y 0 - dot_raw (FO tbl) (firstn (n - S i) (skipn (i * n + S i) lt)) (skipn (S i) x))%float in
       B2Rf s / B2Rf (nth (i * n + i) l 0%float) = 0 \/ / 2 ^ 1022 <= Rabs (B2Rf s / B2Rf (nth (i * n + i) l 0%float))) ->
    let T := map B2Rf l in let B := map B2Rf b in let Y := map B2Rf y in let X := map B2Rf x in
    let gamma := (1 + / 2 ^ 53) ^ n - 1 in
    exists T1 T2 : list R,
      length T1 = (n * n)%nat /\ length T2 = (n * n)%nat /\ lower_triangular T1 n /\ upper_triangular T2 n /\
      (forall i j, (i < n)%nat -> (j < n)%nat ->
         Rabs (getm T1 n i j - lower_part T n i j) <= gamma * Rabs (lower_part T n i j)) /\
      (forall i j, (i < n)%nat -> (j < n)%nat ->
         Rabs (getm T2 n i j - lower_part T n j i) <= gamma * Rabs (lower_part T n j i)) /\
      (forall i, (i < n)%nat -> mvec T1 n Y i = nth i B 0) /\
      (forall i, (i < n)%nat -> mvec T2 n X i = nth i Y 0) /\
      (forall i, (i < n)%nat -> rsum (fun k => getm T1 n i k * mvec T2 n X k) n = nth i B 0).
Proof. exact cholesky_solve_backward_error. Qed.

(** the side conditions can be checked on COMPUTED values: a quotient whose computed value is finite and strictly
    above the smallest normal number 2^-1022 in magnitude did not underflow (for products:
    [C04_computed_normal_product_suffices]) ... *)
Theorem C11_computed_normal_quotient_suffices :
  forall a b : float,
    B2Rf b <> 0 -> finite (a / b)%float -> / 2 ^ 1022 < Rabs (B2Rf (a / b)%float) ->
    B2Rf a / B2Rf b = 0 \/ / 2 ^ 1022 <= Rabs (B2Rf a / B2Rf b).
Proof. exact computed_normal_quotient. Qed.

(** ... hence all hypotheses of the two theorems follow from conditions on the returned vector and on the computed
    products alone: every x_i finite and above 2^-1022 in magnitude, every fl(t_ij x_j) finite and above 2^-1022
    unless t_ij is a zero *)
Theorem C11_forward_conditions_from_computed_values :
  forall (tbl : libm_table) (l b x : list float) (n : nat),
    forward_substitution (FO tbl) l b = Some x -> (n * n)%nat = length l ->
    (forall i, (i < n)%nat -> finite (nth (i * n + i) l 0%float) /\ B2Rf (nth (i * n + i) l 0%float) <> 0) ->
    (forall i, (i < n)%nat -> finite (nth i x 0%float) /\ / 2 ^ 1022 < Rabs (B2Rf (nth i x 0%float))) ->
    (forall i j, (i < n)%nat -> (j < i)%nat ->
       B2Rf (nth (i * n + j) l 0%float) = 0 \/
       finite (nth (i * n + j) l 0 * nth j x 0)%float /\ / 2 ^ 1022 < Rabs (B2Rf (nth (i * n + j) l 0 * nth j x 0)%float)) ->
    Forall finite x /\
    (forall i j, (i < n)%nat -> (j < i)%nat ->
       B2Rf (nth (i * n + j) l 0%float) * B2Rf (nth j x 0%float) = 0 \/
       / 2 ^ 1022 <= Rabs (B2Rf (nth (i * n + j) l 0%float) * B2Rf (nth j x 0%float))) /\
    (forall i, (i < n)%nat ->
       let s := (nth i b 0 - dot_raw (FO tbl) (firstn i (skipn (i * n) l)) (firstn i x))%float in
       B2Rf s / B2Rf (nth (i * n + i) l 0%float) = 0 \/ / 2 ^ 1022 <= Rabs (B2Rf s / B2Rf (nth (i * n + i) l 0%float))).
Proof. exact forward_conditions_from_computed. Qed.

Theorem C11_backward_conditions_from_computed_values :
  forall (tbl : libm_table) (u b x : list float) (n : nat),
    backward_substitution (FO tbl) u b = Some x -> (n * n)%nat = length u ->
    (forall i, (i < n)%nat -> finite (nth (i * n + i) u 0%float) /\ B2Rf (nth (i * n + i) u 0%float) <> 0) ->
    (forall i, (i < n)%nat -> finite (nth i x 0%float) /\ / 2 ^ 1022 < Rabs (B2Rf (nth i x 0%float))) ->
    (forall i j, (i < j)%nat -> (j < n)%nat ->
       B2Rf (nth (i * n + j) u 0%float) = 0 \/
       finite (nth (i * n + j) u 0 * nth j x 0)%float /\ / 2 ^ 1022 < Rabs (B2Rf (nth (i * n + j) u 0 * nth j x 0)%float)) ->
    Forall finite x /\
    (forall i j, (i < j)%nat -> (j < n)%nat ->
       B2Rf (nth (i * n + j) u 0%float) * B2Rf (nth j x 0%float) = 0 \/
       / 2 ^ 1022 <= Rabs (B2Rf (nth (i * n + j) u 0%float) * B2Rf (nth j x 0%float))) /\
    (forall i, (i < n)%nat ->
       let s := (nth i b 0 - dot_raw (FO tbl) (firstn (n - S i) (skipn (i * n + S i) u)) (skipn (S i) x))%float in
       B2Rf s / B2Rf (nth (i * n + i) u 0%float) = 0 \/ / 2 ^ 1022 <= Rabs (B2Rf s / B2Rf (nth (i * n + i) u 0%float))).
Proof. exact backward_conditions_from_computed. Qed.

(** the hypotheses are satisfiable: 3 x 3 systems with non-representable quotients (x_0 = fl(1/3), 3 x_0 <> 1, ...);
    every hypothesis of the three theorems is established for the solution computed inside Coq on binary64 *)
Example C11_example_forward_backward_error :
  let l := [3; 0; 0;  1; 3; 0;  1; 1; 3]%float in let b := [1; 1; 1]%float in
  exists x,
    forward_substitution FO0 l b = Some x /\ (3 * 3)%nat = length l /\
    (forall i, (i < 3)%nat -> finite (nth (i * 3 + i) l 0%float) /\ B2Rf (nth (i * 3 + i) l 0%float) <> 0) /\
    Forall finite x /\
    (forall i j, (i < 3)%nat -> (j < i)%nat ->
       B2Rf (nth (i * 3 + j) l 0%float) * B2Rf (nth j x 0%float) = 0 \/
       / 2 ^ 1022 <= Rabs (B2Rf (nth (i * 3 + j) l 0%float) * B2Rf (nth j x 0%float))) /\
    (forall i, (i < 3)%nat ->
       let s := (nth i b 0 - dot_raw FO0 (firstn i (skipn (i * 3) l)) (firstn i x))%float in
       B2Rf s / B2Rf (nth (i * 3 + i) l 0%float) = 0 \/ / 2 ^ 1022 <= Rabs (B2Rf s / B2Rf (nth (i * 3 + i) l 0%float))) /\
    3 * B2Rf (nth 0 x 0%float) <> 1.
Proof. exact forward_example. Qed.

Example C11_example_backward_backward_error :
  let u := [3; 1; 1;  0; 3; 1;  0; 0; 3]%float in let b := [1; 1; 1]%float in
  exists x,
    backward_substitution FO0 u b = Some x /\ (3 * 3)%nat = length u /\
    (forall i, (i < 3)%nat -> finite (nth (i * 3 + i) u 0%float) /\ B2Rf (nth (i * 3 + i) u 0%float) <> 0) /\
    Forall finite x /\
    (forall i j, (i < j)%nat -> (j < 3)%nat ->
       B2Rf (nth (i * 3 + j) u 0%float) * B2Rf (nth j x 0%float) = 0 \/
       / 2 ^ 1022 <= Rabs (B2Rf (nth (i * 3 + j) u 0%float) * B2Rf (nth j x 0%float))) /\
    (forall i, (i < 3)%nat ->
       let s := (nth i b 0 - dot_raw FO0 (firstn (3 - S i) (skipn (i * 3 + S i) u)) (skipn (S i) x))%float in
       B2Rf s / B2Rf (nth (i * 3 + i) u 0%float) = 0 \/ / 2 ^ 1022 <= Rabs (B2Rf s / B2Rf (nth (i * 3 + i) u 0%float))) /\
    3 * B2Rf (nth 2 x 0%float) <> 1.
Proof. exact backward_example. Qed.

Example C11_example_cholesky_solve_backward_error :
  let l := [3; 0; 0;  1; 3; 0;  1; 1; 3]%float in let b := [1; 1; 1]%float in
  exists y lt x,
    cholesky_solve FO0 l b = Some x /\ (3 * 3)%nat = length l /\
    forward_substitution FO0 l b = Some y /\ transpose FO0 l 3 = Some lt /\
    (forall i, (i < 3)%nat -> finite (nth (i * 3 + i) l 0%float) /\ B2Rf (nth (i * 3 + i) l 0%float) <> 0) /\
    Forall finite y /\ Forall finite x /\
    (forall i j, (i < 3)%nat -> (j < i)%nat ->
       B2Rf (nth (i * 3 + j) l 0%float) * B2Rf (nth j y 0%float) = 0 \/
       / 2 ^ 1022 <= Rabs (B2Rf (nth (i * 3 + j) l 0%float) * B2Rf (nth j y 0%float))) /\
    (forall i, (i < 3)%nat ->
       let s := (nth i b 0 - dot_raw FO0 (firstn i (skipn (i * 3) l)) (firstn i y))%float in
       B2Rf s / B2Rf (nth (i * 3 + i) l 0%float) = 0 \/ / 2 ^ 1022 <= Rabs (B2Rf s / B2Rf (nth (i * 3 + i) l 0%float))) /\
    (forall i j, (i < j)%nat -> (j < 3)%nat ->
       B2Rf (nth (j * 3 + i) l 0%float) * B2Rf (nth j x 0%float) = 0 \/
       / 2 ^ 1022 <= Rabs (B2Rf (nth (j * 3 + i) l 0%float) * B2Rf (nth j x 0%float))) /\
    (forall i, (i < 3)%nat ->
       let s := (nth i y 0 - dot_raw FO0 (firstn (3 - S i) (skipn (i * 3 + S i) lt)) (skipn (S i) x))%float in
       B2Rf s / B2Rf (nth (i * 3 + i) l 0%float) = 0 \/ / 2 ^ 1022 <= Rabs (B2Rf s / B2Rf (nth (i * 3 + i) l 0%float))).
Proof. exact cholesky_solve_example. Qed.

(** an order-10 instance (rows 8 and 9 use the 8-way unrolled chunk of [dot] plus the remainder loop):
    t_ii = 3, t_ij = 1 below the diagonal, b = (1, .., 1); exact solution x_k = 2^k / 3^(k+1), none representable *)
Example C11_example_forward_backward_error_order_10 :
  let l := flat_map (fun i => map (fun j => if (j <? i)%nat then 1%float else if (j =? i)%nat then 3%float else 0%float)
                                  (seq 0 10)) (seq 0 10) in
  let b := repeat 1%float 10 in
  exists x,
    forward_substitution FO0 l b = Some x /\ (10 * 10)%nat = length l /\
    (forall i, (i < 10)%nat -> finite (nth (i * 10 + i) l 0%float) /\ B2Rf (nth (i * 10 + i) l 0%float) <> 0) /\
    Forall finite x /\
    (forall i j, (i < 10)%nat -> (j < i)%nat ->
       B2Rf (nth (i * 10 + j) l 0%float) * B2Rf (nth j x 0%float) = 0 \/
       / 2 ^ 1022 <= Rabs (B2Rf (nth (i * 10 + j) l 0%float) * B2Rf (nth j x 0%float))) /\
    (forall i, (i < 10)%nat ->
       let s := (nth i b 0 - dot_raw FO0 (firstn i (skipn (i * 10) l)) (firstn i x))%float in
       B2Rf s / B2Rf (nth (i * 10 + i) l 0%float) = 0 \/ / 2 ^ 1022 <= Rabs (B2Rf s / B2Rf (nth (i * 10 + i) l 0%float))).
Proof. exact forward_example_10. Qed.

(** ** ... and the [Matrix] forms.  [Matrix::forward_substitution] / [backward_substitution] assert that the receiver
    is triangular ([== 0.] on the other triangle: on binary64 the entry is +0 or -0) and then run the same loops
    ([C11_slice_eq_matrix_forward_substitution], every carrier), so the backward-error statement holds for them with
    the matrix itself, no triangularity hypothesis left *)
From Compute Require Import Proofs.C11_FloatMatrix.

Theorem C11_matrix_forward_substitution_backward_error_binary64 :
  forall (tbl : libm_table) (m : matrix (T:=float)) (b x : list float),
    matrix_forward_substitution (FO tbl) m b = Some x ->
    let n := nr m in let l := dat m in
    (forall i, (i < n)%nat -> finite (nth (i * n + i) l 0%float) /\ B2Rf (nth (i * n + i) l 0%float) <> 0) ->
    Forall finite x ->
    (forall i j, (i < n)%nat -> (j < i)%nat ->
       B2Rf (nth (i * n + j) l 0%float) * B2Rf (nth j x 0%float) = 0 \/
       / 2 ^ 1022 <= Rabs (B2Rf (nth (i * n + j) l 0%float) * B2Rf (nth j x 0%float))) ->
    (forall i, (i < n)%nat ->
       let s := (nth i b 0 - dot_raw (FO tbl) (firstn i (skipn (i * n) l)) (firstn i x))%float in
       B2Rf s / B2Rf (nth (i * n + i) l 0%float) = 0 \/ / 2 ^ 1022 <= Rabs (B2Rf s / B2Rf (nth (i * n + i) l 0%float))) ->
    let T := map B2Rf l in let B := map B2Rf b in let X := map B2Rf x in
    let gamma := (1 + / 2 ^ 53) ^ n - 1 in
    (forall i, (i < n)%nat ->
       Rabs (nth i B 0 - mvec T n X i) <= gamma * rsum (fun k => Rabs (getm T n i k) * Rabs (nth k X 0)) n) /\
    exists T' : list R,
      length T' = (n * n)%nat /\ lower_triangular T' n /\
      (forall i j, (i < n)%nat -> (j < n)%nat -> Rabs (getm T' n i j - getm T n i j) <= gamma * Rabs (getm T n i j)) /\
      (forall i, (i < n)%nat -> mvec T' n X i = nth i B 0).
Proof. exact matrix_forward_substitution_backward_error. Qed.

Theorem C11_matrix_backward_substitution_backward_error_binary64 :
  forall (tbl : libm_table) (m : matrix (T:=float)) (b x : list float),
    matrix_backward_substitution (FO tbl) m b = Some x ->
    let n := nr m in let u := dat m in
    (forall i, (i < n)%nat -> finite (nth (i * n + i) u 0%float) /\ B2Rf (nth (i * n + i) u 0%float) <> 0) ->
    Forall finite x ->
    (forall i j, (i < j)%nat -> (j < n)%nat ->
       B2Rf (nth (i * n + j) u 0%float) * B2Rf (nth j x 0%float) = 0 \/
       / 2 ^ 1022 <= Rabs (B2Rf (nth (i * n + j) u 0%float) * B2Rf (nth j x 0%float))) ->
    (forall i, (i < n)%nat ->
       let s := (nth i b 0 - dot_raw (FO tbl) (firstn (n - S i) (skipn (i * n + S i) u)) (skipn (S i) x))%float in
       B2Rf s / B2Rf (nth (i * n + i) u 0%float) = 0 \/ / 2 ^ 1022 <= Rabs (B2Rf s / B2Rf (nth (i * n + i) u 0%float))) ->
    let T := map B2Rf u in let B := map B2Rf b in let X := map B2Rf x in
    let gamma := (1 + / 2 ^ 53) ^ n - 1 in
    (forall i, (i < n)%nat ->
       Rabs (nth i B 0 - mvec T n X i) <= gamma * rsum (fun k => Rabs (getm T n i k) * Rabs (nth k X 0)) n) /\
    exists T' : list R,
      length T' = (n * n)%nat /\ upper_triangular T' n /\
      (forall i j, (i < n)%nat -> (j < n)%nat -> Rabs (getm T' n i j - getm T n i j) <= gamma * Rabs (getm T n i j)) /\
      (forall i, (i < n)%nat -> mvec T' n X i = nth i B 0).
Proof. exact matrix_backward_substitution_backward_error. Qed.

(** the receiver's triangularity test on binary64 does imply triangularity of the real values *)
Theorem C11_triangular_guard_binary64 :
  forall (tbl : libm_table) (a : list float) (n : nat),
    (is_lower_triangular_rows (FO tbl) (unflatten a n n) n n = true -> lower_triangular (map B2Rf a) n) /\
    (is_upper_triangular_rows (FO tbl) (unflatten a n n) n = true -> upper_triangular (map B2Rf a) n).
Proof. exact (fun tbl a n => conj (lower_guard_triangular tbl a n) (upper_guard_triangular tbl a n)). Qed.

(** ** Floating point (extension): the residual form of the backward error of the triangular solves on binary64 WITHOUT
    the "no product underflows" and "no quotient underflows" hypotheses

    A correctly rounded binary64 product or quotient that does not overflow satisfies |fl(r) - r| <= 2^-53 |fl(r)| + 2^-1075
    for EVERY exact value r (normal, subnormal or zero; 2^-1075 is half the spacing of the subnormal numbers); additions and
    subtractions need no absolute term.  With u = 2^-53, gamma = (1+u)^n - 1: the COMPUTED solution x of T x = b satisfies,
    row by row,
         | b_i - Sigma_j T_ij x_j |  <=  gamma * Sigma_j |T_ij| |x_j|  +  2^-1075 * ( n (1+u)^n + (1+u) |T_ii| )
    (each of the at most n underflowing products of the row contributes 2^-1075, amplified by the later additions; the
    quotient contributes 2^-1075 scaled by the diagonal entry).  Hypotheses: the diagonal is nonzero and the computed x is
    finite (no overflow anywhere), nothing else.  The theorems of the previous section are the special case in which the
    absolute term is not needed.  The perturbed-matrix form does not survive underflow as it stands (an absolute residual
    cannot be charged to a relative perturbation of T alone): the residual form comes first, the perturbed form
    (T') x = b + db, with [b] perturbed by at most the absolute term, at the end of the section. *)
From Compute Require Import Proofs.C04ErrGen Proofs.C11_FloatGen.

Theorem C11_rounding_error_binary64_general_rounded :
  forall r : R, Rabs (rnd64 r - r) <= / 2 ^ 53 * Rabs (rnd64 r) + / 2 ^ 1075.
Proof. intros r. rewrite <- u64_val, <- eta64_val. apply rnd64_gen_round. Qed.

Theorem C11_forward_substitution_residual_binary64_general :
  forall (tbl : libm_table) (l b x : list float) (n : nat),
    forward_substitution (FO tbl) l b = Some x -> (n * n)%nat = length l ->
    (forall i, (i < n)%nat -> B2Rf (nth (i * n + i) l 0%float) <> 0) ->
    Forall finite x ->
    let T := map B2Rf l in let B := map B2Rf b in let X := map B2Rf x in
    let gamma := (1 + / 2 ^ 53) ^ n - 1 in
    Forall finite b /\
    (forall i, (i < n)%nat ->
       Rabs (nth i B 0 - rsum (fun k => lower_part T n i k * nth k X 0) n)
       <= gamma * rsum (fun k => Rabs (lower_part T n i k) * Rabs (nth k X 0)) n
          + / 2 ^ 1075 * (INR n * (1 + / 2 ^ 53) ^ n + (1 + / 2 ^ 53) * Rabs (B2Rf (nth (i * n + i) l 0%float)))).
Proof.
  exact (fun tbl l b x n Hrun Hn Hd Hf =>
           conj (fwd_F_rhs_finite_general tbl l b x n Hrun Hn Hd Hf) (fwd_F_residual_general tbl l b x n Hrun Hn Hd Hf)).
Qed.

(** row i of the forward solve has the constants (1+u)^(i+1) - 1 and i (1+u)^i (a dot product of i terms) *)
Theorem C11_forward_substitution_residual_rowwise_binary64_general :
  forall (tbl : libm_table) (l b x : list float) (n : nat),
    forward_substitution (FO tbl) l b = Some x -> (n * n)%nat = length l ->
    (forall i, (i < n)%nat -> B2Rf (nth (i * n + i) l 0%float) <> 0) ->
    Forall finite x ->
    forall i, (i < n)%nat ->
      Rabs (nth i (map B2Rf b) 0 - rsum (fun k => lower_part (map B2Rf l) n i k * nth k (map B2Rf x) 0) n)
      <= ((1 + / 2 ^ 53) ^ S i - 1)
         * rsum (fun k => Rabs (lower_part (map B2Rf l) n i k) * Rabs (nth k (map B2Rf x) 0)) n
         + / 2 ^ 1075 * (INR i * (1 + / 2 ^ 53) ^ i + (1 + / 2 ^ 53) * Rabs (B2Rf (nth (i * n + i) l 0%float))).
Proof. exact fwd_F_rowwise_general. Qed.

Theorem C11_backward_substitution_residual_binary64_general :
  forall (tbl : libm_table) (u b x : list float) (n : nat),
    backward_substitution (FO tbl) u b = Some x -> (n * n)%nat = length u ->
    (forall i, (i < n)%nat -> B2Rf (nth (i * n + i) u 0%float) <> 0) ->
    Forall finite x ->
    let T := map B2Rf u in let B := map B2Rf b in let X := map B2Rf x in
    let gamma := (1 + / 2 ^ 53) ^ n - 1 in
    Forall finite b /\
    (forall i, (i < n)%nat ->
       Rabs (nth i B 0 - rsum (fun k => upper_part T n i k * nth k X 0) n)
       <= gamma * rsum (fun k => Rabs (upper_part T n i k) * Rabs (nth k X 0)) n
          + / 2 ^ 1075 * (INR n * (1 + / 2 ^ 53) ^ n + (1 + / 2 ^ 53) * Rabs (B2Rf (nth (i * n + i) u 0%float)))).
Proof.
  exact (fun tbl u b x n Hrun Hn Hd Hf =>
           conj (bwd_F_rhs_finite_general tbl u b x n Hrun Hn Hd Hf) (bwd_F_residual_general tbl u b x n Hrun Hn Hd Hf)).
Qed.

(** row i of the backward solve: (1+u)^(n-i) - 1 and (n-i-1) (1+u)^(n-i-1) *)
Theorem C11_backward_substitution_residual_rowwise_binary64_general :
  forall (tbl : libm_table) (u b x : list float) (n : nat),
    backward_substitution (FO tbl) u b = Some x -> (n * n)%nat = length u ->
    (forall i, (i < n)%nat -> B2Rf (nth (i * n + i) u 0%float) <> 0) ->
    Forall finite x ->
    forall i, (i < n)%nat ->
      Rabs (nth i (map B2Rf b) 0 - rsum (fun k => upper_part (map B2Rf u) n i k * nth k (map B2Rf x) 0) n)
      <= ((1 + / 2 ^ 53) ^ (n - i) - 1)
         * rsum (fun k => Rabs (upper_part (map B2Rf u) n i k) * Rabs (nth k (map B2Rf x) 0)) n
         + / 2 ^ 1075 * (INR (n - S i) * (1 + / 2 ^ 53) ^ (n - S i)
                         + (1 + / 2 ^ 53) * Rabs (B2Rf (nth (i * n + i) u 0%float))).
Proof. exact bwd_F_rowwise_general. Qed.

(** [cholesky_solve] = forward solve with L, [transpose], backward solve with L^T: the two residuals ([y] the computed
    intermediate vector, [lt] the transposed array; entry (i,k) of L^T is [lower_part T n k i]) *)
Theorem C11_cholesky_solve_residuals_binary64_general :
  forall (tbl : libm_table) (l b y lt x : list float) (n : nat),
    cholesky_solve (FO tbl) l b = Some x -> (n * n)%nat = length l ->
    forward_substitution (FO tbl) l b = Some y -> transpose (FO tbl) l n = Some lt ->
    (forall i, (i < n)%nat -> B2Rf (nth (i * n + i) l 0%float) <> 0) ->
    Forall finite y -> Forall finite x ->
    let T := map B2Rf l in let B := map B2Rf b in let Y := map B2Rf y in let X := map B2Rf x in
    let gamma := (1 + / 2 ^ 53) ^ n - 1 in
    (forall i, (i < n)%nat ->
       Rabs (nth i B 0 - rsum (fun k => lower_part T n i k * nth k Y 0) n)
       <= gamma * rsum (fun k => Rabs (lower_part T n i k) * Rabs (nth k Y 0)) n
          + / 2 ^ 1075 * (INR n * (1 + / 2 ^ 53) ^ n + (1 + / 2 ^ 53) * Rabs (B2Rf (nth (i * n + i) l 0%float)))) /\
    (forall i, (i < n)%nat ->
       Rabs (nth i Y 0 - rsum (fun k => lower_part T n k i * nth k X 0) n)
       <= gamma * rsum (fun k => Rabs (lower_part T n k i) * Rabs (nth k X 0)) n
          + / 2 ^ 1075 * (INR n * (1 + / 2 ^ 53) ^ n + (1 + / 2 ^ 53) * Rabs (B2Rf (nth (i * n + i) l 0%float)))).
Proof. exact cholesky_solve_residuals_general. Qed.

(** an instance the theorems with the no-underflow hypotheses exclude: x_0 = 2^-500 and in row 1 the product
    2^-600 * 2^-500 underflows; the solve is finite *)
Example C11_example_forward_residual_general :
  let l := [1; 0;  0x1p-600; 3]%float in let b := [0x1p-500; 1]%float in
  exists x,
    forward_substitution FO0 l b = Some x /\ (2 * 2)%nat = length l /\
    (forall i, (i < 2)%nat -> B2Rf (nth (i * 2 + i) l 0%float) <> 0) /\
    Forall finite x /\
    ~ (B2Rf (nth (1 * 2 + 0) l 0%float) * B2Rf (nth 0 x 0%float) = 0 \/
       / 2 ^ 1022 <= Rabs (B2Rf (nth (1 * 2 + 0) l 0%float) * B2Rf (nth 0 x 0%float))).
Proof. exact forward_general_example. Qed.

(** the perturbed form under underflow: the computed x is the EXACT solution of (T') x = b + db with T' triangular, within gamma
    (entrywise, relatively) of the triangular part of T, and a right-hand-side perturbation |db_i| bounded by the absolute term
    (the residual of row i is split between the two in the proportion gamma (|T||x|)_i : alpha_i) *)
From Compute Require Import Proofs.C11_FloatGenP.
Theorem C11_forward_substitution_backward_error_binary64_general :
  forall (tbl : libm_table) (l b x : list float) (n : nat),
    forward_substitution (FO tbl) l b = Some x -> (n * n)%nat = length l ->
    (forall i, (i < n)%nat -> B2Rf (nth (i * n + i) l 0%float) <> 0) ->
    Forall finite x ->
    let T := map B2Rf l in let B := map B2Rf b in let X := map B2Rf x in
    let gamma := (1 + / 2 ^ 53) ^ n - 1 in
    let alpha := fun i => / 2 ^ 1075 * (INR n * (1 + / 2 ^ 53) ^ n + (1 + / 2 ^ 53) * Rabs (B2Rf (nth (i * n + i) l 0%float))) in
    exists T' dB : list R,
      length T' = (n * n)%nat /\ length dB = n /\ lower_triangular T' n /\
      (forall i j, (i < n)%nat -> (j < n)%nat ->
         Rabs (getm T' n i j - lower_part T n i j) <= gamma * Rabs (lower_part T n i j)) /\
      (forall i, (i < n)%nat -> Rabs (nth i dB 0) <= alpha i) /\
      (forall i, (i < n)%nat -> mvec T' n X i = nth i B 0 + nth i dB 0).
Proof. exact forward_substitution_backward_error_general. Qed.

Theorem C11_backward_substitution_backward_error_binary64_general :
  forall (tbl : libm_table) (u b x : list float) (n : nat),
    backward_substitution (FO tbl) u b = Some x -> (n * n)%nat = length u ->
    (forall i, (i < n)%nat -> B2Rf (nth (i * n + i) u 0%float) <> 0) ->
    Forall finite x ->
    let T := map B2Rf u in let B := map B2Rf b in let X := map B2Rf x in
    let gamma := (1 + / 2 ^ 53) ^ n - 1 in
    let alpha := fun i => / 2 ^ 1075 * (INR n * (1 + / 2 ^ 53) ^ n + (1 + / 2 ^ 53) * Rabs (B2Rf (nth (i * n + i) u 0%float))) in
    exists T' dB : list R,
      length T' = (n * n)%nat /\ length dB = n /\ upper_triangular T' n /\
      (forall i j, (i < n)%nat -> (j < n)%nat ->
         Rabs (getm T' n i j - upper_part T n i j) <= gamma * Rabs (upper_part T n i j)) /\
      (forall i, (i < n)%nat -> Rabs (nth i dB 0) <= alpha i) /\
      (forall i, (i < n)%nat -> mvec T' n X i = nth i B 0 + nth i dB 0).
Proof. exact backward_substitution_backward_error_general. Qed.

(** the general residual / perturbed-system equivalence used above (any matrix part P, any bounds g >= 0, a_i >= 0) *)
Theorem C11_residual_bound_abs_gives_perturbed_system :
  forall (P : nat -> nat -> R) (X B : list R) (g : R) (a : nat -> R) (n : nat),
    0 <= g -> (forall i, (i < n)%nat -> 0 <= a i) ->
    (forall i, (i < n)%nat ->
       Rabs (nth i B 0 - rsum (fun k => P i k * nth k X 0) n)
       <= g * rsum (fun k => Rabs (P i k) * Rabs (nth k X 0)) n + a i) ->
    exists T' dB : list R,
      length T' = (n * n)%nat /\ length dB = n /\
      (forall i j, (i < n)%nat -> (j < n)%nat -> Rabs (getm T' n i j - P i j) <= g * Rabs (P i j)) /\
      (forall i, (i < n)%nat -> Rabs (nth i dB 0) <= a i) /\
      (forall i, (i < n)%nat -> mvec T' n X i = nth i B 0 + nth i dB 0).
Proof. exact perturbed_matrix_abs. Qed.

(** a triangular argument, and the [Matrix] forms (whose receiver is checked to be triangular): the residual reads with the
    matrix itself *)
Theorem C11_forward_substitution_residual_triangular_binary64_general :
  forall (tbl : libm_table) (l b x : list float) (n : nat),
    forward_substitution (FO tbl) l b = Some x -> (n * n)%nat = length l ->
    lower_triangular (map B2Rf l) n ->
    (forall i, (i < n)%nat -> B2Rf (nth (i * n + i) l 0%float) <> 0) ->
    Forall finite x ->
    let T := map B2Rf l in let B := map B2Rf b in let X := map B2Rf x in
    let gamma := (1 + / 2 ^ 53) ^ n - 1 in
    forall i, (i < n)%nat ->
      Rabs (nth i B 0 - mvec T n X i)
      <= gamma * rsum (fun k => Rabs (getm T n i k) * Rabs (nth k X 0)) n
         + / 2 ^ 1075 * (INR n * (1 + / 2 ^ 53) ^ n + (1 + / 2 ^ 53) * Rabs (getm T n i i)).
Proof. exact forward_substitution_residual_triangular_general. Qed.

Theorem C11_backward_substitution_residual_triangular_binary64_general :
  forall (tbl : libm_table) (u b x : list float) (n : nat),
    backward_substitution (FO tbl) u b = Some x -> (n * n)%nat = length u ->
    upper_triangular (map B2Rf u) n ->
    (forall i, (i < n)%nat -> B2Rf (nth (i * n + i) u 0%float) <> 0) ->
    Forall finite x ->
    let T := map B2Rf u in let B := map B2Rf b in let X := map B2Rf x in
    let gamma := (1 + / 2 ^ 53) ^ n - 1 in
    forall i, (i < n)%nat ->
      Rabs (nth i B 0 - mvec T n X i)
      <= gamma * rsum (fun k => Rabs (getm T n i k) * Rabs (nth k X 0)) n
         + / 2 ^ 1075 * (INR n * (1 + / 2 ^ 53) ^ n + (1 + / 2 ^ 53) * Rabs (getm T n i i)).
Proof. exact backward_substitution_residual_triangular_general. Qed.

Theorem C11_matrix_forward_substitution_residual_binary64_general :
  forall (tbl : libm_table) (m : matrix (T:=float)) (b x : list float),
    matrix_forward_substitution (FO tbl) m b = Some x ->
    let n := nr m in let l := dat m in
    (forall i, (i < n)%nat -> B2Rf (nth (i * n + i) l 0%float) <> 0) ->
    Forall finite x ->
    let T := map B2Rf l in let B := map B2Rf b in let X := map B2Rf x in
    let gamma := (1 + / 2 ^ 53) ^ n - 1 in
    forall i, (i < n)%nat ->
      Rabs (nth i B 0 - mvec T n X i)
      <= gamma * rsum (fun k => Rabs (getm T n i k) * Rabs (nth k X 0)) n
         + / 2 ^ 1075 * (INR n * (1 + / 2 ^ 53) ^ n + (1 + / 2 ^ 53) * Rabs (getm T n i i)).
Proof. exact matrix_forward_substitution_residual_general. Qed.

Theorem C11_matrix_backward_substitution_residual_binary64_general :
  forall (tbl : libm_table) (m : matrix (T:=float)) (b x : list float),
    matrix_backward_substitution (FO tbl) m b = Some x ->
    let n := nr m in let u := dat m in
    (forall i, (i < n)%nat -> B2Rf (nth (i * n + i) u 0%float) <> 0) ->
    Forall finite x ->
    let T := map B2Rf u in let B := map B2Rf b in let X := map B2Rf x in
    let gamma := (1 + / 2 ^ 53) ^ n - 1 in
    forall i, (i < n)%nat ->
      Rabs (nth i B 0 - mvec T n X i)
      <= gamma * rsum (fun k => Rabs (getm T n i k) * Rabs (nth k X 0)) n
         + / 2 ^ 1075 * (INR n * (1 + / 2 ^ 53) ^ n + (1 + / 2 ^ 53) * Rabs (getm T n i i)).
Proof. exact matrix_backward_substitution_residual_general. Qed.
(** ** Floating point (extension, second link): BACKWARD ERROR OF THE CHOLESKY FACTORISATION on binary64

    Classical statement (Higham, Accuracy and Stability of Numerical Algorithms, Thm 10.3): the COMPUTED factor L of a
    symmetric matrix A satisfies, componentwise,
         | A - L L^T |_ij  <=  gamma_(n+1) (|L| |L^T|)_ij ,      gamma_(n+1) = (1 + 2^-53)^(n+1) - 1 ,  n the order.
    It is proved here for the SAME model terms ([cholesky] / [matrix_cholesky] of Model/Cholesky.v at the carrier
    [FO tbl], primitive binary64) that the correspondence check compares bit for bit with the Rust code and that Tie A
    re-derives from the source, i.e. for the code's own operation tree: row by row (Cholesky-Banachiewicz),
         l_ij = fl( fl( a_ij - dot(l_j[..j], l_i[..j]) ) / l_jj )  (j < i),   l_ii = fl( sqrt( fl( a_ii - dot(l_i[..i], l_i[..i]) ) ) ),
    [dot] the 8-way unrolled [dot_raw] (the recurrence below, every carrier, identifies these subterms).
    Hypotheses, all explicit:  the model returns [Some l] (A square, symmetric within the code's relative tolerance,
    every pivot passed [d > 0]);  every entry of the computed factor is finite (this forces every intermediate value
    and every entry of A that is read to be finite: no overflow anywhere);  no product l_jk * l_ik (k < j <= i, squares
    included) underflows;  no quotient s_ij / l_jj underflows, s_ij = a_ij - dot(..) written out as the subterm of the
    model that it is.  The square root needs no condition (it never underflows), nor does the subtraction.
    The routine reads only the lower triangle of A, so the bound is stated for j <= i with no symmetry assumption at
    all, and for every i, j when the real values of A are exactly symmetric.  The diagonal of L is proved positive
    (hence nonzero: the hypothesis of the triangular-solve theorems above), L lower triangular. *)
From Compute Require Import Proofs.C11_FloatChol Proofs.C11_FloatCholEx.

(** the recurrence satisfied by the returned factor on EVERY carrier (hence bit for bit on binary64):
    the slices are those of the Rust code, [&l[j*n..j*n+j]] and [&l[i*n..i*n+j]] *)
Theorem C11_cholesky_recurrence :
  forall (T : Type) (O : Ops T) (a l : list T) (n : nat),
    cholesky O a = Some l -> (n * n)%nat = length a ->
    length l = (n * n)%nat /\
    forall i, (i < n)%nat ->
      (forall j, (i < j)%nat -> (j < n)%nat -> nth (i * n + j) l (zero O) = zero O) /\
      (exists d, ltb O (zero O) d = true /\ nth (i * n + i) l (zero O) = sqrt O d) /\
      nth (i * n + i) l (zero O) =
        sqrt O (sub O (nth (i * n + i) a (zero O))
                      (dot_raw O (firstn i (skipn (i * n) l)) (firstn i (skipn (i * n) l)))) /\
      (forall j, (j < i)%nat ->
         nth (i * n + j) l (zero O) =
         div O (sub O (nth (i * n + j) a (zero O)) (dot_raw O (firstn j (skipn (j * n) l)) (firstn j (skipn (i * n) l))))
               (nth (j * n + j) l (zero O))).
Proof. exact @cholesky_recurrence. Qed.

(** the theorem, slice form ([cholesky] of cholesky.rs), every order n *)
Theorem C11_cholesky_backward_error_binary64 :
  forall (tbl : libm_table) (a l : list float) (n : nat),
    cholesky (FO tbl) a = Some l -> (n * n)%nat = length a ->
    Forall finite l ->
    (forall i j k, (i < n)%nat -> (j <= i)%nat -> (k < j)%nat ->
       B2Rf (nth (j * n + k) l 0%float) * B2Rf (nth (i * n + k) l 0%float) = 0 \/
       / 2 ^ 1022 <= Rabs (B2Rf (nth (j * n + k) l 0%float) * B2Rf (nth (i * n + k) l 0%float))) ->
    (forall i j, (i < n)%nat -> (j < i)%nat ->
       let s := (nth (i * n + j) a 0 - dot_raw (FO tbl) (firstn j (skipn (j * n) l)) (firstn j (skipn (i * n) l)))%float in
       B2Rf s / B2Rf (nth (j * n + j) l 0%float) = 0 \/ / 2 ^ 1022 <= Rabs (B2Rf s / B2Rf (nth (j * n + j) l 0%float))) ->
    let A := map B2Rf a in let L := map B2Rf l in
    let gamma := (1 + / 2 ^ 53) ^ (n + 1) - 1 in
    length l = (n * n)%nat /\ lower_triangular L n /\ (forall i, (i < n)%nat -> 0 < getm L n i i) /\
    (forall i j, (i < n)%nat -> (j <= i)%nat -> finite (nth (i * n + j) a 0%float)) /\
    (forall i j, (i < n)%nat -> (j <= i)%nat ->
       Rabs (getm A n i j - rsum (fun k => getm L n i k * getm L n j k) n)
       <= gamma * rsum (fun k => Rabs (getm L n i k) * Rabs (getm L n j k)) n) /\
    (symmetric A n ->
     forall i j, (i < n)%nat -> (j < n)%nat ->
       Rabs (getm A n i j - rsum (fun k => getm L n i k * getm L n j k) n)
       <= gamma * rsum (fun k => Rabs (getm L n i k) * Rabs (getm L n j k)) n).
Proof. exact cholesky_backward_error. Qed.

(** entry by entry the constant is smaller: (1 + 2^-53)^(j+1) - 1 off the diagonal (j products and additions, one
    subtraction, one division), (1 + 2^-53)^max(i+1,3) - 1 on it (one subtraction, one square root counted twice;
    exponent 2 for the first pivot, whose subtraction is exact) *)
Theorem C11_cholesky_backward_error_entrywise_binary64 :
  forall (tbl : libm_table) (a l : list float) (n : nat),
    cholesky (FO tbl) a = Some l -> (n * n)%nat = length a ->
    Forall finite l ->
    (forall i j k, (i < n)%nat -> (j <= i)%nat -> (k < j)%nat ->
       B2Rf (nth (j * n + k) l 0%float) * B2Rf (nth (i * n + k) l 0%float) = 0 \/
       / 2 ^ 1022 <= Rabs (B2Rf (nth (j * n + k) l 0%float) * B2Rf (nth (i * n + k) l 0%float))) ->
    (forall i j, (i < n)%nat -> (j < i)%nat ->
       let s := (nth (i * n + j) a 0 - dot_raw (FO tbl) (firstn j (skipn (j * n) l)) (firstn j (skipn (i * n) l)))%float in
       B2Rf s / B2Rf (nth (j * n + j) l 0%float) = 0 \/ / 2 ^ 1022 <= Rabs (B2Rf s / B2Rf (nth (j * n + j) l 0%float))) ->
    let A := map B2Rf a in let L := map B2Rf l in
    forall i j, (i < n)%nat -> (j <= i)%nat ->
      Rabs (getm A n i j - rsum (fun k => getm L n i k * getm L n j k) n)
      <= ((1 + / 2 ^ 53) ^ (if (j <? i)%nat then S j else match i with 0%nat => 2%nat | _ => Nat.max (S i) 3 end) - 1)
         * rsum (fun k => Rabs (getm L n i k) * Rabs (getm L n j k)) n.
Proof. exact cholesky_backward_error_entrywise. Qed.

(** [Matrix::cholesky]: the dot products run over the whole rows (the tail of row i is still zero: [pad]); same bound *)
Theorem C11_cholesky_backward_error_matrix_binary64 :
  forall (tbl : libm_table) (m r : matrix (T:=float)),
    matrix_cholesky (FO tbl) m = Some r ->
    let n := nr m in let a := dat m in let l := dat r in
    Forall finite l ->
    (forall i j k, (i < n)%nat -> (j <= i)%nat -> (k < j)%nat ->
       B2Rf (nth (j * n + k) l 0%float) * B2Rf (nth (i * n + k) l 0%float) = 0 \/
       / 2 ^ 1022 <= Rabs (B2Rf (nth (j * n + k) l 0%float) * B2Rf (nth (i * n + k) l 0%float))) ->
    (forall i j, (i < n)%nat -> (j < i)%nat ->
       let s := (nth (i * n + j) a 0
                 - dot_raw (FO tbl) (firstn n (skipn (j * n) l)) (pad (FO tbl) n (firstn j (skipn (i * n) l))))%float in
       B2Rf s / B2Rf (nth (j * n + j) l 0%float) = 0 \/ / 2 ^ 1022 <= Rabs (B2Rf s / B2Rf (nth (j * n + j) l 0%float))) ->
    let A := map B2Rf a in let L := map B2Rf l in
    let gamma := (1 + / 2 ^ 53) ^ (n + 1) - 1 in
    nr r = n /\ nc r = n /\ nc m = n /\ length a = (n * n)%nat /\ length l = (n * n)%nat /\
    lower_triangular L n /\ (forall i, (i < n)%nat -> 0 < getm L n i i) /\
    (forall i j, (i < n)%nat -> (j <= i)%nat -> finite (nth (i * n + j) a 0%float)) /\
    (forall i j, (i < n)%nat -> (j <= i)%nat ->
       Rabs (getm A n i j - rsum (fun k => getm L n i k * getm L n j k) n)
       <= gamma * rsum (fun k => Rabs (getm L n i k) * Rabs (getm L n j k)) n) /\
    (symmetric A n ->
     forall i j, (i < n)%nat -> (j < n)%nat ->
       Rabs (getm A n i j - rsum (fun k => getm L n i k * getm L n j k) n)
       <= gamma * rsum (fun k => Rabs (getm L n i k) * Rabs (getm L n j k)) n).
Proof. exact matrix_cholesky_backward_error. Qed.

(** the side conditions can be checked on COMPUTED values (with [C04_computed_normal_product_suffices] and
    [C11_computed_normal_quotient_suffices]): every nonzero-by-structure entry l_ij (j <= i) finite and above 2^-1022
    in magnitude, every computed product fl(l_jk l_ik) finite and above 2^-1022 *)
Theorem C11_cholesky_conditions_from_computed_values :
  forall (tbl : libm_table) (a l : list float) (n : nat),
    cholesky (FO tbl) a = Some l -> (n * n)%nat = length a ->
    Forall finite l ->
    (forall i j, (i < n)%nat -> (j < i)%nat -> / 2 ^ 1022 < Rabs (B2Rf (nth (i * n + j) l 0%float))) ->
    (forall i j k, (i < n)%nat -> (j <= i)%nat -> (k < j)%nat ->
       finite (nth (j * n + k) l 0 * nth (i * n + k) l 0)%float /\
       / 2 ^ 1022 < Rabs (B2Rf (nth (j * n + k) l 0 * nth (i * n + k) l 0)%float)) ->
    (forall i j k, (i < n)%nat -> (j <= i)%nat -> (k < j)%nat ->
       B2Rf (nth (j * n + k) l 0%float) * B2Rf (nth (i * n + k) l 0%float) = 0 \/
       / 2 ^ 1022 <= Rabs (B2Rf (nth (j * n + k) l 0%float) * B2Rf (nth (i * n + k) l 0%float))) /\
    (forall i j, (i < n)%nat -> (j < i)%nat ->
       let s := (nth (i * n + j) a 0 - dot_raw (FO tbl) (firstn j (skipn (j * n) l)) (firstn j (skipn (i * n) l)))%float in
       B2Rf s / B2Rf (nth (j * n + j) l 0%float) = 0 \/ / 2 ^ 1022 <= Rabs (B2Rf s / B2Rf (nth (j * n + j) l 0%float))).
Proof. exact cholesky_conditions_from_computed. Qed.

(** the hypotheses are satisfiable: the SPD matrix [[3,1,1],[1,3,1],[1,1,3]] (no entry of its factor is
    representable: l_00 = sqrt 3, l_10 = 1 / sqrt 3, ...), factored inside Coq on binary64 *)
Example C11_example_cholesky_backward_error :
  let a := [3; 1; 1;  1; 3; 1;  1; 1; 3]%float in
  exists l,
    cholesky FO0 a = Some l /\ (3 * 3)%nat = length a /\
    Forall finite l /\
    (forall i j k, (i < 3)%nat -> (j <= i)%nat -> (k < j)%nat ->
       B2Rf (nth (j * 3 + k) l 0%float) * B2Rf (nth (i * 3 + k) l 0%float) = 0 \/
       / 2 ^ 1022 <= Rabs (B2Rf (nth (j * 3 + k) l 0%float) * B2Rf (nth (i * 3 + k) l 0%float))) /\
    (forall i j, (i < 3)%nat -> (j < i)%nat ->
       let s := (nth (i * 3 + j) a 0 - dot_raw FO0 (firstn j (skipn (j * 3) l)) (firstn j (skipn (i * 3) l)))%float in
       B2Rf s / B2Rf (nth (j * 3 + j) l 0%float) = 0 \/ / 2 ^ 1022 <= Rabs (B2Rf s / B2Rf (nth (j * 3 + j) l 0%float))) /\
    symmetric (map B2Rf a) 3 /\
    B2Rf (nth 0 l 0%float) * B2Rf (nth 0 l 0%float) <> 3.
Proof. exact cholesky_example. Qed.

Example C11_example_cholesky_backward_error_matrix :
  let m := {| nr := 3; nc := 3; dat := [3; 1; 1;  1; 3; 1;  1; 1; 3]%float |} in
  exists r,
    matrix_cholesky FO0 m = Some r /\
    let n := nr m in let a := dat m in let l := dat r in
    Forall finite l /\
    (forall i j k, (i < n)%nat -> (j <= i)%nat -> (k < j)%nat ->
       B2Rf (nth (j * n + k) l 0%float) * B2Rf (nth (i * n + k) l 0%float) = 0 \/
       / 2 ^ 1022 <= Rabs (B2Rf (nth (j * n + k) l 0%float) * B2Rf (nth (i * n + k) l 0%float))) /\
    (forall i j, (i < n)%nat -> (j < i)%nat ->
       let s := (nth (i * n + j) a 0
                 - dot_raw FO0 (firstn n (skipn (j * n) l)) (pad FO0 n (firstn j (skipn (i * n) l))))%float in
       B2Rf s / B2Rf (nth (j * n + j) l 0%float) = 0 \/ / 2 ^ 1022 <= Rabs (B2Rf s / B2Rf (nth (j * n + j) l 0%float))) /\
    symmetric (map B2Rf a) n.
Proof. exact matrix_cholesky_example. Qed.

(** ** Floating point (extension, third link): BACKWARD ERROR OF THE LU FACTORISATION WITH PARTIAL PIVOTING on binary64

    Classical statement (Higham, Thm 9.3, for the row-permuted matrix): the COMPUTED factors of [lu] satisfy
         | P A - L U |_ij  <=  gamma_n (|L| |U|)_ij ,      gamma_n = (1 + 2^-53)^n - 1 ,
    for EVERY run, whatever rows partial pivoting exchanges: row i of P A is row [nth i piv 0] of A, [piv] the returned
    pivot vector (proved to be a permutation on every carrier), [Lof m n i k] / [Uof m n k j] (Spec/Factor.v) the unit
    lower / upper triangular factors packed in the returned array [m] — the same form as the exact-arithmetic
    [C11_lu_reconstructs].  The sweep is the column-oriented Doolittle elimination of the code,
         u_ij = fl( a'_ij - s_ij )  (i <= j),    l_ij = fl( fl( a'_ij - s_ij ) / u_jj )  (i > j),    a' = P A,
         s_ij = the plain loop  s = 0; for k in 0..min(i,j) { s += lu[i*n+k] * lu[k*n+j] }   (NOT the unrolled [dot]),
    identified as subterms of the model by the recurrence below, which holds on EVERY carrier, bit for bit: the rows
    of the array and the entries of the pivot vector are exchanged together, the rows above the current column are
    never moved again, and a row below it is updated with the same operands in the same order wherever it sits, so
    the factors are those of the exchange-free sweep applied to P A.
    Hypotheses, all explicit: every entry of the computed array finite (no overflow anywhere; A is then finite);
    nonzero pivots u_jj (a zero pivot skips the scaling — with partial pivoting the column is then zero —: not
    treated);  no product l_ik u_kj and no quotient (a'_ij - s_ij) / u_jj underflows.
    NOT proved: [lu_solve]'s column sweeps, hence the end-to-end error of the LU branch of [solve]; the zero-pivot case. *)
From Compute Require Import Proofs.C11_FloatLU.

Theorem C11_lu_recurrence :
  forall (T : Type) (O : Ops T) (a m : list T) (piv : list nat) (n : nat),
    lu O a = Some (m, piv) -> (n * n)%nat = length a ->
    length m = (n * n)%nat /\ is_perm piv n /\
    forall i j, (i < n)%nat -> (j < n)%nat -> eqb O (nth (j * n + j) m (zero O)) (zero O) = false ->
      let s := sub O (nth (nth i piv 0%nat * n + j) a (zero O))
                     (fold_left (fun acc k => add O acc (mul O (nth (i * n + k) m (zero O)) (nth (k * n + j) m (zero O))))
                                (seq 0 (Nat.min i j)) (zero O)) in
      nth (i * n + j) m (zero O) = if (j <? i)%nat then div O s (nth (j * n + j) m (zero O)) else s.
Proof. exact @lu_pivoted_recurrence. Qed.

Theorem C11_lu_backward_error_binary64 :
  forall (tbl : libm_table) (a m : list float) (piv : list nat) (n : nat),
    lu (FO tbl) a = Some (m, piv) -> (n * n)%nat = length a ->
    Forall finite m ->
    (forall j, (j < n)%nat -> B2Rf (nth (j * n + j) m 0%float) <> 0) ->
    (forall i j k, (i < n)%nat -> (j < n)%nat -> (k < Nat.min i j)%nat ->
       B2Rf (nth (i * n + k) m 0%float) * B2Rf (nth (k * n + j) m 0%float) = 0 \/
       / 2 ^ 1022 <= Rabs (B2Rf (nth (i * n + k) m 0%float) * B2Rf (nth (k * n + j) m 0%float))) ->
    (forall i j, (i < n)%nat -> (j < i)%nat ->
       let s := (nth (nth i piv 0%nat * n + j) a 0
                 - fold_left (fun acc k => acc + nth (i * n + k) m 0 * nth (k * n + j) m 0) (seq 0 j) 0)%float in
       B2Rf s / B2Rf (nth (j * n + j) m 0%float) = 0 \/ / 2 ^ 1022 <= Rabs (B2Rf s / B2Rf (nth (j * n + j) m 0%float))) ->
    let A := map B2Rf a in let M := map B2Rf m in
    let gamma := (1 + / 2 ^ 53) ^ n - 1 in
    length m = (n * n)%nat /\ is_perm piv n /\ Forall finite a /\
    forall i j, (i < n)%nat -> (j < n)%nat ->
      Rabs (getm A n (nth i piv 0%nat) j - rsum (fun k => Lof M n i k * Uof M n k j) n)
      <= gamma * rsum (fun k => Rabs (Lof M n i k) * Rabs (Uof M n k j)) n.
Proof. exact lu_backward_error. Qed.

(** [Matrix::lu] (same model, identical factors on every carrier: [C11_slice_eq_matrix_lu]) *)
Theorem C11_lu_backward_error_matrix_binary64 :
  forall (tbl : libm_table) (mm r : matrix (T:=float)) (piv : list nat),
    matrix_lu (FO tbl) mm = Some (r, piv) ->
    let n := nr mm in let a := dat mm in let m := dat r in
    Forall finite m ->
    (forall j, (j < n)%nat -> B2Rf (nth (j * n + j) m 0%float) <> 0) ->
    (forall i j k, (i < n)%nat -> (j < n)%nat -> (k < Nat.min i j)%nat ->
       B2Rf (nth (i * n + k) m 0%float) * B2Rf (nth (k * n + j) m 0%float) = 0 \/
       / 2 ^ 1022 <= Rabs (B2Rf (nth (i * n + k) m 0%float) * B2Rf (nth (k * n + j) m 0%float))) ->
    (forall i j, (i < n)%nat -> (j < i)%nat ->
       let s := (nth (nth i piv 0%nat * n + j) a 0
                 - fold_left (fun acc k => acc + nth (i * n + k) m 0 * nth (k * n + j) m 0) (seq 0 j) 0)%float in
       B2Rf s / B2Rf (nth (j * n + j) m 0%float) = 0 \/ / 2 ^ 1022 <= Rabs (B2Rf s / B2Rf (nth (j * n + j) m 0%float))) ->
    let A := map B2Rf a in let M := map B2Rf m in
    let gamma := (1 + / 2 ^ 53) ^ n - 1 in
    nr r = n /\ nc r = n /\ length m = (n * n)%nat /\ is_perm piv n /\ Forall finite a /\
    forall i j, (i < n)%nat -> (j < n)%nat ->
      Rabs (getm A n (nth i piv 0%nat) j - rsum (fun k => Lof M n i k * Uof M n k j) n)
      <= gamma * rsum (fun k => Rabs (Lof M n i k) * Rabs (Uof M n k j)) n.
Proof. exact matrix_lu_backward_error. Qed.

(** the special case in which partial pivoting exchanges no row: the returned pivot vector is the identity [seq 0 n]
    (position j of the vector is never touched after step j, so this means that no exchange happened at any step),
    and the statement is about A itself.  (Proved first, hence the name; it is the theorem above at [piv = seq 0 n].) *)
Theorem C11_lu_backward_error_no_row_swap_partial_binary64 :
  forall (tbl : libm_table) (a m : list float) (n : nat),
    lu (FO tbl) a = Some (m, seq 0 n) -> (n * n)%nat = length a ->
    Forall finite m ->
    (forall j, (j < n)%nat -> B2Rf (nth (j * n + j) m 0%float) <> 0) ->
    (forall i j k, (i < n)%nat -> (j < n)%nat -> (k < Nat.min i j)%nat ->
       B2Rf (nth (i * n + k) m 0%float) * B2Rf (nth (k * n + j) m 0%float) = 0 \/
       / 2 ^ 1022 <= Rabs (B2Rf (nth (i * n + k) m 0%float) * B2Rf (nth (k * n + j) m 0%float))) ->
    (forall i j, (i < n)%nat -> (j < i)%nat ->
       let s := (nth (i * n + j) a 0
                 - fold_left (fun acc k => acc + nth (i * n + k) m 0 * nth (k * n + j) m 0) (seq 0 j) 0)%float in
       B2Rf s / B2Rf (nth (j * n + j) m 0%float) = 0 \/ / 2 ^ 1022 <= Rabs (B2Rf s / B2Rf (nth (j * n + j) m 0%float))) ->
    let A := map B2Rf a in let M := map B2Rf m in
    let gamma := (1 + / 2 ^ 53) ^ n - 1 in
    length m = (n * n)%nat /\ Forall finite a /\
    forall i j, (i < n)%nat -> (j < n)%nat ->
      Rabs (getm A n i j - rsum (fun k => Lof M n i k * Uof M n k j) n)
      <= gamma * rsum (fun k => Rabs (Lof M n i k) * Rabs (Uof M n k j)) n.
Proof. exact lu_backward_error_no_row_swap. Qed.

(** an identity pivot vector at the end means that the exchange-free sweep [ns_step] was run (every carrier) *)
Theorem C11_lu_identity_pivots_means_no_exchange :
  forall (T : Type) (O : Ops T) (n : nat) (M0 M' : list (list T)),
    lu_rows O M0 n = (M', seq 0 n) ->
    M' = fold_left (fun M j => scale_col O (set_col M j (col_update O M j n)) j) (seq 0 n) M0.
Proof. exact @lu_rows_no_swap. Qed.

(** satisfiable, WITH an exchange: rows 0 and 1 of [[1,3,1],[3,1,1],[1,1,3]] are exchanged at step 0
    (pivot vector [1;0;2]; l_10 = fl(1/3), 3 l_10 <> 1) ... *)
Example C11_example_lu_backward_error :
  let a := [1; 3; 1;  3; 1; 1;  1; 1; 3]%float in
  exists m piv,
    lu FO0 a = Some (m, piv) /\ (3 * 3)%nat = length a /\ piv = [1; 0; 2]%nat /\
    Forall finite m /\
    (forall j, (j < 3)%nat -> B2Rf (nth (j * 3 + j) m 0%float) <> 0) /\
    (forall i j k, (i < 3)%nat -> (j < 3)%nat -> (k < Nat.min i j)%nat ->
       B2Rf (nth (i * 3 + k) m 0%float) * B2Rf (nth (k * 3 + j) m 0%float) = 0 \/
       / 2 ^ 1022 <= Rabs (B2Rf (nth (i * 3 + k) m 0%float) * B2Rf (nth (k * 3 + j) m 0%float))) /\
    (forall i j, (i < 3)%nat -> (j < i)%nat ->
       let s := (nth (nth i piv 0%nat * 3 + j) a 0
                 - fold_left (fun acc k => acc + nth (i * 3 + k) m 0 * nth (k * 3 + j) m 0) (seq 0 j) 0)%float in
       B2Rf s / B2Rf (nth (j * 3 + j) m 0%float) = 0 \/ / 2 ^ 1022 <= Rabs (B2Rf s / B2Rf (nth (j * 3 + j) m 0%float))) /\
    3 * B2Rf (nth 3 m 0%float) <> 1.
Proof. exact lu_pivoted_example. Qed.

(** ... and without: [[3,1,1],[1,3,1],[1,1,3]] (every pivot already on the diagonal) *)
Example C11_example_lu_backward_error_no_row_swap :
  let a := [3; 1; 1;  1; 3; 1;  1; 1; 3]%float in
  exists m,
    lu FO0 a = Some (m, seq 0 3) /\ (3 * 3)%nat = length a /\
    Forall finite m /\
    (forall j, (j < 3)%nat -> B2Rf (nth (j * 3 + j) m 0%float) <> 0) /\
    (forall i j k, (i < 3)%nat -> (j < 3)%nat -> (k < Nat.min i j)%nat ->
       B2Rf (nth (i * 3 + k) m 0%float) * B2Rf (nth (k * 3 + j) m 0%float) = 0 \/
       / 2 ^ 1022 <= Rabs (B2Rf (nth (i * 3 + k) m 0%float) * B2Rf (nth (k * 3 + j) m 0%float))) /\
    (forall i j, (i < 3)%nat -> (j < i)%nat ->
       let s := (nth (i * 3 + j) a 0
                 - fold_left (fun acc k => acc + nth (i * 3 + k) m 0 * nth (k * 3 + j) m 0) (seq 0 j) 0)%float in
       B2Rf s / B2Rf (nth (j * 3 + j) m 0%float) = 0 \/ / 2 ^ 1022 <= Rabs (B2Rf s / B2Rf (nth (j * 3 + j) m 0%float))) /\
    3 * B2Rf (nth 3 m 0%float) <> 1.
Proof. exact lu_no_swap_example. Qed.

(** ** Floating point (extension, fourth link): the two COLUMN SWEEPS of [lu_solve] on binary64

    [lu_solve] copies [b] through the pivot vector and runs a forward sweep with the unit lower triangle and a
    backward sweep with the upper triangle, both column-oriented ([for k { for i { x[i] -= x[k] * lu[i*n+k] } }]).
    Row by row (recurrences below, every carrier) they perform
         y_i = ( ... ((b'_i - y_0 l_i0) - y_1 l_i1) ... - y_(i-1) l_i,i-1 ) ,          b'_i = b[piv[i]] ,
         x_i = ( ... ((y_i - x_(n-1) u_i,n-1) - x_(n-2) u_i,n-2) ... - x_(i+1) u_i,i+1 ) / u_ii ,
    every operation rounded.  With the errors of the subtractions and of the division taken relative to the ROUNDED
    values only the matrix is perturbed:  | P b - L y |_i <= gamma_n (|L||y|)_i ,  | y - U x |_i <= gamma_n (|U||x|)_i
    (row i even with exponent i resp. n - i), equivalently  L' y = P b,  U' x = y  with |L' - L| <= gamma_n |L|,
    |U' - U| <= gamma_n |U| entrywise (L', U' written down, [b] unperturbed),  gamma_n = (1 + 2^-53)^n - 1.
    Hypotheses: the pivot vector has length n;  computed y and x finite (no overflow);  nonzero pivots;  no product
    y_k l_ik, x_k u_ik and no quotient s_i / u_ii underflows ([y] is the vector after the forward sweep, a subterm of
    the model).  Composed with [C11_lu_backward_error_binary64] in property C01 ([C01_lu_branch_backward_error_binary64]). *)
From Compute Require Import Proofs.C11_FloatLUSolve.

Theorem C11_lu_solve_sweeps_recurrence :
  forall (T : Type) (O : Ops T) (M : list (list T)) (n : nat) (x0 : list T),
    length x0 = n ->
    let y := fwd_elim O M n x0 in let x := back_elim O M n y in
    length y = n /\ length x = n /\
    (forall i, (i < n)%nat ->
       nth i y (zero O) =
       fold_left (fun s k => sub O s (mul O (nth k y (zero O)) (ent (zero O) M i k))) (seq 0 i) (nth i x0 (zero O))) /\
    (forall i, (i < n)%nat ->
       nth i x (zero O) =
       div O (fold_left (fun s k => sub O s (mul O (nth k x (zero O)) (ent (zero O) M i k)))
                        (rev (seq (S i) (n - S i))) (nth i y (zero O)))
             (ent (zero O) M i i)).
Proof. exact @lu_solve_sweeps_recurrence. Qed.

Theorem C11_lu_solve_backward_error_binary64 :
  forall (tbl : libm_table) (m : list float) (piv : list nat) (b y x : list float) (n : nat),
    lu_solve (FO tbl) m piv b = Some x -> length b = n -> length piv = n ->
    y = fwd_elim (FO tbl) (unflatten m n n) n (map (fun p => nth p b 0%float) piv) ->
    Forall finite y -> Forall finite x ->
    (forall i, (i < n)%nat -> B2Rf (nth (i * n + i) m 0%float) <> 0) ->
    (forall i k, (i < n)%nat -> (k < i)%nat ->
       B2Rf (nth k y 0%float) * B2Rf (nth (i * n + k) m 0%float) = 0 \/
       / 2 ^ 1022 <= Rabs (B2Rf (nth k y 0%float) * B2Rf (nth (i * n + k) m 0%float))) ->
    (forall i k, (i < k)%nat -> (k < n)%nat ->
       B2Rf (nth k x 0%float) * B2Rf (nth (i * n + k) m 0%float) = 0 \/
       / 2 ^ 1022 <= Rabs (B2Rf (nth k x 0%float) * B2Rf (nth (i * n + k) m 0%float))) ->
    (forall i, (i < n)%nat ->
       let s := fold_left (fun s k => (s - nth k x 0 * nth (i * n + k) m 0)%float) (rev (seq (S i) (n - S i))) (nth i y 0%float) in
       B2Rf s / B2Rf (nth (i * n + i) m 0%float) = 0 \/ / 2 ^ 1022 <= Rabs (B2Rf s / B2Rf (nth (i * n + i) m 0%float))) ->
    let M := map B2Rf m in let B := map B2Rf b in let Y := map B2Rf y in let X := map B2Rf x in
    let gamma := (1 + / 2 ^ 53) ^ n - 1 in
    length m = (n * n)%nat /\ x = back_elim (FO tbl) (unflatten m n n) n y /\ length x = n /\
    (forall i, (i < n)%nat -> finite (nth (nth i piv 0%nat) b 0%float)) /\
    (forall i, (i < n)%nat ->
       Rabs (nth (nth i piv 0%nat) B 0 - rsum (fun k => Lof M n i k * nth k Y 0) n)
       <= gamma * rsum (fun k => Rabs (Lof M n i k) * Rabs (nth k Y 0)) n) /\
    (forall i, (i < n)%nat ->
       Rabs (nth i Y 0 - rsum (fun k => Uof M n i k * nth k X 0) n)
       <= gamma * rsum (fun k => Rabs (Uof M n i k) * Rabs (nth k X 0)) n) /\
    exists L' U' : list R,
      length L' = (n * n)%nat /\ length U' = (n * n)%nat /\
      (forall i k, (i < n)%nat -> (k < n)%nat -> Rabs (getm L' n i k - Lof M n i k) <= gamma * Rabs (Lof M n i k)) /\
      (forall k j, (k < n)%nat -> (j < n)%nat -> Rabs (getm U' n k j - Uof M n k j) <= gamma * Rabs (Uof M n k j)) /\
      (forall i, (i < n)%nat -> mvec L' n Y i = nth (nth i piv 0%nat) B 0) /\
      (forall i, (i < n)%nat -> mvec U' n X i = nth i Y 0) /\
      (forall i, (i < n)%nat -> rsum (fun k => getm L' n i k * mvec U' n X k) n = nth (nth i piv 0%nat) B 0).
Proof. exact lu_solve_backward_error. Qed.

(** [Solve<Vector>::lu_solve] (the Matrix method) runs the slice routine on the receiver's data *)
Theorem C11_lu_solve_backward_error_matrix_binary64 :
  forall (tbl : libm_table) (mm : matrix (T:=float)) (piv : list nat) (b y x : list float),
    matrix_lu_solve (FO tbl) mm piv b = Some x ->
    let n := nr mm in let m := dat mm in
    length piv = n ->
    y = fwd_elim (FO tbl) (unflatten m n n) n (map (fun p => nth p b 0%float) piv) ->
    Forall finite y -> Forall finite x ->
    (forall i, (i < n)%nat -> B2Rf (nth (i * n + i) m 0%float) <> 0) ->
    (forall i k, (i < n)%nat -> (k < i)%nat ->
       B2Rf (nth k y 0%float) * B2Rf (nth (i * n + k) m 0%float) = 0 \/
       / 2 ^ 1022 <= Rabs (B2Rf (nth k y 0%float) * B2Rf (nth (i * n + k) m 0%float))) ->
    (forall i k, (i < k)%nat -> (k < n)%nat ->
       B2Rf (nth k x 0%float) * B2Rf (nth (i * n + k) m 0%float) = 0 \/
       / 2 ^ 1022 <= Rabs (B2Rf (nth k x 0%float) * B2Rf (nth (i * n + k) m 0%float))) ->
    (forall i, (i < n)%nat ->
       let s := fold_left (fun s k => (s - nth k x 0 * nth (i * n + k) m 0)%float) (rev (seq (S i) (n - S i))) (nth i y 0%float) in
       B2Rf s / B2Rf (nth (i * n + i) m 0%float) = 0 \/ / 2 ^ 1022 <= Rabs (B2Rf s / B2Rf (nth (i * n + i) m 0%float))) ->
    let M := map B2Rf m in let B := map B2Rf b in let Y := map B2Rf y in let X := map B2Rf x in
    let gamma := (1 + / 2 ^ 53) ^ n - 1 in
    length b = n /\ length x = n /\
    exists L' U' : list R,
      length L' = (n * n)%nat /\ length U' = (n * n)%nat /\
      (forall i k, (i < n)%nat -> (k < n)%nat -> Rabs (getm L' n i k - Lof M n i k) <= gamma * Rabs (Lof M n i k)) /\
      (forall k j, (k < n)%nat -> (j < n)%nat -> Rabs (getm U' n k j - Uof M n k j) <= gamma * Rabs (Uof M n k j)) /\
      (forall i, (i < n)%nat -> mvec L' n Y i = nth (nth i piv 0%nat) B 0) /\
      (forall i, (i < n)%nat -> mvec U' n X i = nth i Y 0) /\
      (forall i, (i < n)%nat -> rsum (fun k => getm L' n i k * mvec U' n X k) n = nth (nth i piv 0%nat) B 0).
Proof. exact matrix_lu_solve_backward_error. Qed.

(** satisfiable: the factors of [[1,3,1],[3,1,1],[1,1,3]] (pivot vector [1;0;2]) and b = (1,1,1), inside Coq on binary64 *)
Example C11_example_lu_solve_backward_error :
  let a := [1; 3; 1;  3; 1; 1;  1; 1; 3]%float in let b := [1; 1; 1]%float in
  exists m piv y x,
    lu FO0 a = Some (m, piv) /\ lu_solve FO0 m piv b = Some x /\ length b = 3%nat /\ length piv = 3%nat /\
    y = fwd_elim FO0 (unflatten m 3 3) 3 (map (fun p => nth p b 0%float) piv) /\
    Forall finite y /\ Forall finite x /\
    (forall i, (i < 3)%nat -> B2Rf (nth (i * 3 + i) m 0%float) <> 0) /\
    (forall i k, (i < 3)%nat -> (k < i)%nat ->
       B2Rf (nth k y 0%float) * B2Rf (nth (i * 3 + k) m 0%float) = 0 \/
       / 2 ^ 1022 <= Rabs (B2Rf (nth k y 0%float) * B2Rf (nth (i * 3 + k) m 0%float))) /\
    (forall i k, (i < k)%nat -> (k < 3)%nat ->
       B2Rf (nth k x 0%float) * B2Rf (nth (i * 3 + k) m 0%float) = 0 \/
       / 2 ^ 1022 <= Rabs (B2Rf (nth k x 0%float) * B2Rf (nth (i * 3 + k) m 0%float))) /\
    (forall i, (i < 3)%nat ->
       let s := fold_left (fun s k => (s - nth k x 0 * nth (i * 3 + k) m 0)%float) (rev (seq (S i) (3 - S i))) (nth i y 0%float) in
       B2Rf s / B2Rf (nth (i * 3 + i) m 0%float) = 0 \/ / 2 ^ 1022 <= Rabs (B2Rf s / B2Rf (nth (i * 3 + i) m 0%float))).
Proof. exact lu_solve_example. Qed.

(** ** Tie A, fourth round: the [Matrix] forms of the routing predicates are the source (regenerated from
    src/linalg/array/matrix.rs on every run by tools/tiea/compare_loops.py).  [Matrix::is_symmetric] (relative tolerance,
    upper triangle against lower) and [Matrix::is_positive_definite] (symmetric with a positive diagonal) -- what
    [Matrix::cholesky] and [MVN::new] assert -- read the flat vector at [i * ncols + j] / [j * nrows + i]; the models of
    Model/Subst.v read rows.  Equal for every field values satisfying the struct invariant [nrows * ncols <= len(data)]
    (enforced by [Matrix::new]; without it the source panics on the out-of-bounds read). *)
From Compute Require Import Base.RsExprMore Base.RsExprFour Generated.compare_loops Proofs.TieA_compare_loops.
Theorem C11_model_is_source_matrix_is_symmetric :
  forall (T : Type) (O : Ops T) (m : @matrix T), (nr m * nc m <= length (dat m))%nat ->
    src_matrix_is_symmetric O (dat m) (Z.of_nat (nr m)) (Z.of_nat (nc m)) = Some (matrix_is_symmetric O m).
Proof. exact @tiea_matrix_is_symmetric. Qed.
Theorem C11_model_is_source_matrix_is_positive_definite :
  forall (T : Type) (O : Ops T) (m : @matrix T), (nr m * nc m <= length (dat m))%nat ->
    src_matrix_is_positive_definite O (dat m) (Z.of_nat (nr m)) (Z.of_nat (nc m)) = Some (matrix_is_positive_definite O m).
Proof. exact @tiea_matrix_is_positive_definite. Qed.
(** [Matrix::det] ([let (lu, p) = self.lu(); lu.diag().prod() * ipiv_parity(&p) as f64]) and [Matrix::lu_det] (regenerated from
    src/linalg/array/matrix.rs by tools/tiea/det_loops.py; [Matrix::lu] = [matrix_lu], [Vector::prod], [ipiv_parity] instantiated by
    their models).  [det] holds for EVERY field values: the factor [Matrix::lu] returns is proved well-formed and square. *)
From Compute Require Import Generated.det_loops Proofs.TieA_det_loops.
Theorem C11_model_is_source_matrix_det :
  forall (T : Type) (O : Ops T) (m : @matrix T),
    src_matrix_det O ipiv_parity_z (matrix_lu_z O) (prod O) (dat m) (Z.of_nat (nr m)) (Z.of_nat (nc m)) = matrix_det O m.
Proof. exact @tiea_matrix_det. Qed.
Theorem C11_model_is_source_matrix_lu_det :
  forall (T : Type) (O : Ops T) (m : @matrix T) (piv : list nat), well_formed m = true ->
    src_matrix_lu_det O ipiv_parity_z (prod O) (dat m) (Z.of_nat (nr m)) (Z.of_nat (nc m)) (map Z.of_nat piv) = matrix_lu_det O m piv.
Proof. exact @tiea_matrix_lu_det. Qed.
Theorem C11_matrix_lu_result_well_formed :
  forall (T : Type) (O : Ops T) (m l : @matrix T) (piv : list nat), matrix_lu O m = Some (l, piv) -> well_formed l = true /\ nr l = nc l.
Proof. exact @matrix_lu_wf. Qed.
