(** * C16 — linear interpolation reproduces knots and honours the out-of-range mode.
    Statements only; proofs are in Proofs/C16.v.  [interp1 O x y n m t] is one iteration of the target
    loop of interp1d_linear_unchecked (n = x.len()), [interp_unchecked] / [interp_checked] the two
    public routines; [None] is a panic.  The theorems over [RO] are about exact real arithmetic;
    those over an arbitrary [O] hold on every carrier, hence bit for bit on binary64. *)
From Coq Require Import List Arith Bool Reals Floats Lia Lra.
From Compute Require Import Base.Ops Base.ListMat Model.Interp Spec.Interp Proofs.C16.
From Compute Require Import Spec.InterpBinary64.
From Compute Require Proofs.C16Float.
From Compute Require Import Generated.interp_dispatch Proofs.C16Dispatch.
Import ListNotations.
Local Open Scope R_scope.

(** ** Knots and interior targets (every mode: an in-range target never consults the mode) *)

(** at a knot the result is that knot's ordinate, exactly *)
Theorem C16_interp_at_knot :
  forall (x y : list R) (m : mode R) (j : nat),
    increasing x -> (2 <= length x)%nat -> (j < length x)%nat ->
    interp1 RO x y (length x) m (nth j x 0) = Some (nth j y 0).
Proof. exact @interp_at_knot. Qed.

(** a target anywhere in segment j (ends included) gets the value of the straight line through the
    two neighbouring knots, and that value lies between their ordinates *)
Theorem C16_interp_inside :
  forall (x y : list R) (m : mode R) (j : nat) (t : R),
    increasing x -> (2 <= length x)%nat -> (S j < length x)%nat ->
    nth j x 0 <= t <= nth (S j) x 0 ->
    interp1 RO x y (length x) m t =
      Some (line (nth j x 0) (nth j y 0) (nth (S j) x 0) (nth (S j) y 0) t) /\
    between (nth j y 0) (nth (S j) y 0)
            (line (nth j x 0) (nth j y 0) (nth (S j) x 0) (nth (S j) y 0) t).
Proof. exact @interp_inside. Qed.

(** ** Below the first abscissa *)
Theorem C16_below_range_panic :
  forall (x y : list R) (t : R),
    (2 <= length x)%nat -> t < nth 0 x 0 -> interp1 RO x y (length x) MPanic t = None.
Proof. exact @below_range_panic. Qed.

Theorem C16_below_range_fill :
  forall (x y : list R) (l r t : R),
    (2 <= length x)%nat -> t < nth 0 x 0 -> interp1 RO x y (length x) (MFill l r) t = Some l.
Proof. exact @below_range_fill. Qed.

Theorem C16_below_range_extrapolate :
  forall (x y : list R) (t : R),
    increasing x -> (2 <= length x)%nat -> t < nth 0 x 0 ->
    interp1 RO x y (length x) MExtrap t =
    Some (line (nth 0 x 0) (nth 0 y 0) (nth 1 x 0) (nth 1 y 0) t).
Proof. exact @below_range_extrapolate. Qed.

(** ** Above the last abscissa (false of the original code: D29) *)
Theorem C16_above_range_panic :
  forall (x y : list R) (t : R),
    increasing x -> (2 <= length x)%nat -> nth (length x - 1) x 0 < t ->
    interp1 RO x y (length x) MPanic t = None.
Proof. exact @above_range_panic. Qed.

Theorem C16_above_range_fill :
  forall (x y : list R) (l r t : R),
    increasing x -> (2 <= length x)%nat -> nth (length x - 1) x 0 < t ->
    interp1 RO x y (length x) (MFill l r) t = Some r.
Proof. exact @above_range_fill. Qed.

Theorem C16_above_range_extrapolate :
  forall (x y : list R) (t : R),
    increasing x -> (2 <= length x)%nat -> nth (length x - 1) x 0 < t ->
    interp1 RO x y (length x) MExtrap t =
    Some (line (nth (length x - 2) x 0) (nth (length x - 2) y 0)
               (nth (length x - 1) x 0) (nth (length x - 1) y 0) t).
Proof. exact @above_range_extrapolate. Qed.

(** ** The mode dispatch on every carrier (hence bit for bit on binary64, whatever the data: unsorted,
    NaN, infinite): only the comparisons [x[0] > t] and [t > x[n-1]] decide *)
Theorem C16_below_range_any_carrier :
  forall (T : Type) (O : Ops T) (x y : list T) (n : nat) (m : mode T) (t : T),
    (2 <= n)%nat -> ltb O t (nth 0 x (zero O)) = true ->
    interp1 O x y n m t =
    match m with
    | MPanic => None
    | MFill l r => Some l
    | MExtrap => Some (extrap_left O x y t)
    end.
Proof. exact @below_range_any_carrier. Qed.

Theorem C16_above_range_any_carrier :
  forall (T : Type) (O : Ops T) (x y : list T) (n : nat) (m : mode T) (t : T),
    (2 <= n)%nat -> x <> [] -> ltb O t (nth 0 x (zero O)) = false ->
    ltb O (nth (n - 1) x (zero O)) t = true ->
    interp1 O x y n m t =
    match m with
    | MPanic => None
    | MFill l r => Some r
    | MExtrap => Some (extrap_right O x y n t)
    end.
Proof. exact @above_range_any_carrier. Qed.

(** ** All targets at once: the per-target function meets the specification [interp_spec]
    (Spec/Interp.v) at every real target, and the specification admits one outcome only *)
Theorem C16_interp1_meets_spec :
  forall (x y : list R) (m : mode R) (t : R),
    increasing x -> (2 <= length x)%nat ->
    interp_spec x y m t (interp1 RO x y (length x) m t).
Proof. exact @interp1_meets_spec. Qed.

Theorem C16_interp_spec_functional :
  forall (x y : list R) (m : mode R) (t : R) (r1 r2 : option R),
    increasing x -> (2 <= length x)%nat ->
    interp_spec x y m t r1 -> interp_spec x y m t r2 -> r1 = r2.
Proof. exact @interp_spec_functional. Qed.

(** ** The routines over a list of targets *)

(** on every carrier: the routine is the per-target function applied to each target in order, and
    it panics exactly when some target does *)
Theorem C16_unchecked_pointwise :
  forall (T : Type) (O : Ops T) (x y tgt : list T) (m : mode T),
    length x = length y ->
    match interp_unchecked O x y tgt m with
    | Some r => Forall2 (fun t v => interp1 O x y (length x) m t = Some v) tgt r
    | None => exists t, In t tgt /\ interp1 O x y (length x) m t = None
    end.
Proof. exact @unchecked_pointwise. Qed.

Theorem C16_unchecked_meets_spec :
  forall (x y tgt : list R) (m : mode R),
    increasing x -> (2 <= length x)%nat -> length y = length x ->
    match interp_unchecked RO x y tgt m with
    | Some r => Forall2 (fun t v => interp_spec x y m t (Some v)) tgt r
    | None => exists t, In t tgt /\ interp_spec x y m t None
    end.
Proof. exact @unchecked_meets_spec. Qed.

(** acceptance: a value per target unless the mode is Panic and some target is out of range *)
Theorem C16_unchecked_returns :
  forall (x y tgt : list R) (m : mode R),
    increasing x -> (2 <= length x)%nat -> length y = length x ->
    (m = MPanic -> forall t, In t tgt -> nth 0 x 0 <= t <= nth (length x - 1) x 0) ->
    exists r, interp_unchecked RO x y tgt m = Some r /\ length r = length tgt.
Proof. exact @unchecked_returns. Qed.

(** interpolating at the knots themselves returns exactly the ordinates, in every mode *)
Theorem C16_knots_roundtrip :
  forall (x y : list R) (m : mode R),
    increasing x -> (2 <= length x)%nat -> length y = length x ->
    interp_unchecked RO x y x m = Some y.
Proof. exact @knots_roundtrip. Qed.

(** rejection: in Panic mode one target outside the range, on either side, panics the call *)
Theorem C16_unchecked_panics :
  forall (x y tgt : list R) (t : R),
    increasing x -> (2 <= length x)%nat ->
    In t tgt -> (t < nth 0 x 0 \/ nth (length x - 1) x 0 < t) ->
    interp_unchecked RO x y tgt MPanic = None.
Proof. exact @unchecked_panics. Qed.

(** ** The checked variant and the length test *)
Theorem C16_checked_rejects_unsorted :
  forall (x y tgt : list R) (m : mode R),
    has_descent x -> interp_checked RO x y tgt m = None.
Proof. exact @checked_rejects_unsorted. Qed.

Theorem C16_checked_accepts_sorted :
  forall (x y tgt : list R) (m : mode R),
    increasing x -> (1 <= length x)%nat ->
    interp_checked RO x y tgt m = interp_unchecked RO x y tgt m.
Proof. exact @checked_accepts_sorted. Qed.

(** on every carrier: one adjacent pair with [x[i+1] - x[i] < 0.] true panics the checked variant *)
Theorem C16_checked_rejects_any_carrier :
  forall (T : Type) (O : Ops T) (x y tgt : list T) (m : mode T),
    (exists i, (S i < length x)%nat /\
               ltb O (sub O (nth (S i) x (zero O)) (nth i x (zero O))) (zero O) = true) ->
    interp_checked O x y tgt m = None.
Proof. exact @checked_rejects_any_carrier. Qed.

Theorem C16_rejects_length_mismatch :
  forall (T : Type) (O : Ops T) (x y tgt : list T) (m : mode T),
    length x <> length y ->
    interp_unchecked O x y tgt m = None /\ interp_checked O x y tgt m = None.
Proof. exact @rejects_length_mismatch. Qed.

(** ** On binary64 (the carrier the correspondence check runs): at every knot of finite, strictly
    increasing abscissae with finite ordinates and segment widths that do not overflow, the result
    is a value numerically equal to the knot's ordinate (a -0 ordinate may come back as +0, hence
    [eqb] and not bit equality).  No rounding occurs: the ratio is exactly 0 or 1. *)
Theorem C16_interp_at_knot_binary64 :
  forall (tbl : libm_table) (x y : list PrimFloat.float) (m : mode PrimFloat.float),
    (2 <= length x)%nat ->
    (forall i, (i < length x)%nat -> PrimFloat.is_finite (nth i x 0%float) = true) ->
    (forall i, (S i < length x)%nat -> PrimFloat.ltb (nth i x 0%float) (nth (S i) x 0%float) = true) ->
    (forall i, (i < length x)%nat -> PrimFloat.is_finite (nth i y 0%float) = true) ->
    (forall i, (S i < length x)%nat ->
               PrimFloat.is_finite (PrimFloat.sub (nth (S i) x 0%float) (nth i x 0%float)) = true) ->
    forall j, (j < length x)%nat ->
    exists v, interp1 (FO tbl) x y (length x) m (nth j x 0%float) = Some v /\
              PrimFloat.eqb v (nth j y 0%float) = true.
Proof. exact @Proofs.C16Float.interp_at_knot_binary64. Qed.

(** the whole call at the knots themselves, on binary64: one result per knot, each numerically equal
    to the ordinate *)
Theorem C16_knots_roundtrip_binary64 :
  forall (tbl : libm_table) (x y : list PrimFloat.float) (m : mode PrimFloat.float),
    (2 <= length x)%nat ->
    (forall i, (i < length x)%nat -> PrimFloat.is_finite (nth i x 0%float) = true) ->
    (forall i, (S i < length x)%nat -> PrimFloat.ltb (nth i x 0%float) (nth (S i) x 0%float) = true) ->
    (forall i, (i < length x)%nat -> PrimFloat.is_finite (nth i y 0%float) = true) ->
    (forall i, (S i < length x)%nat ->
               PrimFloat.is_finite (PrimFloat.sub (nth (S i) x 0%float) (nth i x 0%float)) = true) ->
    length y = length x ->
    exists r, interp_unchecked (FO tbl) x y x m = Some r /\ length r = length x /\
              forall j, (j < length x)%nat -> PrimFloat.eqb (nth j r 0%float) (nth j y 0%float) = true.
Proof. exact @Proofs.C16Float.knots_roundtrip_binary64. Qed.

(** the mode dispatch for finite targets outside the range of finite, strictly increasing abscissae *)
Theorem C16_below_range_binary64 :
  forall (tbl : libm_table) (x y : list PrimFloat.float) (m : mode PrimFloat.float),
    (2 <= length x)%nat ->
    (forall i, (i < length x)%nat -> PrimFloat.is_finite (nth i x 0%float) = true) ->
    forall t, PrimFloat.is_finite t = true -> FR t < FR (nth 0 x 0%float) ->
    interp1 (FO tbl) x y (length x) m t =
    match m with
    | MPanic => None
    | MFill l r => Some l
    | MExtrap => Some (extrap_left (FO tbl) x y t)
    end.
Proof. exact @Proofs.C16Float.below_range_binary64. Qed.

Theorem C16_above_range_binary64 :
  forall (tbl : libm_table) (x y : list PrimFloat.float) (m : mode PrimFloat.float),
    (2 <= length x)%nat ->
    (forall i, (i < length x)%nat -> PrimFloat.is_finite (nth i x 0%float) = true) ->
    (forall i, (S i < length x)%nat -> PrimFloat.ltb (nth i x 0%float) (nth (S i) x 0%float) = true) ->
    forall t, PrimFloat.is_finite t = true -> FR (nth (length x - 1) x 0%float) < FR t ->
    interp1 (FO tbl) x y (length x) m t =
    match m with
    | MPanic => None
    | MFill l r => Some r
    | MExtrap => Some (extrap_right (FO tbl) x y (length x) t)
    end.
Proof. exact @Proofs.C16Float.above_range_binary64. Qed.

(** in range, the scan brackets the target between two adjacent knots and the result is the
    convex-combination formula evaluated in binary64 on that segment ... *)
Theorem C16_in_range_binary64 :
  forall (tbl : libm_table) (x y : list PrimFloat.float) (m : mode PrimFloat.float),
    (2 <= length x)%nat ->
    (forall i, (i < length x)%nat -> PrimFloat.is_finite (nth i x 0%float) = true) ->
    forall t, PrimFloat.is_finite t = true ->
    FR (nth 0 x 0%float) <= FR t <= FR (nth (length x - 1) x 0%float) ->
    exists k, (S k < length x)%nat /\
              FR (nth k x 0%float) <= FR t <= FR (nth (S k) x 0%float) /\
              interp1 (FO tbl) x y (length x) m t = Some (segment_value (FO tbl) x y (S k) t).
Proof. exact @Proofs.C16Float.in_range_binary64. Qed.

(** ... whose ratio (t - a) / (b - a) is finite and lies in [0, 1] (rounding is monotone), provided the
    segment width b - a does not overflow *)
Theorem C16_ratio_unit_interval_binary64 :
  forall a b t : PrimFloat.float,
    PrimFloat.is_finite a = true -> PrimFloat.is_finite b = true -> PrimFloat.is_finite t = true ->
    FR a < FR b -> FR a <= FR t <= FR b -> PrimFloat.is_finite (b - a)%float = true ->
    PrimFloat.is_finite ((t - a) / (b - a))%float = true /\
    0 <= FR ((t - a) / (b - a))%float <= 1.
Proof. exact @Proofs.C16Float.ratio_unit_interval. Qed.

(** the checked variant rejects every finite knot vector with a descent, also when the difference
    underflows (gradual underflow: it cannot round to zero) or overflows (to -inf) *)
Theorem C16_checked_rejects_unsorted_binary64 :
  forall (tbl : libm_table) (x y tgt : list PrimFloat.float) (m : mode PrimFloat.float),
    (forall i, (i < length x)%nat -> PrimFloat.is_finite (nth i x 0%float) = true) ->
    (exists i, (S i < length x)%nat /\ FR (nth (S i) x 0%float) < FR (nth i x 0%float)) ->
    interp_checked (FO tbl) x y tgt m = None.
Proof. exact @Proofs.C16Float.checked_rejects_unsorted_binary64. Qed.

(** "between the two ordinates" holds on the reals (C16_interp_inside); on binary64 it holds only up to
    rounding: with both ordinates 1.9 the value at t = 5e-4 is one ulp above 1.9 *)
Example C16_between_only_up_to_rounding_binary64 :
  let y := 0x1.e666666666666p+0%float in
  exists v, interp1 FO0 [0; 1]%float [y; y] 2 MPanic 0x1.0624dd2f1a9fcp-11%float = Some v /\
            PrimFloat.ltb y v = true.
Proof. eexists; split; [vm_compute; reflexivity | vm_compute; reflexivity]. Qed.

Example C16_example_binary64 :
  let x := [0; 1; 3]%float in let y := [2; 4; -2]%float in
  (2 <= length x)%nat /\
  (forall i, (i < length x)%nat -> PrimFloat.is_finite (nth i x 0%float) = true) /\
  (forall i, (S i < length x)%nat -> PrimFloat.ltb (nth i x 0%float) (nth (S i) x 0%float) = true) /\
  (forall i, (i < length x)%nat -> PrimFloat.is_finite (nth i y 0%float) = true) /\
  (forall i, (S i < length x)%nat ->
             PrimFloat.is_finite (PrimFloat.sub (nth (S i) x 0%float) (nth i x 0%float)) = true) /\
  interp1 FO0 x y (length x) MPanic 3%float = Some (-2)%float /\
  interp1 FO0 x y (length x) MPanic 2%float = Some 1%float.
Proof.
  intros x y. cbn [length x y]. repeat split; try lia;
    try (intros [|[|[|i]]] Hi; try lia; reflexivity).
Qed.

(** ** Tie A: [target_step] is regenerated from src/functions/interpolate.rs on every run (everything
    one loop iteration does after the bracketing scan, slice bounds checks included).  Fed with the
    scan's index it is the model's per-target function, on every carrier; and none of its paths
    falls through without pushing a value or panicking (so the result has one entry per target). *)
Theorem C16_dispatch_agrees :
  forall (T : Type) (O : Ops T) (x y : list T) (n : nat) (m : mode T) (t : T),
    (1 <= n)%nat ->
    target_step O x y n (scan O x (n - 1) t) t (to_xmode m) =
    match interp1 O x y n m t with Some v => Push v | None => Abort end.
Proof. exact @dispatch_agrees. Qed.

Theorem C16_dispatch_never_skips :
  forall (T : Type) (O : Ops T) (x y : list T) (n idx : nat) (t : T) (xm : xmode T),
    target_step O x y n idx t xm <> Skip.
Proof. exact @dispatch_never_skips. Qed.

(** ** The hypotheses are satisfiable on a non-trivial instance: three unevenly spaced knots, a target
    strictly inside the second segment, one below, one above, and an unsorted knot vector *)
Example C16_example :
  let x := [0; 1; 3] in let y := [2; 4; -2] in
  increasing x /\ (2 <= length x)%nat /\ length y = length x /\
  interp1 RO x y (length x) MPanic 2 = Some 1 /\
  interp1 RO x y (length x) MPanic 3 = Some (-2) /\
  interp1 RO x y (length x) (MFill 7 9) (-1) = Some 7 /\
  interp1 RO x y (length x) (MFill 7 9) 4 = Some 9 /\
  interp1 RO x y (length x) MPanic 4 = None /\
  interp1 RO x y (length x) MExtrap 4 = Some (-5) /\
  interp1 RO x y (length x) MExtrap (-1) = Some 0 /\
  has_descent [0; 3; 1] /\ interp_checked RO [0; 3; 1] y [2] MExtrap = None.
Proof.
  intros x y.
  assert (Hinc : increasing x).
  { intros i j Hij. unfold x in *. cbn [length] in Hij.
    destruct i as [|[|[|i]]]; destruct j as [|[|[|j]]]; cbn [nth]; try lia; lra. }
  assert (Hn : (2 <= length x)%nat) by (cbn; lia).
  assert (Hd : has_descent [0; 3; 1]) by (exists 1%nat; cbn [length nth]; split; [lia | lra]).
  split; [exact Hinc|]. split; [exact Hn|]. split; [reflexivity|].
  split. { destruct (C16_interp_inside x y MPanic 1 2 Hinc Hn) as [E _]; [cbn; lia | cbn [nth x]; lra |].
           rewrite E. f_equal. unfold line; cbn [nth x y]. field. }
  split. { exact (C16_interp_at_knot x y MPanic 2 Hinc Hn ltac:(cbn; lia)). }
  split. { apply C16_below_range_fill; [exact Hn | cbn [nth x]; lra]. }
  split. { apply C16_above_range_fill; [exact Hinc | exact Hn | cbn [nth x length Nat.sub]; lra]. }
  split. { apply C16_above_range_panic; [exact Hinc | exact Hn | cbn [nth x length Nat.sub]; lra]. }
  split. { rewrite C16_above_range_extrapolate; [| exact Hinc | exact Hn | cbn [nth x length Nat.sub]; lra].
           f_equal. unfold line; cbn [nth x y length Nat.sub]. field. }
  split. { rewrite C16_below_range_extrapolate; [| exact Hinc | exact Hn | cbn [nth x]; lra].
           f_equal. unfold line; cbn [nth x y]. field. }
  split; [exact Hd|]. apply C16_checked_rejects_unsorted; exact Hd.
Qed.

(** ** Tie A for the bracketing scan: the model's [scan] IS the source's loop.
    [Generated/interp_loops.v] is regenerated on every run from src/functions/interpolate.rs by the statement-level
    translator (tools/rsexpr.py, [LoopTranslator.fragment]; target tools/tiea/interp_loops.py): the two statements
    [let mut idx = 0; for j in 0..n - 1 { if x[j] > tgt[i] { break; } idx += 1; }] as a fold with [break] over the range,
    with checked reads and the wrapped [n - 1] ([usize] in [Z], a panic is [None]).  (tools/tiea/interp_dispatch.py only
    pattern-checks these statements.)  For every carrier, at least one abscissa and a target in bounds the generated loop
    returns [scan x (n - 1) tgt[i]]; with no abscissa it panics. *)
Local Close Scope R_scope.
From Coq Require Import ZArith.
From Compute Require Import Base.RsExpr Generated.interp_loops Proofs.TieA_interp_loops.
Theorem C16_model_is_source_scan :
  forall (T : Type) (O : Ops T) (x tgt : list T) (i : nat) (t : T),
    nth_error tgt i = Some t -> (1 <= length x)%nat ->
    src_scan O x tgt (Z.of_nat i) (Z.of_nat (length x)) = Some (Z.of_nat (scan O x (length x - 1) t)).
Proof. exact @tiea_scan. Qed.
Theorem C16_model_is_source_scan_empty :
  forall (T : Type) (O : Ops T) (tgt : list T) (i : Z), src_scan O [] tgt i 0%Z = None.
Proof. exact @tiea_scan_empty. Qed.

(** ** On binary64, inside a segment: between the two ordinates UP TO ROUNDING, and close to the real chord (extension).
    [C16_interp_inside] (reals) says the value lies between the two neighbouring ordinates; on binary64 that is false as an
    exact statement ([C16_between_only_up_to_rounding_binary64]: one ulp outside).  What holds, for every knot vector of finite,
    strictly increasing abscissae whose segment widths do not overflow, every finite target inside the range and every mode:
    the model returns the binary64 value  v = ratio*y1 + (1 - ratio)*y0  (the code's operation order: two products, one
    subtraction, one addition, each rounded to nearest) of the bracketing segment [x_k, x_k+1], with 0 <= ratio <= 1, and
    whenever v is FINITE (no overflow of the final addition; the products cannot overflow; finiteness of v forces finite
    ordinates), with u = 2^-53:
      - [C16_between_up_to_rounding_binary64]
            min(y0,y1) - 3u|min(y0,y1)| - 2^-1073  <=  v  <=  max(y0,y1) + 3u|max(y0,y1)| + 2^-1073
        with NO side condition on underflow (2^-1073 = twice the smallest subnormal covers two underflowing products), and, when
        neither of the two products ratio*y1, (1 - ratio)*y0 underflows (each exact product is 0 or at least 2^-1022 in magnitude),
            min(y0,y1) - 3u max(|y0|,|y1|)  <=  v  <=  max(y0,y1) + 3u max(|y0|,|y1|);
      - [C16_chord_error_binary64]  | v - (ratio*y1 + (1 - ratio)*y0 over the reals) |  <=  3u max(|y0|,|y1|) + 2^-1073,
        the term 2^-1073 being absent when neither product underflows.
    The constant 3 comes from three roundings on every path from an ordinate to the result, each of relative size at most
    u/(1+u), and (1 + u/(1+u))^3 <= 1 + 3u. *)
Local Open Scope R_scope.
From Compute Require Proofs.C16Err.

Theorem C16_between_up_to_rounding_binary64 :
  forall (tbl : libm_table) (x y : list PrimFloat.float) (m : mode PrimFloat.float),
    (2 <= length x)%nat ->
    (forall i, (i < length x)%nat -> PrimFloat.is_finite (nth i x 0%float) = true) ->
    (forall i, (S i < length x)%nat -> PrimFloat.ltb (nth i x 0%float) (nth (S i) x 0%float) = true) ->
    (forall i, (S i < length x)%nat ->
               PrimFloat.is_finite (PrimFloat.sub (nth (S i) x 0%float) (nth i x 0%float)) = true) ->
    forall t, PrimFloat.is_finite t = true ->
    FR (nth 0 x 0%float) <= FR t <= FR (nth (length x - 1) x 0%float) ->
    exists k v, (S k < length x)%nat /\
      FR (nth k x 0%float) <= FR t <= FR (nth (S k) x 0%float) /\
      interp1 (FO tbl) x y (length x) m t = Some v /\
      let ratio := ((t - nth k x 0%float) / (nth (S k) x 0%float - nth k x 0%float))%float in
      let y0 := nth k y 0%float in let y1 := nth (S k) y 0%float in
      v = (ratio * y1 + (1 - ratio) * y0)%float /\
      (PrimFloat.is_finite v = true ->
       (Rmin (FR y0) (FR y1) - 3 * / 2 ^ 53 * Rabs (Rmin (FR y0) (FR y1)) - / 2 ^ 1073 <= FR v
        <= Rmax (FR y0) (FR y1) + 3 * / 2 ^ 53 * Rabs (Rmax (FR y0) (FR y1)) + / 2 ^ 1073) /\
       ((FR ratio * FR y1 = 0 \/ / 2 ^ 1022 <= Rabs (FR ratio * FR y1)) ->
        (FR (1 - ratio) * FR y0 = 0 \/ / 2 ^ 1022 <= Rabs (FR (1 - ratio) * FR y0)) ->
        Rmin (FR y0) (FR y1) - 3 * / 2 ^ 53 * Rmax (Rabs (FR y0)) (Rabs (FR y1)) <= FR v
        <= Rmax (FR y0) (FR y1) + 3 * / 2 ^ 53 * Rmax (Rabs (FR y0)) (Rabs (FR y1)))).
Proof. exact @Proofs.C16Err.between_up_to_rounding_binary64. Qed.

Theorem C16_chord_error_binary64 :
  forall (tbl : libm_table) (x y : list PrimFloat.float) (m : mode PrimFloat.float),
    (2 <= length x)%nat ->
    (forall i, (i < length x)%nat -> PrimFloat.is_finite (nth i x 0%float) = true) ->
    (forall i, (S i < length x)%nat -> PrimFloat.ltb (nth i x 0%float) (nth (S i) x 0%float) = true) ->
    (forall i, (S i < length x)%nat ->
               PrimFloat.is_finite (PrimFloat.sub (nth (S i) x 0%float) (nth i x 0%float)) = true) ->
    forall t, PrimFloat.is_finite t = true ->
    FR (nth 0 x 0%float) <= FR t <= FR (nth (length x - 1) x 0%float) ->
    exists k v, (S k < length x)%nat /\
      FR (nth k x 0%float) <= FR t <= FR (nth (S k) x 0%float) /\
      interp1 (FO tbl) x y (length x) m t = Some v /\
      let ratio := ((t - nth k x 0%float) / (nth (S k) x 0%float - nth k x 0%float))%float in
      let y0 := nth k y 0%float in let y1 := nth (S k) y 0%float in
      v = (ratio * y1 + (1 - ratio) * y0)%float /\
      0 <= FR ratio <= 1 /\
      (PrimFloat.is_finite v = true ->
       Rabs (FR v - (FR ratio * FR y1 + (1 - FR ratio) * FR y0))
         <= 3 * / 2 ^ 53 * Rmax (Rabs (FR y0)) (Rabs (FR y1)) + / 2 ^ 1073 /\
       ((FR ratio * FR y1 = 0 \/ / 2 ^ 1022 <= Rabs (FR ratio * FR y1)) ->
        (FR (1 - ratio) * FR y0 = 0 \/ / 2 ^ 1022 <= Rabs (FR (1 - ratio) * FR y0)) ->
        Rabs (FR v - (FR ratio * FR y1 + (1 - FR ratio) * FR y0))
          <= 3 * / 2 ^ 53 * Rmax (Rabs (FR y0)) (Rabs (FR y1)))).
Proof. exact @Proofs.C16Err.chord_error_binary64. Qed.

(** the same two bounds for the bare formula, for any binary64 ratio in [0,1] and any two ordinates (what the two theorems above
    instantiate at the bracketing segment) *)
Theorem C16_segment_formula_rounding_binary64 :
  forall r y0 y1 : PrimFloat.float,
    PrimFloat.is_finite r = true -> 0 <= FR r <= 1 ->
    PrimFloat.is_finite (r * y1 + (1 - r) * y0)%float = true ->
    (Rmin (FR y0) (FR y1) - 3 * / 2 ^ 53 * Rabs (Rmin (FR y0) (FR y1)) - / 2 ^ 1073 <= FR (r * y1 + (1 - r) * y0)%float
     <= Rmax (FR y0) (FR y1) + 3 * / 2 ^ 53 * Rabs (Rmax (FR y0) (FR y1)) + / 2 ^ 1073) /\
    Rabs (FR (r * y1 + (1 - r) * y0)%float - (FR r * FR y1 + (1 - FR r) * FR y0))
      <= 3 * / 2 ^ 53 * Rmax (Rabs (FR y0)) (Rabs (FR y1)) + / 2 ^ 1073.
Proof.
  intros r y0 y1 Fr Hr Fv. split.
  - exact (proj1 (Proofs.C16Err.convex_between r y0 y1 Fr Hr Fv)).
  - exact (proj1 (Proofs.C16Err.convex_chord_error r y0 y1 Fr Hr Fv)).
Qed.

(** the computed ratio against the real ratio (t - a)/(b - a): three roundings (two differences, one quotient; the quotient alone can
    underflow, absolute error at most 2^-1075) *)
Theorem C16_ratio_error_binary64 :
  forall a b t : PrimFloat.float,
    PrimFloat.is_finite a = true -> PrimFloat.is_finite b = true -> PrimFloat.is_finite t = true ->
    FR a < FR b -> FR a <= FR t <= FR b -> PrimFloat.is_finite (b - a)%float = true ->
    Rabs (FR ((t - a) / (b - a))%float - (FR t - FR a) / (FR b - FR a))
      <= 4 * / 2 ^ 53 * ((FR t - FR a) / (FR b - FR a)) + / 2 ^ 1075.
Proof. exact Proofs.C16Err.ratio_error. Qed.

(** ... hence the binary64 result against the REAL straight line through the two bracketing knots evaluated at the target
    ([line] of Spec/Interp.v, the value [C16_interp_inside] assigns on the reals): for every finite in-range target whose result v is finite,
        | v - line(x_k, y_k, x_k+1, y_k+1, t) |  <=  3u max(|y_k|,|y_k+1|) + (4u + 2^-1075) |y_k+1 - y_k| + 2^-1073     (u = 2^-53),
    where |y_k+1 - y_k| <= 2 max(|y_k|,|y_k+1|) *)
Theorem C16_line_error_binary64 :
  forall (tbl : libm_table) (x y : list PrimFloat.float) (m : mode PrimFloat.float),
    (2 <= length x)%nat ->
    (forall i, (i < length x)%nat -> PrimFloat.is_finite (nth i x 0%float) = true) ->
    (forall i, (S i < length x)%nat -> PrimFloat.ltb (nth i x 0%float) (nth (S i) x 0%float) = true) ->
    (forall i, (S i < length x)%nat ->
               PrimFloat.is_finite (PrimFloat.sub (nth (S i) x 0%float) (nth i x 0%float)) = true) ->
    forall t, PrimFloat.is_finite t = true ->
    FR (nth 0 x 0%float) <= FR t <= FR (nth (length x - 1) x 0%float) ->
    exists k v, (S k < length x)%nat /\
      FR (nth k x 0%float) <= FR t <= FR (nth (S k) x 0%float) /\
      interp1 (FO tbl) x y (length x) m t = Some v /\
      (PrimFloat.is_finite v = true ->
       Rabs (FR v - line (FR (nth k x 0%float)) (FR (nth k y 0%float)) (FR (nth (S k) x 0%float)) (FR (nth (S k) y 0%float)) (FR t))
         <= 3 * / 2 ^ 53 * Rmax (Rabs (FR (nth k y 0%float))) (Rabs (FR (nth (S k) y 0%float)))
            + (4 * / 2 ^ 53 + / 2 ^ 1075) * Rabs (FR (nth (S k) y 0%float) - FR (nth k y 0%float)) + / 2 ^ 1073).
Proof. exact @Proofs.C16Err.line_error_binary64. Qed.

(** overflow is excluded (the value is finite) whenever the ordinates are finite and at most 2^1022 in magnitude *)
Theorem C16_in_segment_finite_binary64 :
  forall (tbl : libm_table) (x y : list PrimFloat.float) (m : mode PrimFloat.float),
    (2 <= length x)%nat ->
    (forall i, (i < length x)%nat -> PrimFloat.is_finite (nth i x 0%float) = true) ->
    (forall i, (S i < length x)%nat -> PrimFloat.ltb (nth i x 0%float) (nth (S i) x 0%float) = true) ->
    (forall i, (S i < length x)%nat ->
               PrimFloat.is_finite (PrimFloat.sub (nth (S i) x 0%float) (nth i x 0%float)) = true) ->
    forall t, PrimFloat.is_finite t = true ->
    FR (nth 0 x 0%float) <= FR t <= FR (nth (length x - 1) x 0%float) ->
    (forall i, (i < length x)%nat ->
               PrimFloat.is_finite (nth i y 0%float) = true /\ Rabs (FR (nth i y 0%float)) <= 2 ^ 1022) ->
    exists v, interp1 (FO tbl) x y (length x) m t = Some v /\ PrimFloat.is_finite v = true.
Proof. exact @Proofs.C16Err.in_segment_finite_binary64. Qed.

(** the hypotheses are satisfiable and the allowance is needed: abscissae [0, 1], both ordinates 1.9, target 5e-4: the value is
    finite, neither product underflows, and it is one ulp ABOVE both ordinates (so the exact "between" fails, the rounded one holds) *)
Example C16_example_between_up_to_rounding :
  let x := [0; 1]%float in let y := [0x1.e666666666666p+0; 0x1.e666666666666p+0]%float in
  let t := 0x1.0624dd2f1a9fcp-11%float in
  (2 <= length x)%nat /\
  (forall i, (i < length x)%nat -> PrimFloat.is_finite (nth i x 0%float) = true) /\
  (forall i, (S i < length x)%nat -> PrimFloat.ltb (nth i x 0%float) (nth (S i) x 0%float) = true) /\
  (forall i, (S i < length x)%nat -> PrimFloat.is_finite (nth (S i) x 0%float - nth i x 0%float)%float = true) /\
  PrimFloat.is_finite t = true /\ FR (nth 0 x 0%float) <= FR t <= FR (nth (length x - 1) x 0%float) /\
  let ratio := ((t - nth 0 x 0%float) / (nth 1 x 0%float - nth 0 x 0%float))%float in
  let v := (ratio * nth 1 y 0%float + (1 - ratio) * nth 0 y 0%float)%float in
  interp1 FO0 x y (length x) MPanic t = Some v /\ PrimFloat.is_finite v = true /\
  (FR ratio * FR (nth 1 y 0%float) = 0 \/ / 2 ^ 1022 <= Rabs (FR ratio * FR (nth 1 y 0%float))) /\
  (FR (1 - ratio) * FR (nth 0 y 0%float) = 0 \/ / 2 ^ 1022 <= Rabs (FR (1 - ratio) * FR (nth 0 y 0%float))) /\
  PrimFloat.ltb (nth 0 y 0%float) v = true.
Proof. exact Proofs.C16Err.between_example. Qed.
Local Close Scope R_scope.

(* ======================================================================================================== *)
(** ** extension (one contiguous block): rounding error of the two extrapolation formulas on binary64, in the form they
    have after the repair "distance ratio instead of slope" (Extrapolate mode, finite targets left / right of the range of
    finite, strictly increasing abscissae whose end widths do not overflow); proofs in Proofs/C16Extrap.v.
        left:   v = y_0     - ratio * (y_1 - y_0),            ratio = (x_0 - t) / (x_1 - x_0)
        right:  v = y_{n-1} + ratio * (y_{n-1} - y_{n-2}),    ratio = (t - x_{n-1}) / (x_{n-1} - x_{n-2})
    With u = 2^-53, Y the ordinate of the nearer end knot, dy the rise of the end segment and T = (distance / dx) * dy the
    exact extrapolation term, against the REAL straight line through the two end knots ([line] of Spec/Interp.v):
        | v - line |  <=  u |Y| + ((1+u)^6 - 1) |T| + (1+u)^3 2^-1075 |dy| + (1+u) 2^-1075     whenever v is finite,
        | v - line |  <=  u |Y| + ((1+u)^6 - 1) |T|     when neither the ratio quotient nor the product underflows
    (each exact value is 0 or at least 2^-1022 in magnitude).  (1+u)^6 - 1 is about 6u: six roundings lie between the
    data and the result along T, one along Y. *)
Local Open Scope R_scope.
From Compute Require Proofs.C16Extrap.

Theorem C16_extrapolate_error_binary64 :
  forall (tbl : libm_table) (x y : list PrimFloat.float),
    (2 <= length x)%nat ->
    (forall i, (i < length x)%nat -> PrimFloat.is_finite (nth i x 0%float) = true) ->
    (forall i, (S i < length x)%nat -> PrimFloat.ltb (nth i x 0%float) (nth (S i) x 0%float) = true) ->
    (forall i, (S i < length x)%nat ->
               PrimFloat.is_finite (PrimFloat.sub (nth (S i) x 0%float) (nth i x 0%float)) = true) ->
    (* targets left of the range *)
    (forall t, PrimFloat.is_finite t = true -> FR t < FR (nth 0 x 0%float) ->
      let x0 := nth 0 x 0%float in let x1 := nth 1 x 0%float in
      let y0 := nth 0 y 0%float in let y1 := nth 1 y 0%float in
      let ratio := ((x0 - t) / (x1 - x0))%float in
      let v := (y0 - ratio * (y1 - y0))%float in
      interp1 (FO tbl) x y (length x) MExtrap t = Some v /\
      (PrimFloat.is_finite v = true ->
       let T := (FR x0 - FR t) / (FR x1 - FR x0) * (FR y1 - FR y0) in
       Rabs (FR v - line (FR x0) (FR y0) (FR x1) (FR y1) (FR t))
         <= / 2 ^ 53 * Rabs (FR y0) + ((1 + / 2 ^ 53) ^ 6 - 1) * Rabs T
            + (1 + / 2 ^ 53) ^ 3 * / 2 ^ 1075 * Rabs (FR y1 - FR y0) + (1 + / 2 ^ 53) * / 2 ^ 1075 /\
       ((FR (x0 - t) / FR (x1 - x0) = 0 \/ / 2 ^ 1022 <= Rabs (FR (x0 - t) / FR (x1 - x0))) ->
        (FR ratio * FR (y1 - y0) = 0 \/ / 2 ^ 1022 <= Rabs (FR ratio * FR (y1 - y0))) ->
        Rabs (FR v - line (FR x0) (FR y0) (FR x1) (FR y1) (FR t))
          <= / 2 ^ 53 * Rabs (FR y0) + ((1 + / 2 ^ 53) ^ 6 - 1) * Rabs T))) /\
    (* targets right of the range *)
    (forall t, PrimFloat.is_finite t = true -> FR (nth (length x - 1) x 0%float) < FR t ->
      let xa := nth (length x - 2) x 0%float in let xb := nth (length x - 1) x 0%float in
      let ya := nth (length x - 2) y 0%float in let yb := nth (length x - 1) y 0%float in
      let ratio := ((t - xb) / (xb - xa))%float in
      let v := (yb + ratio * (yb - ya))%float in
      interp1 (FO tbl) x y (length x) MExtrap t = Some v /\
      (PrimFloat.is_finite v = true ->
       let T := (FR t - FR xb) / (FR xb - FR xa) * (FR yb - FR ya) in
       Rabs (FR v - line (FR xa) (FR ya) (FR xb) (FR yb) (FR t))
         <= / 2 ^ 53 * Rabs (FR yb) + ((1 + / 2 ^ 53) ^ 6 - 1) * Rabs T
            + (1 + / 2 ^ 53) ^ 3 * / 2 ^ 1075 * Rabs (FR yb - FR ya) + (1 + / 2 ^ 53) * / 2 ^ 1075 /\
       ((FR (t - xb) / FR (xb - xa) = 0 \/ / 2 ^ 1022 <= Rabs (FR (t - xb) / FR (xb - xa))) ->
        (FR ratio * FR (yb - ya) = 0 \/ / 2 ^ 1022 <= Rabs (FR ratio * FR (yb - ya))) ->
        Rabs (FR v - line (FR xa) (FR ya) (FR xb) (FR yb) (FR t))
          <= / 2 ^ 53 * Rabs (FR yb) + ((1 + / 2 ^ 53) ^ 6 - 1) * Rabs T))).
Proof.
  intros tbl x y Hn Fx Sx Fw. split; intros t Ft Ht.
  - exact (Proofs.C16Extrap.extrapolate_left_error_binary64 tbl x y Hn Fx Sx Fw t Ft Ht).
  - exact (Proofs.C16Extrap.extrapolate_right_error_binary64 tbl x y Hn Fx Sx Fw t Ft Ht).
Qed.

(** the hypotheses are satisfiable (three knots, an inexact ordinate, one target on each side, no underflow) *)
Theorem C16_example_extrapolate_error_binary64 :
  let x := [0; 1; 3]%float in let y := [1; 0x1.999999999999ap-4; 2.5]%float in
  let tl := (-0.75)%float in let tr := 4.25%float in
  (2 <= length x)%nat /\
  (forall i, (i < length x)%nat -> PrimFloat.is_finite (nth i x 0%float) = true) /\
  (forall i, (S i < length x)%nat -> PrimFloat.ltb (nth i x 0%float) (nth (S i) x 0%float) = true) /\
  (forall i, (S i < length x)%nat -> PrimFloat.is_finite (nth (S i) x 0%float - nth i x 0%float)%float = true) /\
  PrimFloat.is_finite tl = true /\ FR tl < FR (nth 0 x 0%float) /\
  PrimFloat.is_finite tr = true /\ FR (nth (length x - 1) x 0%float) < FR tr /\
  (exists v, interp1 FO0 x y (length x) MExtrap tl = Some v /\ PrimFloat.is_finite v = true) /\
  (exists v, interp1 FO0 x y (length x) MExtrap tr = Some v /\ PrimFloat.is_finite v = true) /\
  (let z := FR (nth 0 x 0%float - tl) / FR (nth 1 x 0%float - nth 0 x 0%float) in
   z = 0 \/ / 2 ^ 1022 <= Rabs z) /\
  (let z := FR ((nth 0 x 0%float - tl) / (nth 1 x 0%float - nth 0 x 0%float))%float * FR (nth 1 y 0%float - nth 0 y 0%float) in
   z = 0 \/ / 2 ^ 1022 <= Rabs z) /\
  (let z := FR (tr - nth 2 x 0%float) / FR (nth 2 x 0%float - nth 1 x 0%float) in
   z = 0 \/ / 2 ^ 1022 <= Rabs z) /\
  (let z := FR ((tr - nth 2 x 0%float) / (nth 2 x 0%float - nth 1 x 0%float))%float * FR (nth 2 y 0%float - nth 1 y 0%float) in
   z = 0 \/ / 2 ^ 1022 <= Rabs z).
Proof. exact Proofs.C16Extrap.extrapolate_example. Qed.
Local Close Scope R_scope.
