(** * C08 — descriptive statistics equal their textbook definitions.
    Statements only; proofs are in Proofs/C08_{moments,cov,order}.v.  The model is Model/Stats.v (the repaired
    tree: D18, D19, D20 fixed); definitions are in Spec/Stats.v.  Unless said otherwise the carrier is the reals
    ([RO]); [min]/[max] are stated on the reals extended by a NaN ([XO]) because the code seeds its folds with
    NaN; the bin-centre and rejection theorems hold on every carrier, hence bit for bit on binary64. *)
From Coq Require Import List Arith Bool Reals QArith Floats Lra Lia.
From Compute Require Import Base.Ops Base.ListMat Base.XReal Model.Reduce Model.Stats Spec.Stats.
From Compute Require Import Proofs.C08_moments Proofs.C08_cov Proofs.C08_order Proofs.C08_binary64 Proofs.C08_refuted Proofs.C08_constant.
Import ListNotations.
Local Close Scope Q_scope.
Local Open Scope R_scope.

(** ** Welford: after any non-empty data list the aggregate is (count, mean, sum of squared deviations) *)
Theorem C08_welford_invariant :
  forall l : list R, l <> [] -> welford_statistics RO l = (length l, mean_def l, ssd l).
Proof. exact @welford_invariant. Qed.

(** ... in particular after every prefix of the data, from which the loop resumes *)
Theorem C08_welford_invariant_prefix :
  forall (data : list R) (k : nat), (1 <= k <= length data)%nat ->
    welford_statistics RO (firstn k data) = (k, mean_def (firstn k data), ssd (firstn k data)) /\
    welford_statistics RO data =
      fold_left (welford_update RO) (skipn k data) (k, mean_def (firstn k data), ssd (firstn k data)).
Proof. exact @welford_invariant_prefix. Qed.

Theorem C08_mean_def : forall l : list R, mean RO l = mean_def l.
Proof. exact @mean_RO. Qed.

(** the unrolled sum adds up the data, for every length (every residue modulo the unroll width) *)
Theorem C08_sum_def : forall l : list R, sum RO l = Rsum l.
Proof. exact @sum_RO. Qed.

Theorem C08_welford_mean_eq_mean :
  forall l : list R, l <> [] -> welford_mean RO l = mean RO l /\ welford_mean RO l = mean_def l.
Proof. intros l H. split; [exact (welford_mean_eq_mean l H)|exact (welford_mean_def l H)]. Qed.

Theorem C08_var_def : forall l : list R, l <> [] -> var RO l = var_def l.
Proof. exact @var_is_def. Qed.

Theorem C08_sample_var_def : forall l : list R, (2 <= length l)%nat -> sample_var RO l = sample_var_def l.
Proof. exact @sample_var_is_def. Qed.

Theorem C08_std_def : forall l : list R, l <> [] -> std RO l = R_sqrt.sqrt (var_def l).
Proof. exact @std_is_def. Qed.

Theorem C08_sample_std_def :
  forall l : list R, (2 <= length l)%nat -> sample_std RO l = R_sqrt.sqrt (sample_var_def l).
Proof. exact @sample_std_is_def. Qed.

Theorem C08_var_nonneg : forall l : list R, l <> [] -> 0 <= var RO l.
Proof. exact @var_nonneg. Qed.

(** shift invariance and quadratic scaling *)
Theorem C08_var_shift :
  forall (l : list R) (c : R), l <> [] -> var RO (map (fun x => x + c) l) = var RO l.
Proof. exact @var_shift. Qed.
Theorem C08_var_scale :
  forall (l : list R) (c : R), l <> [] -> var RO (map (fun x => c * x) l) = c * c * var RO l.
Proof. exact @var_scale. Qed.
Theorem C08_sample_var_shift :
  forall (l : list R) (c : R), (2 <= length l)%nat -> sample_var RO (map (fun x => x + c) l) = sample_var RO l.
Proof. exact @sample_var_shift. Qed.
Theorem C08_sample_var_scale :
  forall (l : list R) (c : R), (2 <= length l)%nat -> sample_var RO (map (fun x => c * x) l) = c * c * sample_var RO l.
Proof. exact @sample_var_scale. Qed.
Theorem C08_mean_shift :
  forall (l : list R) (c : R), l <> [] -> mean RO (map (fun x => x + c) l) = mean RO l + c.
Proof. exact @mean_shift. Qed.
Theorem C08_mean_scale :
  forall (l : list R) (c : R), mean RO (map (fun x => c * x) l) = c * mean RO l.
Proof. exact @mean_scale. Qed.

Example C08_example_moments :
  let l := [2; 4; 4; 4; 5; 5; 7; 9] in
  l <> [] /\ (2 <= length l)%nat /\ (1 <= 3 <= length l)%nat /\
  var QO [2; 4; 4; 4; 5; 5; 7; 9]%Q = 4%Q /\ sample_var QO [2; 4; 4; 4; 5; 5; 7; 9]%Q = (32 # 7)%Q /\
  mean QO [2; 4; 4; 4; 5; 5; 7; 9]%Q = 5%Q /\ welford_mean QO [2; 4; 4; 4; 5; 5; 7; 9; 5]%Q = 5%Q /\
  var QO (map (fun x => Qred (x + 100000000)) [2; 4; 4; 4; 5; 5; 7; 9])%Q = 4%Q.
Proof.
  cbv zeta. split; [discriminate|]. split; [cbn [length]; lia|]. split; [cbn [length]; lia|].
  repeat split; vm_compute; reflexivity.
Qed.

(** ** on binary64: constant data have variance exactly +0 (the "constant" class of the property; no rounding
    noise whatever the magnitude of the constant), and the Welford mean is numerically the constant *)
Theorem C08_constant_data_binary64 :
  forall (tbl : libm_table) (c : float) (n : nat),
    PrimFloat.is_finite c = true -> (1 <= n)%nat -> (Z.of_nat n < 2 ^ 63)%Z ->
    var (FO tbl) (repeat c n) = 0%float /\ std (FO tbl) (repeat c n) = 0%float /\
    PrimFloat.eqb (welford_mean (FO tbl) (repeat c n)) c = true /\
    ((2 <= n)%nat -> sample_var (FO tbl) (repeat c n) = 0%float /\ sample_std (FO tbl) (repeat c n) = 0%float).
Proof. exact @constant_data_binary64. Qed.

Example C08_example_constant :
  PrimFloat.is_finite 0x1.999999999999ap-4%float = true /\ (2 <= 7)%nat /\ (Z.of_nat 7 < 2 ^ 63)%Z /\
  var FO0 (repeat 0x1.999999999999ap-4%float 7) = 0%float /\ welford_mean FO0 (repeat 0x1.999999999999ap-4%float 7) = 0x1.999999999999ap-4%float /\
  mean FO0 (repeat 0x1.999999999999ap-4%float 7) = 0x1.9999999999999p-4%float.
Proof. repeat split; try (vm_compute; reflexivity). auto with arith. Qed.

(** ** covariance: the two-pass, the shifted one-pass (D18 repaired) and the online (D19 repaired) algorithm *)
Theorem C08_covariance_def :
  forall x y : list R, length x = length y -> covariance RO x y = Some (cov_def x y).
Proof. exact @covariance_is_def. Qed.
Theorem C08_sample_covariance_def :
  forall x y : list R, length x = length y -> (2 <= length x)%nat ->
    sample_covariance RO x y = Some (sample_cov_def x y).
Proof. exact @sample_covariance_is_def. Qed.
Theorem C08_onepass_def :
  forall x y : list R, length x = length y -> (2 <= length x)%nat ->
    sample_covariance_onepass RO x y = Some (sample_cov_def x y).
Proof. exact @onepass_is_def. Qed.
Theorem C08_online_def :
  forall x y : list R, length x = length y -> (2 <= length x)%nat ->
    sample_covariance_online RO x y = Some (sample_cov_def x y).
Proof. exact @online_is_def. Qed.
(** the online state after any non-empty data: (mean x, mean y, co-moment, count) *)
Theorem C08_online_invariant :
  forall x y : list R, length x = length y -> x <> [] ->
    online_state RO x y = (mean_def x, mean_def y, scp x y, INR (length x)).
Proof. exact @online_invariant. Qed.
Theorem C08_cov_algorithms_agree :
  forall x y : list R, length x = length y -> (2 <= length x)%nat ->
    sample_covariance_onepass RO x y = sample_covariance RO x y /\
    sample_covariance_online RO x y = sample_covariance RO x y.
Proof. exact @cov_algorithms_agree. Qed.
(** rejection half: vectors of different lengths panic, in all four algorithms, on every carrier *)
Theorem C08_covariance_rejects :
  forall (T : Type) (O : Ops T) (x y : list T), length x <> length y ->
    covariance O x y = None /\ sample_covariance O x y = None /\
    sample_covariance_onepass O x y = None /\ sample_covariance_online O x y = None.
Proof. exact @covariance_rejects. Qed.

Theorem C08_covariance_shift :
  forall (x y : list R) (c d : R), length x = length y -> x <> [] ->
    covariance RO (map (fun a => a + c) x) (map (fun b => b + d) y) = covariance RO x y.
Proof. exact @covariance_shift. Qed.
Theorem C08_covariance_bilinear :
  forall (x y : list R) (s t : R), length x = length y ->
    covariance RO (map (fun a => s * a) x) (map (fun b => t * b) y) = option_map (Rmult (s * t)) (covariance RO x y).
Proof. exact @covariance_bilinear. Qed.
Theorem C08_sample_covariance_shift :
  forall (x y : list R) (c d : R), length x = length y -> (2 <= length x)%nat ->
    sample_covariance RO (map (fun a => a + c) x) (map (fun b => b + d) y) = sample_covariance RO x y /\
    sample_covariance_onepass RO (map (fun a => a + c) x) (map (fun b => b + d) y) = sample_covariance_onepass RO x y /\
    sample_covariance_online RO (map (fun a => a + c) x) (map (fun b => b + d) y) = sample_covariance_online RO x y.
Proof. exact @sample_covariance_shift. Qed.
Theorem C08_sample_covariance_bilinear :
  forall (x y : list R) (s t : R), length x = length y -> (2 <= length x)%nat ->
    sample_covariance RO (map (fun a => s * a) x) (map (fun b => t * b) y) = option_map (Rmult (s * t)) (sample_covariance RO x y) /\
    sample_covariance_onepass RO (map (fun a => s * a) x) (map (fun b => t * b) y) = option_map (Rmult (s * t)) (sample_covariance_onepass RO x y) /\
    sample_covariance_online RO (map (fun a => s * a) x) (map (fun b => t * b) y) = option_map (Rmult (s * t)) (sample_covariance_online RO x y).
Proof. exact @sample_covariance_bilinear. Qed.
Theorem C08_covariance_self :
  forall x : list R, x <> [] -> covariance RO x x = Some (var RO x).
Proof. exact @covariance_self. Qed.
Theorem C08_sample_covariance_self :
  forall x : list R, (2 <= length x)%nat -> sample_covariance RO x x = Some (sample_var RO x).
Proof. exact @sample_covariance_self. Qed.

Example C08_example_covariance :
  let x := [1; 2; 4; 7]%Q in let y := [3; 1; 0; 8]%Q in
  length x = length y /\ (2 <= length x)%nat /\
  sample_covariance QO x y = Some (19 # 3)%Q /\ sample_covariance_onepass QO x y = Some (19 # 3)%Q /\
  sample_covariance_online QO x y = Some (19 # 3)%Q /\ covariance QO x y = Some (19 # 4)%Q /\
  length x <> length [1; 2]%Q /\ sample_covariance_online QO x [1; 2]%Q = None.
Proof.
  cbv zeta. split; [reflexivity|]. split; [cbn [length]; lia|].
  repeat split; try (vm_compute; reflexivity). intros H; vm_compute in H; discriminate H.
Qed.

(** ** extrema: [min]/[max] of NaN-free data are the least/greatest element; NaN entries are skipped *)
Theorem C08_min_is_min :
  forall l : list R, l <> [] -> exists m, min XO (map Some l) = Some m /\ is_min l m.
Proof. exact @min_is_min. Qed.
Theorem C08_max_is_max :
  forall l : list R, l <> [] -> exists m, max XO (map Some l) = Some m /\ is_max l m.
Proof. exact @max_is_max. Qed.
Theorem C08_min_max_skip_nan :
  forall pre post : list XR,
    min XO (pre ++ None :: post) = min XO (pre ++ post) /\ max XO (pre ++ None :: post) = max XO (pre ++ post).
Proof. exact @min_max_skip_nan. Qed.

(** the same on any carrier whose [ltb] is a strict weak order on the non-NaN elements [ok] (binary64 included) *)
Theorem C08_min_is_min_ordered :
  forall (T : Type) (O : Ops T) (ok : T -> Prop),
    (forall x, ok x -> eqb O x x = true) ->
    (forall x, ok x -> ltb O x x = false) ->
    (forall x y z, ok x -> ok y -> ok z -> ltb O x y = true -> ltb O y z = true -> ltb O x z = true) ->
    (forall x y z, ok x -> ok y -> ok z -> ltb O x y = false -> ltb O y z = false -> ltb O x z = false) ->
    is_nan O (f64_nan O) = true ->
    forall l, l <> [] -> Forall ok l ->
      ok (min O l) /\ In (min O l) l /\ forall x, In x l -> ltb O x (min O l) = false.
Proof. exact @min_is_min_gen. Qed.
Theorem C08_max_is_max_ordered :
  forall (T : Type) (O : Ops T) (ok : T -> Prop),
    (forall x, ok x -> eqb O x x = true) ->
    (forall x, ok x -> ltb O x x = false) ->
    (forall x y z, ok x -> ok y -> ok z -> ltb O x y = true -> ltb O y z = true -> ltb O x z = true) ->
    (forall x y z, ok x -> ok y -> ok z -> ltb O x y = false -> ltb O y z = false -> ltb O x z = false) ->
    is_nan O (f64_nan O) = true ->
    forall l, l <> [] -> Forall ok l ->
      ok (max O l) /\ In (max O l) l /\ forall x, In x l -> ltb O (max O l) x = false.
Proof. exact @max_is_max_gen. Qed.

(** [argmin]/[argmax]: the first index at which the extremum is attained, provided the first datum is not
    beyond the seed ([f64::MAX], resp. [f64::MIN] = -MAX): every finite first element qualifies *)
Theorem C08_argmin_first :
  forall l : list R, l <> [] -> hd 0 l <= f64_max RO -> first_argmin l (argmin RO l).
Proof. exact @argmin_first. Qed.
Theorem C08_argmax_first :
  forall l : list R, l <> [] -> f64_min RO <= hd 0 l -> first_argmax l (argmax RO l).
Proof. exact @argmax_first. Qed.
Theorem C08_argmin_first_ordered :
  forall (T : Type) (O : Ops T) (ok : T -> Prop),
    (forall x, ok x -> ltb O x x = false) ->
    (forall x y z, ok x -> ok y -> ok z -> ltb O x y = true -> ltb O y z = true -> ltb O x z = true) ->
    (forall x y z, ok x -> ok y -> ok z -> ltb O x y = false -> ltb O y z = false -> ltb O x z = false) ->
    forall (d : T) (l : list T), l <> [] -> Forall ok l -> ok (f64_max O) -> ltb O (f64_max O) (hd d l) = false ->
      (argmin O l < length l)%nat /\
      (forall j, (j < length l)%nat -> ltb O (nth j l d) (nth (argmin O l) l d) = false) /\
      (forall j, (j < argmin O l)%nat -> ltb O (nth (argmin O l) l d) (nth j l d) = true).
Proof. exact @argmin_first_gen. Qed.
Theorem C08_argmax_first_ordered :
  forall (T : Type) (O : Ops T) (ok : T -> Prop),
    (forall x, ok x -> ltb O x x = false) ->
    (forall x y z, ok x -> ok y -> ok z -> ltb O x y = true -> ltb O y z = true -> ltb O x z = true) ->
    (forall x y z, ok x -> ok y -> ok z -> ltb O x y = false -> ltb O y z = false -> ltb O x z = false) ->
    forall (d : T) (l : list T), l <> [] -> Forall ok l -> ok (f64_min O) -> ltb O (hd d l) (f64_min O) = false ->
      (argmax O l < length l)%nat /\
      (forall j, (j < length l)%nat -> ltb O (nth (argmax O l) l d) (nth j l d) = false) /\
      (forall j, (j < argmax O l)%nat -> ltb O (nth j l d) (nth (argmax O l) l d) = true).
Proof. exact @argmax_first_gen. Qed.
(** ... and on binary64 itself ([PrimFloat.ltb] is a strict weak order on the non-NaN floats, infinities and
    signed zeros included — Flocq's IEEE-754 semantics): for NaN-free data [min]/[max] return an element of the
    data that no element is less/greater than, and [argmin]/[argmax] the first index attaining it when the first
    datum is within +-f64::MAX.  These are statements about the very term the correspondence runs. *)
Theorem C08_min_is_min_binary64 :
  forall (tbl : libm_table) (l : list float), l <> [] -> Forall (fun x => PrimFloat.eqb x x = true) l ->
    PrimFloat.eqb (min (FO tbl) l) (min (FO tbl) l) = true /\ In (min (FO tbl) l) l /\
    forall x, In x l -> PrimFloat.ltb x (min (FO tbl) l) = false.
Proof. exact @min_is_min_binary64. Qed.
Theorem C08_max_is_max_binary64 :
  forall (tbl : libm_table) (l : list float), l <> [] -> Forall (fun x => PrimFloat.eqb x x = true) l ->
    PrimFloat.eqb (max (FO tbl) l) (max (FO tbl) l) = true /\ In (max (FO tbl) l) l /\
    forall x, In x l -> PrimFloat.ltb (max (FO tbl) l) x = false.
Proof. exact @max_is_max_binary64. Qed.
Theorem C08_argmin_first_binary64 :
  forall (tbl : libm_table) (d : float) (l : list float), l <> [] -> Forall (fun x => PrimFloat.eqb x x = true) l ->
    PrimFloat.ltb 0x1.fffffffffffffp+1023 (hd d l) = false ->
    (argmin (FO tbl) l < length l)%nat /\
    (forall j, (j < length l)%nat -> PrimFloat.ltb (nth j l d) (nth (argmin (FO tbl) l) l d) = false) /\
    (forall j, (j < argmin (FO tbl) l)%nat -> PrimFloat.ltb (nth (argmin (FO tbl) l) l d) (nth j l d) = true).
Proof. exact @argmin_first_binary64. Qed.
Theorem C08_argmax_first_binary64 :
  forall (tbl : libm_table) (d : float) (l : list float), l <> [] -> Forall (fun x => PrimFloat.eqb x x = true) l ->
    PrimFloat.ltb (hd d l) (-0x1.fffffffffffffp+1023) = false ->
    (argmax (FO tbl) l < length l)%nat /\
    (forall j, (j < length l)%nat -> PrimFloat.ltb (nth (argmax (FO tbl) l) l d) (nth j l d) = false) /\
    (forall j, (j < argmax (FO tbl) l)%nat -> PrimFloat.ltb (nth j l d) (nth (argmax (FO tbl) l) l d) = true).
Proof. exact @argmax_first_binary64. Qed.

Example C08_example_extrema_binary64 :
  let l := [3; neg_infinity; 2; -0; neg_infinity; infinity]%float in
  l <> [] /\ Forall (fun x => PrimFloat.eqb x x = true) l /\
  PrimFloat.ltb 0x1.fffffffffffffp+1023 (hd 0%float l) = false /\
  PrimFloat.ltb (hd 0%float l) (-0x1.fffffffffffffp+1023) = false /\
  argmin FO0 l = 1%nat /\ argmax FO0 l = 5%nat.
Proof.
  cbv zeta. split; [discriminate|]. split; [repeat constructor|]. repeat split; vm_compute; reflexivity.
Qed.

(** Matrix::argmin / argmax: (row, column) of that first index; a matrix without columns panics *)
Theorem C08_matrix_argmin :
  forall (l : list R) (nc : nat), l <> [] -> hd 0 l <= f64_max RO ->
    match matrix_argmin RO l nc with
    | None => nc = 0%nat
    | Some (r, c) => (0 < nc)%nat /\ (c < nc)%nat /\ first_argmin l (r * nc + c)
    end.
Proof. exact @matrix_argmin_spec. Qed.
Theorem C08_matrix_argmax :
  forall (l : list R) (nc : nat), l <> [] -> f64_min RO <= hd 0 l ->
    match matrix_argmax RO l nc with
    | None => nc = 0%nat
    | Some (r, c) => (0 < nc)%nat /\ (c < nc)%nat /\ first_argmax l (r * nc + c)
    end.
Proof. exact @matrix_argmax_spec. Qed.

(** the hypotheses are satisfiable (ties at the extremum; on binary64: the model returns the first of the tied
    indices, skips a NaN, and returns NaN on no data); outside the guard — first element +inf, beyond the seed —
    the index is NOT the first minimum: the seed f64::MAX survives (observation, outside C08's finite data) *)
Example C08_example_extrema :
  let l := [3; 1; 2; 1; 3] in
  l <> [] /\ hd 0 l <= f64_max RO /\ f64_min RO <= hd 0 l /\
  argmin FO0 [3; 1; 2; 1; 3]%float = 1%nat /\ argmax FO0 [3; 1; 2; 1; 3]%float = 0%nat /\
  min FO0 [3; nan; 1; 2]%float = 1%float /\ max FO0 [3; nan; 1; 2]%float = 3%float /\
  is_nan FO0 (min FO0 []) = true /\ is_nan FO0 (f64_nan FO0) = true /\
  matrix_argmin FO0 [3; 1; 2; 1; 3; 0]%float 3 = Some (1%nat, 2%nat) /\
  argmin FO0 [infinity; 0x1.fffffffffffffp+1023]%float = 0%nat.
Proof.
  cbv zeta. split; [discriminate|]. split; [|split].
  - cbn [hd f64_max ofLit RO fst]. unfold f64_max_q, Q2R. cbn [Qnum Qden inject_Z]. 
    replace (IZR (9007199254740991 * 2 ^ 971)) with (IZR 3 + IZR (9007199254740991 * 2 ^ 971 - 3)) by (rewrite <- plus_IZR; f_equal; ring).
    assert (0 <= IZR (9007199254740991 * 2 ^ 971 - 3)) by (apply IZR_le; vm_compute; discriminate).
    rewrite Rinv_1, Rmult_1_r. lra.
  - cbn [hd f64_min ofLit RO fst]. unfold f64_max_q, Q2R. cbn [Qnum Qden inject_Z Qopp].
    assert (IZR (- (9007199254740991 * 2 ^ 971)) <= 0) by (apply IZR_le; vm_compute; discriminate).
    rewrite Rinv_1, Rmult_1_r. lra.
  - repeat split; vm_compute; reflexivity.
Qed.

(** ** bin centres (D20 repaired): at least two edges are accepted and every centre is the midpoint of its
    bin, uniform or not; fewer than two edges panic.  Any carrier. *)
Theorem C08_bin_centres_def :
  forall (T : Type) (O : Ops T) (e : list T),
    if (2 <=? length e)%nat then
      exists c, hist_bin_centers O e = Some c /\
                is_midpoints (add O) (fun s => div O s (ofZ O 2)) e c
    else hist_bin_centers O e = None.
Proof. exact @hist_bin_centers_spec. Qed.

Example C08_example_bin_centres :
  hist_bin_centers QO [0; 1; 3; 7]%Q = Some [1 # 2; 2; 5]%Q /\ hist_bin_centers QO [4]%Q = None /\
  hist_bin_centers FO0 [0; 1; 3]%float = Some [0.5; 2]%float.
Proof. repeat split; vm_compute; reflexivity. Qed.

(** ** the pinned tree did not satisfy these clauses: the pre-repair algorithms ([Proofs/C08_refuted.v]: the
    shifted one-pass covariance without its correction term (D18), the online covariance with the product of the
    two old-mean deviations divided by n (D19), bin centres by cumulative edge differences (D20)) evaluated on
    exact rationals and on binary64 *)
Theorem C08_original_onepass_refuted :
  exists x y : list Q, length x = length y /\ (2 <= length x)%nat /\
    onepass_original QO x y = Some (5 # 2)%Q /\ sample_covariance QO x y = Some 1%Q /\
    onepass_original FO0 [1; 2; 3]%float [1; 2; 3]%float = Some 2.5%float.
Proof. exact onepass_original_refuted. Qed.
Theorem C08_original_online_refuted :
  exists x y : list Q, length x = length y /\ (2 <= length x)%nat /\
    online_original QO x y = Some (17 # 12)%Q /\ sample_covariance QO x y = Some 1%Q /\ covariance QO x y = Some (2 # 3)%Q /\
    online_original FO0 [1; 2; 3]%float [1; 2; 3]%float = Some 0x1.6aaaaaaaaaaabp+0%float.
Proof. exact online_original_refuted. Qed.
Theorem C08_original_bin_centres_refuted :
  exists e : list Q, (2 <= length e)%nat /\
    hist_original QO e = Some [1 # 2; 3 # 2]%Q /\ hist_bin_centers QO e = Some [1 # 2; 2]%Q /\
    hist_original FO0 [0; 1; 3]%float = Some [0.5; 1.5]%float.
Proof. exact hist_original_refuted. Qed.

(** ** Tie A: the model IS the source.  [Generated/stats_loops.v] is regenerated on every run from
    src/statistics/{moments,covariance,order,hist}.rs by the statement-level translator (tools/rsexpr.py, target
    tools/tiea/stats_loops.py): loops are folds over lists, [usize] lives in [Z] ([x.len()] = [rs_len x], unsigned
    [a - b] = the release build's wrapping [rs_usub]), a panic is [None].  For every carrier, every operations record
    and every data list the generated function and the function of Model/Stats.v agree.  [linalg::sum] (another
    file) is the generated [mean]'s parameter, instantiated by the C04 model [Reduce.sum]. *)
Local Close Scope R_scope.
From Compute Require Import Base.RsExpr Generated.stats_loops Proofs.TieA_stats_loops.
(** the aggregate of the model ([nat] counter) as the source holds it ([usize] counter in [Z]) *)
Theorem C08_model_is_source_welford_update :
  forall (T : Type) (O : Ops T) (count : nat) (mean m2 x : T),
    src_welford_update O (Z.of_nat count, mean, m2) x
    = (let '(c, m, s) := welford_update O (count, mean, m2) x in (Z.of_nat c, m, s)).
Proof. intros T O count mean m2 x. exact (tiea_welford_update O (count, mean, m2) x). Qed.
Theorem C08_model_is_source_welford_statistics :
  forall (T : Type) (O : Ops T) (data : list T),
    src_welford_statistics O data = (let '(c, m, s) := welford_statistics O data in (Z.of_nat c, m, s)).
Proof. exact @tiea_welford_statistics. Qed.
Theorem C08_model_is_source_mean :
  forall (T : Type) (O : Ops T) (data : list T), src_mean O (sum O) data = mean O data.
Proof. exact @tiea_mean. Qed.
Theorem C08_model_is_source_welford_mean :
  forall (T : Type) (O : Ops T) (data : list T), src_welford_mean O data = welford_mean O data.
Proof. exact @tiea_welford_mean. Qed.
Theorem C08_model_is_source_var :
  forall (T : Type) (O : Ops T) (data : list T), src_var O data = var O data.
Proof. exact @tiea_var. Qed.
Theorem C08_model_is_source_sample_var :
  forall (T : Type) (O : Ops T) (data : list T), src_sample_var O data = sample_var O data.
Proof. exact @tiea_sample_var. Qed.
Theorem C08_model_is_source_std :
  forall (T : Type) (O : Ops T) (data : list T), src_std O data = std O data.
Proof. exact @tiea_std. Qed.
Theorem C08_model_is_source_sample_std :
  forall (T : Type) (O : Ops T) (data : list T), src_sample_std O data = sample_std O data.
Proof. exact @tiea_sample_std. Qed.
(** covariance.rs: all four algorithms, including the rejection of unequal lengths and the absence of any
    out-of-bounds access (the source's checked [x[i]] never yields [None] once the lengths agree) *)
Theorem C08_model_is_source_covariance :
  forall (T : Type) (O : Ops T) (x y : list T), src_covariance O (sum O) x y = covariance O x y.
Proof. exact @tiea_covariance. Qed.
Theorem C08_model_is_source_sample_covariance :
  forall (T : Type) (O : Ops T) (x y : list T), src_sample_covariance O (sum O) x y = sample_covariance O x y.
Proof. exact @tiea_sample_covariance. Qed.
Theorem C08_model_is_source_sample_covariance_onepass :
  forall (T : Type) (O : Ops T) (x y : list T), src_sample_covariance_onepass O x y = sample_covariance_onepass O x y.
Proof. exact @tiea_sample_covariance_onepass. Qed.
Theorem C08_model_is_source_sample_covariance_online :
  forall (T : Type) (O : Ops T) (x y : list T), src_sample_covariance_online O x y = sample_covariance_online O x y.
Proof. exact @tiea_sample_covariance_online. Qed.
(** order.rs *)
Theorem C08_model_is_source_min :
  forall (T : Type) (O : Ops T) (data : list T), src_min O data = Stats.min O data.
Proof. exact @tiea_min. Qed.
Theorem C08_model_is_source_max :
  forall (T : Type) (O : Ops T) (data : list T), src_max O data = Stats.max O data.
Proof. exact @tiea_max. Qed.
Theorem C08_model_is_source_argmin :
  forall (T : Type) (O : Ops T) (data : list T), src_argmin O data = Z.of_nat (argmin O data).
Proof. exact @tiea_argmin. Qed.
Theorem C08_model_is_source_argmax :
  forall (T : Type) (O : Ops T) (data : list T), src_argmax O data = Z.of_nat (argmax O data).
Proof. exact @tiea_argmax. Qed.
(** hist.rs: the source's literal [2.] is [two O] = 1 + 1 under the translator's literal rule, the model writes
    [ofZ O 2]; the carriers in use identify the two by computation *)
Theorem C08_model_is_source_hist_bin_centers :
  forall (T : Type) (O : Ops T), ofZ O 2 = two O ->
    forall edges : list T, src_hist_bin_centers O edges = hist_bin_centers O edges.
Proof. exact @tiea_hist_bin_centers. Qed.
Theorem C08_model_is_source_hist_bin_centers_carriers :
  ofZ RO 2 = two RO /\ ofZ QO 2 = two QO /\ forall t : libm_table, ofZ (FO t) 2 = two (FO t).
Proof. exact (conj ofZ_two_RO (conj ofZ_two_QO ofZ_two_FO)). Qed.

(* ======================================================================================================== *)
(** ** extension (one contiguous block): binary64 rounding error of the two means, sign of the variance.
    Carrier [FO tbl] (primitive binary64), real value [B2Rf], [finite] = neither infinite nor NaN (Flocq).
    Proofs in Proofs/C08_float.v; u = 2^-53.  Which routine uses what: [mean] = unrolled [sum] / n (C04's sum),
    [welford_mean], [var], [sample_var], [std], [sample_std] read the state of the Welford loop
    ([C08_model_is_source_welford_update]: m_k = m_{k-1} + (x_k - m_{k-1}) / k, M2 += (x_k - m_{k-1}) (x_k - m_k)). *)
From Compute Require Import Proofs.C04ErrF Proofs.C08_float Proofs.C08_floatEx.
Local Open Scope R_scope.

(** "no quotient underflows": along the run of the model, every exact quotient (x_k - m_{k-1}) / k formed after the
    first step (which divides by 1) is zero or at least 2^-1022 in magnitude *)
Theorem C08_welford_no_underflow_unfold :
  forall (tbl : libm_table) (a : nat * PrimFloat.float * PrimFloat.float) (x : PrimFloat.float) (l : list PrimFloat.float),
    (welford_no_underflow tbl a [] <-> True) /\
    (welford_no_underflow tbl a (x :: l) <->
     (fst (fst a) = 0%nat
      \/ (B2Rf (sub (FO tbl) x (snd (fst a))) / INR (S (fst (fst a))) = 0
          \/ / 2 ^ 1022 <= Rabs (B2Rf (sub (FO tbl) x (snd (fst a))) / INR (S (fst (fst a))))))
     /\ welford_no_underflow tbl (welford_update (FO tbl) a x) l).
Proof. intros tbl a x l. split; apply iff_refl. Qed.

(** Welford's running mean: for EVERY non-empty slice of fewer than 2^53 doubles whose computed mean is finite
    (this alone forces every datum and every intermediate mean to be finite) and where no quotient underflows,
    with X any bound on the magnitudes of the data (e.g. their maximum),
        | welford_mean x - (Sigma x_i) / n |  <=  ((1 + 2^-53)^(3 (n-1)) - 1) * X      (about 3 (n-1) 2^-53 X). *)
Theorem C08_welford_mean_error_binary64 :
  forall (tbl : libm_table) (data : list PrimFloat.float) (X : R),
    data <> [] -> (Z.of_nat (length data) < 2 ^ 53)%Z ->
    finite (welford_mean (FO tbl) data) ->
    welford_no_underflow tbl (0%nat, 0%float, 0%float) data ->
    Forall (fun a => Rabs (B2Rf a) <= X) data ->
    Forall finite data /\
    Rabs (B2Rf (welford_mean (FO tbl) data) - Rsum (map B2Rf data) / INR (length data))
    <= ((1 + / 2 ^ 53) ^ (3 * (length data - 1)) - 1) * X.
Proof. exact welford_mean_F_error. Qed.

(** ... and with NO hypothesis on the quotients: the subnormal range costs 2^-1022 next to the data bound *)
Theorem C08_welford_mean_error_binary64_abs :
  forall (tbl : libm_table) (data : list PrimFloat.float) (X : R),
    data <> [] -> (Z.of_nat (length data) < 2 ^ 53)%Z ->
    finite (welford_mean (FO tbl) data) ->
    Forall (fun a => Rabs (B2Rf a) <= X) data ->
    Forall finite data /\
    Rabs (B2Rf (welford_mean (FO tbl) data) - Rsum (map B2Rf data) / INR (length data))
    <= ((1 + / 2 ^ 53) ^ (3 * (length data - 1)) - 1) * (X + / 2 ^ 1022).
Proof. exact welford_mean_F_error_abs. Qed.

(** [mean] = the 8-way unrolled [sum] of C04 followed by one division: C04's bound plus one rounding *)
Theorem C08_mean_error_binary64 :
  forall (tbl : libm_table) (data : list PrimFloat.float),
    data <> [] -> (Z.of_nat (length data) < 2 ^ 53)%Z ->
    finite (mean (FO tbl) data) ->
    (B2Rf (sum (FO tbl) data) / INR (length data) = 0
     \/ / 2 ^ 1022 <= Rabs (B2Rf (sum (FO tbl) data) / INR (length data))) ->
    Rabs (B2Rf (mean (FO tbl) data) - Rsum (map B2Rf data) / INR (length data))
    <= ((1 + / 2 ^ 53) ^ S (length data) - 1) * (Rsum (map Rabs (map B2Rf data)) / INR (length data)).
Proof. exact mean_F_error. Qed.
Theorem C08_mean_error_binary64_abs :
  forall (tbl : libm_table) (data : list PrimFloat.float),
    data <> [] -> (Z.of_nat (length data) < 2 ^ 53)%Z ->
    finite (mean (FO tbl) data) ->
    Rabs (B2Rf (mean (FO tbl) data) - Rsum (map B2Rf data) / INR (length data))
    <= ((1 + / 2 ^ 53) ^ S (length data) - 1) * (Rsum (map Rabs (map B2Rf data)) / INR (length data)) + / 2 ^ 1075.
Proof. exact mean_F_error_abs. Qed.

(** the hypotheses are satisfiable on a non-trivial instance (mixed signs and magnitudes, an inexact literal) *)
Theorem C08_example_mean_error_binary64 :
  let data := [1; 2; 0x1.999999999999ap-4; -3; 0x1p+40; 5]%float in
  data <> [] /\ (Z.of_nat (length data) < 2 ^ 53)%Z /\
  finite (welford_mean FO0 data) /\ finite (mean FO0 data) /\ finite (var FO0 data) /\
  welford_no_underflow empty_tbl (0%nat, 0%float, 0%float) data /\
  (B2Rf (sum FO0 data) / INR (length data) = 0
   \/ / 2 ^ 1022 <= Rabs (B2Rf (sum FO0 data) / INR (length data))) /\
  Forall (fun a => Rabs (B2Rf a) <= 2 ^ 40) data.
Proof. exact welford_mean_example. Qed.

(** the M2 recurrence never goes negative on binary64 as long as nothing overflows: a FINITE computed variance
    (this alone forces every datum, mean, difference and product of the run to be finite) is >= 0.  No underflow
    condition: the new mean never overshoots the datum, so the two factors of each update agree in sign. *)
Theorem C08_var_nonneg_binary64 :
  forall (tbl : libm_table) (data : list PrimFloat.float),
    data <> [] -> (Z.of_nat (length data) < 2 ^ 53)%Z ->
    finite (var (FO tbl) data) ->
    Forall finite data /\ 0 <= B2Rf (var (FO tbl) data).
Proof. exact var_F_nonneg. Qed.
Theorem C08_sample_var_nonneg_binary64 :
  forall (tbl : libm_table) (data : list PrimFloat.float),
    (2 <= length data)%nat -> (Z.of_nat (length data) < 2 ^ 53)%Z ->
    finite (sample_var (FO tbl) data) ->
    Forall finite data /\ 0 <= B2Rf (sample_var (FO tbl) data).
Proof. exact sample_var_F_nonneg. Qed.

(** ... and the finiteness hypothesis cannot be dropped: FINITE data whose spread x - mean overflows get the
    variance MINUS infinity (x2 - m1 = +inf, new mean +inf, x2 - new mean = -inf, M2 = (+inf)(-inf)), and [std] NaN.
    The crate returns the same values on [-1.7e308, 1.7e308] (finding, not repaired). *)
Theorem C08_var_negative_on_overflow_refuted :
  let data := [(-0x1.e42d130773b76p+1023)%float; 0x1.e42d130773b76p+1023%float] in
  Forall finite data /\
  var FO0 data = neg_infinity /\ sample_var FO0 data = neg_infinity /\
  PrimFloat.ltb (var FO0 data) 0 = true /\ is_nan FO0 (std FO0 data) = true.
Proof. exact var_negative_on_overflow. Qed.
Local Close Scope R_scope.
