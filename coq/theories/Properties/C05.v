(** * C05 — matrix products follow the definition for every shape and transpose flag.
    Statements only; proofs are in Proofs/C05.v.  Every theorem holds for an arbitrary carrier
    [T] and arbitrary operations (no algebraic law is assumed), hence bit for bit on binary64. *)
From Coq Require Import List Arith Bool.
From Compute Require Import Base.Ops Base.ListMat Model.Reduce Model.MatMul Spec.MatMul Proofs.C05.
Import ListNotations.

(** every entry of [matmul] is the left-to-right sum Σₖ op(A)[i,k]·op(B)[k,j] of the flat-array
    definition, the shape is m x n, and exactly the non-conformable calls panic *)
Theorem C05_matmul_spec :
  forall (T : Type) (O : Ops T) (a b : list T) (ra rb : nat) (ta tb : bool),
    match dims (length a) (length b) ra rb ta tb with
    | None => matmul O a b ra rb ta tb = None
    | Some (ca, cb, m, l, n) =>
        exists c, matmul O a b ra rb ta tb = Some c /\
                  is_product O (ta && tb) a b ca cb ta tb m l n c
    end.
Proof. exact @matmul_spec. Qed.

Theorem C05_matmul_blocked_spec :
  forall (T : Type) (O : Ops T) (a b : list T) (ra rb : nat) (ta tb : bool) (bs : nat),
    1 <= bs ->
    match dims (length a) (length b) ra rb ta tb with
    | None => matmul_blocked O a b ra rb ta tb bs = None
    | Some (ca, cb, m, l, n) =>
        exists c, matmul_blocked O a b ra rb ta tb bs = Some c /\
                  is_product O false a b ca cb ta tb m l n c
    end.
Proof. exact @matmul_blocked_spec. Qed.

(** the blocked variant returns the same result for every block size >= 1 *)
Theorem C05_blocked_eq_unblocked :
  forall (T : Type) (O : Ops T) (a b : list T) (ra rb : nat) (ta tb : bool) (bs : nat),
    1 <= bs -> (ta && tb = true -> forall x y, mul O x y = mul O y x) ->
    matmul_blocked O a b ra rb ta tb bs = matmul O a b ra rb ta tb.
Proof. exact @matmul_blocked_eq. Qed.

Theorem C05_blocked_rows_eq :
  forall (T : Type) (O : Ops T) (A B : list (list T)) (l n bs : nat),
    1 <= bs -> (forall k, k < l -> length (nth k B []) = n) ->
    mm_blocked_rows O A B l n bs = mm_rows O A B l n.
Proof. exact @mm_blocked_rows_eq. Qed.

Theorem C05_block_size_zero_panics :
  forall (T : Type) (O : Ops T) (a b : list T) (ra rb : nat) (ta tb : bool),
    matmul_blocked O a b ra rb ta tb 0 = None.
Proof. exact @matmul_blocked_zero_block. Qed.
