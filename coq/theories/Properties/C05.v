(** * C05 — matrix products follow the definition for every shape and transpose flag.
    Statements only; proofs are in Proofs/C05.v.  Every theorem holds for an arbitrary carrier
    [T] and arbitrary operations (no algebraic law is assumed), hence bit for bit on binary64. *)
From Coq Require Import List Arith Bool.
From Compute Require Import Base.Ops Base.ListMat Model.Reduce Model.MatMul Spec.MatMul Proofs.C05.
Import ListNotations.

(** every entry of [matmul] is the left-to-right sum Σₖ op(A)[i,k]·op(B)[k,j] of the flat-array
    definition, the shape is m x n, and exactly the non-conformable calls panic *)
Theorem C05_matmul_spec :
  forall (T : Type) (O : Ops T) (a b : list T) (ra rb : nat) (ta tb : bool),
    match dims (length a) (length b) ra rb ta tb with
    | None => matmul O a b ra rb ta tb = None
    | Some (ca, cb, m, l, n) =>
        exists c, matmul O a b ra rb ta tb = Some c /\
                  is_product O (ta && tb) a b ca cb ta tb m l n c
    end.
Proof. exact @matmul_spec. Qed.

Theorem C05_matmul_blocked_spec :
  forall (T : Type) (O : Ops T) (a b : list T) (ra rb : nat) (ta tb : bool) (bs : nat),
    1 <= bs ->
    match dims (length a) (length b) ra rb ta tb with
    | None => matmul_blocked O a b ra rb ta tb bs = None
    | Some (ca, cb, m, l, n) =>
        exists c, matmul_blocked O a b ra rb ta tb bs = Some c /\
                  is_product O false a b ca cb ta tb m l n c
    end.
Proof. exact @matmul_blocked_spec. Qed.

(** the blocked variant returns the same result for every block size >= 1 *)
Theorem C05_blocked_eq_unblocked :
  forall (T : Type) (O : Ops T) (a b : list T) (ra rb : nat) (ta tb : bool) (bs : nat),
    1 <= bs -> (ta && tb = true -> forall x y, mul O x y = mul O y x) ->
    matmul_blocked O a b ra rb ta tb bs = matmul O a b ra rb ta tb.
Proof. exact @matmul_blocked_eq. Qed.

Theorem C05_blocked_rows_eq :
  forall (T : Type) (O : Ops T) (A B : list (list T)) (l n bs : nat),
    1 <= bs -> (forall k, k < l -> length (nth k B []) = n) ->
    mm_blocked_rows O A B l n bs = mm_rows O A B l n.
Proof. exact @mm_blocked_rows_eq. Qed.

Theorem C05_block_size_zero_panics :
  forall (T : Type) (O : Ops T) (a b : list T) (ra rb : nat) (ta tb : bool),
    matmul_blocked O a b ra rb ta tb 0 = None.
Proof. exact @matmul_blocked_zero_block. Qed.

(** ** The [Dot] trait: 16 impl families (Matrix.Matrix, Matrix.Vector, Vector.Matrix, Vector.Vector x
    dot / t_dot / dot_t / t_dot_t; the owned and borrowed forms of a family run the same code) — extension.
    For every carrier and every operations record (no algebraic law), for ALL shapes: the model returns [Some] exactly on
    the conformable shapes (a Vector operand promoted to a column on the right / a row on the left) and the result is
    the definition — entry (i,j) is the left-to-right sum over the inner index k of op(A)[i,k] * op(B)[k,j]
    ([is_product] / [is_matvec] / [is_vecmat] of Spec/MatMul.v and Proofs/C05_dot.v; [sumk] accumulates from zero) —
    and [None] (a panic) otherwise.  Matrix operands satisfy the struct invariant [wf_matrix] (0 < nrows, 0 < ncols,
    data.len() = nrows * ncols: every constructor of the crate establishes it). *)
From Coq Require Import ZArith Lia.
From Compute Require Import Proofs.C05_dot.

(** Matrix.dot(Matrix) = A.B *)
Theorem C05_dot_MM_dot :
  forall (T : Type) (O : Ops T) (s o : @matrix T),
    wf_matrix s -> wf_matrix o ->
    if nc s =? nr o
    then exists r, mat_mat_dot O DotNN s o = Some r /\ nr r = nr s /\ nc r = nc o /\
                   is_product O false (dat s) (dat o) (nc s) (nc o) false false (nr s) (nc s) (nc o) (dat r)
    else mat_mat_dot O DotNN s o = None.
Proof. exact @dot_MM_dot. Qed.

(** Matrix.t_dot(Matrix) = A^T.B *)
Theorem C05_dot_MM_t_dot :
  forall (T : Type) (O : Ops T) (s o : @matrix T),
    wf_matrix s -> wf_matrix o ->
    if nr s =? nr o
    then exists r, mat_mat_dot O DotTN s o = Some r /\ nr r = nc s /\ nc r = nc o /\
                   is_product O false (dat s) (dat o) (nc s) (nc o) true false (nc s) (nr s) (nc o) (dat r)
    else mat_mat_dot O DotTN s o = None.
Proof. exact @dot_MM_t_dot. Qed.

(** Matrix.dot_t(Matrix) = A.B^T *)
Theorem C05_dot_MM_dot_t :
  forall (T : Type) (O : Ops T) (s o : @matrix T),
    wf_matrix s -> wf_matrix o ->
    if nc s =? nc o
    then exists r, mat_mat_dot O DotNT s o = Some r /\ nr r = nr s /\ nc r = nr o /\
                   is_product O false (dat s) (dat o) (nc s) (nc o) false true (nr s) (nc s) (nr o) (dat r)
    else mat_mat_dot O DotNT s o = None.
Proof. exact @dot_MM_dot_t. Qed.

(** Matrix.t_dot_t(Matrix) = A^T.B^T (computed as (B.A)^T: the factors of each term are commuted, [is_product O true]; see C05_dot_MM_t_dot_t_commutative) *)
Theorem C05_dot_MM_t_dot_t :
  forall (T : Type) (O : Ops T) (s o : @matrix T),
    wf_matrix s -> wf_matrix o ->
    if nr s =? nc o
    then exists r, mat_mat_dot O DotTT s o = Some r /\ nr r = nc s /\ nc r = nr o /\
                   is_product O true (dat s) (dat o) (nc s) (nc o) true true (nc s) (nr s) (nr o) (dat r)
    else mat_mat_dot O DotTT s o = None.
Proof. exact @dot_MM_t_dot_t. Qed.

(** Matrix.dot(Vector) = A.v (the Vector is a column; a transpose flag on it does nothing) *)
Theorem C05_dot_MV_dot :
  forall (T : Type) (O : Ops T) (s : @matrix T) (v : list T),
    wf_matrix s ->
    if nc s =? length v
    then exists c, mat_vec_dot O DotNN s v = Some c /\ is_matvec O (dat s) (nc s) false v (nr s) (nc s) c
    else mat_vec_dot O DotNN s v = None.
Proof. exact @dot_MV_dot. Qed.

(** Matrix.t_dot(Vector) = A^T.v (the Vector is a column; a transpose flag on it does nothing) *)
Theorem C05_dot_MV_t_dot :
  forall (T : Type) (O : Ops T) (s : @matrix T) (v : list T),
    wf_matrix s ->
    if nr s =? length v
    then exists c, mat_vec_dot O DotTN s v = Some c /\ is_matvec O (dat s) (nc s) true v (nc s) (nr s) c
    else mat_vec_dot O DotTN s v = None.
Proof. exact @dot_MV_t_dot. Qed.

(** Matrix.dot_t(Vector) = A.v (the Vector is a column; a transpose flag on it does nothing) *)
Theorem C05_dot_MV_dot_t :
  forall (T : Type) (O : Ops T) (s : @matrix T) (v : list T),
    wf_matrix s ->
    if nc s =? length v
    then exists c, mat_vec_dot O DotNT s v = Some c /\ is_matvec O (dat s) (nc s) false v (nr s) (nc s) c
    else mat_vec_dot O DotNT s v = None.
Proof. exact @dot_MV_dot_t. Qed.

(** Matrix.t_dot_t(Vector) = A^T.v (the Vector is a column; a transpose flag on it does nothing) *)
Theorem C05_dot_MV_t_dot_t :
  forall (T : Type) (O : Ops T) (s : @matrix T) (v : list T),
    wf_matrix s ->
    if nr s =? length v
    then exists c, mat_vec_dot O DotTT s v = Some c /\ is_matvec O (dat s) (nc s) true v (nc s) (nr s) c
    else mat_vec_dot O DotTT s v = None.
Proof. exact @dot_MV_t_dot_t. Qed.

(** Vector.dot(Matrix) = v.B (the Vector is a row; a transpose flag on it does nothing) *)
Theorem C05_dot_VM_dot :
  forall (T : Type) (O : Ops T) (v : list T) (o : @matrix T),
    wf_matrix o ->
    if length v =? nr o
    then exists c, vec_mat_dot O DotNN v o = Some c /\ is_vecmat O v (dat o) (nc o) false (nr o) (nc o) c
    else vec_mat_dot O DotNN v o = None.
Proof. exact @dot_VM_dot. Qed.

(** Vector.t_dot(Matrix) = v.B (the Vector is a row; a transpose flag on it does nothing) *)
Theorem C05_dot_VM_t_dot :
  forall (T : Type) (O : Ops T) (v : list T) (o : @matrix T),
    wf_matrix o ->
    if length v =? nr o
    then exists c, vec_mat_dot O DotTN v o = Some c /\ is_vecmat O v (dat o) (nc o) false (nr o) (nc o) c
    else vec_mat_dot O DotTN v o = None.
Proof. exact @dot_VM_t_dot. Qed.

(** Vector.dot_t(Matrix) = v.B^T (the Vector is a row; a transpose flag on it does nothing) *)
Theorem C05_dot_VM_dot_t :
  forall (T : Type) (O : Ops T) (v : list T) (o : @matrix T),
    wf_matrix o ->
    if length v =? nc o
    then exists c, vec_mat_dot O DotNT v o = Some c /\ is_vecmat O v (dat o) (nc o) true (nc o) (nr o) c
    else vec_mat_dot O DotNT v o = None.
Proof. exact @dot_VM_dot_t. Qed.

(** Vector.t_dot_t(Matrix) = v.B^T (the Vector is a row; a transpose flag on it does nothing) *)
Theorem C05_dot_VM_t_dot_t :
  forall (T : Type) (O : Ops T) (v : list T) (o : @matrix T),
    wf_matrix o ->
    if length v =? nc o
    then exists c, vec_mat_dot O DotTT v o = Some c /\ is_vecmat O v (dat o) (nc o) true (nc o) (nr o) c
    else vec_mat_dot O DotTT v o = None.
Proof. exact @dot_VM_t_dot_t. Qed.

Theorem C05_dot_VV_dot :
  forall (T : Type) (O : Ops T) (v w : list T),
    vec_vec_dot O DotNN v w =
    if length v =? length w then Some (dot_chunks O (zero O) (map2 (mul O) v w) (S (length v))) else None.
Proof. exact @dot_VV_dot. Qed.

Theorem C05_dot_VV_t_dot :
  forall (T : Type) (O : Ops T) (v w : list T),
    vec_vec_dot O DotTN v w =
    if length v =? length w then Some (dot_chunks O (zero O) (map2 (mul O) v w) (S (length v))) else None.
Proof. exact @dot_VV_t_dot. Qed.

Theorem C05_dot_VV_dot_t :
  forall (T : Type) (O : Ops T) (v w : list T),
    vec_vec_dot O DotNT v w =
    if length v =? length w then Some (dot_chunks O (zero O) (map2 (mul O) v w) (S (length v))) else None.
Proof. exact @dot_VV_dot_t. Qed.

Theorem C05_dot_VV_t_dot_t :
  forall (T : Type) (O : Ops T) (v w : list T),
    vec_vec_dot O DotTT v w =
    if length v =? length w then Some (dot_chunks O (zero O) (map2 (mul O) v w) (S (length v))) else None.
Proof. exact @dot_VV_t_dot_t. Qed.

(** Vector.Vector: all four methods are the 8-way unrolled inner product [dot_chunks] (per chunk of eight the products are
    summed left to right from the first one and the chunk sum is added to the accumulator; the remaining products are added
    one by one); different lengths panic.  Below eight elements that is the plain left-to-right sum from zero; on the reals
    it is the sum of the products at every length *)
Theorem C05_dot_VV_short :
  forall (T : Type) (O : Ops T) (s : T) (p : list T) (fuel : nat),
    length p < 8 -> dot_chunks O s p (S fuel) = fold_left (add O) p s.
Proof. exact @dot_chunks_short. Qed.
Theorem C05_dot_VV_R :
  forall (k : dotk) (v w : list Rdefinitions.R),
    vec_vec_dot RO k v w = if length v =? length w then Some (Spec.Vops.Rdot v w) else None.
Proof. exact dot_VV_R. Qed.

(** where multiplication commutes (reals; binary64 bit for bit, both below) the both-transposed Matrix.Matrix product has
    its factors in the textbook order too *)
Theorem C05_dot_MM_t_dot_t_commutative :
  forall (T : Type) (O : Ops T), (forall p q : T, mul O p q = mul O q p) ->
  forall (s o : @matrix T), wf_matrix s -> wf_matrix o ->
    if nr s =? nc o
    then exists r, mat_mat_dot O DotTT s o = Some r /\ nr r = nc s /\ nc r = nr o /\
                   is_product O false (dat s) (dat o) (nc s) (nc o) true true (nc s) (nr s) (nr o) (dat r)
    else mat_mat_dot O DotTT s o = None.
Proof. exact @dot_MM_t_dot_t_commutative. Qed.
Theorem C05_mul_commutes_R : forall a b : Rdefinitions.R, mul RO a b = mul RO b a.
Proof. exact mul_comm_R. Qed.
Theorem C05_mul_commutes_binary64 :
  forall (tbl : libm_table) (a b : PrimFloat.float), mul (FO tbl) a b = mul (FO tbl) b a.
Proof. exact mul_comm_binary64. Qed.

(** ** [xtx] = X^T X of a [k]-row matrix: accepted exactly when [k > 0] divides the length; entry (i,j) is the left-to-right
    sum over the rows r of X[r,i] * X[r,j]; symmetric wherever multiplication commutes *)
Theorem C05_xtx_spec :
  forall (T : Type) (O : Ops T) (x : list T) (k : nat),
    if (0 <? k) && (length x mod k =? 0)
    then exists c, xtx O x k = Some c /\
           let n := length x / k in
           length c = n * n /\
           forall i j, i < n -> j < n ->
             nth (i * n + j) c (zero O) = sumk O (fun r => mul O (nth (r * n + i) x (zero O)) (nth (r * n + j) x (zero O))) k
    else xtx O x k = None.
Proof. exact @xtx_spec. Qed.
Theorem C05_xtx_symmetric :
  forall (T : Type) (O : Ops T) (x : list T) (k : nat) (c : list T),
    (forall a b : T, mul O a b = mul O b a) ->
    xtx O x k = Some c ->
    let n := length x / k in
    forall i j, i < n -> j < n -> nth (i * n + j) c (zero O) = nth (j * n + i) c (zero O).
Proof. exact @xtx_symmetric. Qed.
Theorem C05_xtx_symmetric_R :
  forall (x : list Rdefinitions.R) (k : nat) (c : list Rdefinitions.R),
    xtx RO x k = Some c ->
    let n := length x / k in
    forall i j, i < n -> j < n -> nth (i * n + j) c (zero RO) = nth (j * n + i) c (zero RO).
Proof. exact (fun x k c => xtx_symmetric RO x k c mul_comm_R). Qed.
Theorem C05_xtx_symmetric_binary64 :
  forall (tbl : libm_table) (x : list PrimFloat.float) (k : nat) (c : list PrimFloat.float),
    xtx (FO tbl) x k = Some c ->
    let n := length x / k in
    forall i j, i < n -> j < n -> nth (i * n + j) c (zero (FO tbl)) = nth (j * n + i) c (zero (FO tbl)).
Proof. exact (fun tbl x k c => xtx_symmetric (FO tbl) x k c (mul_comm_binary64 tbl)). Qed.

(** the hypotheses are satisfiable on non-trivial instances (integers as the carrier: subtraction-free but
    order-revealing): a 2x3 by 3x2 product, a rejected pair, a Matrix.Vector and a Vector.Matrix product with their
    rejections, an inner product longer than one chunk, X^T X of a 3x2 matrix *)
Example C05_example_dot :
  let ZO : Ops Z := mkOps Z 0%Z 1%Z Z.add Z.sub Z.mul Z.div Z.opp Z.abs (fun x => x) Z.ltb Z.leb Z.eqb
                             (fun x => x) (fun _ => 0%Z) (fun x => x) (fun _ => 0%Z) (fun _ x => x) (fun _ x _ => x) 3%Z in
  let A := @Build_matrix Z 2 3 [1; 2; 3; 4; 5; 6]%Z in let B := @Build_matrix Z 3 2 [1; 0; 0; 1; 2; 2]%Z in
  wf_matrix A /\ wf_matrix B /\
  option_map (@dat _) (mat_mat_dot ZO DotNN A B) = Some [7; 8; 16; 17]%Z /\
  mat_mat_dot ZO DotNN A A = None /\
  option_map (@dat _) (mat_mat_dot ZO DotTT A B) = Some [1; 4; 10; 2; 5; 14; 3; 6; 18]%Z /\
  mat_vec_dot ZO DotNN A [1; 1; 1]%Z = Some [6; 15]%Z /\ mat_vec_dot ZO DotNN A [1; 1]%Z = None /\
  mat_vec_dot ZO DotTN A [1; 10]%Z = Some [41; 52; 63]%Z /\
  vec_mat_dot ZO DotNN [1; 10]%Z A = Some [41; 52; 63]%Z /\ vec_mat_dot ZO DotNT [1; 1; 1]%Z A = Some [6; 15]%Z /\
  vec_mat_dot ZO DotNN [1; 1; 1]%Z A = None /\
  vec_vec_dot ZO DotNN [1; 2; 3; 4; 5; 6; 7; 8; 9]%Z [1; 1; 1; 1; 1; 1; 1; 1; 2]%Z = Some 54%Z /\
  vec_vec_dot ZO DotTT [1; 2]%Z [1]%Z = None /\
  xtx ZO [1; 2; 3; 4; 5; 6]%Z 3 = Some [35; 44; 44; 56]%Z /\ xtx ZO [1; 2; 3; 4; 5]%Z 3 = None.
Proof. cbv [wf_matrix nr nc dat length]. repeat split; try lia; vm_compute; reflexivity. Qed.

(** ** Rounding error of every entry on binary64 (extension)

    Entry (i,j) is a PLAIN left fold of rounded additions from zero over the rounded products, k = 0 .. l-1 ([sumk], C05_matmul_spec).
    Standard model of floating-point arithmetic (the carrier is the reals with an addition [rnd (a + b)] that commits a relative error
    of at most [u] on a set [F] closed under it): a plain left fold from 0 of [n] terms [c'], each of which already carries one relative
    error [u] with respect to the exact term [c], is within ((1+u)^(n+1) - 1) * Sigma |c_k| of Sigma c_k *)
From Coq Require Import Reals Floats.
From Compute Require Import Spec.Vops Proofs.C04Err Proofs.C04ErrF Proofs.C05Err.
Theorem C05_plain_sum_error_perturbed_standard_model :
  forall (u : R), (0 <= u)%R -> forall (F : R -> Prop) (rnd : R -> R),
    F 0%R ->
    (forall a b, F a -> F b -> F (rnd (a + b)%R) /\ (Rabs (rnd (a + b) - (a + b)) <= u * Rabs (a + b))%R) ->
    forall c c' : list R, Forall F c' -> Forall2 (fun a a' => (Rabs (a' - a) <= u * Rabs a)%R) c c' ->
      (Rabs (fold_left (Ops.add (RndO rnd)) c' 0 - Rsum c) <= ((1 + u) ^ S (length c) - 1) * Rsum (map Rabs c))%R.
Proof. exact plain_sum_error_perturbed. Qed.

(** binary64 ([B2Rf] the real value of a double, [finite] = neither infinite nor NaN; [sumk RO f l] is the real sum f 0 + .. + f (l-1)):
    for EVERY conformable pair of flat arrays of doubles (every shape m x l by l x n, every transpose-flag combination), every entry
    (i,j) of the result of [matmul] whose computed value is FINITE (no overflow in any product or partial sum of its accumulation:
    finiteness of the entry forces all of them finite) and none of whose l exact products a_ik*b_kj underflows (each is 0 or at least
    2^-1022, the smallest normal number, in magnitude):
        | c_ij - Sigma_k a_ik b_kj |  <=  ((1 + 2^-53)^(l+1) - 1) * Sigma_k |a_ik b_kj|
    for the exact operation order of the code.  (Exponent l+1 and not l: the standard model also charges the first addition 0 + a_i0*b_0j.)
    When both operands are transposed the code computes (B.A)^T, i.e. the factors of every product commuted: binary64 multiplication
    commutes bit for bit (C05_mul_commutes_binary64), so the statement is the same. *)
Theorem C05_matmul_entry_error_binary64 :
  forall (tbl : libm_table) (a b : list float) (ra rb : nat) (ta tb : bool) (ca cb m l n : nat) (c : list float),
    dims (length a) (length b) ra rb ta tb = Some (ca, cb, m, l, n) ->
    matmul (FO tbl) a b ra rb ta tb = Some c ->
    forall i j, i < m -> j < n ->
      finite (nth (i * n + j) c (Ops.zero (FO tbl))) ->
      (forall k, k < l ->
         (B2Rf (opA (FO tbl) a ca ta i k) * B2Rf (opB (FO tbl) b cb tb k j) = 0 \/
          / 2 ^ 1022 <= Rabs (B2Rf (opA (FO tbl) a ca ta i k) * B2Rf (opB (FO tbl) b cb tb k j)))%R) ->
      (Rabs (B2Rf (nth (i * n + j) c (Ops.zero (FO tbl)))
             - sumk RO (fun k => B2Rf (opA (FO tbl) a ca ta i k) * B2Rf (opB (FO tbl) b cb tb k j)) l)
       <= ((1 + / 2 ^ 53) ^ S l - 1)
          * sumk RO (fun k => Rabs (B2Rf (opA (FO tbl) a ca ta i k) * B2Rf (opB (FO tbl) b cb tb k j))) l)%R.
Proof. exact matmul_entry_error. Qed.

(** the same bound for [matmul_blocked] with EVERY block size >= 1 (entry by entry the blocked loop nest performs the same sequence
    of operations: C05_blocked_eq_unblocked) *)
Theorem C05_matmul_blocked_entry_error_binary64 :
  forall (tbl : libm_table) (a b : list float) (ra rb : nat) (ta tb : bool) (bs : nat) (ca cb m l n : nat) (c : list float),
    1 <= bs ->
    dims (length a) (length b) ra rb ta tb = Some (ca, cb, m, l, n) ->
    matmul_blocked (FO tbl) a b ra rb ta tb bs = Some c ->
    forall i j, i < m -> j < n ->
      finite (nth (i * n + j) c (Ops.zero (FO tbl))) ->
      (forall k, k < l ->
         (B2Rf (opA (FO tbl) a ca ta i k) * B2Rf (opB (FO tbl) b cb tb k j) = 0 \/
          / 2 ^ 1022 <= Rabs (B2Rf (opA (FO tbl) a ca ta i k) * B2Rf (opB (FO tbl) b cb tb k j)))%R) ->
      (Rabs (B2Rf (nth (i * n + j) c (Ops.zero (FO tbl)))
             - sumk RO (fun k => B2Rf (opA (FO tbl) a ca ta i k) * B2Rf (opB (FO tbl) b cb tb k j)) l)
       <= ((1 + / 2 ^ 53) ^ S l - 1)
          * sumk RO (fun k => Rabs (B2Rf (opA (FO tbl) a ca ta i k) * B2Rf (opB (FO tbl) b cb tb k j))) l)%R.
Proof. exact matmul_blocked_entry_error. Qed.

(** the [Dot] trait: the same bound for ANY array that is the product entry by entry in the sense of [is_product] (factors of each
    term in either order), [is_matvec] or [is_vecmat] -- which is what every C05_dot_MM_* / C05_dot_MV_* / C05_dot_VM_* theorem
    concludes of the result of the corresponding method; so every finite entry of every Matrix.Matrix, Matrix.Vector and
    Vector.Matrix product none of whose products underflows obeys it (Vector.Vector is the 8-way unrolled [dot]: C04_dot_error_binary64) *)
Theorem C05_is_product_entry_error_binary64 :
  forall (tbl : libm_table) (swap : bool) (a b : list float) (ca cb : nat) (ta tb : bool) (m l n : nat) (c : list float),
    is_product (FO tbl) swap a b ca cb ta tb m l n c ->
    forall i j, i < m -> j < n ->
      finite (nth (i * n + j) c (Ops.zero (FO tbl))) ->
      (forall k, k < l ->
         (B2Rf (opA (FO tbl) a ca ta i k) * B2Rf (opB (FO tbl) b cb tb k j) = 0 \/
          / 2 ^ 1022 <= Rabs (B2Rf (opA (FO tbl) a ca ta i k) * B2Rf (opB (FO tbl) b cb tb k j)))%R) ->
      (Rabs (B2Rf (nth (i * n + j) c (Ops.zero (FO tbl)))
             - sumk RO (fun k => B2Rf (opA (FO tbl) a ca ta i k) * B2Rf (opB (FO tbl) b cb tb k j)) l)
       <= ((1 + / 2 ^ 53) ^ S l - 1)
          * sumk RO (fun k => Rabs (B2Rf (opA (FO tbl) a ca ta i k) * B2Rf (opB (FO tbl) b cb tb k j))) l)%R.
Proof. exact is_product_entry_error. Qed.

Theorem C05_is_matvec_entry_error_binary64 :
  forall (tbl : libm_table) (a : list float) (ca : nat) (ta : bool) (v : list float) (m l : nat) (c : list float),
    is_matvec (FO tbl) a ca ta v m l c ->
    forall i, i < m ->
      finite (nth i c (Ops.zero (FO tbl))) ->
      (forall k, k < l ->
         (B2Rf (opA (FO tbl) a ca ta i k) * B2Rf (nth k v (Ops.zero (FO tbl))) = 0 \/
          / 2 ^ 1022 <= Rabs (B2Rf (opA (FO tbl) a ca ta i k) * B2Rf (nth k v (Ops.zero (FO tbl)))))%R) ->
      (Rabs (B2Rf (nth i c (Ops.zero (FO tbl)))
             - sumk RO (fun k => B2Rf (opA (FO tbl) a ca ta i k) * B2Rf (nth k v (Ops.zero (FO tbl)))) l)
       <= ((1 + / 2 ^ 53) ^ S l - 1)
          * sumk RO (fun k => Rabs (B2Rf (opA (FO tbl) a ca ta i k) * B2Rf (nth k v (Ops.zero (FO tbl))))) l)%R.
Proof. exact is_matvec_entry_error. Qed.

Theorem C05_is_vecmat_entry_error_binary64 :
  forall (tbl : libm_table) (v b : list float) (cb : nat) (tb : bool) (l n : nat) (c : list float),
    is_vecmat (FO tbl) v b cb tb l n c ->
    forall j, j < n ->
      finite (nth j c (Ops.zero (FO tbl))) ->
      (forall k, k < l ->
         (B2Rf (nth k v (Ops.zero (FO tbl))) * B2Rf (opB (FO tbl) b cb tb k j) = 0 \/
          / 2 ^ 1022 <= Rabs (B2Rf (nth k v (Ops.zero (FO tbl))) * B2Rf (opB (FO tbl) b cb tb k j)))%R) ->
      (Rabs (B2Rf (nth j c (Ops.zero (FO tbl)))
             - sumk RO (fun k => B2Rf (nth k v (Ops.zero (FO tbl))) * B2Rf (opB (FO tbl) b cb tb k j)) l)
       <= ((1 + / 2 ^ 53) ^ S l - 1)
          * sumk RO (fun k => Rabs (B2Rf (nth k v (Ops.zero (FO tbl))) * B2Rf (opB (FO tbl) b cb tb k j))) l)%R.
Proof. exact is_vecmat_entry_error. Qed.

(** [sumk RO] is the real sum *)
Theorem C05_sumk_R : forall (f : nat -> R) (l : nat), sumk RO f l = Rsum (map f (seq 0 l)).
Proof. exact sumk_R. Qed.

(** the hypotheses are satisfiable: a 2x3 by 3x2 product of doubles with inexact products and sums (0.1, 1/3), one zero product;
    plain and blocked (block size 2) agree, entry (0,0) is finite and none of its three products underflows *)
Example C05_example_entry_error :
  let a := [1; 2; 0x1.999999999999ap-4; 4; -5; 6]%float in
  let b := [0x1.5555555555555p-2; 0; 0; 1; 3; 0x1p-600]%float in
  dims (length a) (length b) 2 3 false false = Some (3, 2, 2, 3, 2) /\
  (exists c, matmul FO0 a b 2 3 false false = Some c /\ matmul_blocked FO0 a b 2 3 false false 2 = Some c /\
             finite (nth (0 * 2 + 0) c (Ops.zero FO0))) /\
  (forall k, k < 3 ->
     (B2Rf (opA FO0 a 3 false 0 k) * B2Rf (opB FO0 b 2 false k 0) = 0 \/
      / 2 ^ 1022 <= Rabs (B2Rf (opA FO0 a 3 false 0 k) * B2Rf (opB FO0 b 2 false k 0)))%R).
Proof. exact matmul_error_example. Qed.

(** ** Tie A: the models ARE the source (regenerated from /repo/src on every run by tools/tiea/matmul_loops.py).
    [src_*] is the Rust function of src/linalg/utils.rs translated statement for statement: ONE flat row-major zero vector
    accumulated in place ([c[i * n + j] += temp * b[k * n + j]]: [rs_get] / [rs_set], index arithmetic in [Z], a panic =
    [None]); the model works on rows.  Hypothesis of each theorem: the result fits the address space ([vec![0.; m * n]]
    passes the allocation's capacity check of 2^60 - 1 cells; the model has no such limit). *)
From Coq Require Import ZArith QArith.
From Compute Require Import Base.RsExpr Base.RsExprMut Generated.matmul_loops Proofs.TieA_matmul_loops.
Local Close Scope R_scope. Local Close Scope Q_scope.
(** the i-k-j nest, the shape asserts ([is_matrix(..).unwrap()] of both operands, a zero [rows_*], [assert_eq!] of the inner
    dimensions), the three paths with at most one [transpose], and the both-transposed path through the RECURSIVE call
    [matmul(b, a, rows_b, rows_a, false, false)] followed by [transpose] (the (B.A)^T identity).  [matmul_] is the abstract
    parameter standing for the recursive call: it is instantiated by the generated function itself, applied to an ARBITRARY
    [rec_] — the inner call has both flags false and never reaches the recursion again, so nothing is assumed about it. *)
Theorem C05_model_is_source_matmul :
  forall (T : Type) (O : Ops T) (rec_ : list T -> list T -> Z -> Z -> bool -> bool -> option (list T))
         (a b : list T) (ra rb : nat) (ta tb : bool),
    (Z.of_nat ((if ta then length a / ra else ra) * (if tb then rb else length b / rb)) <= 1152921504606846975)%Z ->
    src_matmul O (fun a' b' ra' rb' ta' tb' => src_matmul O rec_ a' b' ra' rb' ta' tb') a b (Z.of_nat ra) (Z.of_nat rb) ta tb
    = matmul O a b ra rb ta tb.
Proof. exact @tiea_matmul. Qed.
(** with at most one transpose flag the recursive call is not reached at all: any [rec_] *)
Theorem C05_model_is_source_matmul_nt :
  forall (T : Type) (O : Ops T) (rec_ : list T -> list T -> Z -> Z -> bool -> bool -> option (list T))
         (a b : list T) (ra rb : nat) (ta tb : bool),
    ta && tb = false ->
    (Z.of_nat ((if ta then length a / ra else ra) * (if tb then rb else length b / rb)) <= 1152921504606846975)%Z ->
    src_matmul O rec_ a b (Z.of_nat ra) (Z.of_nat rb) ta tb = matmul_nt O a b ra rb ta tb.
Proof. exact @tiea_matmul_nt. Qed.
(** the jj-kk-i-k-j nest with its [min] edges and the two divisions by [bsize] (a zero block size panics) *)
Theorem C05_model_is_source_matmul_blocked :
  forall (T : Type) (O : Ops T) (a b : list T) (ra rb : nat) (ta tb : bool) (bs : nat),
    (Z.of_nat ((if ta then length a / ra else ra) * (if tb then rb else length b / rb)) <= 1152921504606846975)%Z ->
    src_matmul_blocked O a b (Z.of_nat ra) (Z.of_nat rb) ta tb (Z.of_nat bs) = matmul_blocked O a b ra rb ta tb bs.
Proof. exact @tiea_matmul_blocked. Qed.
Theorem C05_model_is_source_xtx :
  forall (T : Type) (O : Ops T) (rec_ : list T -> list T -> Z -> Z -> bool -> bool -> option (list T)) (x : list T) (k : nat),
    (Z.of_nat ((length x / k) * (length x / k)) <= 1152921504606846975)%Z ->
    src_xtx O rec_ x (Z.of_nat k) = xtx O x k.
Proof. exact @tiea_xtx. Qed.
(** the hypothesis is satisfiable and the equalities are not vacuous: a 2x3 by 3x2 product of rationals, all four flag
    combinations that conform, plain and blocked, and a rejected call *)
Example C05_model_is_source_example :
  let a := [1; 2; 3; 4; 5; 6]%Q in let b := [7; 8; 9; 10; 11; 12]%Q in
  src_matmul QO (fun a' b' ra' rb' ta' tb' => src_matmul QO (fun _ _ _ _ _ _ => None) a' b' ra' rb' ta' tb') a b 2 3 false false
    = Some [58; 64; 139; 154]%Q /\
  src_matmul QO (fun a' b' ra' rb' ta' tb' => src_matmul QO (fun _ _ _ _ _ _ => None) a' b' ra' rb' ta' tb') a b 3 2 true true
    = matmul QO a b 3 2 true true /\
  matmul QO a b 3 2 true true <> None /\
  src_matmul_blocked QO a b 2 3 false false 2 = Some [58; 64; 139; 154]%Q /\
  src_matmul_blocked QO a b 2 3 false false 0 = None /\
  src_matmul QO (fun _ _ _ _ _ _ => None) a b 2 2 false false = None.
Proof. vm_compute. repeat split; try reflexivity; discriminate. Qed.

(** ** Tie A for the [Dot] trait (regenerated from src/linalg/array/dot.rs on every run by tools/tiea/dot_loops.py).
    The macro bodies are translated statement for statement; a [Matrix] value of the generated text is the triple
    [(nrows, ncols, data)] ([zmat] of the model's record), the fields of [self] are its first three arguments.  The abstract
    parameters are instantiated by the models: [new_z] = [matrix_new] ([Matrix::new]: TryInto + match, outside the subset),
    [matmul_z] = [matmul] (tied above), [transpose_z] = [transpose] (C11_model_is_source_transpose), [dot] (C04_model_is_source_dot),
    and the inner method [$innerop] of the promotion wrappers = [inner_z k'] = [mat_mat_dot k'] for the [k'] the macro
    invocation names ([append_inner] / [prepend_inner]: a transpose flag on the vector is ignored). *)
From Compute Require Import Generated.dot_loops Proofs.TieA_dot_loops.
Theorem C05_model_is_source_mat_mat_dot :
  forall (T : Type) (O : Ops T) (s o : matrix (T := T)),
    src_mat_mat_dot O (new_z) (matmul_z O) (dat s) (Z.of_nat (nr s)) (Z.of_nat (nc s)) (zmat o) = option_map zmat (mat_mat_dot O DotNN s o).
Proof. exact @tiea_mat_mat_dot. Qed.
Theorem C05_model_is_source_mat_mat_t_dot :
  forall (T : Type) (O : Ops T) (s o : matrix (T := T)),
    src_mat_mat_t_dot O (new_z) (matmul_z O) (dat s) (Z.of_nat (nr s)) (Z.of_nat (nc s)) (zmat o) = option_map zmat (mat_mat_dot O DotTN s o).
Proof. exact @tiea_mat_mat_t_dot. Qed.
Theorem C05_model_is_source_mat_mat_dot_t :
  forall (T : Type) (O : Ops T) (s o : matrix (T := T)),
    src_mat_mat_dot_t O (new_z) (matmul_z O) (dat s) (Z.of_nat (nr s)) (Z.of_nat (nc s)) (zmat o) = option_map zmat (mat_mat_dot O DotNT s o).
Proof. exact @tiea_mat_mat_dot_t. Qed.
Theorem C05_model_is_source_mat_mat_t_dot_t :
  forall (T : Type) (O : Ops T) (s o : matrix (T := T)),
    src_mat_mat_t_dot_t O (new_z) (matmul_z O) (dat s) (Z.of_nat (nr s)) (Z.of_nat (nc s)) (zmat o) = option_map zmat (mat_mat_dot O DotTT s o).
Proof. exact @tiea_mat_mat_t_dot_t. Qed.
(** promotion of a vector: [Vector::to_matrix] = [Matrix::new(self, 1, n)], [Matrix::t_mut] = transpose the data and swap the dimensions *)
Theorem C05_model_is_source_to_matrix :
  forall (T : Type) (O : Ops T) (v : list T), src_to_matrix O new_z v = option_map zmat (to_matrix v).
Proof. exact @tiea_to_matrix. Qed.
Theorem C05_model_is_source_t_mut :
  forall (T : Type) (O : Ops T) (m : matrix (T := T)),
    src_t_mut O (transpose_z O) (dat m) (Z.of_nat (nr m)) (Z.of_nat (nc m)) = option_map zfields (t_mut O m).
Proof. exact @tiea_t_mut. Qed.
(** Matrix . Vector, all four methods ([impl_dot_append_one]: the vector becomes a column) *)
Theorem C05_model_is_source_mat_vec_dot :
  forall (T : Type) (O : Ops T) (k : dotk) (s : matrix (T := T)) (v : list T),
    src_dot_append_one O new_z (transpose_z O) (inner_z O (append_inner k)) (dat s) (Z.of_nat (nr s)) (Z.of_nat (nc s)) v = mat_vec_dot O k s v.
Proof. exact @tiea_mat_vec_dot. Qed.
(** Vector . Matrix, all four methods ([impl_dot_prepend_one]: the vector becomes a row) *)
Theorem C05_model_is_source_vec_mat_dot :
  forall (T : Type) (O : Ops T) (k : dotk) (v : list T) (o : matrix (T := T)),
    src_dot_prepend_one O new_z (inner_z O (prepend_inner k)) v (zmat o) = vec_mat_dot O k v o.
Proof. exact @tiea_vec_mat_dot. Qed.
(** Vector . Vector, all four methods *)
Theorem C05_model_is_source_vec_vec_dot :
  forall (T : Type) (O : Ops T) (k : dotk) (v w : list T), src_dot_vec_vec O (dot O) v w = vec_vec_dot O k v w.
Proof. exact @tiea_vec_vec_dot. Qed.
(** ** Rounding error of every entry on binary64 WITHOUT the no-underflow hypothesis (extension)

    A binary64 multiplication that does not overflow satisfies |fl(r) - r| <= 2^-53 |r| + 2^-1075 for EVERY exact product r, normal,
    subnormal or zero (C04_rounding_error_binary64_general, from Flocq's [error_N_FLT]); additions need no absolute term.  The theorems
    above are the special case in which no product underflows; the ones below bound EVERY finite entry:
        | c_ij - Sigma_k a_ik b_kj |  <=  ((1 + 2^-53)^(l+1) - 1) * Sigma_k |a_ik b_kj|  +  l * 2^-1075 * (1 + 2^-53)^l . *)
From Compute Require Import Proofs.C04ErrGen Proofs.C05ErrGen.
Theorem C05_plain_sum_error_perturbed_abs_standard_model :
  forall (u : R), (0 <= u)%R -> forall (eta : R), (0 <= eta)%R -> forall (F : R -> Prop) (rnd : R -> R),
    F 0%R ->
    (forall a b, F a -> F b -> F (rnd (a + b)%R) /\ (Rabs (rnd (a + b) - (a + b)) <= u * Rabs (a + b))%R) ->
    forall c c' : list R, Forall F c' -> Forall2 (fun a a' => (Rabs (a' - a) <= u * Rabs a + eta)%R) c c' ->
      (Rabs (fold_left (Ops.add (RndO rnd)) c' 0 - Rsum c)
       <= ((1 + u) ^ S (length c) - 1) * Rsum (map Rabs c) + INR (length c) * eta * (1 + u) ^ length c)%R.
Proof. exact (fun u Hu eta _ => plain_sum_error_perturbed_abs u Hu eta). Qed.

Theorem C05_matmul_entry_error_binary64_general :
  forall (tbl : libm_table) (a b : list float) (ra rb : nat) (ta tb : bool) (ca cb m l n : nat) (c : list float),
    dims (length a) (length b) ra rb ta tb = Some (ca, cb, m, l, n) ->
    matmul (FO tbl) a b ra rb ta tb = Some c ->
    forall i j, i < m -> j < n ->
      finite (nth (i * n + j) c (Ops.zero (FO tbl))) ->
      (Rabs (B2Rf (nth (i * n + j) c (Ops.zero (FO tbl)))
             - sumk RO (fun k => B2Rf (opA (FO tbl) a ca ta i k) * B2Rf (opB (FO tbl) b cb tb k j)) l)
       <= ((1 + / 2 ^ 53) ^ S l - 1)
          * sumk RO (fun k => Rabs (B2Rf (opA (FO tbl) a ca ta i k) * B2Rf (opB (FO tbl) b cb tb k j))) l
          + INR l * / 2 ^ 1075 * (1 + / 2 ^ 53) ^ l)%R.
Proof. exact matmul_entry_error_general. Qed.

Theorem C05_matmul_blocked_entry_error_binary64_general :
  forall (tbl : libm_table) (a b : list float) (ra rb : nat) (ta tb : bool) (bs : nat) (ca cb m l n : nat) (c : list float),
    1 <= bs ->
    dims (length a) (length b) ra rb ta tb = Some (ca, cb, m, l, n) ->
    matmul_blocked (FO tbl) a b ra rb ta tb bs = Some c ->
    forall i j, i < m -> j < n ->
      finite (nth (i * n + j) c (Ops.zero (FO tbl))) ->
      (Rabs (B2Rf (nth (i * n + j) c (Ops.zero (FO tbl)))
             - sumk RO (fun k => B2Rf (opA (FO tbl) a ca ta i k) * B2Rf (opB (FO tbl) b cb tb k j)) l)
       <= ((1 + / 2 ^ 53) ^ S l - 1)
          * sumk RO (fun k => Rabs (B2Rf (opA (FO tbl) a ca ta i k) * B2Rf (opB (FO tbl) b cb tb k j))) l
          + INR l * / 2 ^ 1075 * (1 + / 2 ^ 53) ^ l)%R.
Proof. exact matmul_blocked_entry_error_general. Qed.

(** the [Dot] trait: every finite entry of every Matrix.Matrix, Matrix.Vector and Vector.Matrix product (Vector.Vector is the 8-way
    unrolled [dot]: C04_dot_error_binary64_general) *)
Theorem C05_is_product_entry_error_binary64_general :
  forall (tbl : libm_table) (swap : bool) (a b : list float) (ca cb : nat) (ta tb : bool) (m l n : nat) (c : list float),
    is_product (FO tbl) swap a b ca cb ta tb m l n c ->
    forall i j, i < m -> j < n ->
      finite (nth (i * n + j) c (Ops.zero (FO tbl))) ->
      (Rabs (B2Rf (nth (i * n + j) c (Ops.zero (FO tbl)))
             - sumk RO (fun k => B2Rf (opA (FO tbl) a ca ta i k) * B2Rf (opB (FO tbl) b cb tb k j)) l)
       <= ((1 + / 2 ^ 53) ^ S l - 1)
          * sumk RO (fun k => Rabs (B2Rf (opA (FO tbl) a ca ta i k) * B2Rf (opB (FO tbl) b cb tb k j))) l
          + INR l * / 2 ^ 1075 * (1 + / 2 ^ 53) ^ l)%R.
Proof. exact is_product_entry_error_general. Qed.

Theorem C05_is_matvec_entry_error_binary64_general :
  forall (tbl : libm_table) (a : list float) (ca : nat) (ta : bool) (v : list float) (m l : nat) (c : list float),
    is_matvec (FO tbl) a ca ta v m l c ->
    forall i, i < m ->
      finite (nth i c (Ops.zero (FO tbl))) ->
      (Rabs (B2Rf (nth i c (Ops.zero (FO tbl)))
             - sumk RO (fun k => B2Rf (opA (FO tbl) a ca ta i k) * B2Rf (nth k v (Ops.zero (FO tbl)))) l)
       <= ((1 + / 2 ^ 53) ^ S l - 1)
          * sumk RO (fun k => Rabs (B2Rf (opA (FO tbl) a ca ta i k) * B2Rf (nth k v (Ops.zero (FO tbl))))) l
          + INR l * / 2 ^ 1075 * (1 + / 2 ^ 53) ^ l)%R.
Proof. exact is_matvec_entry_error_general. Qed.

Theorem C05_is_vecmat_entry_error_binary64_general :
  forall (tbl : libm_table) (v b : list float) (cb : nat) (tb : bool) (l n : nat) (c : list float),
    is_vecmat (FO tbl) v b cb tb l n c ->
    forall j, j < n ->
      finite (nth j c (Ops.zero (FO tbl))) ->
      (Rabs (B2Rf (nth j c (Ops.zero (FO tbl)))
             - sumk RO (fun k => B2Rf (nth k v (Ops.zero (FO tbl))) * B2Rf (opB (FO tbl) b cb tb k j)) l)
       <= ((1 + / 2 ^ 53) ^ S l - 1)
          * sumk RO (fun k => Rabs (B2Rf (nth k v (Ops.zero (FO tbl))) * B2Rf (opB (FO tbl) b cb tb k j))) l
          + INR l * / 2 ^ 1075 * (1 + / 2 ^ 53) ^ l)%R.
Proof. exact is_vecmat_entry_error_general. Qed.

(** an instance the special case excludes: a 1x2 by 2x1 product whose first product 2^-600 * 2^-500 underflows; plain and blocked agree,
    the entry is finite *)
Example C05_example_entry_error_general :
  let a := [0x1p-600; 3]%float in
  let b := [0x1p-500; 0.5]%float in
  dims (length a) (length b) 1 2 false false = Some (2, 1, 1, 2, 1) /\
  (exists c, matmul FO0 a b 1 2 false false = Some c /\ matmul_blocked FO0 a b 1 2 false false 2 = Some c /\
             finite (nth (0 * 1 + 0) c (Ops.zero FO0))) /\
  ~ (forall k, k < 2 ->
     (B2Rf (opA FO0 a 2 false 0 k) * B2Rf (opB FO0 b 1 false k 0) = 0 \/
      / 2 ^ 1022 <= Rabs (B2Rf (opA FO0 a 2 false 0 k) * B2Rf (opB FO0 b 1 false k 0)))%R).
Proof. exact matmul_general_example. Qed.

(** one bound that contains both: the absolute term charges 2^-1075 only to the products that DO underflow ([underflow_cost r] is 0
    when r = 0 or |r| >= 2^-1022 and 2^-1075 otherwise: C04_underflow_cost_def), so it vanishes under the hypothesis of
    C05_matmul_entry_error_binary64 and is at most l * 2^-1075 always *)
From Compute Require Import Proofs.C04ErrGenCount Proofs.C05ErrGenCount.
Theorem C05_matmul_entry_error_binary64_counted :
  forall (tbl : libm_table) (a b : list float) (ra rb : nat) (ta tb : bool) (ca cb m l n : nat) (c : list float),
    dims (length a) (length b) ra rb ta tb = Some (ca, cb, m, l, n) ->
    matmul (FO tbl) a b ra rb ta tb = Some c ->
    forall i j, i < m -> j < n ->
      finite (nth (i * n + j) c (Ops.zero (FO tbl))) ->
      (Rabs (B2Rf (nth (i * n + j) c (Ops.zero (FO tbl)))
             - sumk RO (fun k => B2Rf (opA (FO tbl) a ca ta i k) * B2Rf (opB (FO tbl) b cb tb k j)) l)
       <= ((1 + / 2 ^ 53) ^ S l - 1)
          * sumk RO (fun k => Rabs (B2Rf (opA (FO tbl) a ca ta i k) * B2Rf (opB (FO tbl) b cb tb k j))) l
          + sumk RO (fun k => underflow_cost (B2Rf (opA (FO tbl) a ca ta i k) * B2Rf (opB (FO tbl) b cb tb k j))) l
            * (1 + / 2 ^ 53) ^ l)%R.
Proof. exact matmul_entry_error_counted. Qed.

Theorem C05_matmul_blocked_entry_error_binary64_counted :
  forall (tbl : libm_table) (a b : list float) (ra rb : nat) (ta tb : bool) (bs : nat) (ca cb m l n : nat) (c : list float),
    1 <= bs ->
    dims (length a) (length b) ra rb ta tb = Some (ca, cb, m, l, n) ->
    matmul_blocked (FO tbl) a b ra rb ta tb bs = Some c ->
    forall i j, i < m -> j < n ->
      finite (nth (i * n + j) c (Ops.zero (FO tbl))) ->
      (Rabs (B2Rf (nth (i * n + j) c (Ops.zero (FO tbl)))
             - sumk RO (fun k => B2Rf (opA (FO tbl) a ca ta i k) * B2Rf (opB (FO tbl) b cb tb k j)) l)
       <= ((1 + / 2 ^ 53) ^ S l - 1)
          * sumk RO (fun k => Rabs (B2Rf (opA (FO tbl) a ca ta i k) * B2Rf (opB (FO tbl) b cb tb k j))) l
          + sumk RO (fun k => underflow_cost (B2Rf (opA (FO tbl) a ca ta i k) * B2Rf (opB (FO tbl) b cb tb k j))) l
            * (1 + / 2 ^ 53) ^ l)%R.
Proof. exact matmul_blocked_entry_error_counted. Qed.
