(** * C17 — statistical transforms and combinatorics.  Statements only (proofs: Proofs/C17*.v).
    Carriers: [N] with explicit mod-2^64 / overflow-panic arithmetic for [binom_coeff] (both build modes),
    [RO] (reals) for the transforms.  C(n,k) is MathComp's [binomial] transported to [N] ([Spec.Binom.CN]). *)
From Coq Require Import NArith ZArith Reals List Floats.
From Compute Require Import Base.Ops Model.Binom Spec.Binom Proofs.C17_binom.
From Compute Require Import Model.Transforms Spec.Transforms Proofs.C17_transforms Proofs.C17_softmax.
From Flocq Require BinarySingleNaN PrimFloat.
From Compute Require Proofs.C17_softmax_f64.
Import ListNotations.
Local Open Scope N_scope.

(** ** binom_coeff *)

(** for ALL n < 2^64 and k <= n whose coefficient fits in 64 bits, the release build (wrapping arithmetic)
    and the debug build (overflow panics) both return exactly C(n,k): no intermediate operation leaves the
    u64 range and the early-return guard stays silent *)
Theorem C17_binom_coeff_exact :
  forall (md : mode) (n k : N),
    k <= n -> n < M64 -> CN n k < M64 -> binom_coeff md n k = Some (CN n k).
Proof. exact binom_coeff_exact. Qed.

(** 0 is returned only on true overflow ... *)
Theorem C17_binom_zero_only_if_overflow :
  forall md n k, k <= n -> n < M64 -> binom_coeff md n k = Some 0 -> M64 <= CN n k.
Proof. exact binom_zero_only_if_overflow. Qed.
(** ... and the debug build panics only on true overflow (for k <= n) *)
Theorem C17_binom_panic_only_if_overflow :
  forall n k, k <= n -> n < M64 -> binom_coeff Trap n k = None -> M64 <= CN n k.
Proof. exact binom_panic_only_if_overflow. Qed.
(** the guard [c / i > u64::MAX / nk] can fire at iteration i only if C(n,i) itself does not fit *)
Theorem C17_binom_guard_fires_only_if_overflow :
  forall n nk i,
    1 <= i -> i <= nk -> 2 * nk <= n ->
    (MAX64 / nk <? CN n (i - 1) / i) = true -> M64 <= CN n i.
Proof. exact binom_guard_fires_only_if_overflow. Qed.
(** k > n is rejected by the debug build (the subtraction n - k panics) *)
Theorem C17_binom_rejects_k_gt_n_debug : forall n k, n < k -> binom_coeff Trap n k = None.
Proof. exact binom_rejects_k_gt_n_debug. Qed.

(** symmetry, unconditionally (the same loop runs for k and n - k, overflowing or not) *)
Theorem C17_binom_coeff_symmetric :
  forall md n k, k <= n -> binom_coeff md n (n - k) = binom_coeff md n k.
Proof. exact binom_coeff_symmetric. Qed.
(** Pascal's rule on the computed values *)
Theorem C17_binom_coeff_pascal :
  forall md n k a b,
    n + 1 < M64 -> k < n -> CN (n + 1) (k + 1) < M64 ->
    binom_coeff md n k = Some a -> binom_coeff md n (k + 1) = Some b ->
    binom_coeff md (n + 1) (k + 1) = Some (a + b).
Proof. exact binom_coeff_pascal. Qed.

(** outside the property's domain (recorded observation, not a clause of C17): when C(n,k) >= 2^64 the guard does not always
    fire.  C(2^33, 2) = 2^32 (2^33 - 1) >= 2^64: the debug build panics on the multiplication, the release build returns
    the wrapped value *)
Theorem C17_binom_overflow_unguarded_witness :
  binom_coeff Trap 8589934592 2 = None /\ binom_coeff Wrap 8589934592 2 = Some 18446744069414584320.
Proof. exact binom_overflow_unguarded_ex. Qed.
(** the largest central coefficient that fits is computed exactly in both builds; one row further the guard fires *)
Theorem C17_binom_boundary_witness :
  binom_coeff Wrap 67 33 = Some 14226520737620288370 /\ binom_coeff Trap 67 33 = Some 14226520737620288370 /\
  binom_coeff Wrap 68 34 = Some 0 /\ binom_coeff Trap 68 34 = Some 0.
Proof. exact (conj (proj1 binom_exact_ex) (conj (proj2 binom_exact_ex) binom_overflow_guard_ex)). Qed.

Local Close Scope N_scope.
Local Open Scope R_scope.

(** ** logistic / logit (reals) *)
Theorem C17_logistic_def : forall x : R, logistic RO x = exp x / (1 + exp x).
Proof. exact logistic_def. Qed.
Theorem C17_logistic_range : forall x : R, 0 < logistic RO x < 1.
Proof. exact logistic_range. Qed.
Theorem C17_logistic_monotone : forall x y : R, x <= y -> logistic RO x <= logistic RO y.
Proof. exact logistic_monotone. Qed.
Theorem C17_logistic_strictly_monotone : forall x y : R, x < y -> logistic RO x < logistic RO y.
Proof. exact logistic_strictly_monotone. Qed.
Theorem C17_logistic_symmetry : forall x : R, logistic RO (- x) = 1 - logistic RO x.
Proof. exact logistic_symmetry. Qed.
(** logit inverts logistic, in both orders *)
Theorem C17_logit_logistic : forall x : R, logit RO (logistic RO x) = Some x.
Proof. exact logit_logistic. Qed.
Theorem C17_logistic_logit : forall p l : R, 0 < p < 1 -> logit RO p = Some l -> logistic RO l = p.
Proof. exact logistic_logit. Qed.
Theorem C17_logit_logodds : forall p : R, 0 < p < 1 -> logit RO p = Some (ln p - ln (1 - p)).
Proof. exact logit_logodds. Qed.
(** acceptance exactly on [0,1]; rejection outside; NaN rejected on binary64 whatever libm does *)
Theorem C17_logit_accepts_iff : forall p : R, logit RO p <> None <-> 0 <= p <= 1.
Proof. exact logit_accepts_iff. Qed.
Theorem C17_logit_rejects : forall p : R, p < 0 \/ 1 < p -> logit RO p = None.
Proof. exact logit_rejects. Qed.
Theorem C17_logit_rejects_nan : forall t : libm_table, logit (FO t) nan = None.
Proof. exact logit_rejects_nan. Qed.

(** ** softmax (reals; every real vector is a "finite input") *)
(** the shifted evaluation is the textbook softmax e^{x_i} / sum_j e^{x_j} *)
Theorem C17_softmax_eq_spec :
  forall x : list R, softmax RO x = map (fun v => exp v / Rsum (map exp x)) x.
Proof. exact softmax_eq_spec. Qed.
Theorem C17_softmax_length : forall x : list R, length (softmax RO x) = length x.
Proof. exact softmax_length. Qed.
Theorem C17_softmax_nonneg : forall x : list R, Forall (fun p => 0 <= p) (softmax RO x).
Proof. exact softmax_nonneg. Qed.
Theorem C17_softmax_positive : forall x : list R, Forall (fun p => 0 < p <= 1) (softmax RO x).
Proof. exact softmax_positive. Qed.
Theorem C17_softmax_sums_to_one : forall x : list R, x <> [] -> Rsum (softmax RO x) = 1.
Proof. exact softmax_sums_to_one. Qed.
Theorem C17_softmax_order_preserving :
  forall (x : list R) (i j : nat), (i < length x)%nat -> (j < length x)%nat ->
    (nth i x 0 <= nth j x 0 <-> nth i (softmax RO x) 0 <= nth j (softmax RO x) 0).
Proof. exact softmax_order_preserving. Qed.
Theorem C17_softmax_shift_invariant :
  forall (x : list R) (c : R), softmax RO (map (fun v => v + c) x) = softmax RO x.
Proof. exact softmax_shift_invariant. Qed.
(** overflow safety of the repaired code, for EVERY non-empty real vector: every argument handed to exp is <= 0
    and one of them is 0, hence every exponential lies in (0,1] and the denominator in [1, n] *)
Theorem C17_softmax_args_nonpos :
  forall x : list R, x <> [] ->
    Forall (fun a => a <= 0) (softmax_args RO x) /\ In 0 (softmax_args RO x).
Proof. exact softmax_args_nonpos. Qed.
Theorem C17_softmax_exps_range :
  forall x : list R, x <> [] ->
    Forall (fun e => 0 < e <= 1) (softmax_exps RO x) /\ In 1 (softmax_exps RO x).
Proof. exact softmax_exps_range. Qed.
Theorem C17_softmax_denom_range :
  forall x : list R, x <> [] -> 1 <= softmax_denom RO x <= INR (length x).
Proof. exact softmax_denom_range. Qed.
(** the same obligation ON BINARY64 (IEEE-754 meaning of the primitive floats via Flocq), for every non-empty vector of
    finite doubles and whatever the libm table contains: the shift is an entry of the vector that bounds every entry, and
    every argument handed to exp compares <= 0 (a non-positive double, or -inf if the subtraction overflows), so exp
    cannot overflow; the maximal entry contributes the argument m - m = 0 *)
Theorem C17_softmax_shift_is_max_f64 :
  forall (t : libm_table) (x : list float), x <> [] ->
    Forall (fun v => Flocq.IEEE754.BinarySingleNaN.is_finite (Flocq.IEEE754.PrimFloat.Prim2B v) = true) x ->
    In (softmax_shift (FO t) x) x /\
    forall v, In v x ->
      Flocq.IEEE754.BinarySingleNaN.B2R (Flocq.IEEE754.PrimFloat.Prim2B v) <=
      Flocq.IEEE754.BinarySingleNaN.B2R (Flocq.IEEE754.PrimFloat.Prim2B (softmax_shift (FO t) x)).
Proof. exact Proofs.C17_softmax_f64.softmax_shift_f64. Qed.
Theorem C17_softmax_args_nonpos_f64 :
  forall (t : libm_table) (x : list float), x <> [] ->
    Forall (fun v => Flocq.IEEE754.BinarySingleNaN.is_finite (Flocq.IEEE754.PrimFloat.Prim2B v) = true) x ->
    Forall (fun a => PrimFloat.leb a 0%float = true) (softmax_args (FO t) x).
Proof. exact Proofs.C17_softmax_f64.softmax_args_nonpos_f64. Qed.
Theorem C17_softmax_args_has_zero_f64 :
  forall (t : libm_table) (x : list float), x <> [] ->
    Forall (fun v => Flocq.IEEE754.BinarySingleNaN.is_finite (Flocq.IEEE754.PrimFloat.Prim2B v) = true) x ->
    exists m, In m x /\ In (PrimFloat.sub m m) (softmax_args (FO t) x) /\ PrimFloat.eqb (PrimFloat.sub m m) 0%float = true.
Proof. exact Proofs.C17_softmax_f64.softmax_args_has_zero_f64. Qed.
(** the denominator ON BINARY64, conditional on the only thing Coq cannot know (libm): if exp returns, on the arguments actually
    passed, a finite double in [0,1] and 1 at a zero argument, then the left-to-right binary64 sum is finite and lies in [1, n] *)
Theorem C17_softmax_denom_range_f64 :
  forall (t : libm_table) (x : list float), x <> [] ->
    Forall (fun v => Flocq.IEEE754.BinarySingleNaN.is_finite (Flocq.IEEE754.PrimFloat.Prim2B v) = true) x ->
    (Z.of_nat (length x) < 2 ^ 53)%Z ->
    Forall (fun a => Flocq.IEEE754.BinarySingleNaN.is_finite (Flocq.IEEE754.PrimFloat.Prim2B (f1 (FO t) Exp a)) = true /\
                     0 <= Flocq.IEEE754.BinarySingleNaN.B2R (Flocq.IEEE754.PrimFloat.Prim2B (f1 (FO t) Exp a)) <= 1)
           (softmax_args (FO t) x) ->
    (forall a, In a (softmax_args (FO t) x) -> PrimFloat.eqb a 0%float = true ->
               Flocq.IEEE754.BinarySingleNaN.B2R (Flocq.IEEE754.PrimFloat.Prim2B (f1 (FO t) Exp a)) = 1) ->
    Flocq.IEEE754.BinarySingleNaN.is_finite (Flocq.IEEE754.PrimFloat.Prim2B (softmax_denom (FO t) x)) = true /\
    1 <= Flocq.IEEE754.BinarySingleNaN.B2R (Flocq.IEEE754.PrimFloat.Prim2B (softmax_denom (FO t) x)) <= IZR (Z.of_nat (length x)).
Proof. exact Proofs.C17_softmax_f64.softmax_denom_range_f64. Qed.
Theorem C17_softmax_empty : forall t : libm_table, softmax (FO t) [] = [].
Proof. exact softmax_empty. Qed.

(** ** Box-Cox (reals): definition on the domain, rejection outside, both forms *)
Theorem C17_boxcox_def :
  forall x l : R, 0 < x ->
    boxcox RO x l = Some (if Req_EM_T l 0 then ln x else (Rpower x l - 1) / l).
Proof. exact boxcox_def. Qed.
Theorem C17_boxcox_lambda_zero : forall x : R, 0 < x -> boxcox RO x 0 = Some (ln x).
Proof. exact boxcox_lambda_zero. Qed.
Theorem C17_boxcox_power : forall x l : R, 0 < x -> l <> 0 -> boxcox RO x l = Some ((Rpower x l - 1) / l).
Proof. exact boxcox_power. Qed.
Theorem C17_boxcox_domain : forall x l : R, boxcox RO x l <> None <-> 0 < x.
Proof. exact boxcox_domain. Qed.
Theorem C17_boxcox_shifted_def :
  forall x l a : R, 0 < x + a ->
    boxcox_shifted RO x l a = Some (if Req_EM_T l 0 then ln (x + a) else (Rpower (x + a) l - 1) / l).
Proof. exact boxcox_shifted_def. Qed.
Theorem C17_boxcox_shifted_domain : forall x l a : R, boxcox_shifted RO x l a <> None <-> 0 < x + a.
Proof. exact boxcox_shifted_domain. Qed.
Theorem C17_boxcox_shifted_zero_shift : forall x l : R, boxcox_shifted RO x l 0 = boxcox RO x l.
Proof. exact boxcox_shifted_zero_shift. Qed.
(** the lambda = 0 branch is the limit of the power branch *)
Theorem C17_boxcox_limit_at_zero :
  forall x : R, 0 < x ->
  forall eps : R, 0 < eps -> exists delta : R, 0 < delta /\
    forall l : R, l <> 0 -> Rabs l < delta -> Rabs ((Rpower x l - 1) / l - ln x) < eps.
Proof. exact boxcox_limit_at_zero. Qed.
Theorem C17_boxcox_rejects_nan : forall (t : libm_table) (l : float), boxcox (FO t) nan l = None.
Proof. exact boxcox_rejects_nan. Qed.

(** ** Tie A: the model IS the source (expression translator).  [Generated/transforms.v] is re-translated from
    src/functions/statistical.rs on every run (tools/tiea/transforms.py, tools/rsexpr.py), operation for operation;
    each theorem says that the translated body of the Rust function ([None] = panic) and the hand-written model
    function are the same function, for EVERY carrier [T] and every operations record [O]. *)
From Compute Require Import Base.RsExpr Generated.transforms Proofs.TieA_transforms.
Theorem C17_model_is_source_logistic :
  forall (T : Type) (O : Ops T) (x : T), src_logistic O x = logistic O x.
Proof. exact @tiea_logistic. Qed.
Theorem C17_model_is_source_logit :
  forall (T : Type) (O : Ops T) (p : T), src_logit O p = logit O p.
Proof. exact @tiea_logit. Qed.
Theorem C17_model_is_source_boxcox :
  forall (T : Type) (O : Ops T) (x lambda : T), src_boxcox O x lambda = boxcox O x lambda.
Proof. exact @tiea_boxcox. Qed.
Theorem C17_model_is_source_boxcox_shifted :
  forall (T : Type) (O : Ops T) (x lambda alpha : T),
    src_boxcox_shifted O x lambda alpha = boxcox_shifted O x lambda alpha.
Proof. exact @tiea_boxcox_shifted. Qed.

(** ** Tie A for [softmax]: the model IS the source.  [Generated/transforms_loops.v] is regenerated on every run from
    src/functions/statistical.rs by the statement-level translator (tools/rsexpr.py, target
    tools/tiea/transforms_loops.py): [x.iter().cloned().fold(f64::NEG_INFINITY, f64::max)], the collected exponentials,
    [Iterator::sum] from -0.0 and the quotients.  The model represents the seed -inf by "nothing seen yet"; the two agree
    on every carrier on which -inf is neutral for [f64::max] (the hypothesis, written out), and binary64 is one. *)
From Compute Require Import Base.RsExpr Generated.transforms_loops Proofs.TieA_transforms_loops.
Theorem C17_model_is_source_softmax :
  forall (T : Type) (O : Ops T),
    (forall v : T, fmax O (rs_f64_neg_infinity O) v = if is_nan O v then rs_f64_neg_infinity O else v) ->
    forall x : list T, src_softmax O x = softmax O x.
Proof. exact @tiea_softmax. Qed.
Theorem C17_model_is_source_softmax_binary64 :
  forall (t : libm_table) (x : list PrimFloat.float), src_softmax (FO t) x = softmax (FO t) x.
Proof. intros t x. exact (tiea_softmax (FO t) (ninf_neutral_FO t) x). Qed.

(** ** The transforms ON BINARY64, conditional on explicit hypotheses about the recorded libm table.
    [FO t] answers exp / ln from the table [t] recorded from the live glibc; Coq cannot know what glibc returns, so each
    theorem names exactly the libm facts it uses, restricted to the arguments that actually occur (definitions in
    Proofs/C17_float.v, repeated here in words):
      [exp_tbl_unit_range t args]  : exp a is a finite double in [0,1] for every a in args with a <= 0 (-inf included);
      [exp_tbl_one_at_zero t args] : exp a = 1 for every zero a in args;
      [exp_tbl_monotone t args]    : a <= b -> exp a <= exp b for a, b in args (IEEE comparisons);
      [exp_tbl_nonneg t args]      : 0 <= exp a (not NaN, +inf allowed) for a in args;
      [ln_tbl_monotone t args]     : a <= b -> ln a <= ln b for a, b in args;  [ln_tbl_zero_at_one t] : ln 1 is a zero.
    They are statements about a finite table (satisfied by the concrete tables of the Examples and checked on the live
    glibc by the oracle, classes "libm:..."); everything else is IEEE-754 arithmetic through Flocq's [Prim2B]. *)
From Compute Require Proofs.C17_float Proofs.C17_float_logistic.
Import Proofs.C17_float Proofs.C17_float_logistic.
Local Notation finite64 v := (Flocq.IEEE754.BinarySingleNaN.is_finite (Flocq.IEEE754.PrimFloat.Prim2B v) = true).
Local Notation real64 v := (Flocq.IEEE754.BinarySingleNaN.B2R (Flocq.IEEE754.PrimFloat.Prim2B v)).

(** softmax of every non-empty vector of finite doubles: every output is a finite double in [0, 1] *)
Theorem C17_softmax_range_binary64 :
  forall (t : libm_table) (x : list float), x <> [] ->
    Forall (fun v => finite64 v) x -> (Z.of_nat (length x) < 2 ^ 53)%Z ->
    exp_tbl_unit_range t (softmax_args (FO t) x) -> exp_tbl_one_at_zero t (softmax_args (FO t) x) ->
    Forall (fun p => finite64 p /\ 0 <= real64 p <= 1) (softmax (FO t) x).
Proof. exact softmax_range_f64. Qed.

(** order is preserved: x_i <= x_j implies out_i <= out_j (additionally: the table's exp monotone on the arguments used) *)
Theorem C17_softmax_order_binary64 :
  forall (t : libm_table) (x : list float), x <> [] ->
    Forall (fun v => finite64 v) x -> (Z.of_nat (length x) < 2 ^ 53)%Z ->
    exp_tbl_unit_range t (softmax_args (FO t) x) -> exp_tbl_one_at_zero t (softmax_args (FO t) x) ->
    exp_tbl_monotone t (softmax_args (FO t) x) ->
    forall i j : nat, (i < length x)%nat -> (j < length x)%nat ->
      real64 (nth i x 0%float) <= real64 (nth j x 0%float) ->
      real64 (nth i (softmax (FO t) x) 0%float) <= real64 (nth j (softmax (FO t) x) 0%float).
Proof. exact softmax_order_f64. Qed.

(** a maximal input receives a maximal output *)
Theorem C17_softmax_max_binary64 :
  forall (t : libm_table) (x : list float), x <> [] ->
    Forall (fun v => finite64 v) x -> (Z.of_nat (length x) < 2 ^ 53)%Z ->
    exp_tbl_unit_range t (softmax_args (FO t) x) -> exp_tbl_one_at_zero t (softmax_args (FO t) x) ->
    exp_tbl_monotone t (softmax_args (FO t) x) ->
    forall j : nat, (j < length x)%nat ->
      (forall v, In v x -> real64 v <= real64 (nth j x 0%float)) ->
      forall p, In p (softmax (FO t) x) -> real64 p <= real64 (nth j (softmax (FO t) x) 0%float).
Proof. exact softmax_max_f64. Qed.

(** the real values of the outputs sum to 1 up to rounding, at every length n < 2^52, with no side condition on
    underflow (the term n 2^-1075 pays for quotients that fall in the subnormal range): with g = (1 + 2^-53)^n - 1 the
    error of the left-to-right denominator, | sum_i out_i - 1 | <= (2^-53 + g) / (1 - g) + n 2^-1075 *)
Theorem C17_softmax_sum_binary64 :
  forall (t : libm_table) (x : list float), x <> [] ->
    Forall (fun v => finite64 v) x ->
    exp_tbl_unit_range t (softmax_args (FO t) x) -> exp_tbl_one_at_zero t (softmax_args (FO t) x) ->
    (Z.of_nat (length x) < 2 ^ 52)%Z ->
    let g := (1 + / 2 ^ 53) ^ length x - 1 in
    Rabs (Rsum (map (fun p => real64 p) (softmax (FO t) x)) - 1)
    <= (/ 2 ^ 53 + g) / (1 - g) + INR (length x) * / 2 ^ 1075.
Proof. exact softmax_sum_f64. Qed.
(** ... which for n <= 2^25 entries is at most (n + 2) 2^-53 + n 2^-1075 *)
Theorem C17_softmax_sum_binary64_linear :
  forall (t : libm_table) (x : list float), x <> [] ->
    Forall (fun v => finite64 v) x ->
    exp_tbl_unit_range t (softmax_args (FO t) x) -> exp_tbl_one_at_zero t (softmax_args (FO t) x) ->
    (Z.of_nat (length x) <= 2 ^ 25)%Z ->
    Rabs (Rsum (map (fun p => real64 p) (softmax (FO t) x)) - 1)
    <= (INR (length x) + 2) * / 2 ^ 53 + INR (length x) * / 2 ^ 1075.
Proof. exact softmax_sum_linear_f64. Qed.

(** the hypotheses are satisfiable on a non-trivial instance: x = [1; 3; 2] with the three values glibc's exp returns *)
Example C17_example_softmax_binary64 :
  let t := {| tbl1 := [(Exp, (-2)%float, 0x1.152aaa3bf81ccp-3%float); (Exp, 0%float, 1%float);
                       (Exp, (-1)%float, 0x1.78b56362cef38p-2%float)]; tbl2 := [] |} in
  let x := [1%float; 3%float; 2%float] in
  x <> [] /\ Forall (fun v => finite64 v) x /\
  exp_tbl_unit_range t (softmax_args (FO t) x) /\ exp_tbl_one_at_zero t (softmax_args (FO t) x) /\
  exp_tbl_monotone t (softmax_args (FO t) x) /\
  softmax (FO t) x = [0x1.70c3e5f682bdap-4%float; 0x1.549a766a0679p-1%float; 0x1.f534335ca4bcfp-3%float].
Proof. exact softmax_f64_hyps_ex. Qed.

(** logistic = 1 / (1 + exp(-x)): for EVERY double x (NaN and the infinities included) at which the table's exp(-x) is
    not NaN and not negative, the result is a finite double in [0, 1] *)
Theorem C17_logistic_range_binary64 :
  forall (t : libm_table) (x : float),
    exp_tbl_nonneg t [PrimFloat.opp x] ->
    finite64 (logistic (FO t) x) /\ 0 <= real64 (logistic (FO t) x) <= 1.
Proof. exact logistic_range_f64. Qed.
(** non-decreasing: x <= y (IEEE comparison, infinities allowed) implies logistic x <= logistic y, provided the table's
    exp is non-negative and non-decreasing on the two arguments -x, -y *)
Theorem C17_logistic_monotone_binary64 :
  forall (t : libm_table) (x y : float),
    PrimFloat.leb x y = true ->
    exp_tbl_nonneg t [PrimFloat.opp x; PrimFloat.opp y] -> exp_tbl_monotone t [PrimFloat.opp x; PrimFloat.opp y] ->
    real64 (logistic (FO t) x) <= real64 (logistic (FO t) y).
Proof. exact logistic_monotone_f64. Qed.
(** logistic(+-0) is exactly one half, given exp(-x) = 1 at the zero argument *)
Theorem C17_logistic_at_zero_binary64 :
  forall (t : libm_table) (x : float),
    PrimFloat.eqb x 0%float = true -> exp_tbl_one_at_zero t [PrimFloat.opp x] ->
    finite64 (logistic (FO t) x) /\ real64 (logistic (FO t) x) = / 2.
Proof. exact logistic_at_zero_f64. Qed.
Example C17_example_logistic_binary64 :
  let t := {| tbl1 := [(Exp, (-0.5)%float, 0x1.368b2fc6f960ap-1%float); (Exp, (-2)%float, 0x1.152aaa3bf81ccp-3%float);
                       (Exp, (-0)%float, 1%float)]; tbl2 := [] |} in
  PrimFloat.leb 0.5 2 = true /\
  exp_tbl_nonneg t [(- 0.5)%float; (- 2)%float] /\ exp_tbl_monotone t [(- 0.5)%float; (- 2)%float] /\
  exp_tbl_one_at_zero t [(- 0)%float] /\ logistic (FO t) 0%float = 0.5%float.
Proof. exact logistic_f64_hyps_ex. Qed.

(** logit = ln (p / (1 - p)) on [0, 1]: logit(1/2) is the table's ln 1 (the odds 0.5 / (1 - 0.5) are exactly 1) *)
Theorem C17_logit_half_binary64 :
  forall t : libm_table, logit (FO t) 0.5%float = Some (f1 (FO t) Ln 1%float).
Proof. exact logit_half_f64. Qed.
(** the odds handed to ln are on the right side of 1 ON BINARY64, whatever libm does: a finite double in [0, 1] for
    0 <= p <= 1/2, a double comparing >= 1 (possibly +inf) for 1/2 <= p < 1 *)
Theorem C17_logit_odds_binary64 :
  forall p : float, finite64 p ->
    (0 <= real64 p <= / 2 ->
       finite64 (PrimFloat.div p (PrimFloat.sub 1 p)) /\ 0 <= real64 (PrimFloat.div p (PrimFloat.sub 1 p)) <= 1) /\
    (/ 2 <= real64 p < 1 -> PrimFloat.leb 1 (PrimFloat.div p (PrimFloat.sub 1 p)) = true).
Proof. intros p Fp. split; [exact (logit_arg_le_1 p Fp)|exact (logit_arg_ge_1 p Fp)]. Qed.
(** hence the sign of logit follows the sign of ln: with the table's ln non-decreasing on the two arguments {odds, 1} and
    ln 1 a zero, an accepted p gives logit p <= 0 for p <= 1/2 and logit p >= 0 for 1/2 <= p < 1 *)
Theorem C17_logit_sign_binary64 :
  forall (t : libm_table) (p l : float),
    logit (FO t) p = Some l ->
    ln_tbl_monotone t [PrimFloat.div p (PrimFloat.sub 1 p); 1%float] -> ln_tbl_zero_at_one t ->
    l = f1 (FO t) Ln (PrimFloat.div p (PrimFloat.sub 1 p)) /\
    (real64 p <= / 2 -> PrimFloat.leb l 0%float = true) /\
    (/ 2 <= real64 p < 1 -> PrimFloat.leb 0%float l = true).
Proof. exact logit_sign_f64. Qed.
Example C17_example_logit_binary64 :
  let t := {| tbl1 := [(Ln, 0x1.5555555555555p-2%float, (-0x1.193ea7aad030bp+0)%float); (Ln, 1%float, 0%float)]; tbl2 := [] |} in
  PrimFloat.div 0.25 (PrimFloat.sub 1 0.25) = 0x1.5555555555555p-2%float /\
  logit (FO t) 0.25%float = Some (-0x1.193ea7aad030bp+0)%float /\
  ln_tbl_monotone t [PrimFloat.div 0.25 (PrimFloat.sub 1 0.25); 1%float] /\ ln_tbl_zero_at_one t /\
  logit (FO t) 0.5%float = Some 0%float.
Proof. exact logit_f64_hyps_ex. Qed.

(** Box-Cox on binary64 (repaired code: ln y * (exp_m1(u) / u) with u = lambda * ln y, and ln y when lambda == 0 || u == 0):
    the dispatch on lambda is exact (lambda = +0 or -0 returns the table's ln of the (shifted) argument, whatever libm
    does), and the transform of 1 is the table's ln 1 for every finite lambda, a zero as soon as ln 1 is *)
Theorem C17_boxcox_lambda_zero_binary64 :
  forall (t : libm_table) (x l : float),
    PrimFloat.ltb 0%float x = true -> PrimFloat.eqb l 0%float = true -> boxcox (FO t) x l = Some (f1 (FO t) Ln x).
Proof. exact boxcox_lambda_zero_f64. Qed.
Theorem C17_boxcox_shifted_lambda_zero_binary64 :
  forall (t : libm_table) (x l a : float),
    PrimFloat.ltb 0%float (PrimFloat.add x a) = true -> PrimFloat.eqb l 0%float = true ->
    boxcox_shifted (FO t) x l a = Some (f1 (FO t) Ln (PrimFloat.add x a)).
Proof. exact boxcox_shifted_lambda_zero_f64. Qed.
Theorem C17_boxcox_at_one_binary64 :
  forall (t : libm_table) (l : float),
    finite64 l -> ln_tbl_zero_at_one t ->
    boxcox (FO t) 1%float l = Some (f1 (FO t) Ln 1%float) /\ PrimFloat.eqb (f1 (FO t) Ln 1%float) 0%float = true.
Proof. exact boxcox_at_one_f64. Qed.
Example C17_example_boxcox_binary64 :
  let t := {| tbl1 := [(Ln, 1%float, 0%float)]; tbl2 := [] |} in
  finite64 2.5%float /\ ln_tbl_zero_at_one t /\ boxcox (FO t) 1%float 2.5%float = Some 0%float.
Proof. exact boxcox_f64_hyps_ex. Qed.

(** ** softmax on binary64, continued: the value of the maximal output, and the decidable form of the hypotheses *)
From Compute Require Proofs.C17_float_refl.
Import Proofs.C17_float_refl.
(** the output at a maximal input is the correctly rounded reciprocal of the binary64 denominator (its exponential is exactly
    1), hence at least the rounded 1/n and in particular positive: the outputs are never all zero *)
Theorem C17_softmax_max_value_binary64 :
  forall (t : libm_table) (x : list float), x <> [] ->
    Forall (fun v => finite64 v) x -> (Z.of_nat (length x) < 2 ^ 53)%Z ->
    exp_tbl_unit_range t (softmax_args (FO t) x) -> exp_tbl_one_at_zero t (softmax_args (FO t) x) ->
    forall j : nat, (j < length x)%nat ->
      (forall v, In v x -> real64 v <= real64 (nth j x 0%float)) ->
      real64 (nth j (softmax (FO t) x) 0%float)
        = Generic_fmt.round Zaux.radix2 (SpecFloat.fexp FloatOps.prec FloatOps.emax) (Flocq.IEEE754.BinarySingleNaN.round_mode Flocq.IEEE754.BinarySingleNaN.mode_NE)
            (1 / real64 (softmax_denom (FO t) x)) /\
      Generic_fmt.round Zaux.radix2 (SpecFloat.fexp FloatOps.prec FloatOps.emax) (Flocq.IEEE754.BinarySingleNaN.round_mode Flocq.IEEE754.BinarySingleNaN.mode_NE)
            (1 / IZR (Z.of_nat (length x))) <= real64 (nth j (softmax (FO t) x) 0%float) /\
      0 < real64 (nth j (softmax (FO t) x) 0%float).
Proof. exact softmax_max_value_f64. Qed.
(** the three exp hypotheses are DECIDABLE on a concrete table: [softmax_tbl_ok t x] is a boolean computed from the recorded
    table and the input (comparisons of table entries over the arguments x_i - max), and it implies them ... *)
Theorem C17_softmax_tbl_ok_sound :
  forall (t : libm_table) (x : list float), softmax_tbl_ok t x = true ->
    exp_tbl_unit_range t (softmax_args (FO t) x) /\ exp_tbl_one_at_zero t (softmax_args (FO t) x) /\
    exp_tbl_monotone t (softmax_args (FO t) x).
Proof. exact softmax_tbl_ok_sound. Qed.
(** ... so that range, order and sum hold for every recorded run on which two booleans evaluate to [true] *)
Theorem C17_softmax_binary64_decidable :
  forall (t : libm_table) (x : list float),
    x <> [] -> all_finite_b x = true -> (Z.of_nat (length x) <= 2 ^ 25)%Z -> softmax_tbl_ok t x = true ->
    Forall (fun p => finite64 p /\ 0 <= real64 p <= 1) (softmax (FO t) x) /\
    (forall i j : nat, (i < length x)%nat -> (j < length x)%nat ->
       real64 (nth i x 0%float) <= real64 (nth j x 0%float) ->
       real64 (nth i (softmax (FO t) x) 0%float) <= real64 (nth j (softmax (FO t) x) 0%float)) /\
    Rabs (Rsum (map (fun p => real64 p) (softmax (FO t) x)) - 1)
    <= (INR (length x) + 2) * / 2 ^ 53 + INR (length x) * / 2 ^ 1075.
Proof. exact softmax_f64_decidable. Qed.
Example C17_example_softmax_binary64_decidable :
  let t := {| tbl1 := [(Exp, (-2)%float, 0x1.152aaa3bf81ccp-3%float); (Exp, 0%float, 1%float);
                       (Exp, (-1)%float, 0x1.78b56362cef38p-2%float)]; tbl2 := [] |} in
  softmax_tbl_ok t [1%float; 3%float; 2%float] = true /\ all_finite_b [1%float; 3%float; 2%float] = true.
Proof. exact softmax_f64_decidable_ex. Qed.
