(** * C02 — densities, mass functions, moments of the 13 univariate laws.  Statements only.
    Carrier [RO] (exact reals).  [Gam], [Bet], [Erf] are ARBITRARY functions (the code's are the C09 models
    [gamma], [beta], [erf] of Model/Special.v), so every statement holds for the code's own Lanczos gamma and
    for the true Gamma function alike; [Beta_fn Gam a b = Gam a * Gam b / Gam (a + b)] is how [functions::beta]
    is defined.  The model [Model/Dists.v] is the repaired code (defects D3-D9 and two overflow repairs).
    Claim: PARTIAL — see tools/props.d/C02.json (not proved: moments/mass as integrals for Normal, Gamma, Beta,
    ChiSquared, T, Gumbel).  The multivariate normal is stated twice: section 8 with the inverse and determinant as
    inputs, section 9 END TO END, composed with C01 / C11 (the constructor computes them with those properties' models). *)
From Coq Require Import Reals List ZArith Lra Lia.
From Coquelicot Require Import Coquelicot.
From Compute Require Import Base.Ops Model.Dists Model.MatMul Model.MVN Spec.Densities Proofs.C02 Proofs.C02_integrals Proofs.C02_mvn.
Import ListNotations.
Open Scope R_scope.

(** ** 1. on the support the code's density / mass function is the textbook formula (13 laws) *)
Theorem C02_pdf_normal_textbook : forall mu s x : R, pdf_normal RO mu s x = spec_pdf_normal mu s x.
Proof. exact pdf_normal_textbook. Qed.
Theorem C02_pdf_gamma_textbook :
  forall (Gam : R -> R) (a b x : R), 0 < x -> pdf_gamma RO Gam a b x = spec_pdf_gamma Gam a b x.
Proof. exact pdf_gamma_textbook. Qed.
Theorem C02_pdf_beta_textbook :
  forall (Gam : R -> R) (a b x : R), 0 <= x <= 1 -> pdf_beta RO (Beta_fn Gam) a b x = spec_pdf_beta Gam a b x.
Proof. exact pdf_beta_textbook. Qed.
Theorem C02_pdf_chisq_textbook :
  forall (Gam : R -> R) (k : Z) (x : R), 0 < x -> pdf_chisq RO Gam k x = spec_pdf_chisq Gam k x.
Proof. exact pdf_chisq_textbook. Qed.
(** the boundary point of the support: the limit of the density from the right (dof = 1 has an infinite limit: the code returns 0 there) *)
Theorem C02_pdf_chisq_at_zero :
  forall (Gam : R -> R) (k : Z), (2 <= k)%Z -> pdf_chisq RO Gam k 0 = if (k =? 2)%Z then / (2 * Gam 1) else 0.
Proof. exact pdf_chisq_at_zero. Qed.
Theorem C02_pdf_t_textbook : forall (Gam : R -> R) (nu x : R), pdf_t RO Gam nu x = spec_pdf_t Gam nu x.
Proof. exact pdf_t_textbook. Qed.
Theorem C02_pdf_pareto_textbook : forall a m x : R, m <= x -> pdf_pareto RO a m x = spec_pdf_pareto a m x.
Proof. exact pdf_pareto_textbook. Qed.
Theorem C02_pdf_gumbel_textbook : forall mu b x : R, pdf_gumbel RO mu b x = spec_pdf_gumbel mu b x.
Proof. exact pdf_gumbel_textbook. Qed.
Theorem C02_pdf_exponential_textbook : forall l x : R, 0 <= x -> pdf_exponential RO l x = spec_pdf_exponential l x.
Proof. exact pdf_exponential_textbook. Qed.
Theorem C02_pdf_uniform_textbook : forall lo hi x : R, lo <= x <= hi -> pdf_uniform RO lo hi x = spec_pdf_uniform lo hi.
Proof. exact pdf_uniform_textbook. Qed.
Theorem C02_pmf_bernoulli_textbook :
  forall (p : R) (k : Z), (k = 0 \/ k = 1)%Z -> pmf_bernoulli RO p k = spec_pmf_bernoulli p k.
Proof. exact pmf_bernoulli_textbook. Qed.
(** the log-space evaluation [exp(sum ln((n-i+1)/i) + k ln p + (n-k) ln(1-p))] is [C(n,k) p^k (1-p)^(n-k)], for every n *)
Theorem C02_pmf_binomial_textbook :
  forall (n k : nat) (p : R), (k <= n)%nat -> 0 <= p <= 1 ->
    pmf_binomial RO (Z.of_nat n) p (Z.of_nat k) = spec_pmf_binomial n p k.
Proof. exact pmf_binomial_textbook. Qed.
Theorem C02_pmf_duniform_textbook :
  forall lo hi k : Z, (lo <= k <= hi)%Z -> pmf_duniform RO lo hi k = spec_pmf_duniform lo hi.
Proof. exact pmf_duniform_textbook. Qed.
(** the log-space evaluation [exp(k ln l - l - sum_{i=2..k} ln i)] is [l^k e^-l / k!], for every k *)
Theorem C02_pmf_poisson_textbook :
  forall (l : R) (k : nat), 0 < l -> pmf_poisson RO l (Z.of_nat k) = spec_pmf_poisson l k.
Proof. exact pmf_poisson_textbook. Qed.

(** ** 2. valid parameters are accepted, invalid ones rejected (the constructor panics: [None]) *)
Theorem C02_valid_decides : forall d : dist R, valid RO d = true <-> valid_params d.
Proof. exact valid_iff. Qed.
Theorem C02_pdf_accepts :
  forall (Gam : R -> R) (Bet : R -> R -> R) (d : dist R) (x : R),
    valid_params d -> is_continuous d = true -> exists v, pdf RO Gam Bet d x = Some v.
Proof. exact pdf_accepts. Qed.
Theorem C02_pmf_accepts :
  forall (d : dist R) (k : Z), valid_params d -> is_continuous d = false -> exists v, pmf RO d k = Some v.
Proof. exact pmf_accepts. Qed.
Theorem C02_invalid_rejected :
  forall (Gam : R -> R) (Bet : R -> R -> R) (d : dist R) (x : R) (k : Z), ~ valid_params d ->
    pdf RO Gam Bet d x = None /\ ln_pdf RO Gam Bet d x = None /\ pmf RO d k = None /\ mean RO d = None /\ var RO d = None.
Proof. exact invalid_rejected. Qed.

(** ** 3. outside the support the functions RETURN 0 (they do not fail) *)
Theorem C02_pdf_outside_support :
  forall (Gam : R -> R) (Bet : R -> R -> R) (d : dist R) (x : R),
    valid_params d -> is_continuous d = true -> ~ in_support d x -> pdf RO Gam Bet d x = Some 0.
Proof. exact pdf_outside_support. Qed.
Theorem C02_pmf_outside_support :
  forall (d : dist R) (k : Z),
    valid_params d -> is_continuous d = false -> ~ in_support_Z d k -> pmf RO d k = Some 0.
Proof. exact pmf_outside_support. Qed.

(** ** 4. non-negativity everywhere (for any [Gam], [Bet] positive on positive arguments) *)
Theorem C02_pdf_nonneg :
  forall (Gam : R -> R) (Bet : R -> R -> R) (d : dist R) (x v : R),
    (forall y, 0 < y -> 0 < Gam y) -> (forall a b, 0 < a -> 0 < b -> 0 < Bet a b) ->
    valid_params d -> pdf RO Gam Bet d x = Some v -> 0 <= v.
Proof. exact pdf_nonneg. Qed.
Theorem C02_pmf_nonneg :
  forall (d : dist R) (k : Z) (v : R), valid_params d -> pmf RO d k = Some v -> 0 <= v.
Proof. exact pmf_nonneg. Qed.

(** ** 5. the log-density is the logarithm of the density (Normal has its own formula; sigma > 0 there) *)
Theorem C02_ln_pdf_is_ln :
  forall (Gam : R -> R) (Bet : R -> R -> R) (d : dist R) (x : R),
    match d with DNormal _ s => 0 < s | _ => True end ->
    ln_pdf RO Gam Bet d x = option_map ln (pdf RO Gam Bet d x).
Proof. exact ln_pdf_is_ln. Qed.
Theorem C02_normal_cdf_formula :
  forall (Erf : R -> R) (mu s x : R), cdf_normal RO Erf mu s x = (1 + Erf ((x - mu) / (s * R_sqrt.sqrt 2))) / 2.
Proof. exact cdf_normal_formula. Qed.

(** the cdf is an antiderivative of the density ("the normal CDF is the integral of the normal density"),
    whenever [Erf] has the error function's derivative 2/sqrt(pi) exp(-t^2); such a function exists
    ([C02_erf_exists]); how close the code's polynomial erf is to it is property C09's 1.5e-7 clause (oracle) *)
Theorem C02_normal_cdf_is_antiderivative_of_pdf :
  forall (Erf : R -> R) (mu s x : R), 0 < s ->
    (forall t, is_derive Erf t (2 / R_sqrt.sqrt PI * exp (- t ^ 2))) ->
    is_derive (cdf_normal RO Erf mu s) x (pdf_normal RO mu s x).
Proof. exact cdf_normal_derivative. Qed.
Theorem C02_erf_exists :
  exists Erf : R -> R, (forall t, is_derive Erf t (2 / R_sqrt.sqrt PI * exp (- t ^ 2))) /\ Erf 0 = 0.
Proof. exact erf_exists. Qed.

(** ** 6. reported mean and variance are the textbook table (infinite / undefined moments included) *)
Theorem C02_mean_textbook : forall d : dist R, valid_params d -> mean_of RO d = spec_mean d.
Proof. exact mean_textbook. Qed.
Theorem C02_var_textbook : forall d : dist R, valid_params d -> var_of RO d = spec_var d.
Proof. exact var_textbook. Qed.
(** the Rust literal EULER_MASCHERONI is the nearest binary64 of its 99-digit decimal text *)
Theorem C02_euler_literal_ok : lit_ok euler_lit = true.
Proof. exact euler_lit_ok. Qed.

(** ** 7. total mass 1, first moment = mean(), second central moment = var(), as sums / integrals of the code's
       own mass function / density: Bernoulli, DiscreteUniform, Binomial, Uniform *)
Theorem C02_bernoulli_moments :
  forall p : R,
    sumZ (pmf_bernoulli RO p) [0; 1]%Z = 1 /\
    sumZ (fun k => IZR k * pmf_bernoulli RO p k) [0; 1]%Z = p /\
    sumZ (fun k => (IZR k - p) ^ 2 * pmf_bernoulli RO p k) [0; 1]%Z = p * (1 - p).
Proof. intros p. exact (conj (bernoulli_mass p) (conj (bernoulli_first_moment p) (bernoulli_second_central_moment p))). Qed.
Theorem C02_duniform_moments :
  forall lo hi : Z, (lo <= hi)%Z ->
    sumZ (pmf_duniform RO lo hi) (du_support lo hi) = 1 /\
    sumZ (fun k => IZR k * pmf_duniform RO lo hi k) (du_support lo hi) = (IZR lo + IZR hi) / 2 /\
    sumZ (fun k => (IZR k - (IZR lo + IZR hi) / 2) ^ 2 * pmf_duniform RO lo hi k) (du_support lo hi)
      = (IZR (hi - lo + 1) ^ 2 - 1) / 12.
Proof.
  intros lo hi H.
  exact (conj (duniform_mass lo hi H) (conj (duniform_first_moment lo hi H) (duniform_second_central_moment lo hi H))).
Qed.
Theorem C02_binomial_moments :
  forall (n : nat) (p : R), 0 <= p <= 1 ->
    sum_f_R0 (fun k => pmf_binomial RO (Z.of_nat n) p (Z.of_nat k)) n = 1 /\
    sum_f_R0 (fun k => INR k * pmf_binomial RO (Z.of_nat n) p (Z.of_nat k)) n = INR n * p /\
    sum_f_R0 (fun k => (INR k - INR n * p) ^ 2 * pmf_binomial RO (Z.of_nat n) p (Z.of_nat k)) n = INR n * p * (1 - p).
Proof.
  intros n p H.
  exact (conj (binomial_mass n p H) (conj (binomial_first_moment n p H) (binomial_second_central_moment n p H))).
Qed.
Theorem C02_uniform_moments :
  forall lo hi : R, lo < hi ->
    is_RInt (pdf_uniform RO lo hi) lo hi 1 /\
    is_RInt (fun x => x * pdf_uniform RO lo hi x) lo hi ((lo + hi) / 2) /\
    is_RInt (fun x => (x - (lo + hi) / 2) ^ 2 * pdf_uniform RO lo hi x) lo hi ((hi - lo) ^ 2 / 12).
Proof.
  intros lo hi H.
  exact (conj (uniform_mass lo hi H) (conj (uniform_first_moment lo hi H) (uniform_second_central_moment lo hi H))).
Qed.

(** Exponential, Pareto: improper integrals over [0, +oo) / [m, +oo); Poisson: series over all counts *)
Theorem C02_exponential_moments :
  forall l : R, 0 < l ->
    is_RInt_gen (pdf_exponential RO l) (at_point 0) (Rbar_locally p_infty) 1 /\
    is_RInt_gen (fun x => x * pdf_exponential RO l x) (at_point 0) (Rbar_locally p_infty) (/ l) /\
    is_RInt_gen (fun x => (x - / l) ^ 2 * pdf_exponential RO l x) (at_point 0) (Rbar_locally p_infty) (/ l ^ 2).
Proof.
  intros l H.
  exact (conj (exponential_mass l H) (conj (exponential_first_moment l H) (exponential_second_central_moment l H))).
Qed.
Theorem C02_pareto_moments :
  forall a m : R, 0 < a -> 0 < m ->
    is_RInt_gen (pdf_pareto RO a m) (at_point m) (Rbar_locally p_infty) 1 /\
    (1 < a -> is_RInt_gen (fun x => x * pdf_pareto RO a m x) (at_point m) (Rbar_locally p_infty) (a * m / (a - 1))) /\
    (2 < a -> is_RInt_gen (fun x => (x - a * m / (a - 1)) ^ 2 * pdf_pareto RO a m x) (at_point m) (Rbar_locally p_infty)
                          (m ^ 2 * a / ((a - 1) ^ 2 * (a - 2)))).
Proof.
  intros a m Ha Hm. split; [exact (pareto_mass a m Ha Hm)|]. split; intros H.
  - exact (pareto_raw1 a m H Hm).
  - exact (pareto_second_central_moment a m H Hm).
Qed.
(** Gumbel: total mass over the whole line (mean and variance involve Euler's constant and zeta(2): not proved) *)
Theorem C02_gumbel_total_mass :
  forall mu b : R, 0 < b ->
    is_RInt_gen (pdf_gumbel RO mu b) (Rbar_locally m_infty) (Rbar_locally p_infty) 1.
Proof. exact gumbel_mass. Qed.
Theorem C02_poisson_moments :
  forall l : R, 0 < l ->
    is_series (fun k => pmf_poisson RO l (Z.of_nat k)) 1 /\
    is_series (fun k => INR k * pmf_poisson RO l (Z.of_nat k)) l /\
    is_series (fun k => (INR k - l) ^ 2 * pmf_poisson RO l (Z.of_nat k)) l.
Proof. exact poisson_moments. Qed.

(** ** 8. multivariate normal (model: Model/MVN.v; the cached inverse [cinv] and determinant [cdet] are inputs —
       [Matrix::inv] / [Matrix::det] belong to C01/C11).  [quad_spec n A mu x] is the double sum
       [sum_i (x_i - mu_i) * sum_k A[i*n+k] * (x_k - mu_k)]. *)
Theorem C02_mvn_pdf_textbook :
  forall (n : nat) (cov : matrix) (cinv mean x : list R) (cdet : R),
    (0 < n)%nat -> (Z.of_nat n < 2 ^ 64)%Z -> length cinv = (n * n)%nat -> length mean = n -> length x = n ->
    is_positive_definite RO cov = true ->
    mvn_pdf RO cov {| nr := n; nc := n; dat := cinv |} cdet mean x
    = Some (exp (- quad_spec n cinv mean x / 2) / R_sqrt.sqrt ((2 * PI) ^ n * cdet)).
Proof. exact mvn_pdf_textbook. Qed.
Theorem C02_mvn_ln_pdf_is_ln :
  forall (cov cinv : matrix) (cdet : R) (mean x : list R),
    (Z.of_nat (length x) < 2 ^ 64)%Z -> 0 < cdet ->
    mvn_ln_pdf RO cov cinv cdet mean x = option_map ln (mvn_pdf RO cov cinv cdet mean x).
Proof. exact mvn_ln_pdf_is_ln. Qed.
Theorem C02_mvn_rejects :
  forall (cov cinv : matrix) (cdet : R) (mean x : list R),
    is_positive_definite RO cov = false \/ length x <> length mean ->
    mvn_pdf RO cov cinv cdet mean x = None /\ mvn_ln_pdf RO cov cinv cdet mean x = None.
Proof. exact mvn_rejects. Qed.
Example C02_example_mvn :
  let cov := {| nr := 2; nc := 2; dat := [1 / 2; 0; 0; 2] |} in
  is_positive_definite RO cov = true /\
  mvn_pdf RO cov {| nr := 2; nc := 2; dat := [2; 0; 0; 1 / 2] |} 1 [1; 1] [2; 3] = Some (exp (- 2) / (2 * PI)).
Proof. exact mvn_example. Qed.

(** ** the hypotheses are satisfiable on non-trivial instances *)
Example C02_example_supports :
  valid_params (DBeta (1 / 2) 3) /\ in_support (DBeta (1 / 2) 3) (1 / 4) /\ ~ in_support (DBeta (1 / 2) 3) 2 /\
  valid_params (DChiSquared 1) /\ ~ in_support (DChiSquared 1) 0 /\ in_support (DChiSquared 2) 0 /\
  valid_params (DPareto 3 2) /\ in_support (DPareto 3 2) 2 /\ ~ in_support (DPareto 3 2) (3 / 2) /\
  valid_params (DBinomial 5 (1 / 3)) /\ in_support_Z (DBinomial 5 (1 / 3)) 5 /\ ~ in_support_Z (DBinomial 5 (1 / 3)) 6 /\
  ~ valid_params (DGamma (-1) 2) /\ ~ valid_params (DUniform 1 0) /\ ~ valid_params (DBernoulli 2).
Proof. cbn. repeat split; try lra; try lia. Qed.
Example C02_example_positive_gamma :
  (forall y, 0 < y -> 0 < exp y) /\ (forall a b, 0 < a -> 0 < b -> 0 < Beta_fn exp a b).
Proof.
  split; [intros; apply exp_pos|]. intros a b _ _. unfold Beta_fn.
  apply Rdiv_lt_0_compat; [apply Rmult_lt_0_compat|]; apply exp_pos.
Qed.
Example C02_example_binomial : pmf_binomial RO 3 (1 / 2) 2 = 3 / 8.
Proof.
  apply (eq_trans (pmf_binomial_textbook 3 2 (1 / 2) ltac:(lia) ltac:(lra))).
  unfold spec_pmf_binomial, Binomial.C. simpl. field.
Qed.
Example C02_example_poisson : pmf_poisson RO 2 3 = 2 ^ 3 * exp (- 2) / 6.
Proof.
  apply (eq_trans (pmf_poisson_textbook 2 3 ltac:(lra))). unfold spec_pmf_poisson. simpl. f_equal. ring.
Qed.
Example C02_example_duniform_dice :
  sumZ (fun k => IZR k * pmf_duniform RO 1 6 k) (du_support 1 6) = 7 / 2 /\
  sumZ (fun k => (IZR k - 7 / 2) ^ 2 * pmf_duniform RO 1 6 k) (du_support 1 6) = 35 / 12.
Proof.
  destruct (C02_duniform_moments 1 6 ltac:(lia)) as (_ & H1 & H2). split.
  - rewrite H1. lra.
  - replace (7 / 2) with ((IZR 1 + IZR 6) / 2) by lra. rewrite H2. simpl. lra.
Qed.
Example C02_example_moments_table :
  mean_of RO (DPareto (1 / 2) 1) = PInf /\ var_of RO (DT (3 / 2)) = PInf /\ var_of RO (DT (1 / 2)) = Undef /\
  var_of RO (DNormal 0 3) = Fin 9 /\ mean_of RO (DDiscreteUniform 0 1) = Fin (1 / 2).
Proof.
  rewrite !mean_textbook, !var_textbook by (cbn; try lra; lia). cbn.
  repeat match goal with |- context [Rle_dec ?a ?b] => destruct (Rle_dec a b); try lra
                    | |- context [Rlt_dec ?a ?b] => destruct (Rlt_dec a b); try lra end.
  repeat split; f_equal; lra.
Qed.

From Compute Require Import Base.RsExpr Generated.dists Proofs.TieA_dists.

(** ** 9. Tie A: the model IS the source (expression translator).  [Generated/dists.v] is re-translated from
    src/distributions/*.rs on every run (tools/tiea/dists.py, tools/rsexpr.py), operation for operation; each theorem
    says that the translated body of the Rust function and the hand-written model function are the same function, for
    EVERY carrier [T] and every operations record [O] (so in particular on the reals, where the theorems above live,
    and on binary64 with any libm table, where the correspondence runs).  42 functions: 9 pdf, Normal's ln_pdf and
    cdf, the trait default ln_pdf, 4 pmf, 13 mean, 13 var. *)
Theorem C02_model_is_source_Beta_pdf :
  forall (T : Type) (O : Ops T) (Bet : T -> T -> T) (a b x : T),
    Beta_pdf O Bet a b x = pdf_beta O Bet a b x.
Proof. exact @tiea_Beta_pdf. Qed.
Theorem C02_model_is_source_ChiSquared_pdf :
  forall (T : Type) (O : Ops T) (Gam : T -> T) (k : Z) (x : T),
    ChiSquared_pdf O Gam k x = pdf_chisq O Gam k x.
Proof. exact @tiea_ChiSquared_pdf. Qed.
Theorem C02_model_is_source_Exponential_pdf :
  forall (T : Type) (O : Ops T) (l x : T),
    Exponential_pdf O l x = pdf_exponential O l x.
Proof. exact @tiea_Exponential_pdf. Qed.
Theorem C02_model_is_source_Gamma_pdf :
  forall (T : Type) (O : Ops T) (Gam : T -> T) (a b x : T),
    Gamma_pdf O Gam a b x = pdf_gamma O Gam a b x.
Proof. exact @tiea_Gamma_pdf. Qed.
Theorem C02_model_is_source_Gumbel_pdf :
  forall (T : Type) (O : Ops T) (mu b x : T),
    Gumbel_pdf O mu b x = pdf_gumbel O mu b x.
Proof. exact @tiea_Gumbel_pdf. Qed.
Theorem C02_model_is_source_Normal_pdf :
  forall (T : Type) (O : Ops T) (mu s x : T),
    Normal_pdf O mu s x = pdf_normal O mu s x.
Proof. exact @tiea_Normal_pdf. Qed.
Theorem C02_model_is_source_Pareto_pdf :
  forall (T : Type) (O : Ops T) (a m x : T),
    Pareto_pdf O a m x = pdf_pareto O a m x.
Proof. exact @tiea_Pareto_pdf. Qed.
Theorem C02_model_is_source_T_pdf :
  forall (T : Type) (O : Ops T) (Gam : T -> T) (nu x : T),
    T_pdf O Gam nu x = pdf_t O Gam nu x.
Proof. exact @tiea_T_pdf. Qed.
Theorem C02_model_is_source_Uniform_pdf :
  forall (T : Type) (O : Ops T) (lo hi x : T),
    Uniform_pdf O lo hi x = pdf_uniform O lo hi x.
Proof. exact @tiea_Uniform_pdf. Qed.
Theorem C02_model_is_source_Normal_ln_pdf :
  forall (T : Type) (O : Ops T) (mu s x : T),
    Normal_ln_pdf O mu s x = ln_pdf_normal O mu s x.
Proof. exact @tiea_Normal_ln_pdf. Qed.
Theorem C02_model_is_source_Normal_cdf :
  forall (T : Type) (O : Ops T) (Erf : T -> T) (mu s x : T),
    Normal_cdf O Erf mu s x = cdf_normal O Erf mu s x.
Proof. exact @tiea_Normal_cdf. Qed.
Theorem C02_model_is_source_Bernoulli_pmf :
  forall (T : Type) (O : Ops T) (p : T) (k : Z),
    Bernoulli_pmf O p k = pmf_bernoulli O p k.
Proof. exact @tiea_Bernoulli_pmf. Qed.
Theorem C02_model_is_source_Binomial_pmf :
  forall (T : Type) (O : Ops T) (n : Z) (p : T) (k : Z),
    Binomial_pmf O n p k = pmf_binomial O n p k.
Proof. exact @tiea_Binomial_pmf. Qed.
Theorem C02_model_is_source_DiscreteUniform_pmf :
  forall (T : Type) (O : Ops T) (lo hi k : Z),
    DiscreteUniform_pmf O lo hi k = pmf_duniform O lo hi k.
Proof. exact @tiea_DiscreteUniform_pmf. Qed.
Theorem C02_model_is_source_Poisson_pmf :
  forall (T : Type) (O : Ops T) (l : T) (k : Z),
    Poisson_pmf O l k = pmf_poisson O l k.
Proof. exact @tiea_Poisson_pmf. Qed.
Theorem C02_model_is_source_Bernoulli_mean :
  forall (T : Type) (O : Ops T) (p : T),
    Bernoulli_mean O p = mean_of O (DBernoulli p).
Proof. exact @tiea_Bernoulli_mean. Qed.
Theorem C02_model_is_source_Bernoulli_var :
  forall (T : Type) (O : Ops T) (p : T),
    Bernoulli_var O p = var_of O (DBernoulli p).
Proof. exact @tiea_Bernoulli_var. Qed.
Theorem C02_model_is_source_Beta_mean :
  forall (T : Type) (O : Ops T) (a b : T),
    Beta_mean O a b = mean_of O (DBeta a b).
Proof. exact @tiea_Beta_mean. Qed.
Theorem C02_model_is_source_Beta_var :
  forall (T : Type) (O : Ops T) (a b : T),
    Beta_var O a b = var_of O (DBeta a b).
Proof. exact @tiea_Beta_var. Qed.
Theorem C02_model_is_source_Binomial_mean :
  forall (T : Type) (O : Ops T) (n : Z) (p : T),
    Binomial_mean O n p = mean_of O (DBinomial n p).
Proof. exact @tiea_Binomial_mean. Qed.
Theorem C02_model_is_source_Binomial_var :
  forall (T : Type) (O : Ops T) (n : Z) (p : T),
    Binomial_var O n p = var_of O (DBinomial n p).
Proof. exact @tiea_Binomial_var. Qed.
Theorem C02_model_is_source_ChiSquared_mean :
  forall (T : Type) (O : Ops T) (k : Z),
    ChiSquared_mean O k = mean_of O (DChiSquared k).
Proof. exact @tiea_ChiSquared_mean. Qed.
Theorem C02_model_is_source_ChiSquared_var :
  forall (T : Type) (O : Ops T) (k : Z),
    ChiSquared_var O k = var_of O (DChiSquared k).
Proof. exact @tiea_ChiSquared_var. Qed.
Theorem C02_model_is_source_DiscreteUniform_mean :
  forall (T : Type) (O : Ops T) (lo hi : Z),
    DiscreteUniform_mean O lo hi = mean_of O (DDiscreteUniform lo hi).
Proof. exact @tiea_DiscreteUniform_mean. Qed.
Theorem C02_model_is_source_DiscreteUniform_var :
  forall (T : Type) (O : Ops T) (lo hi : Z),
    DiscreteUniform_var O lo hi = var_of O (DDiscreteUniform lo hi).
Proof. exact @tiea_DiscreteUniform_var. Qed.
Theorem C02_model_is_source_Exponential_mean :
  forall (T : Type) (O : Ops T) (l : T),
    Exponential_mean O l = mean_of O (DExponential l).
Proof. exact @tiea_Exponential_mean. Qed.
Theorem C02_model_is_source_Exponential_var :
  forall (T : Type) (O : Ops T) (l : T),
    Exponential_var O l = var_of O (DExponential l).
Proof. exact @tiea_Exponential_var. Qed.
Theorem C02_model_is_source_Gamma_mean :
  forall (T : Type) (O : Ops T) (a b : T),
    Gamma_mean O a b = mean_of O (DGamma a b).
Proof. exact @tiea_Gamma_mean. Qed.
Theorem C02_model_is_source_Gamma_var :
  forall (T : Type) (O : Ops T) (a b : T),
    Gamma_var O a b = var_of O (DGamma a b).
Proof. exact @tiea_Gamma_var. Qed.
Theorem C02_model_is_source_Gumbel_mean :
  forall (T : Type) (O : Ops T) (mu b : T),
    Gumbel_mean O mu b = mean_of O (DGumbel mu b).
Proof. exact @tiea_Gumbel_mean. Qed.
Theorem C02_model_is_source_Gumbel_var :
  forall (T : Type) (O : Ops T) (mu b : T),
    Gumbel_var O mu b = var_of O (DGumbel mu b).
Proof. exact @tiea_Gumbel_var. Qed.
Theorem C02_model_is_source_Normal_mean :
  forall (T : Type) (O : Ops T) (mu s : T),
    Normal_mean O mu s = mean_of O (DNormal mu s).
Proof. exact @tiea_Normal_mean. Qed.
Theorem C02_model_is_source_Normal_var :
  forall (T : Type) (O : Ops T) (mu s : T),
    Normal_var O mu s = var_of O (DNormal mu s).
Proof. exact @tiea_Normal_var. Qed.
Theorem C02_model_is_source_Pareto_mean :
  forall (T : Type) (O : Ops T) (a m : T),
    Pareto_mean O a m = mean_of O (DPareto a m).
Proof. exact @tiea_Pareto_mean. Qed.
Theorem C02_model_is_source_Pareto_var :
  forall (T : Type) (O : Ops T) (a m : T),
    Pareto_var O a m = var_of O (DPareto a m).
Proof. exact @tiea_Pareto_var. Qed.
Theorem C02_model_is_source_Poisson_mean :
  forall (T : Type) (O : Ops T) (l : T),
    Poisson_mean O l = mean_of O (DPoisson l).
Proof. exact @tiea_Poisson_mean. Qed.
Theorem C02_model_is_source_Poisson_var :
  forall (T : Type) (O : Ops T) (l : T),
    Poisson_var O l = var_of O (DPoisson l).
Proof. exact @tiea_Poisson_var. Qed.
Theorem C02_model_is_source_T_mean :
  forall (T : Type) (O : Ops T) (nu : T),
    T_mean O nu = mean_of O (DT nu).
Proof. exact @tiea_T_mean. Qed.
Theorem C02_model_is_source_T_var :
  forall (T : Type) (O : Ops T) (nu : T),
    T_var O nu = var_of O (DT nu).
Proof. exact @tiea_T_var. Qed.
Theorem C02_model_is_source_Uniform_mean :
  forall (T : Type) (O : Ops T) (lo hi : T),
    Uniform_mean O lo hi = mean_of O (DUniform lo hi).
Proof. exact @tiea_Uniform_mean. Qed.
Theorem C02_model_is_source_Uniform_var :
  forall (T : Type) (O : Ops T) (lo hi : T),
    Uniform_var O lo hi = var_of O (DUniform lo hi).
Proof. exact @tiea_Uniform_var. Qed.
Theorem C02_model_is_source_Continuous_ln_pdf :
  forall (T : Type) (O : Ops T) (Gam : T -> T) (Bet : T -> T -> T) (d : dist T) (x : T),
    (forall mu s : T, d <> DNormal mu s) ->
    ln_pdf O Gam Bet d x = option_map (fun v : T => Continuous_ln_pdf O (fun _ : T => v) x) (pdf O Gam Bet d x).
Proof. exact @tiea_Continuous_ln_pdf. Qed.

(** Tie A, constructors: the model's [valid] is "none of [new]'s own panic!/assert! fires" ([<Law>_new_guard], translated
    from the source in guard mode; the cached sub-samplers built by the struct literal are C18's Tie A).  [Binomial::new]
    takes [n : u64]; the model's [0 <= n] is that type's range. *)
Theorem C02_model_is_source_Bernoulli_new_guard :
  forall (T : Type) (O : Ops T) (p : T),
    Bernoulli_new_guard O p = valid O (DBernoulli p).
Proof. exact @tiea_Bernoulli_new_guard. Qed.
Theorem C02_model_is_source_Beta_new_guard :
  forall (T : Type) (O : Ops T) (a b : T),
    Beta_new_guard O a b = valid O (DBeta a b).
Proof. exact @tiea_Beta_new_guard. Qed.
Theorem C02_model_is_source_Binomial_new_guard :
  forall (T : Type) (O : Ops T) (n : Z) (p : T),
    (0 <= n)%Z -> Binomial_new_guard O n p = valid O (DBinomial n p).
Proof. exact @tiea_Binomial_new_guard. Qed.
Theorem C02_model_is_source_ChiSquared_new_guard :
  forall (T : Type) (O : Ops T) (k : Z),
    ChiSquared_new_guard O k = valid (T:=T) O (DChiSquared k).
Proof. exact @tiea_ChiSquared_new_guard. Qed.
Theorem C02_model_is_source_DiscreteUniform_new_guard :
  forall (T : Type) (O : Ops T) (lo hi : Z),
    DiscreteUniform_new_guard O lo hi = valid (T:=T) O (DDiscreteUniform lo hi).
Proof. exact @tiea_DiscreteUniform_new_guard. Qed.
Theorem C02_model_is_source_Exponential_new_guard :
  forall (T : Type) (O : Ops T) (l : T),
    Exponential_new_guard O l = valid O (DExponential l).
Proof. exact @tiea_Exponential_new_guard. Qed.
Theorem C02_model_is_source_Gamma_new_guard :
  forall (T : Type) (O : Ops T) (a b : T),
    Gamma_new_guard O a b = valid O (DGamma a b).
Proof. exact @tiea_Gamma_new_guard. Qed.
Theorem C02_model_is_source_Gumbel_new_guard :
  forall (T : Type) (O : Ops T) (mu b : T),
    Gumbel_new_guard O mu b = valid O (DGumbel mu b).
Proof. exact @tiea_Gumbel_new_guard. Qed.
Theorem C02_model_is_source_Normal_new_guard :
  forall (T : Type) (O : Ops T) (mu s : T),
    Normal_new_guard O mu s = valid O (DNormal mu s).
Proof. exact @tiea_Normal_new_guard. Qed.
Theorem C02_model_is_source_Pareto_new_guard :
  forall (T : Type) (O : Ops T) (a m : T),
    Pareto_new_guard O a m = valid O (DPareto a m).
Proof. exact @tiea_Pareto_new_guard. Qed.
Theorem C02_model_is_source_Poisson_new_guard :
  forall (T : Type) (O : Ops T) (l : T),
    Poisson_new_guard O l = valid O (DPoisson l).
Proof. exact @tiea_Poisson_new_guard. Qed.
Theorem C02_model_is_source_T_new_guard :
  forall (T : Type) (O : Ops T) (nu : T),
    T_new_guard O nu = valid O (DT nu).
Proof. exact @tiea_T_new_guard. Qed.
Theorem C02_model_is_source_Uniform_new_guard :
  forall (T : Type) (O : Ops T) (lo hi : T),
    Uniform_new_guard O lo hi = valid O (DUniform lo hi).
Proof. exact @tiea_Uniform_new_guard. Qed.
(** the dispatchers the correspondence runs ([None] = the constructor panics), written with the source's terms only *)
Theorem C02_model_is_source_pdf_dispatch :
  forall (T : Type) (O : Ops T) (Gam : T -> T) (Bet : T -> T -> T) (d : dist T) (x : T),
    pdf O Gam Bet d x =
    match d with
    | DBeta a b => if Beta_new_guard O a b then Some (Beta_pdf O Bet a b x) else None
    | DChiSquared k => if ChiSquared_new_guard O k then Some (ChiSquared_pdf O Gam k x) else None
    | DExponential l => if Exponential_new_guard O l then Some (Exponential_pdf O l x) else None
    | DGamma a b => if Gamma_new_guard O a b then Some (Gamma_pdf O Gam a b x) else None
    | DGumbel mu b => if Gumbel_new_guard O mu b then Some (Gumbel_pdf O mu b x) else None
    | DNormal mu s => if Normal_new_guard O mu s then Some (Normal_pdf O mu s x) else None
    | DPareto a m => if Pareto_new_guard O a m then Some (Pareto_pdf O a m x) else None
    | DT nu => if T_new_guard O nu then Some (T_pdf O Gam nu x) else None
    | DUniform lo hi => if Uniform_new_guard O lo hi then Some (Uniform_pdf O lo hi x) else None
    | _ => None
    end.
Proof. exact @tiea_pdf_dispatch. Qed.
Theorem C02_model_is_source_pmf_dispatch :
  forall (T : Type) (O : Ops T) (d : dist T) (k : Z),
    pmf O d k =
    match d with
    | DBernoulli p => if Bernoulli_new_guard O p then Some (Bernoulli_pmf O p k) else None
    | DBinomial n p => if ((0 <=? n)%Z && Binomial_new_guard O n p)%bool then Some (Binomial_pmf O n p k) else None
    | DDiscreteUniform lo hi => if DiscreteUniform_new_guard O lo hi then Some (DiscreteUniform_pmf O lo hi k) else None
    | DPoisson l => if Poisson_new_guard O l then Some (Poisson_pmf O l k) else None
    | _ => None
    end.
Proof. exact @tiea_pmf_dispatch. Qed.

(** ** 9. multivariate normal END TO END, composed with C01 / C11 (model: Model/MVNNew.v).  [MVN::new] computes the
       Cholesky factor ([Matrix::cholesky]), the inverse ([Matrix::inv]: pivoted LU + one solve per column of the
       identity) and the determinant ([Matrix::det]: a second pivoted LU) with the executable models of C01 / C11 —
       the same terms that run bit for bit against the crate in the end-to-end correspondence cases.  No hypothesis
       on an inner routine is left.  For EVERY symmetric positive definite covariance [cov] (flat row-major, order n):
       the constructor returns; the cached inverse is THE inverse (two-sided: cov.Sinv = I = Sinv.cov); the cached
       determinant is THE determinant of cov ([Spec.Determinant.determinant], cofactor expansion) and is positive;
       [pdf] is the textbook density (2 pi)^(-n/2) det^(-1/2) exp(-(x-mu)^T Sinv (x-mu)/2) ([Spec.MVNDensity.mvn_density])
       and [ln_pdf] is its logarithm.  Positive definite is written out: v^T cov v > 0 for every v <> 0. *)
From Compute Require Import Base.ListMat Model.Subst Model.MVNNew Spec.Factor Spec.Solve Spec.Determinant Spec.MVNDensity.
From Compute Require Proofs.Compose_spd Proofs.C02_compose.

Theorem C02_mvn_new_accepts_spd_composed :
  forall (n : nat) (cov mean : list R),
    (0 < n)%nat -> length cov = (n * n)%nat -> length mean = n ->
    symmetric cov n ->
    (forall v : nat -> R, (exists i, (i < n)%nat /\ v i <> 0) ->
       0 < rsum (fun p => rsum (fun q => v p * getm cov n p q * v q) n) n) ->
    exists Sinv L : list R,
      mvn_new RO mean {| nr := n; nc := n; dat := cov |}
        = Some {| mvn_mean := mean; mvn_cov := {| nr := n; nc := n; dat := cov |};
                  mvn_cinv := {| nr := n; nc := n; dat := Sinv |};
                  mvn_cdet := determinant (unflatten cov n n);
                  mvn_chol := {| nr := n; nc := n; dat := L |} |} /\
      (length Sinv = (n * n)%nat /\
       (forall i j, (i < n)%nat -> (j < n)%nat -> mmul cov Sinv n i j = delta i j) /\
       (forall i j, (i < n)%nat -> (j < n)%nat -> mmul Sinv cov n i j = delta i j)) /\
      0 < determinant (unflatten cov n n) /\
      (length L = (n * n)%nat /\ lower_triangular L n /\ (forall i, (i < n)%nat -> 0 < getm L n i i) /\
       forall i j, (i < n)%nat -> (j < n)%nat -> rsum (fun k => getm L n i k * getm L n j k) n = getm cov n i j).
Proof. exact Proofs.C02_compose.mvn_new_spd. Qed.

Theorem C02_mvn_pdf_textbook_composed :
  forall (n : nat) (cov mean x : list R),
    (0 < n)%nat -> (Z.of_nat n < 2 ^ 64)%Z -> length cov = (n * n)%nat -> length mean = n -> length x = n ->
    symmetric cov n ->
    (forall v : nat -> R, (exists i, (i < n)%nat /\ v i <> 0) ->
       0 < rsum (fun p => rsum (fun q => v p * getm cov n p q * v q) n) n) ->
    exists Sinv : list R,
      (length Sinv = (n * n)%nat /\
       (forall i j, (i < n)%nat -> (j < n)%nat -> mmul cov Sinv n i j = delta i j) /\
       (forall i j, (i < n)%nat -> (j < n)%nat -> mmul Sinv cov n i j = delta i j)) /\
      0 < determinant (unflatten cov n n) /\
      mvn_pdf_full RO mean {| nr := n; nc := n; dat := cov |} x
        = Some (mvn_density n Sinv (determinant (unflatten cov n n)) mean x) /\
      mvn_ln_pdf_full RO mean {| nr := n; nc := n; dat := cov |} x
        = Some (ln (mvn_density n Sinv (determinant (unflatten cov n n)) mean x)).
Proof. exact Proofs.C02_compose.mvn_pdf_full_textbook. Qed.

(** "THE inverse": a left inverse X and a right inverse Y of the same matrix have the same entries, so the matrix
    [Sinv] of the two theorems above is determined by [cov] *)
Theorem C02_mvn_precision_unique_composed :
  forall (n : nat) (cov X Y : list R),
    (forall i j, (i < n)%nat -> (j < n)%nat -> mmul X cov n i j = delta i j) ->
    (forall i j, (i < n)%nat -> (j < n)%nat -> mmul cov Y n i j = delta i j) ->
    forall i j, (i < n)%nat -> (j < n)%nat -> getm Y n i j = getm X n i j.
Proof. exact Proofs.C02_compose.mvn_precision_unique. Qed.

(** the two ways of writing the density: the code's [exp(-q/2) / sqrt((2 pi)^n d)] and the textbook's *)
Theorem C02_mvn_density_forms_composed :
  forall (n : nat) (q d : R),
    0 < d ->
    exp (- q / 2) / R_sqrt.sqrt ((2 * PI) ^ n * d) = Rpower (2 * PI) (- INR n / 2) * Rpower d (- 1 / 2) * exp (- q / 2).
Proof. exact Proofs.C02_compose.density_forms. Qed.

(** rejection (the constructor panics): a mirrored pair further apart than the relative tolerance 2^-52 max(|x|,|y|) of
    [Matrix::is_symmetric]; a mean of the wrong length; a diagonal entry <= 0; a symmetric matrix that is not positive
    definite (a Cholesky pivot fails [assert!(d > 0.)]) *)
Theorem C02_mvn_new_rejects_composed :
  forall (n : nat) (cov mean : list R),
    (n * n)%nat = length cov ->
    ((exists i j, (i < n)%nat /\ (j < n)%nat /\
        eps RO * Rmax (Rabs (getm cov n i j)) (Rabs (getm cov n j i)) < Rabs (getm cov n i j - getm cov n j i)) \/
     length mean <> n \/
     (exists i, (i < n)%nat /\ getm cov n i i <= 0) \/
     (symmetric cov n /\
      ~ (forall v : nat -> R, (exists i, (i < n)%nat /\ v i <> 0) ->
           0 < rsum (fun p => rsum (fun q => v p * getm cov n p q * v q) n) n))) ->
    mvn_new RO mean {| nr := n; nc := n; dat := cov |} = None.
Proof. exact Proofs.C02_compose.mvn_new_rejects. Qed.

(** among the exactly symmetric covariances the constructor returns EXACTLY on the positive definite ones *)
Theorem C02_mvn_new_iff_spd_composed :
  forall (n : nat) (cov mean : list R),
    (0 < n)%nat -> length cov = (n * n)%nat -> length mean = n -> symmetric cov n ->
    ((exists d, mvn_new RO mean {| nr := n; nc := n; dat := cov |} = Some d) <->
     (forall v : nat -> R, (exists i, (i < n)%nat /\ v i <> 0) ->
        0 < rsum (fun p => rsum (fun q => v p * getm cov n p q * v q) n) n)).
Proof. exact Proofs.C02_compose.mvn_new_iff_spd. Qed.

Theorem C02_mvn_rejects_point_composed :
  forall (cov : matrix) (mean x : list R),
    length x <> length mean ->
    mvn_pdf_full RO mean cov x = None /\ mvn_ln_pdf_full RO mean cov x = None.
Proof. exact Proofs.C02_compose.mvn_full_rejects_point. Qed.

(** every carrier (binary64 included): what a constructor that returned has cached — the mean and covariance it was given,
    and exactly what [Matrix::cholesky], [Matrix::inv], [Matrix::det] (the models of C11 / C01) return on that covariance,
    which is square and as wide as the mean is long *)
Theorem C02_mvn_new_caches_composed :
  forall (T : Type) (O : Ops T) (mean : list T) (c : matrix) (d : mvn T),
    mvn_new O mean c = Some d ->
    mvn_mean d = mean /\ mvn_cov d = c /\ Model.Cholesky.matrix_cholesky O c = Some (mvn_chol d) /\
    Model.SolveInst.mat_inv O c = Some (mvn_cinv d) /\ Model.LU.matrix_det O c = Some (mvn_cdet d) /\
    nr c = nc c /\ length mean = nc c.
Proof. exact @Proofs.C02_compose.mvn_new_fields. Qed.

(** satisfiable, non-trivially: Sigma = [[2,1],[1,2]] (det 3, inverse [[2,-1],[-1,2]]/3), mu = 0, x = (1,0) *)
Example C02_example_mvn_composed :
  (symmetric [2; 1; 1; 2] 2 /\
   forall v : nat -> R, (exists i, (i < 2)%nat /\ v i <> 0) ->
     0 < rsum (fun p => rsum (fun q => v p * getm [2; 1; 1; 2] 2 p q * v q) 2) 2) /\
  mvn_pdf_full RO [0; 0] {| nr := 2; nc := 2; dat := [2; 1; 1; 2] |} [1; 0] = Some (exp (- (1 / 3)) / (2 * PI * R_sqrt.sqrt 3)).
Proof. exact (conj Proofs.C02_compose.example_cov_spd Proofs.C02_compose.mvn_full_example). Qed.
