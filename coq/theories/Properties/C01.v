(** * C01 — linear systems are solved through every entry point.
    Statements only; proofs are in Proofs/C01_Layout.v (routing, layout, rejection: every carrier, arbitrary
    factorisation routines), Proofs/C11_Chol.v + Proofs/C01_Chol.v (the fallible Cholesky sweep, shared with
    property C11), Proofs/C11_Pred.v + Proofs/C01_Pred.v (routing predicates), Proofs/C11_SPD.v + Proofs/C01_SPD.v
    (completeness) and Proofs/C01.v (exact arithmetic, factorisation models of property C11 plugged in).
    [try_cholesky], [cholesky], [is_symmetric_rows], [is_positive_definite] are defined once, in
    Model/Cholesky.v and Model/Subst.v.

    Reading guide.  [slice_solve], [slice_solve_sys], [slice_invert], [mat_solve_vec], [mat_solve_mat],
    [mat_inv] ([Model/SolveInst.v]) are the models of [solve], [solve_sys], [invert_matrix],
    [Solve<Vector>::solve], [Solve<Matrix>::solve], [Matrix::inv]; [None] is a panic.  [solves a n x b] is
    A.x = b, [solves_sys a n k X B] is A.X = B column by column on row-major arrays, [is_right_inverse] is
    A.X = I, [nonsingular a n] is "A has a left inverse" ([Spec/Solve.v]).  The theorems over [R] are exact
    arithmetic; the size of the rounding error on binary64 is NOT a theorem (failure-search oracle only). *)
From Coq Require Import List Arith Bool Reals.
From Compute Require Import Base.Ops Base.ListMat Model.Reduce Model.MatMul Model.Subst Model.Cholesky Model.LU
  Model.Solve Model.SolveInst Spec.Factor Spec.Solve Proofs.C01_Layout Proofs.C01_Chol Proofs.C01_Pred Proofs.C01 Proofs.C01_Backward Proofs.C01_SPD.
Import ListNotations.

(** ** Every carrier, arbitrary factorisation routines: routing, layout, rejection *)

(** the layout theorem: for EVERY order n and number k of right-hand sides, column j of the row-major
    result of [solve_sys] is exactly what the routed per-column solver returns on column j of the
    row-major right-hand side (row->column-major conversion, per-column solve, column->row-major) *)
Theorem C01_solve_sys_layout :
  forall (T : Type) (O : Ops T)
         (try_chol : list T -> option (option (list T))) (chol_solve : list T -> list T -> option (list T))
         (lu : list T -> option (list T * list nat)) (lu_solve : list T -> list nat -> list T -> option (list T))
         (a b : list T) (n k : nat) (f : list T -> option (list T)),
    is_square (length a) = Some n -> 0 < n -> length b = n * k ->
    factor O try_chol chol_solve lu lu_solve a = Some f ->
    (forall j, j < k -> exists x, f (colk (zero O) b n k j) = Some x /\ length x = n) ->
    exists X, solve_sys O try_chol chol_solve lu lu_solve a b = Some X /\ length X = n * k /\
              forall j, j < k -> f (colk (zero O) b n k j) = Some (colk (zero O) X n k j).
Proof. exact @solve_sys_layout. Qed.

(** a right-hand-side column on which the routed solver panics makes [solve_sys] panic *)
Theorem C01_solve_sys_column_panics :
  forall (T : Type) (O : Ops T)
         (try_chol : list T -> option (option (list T))) (chol_solve : list T -> list T -> option (list T))
         (lu : list T -> option (list T * list nat)) (lu_solve : list T -> list nat -> list T -> option (list T))
         (a b : list T) (n k : nat) (f : list T -> option (list T)) (j0 : nat),
    is_square (length a) = Some n -> 0 < n -> length b = n * k ->
    factor O try_chol chol_solve lu lu_solve a = Some f ->
    j0 < k -> f (colk (zero O) b n k j0) = None ->
    solve_sys O try_chol chol_solve lu lu_solve a b = None.
Proof. exact @solve_sys_column_panics. Qed.

(** [invert_matrix] is that layout against the identity *)
Theorem C01_invert_layout :
  forall (T : Type) (O : Ops T)
         (try_chol : list T -> option (option (list T))) (chol_solve : list T -> list T -> option (list T))
         (lu : list T -> option (list T * list nat)) (lu_solve : list T -> list nat -> list T -> option (list T))
         (a : list T) (n : nat) (f : list T -> option (list T)),
    is_square (length a) = Some n -> 0 < n ->
    factor O try_chol chol_solve lu lu_solve a = Some f ->
    (forall j, j < n -> exists x, f (colk (zero O) (eye O n) n n j) = Some x /\ length x = n) ->
    exists X, invert_matrix O try_chol chol_solve lu lu_solve a = Some X /\ length X = n * n /\
              forall j, j < n -> f (colk (zero O) (eye O n) n n j) = Some (colk (zero O) X n n j).
Proof. exact @invert_layout. Qed.

(** the multi-right-hand-side solver IS the single-right-hand-side solver column by column, and the
    inverse is [solve] against the unit vectors: for every carrier, hence bit for bit on binary64 *)
Theorem C01_solve_sys_is_solve_per_column :
  forall (T : Type) (O : Ops T)
         (try_chol : list T -> option (option (list T))) (chol_solve : list T -> list T -> option (list T))
         (lu : list T -> option (list T * list nat)) (lu_solve : list T -> list nat -> list T -> option (list T))
         (a b : list T) (n k : nat) (X : list T),
    is_square (length a) = Some n -> 0 < n -> length b = n * k ->
    solve_sys O try_chol chol_solve lu lu_solve a b = Some X ->
    length X = n * k /\
    forall j, j < k -> solve O try_chol chol_solve lu lu_solve a (colk (zero O) b n k j) = Some (colk (zero O) X n k j).
Proof. exact @solve_sys_is_solve_per_column. Qed.

Theorem C01_invert_is_solve_per_column :
  forall (T : Type) (O : Ops T)
         (try_chol : list T -> option (option (list T))) (chol_solve : list T -> list T -> option (list T))
         (lu : list T -> option (list T * list nat)) (lu_solve : list T -> list nat -> list T -> option (list T))
         (a : list T) (n : nat) (X : list T),
    is_square (length a) = Some n -> 0 < n ->
    invert_matrix O try_chol chol_solve lu lu_solve a = Some X ->
    length X = n * n /\
    forall j, j < n -> solve O try_chol chol_solve lu lu_solve a (colk (zero O) (eye O n) n n j) = Some (colk (zero O) X n n j).
Proof. exact @invert_is_solve_per_column. Qed.

(** the same for [Solve<Matrix>::solve] ([get_col_as_vector], [Matrix::new(.., ncols, nrows).t()]) *)
Theorem C01_matrix_solve_mat_layout :
  forall (T : Type) (O : Ops T)
         (lu : list T -> option (list T * list nat)) (lu_solve : list T -> list nat -> list T -> option (list T))
         (m s : matrix (T:=T)) (n k : nat) (l : list T) (piv : list nat),
    well_formed m = true -> nr m = n -> nc m = n ->
    well_formed s = true -> nr s = n -> nc s = k ->
    lu (dat m) = Some (l, piv) ->
    (forall j, j < k -> exists x, lu_solve l piv (colk (zero O) (dat s) n k j) = Some x /\ length x = n) ->
    exists r, msolve_mat O lu lu_solve m s = Some r /\ nr r = n /\ nc r = k /\ length (dat r) = n * k /\
              forall j, j < k -> lu_solve l piv (colk (zero O) (dat s) n k j) = Some (colk (zero O) (dat r) n k j).
Proof. exact @msolve_mat_layout. Qed.

(** routing, completely: predicate false => LU; predicate true and a factor => Cholesky; predicate true
    but a pivot not positive (after the D1 repair) => LU *)
Theorem C01_not_pd_goes_lu :
  forall (T : Type) (O : Ops T)
         (try_chol : list T -> option (option (list T))) (chol_solve : list T -> list T -> option (list T))
         (lu : list T -> option (list T * list nat)) (lu_solve : list T -> list nat -> list T -> option (list T))
         (a b : list T),
    is_positive_definite O a = Some false ->
    solve O try_chol chol_solve lu lu_solve a b =
    (let* _ := guard (length a =? length b * length b) in let* (m, piv) := lu a in lu_solve m piv b).
Proof. exact @not_pd_goes_lu. Qed.

Theorem C01_pd_chol_goes_chol :
  forall (T : Type) (O : Ops T)
         (try_chol : list T -> option (option (list T))) (chol_solve : list T -> list T -> option (list T))
         (lu : list T -> option (list T * list nat)) (lu_solve : list T -> list nat -> list T -> option (list T))
         (a b l : list T),
    is_positive_definite O a = Some true -> try_chol a = Some (Some l) ->
    solve O try_chol chol_solve lu lu_solve a b =
    (let* _ := guard (length a =? length b * length b) in chol_solve l b).
Proof. exact @pd_chol_goes_chol. Qed.

Theorem C01_indefinite_falls_back :
  forall (T : Type) (O : Ops T)
         (try_chol : list T -> option (option (list T))) (chol_solve : list T -> list T -> option (list T))
         (lu : list T -> option (list T * list nat)) (lu_solve : list T -> list nat -> list T -> option (list T))
         (a b : list T),
    is_positive_definite O a = Some true -> try_chol a = Some None ->
    solve O try_chol chol_solve lu lu_solve a b =
    (let* _ := guard (length a =? length b * length b) in let* (m, piv) := lu a in lu_solve m piv b).
Proof. exact @indefinite_falls_back. Qed.

(** rejection of mismatched sizes, entry point by entry point *)
Theorem C01_solve_rejects :
  forall (T : Type) (O : Ops T)
         (try_chol : list T -> option (option (list T))) (chol_solve : list T -> list T -> option (list T))
         (lu : list T -> option (list T * list nat)) (lu_solve : list T -> list nat -> list T -> option (list T))
         (a b : list T),
    length a <> length b * length b -> solve O try_chol chol_solve lu lu_solve a b = None.
Proof. exact @solve_rejects. Qed.

Theorem C01_solve_sys_rejects_nonsquare :
  forall (T : Type) (O : Ops T)
         (try_chol : list T -> option (option (list T))) (chol_solve : list T -> list T -> option (list T))
         (lu : list T -> option (list T * list nat)) (lu_solve : list T -> list nat -> list T -> option (list T))
         (a b : list T),
    is_square (length a) = None -> solve_sys O try_chol chol_solve lu lu_solve a b = None.
Proof. exact @solve_sys_rejects_nonsquare. Qed.

Theorem C01_solve_sys_rejects_rhs :
  forall (T : Type) (O : Ops T)
         (try_chol : list T -> option (option (list T))) (chol_solve : list T -> list T -> option (list T))
         (lu : list T -> option (list T * list nat)) (lu_solve : list T -> list nat -> list T -> option (list T))
         (a b : list T) (n : nat),
    is_square (length a) = Some n -> n = 0 \/ length b mod n <> 0 ->
    solve_sys O try_chol chol_solve lu lu_solve a b = None.
Proof. exact @solve_sys_rejects_rhs. Qed.

Theorem C01_invert_rejects_nonsquare :
  forall (T : Type) (O : Ops T)
         (try_chol : list T -> option (option (list T))) (chol_solve : list T -> list T -> option (list T))
         (lu : list T -> option (list T * list nat)) (lu_solve : list T -> list nat -> list T -> option (list T))
         (a : list T),
    is_square (length a) = None -> invert_matrix O try_chol chol_solve lu lu_solve a = None.
Proof. exact @invert_rejects_nonsquare. Qed.

Theorem C01_matrix_solve_vec_rejects :
  forall (T : Type)
         (lu : list T -> option (list T * list nat)) (lu_solve : list T -> list nat -> list T -> option (list T))
         (m : matrix (T:=T)) (b : list T),
    nr m <> nc m \/ nr m <> length b -> msolve_vec lu lu_solve m b = None.
Proof. exact @msolve_vec_rejects. Qed.

Theorem C01_matrix_solve_mat_rejects :
  forall (T : Type) (O : Ops T)
         (lu : list T -> option (list T * list nat)) (lu_solve : list T -> list nat -> list T -> option (list T))
         (m s : matrix (T:=T)),
    nr m <> nc m \/ nr m <> nr s -> msolve_mat O lu lu_solve m s = None.
Proof. exact @msolve_mat_rejects. Qed.

Theorem C01_matrix_inv_rejects :
  forall (T : Type) (O : Ops T)
         (lu : list T -> option (list T * list nat)) (lu_solve : list T -> list nat -> list T -> option (list T))
         (m : matrix (T:=T)),
    nr m <> nc m -> minv O lu lu_solve m = None.
Proof. exact @minv_rejects. Qed.

(** ** Every carrier: the fallible Cholesky sweep of the D1 repair *)

(** when the checked sweep (slice form [full = false], Matrix form [full = true]) returns a factor it is
    exactly the factor of the unchecked sweep ([chol_rows]), and every diagonal entry is the square root of a pivot that passed [d > 0] *)
Theorem C01_try_chol_rows_some :
  forall (T : Type) (O : Ops T) (full : bool) (A : list (list T)) (n : nat) (L : list (list T)),
    try_chol_rows O full A n = Some L ->
    L = chol_rows O full A n /\
    forall i, i < n -> exists d, ltb O (zero O) d = true /\ ent (zero O) L i i = sqrt O d.
Proof. exact @try_chol_rows_some. Qed.

(** [try_cholesky] panics exactly when the input is not square or not symmetric within the tolerance *)
Theorem C01_try_cholesky_shape :
  forall (T : Type) (O : Ops T) (a : list T),
    match is_square (length a) with
    | None => try_cholesky O a = None
    | Some n => if is_symmetric_rows O (unflatten a n n) n
                then exists r, try_cholesky O a = Some r
                else try_cholesky O a = None
    end.
Proof. exact @try_cholesky_shape. Qed.

(** the repaired [cholesky] returns a factor iff [try_cholesky] found one, and panics otherwise *)
Theorem C01_cholesky_checked_spec :
  forall (T : Type) (O : Ops T) (a l : list T),
    cholesky O a = Some l <-> try_cholesky O a = Some (Some l).
Proof. exact @cholesky_checked_spec. Qed.

Local Open Scope R_scope.

(** ** Exact arithmetic: the routing predicates *)
Theorem C01_pd_pred_far :
  forall (a : list R) (n i j : nat),
    (n * n)%nat = length a -> (i < n)%nat -> (j < n)%nat ->
    eps RO * Rmax (Rabs (getm a n i j)) (Rabs (getm a n j i)) < Rabs (getm a n i j - getm a n j i) ->
    is_positive_definite RO a = Some false.
Proof. exact pd_pred_far. Qed.

Theorem C01_pd_pred_nonpositive_diag :
  forall (a : list R) (n i : nat),
    (n * n)%nat = length a -> (i < n)%nat -> getm a n i i <= 0 -> is_positive_definite RO a = Some false.
Proof. exact pd_pred_nonpositive_diag. Qed.

Theorem C01_pd_pred_sym_posdiag :
  forall (a : list R) (n : nat),
    (n * n)%nat = length a -> symmetric a n -> (forall i, (i < n)%nat -> 0 < getm a n i i) ->
    is_positive_definite RO a = Some true.
Proof. exact pd_pred_sym_posdiag. Qed.

Theorem C01_pd_pred_true :
  forall (a : list R) (n : nat),
    (n * n)%nat = length a -> is_positive_definite RO a = Some true ->
    (forall i j, (i < n)%nat -> (j < n)%nat ->
       Rabs (getm a n i j - getm a n j i) <= eps RO * Rmax (Rabs (getm a n i j)) (Rabs (getm a n j i))) /\
    (forall i, (i < n)%nat -> 0 < getm a n i i).
Proof. exact pd_pred_true. Qed.

(** ** Exact arithmetic: the fallible Cholesky factor *)
Theorem C01_try_cholesky_reconstructs :
  forall (a l : list R) (n : nat),
    try_cholesky RO a = Some (Some l) -> (n * n)%nat = length a -> symmetric a n ->
    length l = (n * n)%nat /\ lower_triangular l n /\
    (forall i, (i < n)%nat -> 0 < getm l n i i) /\
    (forall i j, (i < n)%nat -> (j < n)%nat ->
       rsum (fun k => getm l n i k * getm l n j k) n = getm a n i j).
Proof. exact try_cholesky_reconstructs. Qed.

(** without any symmetry assumption L.L^T reproduces the LOWER triangle of A *)
Theorem C01_try_cholesky_reconstructs_lower :
  forall (a l : list R) (n : nat),
    try_cholesky RO a = Some (Some l) -> (n * n)%nat = length a ->
    length l = (n * n)%nat /\ lower_triangular l n /\
    (forall i, (i < n)%nat -> 0 < getm l n i i) /\
    (forall i j, (i < n)%nat -> (j <= i)%nat ->
       rsum (fun k => getm l n i k * getm l n j k) n = getm a n i j).
Proof. exact try_cholesky_reconstructs_lower. Qed.

(** [cholesky_solve] solves (L.L^T).x = b for a lower triangular L with positive diagonal *)
Theorem C01_cholesky_solve_correct :
  forall (a l b : list R) (n : nat),
    (0 < n)%nat -> length l = (n * n)%nat -> lower_triangular l n ->
    (forall i, (i < n)%nat -> 0 < getm l n i i) ->
    (forall i j, (i < n)%nat -> (j < n)%nat ->
       rsum (fun k => getm l n i k * getm l n j k) n = getm a n i j) ->
    length b = n ->
    exists x, cholesky_solve RO l b = Some x /\ solves a n x b.
Proof. exact cholesky_solve_correct. Qed.

(** ** Exact arithmetic: the two routes *)
Theorem C01_solve_lu_correct :
  forall (a b : list R) (n : nat),
    (n * n)%nat = length a -> length b = n ->
    (forall m piv, lu RO a = Some (m, piv) -> forall i, (i < n)%nat -> getm m n i i <> 0) ->
    exists x, solve_via_lu RO a b = Some x /\ solves a n x b.
Proof. exact solve_lu_correct. Qed.

Theorem C01_solve_chol_correct :
  forall (a b l : list R) (n : nat),
    (n * n)%nat = length a -> (0 < n)%nat -> length b = n -> symmetric a n ->
    try_cholesky RO a = Some (Some l) ->
    exists x, cholesky_solve RO l b = Some x /\ solves a n x b.
Proof. exact solve_chol_correct. Qed.

(** for a nonsingular matrix the computed LU factor has no zero pivot *)
Theorem C01_nonsingular_pivots_nonzero :
  forall (a : list R) (n : nat),
    (n * n)%nat = length a -> nonsingular a n ->
    forall m piv, lu RO a = Some (m, piv) -> forall i, (i < n)%nat -> getm m n i i <> 0.
Proof. exact nonsingular_pivots_nonzero. Qed.

Theorem C01_solution_unique :
  forall (a : list R) (n : nat) (x y b : list R),
    nonsingular a n -> solves a n x b -> solves a n y b -> x = y.
Proof. exact solution_unique. Qed.

(** both routes return THE solution of a nonsingular symmetric system *)
Theorem C01_routing_irrelevant :
  forall (a b : list R) (n : nat) (x : list R),
    (n * n)%nat = length a -> (0 < n)%nat -> length b = n -> symmetric a n -> nonsingular a n ->
    solve_via_chol RO a b = Some x -> solve_via_lu RO a b = Some x.
Proof. exact routing_irrelevant. Qed.

(** ** Exact arithmetic: every entry point, under the hypotheses the code actually needs
    (nonzero LU pivots; the Cholesky route only for exactly symmetric input) *)
Theorem C01_solve_correct :
  forall (a b : list R) (n : nat),
    (n * n)%nat = length a -> (0 < n)%nat -> length b = n ->
    (is_positive_definite RO a = Some true -> symmetric a n) ->
    (forall m piv, lu RO a = Some (m, piv) -> forall i, (i < n)%nat -> getm m n i i <> 0) ->
    exists x, slice_solve RO a b = Some x /\ solves a n x b.
Proof. exact solve_correct. Qed.

Theorem C01_solve_sys_correct :
  forall (a b : list R) (n k : nat),
    (n * n)%nat = length a -> (0 < n)%nat -> length b = (n * k)%nat ->
    (is_positive_definite RO a = Some true -> symmetric a n) ->
    (forall m piv, lu RO a = Some (m, piv) -> forall i, (i < n)%nat -> getm m n i i <> 0) ->
    exists X, slice_solve_sys RO a b = Some X /\ solves_sys a n k X b.
Proof. exact solve_sys_correct. Qed.

Theorem C01_invert_correct :
  forall (a : list R) (n : nat),
    (n * n)%nat = length a -> (0 < n)%nat ->
    (is_positive_definite RO a = Some true -> symmetric a n) ->
    (forall m piv, lu RO a = Some (m, piv) -> forall i, (i < n)%nat -> getm m n i i <> 0) ->
    exists X, slice_invert RO a = Some X /\ is_right_inverse a n X.
Proof. exact invert_correct. Qed.

(** ** The property's own formulation: A nonsingular.  [decisively_symmetric_or_not]: A is exactly
    symmetric, or asymmetric beyond the tolerance of [is_symmetric] in some entry (so the Cholesky route is
    never taken for an asymmetric matrix; the in-between case is C01_solve_backward). *)
Theorem C01_solve_nonsingular :
  forall (a b : list R) (n : nat),
    (n * n)%nat = length a -> (0 < n)%nat -> length b = n ->
    (symmetric a n \/
     exists i j, (i < n)%nat /\ (j < n)%nat /\
       eps RO * Rmax (Rabs (getm a n i j)) (Rabs (getm a n j i)) < Rabs (getm a n i j - getm a n j i)) ->
    nonsingular a n ->
    exists x, slice_solve RO a b = Some x /\ solves a n x b /\ forall y, solves a n y b -> y = x.
Proof. exact solve_nonsingular. Qed.

Theorem C01_solve_sys_nonsingular :
  forall (a b : list R) (n k : nat),
    (n * n)%nat = length a -> (0 < n)%nat -> length b = (n * k)%nat ->
    (symmetric a n \/
     exists i j, (i < n)%nat /\ (j < n)%nat /\
       eps RO * Rmax (Rabs (getm a n i j)) (Rabs (getm a n j i)) < Rabs (getm a n i j - getm a n j i)) ->
    nonsingular a n ->
    exists X, slice_solve_sys RO a b = Some X /\ solves_sys a n k X b.
Proof. exact solve_sys_nonsingular. Qed.

Theorem C01_invert_nonsingular :
  forall (a : list R) (n : nat),
    (n * n)%nat = length a -> (0 < n)%nat ->
    (symmetric a n \/
     exists i j, (i < n)%nat /\ (j < n)%nat /\
       eps RO * Rmax (Rabs (getm a n i j)) (Rabs (getm a n j i)) < Rabs (getm a n i j - getm a n j i)) ->
    nonsingular a n ->
    exists X, slice_invert RO a = Some X /\ is_right_inverse a n X.
Proof. exact invert_nonsingular. Qed.

Theorem C01_matrix_solve_vec_nonsingular :
  forall (m : matrix (T:=R)) (b : list R) (n : nat),
    well_formed m = true -> nr m = n -> nc m = n -> length b = n -> nonsingular (dat m) n ->
    exists x, mat_solve_vec RO m b = Some x /\ solves (dat m) n x b.
Proof. exact matrix_solve_vec_nonsingular. Qed.

Theorem C01_matrix_solve_mat_nonsingular :
  forall (m s : matrix (T:=R)) (n k : nat),
    well_formed m = true -> nr m = n -> nc m = n ->
    well_formed s = true -> nr s = n -> nc s = k -> nonsingular (dat m) n ->
    exists r, mat_solve_mat RO m s = Some r /\ nr r = n /\ nc r = k /\ solves_sys (dat m) n k (dat r) (dat s).
Proof. exact matrix_solve_mat_nonsingular. Qed.

Theorem C01_matrix_inv_nonsingular :
  forall (m : matrix (T:=R)) (n : nat),
    well_formed m = true -> nr m = n -> nc m = n -> nonsingular (dat m) n ->
    exists r, mat_inv RO m = Some r /\ nr r = n /\ nc r = n /\ is_right_inverse (dat m) n (dat r).
Proof. exact matrix_inv_nonsingular. Qed.

(** route independence across entry points: the routed slice solver and the always-LU [Matrix] solver
    return the same (the unique) solution *)
Theorem C01_solve_agrees_with_matrix_solve :
  forall (a b : list R) (n : nat) (m : matrix (T:=R)),
    (n * n)%nat = length a -> (0 < n)%nat -> length b = n ->
    (is_positive_definite RO a = Some true -> symmetric a n) -> nonsingular a n ->
    m = {| nr := n; nc := n; dat := a |} ->
    exists x, slice_solve RO a b = Some x /\ mat_solve_vec RO m b = Some x /\ solves a n x b.
Proof. exact solve_agrees_with_matrix_solve. Qed.

Theorem C01_solve_sys_agrees_with_matrix_solve :
  forall (a b : list R) (n k : nat),
    (n * n)%nat = length a -> (0 < n)%nat -> (0 < k)%nat -> length b = (n * k)%nat ->
    (is_positive_definite RO a = Some true -> symmetric a n) -> nonsingular a n ->
    exists X, slice_solve_sys RO a b = Some X /\
              mat_solve_mat RO {| nr := n; nc := n; dat := a |} {| nr := n; nc := k; dat := b |}
                = Some {| nr := n; nc := k; dat := X |} /\
              solves_sys a n k X b.
Proof. exact solve_sys_agrees_with_matrix_solve. Qed.

Theorem C01_invert_agrees_with_matrix_inv :
  forall (a : list R) (n : nat),
    (n * n)%nat = length a -> (0 < n)%nat ->
    (is_positive_definite RO a = Some true -> symmetric a n) -> nonsingular a n ->
    exists X, slice_invert RO a = Some X /\
              mat_inv RO {| nr := n; nc := n; dat := a |} = Some {| nr := n; nc := n; dat := X |} /\
              is_right_inverse a n X.
Proof. exact invert_agrees_with_matrix_inv. Qed.

(** the hypotheses are satisfiable: a symmetric positive definite and a non-symmetric instance *)
Theorem C01_example_spd_solved :
  exists x, slice_solve RO [2; 1; 1; 3] [1; 0] = Some x /\ solves [2; 1; 1; 3] 2 x [1; 0] /\
            forall y, solves [2; 1; 1; 3] 2 y [1; 0] -> y = x.
Proof. exact ex_spd_solved. Qed.

Theorem C01_example_general_inverted :
  exists X, slice_invert RO [1; 2; 3; 4] = Some X /\ is_right_inverse [1; 2; 3; 4] 2 X.
Proof. exact ex_gen_inverted. Qed.

(** ** No assumption on symmetry: for EVERY square matrix with nonzero LU pivots (in particular every
    nonsingular one) [solve] returns the exact solution of A'.x = b where A' = A, except when the Cholesky
    route is taken on a matrix that is symmetric only within the tolerance of [is_symmetric]; then A' is A
    mirrored from its lower triangle.  In every case |a'_ij - a_ij| <= eps.max(|a_ij|, |a_ji|). *)
Theorem C01_solve_backward :
  forall (a b : list R) (n : nat),
    (n * n)%nat = length a -> (0 < n)%nat -> length b = n ->
    (forall m piv, lu RO a = Some (m, piv) -> forall i, (i < n)%nat -> getm m n i i <> 0) ->
    exists x a', slice_solve RO a b = Some x /\ length a' = (n * n)%nat /\
      (forall i j, (i < n)%nat -> (j < n)%nat ->
         Rabs (getm a' n i j - getm a n i j) <= eps RO * Rmax (Rabs (getm a n i j)) (Rabs (getm a n j i))) /\
      solves a' n x b.
Proof. exact solve_backward. Qed.

Theorem C01_solve_sys_backward :
  forall (a b : list R) (n k : nat),
    (n * n)%nat = length a -> (0 < n)%nat -> length b = (n * k)%nat ->
    (forall m piv, lu RO a = Some (m, piv) -> forall i, (i < n)%nat -> getm m n i i <> 0) ->
    exists X a', slice_solve_sys RO a b = Some X /\
      (length a' = (n * n)%nat /\
       forall i j, (i < n)%nat -> (j < n)%nat ->
         Rabs (getm a' n i j - getm a n i j) <= eps RO * Rmax (Rabs (getm a n i j)) (Rabs (getm a n j i))) /\
      solves_sys a' n k X b.
Proof. exact solve_sys_backward. Qed.

Theorem C01_invert_backward :
  forall (a : list R) (n : nat),
    (n * n)%nat = length a -> (0 < n)%nat ->
    (forall m piv, lu RO a = Some (m, piv) -> forall i, (i < n)%nat -> getm m n i i <> 0) ->
    exists X a', slice_invert RO a = Some X /\
      (length a' = (n * n)%nat /\
       forall i j, (i < n)%nat -> (j < n)%nat ->
         Rabs (getm a' n i j - getm a n i j) <= eps RO * Rmax (Rabs (getm a n i j)) (Rabs (getm a n j i))) /\
      is_right_inverse a' n X.
Proof. exact invert_backward. Qed.

(** ** Which matrices fall back.  A Cholesky factor exists only for positive semidefinite matrices
    (x^T.A.x is a sum of squares), so EVERY symmetric matrix with a positive diagonal that is indefinite
    (x^T.A.x < 0 for some x) passes the routing predicate, is rejected by the fallible sweep and is
    solved by the LU route: the general form of the D1 repair *)
Theorem C01_try_cholesky_psd :
  forall (a l : list R) (n : nat),
    try_cholesky RO a = Some (Some l) -> (n * n)%nat = length a -> symmetric a n ->
    forall x, 0 <= rsum (fun i => rsum (fun j => nth i x 0 * getm a n i j * nth j x 0) n) n.
Proof. exact try_cholesky_psd. Qed.

Theorem C01_indefinite_solved_by_lu :
  forall (a b : list R) (n : nat),
    (n * n)%nat = length a -> length b = n -> symmetric a n ->
    (forall i, (i < n)%nat -> 0 < getm a n i i) ->
    (exists x, rsum (fun i => rsum (fun j => nth i x 0 * getm a n i j * nth j x 0) n) n < 0) ->
    is_positive_definite RO a = Some true /\ slice_solve RO a b = solve_via_lu RO a b.
Proof. exact indefinite_solved_by_lu. Qed.

(** ** Completeness of the Cholesky route.  For a symmetric positive definite matrix (x^T.A.x > 0 for every
    vector with a nonzero entry among the first n) every pivot of the sweep is positive, so [try_cholesky]
    returns a factor, [solve] takes the Cholesky route and returns the solution; hence the fallback of the
    D1 repair is taken ONLY for matrices that are not positive definite. *)
Theorem C01_spd_try_cholesky :
  forall (a : list R) (n : nat),
    (n * n)%nat = length a -> symmetric a n ->
    (forall x : nat -> R, (exists i, (i < n)%nat /\ x i <> 0) ->
       0 < rsum (fun p => rsum (fun q => x p * getm a n p q * x q) n) n) ->
    exists l, try_cholesky RO a = Some (Some l).
Proof. exact spd_try_cholesky. Qed.

Theorem C01_spd_takes_cholesky_route :
  forall (a b : list R) (n : nat),
    (n * n)%nat = length a -> (0 < n)%nat -> length b = n -> symmetric a n ->
    (forall x : nat -> R, (exists i, (i < n)%nat /\ x i <> 0) ->
       0 < rsum (fun p => rsum (fun q => x p * getm a n p q * x q) n) n) ->
    exists l x, is_positive_definite RO a = Some true /\ try_cholesky RO a = Some (Some l) /\
                slice_solve RO a b = cholesky_solve RO l b /\
                cholesky_solve RO l b = Some x /\ solves a n x b.
Proof. exact spd_takes_cholesky_route. Qed.

Theorem C01_fallback_only_if_not_pd :
  forall (a : list R) (n : nat),
    (n * n)%nat = length a -> symmetric a n -> try_cholesky RO a = Some None ->
    ~ (forall x : nat -> R, (exists i, (i < n)%nat /\ x i <> 0) ->
         0 < rsum (fun p => rsum (fun q => x p * getm a n p q * x q) n) n).
Proof. exact fallback_only_if_not_pd. Qed.

(** ** The witness of D1, [[1,2],[2,1]]: accepted by the routing predicate, rejected by the fallible
    Cholesky sweep, solved by the LU route (before the repair: NaN) *)
Theorem C01_d1_witness_routed_to_cholesky : is_positive_definite RO [1; 2; 2; 1] = Some true.
Proof. exact d1_witness_pd_pred. Qed.

Theorem C01_d1_witness_not_positive_definite : try_cholesky RO [1; 2; 2; 1] = Some None.
Proof. exact d1_witness_not_pd. Qed.

Theorem C01_d1_witness_solved :
  exists x, slice_solve RO [1; 2; 2; 1] [1; 0] = Some x /\ solve_via_lu RO [1; 2; 2; 1] [1; 0] = Some x /\
            solves [1; 2; 2; 1] 2 x [1; 0].
Proof. exact d1_witness_solved. Qed.

(** ** Tie A for the routing predicates (regenerated from /repo/src on every run by tools/tiea/linalg_loops.py): the
    predicates [is_symmetric] / [is_positive_definite] of utils.rs that decide between the Cholesky and the LU route are the
    models this property shares with C11.  [src_*] is the Rust function translated statement for statement (flat list,
    [rs_get], index arithmetic in [Z], early [return false] from the nested loops, a panic = [None]); [is_square_z] is the
    crate's [is_square] (an [f32] square root, outside the translated subset) as the models see it. *)
From Coq Require Import ZArith.
From Compute Require Import Base.RsExpr Base.RsExprMut Generated.linalg_loops Proofs.TieA_linalg_loops.
Local Close Scope R_scope.
Theorem C01_model_is_source_is_symmetric :
  forall (T : Type) (O : Ops T) (m : list T), src_is_symmetric O is_square_z m = is_symmetric O m.
Proof. exact @tiea_is_symmetric. Qed.
Theorem C01_model_is_source_is_positive_definite :
  forall (T : Type) (O : Ops T) (m : list T), src_is_positive_definite O is_square_z m = is_positive_definite O m.
Proof. exact @tiea_is_positive_definite. Qed.

(** ** Floating point (extension): the CHOLESKY BRANCH of [solve] end to end on binary64

    Composition of the two binary64 theorems of property C11: [C11_cholesky_backward_error_binary64]
    (A = L L^T + dA0, |dA0| <= gamma_(n+1) |L||L^T|) and [C11_cholesky_solve_backward_error_binary64]
    (T1 (T2 x) = b, |T1 - L| <= gamma_n |L|, |T2 - L^T| <= gamma_n |L^T|).  When the routing predicate accepts A and the
    fallible sweep returns a factor (the Cholesky branch of [solve]; [solve_sys] and [invert_matrix] run the same
    branch once per column: [C01_solve_sys_layout]), the COMPUTED solution x is the EXACT solution of
         (A + dA) x = b ,    |dA|_ij  <=  gamma' (|L| |L^T|)_ij ,    gamma' = (1 + 2^-53)^(3n+1) - 1 ,
    componentwise, with A' = A + dA = T1 T2 and [b] unperturbed  (gamma_(n+1) + (1 + gamma_n)^2 - 1 <= gamma_(3n+1)).
    Hypotheses: those of the two theorems (every entry of the computed L, of the intermediate y and of x finite: no
    overflow; no underflowing product or quotient, stated on the exact products / quotients of computed values, the
    numerators written out as subterms of the model; reducible to conditions on computed values by
    [C11_*_conditions_from_computed_values]).  The code reads the lower triangle of A only: the statement is about the
    mirrored lower triangle, and about A itself when its real values are exactly symmetric.  [y] is the computed
    intermediate vector, [lt] the transposed factor. *)
From Coq Require Import Floats.
From Compute Require Import Spec.Vops Proofs.C04ErrF Proofs.C11_FloatChol Proofs.C11_FloatCholEx Proofs.C01_FloatChol.
Local Open Scope R_scope.

(** the branch, on EVERY carrier (hence bit for bit on binary64) *)
Theorem C01_solve_cholesky_branch :
  forall (T : Type) (O : Ops T) (a b l x : list T),
    slice_solve O a b = Some x -> is_positive_definite O a = Some true -> try_cholesky O a = Some (Some l) ->
    length a = (length b * length b)%nat /\ cholesky O a = Some l /\ cholesky_solve O l b = Some x.
Proof. exact @solve_cholesky_branch. Qed.

Theorem C01_cholesky_branch_backward_error_binary64 :
  forall (tbl : libm_table) (a b l y lt x : list float) (n : nat),
    slice_solve (FO tbl) a b = Some x -> is_positive_definite (FO tbl) a = Some true ->
    try_cholesky (FO tbl) a = Some (Some l) -> length b = n ->
    forward_substitution (FO tbl) l b = Some y -> transpose (FO tbl) l n = Some lt ->
    Forall finite l -> Forall finite y -> Forall finite x ->
    (* the factorisation *)
    (forall i j k, (i < n)%nat -> (j <= i)%nat -> (k < j)%nat ->
       B2Rf (nth (j * n + k) l 0%float) * B2Rf (nth (i * n + k) l 0%float) = 0 \/
       / 2 ^ 1022 <= Rabs (B2Rf (nth (j * n + k) l 0%float) * B2Rf (nth (i * n + k) l 0%float))) ->
    (forall i j, (i < n)%nat -> (j < i)%nat ->
       let s := (nth (i * n + j) a 0 - dot_raw (FO tbl) (firstn j (skipn (j * n) l)) (firstn j (skipn (i * n) l)))%float in
       B2Rf s / B2Rf (nth (j * n + j) l 0%float) = 0 \/ / 2 ^ 1022 <= Rabs (B2Rf s / B2Rf (nth (j * n + j) l 0%float))) ->
    (* forward solve L y = b *)
    (forall i j, (i < n)%nat -> (j < i)%nat ->
       B2Rf (nth (i * n + j) l 0%float) * B2Rf (nth j y 0%float) = 0 \/
       / 2 ^ 1022 <= Rabs (B2Rf (nth (i * n + j) l 0%float) * B2Rf (nth j y 0%float))) ->
    (forall i, (i < n)%nat ->
       let s := (nth i b 0 - dot_raw (FO tbl) (firstn i (skipn (i * n) l)) (firstn i y))%float in
       B2Rf s / B2Rf (nth (i * n + i) l 0%float) = 0 \/ / 2 ^ 1022 <= Rabs (B2Rf s / B2Rf (nth (i * n + i) l 0%float))) ->
    (* backward solve L^T x = y (entry (i,j) of L^T is l[j*n+i]) *)
    (forall i j, (i < j)%nat -> (j < n)%nat ->
       B2Rf (nth (j * n + i) l 0%float) * B2Rf (nth j x 0%float) = 0 \/
       / 2 ^ 1022 <= Rabs (B2Rf (nth (j * n + i) l 0%float) * B2Rf (nth j x 0%float))) ->
    (forall i, (i < n)%nat ->
       let s := (nth i y 0 - dot_raw (FO tbl) (firstn (n - S i) (skipn (i * n + S i) lt)) (skipn (S i) x))%float in
       B2Rf s / B2Rf (nth (i * n + i) l 0%float) = 0 \/ / 2 ^ 1022 <= Rabs (B2Rf s / B2Rf (nth (i * n + i) l 0%float))) ->
    let A := map B2Rf a in let L := map B2Rf l in let B := map B2Rf b in let X := map B2Rf x in
    let gamma' := (1 + / 2 ^ 53) ^ (3 * n + 1) - 1 in
    cholesky_solve (FO tbl) l b = Some x /\
    exists A' : list R,
      length A' = (n * n)%nat /\
      (forall i, (i < n)%nat -> mvec A' n X i = nth i B 0) /\
      (forall i j, (i < n)%nat -> (j < n)%nat ->
         Rabs (getm A' n i j - getm A n (Nat.max i j) (Nat.min i j))
         <= gamma' * rsum (fun k => Rabs (getm L n i k) * Rabs (getm L n j k)) n) /\
      (symmetric A n ->
       forall i j, (i < n)%nat -> (j < n)%nat ->
         Rabs (getm A' n i j - getm A n i j) <= gamma' * rsum (fun k => Rabs (getm L n i k) * Rabs (getm L n j k)) n).
Proof. exact solve_cholesky_branch_backward_error. Qed.

(** the same for [cholesky] followed by [cholesky_solve] called directly *)
Theorem C01_cholesky_then_solve_backward_error_binary64 :
  forall (tbl : libm_table) (a b l y lt x : list float) (n : nat),
    cholesky (FO tbl) a = Some l -> (n * n)%nat = length a ->
    cholesky_solve (FO tbl) l b = Some x ->
    forward_substitution (FO tbl) l b = Some y -> transpose (FO tbl) l n = Some lt ->
    Forall finite l -> Forall finite y -> Forall finite x ->
    (forall i j k, (i < n)%nat -> (j <= i)%nat -> (k < j)%nat ->
       B2Rf (nth (j * n + k) l 0%float) * B2Rf (nth (i * n + k) l 0%float) = 0 \/
       / 2 ^ 1022 <= Rabs (B2Rf (nth (j * n + k) l 0%float) * B2Rf (nth (i * n + k) l 0%float))) ->
    (forall i j, (i < n)%nat -> (j < i)%nat ->
       let s := (nth (i * n + j) a 0 - dot_raw (FO tbl) (firstn j (skipn (j * n) l)) (firstn j (skipn (i * n) l)))%float in
       B2Rf s / B2Rf (nth (j * n + j) l 0%float) = 0 \/ / 2 ^ 1022 <= Rabs (B2Rf s / B2Rf (nth (j * n + j) l 0%float))) ->
    (forall i j, (i < n)%nat -> (j < i)%nat ->
       B2Rf (nth (i * n + j) l 0%float) * B2Rf (nth j y 0%float) = 0 \/
       / 2 ^ 1022 <= Rabs (B2Rf (nth (i * n + j) l 0%float) * B2Rf (nth j y 0%float))) ->
    (forall i, (i < n)%nat ->
       let s := (nth i b 0 - dot_raw (FO tbl) (firstn i (skipn (i * n) l)) (firstn i y))%float in
       B2Rf s / B2Rf (nth (i * n + i) l 0%float) = 0 \/ / 2 ^ 1022 <= Rabs (B2Rf s / B2Rf (nth (i * n + i) l 0%float))) ->
    (forall i j, (i < j)%nat -> (j < n)%nat ->
       B2Rf (nth (j * n + i) l 0%float) * B2Rf (nth j x 0%float) = 0 \/
       / 2 ^ 1022 <= Rabs (B2Rf (nth (j * n + i) l 0%float) * B2Rf (nth j x 0%float))) ->
    (forall i, (i < n)%nat ->
       let s := (nth i y 0 - dot_raw (FO tbl) (firstn (n - S i) (skipn (i * n + S i) lt)) (skipn (S i) x))%float in
       B2Rf s / B2Rf (nth (i * n + i) l 0%float) = 0 \/ / 2 ^ 1022 <= Rabs (B2Rf s / B2Rf (nth (i * n + i) l 0%float))) ->
    let A := map B2Rf a in let L := map B2Rf l in let B := map B2Rf b in let X := map B2Rf x in
    let gamma' := (1 + / 2 ^ 53) ^ (3 * n + 1) - 1 in
    exists A' : list R,
      length A' = (n * n)%nat /\
      (forall i, (i < n)%nat -> mvec A' n X i = nth i B 0) /\
      (forall i j, (i < n)%nat -> (j < n)%nat ->
         Rabs (getm A' n i j - getm A n (Nat.max i j) (Nat.min i j))
         <= gamma' * rsum (fun k => Rabs (getm L n i k) * Rabs (getm L n j k)) n) /\
      (symmetric A n ->
       forall i j, (i < n)%nat -> (j < n)%nat ->
         Rabs (getm A' n i j - getm A n i j) <= gamma' * rsum (fun k => Rabs (getm L n i k) * Rabs (getm L n j k)) n).
Proof. exact cholesky_then_solve_backward_error. Qed.

(** the hypotheses are satisfiable: A = [[3,1,1],[1,3,1],[1,1,3]] (SPD, no entry of its factor representable),
    b = (1,1,1), solved through [solve] inside Coq on binary64: the Cholesky branch is taken *)
Example C01_example_cholesky_branch_backward_error :
  let a := [3; 1; 1;  1; 3; 1;  1; 1; 3]%float in let b := [1; 1; 1]%float in
  exists l y lt x,
    slice_solve FO0 a b = Some x /\ is_positive_definite FO0 a = Some true /\
    try_cholesky FO0 a = Some (Some l) /\ length b = 3%nat /\
    forward_substitution FO0 l b = Some y /\ transpose FO0 l 3 = Some lt /\
    Forall finite l /\ Forall finite y /\ Forall finite x /\
    (forall i j k, (i < 3)%nat -> (j <= i)%nat -> (k < j)%nat ->
       B2Rf (nth (j * 3 + k) l 0%float) * B2Rf (nth (i * 3 + k) l 0%float) = 0 \/
       / 2 ^ 1022 <= Rabs (B2Rf (nth (j * 3 + k) l 0%float) * B2Rf (nth (i * 3 + k) l 0%float))) /\
    (forall i j, (i < 3)%nat -> (j < i)%nat ->
       let s := (nth (i * 3 + j) a 0 - dot_raw FO0 (firstn j (skipn (j * 3) l)) (firstn j (skipn (i * 3) l)))%float in
       B2Rf s / B2Rf (nth (j * 3 + j) l 0%float) = 0 \/ / 2 ^ 1022 <= Rabs (B2Rf s / B2Rf (nth (j * 3 + j) l 0%float))) /\
    (forall i j, (i < 3)%nat -> (j < i)%nat ->
       B2Rf (nth (i * 3 + j) l 0%float) * B2Rf (nth j y 0%float) = 0 \/
       / 2 ^ 1022 <= Rabs (B2Rf (nth (i * 3 + j) l 0%float) * B2Rf (nth j y 0%float))) /\
    (forall i, (i < 3)%nat ->
       let s := (nth i b 0 - dot_raw FO0 (firstn i (skipn (i * 3) l)) (firstn i y))%float in
       B2Rf s / B2Rf (nth (i * 3 + i) l 0%float) = 0 \/ / 2 ^ 1022 <= Rabs (B2Rf s / B2Rf (nth (i * 3 + i) l 0%float))) /\
    (forall i j, (i < j)%nat -> (j < 3)%nat ->
       B2Rf (nth (j * 3 + i) l 0%float) * B2Rf (nth j x 0%float) = 0 \/
       / 2 ^ 1022 <= Rabs (B2Rf (nth (j * 3 + i) l 0%float) * B2Rf (nth j x 0%float))) /\
    (forall i, (i < 3)%nat ->
       let s := (nth i y 0 - dot_raw FO0 (firstn (3 - S i) (skipn (i * 3 + S i) lt)) (skipn (S i) x))%float in
       B2Rf s / B2Rf (nth (i * 3 + i) l 0%float) = 0 \/ / 2 ^ 1022 <= Rabs (B2Rf s / B2Rf (nth (i * 3 + i) l 0%float))) /\
    symmetric (map B2Rf a) 3.
Proof. exact solve_cholesky_branch_example. Qed.

(** ** Floating point (extension): the LU BRANCH of [solve], and [Matrix::solve] (always LU), end to end on binary64

    Composition of [C11_lu_backward_error_binary64] (P A = L U + dA0, |dA0| <= gamma_n |L||U|, every run of the pivoted
    factorisation) with [C11_lu_solve_backward_error_binary64] (L' (U' x) = P b, |L' - L| <= gamma_n |L|,
    |U' - U| <= gamma_n |U|): whenever [solve] takes the LU branch — the routing predicate rejects A, or accepts it
    and the fallible Cholesky sweep meets a non-positive pivot (the D1 repair) — the COMPUTED x is the EXACT solution of
         (P A + dA) x = P b ,     |dA|_ij  <=  gamma' (|L| |U|)_ij ,     gamma' = (1 + 2^-53)^(3n) - 1
    (Higham, Thm 9.4), componentwise, [b] unperturbed, A' = P A + dA = L' U'; row i of P A / P b is row [nth i piv 0]
    of A / b, [piv] the pivot vector returned by [lu] (a permutation).  Together with
    [C01_cholesky_branch_backward_error_binary64] every branch of [solve] has its binary64 backward-error theorem.
    Hypotheses: every entry of the computed factors, of the intermediate y and of x finite; nonzero pivots; no
    underflowing product or quotient (numerators written out as subterms of the model).  [y] is the vector after the
    forward sweep. *)
From Coq Require Import Permutation.
From Compute Require Import Proofs.C11_FloatLU Proofs.C11_FloatLUSolve Proofs.C01_FloatLU.

Theorem C01_solve_lu_branch :
  forall (T : Type) (O : Ops T) (a b x : list T),
    slice_solve O a b = Some x ->
    (is_positive_definite O a = Some false \/ (is_positive_definite O a = Some true /\ try_cholesky O a = Some None)) ->
    length a = (length b * length b)%nat /\
    exists m piv, lu O a = Some (m, piv) /\ lu_solve O m piv b = Some x.
Proof. exact @solve_lu_branch. Qed.

Theorem C01_lu_branch_backward_error_binary64 :
  forall (tbl : libm_table) (a b m y x : list float) (piv : list nat) (n : nat),
    slice_solve (FO tbl) a b = Some x ->
    (is_positive_definite (FO tbl) a = Some false \/
     (is_positive_definite (FO tbl) a = Some true /\ try_cholesky (FO tbl) a = Some None)) ->
    lu (FO tbl) a = Some (m, piv) -> length b = n ->
    y = fwd_elim (FO tbl) (unflatten m n n) n (map (fun p => nth p b 0%float) piv) ->
    Forall finite m -> Forall finite y -> Forall finite x ->
    (forall j, (j < n)%nat -> B2Rf (nth (j * n + j) m 0%float) <> 0) ->
    (* the factorisation *)
    (forall i j k, (i < n)%nat -> (j < n)%nat -> (k < Nat.min i j)%nat ->
       B2Rf (nth (i * n + k) m 0%float) * B2Rf (nth (k * n + j) m 0%float) = 0 \/
       / 2 ^ 1022 <= Rabs (B2Rf (nth (i * n + k) m 0%float) * B2Rf (nth (k * n + j) m 0%float))) ->
    (forall i j, (i < n)%nat -> (j < i)%nat ->
       let s := (nth (nth i piv 0%nat * n + j) a 0
                 - fold_left (fun acc k => acc + nth (i * n + k) m 0 * nth (k * n + j) m 0) (seq 0 j) 0)%float in
       B2Rf s / B2Rf (nth (j * n + j) m 0%float) = 0 \/ / 2 ^ 1022 <= Rabs (B2Rf s / B2Rf (nth (j * n + j) m 0%float))) ->
    (* forward sweep L y = P b *)
    (forall i k, (i < n)%nat -> (k < i)%nat ->
       B2Rf (nth k y 0%float) * B2Rf (nth (i * n + k) m 0%float) = 0 \/
       / 2 ^ 1022 <= Rabs (B2Rf (nth k y 0%float) * B2Rf (nth (i * n + k) m 0%float))) ->
    (* backward sweep U x = y *)
    (forall i k, (i < k)%nat -> (k < n)%nat ->
       B2Rf (nth k x 0%float) * B2Rf (nth (i * n + k) m 0%float) = 0 \/
       / 2 ^ 1022 <= Rabs (B2Rf (nth k x 0%float) * B2Rf (nth (i * n + k) m 0%float))) ->
    (forall i, (i < n)%nat ->
       let s := fold_left (fun s k => (s - nth k x 0 * nth (i * n + k) m 0)%float) (rev (seq (S i) (n - S i))) (nth i y 0%float) in
       B2Rf s / B2Rf (nth (i * n + i) m 0%float) = 0 \/ / 2 ^ 1022 <= Rabs (B2Rf s / B2Rf (nth (i * n + i) m 0%float))) ->
    let A := map B2Rf a in let M := map B2Rf m in let B := map B2Rf b in let X := map B2Rf x in
    let gamma' := (1 + / 2 ^ 53) ^ (3 * n) - 1 in
    lu_solve (FO tbl) m piv b = Some x /\ is_perm piv n /\
    exists A' : list R,
      length A' = (n * n)%nat /\
      (forall i, (i < n)%nat -> mvec A' n X i = nth (nth i piv 0%nat) B 0) /\
      (forall i j, (i < n)%nat -> (j < n)%nat ->
         Rabs (getm A' n i j - getm A n (nth i piv 0%nat) j)
         <= gamma' * rsum (fun k => Rabs (Lof M n i k) * Rabs (Uof M n k j)) n).
Proof. exact solve_lu_branch_backward_error. Qed.

(** [Matrix::solve] for a vector right-hand side (always LU) *)
Theorem C01_matrix_solve_backward_error_binary64 :
  forall (tbl : libm_table) (mm : matrix (T:=float)) (b m y x : list float) (piv : list nat),
    mat_solve_vec (FO tbl) mm b = Some x -> lu (FO tbl) (dat mm) = Some (m, piv) ->
    let n := nr mm in let a := dat mm in
    y = fwd_elim (FO tbl) (unflatten m n n) n (map (fun p => nth p b 0%float) piv) ->
    Forall finite m -> Forall finite y -> Forall finite x ->
    (forall j, (j < n)%nat -> B2Rf (nth (j * n + j) m 0%float) <> 0) ->
    (forall i j k, (i < n)%nat -> (j < n)%nat -> (k < Nat.min i j)%nat ->
       B2Rf (nth (i * n + k) m 0%float) * B2Rf (nth (k * n + j) m 0%float) = 0 \/
       / 2 ^ 1022 <= Rabs (B2Rf (nth (i * n + k) m 0%float) * B2Rf (nth (k * n + j) m 0%float))) ->
    (forall i j, (i < n)%nat -> (j < i)%nat ->
       let s := (nth (nth i piv 0%nat * n + j) a 0
                 - fold_left (fun acc k => acc + nth (i * n + k) m 0 * nth (k * n + j) m 0) (seq 0 j) 0)%float in
       B2Rf s / B2Rf (nth (j * n + j) m 0%float) = 0 \/ / 2 ^ 1022 <= Rabs (B2Rf s / B2Rf (nth (j * n + j) m 0%float))) ->
    (forall i k, (i < n)%nat -> (k < i)%nat ->
       B2Rf (nth k y 0%float) * B2Rf (nth (i * n + k) m 0%float) = 0 \/
       / 2 ^ 1022 <= Rabs (B2Rf (nth k y 0%float) * B2Rf (nth (i * n + k) m 0%float))) ->
    (forall i k, (i < k)%nat -> (k < n)%nat ->
       B2Rf (nth k x 0%float) * B2Rf (nth (i * n + k) m 0%float) = 0 \/
       / 2 ^ 1022 <= Rabs (B2Rf (nth k x 0%float) * B2Rf (nth (i * n + k) m 0%float))) ->
    (forall i, (i < n)%nat ->
       let s := fold_left (fun s k => (s - nth k x 0 * nth (i * n + k) m 0)%float) (rev (seq (S i) (n - S i))) (nth i y 0%float) in
       B2Rf s / B2Rf (nth (i * n + i) m 0%float) = 0 \/ / 2 ^ 1022 <= Rabs (B2Rf s / B2Rf (nth (i * n + i) m 0%float))) ->
    let A := map B2Rf a in let M := map B2Rf m in let B := map B2Rf b in let X := map B2Rf x in
    let gamma' := (1 + / 2 ^ 53) ^ (3 * n) - 1 in
    lu_solve (FO tbl) m piv b = Some x /\ is_perm piv n /\
    exists A' : list R,
      length A' = (n * n)%nat /\
      (forall i, (i < n)%nat -> mvec A' n X i = nth (nth i piv 0%nat) B 0) /\
      (forall i j, (i < n)%nat -> (j < n)%nat ->
         Rabs (getm A' n i j - getm A n (nth i piv 0%nat) j)
         <= gamma' * rsum (fun k => Rabs (Lof M n i k) * Rabs (Uof M n k j)) n).
Proof. exact matrix_solve_backward_error. Qed.

(** satisfiable: [[1,3,1],[3,1,1],[1,1,3]] is symmetric with a positive diagonal (the routing predicate accepts it) but
    indefinite: the fallible Cholesky sweep meets the pivot 1 - 9 < 0, [solve] falls back to LU, rows 0 and 1 are exchanged *)
Example C01_example_lu_branch_backward_error :
  let a := [1; 3; 1;  3; 1; 1;  1; 1; 3]%float in let b := [1; 1; 1]%float in
  exists m piv y x,
    slice_solve FO0 a b = Some x /\
    (is_positive_definite FO0 a = Some true /\ try_cholesky FO0 a = Some None) /\
    lu FO0 a = Some (m, piv) /\ length b = 3%nat /\
    y = fwd_elim FO0 (unflatten m 3 3) 3 (map (fun p => nth p b 0%float) piv) /\
    Forall finite m /\ Forall finite y /\ Forall finite x /\
    (forall j, (j < 3)%nat -> B2Rf (nth (j * 3 + j) m 0%float) <> 0) /\
    (forall i j k, (i < 3)%nat -> (j < 3)%nat -> (k < Nat.min i j)%nat ->
       B2Rf (nth (i * 3 + k) m 0%float) * B2Rf (nth (k * 3 + j) m 0%float) = 0 \/
       / 2 ^ 1022 <= Rabs (B2Rf (nth (i * 3 + k) m 0%float) * B2Rf (nth (k * 3 + j) m 0%float))) /\
    (forall i j, (i < 3)%nat -> (j < i)%nat ->
       let s := (nth (nth i piv 0%nat * 3 + j) a 0
                 - fold_left (fun acc k => acc + nth (i * 3 + k) m 0 * nth (k * 3 + j) m 0) (seq 0 j) 0)%float in
       B2Rf s / B2Rf (nth (j * 3 + j) m 0%float) = 0 \/ / 2 ^ 1022 <= Rabs (B2Rf s / B2Rf (nth (j * 3 + j) m 0%float))) /\
    (forall i k, (i < 3)%nat -> (k < i)%nat ->
       B2Rf (nth k y 0%float) * B2Rf (nth (i * 3 + k) m 0%float) = 0 \/
       / 2 ^ 1022 <= Rabs (B2Rf (nth k y 0%float) * B2Rf (nth (i * 3 + k) m 0%float))) /\
    (forall i k, (i < k)%nat -> (k < 3)%nat ->
       B2Rf (nth k x 0%float) * B2Rf (nth (i * 3 + k) m 0%float) = 0 \/
       / 2 ^ 1022 <= Rabs (B2Rf (nth k x 0%float) * B2Rf (nth (i * 3 + k) m 0%float))) /\
    (forall i, (i < 3)%nat ->
       let s := fold_left (fun s k => (s - nth k x 0 * nth (i * 3 + k) m 0)%float) (rev (seq (S i) (3 - S i))) (nth i y 0%float) in
       B2Rf s / B2Rf (nth (i * 3 + i) m 0%float) = 0 \/ / 2 ^ 1022 <= Rabs (B2Rf s / B2Rf (nth (i * 3 + i) m 0%float))).
Proof. exact solve_lu_branch_example. Qed.

(** ** Tie A, fourth round: the linear-system entry points of src/linalg/utils.rs are the source (regenerated on every run by
    tools/tiea/solve_loops.py).  Like Model/Solve.v, the generated text is parametric in the factorisation routines it calls;
    the equalities hold for EVERY routines [try_chol], [chol_solve], [lu], [lu_solve] (the pivot vector [Vec<i32>] of the source
    is converted at the boundary: [lu_zs], [lu_solve_zs]), hence for the models of C11 that Model/SolveInst.v plugs in
    ([slice_solve], [slice_solve_sys], [slice_invert]: the terms C01's theorems and the correspondence are about).  The layout
    conversions write a copy of their argument in place: they are the transposes the model writes, for every input. *)
From Compute Require Import Model.Solve Model.SolveInst Generated.solve_loops Proofs.TieA_solve_loops.
Local Close Scope R_scope.
Theorem C01_model_is_source_row_to_col_major :
  forall (T : Type) (O : Ops T) (a : list T) (nr : nat),
    src_row_to_col_major O (is_matrix_zs (T := T)) a (Z.of_nat nr) = row_to_col_major O a nr.
Proof. exact @tiea_row_to_col_major. Qed.
Theorem C01_model_is_source_col_to_row_major :
  forall (T : Type) (O : Ops T) (a : list T) (nr : nat),
    src_col_to_row_major O (is_matrix_zs (T := T)) a (Z.of_nat nr) = col_to_row_major O a nr.
Proof. exact @tiea_col_to_row_major. Qed.
Theorem C01_model_is_source_solve :
  forall (T : Type) (O : Ops T) (try_chol : list T -> option (option (list T))) (chol_solve : list T -> list T -> option (list T))
         (lu : list T -> option (list T * list nat)) (lu_solve : list T -> list nat -> list T -> option (list T)) (a b : list T),
    src_solve O (is_positive_definite O) try_chol chol_solve (lu_zs lu) (lu_solve_zs lu_solve) a b
    = solve O try_chol chol_solve lu lu_solve a b.
Proof. exact @tiea_solve. Qed.
Theorem C01_model_is_source_solve_sys :
  forall (T : Type) (O : Ops T) (try_chol : list T -> option (option (list T))) (chol_solve : list T -> list T -> option (list T))
         (lu : list T -> option (list T * list nat)) (lu_solve : list T -> list nat -> list T -> option (list T)) (a b : list T),
    src_solve_sys O (is_square_z (A := T)) (is_matrix_zs (T := T)) (is_positive_definite O) try_chol chol_solve (lu_zs lu) (lu_solve_zs lu_solve) a b
    = solve_sys O try_chol chol_solve lu lu_solve a b.
Proof. exact @tiea_solve_sys. Qed.
(** [vec![1.; n]] passes the allocation's capacity check: [n * n = len(matrix)] *)
Theorem C01_model_is_source_invert_matrix :
  forall (T : Type) (O : Ops T) (try_chol : list T -> option (option (list T))) (chol_solve : list T -> list T -> option (list T))
         (lu : list T -> option (list T * list nat)) (lu_solve : list T -> list nat -> list T -> option (list T)) (m : list T),
    (Z.of_nat (length m) <= 1152921504606846975)%Z ->
    src_invert_matrix O (is_square_z (A := T)) (is_matrix_zs (T := T)) (is_positive_definite O) try_chol chol_solve (lu_zs lu) (lu_solve_zs lu_solve)
                      (fun dg => Some (diag_matrix O dg)) m
    = invert_matrix O try_chol chol_solve lu lu_solve m.
Proof. exact @tiea_invert_matrix. Qed.
(** at the routines of C11 (Model/SolveInst.v): the terms the theorems above and the correspondence are about *)
Theorem C01_model_is_source_slice_solve_sys :
  forall (T : Type) (O : Ops T) (a b : list T),
    src_solve_sys O (is_square_z (A := T)) (is_matrix_zs (T := T)) (is_positive_definite O) (try_cholesky O) (cholesky_solve O)
                  (lu_zs (Model.LU.lu O)) (lu_solve_zs (Model.LU.lu_solve O)) a b
    = slice_solve_sys O a b.
Proof. intros. apply tiea_solve_sys. Qed.
Theorem C01_model_is_source_slice_solve :
  forall (T : Type) (O : Ops T) (a b : list T),
    src_solve O (is_positive_definite O) (try_cholesky O) (cholesky_solve O) (lu_zs (Model.LU.lu O)) (lu_solve_zs (Model.LU.lu_solve O)) a b
    = slice_solve O a b.
Proof. intros. apply tiea_solve. Qed.
(** [Matrix::inv]: [assert!(self.is_square()); self.solve(&Matrix::eye(self.nrows))] (regenerated from src/linalg/array/matrix.rs
    by tools/tiea/det_loops.py), for every well-formed receiver and EVERY factorisation routines behind [Solve<Matrix>::solve] *)
From Compute Require Import Generated.det_loops Proofs.TieA_det_loops.
Theorem C01_model_is_source_matrix_inv :
  forall (T : Type) (O : Ops T) (lu : list T -> option (list T * list nat)) (lu_solve : list T -> list nat -> list T -> option (list T))
         (m : @matrix T), well_formed m = true ->
    src_matrix_inv O (matrix_eye_z O) (msolve_mat_z O lu lu_solve) (dat m) (Z.of_nat (nr m)) (Z.of_nat (nc m))
    = option_map (zmx (T := T)) (minv O lu lu_solve m).
Proof. exact @tiea_matrix_inv. Qed.
