(** Proofs for C07, part 2: a homomorphism of operation records, and [Q2R : QO -> RO].
    It transports a computation done on rationals ([vm_compute] on [QO]) to the same model term on reals. *)
From Coq Require Import Reals List ZArith QArith Qreals Qreduction Lra Lia.
From Compute Require Import Base.Ops Base.ListMat Model.Quad Proofs.C07_base.
Import ListNotations.

Record hom {A B : Type} (OA : Ops A) (OB : Ops B) (h : A -> B) : Prop := {
  h_zero : h (zero OA) = zero OB;
  h_one : h (one OA) = one OB;
  h_add : forall x y, h (add OA x y) = add OB (h x) (h y);
  h_sub : forall x y, h (sub OA x y) = sub OB (h x) (h y);
  h_mul : forall x y, h (mul OA x y) = mul OB (h x) (h y);
  h_div : forall x y, h (div OA x y) = div OB (h x) (h y);
  h_neg : forall x, h (neg OA x) = neg OB (h x);
  h_ofZ : forall z, h (ofZ OA z) = ofZ OB z;
  h_ofQ : forall q, h (ofQ OA q) = ofQ OB q;
  h_ofLit : forall l, h (ofLit OA l) = ofLit OB l
}.

Lemma Q2R_red q : Q2R (Qred q) = Q2R q.
Proof. apply Qeq_eqR, Qred_correct. Qed.

Lemma Q2R_div_total x y : Q2R (x / y) = (Q2R x / Q2R y)%R.
Proof.
  destruct (Qeq_dec y 0) as [E|E].
  - assert (Hy : Q2R y = 0%R) by (rewrite (Qeq_eqR _ _ E); apply RMicromega.Q2R_0).
    rewrite Hy. unfold Rdiv. rewrite Rinv_0, Rmult_0_r.
    assert (Hq : x / y == 0) by (rewrite E; unfold Qdiv, Qinv; cbn; ring).
    rewrite (Qeq_eqR _ _ Hq). apply RMicromega.Q2R_0.
  - apply Q2R_div. exact E.
Qed.

Lemma hom_Q2R : hom QO RO Q2R.
Proof.
  constructor; cbn [zero one add sub mul div neg ofZ ofQ ofLit QO RO fst]; intros.
  - apply RMicromega.Q2R_0.
  - apply RMicromega.Q2R_1.
  - rewrite Q2R_red. apply Q2R_plus.
  - rewrite Q2R_red. apply Q2R_minus.
  - rewrite Q2R_red. apply Q2R_mult.
  - rewrite Q2R_red. apply Q2R_div_total.
  - apply Q2R_opp.
  - unfold Q2R, inject_Z. cbn. lra.
  - apply Q2R_red.
  - apply Q2R_red.
Qed.

Section Hom.
  Context {A B : Type} (OA : Ops A) (OB : Ops B) (h : A -> B) (H : hom OA OB h).

  Lemma h_two : h (two OA) = two OB.
  Proof. unfold two. rewrite (h_add _ _ _ H), (h_one _ _ _ H). reflexivity. Qed.
  Lemma h_negzero : h (negzero OA) = negzero OB.
  Proof. unfold negzero. rewrite (h_neg _ _ _ H), (h_zero _ _ _ H). reflexivity. Qed.

  Lemma h_powi_pos fuel : forall a r p,
    h (powi_pos OA fuel a r p) = powi_pos OB fuel (h a) (h r) p.
  Proof.
    induction fuel as [|fuel IH]; intros a r p; cbn [powi_pos]; [reflexivity|].
    destruct p; rewrite ?IH, ?(h_mul _ _ _ H); reflexivity.
  Qed.
  Lemma h_powi x n : h (powi OA x n) = powi OB (h x) n.
  Proof.
    destruct n; cbn [powi].
    - apply (h_one _ _ _ H).
    - rewrite h_powi_pos, (h_one _ _ _ H). reflexivity.
    - rewrite (h_div _ _ _ H), h_powi_pos, (h_one _ _ _ H). reflexivity.
  Qed.

  (** integrands that correspond under [h] *)
  Definition frel (fa : A -> A) (fb : B -> B) : Prop := forall x, h (fa x) = fb (h x).

  Lemma h_oddsum fa fb a hn cnt : frel fa fb -> forall k s,
    h (oddsum OA fa a hn cnt k s) = oddsum OB fb (h a) (h hn) cnt k (h s).
  Proof.
    intros Hf. induction cnt as [|c IH]; intros k s; cbn [oddsum]; [reflexivity|].
    rewrite IH, (h_add _ _ _ H), Hf, (h_add _ _ _ H), (h_mul _ _ _ H), (h_ofZ _ _ _ H). reflexivity.
  Qed.
  Lemma h_col0 fa fb a b cnt : frel fa fb -> forall n prev,
    map h (col0 OA fa a b cnt n prev) = col0 OB fb (h a) (h b) cnt n (h prev).
  Proof.
    intros Hf. induction cnt as [|c IH]; intros n prev; cbn [col0 map]; [reflexivity|].
    rewrite IH. rewrite !(h_add _ _ _ H), !(h_mul _ _ _ H), (h_ofQ _ _ _ H).
    rewrite (h_oddsum fa fb _ _ _ Hf), h_negzero, (h_div _ _ _ H), (h_sub _ _ _ H), h_powi, h_two.
    reflexivity.
  Qed.
  Lemma h_extrap prevrow : forall m cur,
    map h (extrap OA prevrow m cur) = extrap OB (map h prevrow) m (h cur).
  Proof.
    induction prevrow as [|p pr IH]; intros m cur; cbn [extrap map]; [reflexivity|].
    rewrite IH. rewrite (h_add _ _ _ H), (h_div _ _ _ H), !(h_sub _ _ _ H), h_powi, (h_ofZ _ _ _ H), (h_one _ _ _ H).
    reflexivity.
  Qed.
  Lemma h_next_row prevrow r : map h (next_row OA prevrow r) = next_row OB (map h prevrow) (h r).
  Proof. unfold next_row. cbn [map]. rewrite h_extrap. reflexivity. Qed.
End Hom.
